import HbsModel.Lemmas.IfBodyTag
/-
  compile2 on  L ++ "{{#if v}}" ++ X ++ "{{/if}}" ++ W ++ R'  for EVERY body text X that begins and ends with a non-whitespace
  character: a helper block between texts, its body the one text element X; neither block tag is alone on its line, so nothing is
  trimmed.
-/
namespace Hbs.PlainText
open Hbs Hbs.Pest Hbs.Grammar

/-- the body text of the block theorems: text without `{{` / backslash, beginning and ending with a non-whitespace character -/
structure BlockText (X : Str) : Prop where
  body : BlockBody X
  last : ∃ P c, X = P ++ [c] ∧ isBlank c = false ∧ isNewline c = false

theorem ifXSrc_length (X : Str) : (ifXSrc X).length = X.length + 16 := by simp [ifXSrc, ifOpenSrc, ifCloseSrc] <;> omega

theorem ifXToks_shift (n a : Nat) : (ifXToks n).map (shiftTok a) =
    [⟨some .r_helper_block_start, a, a + 9⟩, ⟨some .r_identifier, a + 3, a + 5⟩, ⟨some .r_helper_parameter, a + 6, a + 7⟩, ⟨some .r_reference, a + 6, a + 7⟩,
     ⟨some .r_path_inline, a + 6, a + 7⟩, ⟨some .r_path_id, a + 6, a + 7⟩, ⟨some .r_template, a + 9, a + 9 + n⟩, ⟨some .r_raw_text, a + 9, a + 9 + n⟩,
     ⟨some .r_helper_block_end, a + 9 + n, a + 16 + n⟩, ⟨some .r_identifier, a + 12 + n, a + 14 + n⟩] := by
  simp only [ifXToks, ifOpenToks, List.cons_append, List.nil_append, List.map_cons, List.map_nil, shiftTok]
  repeat (first | rfl | (congr 1; · (congr 1 <;> omega)))

/-- the pair stream of  L ++ {{#if v}} X {{/if}} ++ W ++ R' -/
theorem parse_text_ifX_text (X L W R' : Str) (hX : BlockBody X) (hL : L = [] ∨ TextBeforeTag L) (hA : TextAfterTag W R') :
    let a := L.length
    let b := a + (X.length + 16)
    let d := b + W.length
    let n := d + R'.length
    Pest.parse rules ws .r_handlebars (L ++ ifXSrc X ++ (W ++ R'))
      = .ok ⟨n, []⟩ (⟨some .r_template, 0, if R' = [] then b else n⟩ ::
          (rawTok 0 a ++ (ifXToks X.length).map (shiftTok a) ++ rawTok d n ++ [⟨none, n, n⟩])) := by
  intro a b d n
  have hh := handlebars_text_tag_text L (['#', 'i', 'f', ' ', 'v', '}', '}'] ++ (X ++ ifCloseSrc)) W R' (X.length + 200) _ hL
    (by have := ifX_tagAt X hX; simpa [ifXSrc, ifOpenSrc] using this) hA
  have hlen := ifXSrc_length X
  have hn : (L ++ ifXSrc X ++ (W ++ R')).length = n := by simp [n, d, b, a, hlen]; omega
  simp only [] at hh
  have e0 : '{' :: '{' :: (['#', 'i', 'f', ' ', 'v', '}', '}'] ++ (X ++ ifCloseSrc)) = ifXSrc X := by simp [ifXSrc, ifOpenSrc]
  rw [e0] at hh
  have h' := hh.weaken (F' := defaultFuel (L ++ ifXSrc X ++ (W ++ R')).length) (by
    unfold defaultFuel
    rw [hn]
    have : X.length + 16 ≤ n := by simp only [n, d, b]; omega
    omega)
  unfold Pest.parse
  refine Eq.trans h'.1 ?_
  simp only [hn, hlen]
  rfl

/-- the opening tag, whatever the extent of the body's `template` pair -/
theorem step_if_startX (src : Str) (opts : TemplateOptions) (f a e : Nat) (T0 : Tmpl) (ep : Option Nat) (rest : List CTok)
    (hep : ep.getD 0 = a) (he : a + 9 ≤ e)
    (hid : tokStr src ⟨some .r_identifier, a + 3, a + 5, []⟩ = ['i', 'f'])
    (hv : tokStr src ⟨some .r_reference, a + 6, a + 7, []⟩ = ['v'])
    (hps : processStandalone [T0] src a (a + 9) true opts.isPartial = .ok (false, [T0])) :
    compileStep src opts (f + 6) { tmplStack := [T0], endPos := ep } ⟨some .r_helper_block_start, a, a + 9, []⟩
        (⟨some .r_identifier, a + 3, a + 5, []⟩ :: ⟨some .r_helper_parameter, a + 6, a + 7, []⟩ ::
         ⟨some .r_reference, a + 6, a + 7, []⟩ :: ⟨some .r_path_inline, a + 6, a + 7, []⟩ :: ⟨some .r_path_id, a + 6, a + 7, []⟩ ::
         ⟨some .r_template, a + 9, e, []⟩ :: rest)
      = .ok ({ tmplStack := [T0.pushMapping (lineCol src a).1 (lineCol src a).2], helperStack := [ifOpen],
               endPos := some (a + 9) }, ⟨some .r_template, a + 9, e, []⟩ :: rest) := by
  have hv' : tokStr src ⟨some .r_path_id, a + 6, a + 7, []⟩ = ['v'] := hv
  have h1 : ¬ (e < a + 9) := by omega
  have h2 : a + 7 < e := by omega
  simp [compileStep, hep, isBlockStart, isExprLike, parseExpression, parseName, parseParam, parsePathSegs, parseExprLoop, hid, hv, hv',
    frontMut, ifOpen, str, hps, HelperG.new, dropInside, h1, h2]

theorem step_if_endX (src : Str) (opts : TemplateOptions) (f a n : Nat) (T0 body : Tmpl) (r0 : CTok) (rest : List CTok)
    (hid : tokStr src ⟨some .r_identifier, a + 12 + n, a + 14 + n, []⟩ = ['i', 'f'])
    (hr0 : a + 16 + n ≤ r0.e)
    (hps : processStandalone [body, T0] src (a + 9 + n) (a + 16 + n) true opts.isPartial = .ok (false, [body, T0])) :
    compileStep src opts (f + 4) { tmplStack := [body, T0], helperStack := [ifOpen], endPos := some (a + 9 + n) }
        ⟨some .r_helper_block_end, a + 9 + n, a + 16 + n, []⟩ (⟨some .r_identifier, a + 12 + n, a + 14 + n, []⟩ :: r0 :: rest)
      = .ok ({ tmplStack := [T0.pushElemOnly (.block (ifHT body))], endPos := some (a + 16 + n) }, r0 :: rest) := by
  have h1 : ¬ (r0.e < a + 16 + n) := by omega
  simp [compileStep, isBlockStart, isExprLike, parseExpression, parseName, parseExprLoop, hid, h1, frontMut, ifOpen, ifHT, str, hps,
    HelperG.new, revertChainAndSet, Param.asName?]

/-- the body of the block as compile2 stores it: one text element, with the position of the text -/
def ifBodyX (X : Str) (lc : Nat × Nat) : Tmpl := Tmpl.empty.pushElement (.raw X) lc.1 lc.2

/-- **compile2 on  L ++ {{#if v}} X {{/if}} ++ W ++ R'** : the text in front, ONE block element (helper `if`, parameter the path `v`,
    body the text `X`, no else branch), the text behind – nothing trimmed, for every `L`, `X`, `W`, `R'` -/
theorem compile_text_ifX_text (X L W R' : Str) (opts : TemplateOptions) (hX : BlockText X)
    (hL : L = [] ∨ TextBeforeTag L) (hA : TextAfterTag W R') :
    ∃ m, compile2 (L ++ ifXSrc X ++ (W ++ R')) opts = .ok (.mk opts.name
      ((leftT L L).elements ++ [.block (ifHT (ifBodyX X (lineCol (L ++ ifXSrc X ++ (W ++ R')) (L.length + 9))))]
        ++ (if W ++ R' = [] then [] else [.raw (W ++ R')])) m) := by
  have hparse := parse_text_ifX_text X L W R' hX.body hL hA
  simp only [] at hparse
  have hlen := ifXSrc_length X
  obtain ⟨c0, t0, hX0, hc0⟩ := hX.body.first
  obtain ⟨P, cl, hXl, hclb, hcln⟩ := hX.last
  have hc0b : isBlank c0 = false := by
    cases hb : isBlank c0 with
    | false => rfl
    | true => simp only [isBlank, Bool.or_eq_true, beq_iff_eq] at hb; rcases hb with rfl | rfl <;> simp [isPestWs] at hc0
  have hc0n : isNewline c0 = false := by
    cases hb : isNewline c0 with
    | false => rfl
    | true => simp only [isNewline, Bool.or_eq_true, beq_iff_eq] at hb; rcases hb with rfl | rfl <;> simp [isPestWs] at hc0
  have hn : (L ++ ifXSrc X ++ (W ++ R')).length = L.length + (X.length + 16) + W.length + R'.length := by
    simp [hlen]; omega
  have hs0 : slice? (L ++ ifXSrc X ++ (W ++ R')) 0 L.length = some L := by
    rw [List.append_assoc]; exact slice_prefix L _
  have hsR : slice? (L ++ ifXSrc X ++ (W ++ R')) (L.length + (X.length + 16)) (L ++ ifXSrc X ++ (W ++ R')).length = some (W ++ R') :=
    slice_suffix (L ++ ifXSrc X) (W ++ R') _ (by simp [hlen])
  have hid1 : tokStr (L ++ ifXSrc X ++ (W ++ R')) ⟨some .r_identifier, L.length + 3, L.length + 5, []⟩ = ['i', 'f'] := by
    have : L ++ ifXSrc X ++ (W ++ R') = (L ++ ['{', '{', '#']) ++ ['i', 'f'] ++ ([' ', 'v', '}', '}'] ++ (X ++ ifCloseSrc) ++ (W ++ R')) := by
      simp [ifXSrc, ifOpenSrc]
    rw [this]
    exact tokStr_mid (L ++ ['{', '{', '#']) ['i', 'f'] _ ⟨some .r_identifier, L.length + 3, L.length + 5, []⟩ (by simp) (by simp)
  have hv : tokStr (L ++ ifXSrc X ++ (W ++ R')) ⟨some .r_reference, L.length + 6, L.length + 7, []⟩ = ['v'] := by
    have : L ++ ifXSrc X ++ (W ++ R') = (L ++ ['{', '{', '#', 'i', 'f', ' ']) ++ ['v'] ++ (['}', '}'] ++ (X ++ ifCloseSrc) ++ (W ++ R')) := by
      simp [ifXSrc, ifOpenSrc]
    rw [this]
    exact tokStr_mid (L ++ ['{', '{', '#', 'i', 'f', ' ']) ['v'] _ ⟨some .r_reference, L.length + 6, L.length + 7, []⟩ (by simp) (by simp)
  have hid2 : tokStr (L ++ ifXSrc X ++ (W ++ R')) ⟨some .r_identifier, L.length + 12 + X.length, L.length + 14 + X.length, []⟩ = ['i', 'f'] := by
    have : L ++ ifXSrc X ++ (W ++ R') = (L ++ ifOpenSrc ++ X ++ ['{', '{', '/']) ++ ['i', 'f'] ++ (['}', '}'] ++ (W ++ R')) := by
      simp [ifXSrc, ifCloseSrc]
    rw [this]
    exact tokStr_mid (L ++ ifOpenSrc ++ X ++ ['{', '{', '/']) ['i', 'f'] _ ⟨some .r_identifier, L.length + 12 + X.length, L.length + 14 + X.length, []⟩
      (by simp [ifOpenSrc]; omega) (by simp [ifOpenSrc]; omega)
  have hA1 : slice? (L ++ ifXSrc X ++ (W ++ R')) (L.length + 9) (L.length + 9 + X.length) = some X := by
    have : L ++ ifXSrc X ++ (W ++ R') = (L ++ ifOpenSrc) ++ X ++ (ifCloseSrc ++ (W ++ R')) := by simp [ifXSrc]
    rw [this]
    have := slice_middle (L ++ ifOpenSrc) X (ifCloseSrc ++ (W ++ R'))
    simpa [ifOpenSrc] using this
  have hc1 : slice? (L ++ ifXSrc X ++ (W ++ R')) (L.length + 9) (L ++ ifXSrc X ++ (W ++ R')).length
      = some (c0 :: (t0 ++ (ifCloseSrc ++ (W ++ R')))) := by
    have : L ++ ifXSrc X ++ (W ++ R') = (L ++ ifOpenSrc) ++ (c0 :: (t0 ++ (ifCloseSrc ++ (W ++ R')))) := by simp [ifXSrc, hX0]
    rw [this]
    exact slice_suffix _ _ _ (by simp [ifOpenSrc])
  have hb2 : slice? (L ++ ifXSrc X ++ (W ++ R')) 0 (L.length + 9 + X.length) = some ((L ++ ifOpenSrc ++ P) ++ [cl]) := by
    have : L ++ ifXSrc X ++ (W ++ R') = ((L ++ ifOpenSrc ++ P) ++ [cl]) ++ (ifCloseSrc ++ (W ++ R')) := by simp [ifXSrc, hXl]
    rw [this]
    have := slice_prefix ((L ++ ifOpenSrc ++ P) ++ [cl]) (ifCloseSrc ++ (W ++ R'))
    have hl : ((L ++ ifOpenSrc ++ P) ++ [cl]).length = L.length + 9 + X.length := by simp [ifOpenSrc, hXl]; omega
    rw [hl] at this; exact this
  generalize hsrc : L ++ ifXSrc X ++ (W ++ R') = src at *
  have hps1 : processStandalone [leftT L L] src L.length (L.length + 9) true opts.isPartial = .ok (false, [leftT L L]) :=
    processStandalone_text_follows _ src _ _ _ _ c0 _ hc1 hc0b hc0n
  have hps2 : ∀ (body : Tmpl) (T0 : Tmpl), processStandalone [body, T0] src (L.length + 9 + X.length) (L.length + 16 + X.length) true opts.isPartial
      = .ok (false, [body, T0]) := fun body T0 =>
    processStandalone_text_precedes _ src _ _ _ _ (W ++ R') cl hb2 (by omega)
      (by rw [show L.length + 16 + X.length = L.length + (X.length + 16) by omega]; exact hsR) hclb hcln
  obtain ⟨m, htail⟩ := loop_tail src W R' opts (3 * (rawTok 0 L.length).length + 3 * (rawTok (L.length + (X.length + 16) + W.length) src.length).length + 57)
    (L.length + (X.length + 16)) (((leftT L L).pushMapping (lineCol src L.length).1 (lineCol src L.length).2).pushElemOnly
      (.block (ifHT (ifBodyX X (lineCol src (L.length + 9)))))) false hn hsR
  refine ⟨m, ?_⟩
  unfold compile2 compile2Inner
  rw [hparse, ifXToks_shift]
  simp only []
  rw [attachEscapes_noEsc _ (by
    intro t ht
    simp only [List.mem_cons, List.mem_append, List.not_mem_nil, or_false] at ht
    rcases ht with rfl | ((h | rfl | rfl | rfl | rfl | rfl | rfl | rfl | rfl | rfl | rfl) | h) | rfl
    · show ((some Rule.r_template : Option Rule) == some Rule.r_escape) = false; decide
    · exact rawTok_rule _ _ t h
    · show ((some Rule.r_helper_block_start : Option Rule) == some Rule.r_escape) = false; decide
    · show ((some Rule.r_identifier : Option Rule) == some Rule.r_escape) = false; decide
    · show ((some Rule.r_helper_parameter : Option Rule) == some Rule.r_escape) = false; decide
    · show ((some Rule.r_reference : Option Rule) == some Rule.r_escape) = false; decide
    · show ((some Rule.r_path_inline : Option Rule) == some Rule.r_escape) = false; decide
    · show ((some Rule.r_path_id : Option Rule) == some Rule.r_escape) = false; decide
    · show ((some Rule.r_template : Option Rule) == some Rule.r_escape) = false; decide
    · show ((some Rule.r_raw_text : Option Rule) == some Rule.r_escape) = false; decide
    · show ((some Rule.r_helper_block_end : Option Rule) == some Rule.r_escape) = false; decide
    · show ((some Rule.r_identifier : Option Rule) == some Rule.r_escape) = false; decide
    · exact rawTok_rule _ _ t h
    · show ((none : Option Rule) == some Rule.r_escape) = false; decide)]
  rw [← hn]
  simp only [List.map_cons, List.map_append, List.length_cons, List.length_append, List.length_map, List.map_nil, List.length_nil,
    List.append_assoc, List.cons_append, List.nil_append]
  rw [show 4 * ((rawTok 0 L.length).length + ((rawTok (L.length + (X.length + 16) + W.length) src.length).length + (0 + 1) + 1 + 1 + 1 + 1 + 1 + 1 + 1 + 1 + 1 + 1) + 1) + 16
      = ((3 * (rawTok 0 L.length).length + 3 * (rawTok (L.length + (X.length + 16) + W.length) src.length).length + 54
          + ((rawTok (L.length + (X.length + 16) + W.length) src.length).length + 2)) + 6 + 1) + (1 + (rawTok 0 L.length).length) by omega]
  rw [loop_head src L opts _ _ _ hs0]
  obtain ⟨r0, rest, hrest, hr0⟩ := tail_head (L.length + (X.length + 16)) W.length src.length (by omega)
  have hep : (if L = [] then none else some L.length : Option Nat).getD 0 = L.length := by
    by_cases hLe : L = [] <;> simp [hLe]
  rw [hrest] at htail ⊢
  simp only [plainCTok]
  -- {{#if v}}
  have hstep1 := step_if_startX src opts
    (3 * (rawTok 0 L.length).length + 3 * (rawTok (L.length + (X.length + 16) + W.length) src.length).length + 54
      + ((rawTok (L.length + (X.length + 16) + W.length) src.length).length + 2))
    L.length (L.length + 9 + X.length) (leftT L L) _ (⟨some .r_raw_text, L.length + 9, L.length + 9 + X.length, []⟩ ::
      ⟨some .r_helper_block_end, L.length + 9 + X.length, L.length + 16 + X.length, []⟩ ::
      ⟨some .r_identifier, L.length + 12 + X.length, L.length + 14 + X.length, []⟩ :: r0 :: rest) hep (by omega) hid1 hv hps1
  rw [loop_step src opts _ (st1 L) _ _ _ _ (by unfold st1; exact hstep1)]
  -- the body's template and text
  rw [show 3 * (rawTok 0 L.length).length + 3 * (rawTok (L.length + (X.length + 16) + W.length) src.length).length + 54
        + ((rawTok (L.length + (X.length + 16) + W.length) src.length).length + 2) + 6
      = 3 * (rawTok 0 L.length).length + 3 * (rawTok (L.length + (X.length + 16) + W.length) src.length).length + 54
        + ((rawTok (L.length + (X.length + 16) + W.length) src.length).length + 2) + 4 + 1 + 1 by omega]
  rw [loop_step src opts _ _ _ _ _ _ (step_inner_template src opts _ _ _ _ _ _ _)]
  rw [loop_step src opts _ _ _ _ _ _ (step_inner_raw src X opts _ _ _ _ _ _ _ hA1 (by omega))]
  -- {{/if}}
  have hstep4 := step_if_endX src opts
    (3 * (rawTok 0 L.length).length + 3 * (rawTok (L.length + (X.length + 16) + W.length) src.length).length + 53
      + ((rawTok (L.length + (X.length + 16) + W.length) src.length).length + 2))
    L.length X.length ((leftT L L).pushMapping (lineCol src L.length).1 (lineCol src L.length).2) (ifBodyX X (lineCol src (L.length + 9))) r0 rest hid2
    (by omega) (hps2 _ _)
  rw [show 3 * (rawTok 0 L.length).length + 3 * (rawTok (L.length + (X.length + 16) + W.length) src.length).length + 54
        + ((rawTok (L.length + (X.length + 16) + W.length) src.length).length + 2) + 4
      = 3 * (rawTok 0 L.length).length + 3 * (rawTok (L.length + (X.length + 16) + W.length) src.length).length + 53
        + ((rawTok (L.length + (X.length + 16) + W.length) src.length).length + 2) + 4 + 1 by omega]
  rw [loop_step src opts _ _ _ _ _ _ (by have h4 := hstep4; unfold ifBodyX at h4; exact h4)]
  rw [show 3 * (rawTok 0 L.length).length + 3 * (rawTok (L.length + (X.length + 16) + W.length) src.length).length + 53
        + ((rawTok (L.length + (X.length + 16) + W.length) src.length).length + 2) + 4
      = 3 * (rawTok 0 L.length).length + 3 * (rawTok (L.length + (X.length + 16) + W.length) src.length).length + 57
        + ((rawTok (L.length + (X.length + 16) + W.length) src.length).length + 2) by omega]
  unfold ifBodyX at htail ⊢
  rw [show L.length + 16 + X.length = L.length + (X.length + 16) by omega]
  rw [htail]
  simp [Tmpl.pushElemOnly, Tmpl.pushMapping, Tmpl.elements]

end Hbs.PlainText
