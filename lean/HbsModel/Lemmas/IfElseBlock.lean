import HbsModel.Lemmas.IfBlock
/-
  compile2 on  L ++ "{{#if v}}A{{else}}B{{/if}}" ++ W ++ R' : a helper block with an else branch between texts.
-/
namespace Hbs.PlainText
open Hbs Hbs.Pest Hbs.Grammar

def ieSrc : Str := "{{#if v}}A{{else}}B{{/if}}".toList
def ieToks : List (Tok Rule) :=
  [⟨some .r_helper_block_start, 0, 9⟩, ⟨some .r_identifier, 3, 5⟩, ⟨some .r_helper_parameter, 6, 7⟩, ⟨some .r_reference, 6, 7⟩,
   ⟨some .r_path_inline, 6, 7⟩, ⟨some .r_path_id, 6, 7⟩, ⟨some .r_template, 9, 10⟩, ⟨some .r_raw_text, 9, 10⟩,
   ⟨some .r_invert_tag, 10, 18⟩, ⟨some .r_invert_tag_item, 12, 16⟩, ⟨some .r_template, 18, 19⟩, ⟨some .r_raw_text, 18, 19⟩,
   ⟨some .r_helper_block_end, 19, 26⟩, ⟨some .r_identifier, 22, 24⟩]

theorem ieSrc_eq : ieSrc = ['{', '{', '#', 'i', 'f', ' ', 'v', '}', '}', 'A', '{', '{', 'e', 'l', 's', 'e', '}', '}', 'B',
    '{', '{', '/', 'i', 'f', '}', '}'] := by decide

/-- decided on the regenerated grammar: the whole block with its else branch is ONE element of `template`, with these pairs -/
theorem ie_decided : evalK rules ws false 400 .nonAtomic templateAlt 0 ieSrc = some (.ok 26 [] ieToks) :=
  KRes.isOkWith_eq (by decide)

theorem ie_tagAt : TagAt ieSrc 400 ieToks := by
  intro p tail
  have := evalK_at rules ws rules_noSoi false tail (by simp) 400 .nonAtomic templateAlt rfl ieSrc _ ie_decided p
  refine ⟨?_, by simp [shiftRes, embedK]⟩
  rw [this]
  simp [shiftRes, embedK, ieSrc_eq, Nat.add_comm]

/-- the pair stream of  L ++ {{#if v}}A{{else}}B{{/if}} ++ W ++ R' -/
theorem parse_text_ie_text (L W R' : Str) (hL : L = [] ∨ TextBeforeTag L) (hA : TextAfterTag W R') :
    let a := L.length
    let b := a + 26
    let d := b + W.length
    let n := d + R'.length
    Pest.parse rules ws .r_handlebars (L ++ ieSrc ++ (W ++ R'))
      = .ok ⟨n, []⟩ (⟨some .r_template, 0, if R' = [] then b else n⟩ ::
          (rawTok 0 a ++ [⟨some .r_helper_block_start, a, a + 9⟩, ⟨some .r_identifier, a + 3, a + 5⟩,
              ⟨some .r_helper_parameter, a + 6, a + 7⟩, ⟨some .r_reference, a + 6, a + 7⟩, ⟨some .r_path_inline, a + 6, a + 7⟩,
              ⟨some .r_path_id, a + 6, a + 7⟩, ⟨some .r_template, a + 9, a + 10⟩, ⟨some .r_raw_text, a + 9, a + 10⟩,
              ⟨some .r_invert_tag, a + 10, a + 18⟩, ⟨some .r_invert_tag_item, a + 12, a + 16⟩,
              ⟨some .r_template, a + 18, a + 19⟩, ⟨some .r_raw_text, a + 18, a + 19⟩,
              ⟨some .r_helper_block_end, a + 19, a + 26⟩, ⟨some .r_identifier, a + 22, a + 24⟩]
            ++ rawTok d n ++ [⟨none, n, n⟩])) := by
  intro a b d n
  have h := handlebars_text_tag_text L ['#', 'i', 'f', ' ', 'v', '}', '}', 'A', '{', '{', 'e', 'l', 's', 'e', '}', '}', 'B',
    '{', '{', '/', 'i', 'f', '}', '}'] W R' 400 _ hL (by rw [← ieSrc_eq]; exact ie_tagAt) hA
  have hn : (L ++ ieSrc ++ (W ++ R')).length = n := by simp [n, d, b, a, ieSrc_eq]; omega
  simp only [] at h
  rw [ieSrc_eq]
  rw [ieSrc_eq] at hn
  have h' := h.weaken (F' := defaultFuel (L ++ ['{', '{', '#', 'i', 'f', ' ', 'v', '}', '}', 'A', '{', '{', 'e', 'l', 's', 'e', '}', '}', 'B',
    '{', '{', '/', 'i', 'f', '}', '}'] ++ (W ++ R')).length) (by
    unfold defaultFuel
    rw [hn]
    have : 26 ≤ n := by simp only [n, d, b]; omega
    omega)
  unfold Pest.parse
  refine Eq.trans h'.1 ?_
  have e1 : (L ++ '{' :: '{' :: ['#', 'i', 'f', ' ', 'v', '}', '}', 'A', '{', '{', 'e', 'l', 's', 'e', '}', '}', 'B',
    '{', '{', '/', 'i', 'f', '}', '}'] ++ (W ++ R')).length = n := hn
  simp only [e1, ieToks, List.map, shiftTok, Nat.zero_add, List.length_cons, List.length_nil]
  simp only [Nat.add_comm _ L.length]
  rfl

/-- `{{else}}` directly behind the body text and directly in front of the else text -/
theorem step_else (src : Str) (opts : TemplateOptions) (f s : Nat) (body T0 : Tmpl) (rest : List CTok)
    (hid : tokStr src ⟨some .r_invert_tag_item, s + 2, s + 6, []⟩ = ['e', 'l', 's', 'e'])
    (hps : processStandalone [body, T0] src s (s + 8) true opts.isPartial = .ok (false, [body, T0])) :
    compileStep src opts (f + 4) { tmplStack := [body, T0], helperStack := [ifOpen], endPos := some s }
        ⟨some .r_invert_tag, s, s + 8, []⟩ (⟨some .r_invert_tag_item, s + 2, s + 6, []⟩ :: ⟨some .r_template, s + 8, s + 9, []⟩ :: rest)
      = .ok ({ tmplStack := [T0], helperStack := [ifHT body], endPos := some (s + 8) }, ⟨some .r_template, s + 8, s + 9, []⟩ :: rest) := by
  simp [compileStep, isBlockStart, isExprLike, parseExpression, parseName, parseExprLoop, hid, frontMut, ifOpen, ifHT, str, hps,
    HelperG.new, setChainTemplate, chainHead?]

/-- the finished block with an else branch -/
def ifElseHT (body inv : Tmpl) : HelperT := { ifOpen with template := some body, inverse := some inv }

theorem step_ie_end (src : Str) (opts : TemplateOptions) (f s : Nat) (T0 body inv : Tmpl) (r0 : CTok) (rest : List CTok)
    (hid : tokStr src ⟨some .r_identifier, s + 3, s + 5, []⟩ = ['i', 'f'])
    (hr0 : s + 7 ≤ r0.e)
    (hps : processStandalone [inv, T0] src s (s + 7) true opts.isPartial = .ok (false, [inv, T0])) :
    compileStep src opts (f + 4) { tmplStack := [inv, T0], helperStack := [ifHT body], endPos := some s }
        ⟨some .r_helper_block_end, s, s + 7, []⟩ (⟨some .r_identifier, s + 3, s + 5, []⟩ :: r0 :: rest)
      = .ok ({ tmplStack := [T0.pushElemOnly (.block (ifElseHT body inv))], endPos := some (s + 7) }, r0 :: rest) := by
  have h1 : ¬ (r0.e < s + 7) := by omega
  simp [compileStep, isBlockStart, isExprLike, parseExpression, parseName, parseExprLoop, hid, h1, frontMut, ifOpen, ifHT, ifElseHT, str, hps,
    HelperG.new, revertChainAndSet, Param.asName?]

/-- the else branch as compile2 stores it -/
def ieInv (lc : Nat × Nat) : Tmpl := Tmpl.empty.pushElement (.raw ['B']) lc.1 lc.2

/-- **compile2 on  L ++ {{#if v}}A{{else}}B{{/if}} ++ W ++ R'** : the text in front, ONE block element (helper `if`, parameter the
    path `v`, body the text `A`, else branch the text `B`), the text behind – nothing trimmed, for every `L`, `W`, `R'` -/
theorem compile_text_ie_text (L W R' : Str) (opts : TemplateOptions)
    (hL : L = [] ∨ TextBeforeTag L) (hA : TextAfterTag W R') :
    ∃ m, compile2 (L ++ ieSrc ++ (W ++ R')) opts = .ok (.mk opts.name
      ((leftT L L).elements ++ [.block (ifElseHT (ifBody (lineCol (L ++ ieSrc ++ (W ++ R')) (L.length + 9)))
          (ieInv (lineCol (L ++ ieSrc ++ (W ++ R')) (L.length + 18))))]
        ++ (if W ++ R' = [] then [] else [.raw (W ++ R')])) m) := by
  have hparse := parse_text_ie_text L W R' hL hA
  simp only [] at hparse
  have hn : (L ++ ieSrc ++ (W ++ R')).length = L.length + 26 + W.length + R'.length := by
    simp [ieSrc_eq]; omega
  have hs0 : slice? (L ++ ieSrc ++ (W ++ R')) 0 L.length = some L := by
    rw [List.append_assoc]; exact slice_prefix L _
  have hsR : slice? (L ++ ieSrc ++ (W ++ R')) (L.length + 26) (L ++ ieSrc ++ (W ++ R')).length = some (W ++ R') :=
    slice_suffix (L ++ ieSrc) (W ++ R') _ (by simp [ieSrc_eq])
  have hid1 : tokStr (L ++ ieSrc ++ (W ++ R')) ⟨some .r_identifier, L.length + 3, L.length + 5, []⟩ = ['i', 'f'] := by
    have : L ++ ieSrc ++ (W ++ R') = (L ++ ['{', '{', '#']) ++ ['i', 'f'] ++ ([' ', 'v', '}', '}', 'A', '{', '{', 'e', 'l', 's', 'e', '}', '}', 'B', '{', '{', '/', 'i', 'f', '}', '}'] ++ (W ++ R')) := by
      simp [ieSrc_eq]
    rw [this]
    exact tokStr_mid (L ++ ['{', '{', '#']) ['i', 'f'] _ _ (by simp) (by simp)
  have hv : tokStr (L ++ ieSrc ++ (W ++ R')) ⟨some .r_reference, L.length + 6, L.length + 7, []⟩ = ['v'] := by
    have : L ++ ieSrc ++ (W ++ R') = (L ++ ['{', '{', '#', 'i', 'f', ' ']) ++ ['v'] ++ (['}', '}', 'A', '{', '{', 'e', 'l', 's', 'e', '}', '}', 'B', '{', '{', '/', 'i', 'f', '}', '}'] ++ (W ++ R')) := by
      simp [ieSrc_eq]
    rw [this]
    exact tokStr_mid (L ++ ['{', '{', '#', 'i', 'f', ' ']) ['v'] _ _ (by simp) (by simp)
  have hel : tokStr (L ++ ieSrc ++ (W ++ R')) ⟨some .r_invert_tag_item, L.length + 12, L.length + 16, []⟩ = ['e', 'l', 's', 'e'] := by
    have : L ++ ieSrc ++ (W ++ R') = (L ++ ['{', '{', '#', 'i', 'f', ' ', 'v', '}', '}', 'A', '{', '{']) ++ ['e', 'l', 's', 'e'] ++ (['}', '}', 'B', '{', '{', '/', 'i', 'f', '}', '}'] ++ (W ++ R')) := by
      simp [ieSrc_eq]
    rw [this]
    exact tokStr_mid (L ++ ['{', '{', '#', 'i', 'f', ' ', 'v', '}', '}', 'A', '{', '{']) ['e', 'l', 's', 'e'] _ _ (by simp) (by simp)
  have hid2 : tokStr (L ++ ieSrc ++ (W ++ R')) ⟨some .r_identifier, L.length + 22, L.length + 24, []⟩ = ['i', 'f'] := by
    have : L ++ ieSrc ++ (W ++ R') = (L ++ ['{', '{', '#', 'i', 'f', ' ', 'v', '}', '}', 'A', '{', '{', 'e', 'l', 's', 'e', '}', '}', 'B', '{', '{', '/']) ++ ['i', 'f'] ++ (['}', '}'] ++ (W ++ R')) := by
      simp [ieSrc_eq]
    rw [this]
    exact tokStr_mid (L ++ ['{', '{', '#', 'i', 'f', ' ', 'v', '}', '}', 'A', '{', '{', 'e', 'l', 's', 'e', '}', '}', 'B', '{', '{', '/']) ['i', 'f'] _ _ (by simp) (by simp)
  have hA1 : slice? (L ++ ieSrc ++ (W ++ R')) (L.length + 9) (L.length + 10) = some ['A'] := by
    have : L ++ ieSrc ++ (W ++ R') = (L ++ ['{', '{', '#', 'i', 'f', ' ', 'v', '}', '}']) ++ ['A'] ++ (['{', '{', 'e', 'l', 's', 'e', '}', '}', 'B', '{', '{', '/', 'i', 'f', '}', '}'] ++ (W ++ R')) := by
      simp [ieSrc_eq]
    rw [this]
    have := slice_middle (L ++ ['{', '{', '#', 'i', 'f', ' ', 'v', '}', '}']) ['A'] (['{', '{', 'e', 'l', 's', 'e', '}', '}', 'B', '{', '{', '/', 'i', 'f', '}', '}'] ++ (W ++ R'))
    simpa using this
  have hB1 : slice? (L ++ ieSrc ++ (W ++ R')) (L.length + 18) (L.length + 19) = some ['B'] := by
    have : L ++ ieSrc ++ (W ++ R') = (L ++ ['{', '{', '#', 'i', 'f', ' ', 'v', '}', '}', 'A', '{', '{', 'e', 'l', 's', 'e', '}', '}']) ++ ['B'] ++ (['{', '{', '/', 'i', 'f', '}', '}'] ++ (W ++ R')) := by
      simp [ieSrc_eq]
    rw [this]
    have := slice_middle (L ++ ['{', '{', '#', 'i', 'f', ' ', 'v', '}', '}', 'A', '{', '{', 'e', 'l', 's', 'e', '}', '}']) ['B'] (['{', '{', '/', 'i', 'f', '}', '}'] ++ (W ++ R'))
    simpa using this
  have hc1 : slice? (L ++ ieSrc ++ (W ++ R')) (L.length + 9) (L ++ ieSrc ++ (W ++ R')).length
      = some ('A' :: (['{', '{', 'e', 'l', 's', 'e', '}', '}', 'B', '{', '{', '/', 'i', 'f', '}', '}'] ++ (W ++ R'))) := by
    have : L ++ ieSrc ++ (W ++ R') = (L ++ ['{', '{', '#', 'i', 'f', ' ', 'v', '}', '}']) ++ ('A' :: (['{', '{', 'e', 'l', 's', 'e', '}', '}', 'B', '{', '{', '/', 'i', 'f', '}', '}'] ++ (W ++ R'))) := by
      simp [ieSrc_eq]
    rw [this]
    exact slice_suffix _ _ _ (by simp)
  have hc2 : slice? (L ++ ieSrc ++ (W ++ R')) (L.length + 18) (L ++ ieSrc ++ (W ++ R')).length
      = some ('B' :: (['{', '{', '/', 'i', 'f', '}', '}'] ++ (W ++ R'))) := by
    have : L ++ ieSrc ++ (W ++ R') = (L ++ ['{', '{', '#', 'i', 'f', ' ', 'v', '}', '}', 'A', '{', '{', 'e', 'l', 's', 'e', '}', '}']) ++ ('B' :: (['{', '{', '/', 'i', 'f', '}', '}'] ++ (W ++ R'))) := by
      simp [ieSrc_eq]
    rw [this]
    exact slice_suffix _ _ _ (by simp)
  have hb1 : slice? (L ++ ieSrc ++ (W ++ R')) 0 (L.length + 10) = some ((L ++ ['{', '{', '#', 'i', 'f', ' ', 'v', '}', '}']) ++ ['A']) := by
    have : L ++ ieSrc ++ (W ++ R') = ((L ++ ['{', '{', '#', 'i', 'f', ' ', 'v', '}', '}']) ++ ['A']) ++ (['{', '{', 'e', 'l', 's', 'e', '}', '}', 'B', '{', '{', '/', 'i', 'f', '}', '}'] ++ (W ++ R')) := by
      simp [ieSrc_eq]
    rw [this]
    have := slice_prefix ((L ++ ['{', '{', '#', 'i', 'f', ' ', 'v', '}', '}']) ++ ['A']) (['{', '{', 'e', 'l', 's', 'e', '}', '}', 'B', '{', '{', '/', 'i', 'f', '}', '}'] ++ (W ++ R'))
    simpa using this
  have hb2 : slice? (L ++ ieSrc ++ (W ++ R')) 0 (L.length + 19) = some ((L ++ ['{', '{', '#', 'i', 'f', ' ', 'v', '}', '}', 'A', '{', '{', 'e', 'l', 's', 'e', '}', '}']) ++ ['B']) := by
    have : L ++ ieSrc ++ (W ++ R') = ((L ++ ['{', '{', '#', 'i', 'f', ' ', 'v', '}', '}', 'A', '{', '{', 'e', 'l', 's', 'e', '}', '}']) ++ ['B']) ++ (['{', '{', '/', 'i', 'f', '}', '}'] ++ (W ++ R')) := by
      simp [ieSrc_eq]
    rw [this]
    have := slice_prefix ((L ++ ['{', '{', '#', 'i', 'f', ' ', 'v', '}', '}', 'A', '{', '{', 'e', 'l', 's', 'e', '}', '}']) ++ ['B']) (['{', '{', '/', 'i', 'f', '}', '}'] ++ (W ++ R'))
    simpa using this
  generalize hsrc : L ++ ieSrc ++ (W ++ R') = src at *
  have hps1 : processStandalone [leftT L L] src L.length (L.length + 9) true opts.isPartial = .ok (false, [leftT L L]) :=
    processStandalone_text_follows _ src _ _ _ _ 'A' _ hc1 (by decide) (by decide)
  have hps2 : ∀ (body T0 : Tmpl), processStandalone [body, T0] src (L.length + 10) (L.length + 10 + 8) true opts.isPartial
      = .ok (false, [body, T0]) := fun body T0 =>
    processStandalone_text_follows _ src _ _ _ _ 'B' _ hc2 (by decide) (by decide)
  have hps3 : ∀ (inv T0 : Tmpl), processStandalone [inv, T0] src (L.length + 19) (L.length + 19 + 7) true opts.isPartial
      = .ok (false, [inv, T0]) := fun inv T0 =>
    processStandalone_text_precedes _ src _ _ _ _ (W ++ R') 'B' hb2 (by omega) hsR (by decide) (by decide)
  obtain ⟨m, htail⟩ := loop_tail src W R' opts (3 * (rawTok 0 L.length).length + 3 * (rawTok (L.length + 26 + W.length) src.length).length + 70)
    (L.length + 26) (((leftT L L).pushMapping (lineCol src L.length).1 (lineCol src L.length).2).pushElemOnly
      (.block (ifElseHT (ifBody (lineCol src (L.length + 9))) (ieInv (lineCol src (L.length + 18)))))) false hn hsR
  refine ⟨m, ?_⟩
  unfold compile2 compile2Inner
  rw [hparse]
  simp only []
  rw [attachEscapes_noEsc _ (by
    intro t ht
    simp only [List.mem_cons, List.mem_append, List.not_mem_nil, or_false] at ht
    rcases ht with rfl | ((h | rfl | rfl | rfl | rfl | rfl | rfl | rfl | rfl | rfl | rfl | rfl | rfl | rfl | rfl) | h) | rfl
    · show ((some Rule.r_template : Option Rule) == some Rule.r_escape) = false; decide
    · exact rawTok_rule _ _ t h
    · show ((some Rule.r_helper_block_start : Option Rule) == some Rule.r_escape) = false; decide
    · show ((some Rule.r_identifier : Option Rule) == some Rule.r_escape) = false; decide
    · show ((some Rule.r_helper_parameter : Option Rule) == some Rule.r_escape) = false; decide
    · show ((some Rule.r_reference : Option Rule) == some Rule.r_escape) = false; decide
    · show ((some Rule.r_path_inline : Option Rule) == some Rule.r_escape) = false; decide
    · show ((some Rule.r_path_id : Option Rule) == some Rule.r_escape) = false; decide
    · show ((some Rule.r_template : Option Rule) == some Rule.r_escape) = false; decide
    · show ((some Rule.r_raw_text : Option Rule) == some Rule.r_escape) = false; decide
    · show ((some Rule.r_invert_tag : Option Rule) == some Rule.r_escape) = false; decide
    · show ((some Rule.r_invert_tag_item : Option Rule) == some Rule.r_escape) = false; decide
    · show ((some Rule.r_template : Option Rule) == some Rule.r_escape) = false; decide
    · show ((some Rule.r_raw_text : Option Rule) == some Rule.r_escape) = false; decide
    · show ((some Rule.r_helper_block_end : Option Rule) == some Rule.r_escape) = false; decide
    · show ((some Rule.r_identifier : Option Rule) == some Rule.r_escape) = false; decide
    · exact rawTok_rule _ _ t h
    · show ((none : Option Rule) == some Rule.r_escape) = false; decide)]
  rw [← hn]
  simp only [List.map_cons, List.map_append, List.length_cons, List.length_append, List.length_map, List.map_nil, List.length_nil,
    List.append_assoc, List.cons_append, List.nil_append]
  rw [show 4 * ((rawTok 0 L.length).length + ((rawTok (L.length + 26 + W.length) src.length).length + (0 + 1) + 1 + 1 + 1 + 1 + 1 + 1 + 1 + 1 + 1 + 1 + 1 + 1 + 1 + 1) + 1) + 16
      = ((3 * (rawTok 0 L.length).length + 3 * (rawTok (L.length + 26 + W.length) src.length).length + 66 + ((rawTok (L.length + 26 + W.length) src.length).length + 2) + 4) + 6 + 1) + (1 + (rawTok 0 L.length).length) by omega]
  rw [loop_head src L opts _ _ _ hs0]
  obtain ⟨r0, rest, hrest, hr0⟩ := tail_head (L.length + 26) W.length src.length (by omega)
  have hep : (if L = [] then none else some L.length : Option Nat).getD 0 = L.length := by
    by_cases hLe : L = [] <;> simp [hLe]
  rw [hrest] at htail ⊢
  simp only [plainCTok]
  -- {{#if v}}
  have hstep1 := step_if_start src opts (3 * (rawTok 0 L.length).length + 3 * (rawTok (L.length + 26 + W.length) src.length).length + 66 + ((rawTok (L.length + 26 + W.length) src.length).length + 2) + 4) L.length (leftT L L) _
    (⟨some .r_raw_text, L.length + 9, L.length + 10, []⟩ :: ⟨some .r_invert_tag, L.length + 10, L.length + 18, []⟩ ::
      ⟨some .r_invert_tag_item, L.length + 12, L.length + 16, []⟩ :: ⟨some .r_template, L.length + 18, L.length + 19, []⟩ ::
      ⟨some .r_raw_text, L.length + 18, L.length + 19, []⟩ :: ⟨some .r_helper_block_end, L.length + 19, L.length + 26, []⟩ ::
      ⟨some .r_identifier, L.length + 22, L.length + 24, []⟩ :: r0 :: rest) hep hid1 hv hps1
  rw [loop_step src opts _ (st1 L) _ _ _ _ (by unfold st1; exact hstep1)]
  -- the body
  rw [show 3 * (rawTok 0 L.length).length + 3 * (rawTok (L.length + 26 + W.length) src.length).length + 66 + ((rawTok (L.length + 26 + W.length) src.length).length + 2) + 4 + 6 = 3 * (rawTok 0 L.length).length + 3 * (rawTok (L.length + 26 + W.length) src.length).length + 66 + ((rawTok (L.length + 26 + W.length) src.length).length + 2) + 8 + 1 + 1 by omega]
  rw [loop_step src opts _ _ _ _ _ _ (step_inner_template src opts _ _ _ _ _ _ _)]
  rw [loop_step src opts _ _ _ _ _ _ (step_inner_raw src ['A'] opts _ _ _ _ _ _ _ hA1 (by simp))]
  -- {{else}}
  have hstep4 := step_else src opts (3 * (rawTok 0 L.length).length + 3 * (rawTok (L.length + 26 + W.length) src.length).length + 66 + ((rawTok (L.length + 26 + W.length) src.length).length + 2) + 3) (L.length + 10) (ifBody (lineCol src (L.length + 9)))
    ((leftT L L).pushMapping (lineCol src L.length).1 (lineCol src L.length).2)
    (⟨some .r_raw_text, L.length + 18, L.length + 19, []⟩ :: ⟨some .r_helper_block_end, L.length + 19, L.length + 26, []⟩ ::
      ⟨some .r_identifier, L.length + 22, L.length + 24, []⟩ :: r0 :: rest) hel (hps2 _ _)
  rw [show 3 * (rawTok 0 L.length).length + 3 * (rawTok (L.length + 26 + W.length) src.length).length + 66 + ((rawTok (L.length + 26 + W.length) src.length).length + 2) + 8 = 3 * (rawTok 0 L.length).length + 3 * (rawTok (L.length + 26 + W.length) src.length).length + 66 + ((rawTok (L.length + 26 + W.length) src.length).length + 2) + 3 + 4 + 1 by omega]
  rw [loop_step src opts _ _ _ _ _ _ (by have h4 := hstep4; unfold ifBody at h4; exact h4)]
  -- the else branch
  rw [show 3 * (rawTok 0 L.length).length + 3 * (rawTok (L.length + 26 + W.length) src.length).length + 66 + ((rawTok (L.length + 26 + W.length) src.length).length + 2) + 3 + 4 = 3 * (rawTok 0 L.length).length + 3 * (rawTok (L.length + 26 + W.length) src.length).length + 66 + ((rawTok (L.length + 26 + W.length) src.length).length + 2) + 5 + 1 + 1 by omega]
  rw [loop_step src opts _ _ _ _ _ _ (step_inner_template src opts _ _ _ _ _ _ _)]
  rw [loop_step src opts _ _ _ _ _ _ (step_inner_raw src ['B'] opts _ _ _ _ _ _ _ hB1 (by simp))]
  -- {{/if}}
  have hstep7 := step_ie_end src opts (3 * (rawTok 0 L.length).length + 3 * (rawTok (L.length + 26 + W.length) src.length).length + 66 + ((rawTok (L.length + 26 + W.length) src.length).length + 2)) (L.length + 19)
    ((leftT L L).pushMapping (lineCol src L.length).1 (lineCol src L.length).2) (ifBody (lineCol src (L.length + 9)))
    (ieInv (lineCol src (L.length + 18))) r0 rest hid2 hr0 (hps3 _ _)
  rw [show 3 * (rawTok 0 L.length).length + 3 * (rawTok (L.length + 26 + W.length) src.length).length + 66 + ((rawTok (L.length + 26 + W.length) src.length).length + 2) + 5 = 3 * (rawTok 0 L.length).length + 3 * (rawTok (L.length + 26 + W.length) src.length).length + 66 + ((rawTok (L.length + 26 + W.length) src.length).length + 2) + 4 + 1 by omega]
  rw [loop_step src opts _ _ _ _ _ _ (by have h7 := hstep7; unfold ifBody ieInv at h7; exact h7)]
  rw [show 3 * (rawTok 0 L.length).length + 3 * (rawTok (L.length + 26 + W.length) src.length).length + 66 + ((rawTok (L.length + 26 + W.length) src.length).length + 2) + 4 = 3 * (rawTok 0 L.length).length + 3 * (rawTok (L.length + 26 + W.length) src.length).length + 70 + ((rawTok (L.length + 26 + W.length) src.length).length + 2) by omega]
  unfold ifBody ieInv at htail ⊢
  rw [htail]
  simp [Tmpl.pushElemOnly, Tmpl.pushMapping, Tmpl.elements]

end Hbs.PlainText
