import HbsModel.Lemmas.RM
/-
  A generic induction principle over the whole renderer: any predicate on render computations that
  is closed under the combinators the renderer is written with (return, bind, get/modify, throw,
  write, error mapping, output capture, the partial's cleanup wrapper, fuel exhaustion) and holds of
  the few leaf computations holds of EVERY function of the mutual block, for every fuel, template,
  helper, argument and state.  Used for "append-only" (C19) and "never panics" (C05).
-/
namespace Hbs
open RM

structure RMPred where
  P : {α : Type} → RM α → Prop
  /-- the weaker predicate that the iteration of `each` satisfies (it rewrites the block it iterates in);
      for most instances `Q = P` -/
  Q : {α : Type} → RM α → Prop
  sub : ∀ {α : Type} (x : RM α), P x → Q x
  ret : ∀ {α : Type} (a : α), P (RM.ret a)
  bnd : ∀ {α β : Type} (x : RM α) (f : α → RM β), P x → (∀ a, P (f a)) → P (RM.bnd x f)
  qbnd : ∀ {α β : Type} (x : RM α) (f : α → RM β), Q x → (∀ a, Q (f a)) → Q (RM.bnd x f)
  get : P RM.get
  /-- updates outside the frame (write-state flags, template name, inline partials, local helpers, …) -/
  modifyAux : ∀ f, P (RM.modifyAux f)
  /-- `rc.block_mut()` of the iteration of `each` -/
  frontMod : ∀ f, Q (modifyFrontBlock f)
  throw : ∀ {α : Type} (e : RenderError), P (RM.throw e : RM α)
  outOfFuel : ∀ {α : Type}, P (RM.outOfFuel : RM α)
  write : ∀ s, P (RM.write s)
  /-- `map_err` with a function that keeps the error's reason (the two uses in the renderer add a position
      and a template name) -/
  mapErr : ∀ {α : Type} (x : RM α) (f : RenderError → RenderError), (∀ e, (f e).reason = e.reason) → P x → P (RM.mapErr x f)
  captured : ∀ {α : Type} (x : RM α), P x → P (RM.captured x)
  /-- the bracketing combinators: the only places where the frame changes -/
  withBlock : ∀ {α : Type} (b : Block) (x : RM α), Q x → P (RM.withBlock b x)
  escOffReset : ∀ {α : Type} (x : RM α), P x → P (RM.escOffReset x)
  escOffSaved : ∀ {α : Type} (x : RM α), P x → P (RM.escOffSaved x)
  partialScope : ∀ (isPB : Bool) (merged : Json) (indent : Option Str) (pb : Option Tmpl) (x : RM Unit),
    P x → P (RM.partialScope isPB merged indent pb x)
  -- leaves whose bodies mention `panic` (shown unreachable per predicate)
  navigate : ∀ root segs blocks, P (navigate root segs blocks)

namespace RMPred
variable (R : RMPred)

theorem pure' {α : Type} (a : α) : R.P (pure a : RM α) := R.ret a
theorem throwR {α : Type} (r : RReason) : R.P (RM.throwR r : RM α) := R.throw _

theorem evaluate2 (root : Json) (p : Path) : R.P (Hbs.evaluate2 root p) := by
  unfold Hbs.evaluate2
  simp only [RM.bind_def, RM.pure_def]
  apply R.bnd _ _ R.get
  intro rc
  repeat' with_reducible first
    | exact R.ret _
    | exact R.navigate _ _ _
    | split

theorem evaluate (root : Json) (raw : Str) : R.P (Hbs.evaluate root raw) := by
  unfold Hbs.evaluate
  split
  · exact R.evaluate2 _ _
  · exact R.throwR _

theorem writeAll (ss : List Str) : R.P (Hbs.writeAll ss) := by
  induction ss with
  | nil => exact R.ret ()
  | cons s ss ih =>
    simp only [Hbs.writeAll, RM.bind_def]
    exact R.bnd _ _ (R.write s) (fun _ => ih)

theorem writeIndented (v ind : Str) : R.P (Hbs.writeIndented v ind) := R.writeAll _

theorem indentAwareWrite (v : Str) : R.P (Hbs.indentAwareWrite v) := by
  unfold Hbs.indentAwareWrite
  simp only [RM.bind_def, RM.pure_def]
  repeat' with_reducible first
    | exact R.ret _
    | exact R.modifyAux _
    | exact R.get
    | exact R.write _
    | exact R.writeIndented _ _
    | apply R.bnd
    | intro _
    | split

/-- the predicate holds of every function of the renderer at a given fuel -/
structure All (reg : Registry) (root : Json) (fuel : Nat) : Prop where
  expandAsName : ∀ p, R.P (Hbs.expandAsName reg root fuel p)
  expandParam : ∀ p, R.P (Hbs.expandParam reg root fuel p)
  expandParams : ∀ ps, R.P (Hbs.expandParams reg root fuel ps)
  expandHash : ∀ ps, R.P (Hbs.expandHash reg root fuel ps)
  helperFromTemplate : ∀ ht, R.P (Hbs.helperFromTemplate reg root fuel ht)
  decoFromTemplate : ∀ dt, R.P (Hbs.decoFromTemplate reg root fuel dt)
  callHelperForValue : ∀ d h, R.P (Hbs.callHelperForValue reg root fuel d h)
  callHelper : ∀ d h, R.P (Hbs.callHelper reg root fuel d h)
  eachLoop : ∀ t h p len items, R.Q (Hbs.eachLoop reg root fuel t h p len items)
  renderHelper : ∀ ht, R.P (Hbs.renderHelper reg root fuel ht)
  renderElem : ∀ e, R.P (Hbs.renderElem reg root fuel e)
  renderExpression : ∀ ht, R.P (Hbs.renderExpression reg root fuel ht)
  evalDecorator : ∀ dt, R.P (Hbs.evalDecorator reg root fuel dt)
  evalElems : ∀ tn es m, R.P (Hbs.evalElems reg root fuel tn es m)
  renderElems : ∀ tn es m, R.P (Hbs.renderElems reg root fuel tn es m)
  renderTemplate : ∀ t, R.P (Hbs.renderTemplate reg root fuel t)
  expandPartial : ∀ d, R.P (Hbs.expandPartial reg root fuel d)

macro "rm_auto" R:ident ih:ident : tactic => `(tactic|
  repeat' with_reducible first
    | exact ($R).ret _
    | exact ($R).get
    | exact ($R).throw _
    | exact ($R).throwR _
    | exact ($R).outOfFuel
    | exact ($R).write _
    | exact ($R).indentAwareWrite _
    | exact ($R).evaluate2 _ _
    | exact ($R).evaluate _ _
    | exact ($ih).expandAsName _
    | exact ($ih).expandParam _
    | exact ($ih).expandParams _
    | exact ($ih).expandHash _
    | exact ($ih).helperFromTemplate _
    | exact ($ih).decoFromTemplate _
    | exact ($ih).callHelperForValue _ _
    | exact ($ih).callHelper _ _
    | exact ($ih).eachLoop _ _ _ _ _
    | exact ($ih).renderHelper _
    | exact ($ih).renderElem _
    | exact ($ih).renderExpression _
    | exact ($ih).evalDecorator _
    | exact ($ih).evalElems _ _ _
    | exact ($ih).renderElems _ _ _
    | exact ($ih).renderTemplate _
    | exact ($ih).expandPartial _
    | exact decorateRender_reason _ _
    | exact decorateEval_reason _ _
    | exact ($R).modifyAux _
    | apply ($R).mapErr
    | apply ($R).captured
    | apply ($R).withBlock
    | apply ($R).escOffReset
    | apply ($R).escOffSaved
    | apply ($R).partialScope
    | apply ($R).bnd
    | apply ($R).sub
    | intro _
    | split)

theorem all_zero (reg : Registry) (root : Json) : R.All reg root 0 := by
  constructor
  · intro p; simp only [Hbs.expandAsName]; exact R.outOfFuel
  · intro p; simp only [Hbs.expandParam]; exact R.outOfFuel
  · intro p; simp only [Hbs.expandParams]; exact R.outOfFuel
  · intro p; simp only [Hbs.expandHash]; exact R.outOfFuel
  · intro p; simp only [Hbs.helperFromTemplate]; exact R.outOfFuel
  · intro p; simp only [Hbs.decoFromTemplate]; exact R.outOfFuel
  · intro d h; simp only [Hbs.callHelperForValue]; exact R.outOfFuel
  · intro d h; simp only [Hbs.callHelper]; exact R.outOfFuel
  · intro t h p l i; simp only [Hbs.eachLoop]; exact R.sub _ R.outOfFuel
  · intro p; simp only [Hbs.renderHelper]; exact R.outOfFuel
  · intro p; simp only [Hbs.renderElem]; exact R.outOfFuel
  · intro p; simp only [Hbs.renderExpression]; exact R.outOfFuel
  · intro p; simp only [Hbs.evalDecorator]; exact R.outOfFuel
  · intro a b c; simp only [Hbs.evalElems]; exact R.outOfFuel
  · intro a b c; simp only [Hbs.renderElems]; exact R.outOfFuel
  · intro p; simp only [Hbs.renderTemplate]; exact R.outOfFuel
  · intro p; simp only [Hbs.expandPartial]; exact R.outOfFuel

theorem all_succ (reg : Registry) (root : Json) (fuel : Nat) (ih : R.All reg root fuel) :
    R.All reg root (fuel + 1) := by
  constructor
  · intro p; simp only [Hbs.expandAsName, RM.bind_def, RM.pure_def]; rm_auto R ih
  · intro p; simp only [Hbs.expandParam, RM.bind_def, RM.pure_def]; rm_auto R ih
  · intro ps; cases ps <;> simp only [Hbs.expandParams, RM.bind_def, RM.pure_def] <;> rm_auto R ih
  · intro ps; cases ps <;> simp only [Hbs.expandHash, RM.bind_def, RM.pure_def] <;> rm_auto R ih
  · intro ht; simp only [Hbs.helperFromTemplate, RM.bind_def, RM.pure_def]; rm_auto R ih
  · intro dt; simp only [Hbs.decoFromTemplate, RM.bind_def, RM.pure_def]; rm_auto R ih
  · intro d h; simp only [Hbs.callHelperForValue, RM.bind_def, RM.pure_def]; rm_auto R ih
  · intro d h; simp only [Hbs.callHelper, RM.bind_def, RM.pure_def]; rm_auto R ih
  · intro t h p len items
    cases items with
    | nil => simp only [Hbs.eachLoop, RM.pure_def]; exact R.sub _ (R.ret _)
    | cons it rest =>
      obtain ⟨i, key, rel, v⟩ := it
      simp only [Hbs.eachLoop, RM.bind_def]
      exact R.qbnd _ _ (R.frontMod _) (fun _ => R.qbnd _ _ (R.sub _ (ih.renderTemplate _)) (fun _ => ih.eachLoop _ _ _ _ _))
  · intro ht; simp only [Hbs.renderHelper, RM.bind_def, RM.pure_def]; rm_auto R ih
  · intro e; simp only [Hbs.renderElem, RM.bind_def, RM.pure_def]; rm_auto R ih
  · intro ht; simp only [Hbs.renderExpression, RM.bind_def, RM.pure_def]; rm_auto R ih
  · intro dt; simp only [Hbs.evalDecorator, RM.bind_def, RM.pure_def]; rm_auto R ih
  · intro tn es m; cases es <;> simp only [Hbs.evalElems, RM.bind_def, RM.pure_def] <;> rm_auto R ih
  · intro tn es m; cases es <;> simp only [Hbs.renderElems, RM.bind_def, RM.pure_def] <;> rm_auto R ih
  · intro t; simp only [Hbs.renderTemplate, RM.bind_def, RM.pure_def]; rm_auto R ih
  · intro d; simp only [Hbs.expandPartial, RM.bind_def, RM.pure_def]; rm_auto R ih

/-- THE induction principle -/
theorem all (reg : Registry) (root : Json) : ∀ fuel, R.All reg root fuel
  | 0 => R.all_zero reg root
  | fuel + 1 => R.all_succ reg root fuel (all reg root fuel)

end RMPred
end Hbs
