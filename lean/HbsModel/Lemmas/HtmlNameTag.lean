import HbsModel.Lemmas.NameTag
/-
  `{{{name}}}` and `{{&name}}` for EVERY identifier: one element of `template` – the pairs html_expression, reference,
  path_inline, path_id – wherever it stands and whatever follows.
-/
namespace Hbs.PlainText
open Hbs Hbs.Pest Hbs.Grammar

/-- the rule `name` over an identifier in front of `}` -/
theorem name_ok (nm r : Str) (h : IdentName nm) (q : Nat) :
    E (nm.length + 42) .nonAtomic (.rule .r_name) ⟨q, nm ++ '}' :: r⟩
      (.ok ⟨q + nm.length, '}' :: r⟩ [⟨some .r_reference, q, q + nm.length⟩, ⟨some .r_path_inline, q, q + nm.length⟩,
        ⟨some .r_path_id, q, q + nm.length⟩]) := by
  obtain ⟨c0, t, hnm⟩ := List.exists_cons_of_ne_nil h.ne
  have hc0 : symChar c0 = true := h.sym c0 (by rw [hnm]; simp)
  have hrest : nm ++ '}' :: r = c0 :: (t ++ '}' :: r) := by simp [hnm]
  have hsub : E 10 .nonAtomic (.rule .r_subexpression) ⟨q, c0 :: (t ++ '}' :: r)⟩ .fail := by
    apply Ev.rule_fail
    show E 9 _ (.seq (.seq (.str ['(']) _) (.str [')'])) _ _
    exact Ev.seq_fail1 (Ev.seq_fail1 (Ev.str_fail (matchStr_head_ne _ _ _ _ _ (symChar_ne hc0 (by decide)))))
  have href := reference_ok nm r h q
  have hname := Ev.rule_ok (G := rules) (ws := ws) (atom := .nonAtomic) (r := Rule.r_name) (F := nm.length + 41)
    (st := ⟨q, nm ++ '}' :: r⟩) (st' := ⟨q + nm.length, '}' :: r⟩)
    (by rw [name_def]; exact Ev.choice_right (by rw [hrest]; exact hsub.weaken (by omega)) href)
  have hty : (rules .r_name).ty = .silent := rfl
  simp only [hty] at hname
  simpa using hname

/-- `(identifier ~ (hash|helper_parameter)+) | name` over an identifier in front of `}` : the name alternative -/
theorem name_choice_ok (nm r : Str) (h : IdentName nm) (q : Nat) :
    E (nm.length + 63) .nonAtomic
      (.choice (.seq (.rule .r_identifier) (.repOnce (.choice (.rule .r_hash) (.rule .r_helper_parameter)))) (.rule .r_name))
      ⟨q, nm ++ '}' :: r⟩
      (.ok ⟨q + nm.length, '}' :: r⟩ [⟨some .r_reference, q, q + nm.length⟩, ⟨some .r_path_inline, q, q + nm.length⟩,
        ⟨some .r_path_id, q, q + nm.length⟩]) := by
  have hid := identifier_ok nm r '}' h.ne h.sym (by decide) q
  have halt1 : E (nm.length + 62) .nonAtomic (.seq (.rule .r_identifier) (.repOnce (.choice (.rule .r_hash) (.rule .r_helper_parameter))))
      ⟨q, nm ++ '}' :: r⟩ .fail :=
    Ev.seq_fail2 (F := nm.length + 61) (hid.weaken (by omega)) ((skip_at '}' r (by decide) _).weaken (by omega))
      ((params_fail _ _).weaken (by omega))
  exact Ev.choice_right halt1 ((name_ok nm r h q).weaken (by omega))

def htmlSrc (nm : Str) : Str := '{' :: '{' :: ('{' :: nm ++ ['}', '}', '}'])
def ampSrc (nm : Str) : Str := '{' :: '{' :: ('&' :: nm ++ ['}', '}'])

/-- the pairs of a name-only tag: `rule` over the whole tag of length `len`, the name of length `n` at offset `o` -/
def identToksG (rule : Rule) (o n len : Nat) : List (Tok Rule) :=
  [⟨some rule, 0, len⟩, ⟨some .r_reference, o, o + n⟩, ⟨some .r_path_inline, o, o + n⟩, ⟨some .r_path_id, o, o + n⟩]

theorem identToks_eq (n : Nat) : identToks n = identToksG .r_expression 2 n (n + 4) := by
  simp [identToks, identToksG, Nat.add_comm]

/-- decided: neither text nor `expression` begins with `{{{` / `{{&` – whatever follows -/
theorem pre_html_decided : evalK rules ws false 80 .nonAtomic (.choice (.rule .r_raw_text) (.rule .r_expression)) 0 ['{', '{', '{'] = some .fail :=
  KRes.isFail_eq (by decide)
theorem pre_amp_decided : evalK rules ws false 80 .nonAtomic (.choice (.rule .r_raw_text) (.rule .r_expression)) 0 ['{', '{', '&'] = some .fail :=
  KRes.isFail_eq (by decide)
/-- decided: neither triple-brace form begins with `{{&` -/
theorem triple_amp_decided : evalK rules ws false 80 .nonAtomic
    (.choice (.rule .r_html_expression_triple_bracket_legacy) (.rule .r_html_expression_triple_bracket)) 0 ['{', '{', '&'] = some .fail :=
  KRes.isFail_eq (by decide)

/-- the bodies of the unescaped forms, silent helper rules (if any) unfolded -/
theorem legacy_nf : unfoldS rules keepSilent 8 (rules .r_html_expression_triple_bracket_legacy).body =
    .seq (.seq (.seq (.seq (.str ['{', '{', '{']) (.opt (.rule .r_leading_tilde_to_omit_whitespace)))
      (.choice (.seq (.rule .r_identifier) (.repOnce (.choice (.rule .r_hash) (.rule .r_helper_parameter)))) (.rule .r_name)))
      (.opt (.rule .r_trailing_tilde_to_omit_whitespace))) (.str ['}', '}', '}']) := rfl

theorem amp_nf : unfoldS rules keepSilent 8 (rules .r_amp_expression).body =
    .seq (.seq (.seq (.seq (.seq (.str ['{', '{']) (.opt (.rule .r_leading_tilde_to_omit_whitespace))) (.str ['&'])) (.rule .r_name))
      (.opt (.rule .r_trailing_tilde_to_omit_whitespace))) (.str ['}', '}']) := rfl

theorem html_expression_nf : unfoldS rules keepSilent 8 (rules .r_html_expression).body =
    .choice (.choice (.rule .r_html_expression_triple_bracket_legacy) (.rule .r_html_expression_triple_bracket)) (.rule .r_amp_expression) := rfl

theorem lead_tilde_none (c : Char) (x : Str) (q : Nat) (hc : c ≠ '~') :
    E 10 .nonAtomic (.opt (.rule .r_leading_tilde_to_omit_whitespace)) ⟨q, c :: x⟩ (.ok ⟨q, c :: x⟩ []) := by
  refine Ev.opt_none (F := 9) (Ev.rule_fail (F := 8) ?_)
  show E 8 _ (.str ['~']) _ _
  exact Ev.str_fail (matchStr_head_ne _ _ _ _ _ hc)

theorem trail_tilde_none (c : Char) (x : Str) (q : Nat) (hc : c ≠ '~') :
    E 10 .nonAtomic (.opt (.rule .r_trailing_tilde_to_omit_whitespace)) ⟨q, c :: x⟩ (.ok ⟨q, c :: x⟩ []) := by
  refine Ev.opt_none (F := 9) (Ev.rule_fail (F := 8) ?_)
  show E 8 _ (.str ['~']) _ _
  exact Ev.str_fail (matchStr_head_ne _ _ _ _ _ hc)

/-- **`{{{name}}}` is one element of `template`** -/
theorem html_name_tagAt (nm : Str) (h : IdentName nm) :
    TagAt (htmlSrc nm) (nm.length + 110) (identToksG .r_html_expression 3 nm.length (nm.length + 6)) := by
  intro p tail
  obtain ⟨c0, t, hnm⟩ := List.exists_cons_of_ne_nil h.ne
  have hc0 : symChar c0 = true := h.sym c0 (by rw [hnm]; simp)
  have hws := symChar_not_ws hc0
  let x : Str := t ++ '}' :: '}' :: '}' :: tail
  have hsrc : htmlSrc nm ++ tail = '{' :: '{' :: '{' :: c0 :: x := by simp [htmlSrc, hnm, x]
  have hrest : nm ++ '}' :: '}' :: '}' :: tail = c0 :: x := by simp [hnm, x]
  have hpre : E 80 .nonAtomic (.choice (.rule .r_raw_text) (.rule .r_expression)) ⟨p, '{' :: '{' :: '{' :: c0 :: x⟩ .fail := by
    have := evalK_at rules ws rules_noSoi false (c0 :: x) (by simp) 80 .nonAtomic _ rfl ['{', '{', '{'] .fail pre_html_decided p
    exact ⟨by simpa using this, by simp⟩
  have hA := Ev.seq_ok (F := nm.length + 64)
    (Ev.str_ok (F := nm.length + 63) (s := ['{', '{', '{']) (st := ⟨p, '{' :: '{' :: '{' :: c0 :: x⟩) (st' := ⟨p + 3, c0 :: x⟩) (by simp [matchStr]))
    ((skip_at c0 x hws (p + 3)).weaken (by omega)) ((lead_tilde_none c0 x (p + 3) (symChar_ne hc0 (by decide))).weaken (by omega))
  have hch := name_choice_ok nm ('}' :: '}' :: tail) h (p + 3)
  rw [hrest] at hch
  have hB := Ev.seq_ok (F := nm.length + 65) (atom := .nonAtomic) hA ((skip_at c0 x hws (p + 3)).weaken (by omega)) (hch.weaken (by omega))
  have hC := Ev.seq_ok (F := nm.length + 66) hB ((skip_at '}' ('}' :: '}' :: tail) (by decide) (p + 3 + nm.length)).weaken (by omega))
    ((trail_tilde_none '}' ('}' :: '}' :: tail) (p + 3 + nm.length) (by decide)).weaken (by omega))
  have hD := Ev.seq_ok (F := nm.length + 67) hC ((skip_at '}' ('}' :: '}' :: tail) (by decide) (p + 3 + nm.length)).weaken (by omega))
    (Ev.str_ok (F := nm.length + 66) (s := ['}', '}', '}']) (st' := ⟨p + 3 + nm.length + 3, tail⟩) (by simp [matchStr]))
  have hleg := Ev.rule_ok (G := rules) (ws := ws) (atom := .nonAtomic) (r := Rule.r_html_expression_triple_bracket_legacy)
    (F := nm.length + 67 + 1 + 8) (st := ⟨p, '{' :: '{' :: '{' :: c0 :: x⟩) (st' := ⟨p + 3 + nm.length + 3, tail⟩)
    (E.of_nf (atom := .nonAtomic) .r_html_expression_triple_bracket_legacy legacy_nf hD)
  have hty : (rules .r_html_expression_triple_bracket_legacy).ty = .silent := rfl
  simp only [hty] at hleg
  have hhtml := Ev.rule_ok (G := rules) (ws := ws) (atom := .nonAtomic) (r := Rule.r_html_expression)
    (F := nm.length + 67 + 1 + 8 + 1 + 1 + 1 + 8) (st := ⟨p, '{' :: '{' :: '{' :: c0 :: x⟩) (st' := ⟨p + 3 + nm.length + 3, tail⟩)
    (E.of_nf (atom := .nonAtomic) .r_html_expression html_expression_nf
      (Ev.choice_left (b := .rule Rule.r_amp_expression) (Ev.choice_left (b := .rule Rule.r_html_expression_triple_bracket)
        (by simpa using hleg))))
  have hty2 : (rules .r_html_expression).ty = .normal := rfl
  simp only [hty2] at hhtml
  rw [templateAlt_eq, altsBefore_eq, hsrc]
  unfold alts4
  have h3 := Ev.choice_right (F := nm.length + 95) (hpre.weaken (by omega)) (hhtml.weaken (by omega))
  have := Ev.choice_left (b := .rule .r_partial_block) (Ev.choice_left (b := .rule .r_partial_expression)
    (Ev.choice_left (b := .rule .r_decorator_block) (Ev.choice_left (b := .rule .r_decorator_expression)
      (Ev.choice_left (b := .rule .r_hbs_comment_compact) (Ev.choice_left (b := .rule .r_hbs_comment)
        (Ev.choice_left (b := .rule .r_raw_block) (Ev.choice_left (b := .rule .r_helper_block) h3)))))))
  have hlenT : (htmlSrc nm).length = nm.length + 6 := by simp [htmlSrc]
  have := this.weaken (F' := nm.length + 110) (by omega)
  simpa [identToksG, shiftTok, hlenT, Nat.add_comm, Nat.add_left_comm, Nat.add_assoc] using this

/-- **`{{&name}}` is one element of `template`** -/
theorem amp_name_tagAt (nm : Str) (h : IdentName nm) :
    TagAt (ampSrc nm) (nm.length + 110) (identToksG .r_html_expression 3 nm.length (nm.length + 5)) := by
  intro p tail
  obtain ⟨c0, t, hnm⟩ := List.exists_cons_of_ne_nil h.ne
  have hc0 : symChar c0 = true := h.sym c0 (by rw [hnm]; simp)
  have hws := symChar_not_ws hc0
  let x : Str := t ++ '}' :: '}' :: tail
  have hsrc : ampSrc nm ++ tail = '{' :: '{' :: '&' :: c0 :: x := by simp [ampSrc, hnm, x]
  have hrest : nm ++ '}' :: '}' :: tail = c0 :: x := by simp [hnm, x]
  have hpre : E 80 .nonAtomic (.choice (.rule .r_raw_text) (.rule .r_expression)) ⟨p, '{' :: '{' :: '&' :: c0 :: x⟩ .fail := by
    have := evalK_at rules ws rules_noSoi false (c0 :: x) (by simp) 80 .nonAtomic _ rfl ['{', '{', '&'] .fail pre_amp_decided p
    exact ⟨by simpa using this, by simp⟩
  have htriple : E 80 .nonAtomic (.choice (.rule .r_html_expression_triple_bracket_legacy) (.rule .r_html_expression_triple_bracket))
      ⟨p, '{' :: '{' :: '&' :: c0 :: x⟩ .fail := by
    have := evalK_at rules ws rules_noSoi false (c0 :: x) (by simp) 80 .nonAtomic _ rfl ['{', '{', '&'] .fail triple_amp_decided p
    exact ⟨by simpa using this, by simp⟩
  have hA := Ev.seq_ok (F := nm.length + 60)
    (Ev.str_ok (F := nm.length + 59) (s := ['{', '{']) (st := ⟨p, '{' :: '{' :: '&' :: c0 :: x⟩) (st' := ⟨p + 2, '&' :: c0 :: x⟩) (by simp [matchStr]))
    ((skip_at '&' (c0 :: x) (by decide) (p + 2)).weaken (by omega)) ((lead_tilde_none '&' (c0 :: x) (p + 2) (by decide)).weaken (by omega))
  have hB := Ev.seq_ok (F := nm.length + 61) hA ((skip_at '&' (c0 :: x) (by decide) (p + 2)).weaken (by omega))
    (Ev.str_ok (F := nm.length + 60) (s := ['&']) (st' := ⟨p + 3, c0 :: x⟩) (by simp [matchStr]))
  have hn := name_ok nm ('}' :: tail) h (p + 3)
  rw [hrest] at hn
  have hC := Ev.seq_ok (F := nm.length + 62) (atom := .nonAtomic) hB ((skip_at c0 x hws (p + 3)).weaken (by omega)) (hn.weaken (by omega))
  have hD := Ev.seq_ok (F := nm.length + 63) hC ((skip_at '}' ('}' :: tail) (by decide) (p + 3 + nm.length)).weaken (by omega))
    ((trail_tilde_none '}' ('}' :: tail) (p + 3 + nm.length) (by decide)).weaken (by omega))
  have hEnd := Ev.seq_ok (F := nm.length + 64) hD ((skip_at '}' ('}' :: tail) (by decide) (p + 3 + nm.length)).weaken (by omega))
    (Ev.str_ok (F := nm.length + 63) (s := ['}', '}']) (st' := ⟨p + 3 + nm.length + 2, tail⟩) (by simp [matchStr]))
  have hamp := Ev.rule_ok (G := rules) (ws := ws) (atom := .nonAtomic) (r := Rule.r_amp_expression)
    (F := nm.length + 64 + 1 + 8) (st := ⟨p, '{' :: '{' :: '&' :: c0 :: x⟩) (st' := ⟨p + 3 + nm.length + 2, tail⟩)
    (E.of_nf (atom := .nonAtomic) .r_amp_expression amp_nf hEnd)
  have hty : (rules .r_amp_expression).ty = .silent := rfl
  simp only [hty] at hamp
  have hhtml := Ev.rule_ok (G := rules) (ws := ws) (atom := .nonAtomic) (r := Rule.r_html_expression)
    (F := nm.length + 80 + 1 + 8) (st := ⟨p, '{' :: '{' :: '&' :: c0 :: x⟩) (st' := ⟨p + 3 + nm.length + 2, tail⟩)
    (E.of_nf (atom := .nonAtomic) .r_html_expression html_expression_nf
      (Ev.choice_right (F := nm.length + 80) (htriple.weaken (by omega)) ((by simpa using hamp : E _ _ _ _ _).weaken (by omega))))
  have hty2 : (rules .r_html_expression).ty = .normal := rfl
  simp only [hty2] at hhtml
  rw [templateAlt_eq, altsBefore_eq, hsrc]
  unfold alts4
  have h3 := Ev.choice_right (F := nm.length + 95) (hpre.weaken (by omega)) (hhtml.weaken (by omega))
  have := Ev.choice_left (b := .rule .r_partial_block) (Ev.choice_left (b := .rule .r_partial_expression)
    (Ev.choice_left (b := .rule .r_decorator_block) (Ev.choice_left (b := .rule .r_decorator_expression)
      (Ev.choice_left (b := .rule .r_hbs_comment_compact) (Ev.choice_left (b := .rule .r_hbs_comment)
        (Ev.choice_left (b := .rule .r_raw_block) (Ev.choice_left (b := .rule .r_helper_block) h3)))))))
  have hlenT : (ampSrc nm).length = nm.length + 5 := by simp [ampSrc]
  have := this.weaken (F' := nm.length + 110) (by omega)
  simpa [identToksG, shiftTok, hlenT, Nat.add_comm, Nat.add_left_comm, Nat.add_assoc] using this

end Hbs.PlainText
