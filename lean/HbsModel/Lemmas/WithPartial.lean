import HbsModel.Lemmas.WithBlock
import HbsModel.Lemmas.PartialNameLine
import HbsModel.Lemmas.EachIndex
/-
  compile2 on  L ++ "{{#with v}}{{> p}}{{/with}}" ++ W ++ R' : a `with` block whose body is the partial call `{{> p}}`.
-/
namespace Hbs.PlainText
open Hbs Hbs.Pest Hbs.Grammar

def wpSrc : Str := "{{#with v}}{{> p}}{{/with}}".toList
def wpToks : List (Tok Rule) :=
  [⟨some .r_helper_block_start, 0, 11⟩, ⟨some .r_identifier, 3, 7⟩, ⟨some .r_helper_parameter, 8, 9⟩, ⟨some .r_reference, 8, 9⟩,
   ⟨some .r_path_inline, 8, 9⟩, ⟨some .r_path_id, 8, 9⟩, ⟨some .r_template, 11, 18⟩, ⟨some .r_partial_expression, 11, 18⟩,
   ⟨some .r_partial_identifier, 15, 16⟩, ⟨some .r_helper_block_end, 18, 27⟩, ⟨some .r_identifier, 21, 25⟩]

theorem wpSrc_eq : wpSrc = ['{', '{', '#', 'w', 'i', 't', 'h', ' ', 'v', '}', '}', '{', '{', '>', ' ', 'p', '}', '}', '{', '{', '/', 'w', 'i', 't', 'h', '}', '}'] := by decide

theorem wp_decided : evalK rules ws false 400 .nonAtomic templateAlt 0 wpSrc = some (.ok 27 [] wpToks) :=
  KRes.isOkWith_eq (by decide)

theorem wp_tagAt : TagAt wpSrc 400 wpToks := by
  intro p tail
  have := evalK_at rules ws rules_noSoi false tail (by simp) 400 .nonAtomic templateAlt rfl wpSrc _ wp_decided p
  refine ⟨?_, by simp [shiftRes, embedK]⟩
  rw [this]
  simp [shiftRes, embedK, wpSrc_eq, Nat.add_comm]

theorem parse_text_wp_text (L W R' : Str) (hL : L = [] ∨ TextBeforeTag L) (hA : TextAfterTag W R') :
    let a := L.length
    let b := a + 27
    let d := b + W.length
    let n := d + R'.length
    Pest.parse rules ws .r_handlebars (L ++ wpSrc ++ (W ++ R'))
      = .ok ⟨n, []⟩ (⟨some .r_template, 0, if R' = [] then b else n⟩ ::
          (rawTok 0 a ++ [⟨some .r_helper_block_start, a, a + 11⟩, ⟨some .r_identifier, a + 3, a + 7⟩,
              ⟨some .r_helper_parameter, a + 8, a + 9⟩, ⟨some .r_reference, a + 8, a + 9⟩, ⟨some .r_path_inline, a + 8, a + 9⟩,
              ⟨some .r_path_id, a + 8, a + 9⟩, ⟨some .r_template, a + 11, a + 18⟩, ⟨some .r_partial_expression, a + 11, a + 18⟩,
              ⟨some .r_partial_identifier, a + 15, a + 16⟩,
              ⟨some .r_helper_block_end, a + 18, a + 27⟩, ⟨some .r_identifier, a + 21, a + 25⟩]
            ++ rawTok d n ++ [⟨none, n, n⟩])) := by
  intro a b d n
  have h := handlebars_text_tag_text L ['#', 'w', 'i', 't', 'h', ' ', 'v', '}', '}', '{', '{', '>', ' ', 'p', '}', '}', '{', '{', '/', 'w', 'i', 't', 'h', '}', '}'] W R' 400 _ hL
    (by rw [← wpSrc_eq]; exact wp_tagAt) hA
  have hn : (L ++ wpSrc ++ (W ++ R')).length = n := by simp [n, d, b, a, wpSrc_eq]; omega
  simp only [] at h
  rw [wpSrc_eq]
  rw [wpSrc_eq] at hn
  have h' := h.weaken (F' := defaultFuel (L ++ ['{', '{', '#', 'w', 'i', 't', 'h', ' ', 'v', '}', '}', '{', '{', '>', ' ', 'p', '}', '}', '{', '{', '/', 'w', 'i', 't', 'h', '}', '}'] ++ (W ++ R')).length) (by
    unfold defaultFuel
    rw [hn]
    have : 27 ≤ n := by simp only [n, d, b]; omega
    omega)
  unfold Pest.parse
  refine Eq.trans h'.1 ?_
  have e1 : (L ++ '{' :: '{' :: ['#', 'w', 'i', 't', 'h', ' ', 'v', '}', '}', '{', '{', '>', ' ', 'p', '}', '}', '{', '{', '/', 'w', 'i', 't', 'h', '}', '}'] ++ (W ++ R')).length = n := hn
  simp only [e1, wpToks, List.map, shiftTok, Nat.zero_add, List.length_cons, List.length_nil]
  simp only [Nat.add_comm _ L.length]
  rfl

theorem step_wp_start (src : Str) (opts : TemplateOptions) (f a : Nat) (T0 : Tmpl) (ep : Option Nat) (rest : List CTok)
    (hep : ep.getD 0 = a)
    (hid : tokStr src ⟨some .r_identifier, a + 3, a + 7, []⟩ = ['w', 'i', 't', 'h'])
    (hv : tokStr src ⟨some .r_reference, a + 8, a + 9, []⟩ = ['v'])
    (hps : processStandalone [T0] src a (a + 11) true opts.isPartial = .ok (false, [T0])) :
    compileStep src opts (f + 6) { tmplStack := [T0], endPos := ep } ⟨some .r_helper_block_start, a, a + 11, []⟩
        (⟨some .r_identifier, a + 3, a + 7, []⟩ :: ⟨some .r_helper_parameter, a + 8, a + 9, []⟩ ::
         ⟨some .r_reference, a + 8, a + 9, []⟩ :: ⟨some .r_path_inline, a + 8, a + 9, []⟩ :: ⟨some .r_path_id, a + 8, a + 9, []⟩ ::
         ⟨some .r_template, a + 11, a + 18, []⟩ :: rest)
      = .ok ({ tmplStack := [T0.pushMapping (lineCol src a).1 (lineCol src a).2], helperStack := [wiOpen],
               endPos := some (a + 11) }, ⟨some .r_template, a + 11, a + 18, []⟩ :: rest) := by
  have hv' : tokStr src ⟨some .r_path_id, a + 8, a + 9, []⟩ = ['v'] := hv
  simp [compileStep, hep, isBlockStart, isExprLike, parseExpression, parseName, parseParam, parsePathSegs, parseExprLoop, hid, hv, hv',
    frontMut, wiOpen, str, hps, HelperG.new, dropInside]

theorem step_inner_partial (src Lp : Str) (opts : TemplateOptions) (f a : Nat) (T : Tmpl) (stk : List Tmpl) (hs : List HelperT) (nx : CTok) (rest : List CTok)
    (hpi : opts.preventIndent = false)
    (hname : tokStr src ⟨some .r_partial_identifier, a + 15, a + 16, []⟩ = ['p'])
    (hps : processStandalone (T :: stk) src (a + 11) (a + 18) true opts.isPartial = .ok (false, T :: stk))
    (hbefore : slice? src 0 (a + 11) = some Lp) (hftb : findTrailingBlank Lp = none)
    (hnx : a + 18 ≤ nx.e) :
    compileStep src opts (f + 3) { tmplStack := T :: stk, helperStack := hs, endPos := some (a + 11) } ⟨some .r_partial_expression, a + 11, a + 18, []⟩
        (⟨some .r_partial_identifier, a + 15, a + 16, []⟩ :: nx :: rest)
      = .ok ({ tmplStack := T.pushElement (.partialExpr (pnameD ['p'] none false)) (lineCol src (a + 11)).1 (lineCol src (a + 11)).2 :: stk,
               helperStack := hs, endPos := some (a + 18) }, nx :: rest) := by
  have h1 : ¬ (nx.e < a + 18) := by omega
  simp [compileStep, isBlockStart, isExprLike, parseExpression, parseName, parseExprLoop, hname, h1, hpi, hps, hbefore, hftb,
    frontMut, pnameD, DecoG.new, str]

/-- the finished block -/
def wpHT (body : Tmpl) : HelperT := { wiOpen with template := some body }

theorem step_wp_end (src : Str) (opts : TemplateOptions) (f a : Nat) (T0 body : Tmpl) (r0 : CTok) (rest : List CTok)
    (hid : tokStr src ⟨some .r_identifier, a + 21, a + 25, []⟩ = ['w', 'i', 't', 'h'])
    (hr0 : a + 27 ≤ r0.e)
    (hps : processStandalone [body, T0] src (a + 18) (a + 27) true opts.isPartial = .ok (false, [body, T0])) :
    compileStep src opts (f + 4) { tmplStack := [body, T0], helperStack := [wiOpen], endPos := some (a + 18) }
        ⟨some .r_helper_block_end, a + 18, a + 27, []⟩ (⟨some .r_identifier, a + 21, a + 25, []⟩ :: r0 :: rest)
      = .ok ({ tmplStack := [T0.pushElemOnly (.block (wpHT body))], endPos := some (a + 27) }, r0 :: rest) := by
  have h1 : ¬ (r0.e < a + 27) := by omega
  simp [compileStep, isBlockStart, isExprLike, parseExpression, parseName, parseExprLoop, hid, h1, frontMut, wiOpen, wpHT, str, hps,
    HelperG.new, revertChainAndSet, Param.asName?]

/-- the body of the block as compile2 stores it: the partial call, without indentation (it stands directly behind the opening tag) -/
def wpBody (lc : Nat × Nat) : Tmpl := Tmpl.empty.pushElement (.partialExpr (pnameD ['p'] none false)) lc.1 lc.2

theorem findTrailingBlank_snoc (X : Str) (c : Char) (hc : isBlank c = false) : findTrailingBlank (X ++ [c]) = none := by
  simp [findTrailingBlank, trimEndBlank, dropWhileEnd, List.reverse_append, List.dropWhile, hc]

/-- **compile2 on  L ++ {{#with v}}{{> p}}{{/with}} ++ W ++ R'** : the text in front, ONE block element (helper `with`, parameter the
    path `v`, body the partial call `p` without indentation, no else branch), the text behind – nothing trimmed -/
theorem compile_text_wp_text (L W R' : Str) (opts : TemplateOptions) (hpi : opts.preventIndent = false)
    (hL : L = [] ∨ TextBeforeTag L) (hA : TextAfterTag W R') :
    ∃ m, compile2 (L ++ wpSrc ++ (W ++ R')) opts = .ok (.mk opts.name
      ((leftT L L).elements ++ [.block (wpHT (wpBody (lineCol (L ++ wpSrc ++ (W ++ R')) (L.length + 11))))]
        ++ (if W ++ R' = [] then [] else [.raw (W ++ R')])) m) := by
  have hparse := parse_text_wp_text L W R' hL hA
  simp only [] at hparse
  have hn : (L ++ wpSrc ++ (W ++ R')).length = L.length + 27 + W.length + R'.length := by
    simp [wpSrc_eq]; omega
  have hs0 : slice? (L ++ wpSrc ++ (W ++ R')) 0 L.length = some L := by
    rw [List.append_assoc]; exact slice_prefix L _
  have hsR : slice? (L ++ wpSrc ++ (W ++ R')) (L.length + 27) (L ++ wpSrc ++ (W ++ R')).length = some (W ++ R') :=
    slice_suffix (L ++ wpSrc) (W ++ R') _ (by simp [wpSrc_eq])
  have hid1 : tokStr (L ++ wpSrc ++ (W ++ R')) ⟨some .r_identifier, L.length + 3, L.length + 7, []⟩ = ['w', 'i', 't', 'h'] := by
    have : L ++ wpSrc ++ (W ++ R') = (L ++ ['{', '{', '#']) ++ ['w', 'i', 't', 'h'] ++ ([' ', 'v', '}', '}', '{', '{', '>', ' ', 'p', '}', '}', '{', '{', '/', 'w', 'i', 't', 'h', '}', '}'] ++ (W ++ R')) := by
      simp [wpSrc_eq]
    rw [this]
    exact tokStr_mid (L ++ ['{', '{', '#']) ['w', 'i', 't', 'h'] _ _ (by simp) (by simp)
  have hv : tokStr (L ++ wpSrc ++ (W ++ R')) ⟨some .r_reference, L.length + 8, L.length + 9, []⟩ = ['v'] := by
    have : L ++ wpSrc ++ (W ++ R') = (L ++ ['{', '{', '#', 'w', 'i', 't', 'h', ' ']) ++ ['v'] ++ (['}', '}', '{', '{', '>', ' ', 'p', '}', '}', '{', '{', '/', 'w', 'i', 't', 'h', '}', '}'] ++ (W ++ R')) := by
      simp [wpSrc_eq]
    rw [this]
    exact tokStr_mid (L ++ ['{', '{', '#', 'w', 'i', 't', 'h', ' ']) ['v'] _ _ (by simp) (by simp)
  have hname : tokStr (L ++ wpSrc ++ (W ++ R')) ⟨some .r_partial_identifier, L.length + 15, L.length + 16, []⟩ = ['p'] := by
    have : L ++ wpSrc ++ (W ++ R') = (L ++ ['{', '{', '#', 'w', 'i', 't', 'h', ' ', 'v', '}', '}', '{', '{', '>', ' ']) ++ ['p'] ++ (['}', '}', '{', '{', '/', 'w', 'i', 't', 'h', '}', '}'] ++ (W ++ R')) := by
      simp [wpSrc_eq]
    rw [this]
    exact tokStr_mid (L ++ ['{', '{', '#', 'w', 'i', 't', 'h', ' ', 'v', '}', '}', '{', '{', '>', ' ']) ['p'] _ _ (by simp) (by simp)
  have hid2 : tokStr (L ++ wpSrc ++ (W ++ R')) ⟨some .r_identifier, L.length + 21, L.length + 25, []⟩ = ['w', 'i', 't', 'h'] := by
    have : L ++ wpSrc ++ (W ++ R') = (L ++ ['{', '{', '#', 'w', 'i', 't', 'h', ' ', 'v', '}', '}', '{', '{', '>', ' ', 'p', '}', '}', '{', '{', '/']) ++ ['w', 'i', 't', 'h'] ++ (['}', '}'] ++ (W ++ R')) := by
      simp [wpSrc_eq]
    rw [this]
    exact tokStr_mid (L ++ ['{', '{', '#', 'w', 'i', 't', 'h', ' ', 'v', '}', '}', '{', '{', '>', ' ', 'p', '}', '}', '{', '{', '/']) ['w', 'i', 't', 'h'] _ _ (by simp) (by simp)

  have hc1 : slice? (L ++ wpSrc ++ (W ++ R')) (L.length + 11) (L ++ wpSrc ++ (W ++ R')).length
      = some ('{' :: (['{', '>', ' ', 'p', '}', '}', '{', '{', '/', 'w', 'i', 't', 'h', '}', '}'] ++ (W ++ R'))) := by
    have : L ++ wpSrc ++ (W ++ R') = (L ++ ['{', '{', '#', 'w', 'i', 't', 'h', ' ', 'v', '}', '}']) ++ ('{' :: (['{', '>', ' ', 'p', '}', '}', '{', '{', '/', 'w', 'i', 't', 'h', '}', '}'] ++ (W ++ R'))) := by
      simp [wpSrc_eq]
    rw [this]
    exact slice_suffix _ _ _ (by simp)
  have hcP : slice? (L ++ wpSrc ++ (W ++ R')) (L.length + 18) (L ++ wpSrc ++ (W ++ R')).length
      = some ('{' :: (['{', '/', 'w', 'i', 't', 'h', '}', '}'] ++ (W ++ R'))) := by
    have : L ++ wpSrc ++ (W ++ R') = (L ++ ['{', '{', '#', 'w', 'i', 't', 'h', ' ', 'v', '}', '}', '{', '{', '>', ' ', 'p', '}', '}']) ++ ('{' :: (['{', '/', 'w', 'i', 't', 'h', '}', '}'] ++ (W ++ R'))) := by
      simp [wpSrc_eq]
    rw [this]
    exact slice_suffix _ _ _ (by simp)
  have hbP : slice? (L ++ wpSrc ++ (W ++ R')) 0 (L.length + 11) = some ((L ++ ['{', '{', '#', 'w', 'i', 't', 'h', ' ', 'v', '}']) ++ ['}']) := by
    have : L ++ wpSrc ++ (W ++ R') = ((L ++ ['{', '{', '#', 'w', 'i', 't', 'h', ' ', 'v', '}']) ++ ['}']) ++ (['{', '{', '>', ' ', 'p', '}', '}', '{', '{', '/', 'w', 'i', 't', 'h', '}', '}'] ++ (W ++ R')) := by
      simp [wpSrc_eq]
    rw [this]
    have := slice_prefix ((L ++ ['{', '{', '#', 'w', 'i', 't', 'h', ' ', 'v', '}']) ++ ['}']) (['{', '{', '>', ' ', 'p', '}', '}', '{', '{', '/', 'w', 'i', 't', 'h', '}', '}'] ++ (W ++ R'))
    simpa using this
  have hb2 : slice? (L ++ wpSrc ++ (W ++ R')) 0 (L.length + 18) = some ((L ++ ['{', '{', '#', 'w', 'i', 't', 'h', ' ', 'v', '}', '}', '{', '{', '>', ' ', 'p', '}']) ++ ['}']) := by
    have : L ++ wpSrc ++ (W ++ R') = ((L ++ ['{', '{', '#', 'w', 'i', 't', 'h', ' ', 'v', '}', '}', '{', '{', '>', ' ', 'p', '}']) ++ ['}']) ++ (['{', '{', '/', 'w', 'i', 't', 'h', '}', '}'] ++ (W ++ R')) := by
      simp [wpSrc_eq]
    rw [this]
    have := slice_prefix ((L ++ ['{', '{', '#', 'w', 'i', 't', 'h', ' ', 'v', '}', '}', '{', '{', '>', ' ', 'p', '}']) ++ ['}']) (['{', '{', '/', 'w', 'i', 't', 'h', '}', '}'] ++ (W ++ R'))
    simpa using this
  generalize hsrc : L ++ wpSrc ++ (W ++ R') = src at *
  have hps1 : processStandalone [leftT L L] src L.length (L.length + 11) true opts.isPartial = .ok (false, [leftT L L]) :=
    processStandalone_text_follows _ src _ _ _ _ '{' _ hc1 (by decide) (by decide)
  have hpsP : ∀ (stk : List Tmpl), processStandalone stk src (L.length + 11) (L.length + 18) true opts.isPartial = .ok (false, stk) := fun stk =>
    processStandalone_text_follows stk src _ _ _ _ '{' _ hcP (by decide) (by decide)
  have hps2 : ∀ (body : Tmpl) (T0 : Tmpl), processStandalone [body, T0] src (L.length + 18) (L.length + 27) true opts.isPartial
      = .ok (false, [body, T0]) := fun body T0 =>
    processStandalone_text_precedes _ src _ _ _ _ (W ++ R') '}' hb2 (by omega) hsR (by decide) (by decide)
  obtain ⟨m, htail⟩ := loop_tail src W R' opts (3 * (rawTok 0 L.length).length + 3 * (rawTok (L.length + 27 + W.length) src.length).length + 61)
    (L.length + 27) (((leftT L L).pushMapping (lineCol src L.length).1 (lineCol src L.length).2).pushElemOnly
      (.block (wpHT (wpBody (lineCol src (L.length + 11)))))) false hn hsR
  refine ⟨m, ?_⟩
  unfold compile2 compile2Inner
  rw [hparse]
  simp only []
  rw [attachEscapes_noEsc _ (by
    intro t ht
    simp only [List.mem_cons, List.mem_append, List.not_mem_nil, or_false] at ht
    rcases ht with rfl | ((h | rfl | rfl | rfl | rfl | rfl | rfl | rfl | rfl | rfl | rfl | rfl) | h) | rfl
    · show ((some Rule.r_template : Option Rule) == some Rule.r_escape) = false; decide
    · exact rawTok_rule _ _ t h
    · show ((some Rule.r_helper_block_start : Option Rule) == some Rule.r_escape) = false; decide
    · show ((some Rule.r_identifier : Option Rule) == some Rule.r_escape) = false; decide
    · show ((some Rule.r_helper_parameter : Option Rule) == some Rule.r_escape) = false; decide
    · show ((some Rule.r_reference : Option Rule) == some Rule.r_escape) = false; decide
    · show ((some Rule.r_path_inline : Option Rule) == some Rule.r_escape) = false; decide
    · show ((some Rule.r_path_id : Option Rule) == some Rule.r_escape) = false; decide
    · show ((some Rule.r_template : Option Rule) == some Rule.r_escape) = false; decide
    · show ((some Rule.r_partial_expression : Option Rule) == some Rule.r_escape) = false; decide
    · show ((some Rule.r_partial_identifier : Option Rule) == some Rule.r_escape) = false; decide
    · show ((some Rule.r_helper_block_end : Option Rule) == some Rule.r_escape) = false; decide
    · show ((some Rule.r_identifier : Option Rule) == some Rule.r_escape) = false; decide
    · exact rawTok_rule _ _ t h
    · show ((none : Option Rule) == some Rule.r_escape) = false; decide)]
  rw [← hn]
  simp only [List.map_cons, List.map_append, List.length_cons, List.length_append, List.length_map, List.map_nil, List.length_nil,
    List.append_assoc, List.cons_append, List.nil_append]
  rw [show 4 * ((rawTok 0 L.length).length + ((rawTok (L.length + 27 + W.length) src.length).length + (0 + 1) + 1 + 1 + 1 + 1 + 1 + 1 + 1 + 1 + 1 + 1 + 1) + 1) + 16
      = ((3 * (rawTok 0 L.length).length + 3 * (rawTok (L.length + 27 + W.length) src.length).length + 58
          + ((rawTok (L.length + 27 + W.length) src.length).length + 2)) + 6 + 1) + (1 + (rawTok 0 L.length).length) by omega]
  rw [loop_head src L opts _ _ _ hs0]
  obtain ⟨r0, rest, hrest, hr0⟩ := tail_head (L.length + 27) W.length src.length (by omega)
  have hep : (if L = [] then none else some L.length : Option Nat).getD 0 = L.length := by
    by_cases hLe : L = [] <;> simp [hLe]
  rw [hrest] at htail ⊢
  simp only [plainCTok]
  have hstep1 := step_wp_start src opts
    (3 * (rawTok 0 L.length).length + 3 * (rawTok (L.length + 27 + W.length) src.length).length + 58
      + ((rawTok (L.length + 27 + W.length) src.length).length + 2))
    L.length (leftT L L) _ (⟨some .r_partial_expression, L.length + 11, L.length + 18, []⟩ :: ⟨some .r_partial_identifier, L.length + 15, L.length + 16, []⟩ ::
      ⟨some .r_helper_block_end, L.length + 18, L.length + 27, []⟩ ::
      ⟨some .r_identifier, L.length + 21, L.length + 25, []⟩ :: r0 :: rest) hep hid1 hv hps1
  rw [loop_step src opts _ (st1 L) _ _ _ _ (by unfold st1; exact hstep1)]
  rw [show 3 * (rawTok 0 L.length).length + 3 * (rawTok (L.length + 27 + W.length) src.length).length + 58
        + ((rawTok (L.length + 27 + W.length) src.length).length + 2) + 6
      = 3 * (rawTok 0 L.length).length + 3 * (rawTok (L.length + 27 + W.length) src.length).length + 58
        + ((rawTok (L.length + 27 + W.length) src.length).length + 2) + 4 + 1 + 1 by omega]
  rw [loop_step src opts _ _ _ _ _ _ (step_inner_template src opts _ _ _ _ _ _ _)]
  have hstepI := step_inner_partial src _ opts
    (3 * (rawTok 0 L.length).length + 3 * (rawTok (L.length + 27 + W.length) src.length).length + 58 + ((rawTok (L.length + 27 + W.length) src.length).length + 2) + 1)
    L.length Tmpl.empty [(leftT L L).pushMapping (lineCol src L.length).1 (lineCol src L.length).2] [wiOpen]
    ⟨some .r_helper_block_end, L.length + 18, L.length + 27, []⟩ (⟨some .r_identifier, L.length + 21, L.length + 25, []⟩ :: r0 :: rest)
    hpi hname (hpsP _) hbP (findTrailingBlank_snoc _ '}' (by decide)) (by simp)
  rw [show 3 * (rawTok 0 L.length).length + 3 * (rawTok (L.length + 27 + W.length) src.length).length + 58
        + ((rawTok (L.length + 27 + W.length) src.length).length + 2) + 4 + 1
      = 3 * (rawTok 0 L.length).length + 3 * (rawTok (L.length + 27 + W.length) src.length).length + 58 + ((rawTok (L.length + 27 + W.length) src.length).length + 2) + 1 + 3 + 1 by omega]
  rw [loop_step src opts _ _ _ _ _ _ hstepI]
  have hstep4 := step_wp_end src opts
    (3 * (rawTok 0 L.length).length + 3 * (rawTok (L.length + 27 + W.length) src.length).length + 57
      + ((rawTok (L.length + 27 + W.length) src.length).length + 2))
    L.length ((leftT L L).pushMapping (lineCol src L.length).1 (lineCol src L.length).2) (wpBody (lineCol src (L.length + 11))) r0 rest hid2 hr0
    (hps2 _ _)
  rw [show 3 * (rawTok 0 L.length).length + 3 * (rawTok (L.length + 27 + W.length) src.length).length + 58 + ((rawTok (L.length + 27 + W.length) src.length).length + 2) + 1 + 3
      = 3 * (rawTok 0 L.length).length + 3 * (rawTok (L.length + 27 + W.length) src.length).length + 57
        + ((rawTok (L.length + 27 + W.length) src.length).length + 2) + 4 + 1 by omega]
  rw [loop_step src opts _ _ _ _ _ _ (by have h4 := hstep4; unfold wpBody at h4; exact h4)]
  rw [show 3 * (rawTok 0 L.length).length + 3 * (rawTok (L.length + 27 + W.length) src.length).length + 57
        + ((rawTok (L.length + 27 + W.length) src.length).length + 2) + 4
      = 3 * (rawTok 0 L.length).length + 3 * (rawTok (L.length + 27 + W.length) src.length).length + 61
        + ((rawTok (L.length + 27 + W.length) src.length).length + 2) by omega]
  unfold wpBody at htail ⊢
  rw [htail]
  simp [Tmpl.pushElemOnly, Tmpl.pushMapping, Tmpl.elements]

end Hbs.PlainText
