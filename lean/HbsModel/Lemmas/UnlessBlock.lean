import HbsModel.Lemmas.IfBlock
/-
  compile2 on  L ++ "{{#unless v}}A{{/unless}}" ++ W ++ R' : a helper block between texts.  Neither block tag is alone on its line (the
  body `A` stands directly behind the opening tag and directly in front of the closing tag), so nothing is trimmed.
-/
namespace Hbs.PlainText
open Hbs Hbs.Pest Hbs.Grammar

def unSrc : Str := "{{#unless v}}A{{/unless}}".toList
def unToks : List (Tok Rule) :=
  [⟨some .r_helper_block_start, 0, 13⟩, ⟨some .r_identifier, 3, 9⟩, ⟨some .r_helper_parameter, 10, 11⟩, ⟨some .r_reference, 10, 11⟩,
   ⟨some .r_path_inline, 10, 11⟩, ⟨some .r_path_id, 10, 11⟩, ⟨some .r_template, 13, 14⟩, ⟨some .r_raw_text, 13, 14⟩,
   ⟨some .r_helper_block_end, 14, 25⟩, ⟨some .r_identifier, 17, 23⟩]

theorem unSrc_eq : unSrc = ['{', '{', '#', 'u', 'n', 'l', 'e', 's', 's', ' ', 'v', '}', '}', 'A', '{', '{', '/', 'u', 'n', 'l', 'e', 's', 's', '}', '}'] := by decide

/-- decided on the regenerated grammar: the whole block – whatever follows – is ONE element of `template`, with these pairs -/
theorem un_decided : evalK rules ws false 400 .nonAtomic templateAlt 0 unSrc = some (.ok 25 [] unToks) :=
  KRes.isOkWith_eq (by decide)

theorem un_tagAt : TagAt unSrc 400 unToks := by
  intro p tail
  have := evalK_at rules ws rules_noSoi false tail (by simp) 400 .nonAtomic templateAlt rfl unSrc _ un_decided p
  refine ⟨?_, by simp [shiftRes, embedK]⟩
  rw [this]
  simp [shiftRes, embedK, unSrc_eq, Nat.add_comm]

/-- the pair stream of  L ++ {{#unless v}}A{{/unless}} ++ W ++ R' -/
theorem parse_text_un_text (L W R' : Str) (hL : L = [] ∨ TextBeforeTag L) (hA : TextAfterTag W R') :
    let a := L.length
    let b := a + 25
    let d := b + W.length
    let n := d + R'.length
    Pest.parse rules ws .r_handlebars (L ++ unSrc ++ (W ++ R'))
      = .ok ⟨n, []⟩ (⟨some .r_template, 0, if R' = [] then b else n⟩ ::
          (rawTok 0 a ++ [⟨some .r_helper_block_start, a, a + 13⟩, ⟨some .r_identifier, a + 3, a + 9⟩,
              ⟨some .r_helper_parameter, a + 10, a + 11⟩, ⟨some .r_reference, a + 10, a + 11⟩, ⟨some .r_path_inline, a + 10, a + 11⟩,
              ⟨some .r_path_id, a + 10, a + 11⟩, ⟨some .r_template, a + 13, a + 14⟩, ⟨some .r_raw_text, a + 13, a + 14⟩,
              ⟨some .r_helper_block_end, a + 14, a + 25⟩, ⟨some .r_identifier, a + 17, a + 23⟩]
            ++ rawTok d n ++ [⟨none, n, n⟩])) := by
  intro a b d n
  have h := handlebars_text_tag_text L ['#', 'u', 'n', 'l', 'e', 's', 's', ' ', 'v', '}', '}', 'A', '{', '{', '/', 'u', 'n', 'l', 'e', 's', 's', '}', '}'] W R' 400 _ hL
    (by rw [← unSrc_eq]; exact un_tagAt) hA
  have hn : (L ++ unSrc ++ (W ++ R')).length = n := by simp [n, d, b, a, unSrc_eq]; omega
  simp only [] at h
  rw [unSrc_eq]
  rw [unSrc_eq] at hn
  have h' := h.weaken (F' := defaultFuel (L ++ ['{', '{', '#', 'u', 'n', 'l', 'e', 's', 's', ' ', 'v', '}', '}', 'A', '{', '{', '/', 'u', 'n', 'l', 'e', 's', 's', '}', '}'] ++ (W ++ R')).length) (by
    unfold defaultFuel
    rw [hn]
    have : 25 ≤ n := by simp only [n, d, b]; omega
    omega)
  unfold Pest.parse
  refine Eq.trans h'.1 ?_
  have e1 : (L ++ '{' :: '{' :: ['#', 'u', 'n', 'l', 'e', 's', 's', ' ', 'v', '}', '}', 'A', '{', '{', '/', 'u', 'n', 'l', 'e', 's', 's', '}', '}'] ++ (W ++ R')).length = n := hn
  simp only [e1, unToks, List.map, shiftTok, Nat.zero_add, List.length_cons, List.length_nil]
  simp only [Nat.add_comm _ L.length]
  rfl

/-- the helper block under construction after `{{#if v}}` -/
def unOpen : HelperT :=
  HelperG.new { name := .name ['u', 'n', 'l', 'e', 's', 's'], params := [.path (Path.new ['v'] [.named ['v']])], hash := [], blockParam := none,
                omitPreWs := false, omitProWs := false } true false false

theorem step_un_start (src : Str) (opts : TemplateOptions) (f a : Nat) (T0 : Tmpl) (ep : Option Nat) (rest : List CTok)
    (hep : ep.getD 0 = a)
    (hid : tokStr src ⟨some .r_identifier, a + 3, a + 9, []⟩ = ['u', 'n', 'l', 'e', 's', 's'])
    (hv : tokStr src ⟨some .r_reference, a + 10, a + 11, []⟩ = ['v'])
    (hps : processStandalone [T0] src a (a + 13) true opts.isPartial = .ok (false, [T0])) :
    compileStep src opts (f + 6) { tmplStack := [T0], endPos := ep } ⟨some .r_helper_block_start, a, a + 13, []⟩
        (⟨some .r_identifier, a + 3, a + 9, []⟩ :: ⟨some .r_helper_parameter, a + 10, a + 11, []⟩ ::
         ⟨some .r_reference, a + 10, a + 11, []⟩ :: ⟨some .r_path_inline, a + 10, a + 11, []⟩ :: ⟨some .r_path_id, a + 10, a + 11, []⟩ ::
         ⟨some .r_template, a + 13, a + 14, []⟩ :: rest)
      = .ok ({ tmplStack := [T0.pushMapping (lineCol src a).1 (lineCol src a).2], helperStack := [unOpen],
               endPos := some (a + 13) }, ⟨some .r_template, a + 13, a + 14, []⟩ :: rest) := by
  have hv' : tokStr src ⟨some .r_path_id, a + 10, a + 11, []⟩ = ['v'] := hv
  simp [compileStep, hep, isBlockStart, isExprLike, parseExpression, parseName, parseParam, parsePathSegs, parseExprLoop, hid, hv, hv',
    frontMut, unOpen, str, hps, HelperG.new, dropInside]

/-- the finished block -/
def unHT (body : Tmpl) : HelperT := { unOpen with template := some body }

theorem step_un_end (src : Str) (opts : TemplateOptions) (f a : Nat) (T0 body : Tmpl) (r0 : CTok) (rest : List CTok)
    (hid : tokStr src ⟨some .r_identifier, a + 17, a + 23, []⟩ = ['u', 'n', 'l', 'e', 's', 's'])
    (hr0 : a + 25 ≤ r0.e)
    (hps : processStandalone [body, T0] src (a + 14) (a + 25) true opts.isPartial = .ok (false, [body, T0])) :
    compileStep src opts (f + 4) { tmplStack := [body, T0], helperStack := [unOpen], endPos := some (a + 14) }
        ⟨some .r_helper_block_end, a + 14, a + 25, []⟩ (⟨some .r_identifier, a + 17, a + 23, []⟩ :: r0 :: rest)
      = .ok ({ tmplStack := [T0.pushElemOnly (.block (unHT body))], endPos := some (a + 25) }, r0 :: rest) := by
  have h1 : ¬ (r0.e < a + 25) := by omega
  simp [compileStep, isBlockStart, isExprLike, parseExpression, parseName, parseExprLoop, hid, h1, frontMut, unOpen, unHT, str, hps,
    HelperG.new, revertChainAndSet, Param.asName?]

/-- the body of the block as compile2 stores it: one text element, with the position of the text -/
def unBody (lc : Nat × Nat) : Tmpl := Tmpl.empty.pushElement (.raw ['A']) lc.1 lc.2

/-- **compile2 on  L ++ {{#unless v}}A{{/unless}} ++ W ++ R'** : the text in front, ONE block element (helper `unless`, parameter the path `v`,
    body the text `A`, no else branch), the text behind – nothing trimmed, for every `L`, `W`, `R'` -/
theorem compile_text_un_text (L W R' : Str) (opts : TemplateOptions)
    (hL : L = [] ∨ TextBeforeTag L) (hA : TextAfterTag W R') :
    ∃ m, compile2 (L ++ unSrc ++ (W ++ R')) opts = .ok (.mk opts.name
      ((leftT L L).elements ++ [.block (unHT (unBody (lineCol (L ++ unSrc ++ (W ++ R')) (L.length + 13))))]
        ++ (if W ++ R' = [] then [] else [.raw (W ++ R')])) m) := by
  have hparse := parse_text_un_text L W R' hL hA
  simp only [] at hparse
  have hn : (L ++ unSrc ++ (W ++ R')).length = L.length + 25 + W.length + R'.length := by
    simp [unSrc_eq]; omega
  have hs0 : slice? (L ++ unSrc ++ (W ++ R')) 0 L.length = some L := by
    rw [List.append_assoc]; exact slice_prefix L _
  have hsR : slice? (L ++ unSrc ++ (W ++ R')) (L.length + 25) (L ++ unSrc ++ (W ++ R')).length = some (W ++ R') :=
    slice_suffix (L ++ unSrc) (W ++ R') _ (by simp [unSrc_eq])
  have hid1 : tokStr (L ++ unSrc ++ (W ++ R')) ⟨some .r_identifier, L.length + 3, L.length + 9, []⟩ = ['u', 'n', 'l', 'e', 's', 's'] := by
    have : L ++ unSrc ++ (W ++ R') = (L ++ ['{', '{', '#']) ++ ['u', 'n', 'l', 'e', 's', 's'] ++ ([' ', 'v', '}', '}', 'A', '{', '{', '/', 'u', 'n', 'l', 'e', 's', 's', '}', '}'] ++ (W ++ R')) := by
      simp [unSrc_eq]
    rw [this]
    exact tokStr_mid (L ++ ['{', '{', '#']) ['u', 'n', 'l', 'e', 's', 's'] _ _ (by simp) (by simp)
  have hv : tokStr (L ++ unSrc ++ (W ++ R')) ⟨some .r_reference, L.length + 10, L.length + 11, []⟩ = ['v'] := by
    have : L ++ unSrc ++ (W ++ R') = (L ++ ['{', '{', '#', 'u', 'n', 'l', 'e', 's', 's', ' ']) ++ ['v'] ++ (['}', '}', 'A', '{', '{', '/', 'u', 'n', 'l', 'e', 's', 's', '}', '}'] ++ (W ++ R')) := by
      simp [unSrc_eq]
    rw [this]
    exact tokStr_mid (L ++ ['{', '{', '#', 'u', 'n', 'l', 'e', 's', 's', ' ']) ['v'] _ _ (by simp) (by simp)
  have hid2 : tokStr (L ++ unSrc ++ (W ++ R')) ⟨some .r_identifier, L.length + 17, L.length + 23, []⟩ = ['u', 'n', 'l', 'e', 's', 's'] := by
    have : L ++ unSrc ++ (W ++ R') = (L ++ ['{', '{', '#', 'u', 'n', 'l', 'e', 's', 's', ' ', 'v', '}', '}', 'A', '{', '{', '/']) ++ ['u', 'n', 'l', 'e', 's', 's'] ++ (['}', '}'] ++ (W ++ R')) := by
      simp [unSrc_eq]
    rw [this]
    exact tokStr_mid (L ++ ['{', '{', '#', 'u', 'n', 'l', 'e', 's', 's', ' ', 'v', '}', '}', 'A', '{', '{', '/']) ['u', 'n', 'l', 'e', 's', 's'] _ _ (by simp) (by simp)
  have hA1 : slice? (L ++ unSrc ++ (W ++ R')) (L.length + 13) (L.length + 14) = some ['A'] := by
    have : L ++ unSrc ++ (W ++ R') = (L ++ ['{', '{', '#', 'u', 'n', 'l', 'e', 's', 's', ' ', 'v', '}', '}']) ++ ['A'] ++ (['{', '{', '/', 'u', 'n', 'l', 'e', 's', 's', '}', '}'] ++ (W ++ R')) := by
      simp [unSrc_eq]
    rw [this]
    have := slice_middle (L ++ ['{', '{', '#', 'u', 'n', 'l', 'e', 's', 's', ' ', 'v', '}', '}']) ['A'] (['{', '{', '/', 'u', 'n', 'l', 'e', 's', 's', '}', '}'] ++ (W ++ R'))
    simpa using this
  have hc1 : slice? (L ++ unSrc ++ (W ++ R')) (L.length + 13) (L ++ unSrc ++ (W ++ R')).length
      = some ('A' :: (['{', '{', '/', 'u', 'n', 'l', 'e', 's', 's', '}', '}'] ++ (W ++ R'))) := by
    have : L ++ unSrc ++ (W ++ R') = (L ++ ['{', '{', '#', 'u', 'n', 'l', 'e', 's', 's', ' ', 'v', '}', '}']) ++ ('A' :: (['{', '{', '/', 'u', 'n', 'l', 'e', 's', 's', '}', '}'] ++ (W ++ R'))) := by
      simp [unSrc_eq]
    rw [this]
    exact slice_suffix _ _ _ (by simp)
  have hb2 : slice? (L ++ unSrc ++ (W ++ R')) 0 (L.length + 14) = some ((L ++ ['{', '{', '#', 'u', 'n', 'l', 'e', 's', 's', ' ', 'v', '}', '}']) ++ ['A']) := by
    have : L ++ unSrc ++ (W ++ R') = ((L ++ ['{', '{', '#', 'u', 'n', 'l', 'e', 's', 's', ' ', 'v', '}', '}']) ++ ['A']) ++ (['{', '{', '/', 'u', 'n', 'l', 'e', 's', 's', '}', '}'] ++ (W ++ R')) := by
      simp [unSrc_eq]
    rw [this]
    have := slice_prefix ((L ++ ['{', '{', '#', 'u', 'n', 'l', 'e', 's', 's', ' ', 'v', '}', '}']) ++ ['A']) (['{', '{', '/', 'u', 'n', 'l', 'e', 's', 's', '}', '}'] ++ (W ++ R'))
    simpa using this
  generalize hsrc : L ++ unSrc ++ (W ++ R') = src at *
  have hps1 : processStandalone [leftT L L] src L.length (L.length + 13) true opts.isPartial = .ok (false, [leftT L L]) :=
    processStandalone_text_follows _ src _ _ _ _ 'A' _ hc1 (by decide) (by decide)
  have hps2 : ∀ (body : Tmpl) (T0 : Tmpl), processStandalone [body, T0] src (L.length + 14) (L.length + 25) true opts.isPartial
      = .ok (false, [body, T0]) := fun body T0 =>
    processStandalone_text_precedes _ src _ _ _ _ (W ++ R') 'A' hb2 (by omega) hsR (by decide) (by decide)
  obtain ⟨m, htail⟩ := loop_tail src W R' opts (3 * (rawTok 0 L.length).length + 3 * (rawTok (L.length + 25 + W.length) src.length).length + 57)
    (L.length + 25) (((leftT L L).pushMapping (lineCol src L.length).1 (lineCol src L.length).2).pushElemOnly
      (.block (unHT (unBody (lineCol src (L.length + 13)))))) false hn hsR
  refine ⟨m, ?_⟩
  unfold compile2 compile2Inner
  rw [hparse]
  simp only []
  rw [attachEscapes_noEsc _ (by
    intro t ht
    simp only [List.mem_cons, List.mem_append, List.not_mem_nil, or_false] at ht
    rcases ht with rfl | ((h | rfl | rfl | rfl | rfl | rfl | rfl | rfl | rfl | rfl | rfl) | h) | rfl
    · show ((some Rule.r_template : Option Rule) == some Rule.r_escape) = false; decide
    · exact rawTok_rule _ _ t h
    · show ((some Rule.r_helper_block_start : Option Rule) == some Rule.r_escape) = false; decide
    · show ((some Rule.r_identifier : Option Rule) == some Rule.r_escape) = false; decide
    · show ((some Rule.r_helper_parameter : Option Rule) == some Rule.r_escape) = false; decide
    · show ((some Rule.r_reference : Option Rule) == some Rule.r_escape) = false; decide
    · show ((some Rule.r_path_inline : Option Rule) == some Rule.r_escape) = false; decide
    · show ((some Rule.r_path_id : Option Rule) == some Rule.r_escape) = false; decide
    · show ((some Rule.r_template : Option Rule) == some Rule.r_escape) = false; decide
    · show ((some Rule.r_raw_text : Option Rule) == some Rule.r_escape) = false; decide
    · show ((some Rule.r_helper_block_end : Option Rule) == some Rule.r_escape) = false; decide
    · show ((some Rule.r_identifier : Option Rule) == some Rule.r_escape) = false; decide
    · exact rawTok_rule _ _ t h
    · show ((none : Option Rule) == some Rule.r_escape) = false; decide)]
  rw [← hn]
  simp only [List.map_cons, List.map_append, List.length_cons, List.length_append, List.length_map, List.map_nil, List.length_nil,
    List.append_assoc, List.cons_append, List.nil_append]
  rw [show 4 * ((rawTok 0 L.length).length + ((rawTok (L.length + 25 + W.length) src.length).length + (0 + 1) + 1 + 1 + 1 + 1 + 1 + 1 + 1 + 1 + 1 + 1) + 1) + 16
      = ((3 * (rawTok 0 L.length).length + 3 * (rawTok (L.length + 25 + W.length) src.length).length + 54
          + ((rawTok (L.length + 25 + W.length) src.length).length + 2)) + 6 + 1) + (1 + (rawTok 0 L.length).length) by omega]
  rw [loop_head src L opts _ _ _ hs0]
  obtain ⟨r0, rest, hrest, hr0⟩ := tail_head (L.length + 25) W.length src.length (by omega)
  have hep : (if L = [] then none else some L.length : Option Nat).getD 0 = L.length := by
    by_cases hLe : L = [] <;> simp [hLe]
  rw [hrest] at htail ⊢
  simp only [plainCTok]
  -- {{#if v}}
  have hstep1 := step_un_start src opts
    (3 * (rawTok 0 L.length).length + 3 * (rawTok (L.length + 25 + W.length) src.length).length + 54
      + ((rawTok (L.length + 25 + W.length) src.length).length + 2))
    L.length (leftT L L) _ (⟨some .r_raw_text, L.length + 13, L.length + 14, []⟩ :: ⟨some .r_helper_block_end, L.length + 14, L.length + 25, []⟩ ::
      ⟨some .r_identifier, L.length + 17, L.length + 23, []⟩ :: r0 :: rest) hep hid1 hv hps1
  rw [loop_step src opts _ (st1 L) _ _ _ _ (by unfold st1; exact hstep1)]
  -- the body's template and text
  rw [show 3 * (rawTok 0 L.length).length + 3 * (rawTok (L.length + 25 + W.length) src.length).length + 54
        + ((rawTok (L.length + 25 + W.length) src.length).length + 2) + 6
      = 3 * (rawTok 0 L.length).length + 3 * (rawTok (L.length + 25 + W.length) src.length).length + 54
        + ((rawTok (L.length + 25 + W.length) src.length).length + 2) + 4 + 1 + 1 by omega]
  rw [loop_step src opts _ _ _ _ _ _ (step_inner_template src opts _ _ _ _ _ _ _)]
  rw [loop_step src opts _ _ _ _ _ _ (step_inner_raw src ['A'] opts _ _ _ _ _ _ _ hA1 (by simp))]
  -- {{/if}}
  have hstep4 := step_un_end src opts
    (3 * (rawTok 0 L.length).length + 3 * (rawTok (L.length + 25 + W.length) src.length).length + 53
      + ((rawTok (L.length + 25 + W.length) src.length).length + 2))
    L.length ((leftT L L).pushMapping (lineCol src L.length).1 (lineCol src L.length).2) (unBody (lineCol src (L.length + 13))) r0 rest hid2 hr0
    (hps2 _ _)
  rw [show 3 * (rawTok 0 L.length).length + 3 * (rawTok (L.length + 25 + W.length) src.length).length + 54
        + ((rawTok (L.length + 25 + W.length) src.length).length + 2) + 4
      = 3 * (rawTok 0 L.length).length + 3 * (rawTok (L.length + 25 + W.length) src.length).length + 53
        + ((rawTok (L.length + 25 + W.length) src.length).length + 2) + 4 + 1 by omega]
  rw [loop_step src opts _ _ _ _ _ _ (by have h4 := hstep4; unfold unBody at h4; exact h4)]
  rw [show 3 * (rawTok 0 L.length).length + 3 * (rawTok (L.length + 25 + W.length) src.length).length + 53
        + ((rawTok (L.length + 25 + W.length) src.length).length + 2) + 4
      = 3 * (rawTok 0 L.length).length + 3 * (rawTok (L.length + 25 + W.length) src.length).length + 57
        + ((rawTok (L.length + 25 + W.length) src.length).length + 2) by omega]
  unfold unBody at htail ⊢
  rw [htail]
  simp [Tmpl.pushElemOnly, Tmpl.pushMapping, Tmpl.elements]

end Hbs.PlainText
