import HbsModel.Lemmas.PlainText
import HbsModel.Lemmas.PestKnown
/-
  Text in front of a tag: the loop of `raw_text` over `s ++ cont`, where `s` contains no `{{`, does not
  end in `{` or `\` (either would change what the following `{{` means) and `cont` begins with `{{`,
  consumes exactly `s`.
-/
namespace Hbs.PlainText
open Hbs Hbs.Pest Hbs.Grammar

/-- the text may be followed by a tag -/
structure TextBeforeTag (s : Str) : Prop where
  noOpen : noOpen s
  noBrace : s.getLast? ≠ some '{'
  noBs : s.getLast? ≠ some '\\'

theorem TextBeforeTag.tail {c : Char} {t : Str} (h : TextBeforeTag (c :: t)) (ht : t ≠ []) : TextBeforeTag t := by
  refine ⟨noOpen_tail c t h.noOpen, ?_, ?_⟩
  · have := h.noBrace; rwa [List.getLast?_cons_of_ne_nil ht] at this
  · have := h.noBs; rwa [List.getLast?_cons_of_ne_nil ht] at this

/-- a non-empty text that may stand before a tag, followed by anything, does not begin with `{{` -/
theorem matchOpen_append_none (x cont : Str) (p : Nat) (hx : TextBeforeTag x) (hne : x ≠ []) :
    matchStr ['{', '{'] ⟨p, x ++ cont⟩ = none := by
  cases x with
  | nil => exact absurd rfl hne
  | cons c t =>
    by_cases hc : c = '{'
    · subst hc
      cases t with
      | nil => exact absurd rfl hx.noBrace
      | cons d t' =>
        have hd : d ≠ '{' := fun e => hx.noOpen.1 ⟨rfl, e⟩
        have hdb : ('{' == d) = false := beq_eq_false_iff_ne.mpr (fun e => hd e.symm)
        simp [matchStr, hdb]
    · have hcb : ('{' == c) = false := beq_eq_false_iff_ne.mpr (fun e => hc e.symm)
      simp [matchStr, hcb]

theorem dropWhile_bs_append (x cont : Str) (hx : x.getLast? ≠ some '\\') (hne : x ≠ []) :
    (x ++ cont).dropWhile isBs = x.dropWhile isBs ++ cont ∧ x.dropWhile isBs ≠ [] := by
  induction x with
  | nil => exact absurd rfl hne
  | cons c t ih =>
    by_cases hb : isBs c = true
    · have hc : c = '\\' := by simpa [isBs] using hb
      cases t with
      | nil => subst hc; exact absurd rfl hx
      | cons d t' =>
        have hx' : (d :: t').getLast? ≠ some '\\' := by rwa [List.getLast?_cons_of_ne_nil (by simp)] at hx
        have := ih hx' (by simp)
        simp only [List.cons_append, List.dropWhile, hb] at this ⊢
        exact this
    · have hb' : isBs c = false := by simpa using hb
      simp [List.dropWhile, hb']

theorem textBeforeTag_dropWhile (x : Str) (hx : TextBeforeTag x) : TextBeforeTag (x.dropWhile isBs) ∨ x.dropWhile isBs = [] := by
  induction x with
  | nil => right; rfl
  | cons c t ih =>
    by_cases hb : isBs c = true
    · simp only [List.dropWhile, hb]
      cases t with
      | nil => right; rfl
      | cons d t' => exact ih (hx.tail (by simp))
    · have hb' : isBs c = false := by simpa using hb
      left; simpa [List.dropWhile, hb'] using hx

/-- one character of the text in front of a tag -/
theorem rawElem_step_before (p : Nat) (c : Char) (t cont : Str) (h : TextBeforeTag (c :: t)) :
    E ((c :: t ++ cont).length + 15) .compound rawElem ⟨p, c :: t ++ cont⟩ (.ok ⟨p + 1, t ++ cont⟩ []) := by
  have hopen : matchStr ['{', '{'] ⟨p, c :: t ++ cont⟩ = none := by
    have := matchOpen_append_none (c :: t) cont p h (by simp)
    simpa using this
  have h1 : (c :: t ++ cont).head? = some '\\' → ∀ p', matchStr ['{', '{'] ⟨p', (c :: t ++ cont).tail⟩ = none := by
    intro hh p'
    have hc : c = '\\' := by simpa using hh
    cases t with
    | nil => subst hc; exact absurd rfl h.noBs
    | cons d t' =>
      have := matchOpen_append_none (d :: t') cont p' (h.tail (by simp)) (by simp)
      simpa using this
  have h2 : (c :: t ++ cont).head? = some '\\' → ∀ p', matchStr ['{', '{'] ⟨p', (c :: t ++ cont).dropWhile isBs⟩ = none := by
    intro _ p'
    obtain ⟨e1, e2⟩ := dropWhile_bs_append (c :: t) cont h.noBs (by simp)
    have e1' : (c :: t ++ cont).dropWhile isBs = (c :: t).dropWhile isBs ++ cont := by simpa using e1
    rw [e1']
    rcases textBeforeTag_dropWhile (c :: t) h with hh | hh
    · exact matchOpen_append_none _ cont p' hh e2
    · exact absurd hh e2
  have hesc := escape_fails_local .compound p (c :: t ++ cont) h1 h2
  have := Ev.choice_right (b := .seq (.negPred (.str ['{', '{'])) (.builtin .any))
    (hesc.weaken (F' := (c :: t ++ cont).length + 14) (by omega))
    (Ev.seq_ok (F := (c :: t ++ cont).length + 13) (Ev.negPred_ok (Ev.str_fail hopen)) (Ev.skip_off (by simp)) Ev.any_ok)
  simpa [rawElem] using this

/-- at a `{{` that is not escaped, `raw_text` stops -/
theorem rawElem_at_tag (p : Nat) (r : Str) : E 15 .compound rawElem ⟨p, '{' :: '{' :: r⟩ .fail := by
  have hb : matchStr ['\\'] ⟨p, '{' :: '{' :: r⟩ = none := by simp [matchStr]
  have hesc : E 5 .compound (.rule .r_escape) ⟨p, '{' :: '{' :: r⟩ .fail := by
    apply Ev.rule_fail
    show E 4 .atomic (.choice (.seq (.seq (.str ['\\']) (.str ['{', '{'])) _)
      (.seq (.seq (.str ['\\']) (.repOnce (.str ['\\']))) (.posPred (.str ['{', '{'])))) _ .fail
    exact Ev.choice_right (Ev.seq_fail1 (Ev.seq_fail1 (Ev.str_fail hb))) (Ev.seq_fail1 (Ev.seq_fail1 (Ev.str_fail hb)))
  exact Ev.choice_right (hesc.weaken (F' := 14) (by omega))
    (Ev.seq_fail1 (F := 13) (Ev.negPred_fail (F := 12) (Ev.str_ok (F := 11) (st' := ⟨p + 2, r⟩) (by simp [matchStr]))))

/-- the loop of `raw_text` over a text in front of a tag consumes exactly the text -/
theorem rawLoop_before (s r : Str) (hs : s = [] ∨ TextBeforeTag s) (p : Nat) :
    E ((s ++ '{' :: '{' :: r).length + 17) .compound (.starTail rawElem) ⟨p, s ++ '{' :: '{' :: r⟩
      (.ok ⟨p + s.length, '{' :: '{' :: r⟩ []) := by
  induction s generalizing p with
  | nil =>
    exact Ev.starTail_stop (F := ('{' :: '{' :: r).length + 16) (Ev.skip_off (by simp)) ((rawElem_at_tag p r).weaken (by simp))
  | cons c t ih =>
    have hst : TextBeforeTag (c :: t) := by
      rcases hs with h | h
      · cases h
      · exact h
    have ht : t = [] ∨ TextBeforeTag t := by
      by_cases h : t = []
      · exact Or.inl h
      · exact Or.inr (hst.tail h)
    have h := Ev.starTail_step (F := (t ++ '{' :: '{' :: r).length + 17) (st := ⟨p, c :: t ++ '{' :: '{' :: r⟩) (Ev.skip_off (by simp))
      ((rawElem_step_before p c t ('{' :: '{' :: r) hst).weaken (by simp [List.length_cons])) (by simp) (ih ht (p + 1))
    have e1 : (c :: (t ++ '{' :: '{' :: r)).length + 17 = (t ++ '{' :: '{' :: r).length + 17 + 1 := by simp [List.length_cons]
    have e2 : p + (c :: t).length = p + 1 + t.length := by rw [List.length_cons]; omega
    rw [List.cons_append, e1, e2]
    simpa using h

end Hbs.PlainText
