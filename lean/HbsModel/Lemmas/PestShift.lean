import HbsModel.Lemmas.PestMono
/-
  Position independence of the interpreter: for grammars that do not use SOI, parsing the same text at
  a later offset gives the same result with every position shifted.
-/
namespace Hbs.Pest
variable {R : Type}

def shiftTok (d : Nat) (t : Tok R) : Tok R := ⟨t.rule, t.s + d, t.e + d⟩

def shiftRes (d : Nat) : PRes R → PRes R
  | .ok st toks => .ok ⟨st.pos + d, st.rest⟩ (toks.map (shiftTok d))
  | .fail => .fail
  | .fuel => .fuel

/-- the expression does not mention SOI -/
def noSoi : PExpr R → Bool
  | .builtin .soi => false
  | .seq a b => noSoi a && noSoi b
  | .choice a b => noSoi a && noSoi b
  | .opt a => noSoi a
  | .rep a => noSoi a
  | .repOnce a => noSoi a
  | .posPred a => noSoi a
  | .negPred a => noSoi a
  | .starTail a => noSoi a
  | _ => true

@[simp] theorem shiftRes_ok (d : Nat) (st : St) (toks : List (Tok R)) :
    shiftRes d (.ok st toks) = .ok ⟨st.pos + d, st.rest⟩ (toks.map (shiftTok d)) := rfl
@[simp] theorem shiftRes_fail (d : Nat) : shiftRes d (.fail : PRes R) = .fail := rfl
@[simp] theorem shiftRes_fuel (d : Nat) : shiftRes d (.fuel : PRes R) = .fuel := rfl

theorem matchStr_shift (s : Str) (st : St) (d : Nat) :
    matchStr s ⟨st.pos + d, st.rest⟩ = (matchStr s st).map (fun st' => ⟨st'.pos + d, st'.rest⟩) := by
  induction s generalizing st with
  | nil => simp [matchStr]
  | cons c cs ih =>
    cases hr : st.rest with
    | nil => simp [matchStr, hr]
    | cons x xs =>
      simp only [matchStr, hr]
      split
      · have := ih ⟨st.pos + 1, xs⟩
        simp only [] at this
        rw [show st.pos + d + 1 = st.pos + 1 + d by omega]
        exact this
      · rfl

theorem matchInsens_shift (s : Str) (st : St) (d : Nat) :
    matchInsens s ⟨st.pos + d, st.rest⟩ = (matchInsens s st).map (fun st' => ⟨st'.pos + d, st'.rest⟩) := by
  induction s generalizing st with
  | nil => simp [matchInsens]
  | cons c cs ih =>
    cases hr : st.rest with
    | nil => simp [matchInsens, hr]
    | cons x xs =>
      simp only [matchInsens, hr]
      split
      · have := ih ⟨st.pos + 1, xs⟩
        simp only [] at this
        rw [show st.pos + d + 1 = st.pos + 1 + d by omega]
        exact this
      · rfl

theorem matchChar_shift (p : Char → Bool) (st : St) (d : Nat) :
    matchChar p ⟨st.pos + d, st.rest⟩ = (matchChar p st).map (fun st' => ⟨st'.pos + d, st'.rest⟩) := by
  unfold matchChar
  cases st.rest with
  | nil => rfl
  | cons x xs => simp only []; split <;> simp <;> omega

theorem eval_shift (G : R → RuleDef R) (ws : Option R) (hG : ∀ r, noSoi (G r).body = true) (d : Nat)
    (F : Nat) (atom : Atom) (e : PExpr R) (st : St) (he : noSoi e = true) :
    eval G ws F atom e ⟨st.pos + d, st.rest⟩ = shiftRes d (eval G ws F atom e st) := by
  fun_induction eval G ws F atom e st <;> simp_all [eval, noSoi, matchStr_shift, matchInsens_shift, matchChar_shift] <;> grind [eval, shiftRes, shiftTok]

end Hbs.Pest
