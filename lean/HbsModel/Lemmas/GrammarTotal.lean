import HbsModel.Generated.Grammar
import HbsModel.Lemmas.PestTotal
/-
  The regenerated grammar passes the well-formedness checks of `Lemmas/PestTotal`: the tables are COMPUTED here from
  `Grammar.rules` (least fixpoints by iteration) and the checks are decided by the kernel, so they follow the grammar
  of the current tree.  Consequence: parsing any string with any rule as entry point terminates.
-/
namespace Hbs.Grammar
open Hbs.Pest

def nulOf (t : List Bool) (r : Rule) : Bool := t.getD r.ctorIdx false
def rankOf (t : List Nat) (r : Rule) : Nat := t.getD r.ctorIdx 0

def nulStep (t : List Bool) : List Bool := allRules.map (fun r => nullable (nulOf t) (rules r).body)
def rankStep (nt : List Bool) (t : List Nat) : List Nat := allRules.map (fun r => need (nulOf nt) (rankOf t) (rules r).body)

def iter {α : Type} (f : α → α) : Nat → α → α
  | 0, x => x
  | n + 1, x => iter f n (f x)

def nulTbl : List Bool := iter nulStep 12 (allRules.map (fun _ => false))
def rankTbl : List Nat := iter (rankStep nulTbl) 24 (allRules.map (fun _ => 0))

def nul (r : Rule) : Bool := nulOf nulTbl r
def rank (r : Rule) : Nat := rankOf rankTbl r
def K : Nat := (rankTbl.foldl max 0) + 1
def P : Nat := ((allRules.map (fun r => (rules r).body.size)).foldl max 0) + 1
def A : Nat := K * P + 1

/-- the four checks, as one Boolean over the rule list -/
def wfCheck : Bool :=
  allRules.all (fun r =>
    (nul r || !nullable nul (rules r).body) &&
    decide (need nul rank (rules r).body ≤ rank r) &&
    decide (rank r < K) &&
    decide ((rules r).body.size < P)) &&
  (match ws with
   | some w => need nul rank (rules w).body == 0
   | none => true)

def repsCheck : Bool := allRules.all (fun r => repsConsume nul (rules r).body)

theorem repsCheck_true : repsCheck = true := by decide +kernel

theorem wfCheck_true : wfCheck = true := by decide +kernel

theorem mem_allRules (r : Rule) : r ∈ allRules := by
  cases r <;> decide

theorem wf_rule (r : Rule) :
    (nul r = false → nullable nul (rules r).body = false) ∧ need nul rank (rules r).body ≤ rank r ∧
      rank r < K ∧ (rules r).body.size < P := by
  have h := wfCheck_true
  simp only [wfCheck, Bool.and_eq_true, List.all_eq_true, decide_eq_true_eq, Bool.or_eq_true,
    Bool.not_eq_true'] at h
  obtain ⟨⟨⟨h1, h2⟩, h3⟩, h4⟩ := h.1 r (mem_allRules r)
  refine ⟨?_, h2, h3, h4⟩
  intro hn
  cases h1 with
  | inl h => rw [hn] at h; cases h
  | inr h => exact h

theorem wf_ws (w : Rule) (hw : ws = some w) : need nul rank (rules w).body = 0 := by
  have h := wfCheck_true
  simp only [wfCheck, Bool.and_eq_true] at h
  have h2 := h.2
  rw [hw] at h2
  simpa using h2

/-- no repetition of the grammar is over a body that can succeed on nothing -/
theorem reps_consume (r : Rule) : repsConsume nul (rules r).body = true := by
  have h := repsCheck_true
  simp only [repsCheck, List.all_eq_true] at h
  exact h r (mem_allRules r)

theorem K_pos : 1 ≤ K := Nat.le_add_left 1 _

/-- evaluation of ANY expression on ANY input never runs out of fuel once the fuel is `n * A + K * P + size` for an
    input of at most `n` characters – `A`, `K`, `P` are numbers computed from the grammar -/
theorem eval_never_fuel (n F : Nat) (atom : Atom) (e : PExpr Rule) (st : St) (hn : st.rest.length ≤ n)
    (hF : n * A + K * P + e.size ≤ F) : eval rules ws F atom e st ≠ .fuel :=
  eval_total rules ws nul rank K P A (fun r => (wf_rule r).1) (fun r => (wf_rule r).2.1) (fun r => (wf_rule r).2.2.1)
    K_pos (fun r => (wf_rule r).2.2.2) wf_ws (Nat.le_refl _) F n K atom e st hn
    (need_le_K nul rank K (fun r => (wf_rule r).2.2.1) K_pos e) (Nat.le_refl _) hF

/-- PARSING TERMINATES: with any rule as the entry point and any source text, the interpreter gives a definite answer
    – pairs or a failure – with fuel linear in the length of the text -/
theorem parse_terminates (r : Rule) (src : Str) (F : Nat) (hF : src.length * A + K * P + 1 ≤ F) :
    eval rules ws F .nonAtomic (.rule r) ⟨0, src⟩ ≠ .fuel :=
  eval_never_fuel src.length F .nonAtomic (.rule r) ⟨0, src⟩ (Nat.le_refl _) (by simpa [PExpr.size] using hF)

theorem constants_small : A ≤ 2000 ∧ K * P + 1 ≤ 2000 := by decide +kernel

/-- … in particular with the fuel the model's `Pest.parse` (and so `compile2`) uses: its `.fuel` outcome is unreachable -/
theorem parse_never_fuel (r : Rule) (src : Str) : Pest.parse rules ws r src ≠ .fuel := by
  unfold Pest.parse
  apply parse_terminates
  have h := constants_small
  have h1 : src.length * A ≤ src.length * 2000 := Nat.mul_le_mul_left _ h.1
  unfold defaultFuel
  omega

end Hbs.Grammar
