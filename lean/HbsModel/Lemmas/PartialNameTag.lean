import HbsModel.Lemmas.HtmlNameTag
import HbsModel.Lemmas.PartialLine
/-
  `{{> name}}` for EVERY partial name made of the grammar's `partial_symbol_char` class (letters, digits, `-`, `_`, `/`, `.`,
  every character from U+0080 up – e.g. `dir/name.hbs`): one element of `template`, the pairs partial_expression and
  partial_identifier, wherever it stands and whatever follows.
-/
namespace Hbs.PlainText
open Hbs Hbs.Pest Hbs.Grammar

/-- the character class `partial_symbol_char` of src/grammar.pest -/
def pSymChar (c : Char) : Bool :=
  builtinChar .asciiAlnum c || (Char.ofNat 45) == c || (Char.ofNat 95) == c
    || inRange (Char.ofNat 128) (Char.ofNat 2047) c || inRange (Char.ofNat 2048) (Char.ofNat 65535) c
    || inRange (Char.ofNat 65536) (Char.ofNat 1114111) c || (Char.ofNat 47) == c || (Char.ofNat 46) == c

theorem partial_symbol_char_nf : unfoldS rules keepSilent 8 (rules .r_partial_symbol_char).body =
    .choice (.choice (.choice (.choice (.choice (.choice (.choice (.builtin .asciiAlnum) (.str [Char.ofNat 45])) (.str [Char.ofNat 95]))
      (.range (Char.ofNat 128) (Char.ofNat 2047))) (.range (Char.ofNat 2048) (Char.ofNat 65535))) (.range (Char.ofNat 65536) (Char.ofNat 1114111)))
      (.str [Char.ofNat 47])) (.str [Char.ofNat 46]) := rfl

/-- the rule `partial_symbol_char` is the class `pSymChar` -/
theorem partial_symbol_char_class : IsClass (.rule .r_partial_symbol_char) pSymChar 17 := by
  intro atom p c r
  have hbody := (((((((IsClass.alnum.choice (IsClass.str1 (Char.ofNat 45))).choice (IsClass.str1 (Char.ofNat 95))).choice
    (IsClass.range (Char.ofNat 128) (Char.ofNat 2047))).choice (IsClass.range (Char.ofNat 2048) (Char.ofNat 65535))).choice
    (IsClass.range (Char.ofNat 65536) (Char.ofNat 1114111))).choice (IsClass.str1 (Char.ofNat 47))).choice (IsClass.str1 (Char.ofNat 46))) atom p c r
  have hty : (rules .r_partial_symbol_char).ty = .silent := rfl
  by_cases h : pSymChar c = true
  · simp only [h, ↓reduceIte]
    have h' : (builtinChar .asciiAlnum c || (Char.ofNat 45) == c || (Char.ofNat 95) == c
      || inRange (Char.ofNat 128) (Char.ofNat 2047) c || inRange (Char.ofNat 2048) (Char.ofNat 65535) c
      || inRange (Char.ofNat 65536) (Char.ofNat 1114111) c || (Char.ofNat 47) == c || (Char.ofNat 46) == c) = true := h
    simp only [h', ↓reduceIte] at hbody
    have hr := Ev.rule_ok (G := rules) (ws := ws) (atom := atom) (r := Rule.r_partial_symbol_char) (F := 8 + 8)
      (st := ⟨p, c :: r⟩) (st' := ⟨p + 1, r⟩) (toks := [])
      (by have := E.of_nf (atom := atom) .r_partial_symbol_char partial_symbol_char_nf hbody; cases atom <;> exact this)
    simpa [hty] using hr
  · simp only [h]
    have h' : (builtinChar .asciiAlnum c || (Char.ofNat 45) == c || (Char.ofNat 95) == c
      || inRange (Char.ofNat 128) (Char.ofNat 2047) c || inRange (Char.ofNat 2048) (Char.ofNat 65535) c
      || inRange (Char.ofNat 65536) (Char.ofNat 1114111) c || (Char.ofNat 47) == c || (Char.ofNat 46) == c) = false := by simpa [pSymChar] using h
    simp only [h'] at hbody
    exact Ev.rule_fail (F := 8 + 8) (by have := E.of_nf (atom := atom) .r_partial_symbol_char partial_symbol_char_nf hbody; cases atom <;> exact this)

theorem pSymChar_ne {c d : Char} (hc : pSymChar c = true) (hd : pSymChar d = false) : c ≠ d :=
  fun e => by rw [e, hd] at hc; cases hc

/-- the loop of `partial_identifier` over a name in front of a character outside the class -/
theorem pSymLoop (nm r : Str) (d : Char) (hnm : ∀ c ∈ nm, pSymChar c = true) (hd : pSymChar d = false) (p : Nat) :
    E (nm.length + 20) .atomic (.starTail (.rule .r_partial_symbol_char)) ⟨p, nm ++ d :: r⟩ (.ok ⟨p + nm.length, d :: r⟩ []) := by
  induction nm generalizing p with
  | nil =>
    have h := partial_symbol_char_class .atomic p d r
    simp only [hd] at h
    exact Ev.starTail_stop (F := 19) (Ev.skip_off (by simp)) (h.weaken (by omega))
  | cons c t ih =>
    have h := partial_symbol_char_class .atomic p c (t ++ d :: r)
    simp only [hnm c (by simp), ↓reduceIte] at h
    have hs := Ev.starTail_step (F := t.length + 20) (st := ⟨p, c :: t ++ d :: r⟩) (Ev.skip_off (by simp))
      (h.weaken (by omega)) (by simp) (ih (fun x hx => hnm x (by simp [hx])) (p + 1))
    have e2 : p + (c :: t).length = p + 1 + t.length := by rw [List.length_cons]; omega
    rw [List.cons_append, e2, show (c :: t).length + 20 = t.length + 20 + 1 by simp]
    simpa using hs

theorem partial_identifier_nf : unfoldS rules keepSilent 8 (rules .r_partial_identifier).body =
    .choice (.choice (.repOnce (.rule .r_partial_symbol_char)) (.seq (.seq (.str ['[']) (.repOnce (.builtin .any))) (.str [']'])))
      (.seq (.seq (.str ['\'']) (.repOnce (.seq (.negPred (.str ['\''])) (.choice (.str ['\\', '\'']) (.builtin .any))))) (.str ['\''])) := rfl

theorem partial_identifier_ok (nm r : Str) (d : Char) (hne : nm ≠ []) (hnm : ∀ c ∈ nm, pSymChar c = true) (hd : pSymChar d = false) (p : Nat) :
    E (nm.length + 40) .nonAtomic (.rule .r_partial_identifier) ⟨p, nm ++ d :: r⟩
      (.ok ⟨p + nm.length, d :: r⟩ [⟨some .r_partial_identifier, p, p + nm.length⟩]) := by
  obtain ⟨c, t, rfl⟩ := List.exists_cons_of_ne_nil hne
  have h := partial_symbol_char_class .atomic p c (t ++ d :: r)
  simp only [hnm c (by simp), ↓reduceIte] at h
  have hl := pSymLoop t r d (fun x hx => hnm x (by simp [hx])) hd (p + 1)
  have hrep := Ev.repOnce_some (F := t.length + 20) (h.weaken (by omega)) hl
  have e2 : p + (c :: t).length = p + 1 + t.length := by rw [List.length_cons]; omega
  have hbody := Ev.choice_left (b := .seq (.seq (.str ['\'']) (.repOnce (.seq (.negPred (.str ['\''])) (.choice (.str ['\\', '\'']) (.builtin .any))))) (.str ['\'']))
    (Ev.choice_left (b := .seq (.seq (.str ['[']) (.repOnce (.builtin .any))) (.str [']'])) hrep)
  have hr := Ev.rule_ok (G := rules) (ws := ws) (atom := .nonAtomic) (r := Rule.r_partial_identifier) (F := t.length + 20 + 1 + 1 + 1 + 8)
    (st := ⟨p, c :: t ++ d :: r⟩) (st' := ⟨p + 1 + t.length, d :: r⟩)
    (E.of_nf (atom := .atomic) .r_partial_identifier partial_identifier_nf (by simpa using hbody))
  have hty : (rules .r_partial_identifier).ty = .atomic := rfl
  simp only [hty] at hr
  rw [e2]
  exact (by simpa using hr : E _ _ _ _ _).weaken (by simp <;> omega)

/-- what may name a partial in `{{> name}}`: a non-empty run of the class -/
structure PartialName (nm : Str) : Prop where
  ne : nm ≠ []
  sym : ∀ c ∈ nm, pSymChar c = true

def pnameSrc (nm : Str) : Str := '{' :: '{' :: ('>' :: ' ' :: nm ++ ['}', '}'])
def pnameToks (n : Nat) : List (Tok Rule) := [⟨some .r_partial_expression, 0, n + 6⟩, ⟨some .r_partial_identifier, 4, 4 + n⟩]

theorem partial_exp_line_nf : unfoldS rules keepSilent 8 (rules .r_partial_exp_line).body =
    .seq (.choice (.rule .r_partial_identifier) (.rule .r_name)) (.rep (.choice (.rule .r_hash) (.rule .r_helper_parameter))) := rfl

theorem partial_expression_nf : unfoldS rules keepSilent 8 (rules .r_partial_expression).body =
    .seq (.seq (.seq (.seq (.seq (.str ['{', '{']) (.opt (.rule .r_leading_tilde_to_omit_whitespace))) (.str ['>'])) (.rule .r_partial_exp_line))
      (.opt (.rule .r_trailing_tilde_to_omit_whitespace))) (.str ['}', '}']) := rfl

/-- decided: no parameter or hash begins with `}` -/
theorem param_decided : evalK rules ws false 60 .nonAtomic (.choice (.rule .r_hash) (.rule .r_helper_parameter)) 0 ['}'] = some .fail :=
  KRes.isFail_eq (by decide)

/-- decided: on `{{>` – whatever follows – every alternative of `template` in front of partial_expression fails -/
def altsBeforePartial : PExpr Rule :=
  .choice (.choice (.choice (.choice altsBefore (.rule .r_hbs_comment)) (.rule .r_hbs_comment_compact)) (.rule .r_decorator_expression)) (.rule .r_decorator_block)

theorem before_partial_decided : evalK rules ws false 80 .nonAtomic altsBeforePartial 0 ['{', '{', '>'] = some .fail :=
  KRes.isFail_eq (by decide)

/-- **`{{> name}}` is one element of `template`** – for every partial name -/
theorem pname_tagAt (nm : Str) (h : PartialName nm) : TagAt (pnameSrc nm) (nm.length + 100) (pnameToks nm.length) := by
  intro p tail
  have hpid := partial_identifier_ok nm ('}' :: tail) '}' h.ne h.sym (by decide) (p + 4)
  have hA := Ev.seq_ok (F := nm.length + 50)
    (Ev.str_ok (F := nm.length + 49) (s := ['{', '{']) (st := ⟨p, pnameSrc nm ++ tail⟩) (st' := ⟨p + 2, '>' :: ' ' :: nm ++ '}' :: '}' :: tail⟩) (by simp [matchStr, pnameSrc]))
    ((skip_at '>' _ (by decide) (p + 2)).weaken (by omega)) ((lead_tilde_none '>' _ (p + 2) (by decide)).weaken (by omega))
  have hB := Ev.seq_ok (F := nm.length + 51) hA ((skip_at '>' _ (by decide) (p + 2)).weaken (by omega))
    (Ev.str_ok (F := nm.length + 50) (s := ['>']) (st' := ⟨p + 3, ' ' :: nm ++ '}' :: '}' :: tail⟩) (by simp [matchStr]))
  -- the implicit whitespace behind `>` : the blank is skipped
  obtain ⟨c0, t, hnm⟩ := List.exists_cons_of_ne_nil h.ne
  have hc0 : pSymChar c0 = true := h.sym c0 (by rw [hnm]; simp)
  have hc0ws : isPestWs c0 = false := by
    cases hw : isPestWs c0 with
    | false => rfl
    | true =>
      simp only [isPestWs, Bool.or_eq_true, beq_iff_eq] at hw
      rcases hw with ((rfl | rfl) | rfl) | rfl <;> exact absurd hc0 (by decide)
  have hskip : E 8 .nonAtomic .skip ⟨p + 3, ' ' :: nm ++ '}' :: '}' :: tail⟩ (.ok ⟨p + 4, nm ++ '}' :: '}' :: tail⟩ []) := by
    have := skip_run [' '] (nm ++ '}' :: '}' :: tail) (by simp [isPestWs]) (Or.inr ⟨c0, t ++ '}' :: '}' :: tail, by simp [hnm], hc0ws⟩) (p + 3)
    simpa using this.weaken (F' := 8) (by simp)
  -- partial_exp_line
  have hrepn : E 62 .nonAtomic (.rep (.choice (.rule .r_hash) (.rule .r_helper_parameter))) ⟨p + 4 + nm.length, '}' :: '}' :: tail⟩
      (.ok ⟨p + 4 + nm.length, '}' :: '}' :: tail⟩ []) := by
    have := evalK_at rules ws rules_noSoi false ('}' :: tail) (by simp) 60 .nonAtomic _ rfl ['}'] .fail param_decided (p + 4 + nm.length)
    exact (Ev.rep_none (F := 60) ⟨by simpa using this, by simp⟩).weaken (by omega)
  have hline := Ev.seq_ok (F := nm.length + 62) (Ev.choice_left (F := nm.length + 61) (b := .rule .r_name) (hpid.weaken (by omega)))
    ((skip_at '}' ('}' :: tail) (by decide) (p + 4 + nm.length)).weaken (by omega)) (hrepn.weaken (by omega))
  have hpel := Ev.rule_ok (G := rules) (ws := ws) (atom := .nonAtomic) (r := Rule.r_partial_exp_line) (F := nm.length + 62 + 1 + 8)
    (st := ⟨p + 4, nm ++ '}' :: '}' :: tail⟩) (st' := ⟨p + 4 + nm.length, '}' :: '}' :: tail⟩)
    (E.of_nf (atom := .nonAtomic) .r_partial_exp_line partial_exp_line_nf hline)
  have hty : (rules .r_partial_exp_line).ty = .silent := rfl
  simp only [hty] at hpel
  have hC := Ev.seq_ok (F := nm.length + 72) (hB.weaken (by omega)) (hskip.weaken (by omega)) (by simpa using hpel : E _ _ _ _ _)
  have hD := Ev.seq_ok (F := nm.length + 73) hC ((skip_at '}' ('}' :: tail) (by decide) (p + 4 + nm.length)).weaken (by omega))
    ((trail_tilde_none '}' ('}' :: tail) (p + 4 + nm.length) (by decide)).weaken (by omega))
  have hEnd := Ev.seq_ok (F := nm.length + 74) hD ((skip_at '}' ('}' :: tail) (by decide) (p + 4 + nm.length)).weaken (by omega))
    (Ev.str_ok (F := nm.length + 73) (s := ['}', '}']) (st' := ⟨p + 4 + nm.length + 2, tail⟩) (by simp [matchStr]))
  have hr := Ev.rule_ok (G := rules) (ws := ws) (atom := .nonAtomic) (r := Rule.r_partial_expression) (F := nm.length + 74 + 1 + 8)
    (st := ⟨p, pnameSrc nm ++ tail⟩) (st' := ⟨p + 4 + nm.length + 2, tail⟩)
    (E.of_nf (atom := .nonAtomic) .r_partial_expression partial_expression_nf hEnd)
  have hty2 : (rules .r_partial_expression).ty = .normal := rfl
  simp only [hty2] at hr
  have e1 : p + 4 + nm.length + 2 = p + (nm.length + 6) := by omega
  rw [e1] at hr
  have hbefore : E 80 .nonAtomic altsBeforePartial ⟨p, pnameSrc nm ++ tail⟩ .fail := by
    have := evalK_at rules ws rules_noSoi false (' ' :: nm ++ '}' :: '}' :: tail) (by simp) 80 .nonAtomic altsBeforePartial rfl ['{', '{', '>'] .fail before_partial_decided p
    exact ⟨by simpa [pnameSrc] using this, by simp⟩
  rw [templateAlt_eq]
  have h2 := Ev.choice_right (F := nm.length + 90) (hbefore.weaken (by omega)) (hr.weaken (by omega))
  have := Ev.choice_left (b := .rule .r_partial_block) h2
  have hlenT : (pnameSrc nm).length = nm.length + 6 := by simp [pnameSrc]
  have := this.weaken (F' := nm.length + 100) (by omega)
  unfold altsBeforePartial at this
  simpa [pnameToks, shiftTok, hlenT, Nat.add_comm, Nat.add_left_comm, Nat.add_assoc] using this

end Hbs.PlainText
