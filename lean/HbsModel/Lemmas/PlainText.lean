import HbsModel.Lemmas.PestEoi
import HbsModel.Generated.Grammar
/-
  Symbolic evaluation of the PEG interpreter on the REGENERATED grammar for text without tags:
  a non-empty source made of characters other than `{` and `\` parses to  template( raw_text ) EOI.
-/
namespace Hbs.PlainText
open Hbs Hbs.Pest Hbs.Grammar

/-- a character that can neither start a tag nor an escape -/
def plainChar (c : Char) : Prop := c ≠ '{' ∧ c ≠ '\\'

/-- one element of `raw_text`: `escape | (!"{{" ~ ANY)` -/
def rawElem : PExpr Rule :=
  .choice (.rule .r_escape) (.seq (.negPred (.str ['{', '{'])) (.builtin .any))

theorem raw_text_def : rules .r_raw_text = ⟨.compound, .repOnce rawElem⟩ := rfl

/-- the alternatives of `template` -/
def templateAlt : PExpr Rule :=
  match (rules .r_template).body with
  | .rep c => c
  | e => e

theorem template_def : rules .r_template = ⟨.normal, .rep templateAlt⟩ := rfl
theorem handlebars_def : rules .r_handlebars = ⟨.silent, .seq (.rule .r_template) (.builtin .eoi)⟩ := rfl

abbrev E := Ev rules ws

/-- WHITESPACE does not match at the end of the input -/
theorem ws_fails_eoi (p : Nat) : E 4 .atomic (rules .r_WHITESPACE).body ⟨p, []⟩ .fail := by
  show E 4 .atomic (.choice (.choice (.choice (.str _) (.str _)) (.str _)) (.str _)) _ _
  exact Ev.choice_right (Ev.choice_right (Ev.choice_right (Ev.str_fail rfl) (Ev.str_fail rfl)) (Ev.str_fail rfl)) (Ev.str_fail rfl)

/-- implicit whitespace skipping is a no-op at the end of the input, whatever the atomicity -/
theorem skip_eoi (atom : Atom) (p : Nat) : E 5 atom .skip ⟨p, []⟩ (.ok ⟨p, []⟩ []) := by
  cases atom with
  | nonAtomic => exact Ev.skip_none (ws_fails_eoi p)
  | atomic => exact Ev.skip_off (by simp)
  | compound => exact Ev.skip_off (by simp)

/-- decided over the regenerated grammar: every alternative of `template` fails at the end of the input -/
def altFuel : Nat := (failsE rules 5 40 templateAlt).getD 0
theorem alt_fails_decided : (failsE rules 5 40 templateAlt).isSome = true ∧ altFuel ≤ 60 := by decide

theorem alt_fails_eoi (atom : Atom) (p : Nat) : E 60 atom templateAlt ⟨p, []⟩ .fail := by
  have h := alt_fails_decided
  have hs : failsE rules 5 40 templateAlt = some altFuel := by
    unfold altFuel
    cases hf : failsE rules 5 40 templateAlt with
    | none => rw [hf] at h; simp at h
    | some F => rfl
  exact (failsE_sound rules ws 5 skip_eoi 40 templateAlt altFuel hs atom p).weaken h.2

/-- the source contains no `{{` -/
def noOpen : Str → Prop
  | [] => True
  | [_] => True
  | c :: d :: t => ¬(c = '{' ∧ d = '{') ∧ noOpen (d :: t)

theorem noOpen_tail (c : Char) (t : Str) (h : noOpen (c :: t)) : noOpen t := by
  cases t with
  | nil => trivial
  | cons d t => exact h.2

theorem noOpen_dropWhile (p : Char → Bool) (t : Str) (h : noOpen t) : noOpen (t.dropWhile p) := by
  induction t with
  | nil => simpa using h
  | cons c t ih =>
    simp only [List.dropWhile]
    split
    · exact ih (noOpen_tail c t h)
    · exact h

/-- no `{{` here -/
theorem matchOpen_none (p : Nat) (s : Str) (h : noOpen s) : matchStr ['{', '{'] ⟨p, s⟩ = none := by
  cases s with
  | nil => rfl
  | cons c t =>
    cases t with
    | nil =>
      by_cases hc : ('{' == c) = true <;> simp [matchStr, hc]
    | cons d t =>
      have h1 := h.1
      by_cases hc : c = '{'
      · subst hc
        have hd : ('{' == d) = false := beq_eq_false_iff_ne.mpr (fun e => h1 ⟨rfl, e.symm⟩)
        simp [matchStr, hd]
      · have hc' : ('{' == c) = false := beq_eq_false_iff_ne.mpr (fun e => hc e.symm)
        simp [matchStr, hc']

def isBs (c : Char) : Bool := c == '\\'

/-- the loop `"\\"*` consumes the whole run of backslashes -/
theorem bsLoop (t : Str) (p : Nat) :
    E (t.length + 3) .atomic (.starTail (.str ['\\'])) ⟨p, t⟩
      (.ok ⟨p + (t.takeWhile isBs).length, t.dropWhile isBs⟩ []) := by
  induction t generalizing p with
  | nil =>
    exact Ev.starTail_stop (F := 2) (Ev.skip_off (by simp)) (Ev.str_fail rfl)
  | cons c t ih =>
    by_cases hc : c = '\\'
    · subst hc
      have h := Ev.starTail_step (F := t.length + 3) (st := ⟨p, '\\' :: t⟩) (a := .str ['\\'])
        (Ev.skip_off (by simp)) (Ev.str_ok (F := t.length + 2) (st' := ⟨p + 1, t⟩) (by simp [matchStr]))
        (by simp) (ih (p + 1))
      have e1 : ('\\' :: t).length + 3 = t.length + 3 + 1 := by rw [List.length_cons]
      rw [e1]
      have e2 : p + (('\\' :: t).takeWhile isBs).length = p + 1 + (t.takeWhile isBs).length := by
        simp [List.takeWhile, isBs]; omega
      have e3 : ('\\' :: t).dropWhile isBs = t.dropWhile isBs := by simp [List.dropWhile, isBs]
      rw [e2, e3]
      simpa using h
    · have hb : ('\\' == c) = false := beq_eq_false_iff_ne.mpr (fun e => hc e.symm)
      have hb2 : isBs c = false := by simp [isBs, hc]
      have hm : matchStr ['\\'] ⟨p, c :: t⟩ = none := by simp [matchStr, hb]
      have h : E ((c :: t).length + 3) .atomic (.starTail (.str ['\\'])) ⟨p, c :: t⟩ (.ok ⟨p, c :: t⟩ []) :=
        Ev.starTail_stop (F := (c :: t).length + 2) (Ev.skip_off (by simp)) (Ev.str_fail hm)
      simpa [List.takeWhile, List.dropWhile, hb2] using h

/-- `escape` fails where neither the text after a first backslash nor the text after the whole run of
    backslashes begins with `{{` -/
theorem escape_fails_local (atom : Atom) (p : Nat) (s : Str)
    (h1 : s.head? = some '\\' → ∀ p', matchStr ['{', '{'] ⟨p', s.tail⟩ = none)
    (h2 : s.head? = some '\\' → ∀ p', matchStr ['{', '{'] ⟨p', s.dropWhile isBs⟩ = none) :
    E (s.length + 12) atom (.rule .r_escape) ⟨p, s⟩ .fail := by
  apply Ev.rule_fail
  show E (s.length + 11) .atomic (.choice (.seq (.seq (.str ['\\']) (.str ['{', '{'])) _)
    (.seq (.seq (.str ['\\']) (.repOnce (.str ['\\']))) (.posPred (.str ['{', '{'])))) ⟨p, s⟩ .fail
  cases s with
  | nil =>
    exact Ev.choice_right (Ev.seq_fail1 (Ev.seq_fail1 (Ev.str_fail rfl))) (Ev.seq_fail1 (Ev.seq_fail1 (Ev.str_fail rfl)))
  | cons c t =>
    by_cases hc : c = '\\'
    · subst hc
      have hstr : E (t.length + 8) .atomic (.str ['\\']) ⟨p, '\\' :: t⟩ (.ok ⟨p + 1, t⟩ []) :=
        Ev.str_ok (F := t.length + 7) (by simp [matchStr])
      -- first alternative: the backslash, then no `{{`
      have alt1 : E (t.length + 11) .atomic (.seq (.seq (.str ['\\']) (.str ['{', '{'])) (.opt (.str ['{', '{'])))
          ⟨p, '\\' :: t⟩ .fail :=
        Ev.seq_fail1 (F := t.length + 10) (Ev.seq_fail2 (F := t.length + 9) (hstr.weaken (by omega)) (Ev.skip_off (by simp))
          (Ev.str_fail (h1 rfl (p + 1))))
      -- second alternative: the run of backslashes, then no `{{`
      have alt2 : E (t.length + 11) .atomic
          (.seq (.seq (.str ['\\']) (.repOnce (.str ['\\']))) (.posPred (.str ['{', '{']))) ⟨p, '\\' :: t⟩ .fail := by
        cases t with
        | nil =>
          exact Ev.seq_fail1 (F := 10) (Ev.seq_fail2 (F := 9) (Ev.str_ok (F := 8) (st' := ⟨p + 1, []⟩) (by simp [matchStr]))
            (Ev.skip_off (by simp)) (Ev.repOnce_fail (Ev.str_fail rfl)))
        | cons d t' =>
          by_cases hd : d = '\\'
          · subst hd
            have hrun := bsLoop t' (p + 2)
            have hrep : E (t'.length + 5) .atomic (.repOnce (.str ['\\'])) ⟨p + 1, '\\' :: t'⟩
                (.ok ⟨p + 2 + (t'.takeWhile isBs).length, t'.dropWhile isBs⟩ ([] ++ [])) :=
              Ev.repOnce_some (F := t'.length + 4) (Ev.str_ok (F := t'.length + 3) (st' := ⟨p + 2, t'⟩) (by simp [matchStr]))
                (hrun.weaken (by omega))
            have hinner : E (t'.length + 7) .atomic (.seq (.str ['\\']) (.repOnce (.str ['\\']))) ⟨p, '\\' :: '\\' :: t'⟩
                (.ok ⟨p + 2 + (t'.takeWhile isBs).length, t'.dropWhile isBs⟩ ([] ++ [] ++ ([] ++ []))) :=
              Ev.seq_ok (F := t'.length + 6) (Ev.str_ok (F := t'.length + 5) (st' := ⟨p + 1, '\\' :: t'⟩) (by simp [matchStr]))
                (Ev.skip_off (by simp)) (hrep.weaken (by omega))
            have hdw : ('\\' :: '\\' :: t').dropWhile isBs = t'.dropWhile isBs := by simp [List.dropWhile, isBs]
            have hno := h2 rfl (p + 2 + (t'.takeWhile isBs).length)
            rw [hdw] at hno
            have := Ev.seq_fail2 (F := t'.length + 11) (hinner.weaken (by omega)) (Ev.skip_off (by simp))
              (Ev.posPred_fail (F := t'.length + 10) (Ev.str_fail (F := t'.length + 9) hno))
            have e1 : ('\\' :: t').length + 11 = t'.length + 11 + 1 := by rw [List.length_cons]
            rw [e1]; exact this
          · have hb : ('\\' == d) = false := beq_eq_false_iff_ne.mpr (fun e => hd e.symm)
            have hm : matchStr ['\\'] ⟨p + 1, d :: t'⟩ = none := by simp [matchStr, hb]
            exact Ev.seq_fail1 (F := (d :: t').length + 10) (Ev.seq_fail2 (F := (d :: t').length + 9)
              (Ev.str_ok (F := (d :: t').length + 8) (st' := ⟨p + 1, d :: t'⟩) (by simp [matchStr]))
              (Ev.skip_off (by simp)) (Ev.repOnce_fail (Ev.str_fail hm)))
      have e0 : ('\\' :: t).length + 11 = t.length + 11 + 1 := by rw [List.length_cons]
      rw [e0]
      exact Ev.choice_right alt1 alt2
    · have hb : ('\\' == c) = false := beq_eq_false_iff_ne.mpr (fun e => hc e.symm)
      have hm : matchStr ['\\'] ⟨p, c :: t⟩ = none := by simp [matchStr, hb]
      exact Ev.choice_right (Ev.seq_fail1 (Ev.seq_fail1 (Ev.str_fail hm))) (Ev.seq_fail1 (Ev.seq_fail1 (Ev.str_fail hm)))

/-- `escape` fails everywhere in a source without `{{` (it needs one after the backslashes) -/
theorem escape_fails (atom : Atom) (p : Nat) (s : Str) (h : noOpen s) :
    E (s.length + 12) atom (.rule .r_escape) ⟨p, s⟩ .fail :=
  escape_fails_local atom p s
    (fun _ p' => matchOpen_none p' _ (by cases s with | nil => trivial | cons c t => exact noOpen_tail c t h))
    (fun _ p' => matchOpen_none p' _ (noOpen_dropWhile _ _ h))

/-- one character of a source without `{{` is one element of `raw_text` -/
theorem rawElem_step (p : Nat) (c : Char) (t : Str) (h : noOpen (c :: t)) :
    E ((c :: t).length + 15) .compound rawElem ⟨p, c :: t⟩ (.ok ⟨p + 1, t⟩ []) := by
  have := Ev.choice_right (b := .seq (.negPred (.str ['{', '{'])) (.builtin .any))
    ((escape_fails .compound p (c :: t) h).weaken (F' := (c :: t).length + 14) (by omega))
    (Ev.seq_ok (F := (c :: t).length + 13) (Ev.negPred_ok (Ev.str_fail (matchOpen_none p _ h))) (Ev.skip_off (by simp)) Ev.any_ok)
  simpa [rawElem] using this

theorem rawElem_eoi (p : Nat) : E 15 .compound rawElem ⟨p, []⟩ .fail := by
  exact Ev.choice_right ((escape_fails .compound p [] trivial).weaken (F' := 14) (by simp))
    (Ev.seq_fail2 (F := 13) (Ev.negPred_ok (Ev.str_fail rfl)) (Ev.skip_off (by simp)) Ev.any_fail)

/-- the loop of `raw_text` consumes every character up to the end -/
theorem rawLoop (t : Str) (ht : noOpen t) (p : Nat) :
    E (t.length + 17) .compound (.starTail rawElem) ⟨p, t⟩ (.ok ⟨p + t.length, []⟩ []) := by
  induction t generalizing p with
  | nil =>
    exact Ev.starTail_stop (F := 16) (Ev.skip_off (by simp)) ((rawElem_eoi p).weaken (by omega))
  | cons c t ih =>
    have ht' : noOpen t := noOpen_tail c t ht
    have h := Ev.starTail_step (F := t.length + 17) (st := ⟨p, c :: t⟩) (Ev.skip_off (by simp))
      ((rawElem_step p c t ht).weaken (by rw [List.length_cons]; omega)) (by simp) (ih ht' (p + 1))
    have e1 : (c :: t).length + 17 = t.length + 17 + 1 := by rw [List.length_cons]
    have e2 : p + (c :: t).length = p + 1 + t.length := by rw [List.length_cons]; omega
    rw [e1, e2]
    simpa using h

/-- `raw_text` on a non-empty source without `{{`: one pair spanning all of it -/
theorem raw_text_plain (c : Char) (t : Str) (hs : noOpen (c :: t)) :
    E ((c :: t).length + 20) .nonAtomic (.rule .r_raw_text) ⟨0, c :: t⟩
      (.ok ⟨(c :: t).length, []⟩ [⟨some .r_raw_text, 0, (c :: t).length⟩]) := by
  have ht : noOpen t := noOpen_tail c t hs
  have hloop := rawLoop t ht 1
  have hbody : E (t.length + 18) .compound (.repOnce rawElem) ⟨0, c :: t⟩ (.ok ⟨1 + t.length, []⟩ ([] ++ [])) :=
    Ev.repOnce_some ((rawElem_step 0 c t hs).weaken (by rw [List.length_cons]; omega)) (by simpa using hloop)
  have hr := Ev.rule_ok (G := rules) (ws := ws) (atom := .nonAtomic) (r := Rule.r_raw_text) (F := t.length + 18)
    (st := ⟨0, c :: t⟩) (st' := ⟨1 + t.length, []⟩) (toks := []) (by simpa [raw_text_def, innerAtom] using hbody)
  have e1 : (c :: t).length = 1 + t.length := by rw [List.length_cons]; omega
  rw [e1]
  have : (rules .r_raw_text).ty = .compound := rfl
  simp only [this] at hr
  exact hr.weaken (by omega)

/-- the first alternative of `template` is `raw_text`: success of `raw_text` is success of the choice -/
theorem alt_of_raw_text (F : Nat) (st st' : St) (toks : List (Tok Rule))
    (h : E F .nonAtomic (.rule .r_raw_text) st (.ok st' toks)) :
    E (F + 10) .nonAtomic templateAlt st (.ok st' toks) := by
  show E (F + 10) .nonAtomic (.choice (.choice (.choice (.choice (.choice (.choice (.choice (.choice (.choice (.choice
    (.rule .r_raw_text) _) _) _) _) _) _) _) _) _) _) st (.ok st' toks)
  exact Ev.choice_left (Ev.choice_left (Ev.choice_left (Ev.choice_left (Ev.choice_left (Ev.choice_left
    (Ev.choice_left (Ev.choice_left (Ev.choice_left (Ev.choice_left h)))))))))

/-- the pair stream of a plain source -/
def plainToks (n : Nat) : List (Tok Rule) :=
  [⟨some .r_template, 0, n⟩, ⟨some .r_raw_text, 0, n⟩, ⟨none, n, n⟩]

/-- from one `raw_text` pair spanning the whole source (with whatever inner pairs) to the pair stream of
    `handlebars`: template( raw_text( inner… ) ) EOI -/
theorem handlebars_of_raw_text (q : Str) (inner : List (Tok Rule)) (F : Nat)
    (hraw : E F .nonAtomic (.rule .r_raw_text) ⟨0, q⟩ (.ok ⟨q.length, []⟩ (⟨some .r_raw_text, 0, q.length⟩ :: inner))) :
    E (F + 80) .nonAtomic (.rule .r_handlebars) ⟨0, q⟩
      (.ok ⟨q.length, []⟩ (⟨some .r_template, 0, q.length⟩ :: ⟨some .r_raw_text, 0, q.length⟩ :: (inner ++ [⟨none, q.length, q.length⟩]))) := by
  let n := q.length
  have halt := alt_of_raw_text _ _ _ _ hraw
  have hrep : E (F + 70) .nonAtomic (.rep templateAlt) ⟨0, q⟩
      (.ok ⟨n, []⟩ ((⟨some .r_raw_text, 0, n⟩ :: inner) ++ [])) :=
    Ev.rep_some (F := F + 69) (halt.weaken (by omega))
      (Ev.starTail_stop (F := F + 68) ((skip_eoi .nonAtomic n).weaken (by omega)) ((alt_fails_eoi .nonAtomic n).weaken (by omega)))
  have htmpl := Ev.rule_ok (G := rules) (ws := ws) (atom := .nonAtomic) (r := Rule.r_template) (F := F + 70)
    (st := ⟨0, q⟩) (st' := ⟨n, []⟩) (toks := ⟨some .r_raw_text, 0, n⟩ :: inner)
    (by simpa [template_def, innerAtom] using hrep)
  have hty : (rules .r_template).ty = .normal := rfl
  simp only [hty] at htmpl
  have hseq : E (F + 72) .nonAtomic (.seq (.rule .r_template) (.builtin .eoi)) ⟨0, q⟩
      (.ok ⟨n, []⟩ (((⟨some .r_template, 0, n⟩ :: ⟨some .r_raw_text, 0, n⟩ :: inner) ++ []) ++ [⟨none, n, n⟩])) :=
    Ev.seq_ok (F := F + 71) (by simpa using htmpl) ((skip_eoi .nonAtomic n).weaken (by omega)) (Ev.eoi_ok (F := F + 70))
  have hh := Ev.rule_ok (G := rules) (ws := ws) (atom := .nonAtomic) (r := Rule.r_handlebars) (F := F + 72)
    (st := ⟨0, q⟩) (st' := ⟨n, []⟩) (toks := ⟨some .r_template, 0, n⟩ :: ⟨some .r_raw_text, 0, n⟩ :: (inner ++ [⟨none, n, n⟩]))
    (by simpa [handlebars_def, innerAtom] using hseq)
  have hty2 : (rules .r_handlebars).ty = .silent := rfl
  simp only [hty2] at hh
  exact hh.weaken (by omega)

theorem handlebars_plain (c : Char) (t : Str) (hs : noOpen (c :: t)) :
    E ((c :: t).length + 100) .nonAtomic (.rule .r_handlebars) ⟨0, c :: t⟩
      (.ok ⟨(c :: t).length, []⟩ (plainToks (c :: t).length)) := by
  have := handlebars_of_raw_text (c :: t) [] _ (raw_text_plain c t hs)
  simpa [plainToks] using this

/-- **the parse of a plain source**: `HandlebarsParser::parse(Rule::handlebars, s)` succeeds with the
    three pairs template(0,n) raw_text(0,n) EOI(n,n) – for every non-empty string that does not contain
    `{{`, of any length, on the grammar regenerated from src/grammar.pest -/
theorem parse_plain (s : Str) (hne : s ≠ []) (hs : noOpen s) :
    Pest.parse rules ws .r_handlebars s = .ok ⟨s.length, []⟩ (plainToks s.length) := by
  cases s with
  | nil => exact absurd rfl hne
  | cons c t =>
    have h := (handlebars_plain c t hs).weaken (F' := defaultFuel (c :: t).length) (by unfold defaultFuel; omega)
    exact h.1

/-- the empty source: `template` with no element, then EOI -/
theorem parse_empty :
    Pest.parse rules ws .r_handlebars [] = .ok ⟨0, []⟩ [⟨some .r_template, 0, 0⟩, ⟨none, 0, 0⟩] := by
  have hrep : E 61 .nonAtomic (.rep templateAlt) ⟨0, []⟩ (.ok ⟨0, []⟩ []) := Ev.rep_none (alt_fails_eoi .nonAtomic 0)
  have htmpl := Ev.rule_ok (G := rules) (ws := ws) (atom := .nonAtomic) (r := Rule.r_template) (F := 61)
    (st := ⟨0, []⟩) (st' := ⟨0, []⟩) (toks := []) (by simpa [template_def, innerAtom] using hrep)
  have hty : (rules .r_template).ty = .normal := rfl
  simp only [hty] at htmpl
  have hseq : E 63 .nonAtomic (.seq (.rule .r_template) (.builtin .eoi)) ⟨0, []⟩
      (.ok ⟨0, []⟩ (([⟨some .r_template, 0, 0⟩] ++ []) ++ [⟨none, 0, 0⟩])) :=
    Ev.seq_ok (F := 62) (by simpa using htmpl) ((skip_eoi .nonAtomic 0).weaken (by omega)) (Ev.eoi_ok (F := 61))
  have hh := Ev.rule_ok (G := rules) (ws := ws) (atom := .nonAtomic) (r := Rule.r_handlebars) (F := 63)
    (st := ⟨0, []⟩) (st' := ⟨0, []⟩) (toks := [⟨some .r_template, 0, 0⟩, ⟨none, 0, 0⟩])
    (by simpa [handlebars_def, innerAtom] using hseq)
  have hty2 : (rules .r_handlebars).ty = .silent := rfl
  simp only [hty2] at hh
  exact (hh.weaken (F' := defaultFuel 0) (by unfold defaultFuel; omega)).1

end Hbs.PlainText
