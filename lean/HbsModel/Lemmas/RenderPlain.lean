import HbsModel.Registry
import HbsModel.Lemmas.Write
/-
  Rendering a template whose elements are only RawString and Comment: the texts, in order.
-/
namespace Hbs
open RM

def elemsText : List Elem → Str
  | [] => []
  | .raw s :: es => s ++ elemsText es
  | _ :: es => elemsText es

def plainElem : Elem → Bool
  | .raw _ => true
  | .comment _ => true
  | _ => false

theorem text_push (out : Out) (s : Str) :
    ({ out with segs := s :: out.segs, count := out.count + 1 } : Out).text = out.text ++ s := by
  simp [Out.text]

theorem renderElem_plain (reg : Registry) (root : Json) (fuel : Nat) (e : Elem) (hp : plainElem e = true) (rc : RC) (out : Out)
    (hi : rc.indentString = none) (hf : out.failAt = none) :
    ∃ rc' out', renderElem reg root (fuel + 1) e rc out = .ok () rc' out' ∧ rc'.indentString = none ∧ out'.failAt = none
      ∧ out'.text = out.text ++ elemsText [e] := by
  cases e <;> simp [plainElem] at hp
  case raw s =>
    by_cases hs : s = []
    · subst hs
      exact ⟨rc, out, by simp [renderElem, indentAwareWrite], hi, hf, by simp [elemsText]⟩
    · refine ⟨{ rc with contentProduced := true, trailingNewline := endsWithNewline s, indentBeforeWrite := endsWithNewline s },
        { out with segs := s :: out.segs, count := out.count + 1 }, ?_, ?_, ?_, ?_⟩
      · simp only [renderElem]
        exact indentAwareWrite_plain s rc out hs hi (by simp [hf])
      · exact hi
      · exact hf
      · simp [elemsText, text_push]
  case comment s =>
    exact ⟨rc, out, by simp [renderElem], hi, hf, by simp [elemsText]⟩

theorem renderElems_plain (reg : Registry) (root : Json) (tname : Option Str) (es : List Elem)
    (hp : ∀ e ∈ es, plainElem e = true) :
    ∀ (fuel : Nat) (mapping : List (Nat × Nat)) (rc : RC) (out : Out), es.length + 2 ≤ fuel →
      rc.indentString = none → out.failAt = none →
      ∃ rc' out', renderElems reg root fuel tname es mapping rc out = .ok () rc' out' ∧ rc'.indentString = none
        ∧ out'.failAt = none ∧ out'.text = out.text ++ elemsText es := by
  induction es with
  | nil =>
    intro fuel mapping rc out hfuel hi hf
    obtain ⟨f, rfl⟩ : ∃ f, fuel = f + 1 := ⟨fuel - 1, by simp at hfuel; omega⟩
    exact ⟨rc, out, by simp [renderElems], hi, hf, by simp [elemsText]⟩
  | cons e es ih =>
    intro fuel mapping rc out hfuel hi hf
    obtain ⟨f, rfl⟩ : ∃ f, fuel = f + 1 + 1 := ⟨fuel - 2, by simp at hfuel; omega⟩
    obtain ⟨rc1, out1, h1, hi1, hf1, ht1⟩ := renderElem_plain reg root f e (hp e (by simp)) rc out hi hf
    obtain ⟨rc2, out2, h2, hi2, hf2, ht2⟩ := ih (fun e' he' => hp e' (by simp [he'])) (f + 1) (mapping.drop 1) rc1 out1
      (by simp at hfuel ⊢; omega) hi1 hf1
    refine ⟨rc2, out2, ?_, hi2, hf2, ?_⟩
    · simp only [renderElems, RM.bind_def, RM.bnd_apply, RM.mapErr, h1, h2]
    · rw [ht2, ht1]
      cases e <;> simp [plainElem] at hp <;> simp [elemsText]

/-- a template of text and comments writes its texts in order -/
theorem render_plain_template (reg : Registry) (root : Json) (t : Tmpl) (hp : ∀ e ∈ t.elements, plainElem e = true)
    (hlen : t.elements.length + 10 ≤ renderFuel) (rc : RC) (hi : rc.indentString = none) :
    runRM (renderTemplate reg root renderFuel t) rc {} = .ok (elemsText t.elements) := by
  obtain ⟨f, hf⟩ : ∃ f, renderFuel = f + 1 := ⟨renderFuel - 1, by decide⟩
  obtain ⟨rc', out', h, _, _, ht⟩ := renderElems_plain reg root t.name t.elements hp f t.mapping
    { rc with currentTemplate := t.name } {} (by omega) hi rfl
  unfold runRM
  rw [hf]
  simp only [renderTemplate, RM.bind_def, RM.bnd_apply, RM.get_apply, RM.modifyAux_apply, h, RM.pure_def]
  have : out'.text = elemsText t.elements := by simpa [Out.text] using ht
  cases hn : t.name.isNone <;> simp [this]

end Hbs
