import HbsModel.Registry
import HbsModel.Lemmas.Write
/-
  Rendering a template whose elements are only RawString and Comment: the texts, in order.
-/
namespace Hbs
open RM

def elemsText : List Elem → Str
  | [] => []
  | .raw s :: es => s ++ elemsText es
  | _ :: es => elemsText es

def plainElem : Elem → Bool
  | .raw _ => true
  | .comment _ => true
  | _ => false

theorem text_push (out : Out) (s : Str) :
    ({ out with segs := s :: out.segs, count := out.count + 1 } : Out).text = out.text ++ s := by
  simp [Out.text]

theorem renderElem_plain (reg : Registry) (root : Json) (fuel : Nat) (e : Elem) (hp : plainElem e = true) (rc : RC) (out : Out)
    (hi : rc.indentString = none) (hf : out.failAt = none) :
    ∃ rc' out', renderElem reg root (fuel + 1) e rc out = .ok () rc' out' ∧ rc'.indentString = none ∧ out'.failAt = none
      ∧ out'.text = out.text ++ elemsText [e] := by
  cases e <;> simp [plainElem] at hp
  case raw s =>
    by_cases hs : s = []
    · subst hs
      exact ⟨rc, out, by simp [renderElem, indentAwareWrite], hi, hf, by simp [elemsText]⟩
    · refine ⟨{ rc with contentProduced := true, trailingNewline := endsWithNewline s, indentBeforeWrite := endsWithNewline s },
        { out with segs := s :: out.segs, count := out.count + 1 }, ?_, ?_, ?_, ?_⟩
      · simp only [renderElem]
        exact indentAwareWrite_plain s rc out hs hi (by simp [hf])
      · exact hi
      · exact hf
      · simp [elemsText, text_push]
  case comment s =>
    exact ⟨rc, out, by simp [renderElem], hi, hf, by simp [elemsText]⟩

theorem renderElems_plain (reg : Registry) (root : Json) (tname : Option Str) (es : List Elem)
    (hp : ∀ e ∈ es, plainElem e = true) :
    ∀ (fuel : Nat) (mapping : List (Nat × Nat)) (rc : RC) (out : Out), es.length + 2 ≤ fuel →
      rc.indentString = none → out.failAt = none →
      ∃ rc' out', renderElems reg root fuel tname es mapping rc out = .ok () rc' out' ∧ rc'.indentString = none
        ∧ out'.failAt = none ∧ out'.text = out.text ++ elemsText es := by
  induction es with
  | nil =>
    intro fuel mapping rc out hfuel hi hf
    obtain ⟨f, rfl⟩ : ∃ f, fuel = f + 1 := ⟨fuel - 1, by simp at hfuel; omega⟩
    exact ⟨rc, out, by simp [renderElems], hi, hf, by simp [elemsText]⟩
  | cons e es ih =>
    intro fuel mapping rc out hfuel hi hf
    obtain ⟨f, rfl⟩ : ∃ f, fuel = f + 1 + 1 := ⟨fuel - 2, by simp at hfuel; omega⟩
    obtain ⟨rc1, out1, h1, hi1, hf1, ht1⟩ := renderElem_plain reg root f e (hp e (by simp)) rc out hi hf
    obtain ⟨rc2, out2, h2, hi2, hf2, ht2⟩ := ih (fun e' he' => hp e' (by simp [he'])) (f + 1) (mapping.drop 1) rc1 out1
      (by simp at hfuel ⊢; omega) hi1 hf1
    refine ⟨rc2, out2, ?_, hi2, hf2, ?_⟩
    · simp only [renderElems, RM.bind_def, RM.bnd_apply, RM.mapErr, h1, h2]
    · rw [ht2, ht1]
      cases e <;> simp [plainElem] at hp <;> simp [elemsText]

/-- a template of text and comments writes its texts in order -/
theorem render_plain_template (reg : Registry) (root : Json) (t : Tmpl) (hp : ∀ e ∈ t.elements, plainElem e = true)
    (hlen : t.elements.length + 10 ≤ renderFuel) (rc : RC) (hi : rc.indentString = none) :
    runRM (renderTemplate reg root renderFuel t) rc {} = .ok (elemsText t.elements) := by
  obtain ⟨f, hf⟩ : ∃ f, renderFuel = f + 1 := ⟨renderFuel - 1, by decide⟩
  obtain ⟨rc', out', h, _, _, ht⟩ := renderElems_plain reg root t.name t.elements hp f t.mapping
    { rc with currentTemplate := t.name } {} (by omega) hi rfl
  unfold runRM
  rw [hf]
  simp only [renderTemplate, RM.bind_def, RM.bnd_apply, RM.get_apply, RM.modifyAux_apply, h, RM.pure_def]
  have : out'.text = elemsText t.elements := by simpa [Out.text] using ht
  cases hn : t.name.isNone <;> simp [this]

end Hbs

namespace Hbs
open RM

/-- `rc` is `rc0` up to the three write flags (the only state text and value expressions touch) -/
def Quiet (rc0 rc : RC) : Prop :=
  rc = { rc0 with contentProduced := rc.contentProduced, trailingNewline := rc.trailingNewline,
                  indentBeforeWrite := rc.indentBeforeWrite }

theorem Quiet.refl (rc0 : RC) : Quiet rc0 rc0 := rfl

theorem Quiet.indent {rc0 rc : RC} (h : Quiet rc0 rc) : rc.indentString = rc0.indentString := by rw [h]
theorem Quiet.blocks {rc0 rc : RC} (h : Quiet rc0 rc) : rc.blocks = rc0.blocks := by rw [h]

theorem Quiet.flags {rc0 rc : RC} (h : Quiet rc0 rc) (a b c : Bool) :
    Quiet rc0 { rc with contentProduced := a, trailingNewline := b, indentBeforeWrite := c } := by
  unfold Quiet at *
  rw [h]

/-- writing a chunk with no active indent: the text is appended, only the write flags change -/
theorem indentAwareWrite_quiet (rc0 : RC) (hi : rc0.indentString = none) (s : Str) (rc : RC) (out : Out)
    (hq : Quiet rc0 rc) (hf : out.failAt = none) :
    ∃ rc' out', indentAwareWrite s rc out = .ok () rc' out' ∧ Quiet rc0 rc' ∧ out'.failAt = none ∧ out'.text = out.text ++ s := by
  by_cases hs : s = []
  · subst hs
    exact ⟨rc, out, indentAwareWrite_empty rc out, hq, hf, by simp⟩
  · refine ⟨{ rc with contentProduced := true, trailingNewline := endsWithNewline s, indentBeforeWrite := endsWithNewline s },
      { out with segs := s :: out.segs, count := out.count + 1 }, ?_, hq.flags _ _ _, hf, text_push out s⟩
    exact indentAwareWrite_plain s rc out hs (by rw [hq.indent, hi]) (by simp [hf])

/-- an element that, in every state equal to `rc0` up to the write flags, appends `txt` and stays there -/
def WritesText (reg : Registry) (root : Json) (rc0 : RC) (e : Elem) (txt : Str) : Prop :=
  ∀ (fuel : Nat) (rc : RC) (out : Out), Quiet rc0 rc → out.failAt = none →
    ∃ rc' out', renderElem reg root (fuel + 6) e rc out = .ok () rc' out' ∧ Quiet rc0 rc' ∧ out'.failAt = none
      ∧ out'.text = out.text ++ txt

theorem writes_raw (reg : Registry) (root : Json) (rc0 : RC) (hi : rc0.indentString = none) (s : Str) :
    WritesText reg root rc0 (.raw s) s := by
  intro fuel rc out hq hf
  simp only [renderElem]
  exact indentAwareWrite_quiet rc0 hi s rc out hq hf

theorem writes_comment (reg : Registry) (root : Json) (rc0 : RC) (s : Str) : WritesText reg root rc0 (.comment s) [] := by
  intro fuel rc out hq hf
  exact ⟨rc, out, by simp [renderElem], hq, hf, by simp⟩

theorem renderElems_writes (reg : Registry) (root : Json) (rc0 : RC) (tname : Option Str) (ets : List (Elem × Str))
    (hw : ∀ p ∈ ets, WritesText reg root rc0 p.1 p.2) :
    ∀ (fuel : Nat) (mapping : List (Nat × Nat)) (rc : RC) (out : Out), ets.length + 8 ≤ fuel → Quiet rc0 rc → out.failAt = none →
      ∃ rc' out', renderElems reg root fuel tname (ets.map (·.1)) mapping rc out = .ok () rc' out' ∧ Quiet rc0 rc'
        ∧ out'.failAt = none ∧ out'.text = out.text ++ (ets.map (·.2)).flatten := by
  induction ets with
  | nil =>
    intro fuel mapping rc out hfuel hq hf
    obtain ⟨f, rfl⟩ : ∃ f, fuel = f + 1 := ⟨fuel - 1, by simp at hfuel; omega⟩
    exact ⟨rc, out, by simp [renderElems], hq, hf, by simp⟩
  | cons p ets ih =>
    intro fuel mapping rc out hfuel hq hf
    obtain ⟨f, rfl⟩ : ∃ f, fuel = f + 6 + 1 := ⟨fuel - 7, by simp at hfuel; omega⟩
    obtain ⟨rc1, out1, h1, hq1, hf1, ht1⟩ := hw p (by simp) f rc out hq hf
    obtain ⟨rc2, out2, h2, hq2, hf2, ht2⟩ := ih (fun q hq' => hw q (by simp [hq'])) (f + 6) (mapping.drop 1) rc1 out1
      (by simp at hfuel ⊢; omega) hq1 hf1
    refine ⟨rc2, out2, ?_, hq2, hf2, ?_⟩
    · simp only [List.map_cons, renderElems, RM.bind_def, RM.bnd_apply, RM.mapErr, h1, h2]
    · rw [ht2, ht1]; simp

/-- a template all of whose elements write a known text writes their concatenation -/
theorem render_writes_template (reg : Registry) (root : Json) (name : Option Str) (ets : List (Elem × Str)) (m : List (Nat × Nat))
    (rc : RC) (hlen : ets.length + 12 ≤ renderFuel)
    (hw : ∀ p ∈ ets, WritesText reg root { rc with currentTemplate := name } p.1 p.2) :
    runRM (renderTemplate reg root renderFuel (.mk name (ets.map (·.1)) m)) rc {} = .ok (ets.map (·.2)).flatten := by
  obtain ⟨f, hf⟩ : ∃ f, renderFuel = f + 1 := ⟨renderFuel - 1, by decide⟩
  obtain ⟨rc', out', h, _, _, ht⟩ := renderElems_writes reg root { rc with currentTemplate := name } name ets hw f m
    { rc with currentTemplate := name } {} (by omega) (Quiet.refl _) rfl
  unfold runRM
  rw [hf]
  simp only [renderTemplate, RM.bind_def, RM.bnd_apply, RM.get_apply, RM.modifyAux_apply, Tmpl.name, Tmpl.elements, Tmpl.mapping, h, RM.pure_def]
  have : out'.text = (ets.map (·.2)).flatten := by simpa [Out.text] using ht
  by_cases hn : name.isNone = true <;> simp [hn, this]

end Hbs
