import HbsModel.Registry
import HbsModel.Lemmas.Write
/-
  Rendering a template whose elements are only RawString and Comment: the texts, in order.
-/
namespace Hbs
open RM

def elemsText : List Elem → Str
  | [] => []
  | .raw s :: es => s ++ elemsText es
  | _ :: es => elemsText es

def plainElem : Elem → Bool
  | .raw _ => true
  | .comment _ => true
  | _ => false

theorem text_push (out : Out) (s : Str) :
    ({ out with segs := s :: out.segs, count := out.count + 1 } : Out).text = out.text ++ s := by
  simp [Out.text]

theorem renderElem_plain (reg : Registry) (root : Json) (fuel : Nat) (e : Elem) (hp : plainElem e = true) (rc : RC) (out : Out)
    (hi : rc.indentString = none) (hf : out.failAt = none) :
    ∃ rc' out', renderElem reg root (fuel + 1) e rc out = .ok () rc' out' ∧ rc'.indentString = none ∧ out'.failAt = none
      ∧ out'.text = out.text ++ elemsText [e] := by
  cases e <;> simp [plainElem] at hp
  case raw s =>
    by_cases hs : s = []
    · subst hs
      exact ⟨rc, out, by simp [renderElem, indentAwareWrite], hi, hf, by simp [elemsText]⟩
    · refine ⟨{ rc with contentProduced := true, trailingNewline := endsWithNewline s, indentBeforeWrite := endsWithNewline s },
        { out with segs := s :: out.segs, count := out.count + 1 }, ?_, ?_, ?_, ?_⟩
      · simp only [renderElem]
        exact indentAwareWrite_plain s rc out hs hi (by simp [hf])
      · exact hi
      · exact hf
      · simp [elemsText, text_push]
  case comment s =>
    exact ⟨rc, out, by simp [renderElem], hi, hf, by simp [elemsText]⟩

theorem renderElems_plain (reg : Registry) (root : Json) (tname : Option Str) (es : List Elem)
    (hp : ∀ e ∈ es, plainElem e = true) :
    ∀ (fuel : Nat) (mapping : List (Nat × Nat)) (rc : RC) (out : Out), es.length + 2 ≤ fuel →
      rc.indentString = none → out.failAt = none →
      ∃ rc' out', renderElems reg root fuel tname es mapping rc out = .ok () rc' out' ∧ rc'.indentString = none
        ∧ out'.failAt = none ∧ out'.text = out.text ++ elemsText es := by
  induction es with
  | nil =>
    intro fuel mapping rc out hfuel hi hf
    obtain ⟨f, rfl⟩ : ∃ f, fuel = f + 1 := ⟨fuel - 1, by simp at hfuel; omega⟩
    exact ⟨rc, out, by simp [renderElems], hi, hf, by simp [elemsText]⟩
  | cons e es ih =>
    intro fuel mapping rc out hfuel hi hf
    obtain ⟨f, rfl⟩ : ∃ f, fuel = f + 1 + 1 := ⟨fuel - 2, by simp at hfuel; omega⟩
    obtain ⟨rc1, out1, h1, hi1, hf1, ht1⟩ := renderElem_plain reg root f e (hp e (by simp)) rc out hi hf
    obtain ⟨rc2, out2, h2, hi2, hf2, ht2⟩ := ih (fun e' he' => hp e' (by simp [he'])) (f + 1) (mapping.drop 1) rc1 out1
      (by simp at hfuel ⊢; omega) hi1 hf1
    refine ⟨rc2, out2, ?_, hi2, hf2, ?_⟩
    · simp only [renderElems, RM.bind_def, RM.bnd_apply, RM.mapErr, h1, h2]
    · rw [ht2, ht1]
      cases e <;> simp [plainElem] at hp <;> simp [elemsText]

/-- a template of text and comments writes its texts in order -/
theorem render_plain_template (reg : Registry) (root : Json) (t : Tmpl) (hp : ∀ e ∈ t.elements, plainElem e = true)
    (hlen : t.elements.length + 10 ≤ renderFuel) (rc : RC) (hi : rc.indentString = none) :
    runRM (renderTemplate reg root renderFuel t) rc {} = .ok (elemsText t.elements) := by
  obtain ⟨f, hf⟩ : ∃ f, renderFuel = f + 1 := ⟨renderFuel - 1, by decide⟩
  obtain ⟨rc', out', h, _, _, ht⟩ := renderElems_plain reg root t.name t.elements hp f t.mapping
    { rc with currentTemplate := t.name } {} (by omega) hi rfl
  unfold runRM
  rw [hf]
  simp only [renderTemplate, RM.bind_def, RM.bnd_apply, RM.get_apply, RM.modifyAux_apply, h, RM.pure_def]
  have : out'.text = elemsText t.elements := by simpa [Out.text] using ht
  cases hn : t.name.isNone <;> simp [this]

end Hbs

namespace Hbs
open RM

/-- `rc` is `rc0` up to the three write flags (the only state text and value expressions touch) -/
def Quiet (rc0 rc : RC) : Prop :=
  rc = { rc0 with contentProduced := rc.contentProduced, trailingNewline := rc.trailingNewline,
                  indentBeforeWrite := rc.indentBeforeWrite }

theorem Quiet.refl (rc0 : RC) : Quiet rc0 rc0 := rfl

theorem Quiet.indent {rc0 rc : RC} (h : Quiet rc0 rc) : rc.indentString = rc0.indentString := by rw [h]
theorem Quiet.blocks {rc0 rc : RC} (h : Quiet rc0 rc) : rc.blocks = rc0.blocks := by rw [h]

theorem Quiet.flags {rc0 rc : RC} (h : Quiet rc0 rc) (a b c : Bool) :
    Quiet rc0 { rc with contentProduced := a, trailingNewline := b, indentBeforeWrite := c } := by
  unfold Quiet at *
  rw [h]

/-- writing a chunk with no active indent: the text is appended, only the write flags change -/
theorem indentAwareWrite_quiet (rc0 : RC) (hi : rc0.indentString = none) (s : Str) (rc : RC) (out : Out)
    (hq : Quiet rc0 rc) (hf : out.failAt = none) :
    ∃ rc' out', indentAwareWrite s rc out = .ok () rc' out' ∧ Quiet rc0 rc' ∧ out'.failAt = none ∧ out'.text = out.text ++ s := by
  by_cases hs : s = []
  · subst hs
    exact ⟨rc, out, indentAwareWrite_empty rc out, hq, hf, by simp⟩
  · refine ⟨{ rc with contentProduced := true, trailingNewline := endsWithNewline s, indentBeforeWrite := endsWithNewline s },
      { out with segs := s :: out.segs, count := out.count + 1 }, ?_, hq.flags _ _ _, hf, text_push out s⟩
    exact indentAwareWrite_plain s rc out hs (by rw [hq.indent, hi]) (by simp [hf])

/-- an element that, in every state equal to `rc0` up to the write flags, appends `txt` and stays there -/
def WritesText (reg : Registry) (root : Json) (rc0 : RC) (e : Elem) (txt : Str) : Prop :=
  ∀ (fuel : Nat) (rc : RC) (out : Out), Quiet rc0 rc → out.failAt = none →
    ∃ rc' out', renderElem reg root (fuel + 6) e rc out = .ok () rc' out' ∧ Quiet rc0 rc' ∧ out'.failAt = none
      ∧ out'.text = out.text ++ txt

theorem writes_raw (reg : Registry) (root : Json) (rc0 : RC) (hi : rc0.indentString = none) (s : Str) :
    WritesText reg root rc0 (.raw s) s := by
  intro fuel rc out hq hf
  simp only [renderElem]
  exact indentAwareWrite_quiet rc0 hi s rc out hq hf

theorem writes_comment (reg : Registry) (root : Json) (rc0 : RC) (s : Str) : WritesText reg root rc0 (.comment s) [] := by
  intro fuel rc out hq hf
  exact ⟨rc, out, by simp [renderElem], hq, hf, by simp⟩

theorem renderElems_writes (reg : Registry) (root : Json) (rc0 : RC) (tname : Option Str) (ets : List (Elem × Str))
    (hw : ∀ p ∈ ets, WritesText reg root rc0 p.1 p.2) :
    ∀ (fuel : Nat) (mapping : List (Nat × Nat)) (rc : RC) (out : Out), ets.length + 8 ≤ fuel → Quiet rc0 rc → out.failAt = none →
      ∃ rc' out', renderElems reg root fuel tname (ets.map (·.1)) mapping rc out = .ok () rc' out' ∧ Quiet rc0 rc'
        ∧ out'.failAt = none ∧ out'.text = out.text ++ (ets.map (·.2)).flatten := by
  induction ets with
  | nil =>
    intro fuel mapping rc out hfuel hq hf
    obtain ⟨f, rfl⟩ : ∃ f, fuel = f + 1 := ⟨fuel - 1, by simp at hfuel; omega⟩
    exact ⟨rc, out, by simp [renderElems], hq, hf, by simp⟩
  | cons p ets ih =>
    intro fuel mapping rc out hfuel hq hf
    obtain ⟨f, rfl⟩ : ∃ f, fuel = f + 6 + 1 := ⟨fuel - 7, by simp at hfuel; omega⟩
    obtain ⟨rc1, out1, h1, hq1, hf1, ht1⟩ := hw p (by simp) f rc out hq hf
    obtain ⟨rc2, out2, h2, hq2, hf2, ht2⟩ := ih (fun q hq' => hw q (by simp [hq'])) (f + 6) (mapping.drop 1) rc1 out1
      (by simp at hfuel ⊢; omega) hq1 hf1
    refine ⟨rc2, out2, ?_, hq2, hf2, ?_⟩
    · simp only [List.map_cons, renderElems, RM.bind_def, RM.bnd_apply, RM.mapErr, h1, h2]
    · rw [ht2, ht1]; simp

/-- a template all of whose elements write a known text writes their concatenation -/
theorem render_writes_template (reg : Registry) (root : Json) (name : Option Str) (ets : List (Elem × Str)) (m : List (Nat × Nat))
    (rc : RC) (hlen : ets.length + 12 ≤ renderFuel)
    (hw : ∀ p ∈ ets, WritesText reg root { rc with currentTemplate := name } p.1 p.2) :
    runRM (renderTemplate reg root renderFuel (.mk name (ets.map (·.1)) m)) rc {} = .ok (ets.map (·.2)).flatten := by
  obtain ⟨f, hf⟩ : ∃ f, renderFuel = f + 1 := ⟨renderFuel - 1, by decide⟩
  obtain ⟨rc', out', h, _, _, ht⟩ := renderElems_writes reg root { rc with currentTemplate := name } name ets hw f m
    { rc with currentTemplate := name } {} (by omega) (Quiet.refl _) rfl
  unfold runRM
  rw [hf]
  simp only [renderTemplate, RM.bind_def, RM.bnd_apply, RM.get_apply, RM.modifyAux_apply, Tmpl.name, Tmpl.elements, Tmpl.mapping, h, RM.pure_def]
  have : out'.text = (ets.map (·.2)).flatten := by simpa [Out.text] using ht
  by_cases hn : name.isNone = true <;> simp [hn, this]

/-- a state update that keeps the state quiet is performed as written (the frame it would copy back is already in place) -/
theorem quiet_modifyAux (rc0 rc : RC) (f : RC → RC) (out : Out) (hq : Quiet rc0 rc) (hf : Quiet rc0 (f rc)) :
    RM.modifyAux f rc out = .ok () (f rc) out := by
  rw [RM.modifyAux_apply]
  have h1 : rc.blocks = (f rc).blocks := by rw [hq.blocks, hf.blocks]
  have h2 : rc.disableEscape = (f rc).disableEscape := by
    have a : rc.disableEscape = rc0.disableEscape := by rw [hq]
    have b : (f rc).disableEscape = rc0.disableEscape := by rw [hf]
    rw [a, b]
  have h3 : rc.indentString = (f rc).indentString := by rw [hq.indent, hf.indent]
  have h4 : rc.pbStack = (f rc).pbStack := by
    have a : rc.pbStack = rc0.pbStack := by rw [hq]
    have b : (f rc).pbStack = rc0.pbStack := by rw [hf]
    rw [a, b]
  have h5 : rc.pbBinding = (f rc).pbBinding := by
    have a : rc.pbBinding = rc0.pbBinding := by rw [hq]
    have b : (f rc).pbBinding = rc0.pbBinding := by rw [hf]
    rw [a, b]
  rw [h1, h2, h3, h4, h5]

theorem Quiet.template {rc0 rc : RC} (h : Quiet rc0 rc) : rc.currentTemplate = rc0.currentTemplate := by rw [h]

theorem Quiet.setTemplate {rc0 rc : RC} (h : Quiet rc0 rc) : Quiet rc0 { rc with currentTemplate := rc0.currentTemplate } := by
  unfold Quiet at *
  rw [h]


/-- a template of ONE text element (the body of a block as compile2 stores it), rendered from a quiet state: the text is
    written, the template name is handed over and back, the state stays quiet -/
theorem render_text_template (reg : Registry) (root : Json) (rc0 rcS : RC) (out : Out) (s : Str) (lc : Nat × Nat) (fuel : Nat)
    (hi : rc0.indentString = none) (hct : rc0.currentTemplate = none) (hq : Quiet rc0 rcS) (hf : out.failAt = none) :
    ∃ rc2 out2, renderTemplate reg root (fuel + 3) (Tmpl.empty.pushElement (.raw s) lc.1 lc.2) rcS out = .ok () rc2 out2
      ∧ Quiet rc0 rc2 ∧ out2.failAt = none ∧ out2.text = out.text ++ s := by
  have hqB : Quiet rc0 { rcS with currentTemplate := none } := by
    have := Quiet.setTemplate hq
    rw [hct] at this
    exact this
  obtain ⟨rc2, out2, hw, hq2, hf2, ht2⟩ := indentAwareWrite_quiet rc0 hi s _ out hqB hf
  have hmA := quiet_modifyAux rc0 rcS (fun r => { r with currentTemplate := (Tmpl.empty.pushElement (.raw s) lc.1 lc.2).name }) out hq hqB
  have hq3 : Quiet rc0 { rc2 with currentTemplate := rcS.currentTemplate } := by
    have := Quiet.setTemplate hq2
    rw [← Quiet.template hq] at this
    exact this
  have hmB := quiet_modifyAux rc0 rc2 (fun r => { r with currentTemplate := rcS.currentTemplate }) out2 hq2 hq3
  refine ⟨_, out2, ?_, hq3, hf2, ht2⟩
  simp only [renderTemplate, RM.bind_def, RM.bnd_apply, RM.get_apply, hmA]
  simp only [Tmpl.empty, Tmpl.pushElement, Tmpl.name, Tmpl.elements, Tmpl.mapping, List.nil_append, renderElems,
    renderElem, RM.bind_def, RM.bnd_apply, RM.mapErr, hw, RM.pure_def, RM.ret_apply, Option.isNone_none]
  simp only [↓reduceIte]
  exact hmB


end Hbs

namespace Hbs
open RM

/-! ### elements that need more fuel than a constant: loops -/

/-- like `WritesText`, with `K` units of fuel on top of any amount -/
def WritesTextK (K : Nat) (reg : Registry) (root : Json) (rc0 : RC) (e : Elem) (txt : Str) : Prop :=
  ∀ (fuel : Nat) (rc : RC) (out : Out), Quiet rc0 rc → out.failAt = none →
    ∃ rc' out', renderElem reg root (fuel + K) e rc out = .ok () rc' out' ∧ Quiet rc0 rc' ∧ out'.failAt = none
      ∧ out'.text = out.text ++ txt

theorem WritesText.toK {reg : Registry} {root : Json} {rc0 : RC} {e : Elem} {txt : Str} (h : WritesText reg root rc0 e txt) (K : Nat)
    (hK : 6 ≤ K) : WritesTextK K reg root rc0 e txt := by
  intro fuel rc out hq hf
  obtain ⟨d, rfl⟩ := Nat.exists_eq_add_of_le hK
  have := h (fuel + d) rc out hq hf
  rwa [show fuel + d + 6 = fuel + (6 + d) by omega] at this

theorem renderElems_writesK (K : Nat) (reg : Registry) (root : Json) (rc0 : RC) (tname : Option Str) (ets : List (Elem × Str))
    (hw : ∀ p ∈ ets, WritesTextK K reg root rc0 p.1 p.2) :
    ∀ (fuel : Nat) (mapping : List (Nat × Nat)) (rc : RC) (out : Out), ets.length + K + 2 ≤ fuel → Quiet rc0 rc → out.failAt = none →
      ∃ rc' out', renderElems reg root fuel tname (ets.map (·.1)) mapping rc out = .ok () rc' out' ∧ Quiet rc0 rc'
        ∧ out'.failAt = none ∧ out'.text = out.text ++ (ets.map (·.2)).flatten := by
  induction ets with
  | nil =>
    intro fuel mapping rc out hfuel hq hf
    obtain ⟨f, rfl⟩ : ∃ f, fuel = f + 1 := ⟨fuel - 1, by simp at hfuel; omega⟩
    exact ⟨rc, out, by simp [renderElems], hq, hf, by simp⟩
  | cons p ets ih =>
    intro fuel mapping rc out hfuel hq hf
    obtain ⟨f, rfl⟩ : ∃ f, fuel = f + K + 1 := ⟨fuel - K - 1, by simp at hfuel; omega⟩
    obtain ⟨rc1, out1, h1, hq1, hf1, ht1⟩ := hw p (by simp) f rc out hq hf
    obtain ⟨rc2, out2, h2, hq2, hf2, ht2⟩ := ih (fun q hq' => hw q (by simp [hq'])) (f + K) (mapping.drop 1) rc1 out1
      (by simp at hfuel ⊢; omega) hq1 hf1
    refine ⟨rc2, out2, ?_, hq2, hf2, ?_⟩
    · simp only [List.map_cons, renderElems, RM.bind_def, RM.bnd_apply, RM.mapErr, h1, h2]
    · rw [ht2, ht1]; simp

/-- a template all of whose elements write a known text – each within `K` extra units of fuel – writes their concatenation -/
theorem render_writes_templateK (K : Nat) (reg : Registry) (root : Json) (name : Option Str) (ets : List (Elem × Str)) (m : List (Nat × Nat))
    (rc : RC) (hlen : ets.length + K + 6 ≤ renderFuel)
    (hw : ∀ p ∈ ets, WritesTextK K reg root { rc with currentTemplate := name } p.1 p.2) :
    runRM (renderTemplate reg root renderFuel (.mk name (ets.map (·.1)) m)) rc {} = .ok (ets.map (·.2)).flatten := by
  obtain ⟨f, hf⟩ : ∃ f, renderFuel = f + 1 := ⟨renderFuel - 1, by decide⟩
  obtain ⟨rc', out', h, _, _, ht⟩ := renderElems_writesK K reg root { rc with currentTemplate := name } name ets hw f m
    { rc with currentTemplate := name } {} (by omega) (Quiet.refl _) rfl
  unfold runRM
  rw [hf]
  simp only [renderTemplate, RM.bind_def, RM.bnd_apply, RM.get_apply, RM.modifyAux_apply, Tmpl.name, Tmpl.elements, Tmpl.mapping, h, RM.pure_def]
  have : out'.text = (ets.map (·.2)).flatten := by simpa [Out.text] using ht
  by_cases hn : name.isNone = true <;> simp [hn, this]

/-! ### the iteration of `each` over a one-text body -/

/-- the loop of `each` over ANY list of items with a body of one text element: the text is written once per item, in order;
    the state stays as it was up to the front block (the iteration variables) and the write flags -/
theorem eachLoop_text (reg : Registry) (root : Json) (s : Str) (lc : Nat × Nat) (h : HelperI) (path : Option (List Str)) (len : Nat) :
    ∀ (items : List (Nat × Option Str × Str × Json)) (fuel : Nat) (rcS : RC) (out : Out) (b : Block) (brest : List Block),
      rcS.indentString = none → rcS.currentTemplate = none → rcS.blocks = b :: brest → out.failAt = none →
      ∃ rc' out', eachLoop reg root (fuel + items.length + 4) (Tmpl.empty.pushElement (.raw s) lc.1 lc.2) h path len items rcS out = .ok () rc' out'
        ∧ (∃ b', Quiet { rcS with blocks := b' :: brest } rc') ∧ out'.failAt = none
        ∧ out'.text = out.text ++ (List.replicate items.length s).flatten := by
  intro items
  induction items with
  | nil =>
    intro fuel rcS out b brest hi hct hbl hf
    refine ⟨rcS, out, by simp [eachLoop], ⟨b, ?_⟩, hf, by simp⟩
    have : ({ rcS with blocks := b :: brest } : RC) = rcS := by rw [← hbl]
    rw [this]; exact Quiet.refl _
  | cons it rest ih =>
    intro fuel rcS out b brest hi hct hbl hf
    obtain ⟨i, key, rel, v⟩ := it
    let rcA : RC := { rcS with blocks := eachIterBlock b h path i len key rel v :: brest }
    have hmod : modifyFrontBlock (fun b => eachIterBlock b h path i len key rel v) rcS out = .ok () rcA out := by
      simp [modifyFrontBlock, RM.modify_apply, hbl, rcA]
    obtain ⟨rc2, out2, hbody, hq2, hf2, ht2⟩ := render_text_template reg root rcA rcA out s lc (fuel + rest.length + 1) hi hct (Quiet.refl _) hf
    have hi2 : rc2.indentString = none := by rw [hq2.indent]; exact hi
    have hct2 : rc2.currentTemplate = none := by rw [Quiet.template hq2]; exact hct
    have hb2 : rc2.blocks = eachIterBlock b h path i len key rel v :: brest := by rw [hq2.blocks]
    obtain ⟨rc3, out3, hloop, ⟨b3, hq3⟩, hf3, ht3⟩ := ih fuel rc2 out2 _ brest hi2 hct2 hb2 hf2
    refine ⟨rc3, out3, ?_, ⟨b3, ?_⟩, hf3, ?_⟩
    · rw [show fuel + ((i, key, rel, v) :: rest).length + 4 = (fuel + rest.length + 4) + 1 by simp [List.length_cons]; omega]
      simp only [eachLoop, RM.bind_def, RM.bnd_apply, hmod]
      rw [show fuel + rest.length + 4 = fuel + rest.length + 1 + 3 by omega, hbody]
      simp only []
      rw [show fuel + rest.length + 1 + 3 = fuel + rest.length + 4 by omega, hloop]
    · -- rc3 is rc2 with another front block and flags; rc2 is rcA up to flags; rcA is rcS with another front block
      unfold Quiet at hq3 hq2 ⊢
      rw [hq3, hq2]
    · rw [ht3, ht2]; simp [List.replicate_succ]

end Hbs
