import HbsModel.Lemmas.RawBlock
import HbsModel.Lemmas.GrammarNF
/-
  `{{name}}` for EVERY identifier: any non-empty run of `symbol_char`s that does not begin with `else`.
  One element of `template` – the pairs expression, reference, path_inline, path_id – wherever it stands and
  whatever follows.  Derived in the big-step system `Ev` from the regenerated grammar: the loops of `identifier`
  and `path_id` by induction over the name, the fixed parts rule by rule.
-/
namespace Hbs.PlainText
open Hbs Hbs.Pest Hbs.Grammar

/-- the character class `symbol_char` of src/grammar.pest -/
def symChar (c : Char) : Bool :=
  builtinChar .asciiAlnum c || (Char.ofNat 45) == c || (Char.ofNat 95) == c || (Char.ofNat 36) == c || (Char.ofNat 58) == c
    || inRange (Char.ofNat 128) (Char.ofNat 2047) c || inRange (Char.ofNat 2048) (Char.ofNat 65535) c
    || inRange (Char.ofNat 65536) (Char.ofNat 1114111) c

/-- `e` consumes exactly one character of the class `f` -/
def IsClass (e : PExpr Rule) (f : Char → Bool) (F0 : Nat) : Prop :=
  ∀ (atom : Atom) (p : Nat) (c : Char) (r : Str), E F0 atom e ⟨p, c :: r⟩ (if f c then .ok ⟨p + 1, r⟩ [] else .fail)

theorem IsClass.str1 (d : Char) : IsClass (.str [d]) (fun c => d == c) 1 := by
  intro atom p c r
  by_cases h : (d == c) = true
  · simp only [h, ↓reduceIte]; exact Ev.str_ok (by simp [matchStr, h])
  · simp only [h]; exact Ev.str_fail (by simp [matchStr, h])

theorem IsClass.range (lo hi : Char) : IsClass (.range lo hi) (inRange lo hi) 1 := by
  intro atom p c r
  by_cases h : inRange lo hi c = true
  · simp only [h, ↓reduceIte]; exact ⟨by simp [eval, matchChar, h], by simp⟩
  · simp only [h]; exact ⟨by simp [eval, matchChar, h], by simp⟩

theorem IsClass.alnum : IsClass (.builtin .asciiAlnum) (builtinChar .asciiAlnum) 1 := by
  intro atom p c r
  by_cases h : builtinChar .asciiAlnum c = true
  · simp only [h, ↓reduceIte]; exact ⟨by simp [eval, matchChar, h], by simp⟩
  · simp only [h]; exact ⟨by simp [eval, matchChar, h], by simp⟩

theorem IsClass.choice {a b : PExpr Rule} {f g : Char → Bool} {F : Nat} (ha : IsClass a f F) (hb : IsClass b g 1) :
    IsClass (.choice a b) (fun c => f c || g c) (F + 1) := by
  intro atom p c r
  have h1 := ha atom p c r
  have h2 := (hb atom p c r).weaken (F' := F) (by
    cases F with
    | zero => exact absurd h1.1 (by simp [eval]; split <;> simp)
    | succ n => omega)
  by_cases hf : f c = true
  · simp only [hf, ↓reduceIte, Bool.true_or] at h1 ⊢
    exact Ev.choice_left h1
  · simp only [hf, Bool.false_or] at h1 ⊢
    simp only [Bool.false_eq_true, ↓reduceIte] at h1
    exact Ev.choice_right h1 h2

theorem symbol_char_def : rules .r_symbol_char = ⟨.silent,
    .choice (.choice (.choice (.choice (.choice (.choice (.choice (.builtin .asciiAlnum) (.str [Char.ofNat 45])) (.str [Char.ofNat 95]))
      (.str [Char.ofNat 36])) (.str [Char.ofNat 58])) (.range (Char.ofNat 128) (Char.ofNat 2047)))
      (.range (Char.ofNat 2048) (Char.ofNat 65535))) (.range (Char.ofNat 65536) (Char.ofNat 1114111))⟩ := rfl

/-- the rule `symbol_char` is the class `symChar` -/
theorem symbol_char_class : IsClass (.rule .r_symbol_char) symChar 9 := by
  intro atom p c r
  have hbody := (((((((IsClass.alnum.choice (IsClass.str1 (Char.ofNat 45))).choice (IsClass.str1 (Char.ofNat 95))).choice
    (IsClass.str1 (Char.ofNat 36))).choice (IsClass.str1 (Char.ofNat 58))).choice (IsClass.range (Char.ofNat 128) (Char.ofNat 2047))).choice
    (IsClass.range (Char.ofNat 2048) (Char.ofNat 65535))).choice (IsClass.range (Char.ofNat 65536) (Char.ofNat 1114111))) atom p c r
  by_cases h : symChar c = true
  · simp only [h, ↓reduceIte]
    have h' : (builtinChar .asciiAlnum c || (Char.ofNat 45) == c || (Char.ofNat 95) == c || (Char.ofNat 36) == c || (Char.ofNat 58) == c
      || inRange (Char.ofNat 128) (Char.ofNat 2047) c || inRange (Char.ofNat 2048) (Char.ofNat 65535) c
      || inRange (Char.ofNat 65536) (Char.ofNat 1114111) c) = true := h
    simp only [h', ↓reduceIte] at hbody
    have hr := Ev.rule_ok (G := rules) (ws := ws) (atom := atom) (r := Rule.r_symbol_char) (F := 8)
      (st := ⟨p, c :: r⟩) (st' := ⟨p + 1, r⟩) (toks := []) (by rw [symbol_char_def]; cases atom <;> exact hbody)
    have hty : (rules .r_symbol_char).ty = .silent := rfl
    simpa [hty] using hr
  · simp only [h]
    have h' : (builtinChar .asciiAlnum c || (Char.ofNat 45) == c || (Char.ofNat 95) == c || (Char.ofNat 36) == c || (Char.ofNat 58) == c
      || inRange (Char.ofNat 128) (Char.ofNat 2047) c || inRange (Char.ofNat 2048) (Char.ofNat 65535) c
      || inRange (Char.ofNat 65536) (Char.ofNat 1114111) c) = false := by simpa [symChar] using h
    simp only [h'] at hbody
    exact Ev.rule_fail (by rw [symbol_char_def]; cases atom <;> exact hbody)

theorem symChar_ne {c d : Char} (hc : symChar c = true) (hd : symChar d = false) : c ≠ d :=
  fun e => by rw [e, hd] at hc; cases hc

/-- the loop of `identifier` / `path_id` over a name in front of a character outside the class -/
theorem symLoop (nm r : Str) (d : Char) (hnm : ∀ c ∈ nm, symChar c = true) (hd : symChar d = false) (p : Nat) :
    E (nm.length + 12) .atomic (.starTail (.rule .r_symbol_char)) ⟨p, nm ++ d :: r⟩ (.ok ⟨p + nm.length, d :: r⟩ []) := by
  induction nm generalizing p with
  | nil =>
    have h := symbol_char_class .atomic p d r
    simp only [hd] at h
    exact Ev.starTail_stop (F := 11) (Ev.skip_off (by simp)) (h.weaken (by omega))
  | cons c t ih =>
    have h := symbol_char_class .atomic p c (t ++ d :: r)
    simp only [hnm c (by simp), ↓reduceIte] at h
    have hs := Ev.starTail_step (F := t.length + 12) (st := ⟨p, c :: t ++ d :: r⟩) (Ev.skip_off (by simp))
      (h.weaken (by omega)) (by simp) (ih (fun x hx => hnm x (by simp [hx])) (p + 1))
    have e2 : p + (c :: t).length = p + 1 + t.length := by rw [List.length_cons]; omega
    rw [List.cons_append, e2, show (c :: t).length + 12 = t.length + 12 + 1 by simp]
    simpa using hs

theorem symRepOnce (nm r : Str) (d : Char) (hne : nm ≠ []) (hnm : ∀ c ∈ nm, symChar c = true) (hd : symChar d = false) (p : Nat) :
    E (nm.length + 14) .atomic (.repOnce (.rule .r_symbol_char)) ⟨p, nm ++ d :: r⟩ (.ok ⟨p + nm.length, d :: r⟩ []) := by
  cases nm with
  | nil => exact absurd rfl hne
  | cons c t =>
    have h := symbol_char_class .atomic p c (t ++ d :: r)
    simp only [hnm c (by simp), ↓reduceIte] at h
    have hl := symLoop t r d (fun x hx => hnm x (by simp [hx])) hd (p + 1)
    have := Ev.repOnce_some (F := t.length + 12) (h.weaken (by omega)) hl
    have e2 : p + (c :: t).length = p + 1 + t.length := by rw [List.length_cons]; omega
    rw [e2]
    exact (by simpa using this : E _ _ _ _ _).weaken (by simp <;> omega)

theorem identifier_def : rules .r_identifier = ⟨.atomic, .repOnce (.rule .r_symbol_char)⟩ := rfl
theorem path_id_def : rules .r_path_id = ⟨.atomic, .repOnce (.rule .r_symbol_char)⟩ := rfl

theorem identifier_ok (nm r : Str) (d : Char) (hne : nm ≠ []) (hnm : ∀ c ∈ nm, symChar c = true) (hd : symChar d = false) (p : Nat) :
    E (nm.length + 15) .nonAtomic (.rule .r_identifier) ⟨p, nm ++ d :: r⟩
      (.ok ⟨p + nm.length, d :: r⟩ [⟨some .r_identifier, p, p + nm.length⟩]) := by
  have hr := Ev.rule_ok (G := rules) (ws := ws) (atom := .nonAtomic) (r := Rule.r_identifier) (F := nm.length + 14)
    (st := ⟨p, nm ++ d :: r⟩) (st' := ⟨p + nm.length, d :: r⟩) (toks := [])
    (by simpa [identifier_def, innerAtom] using symRepOnce nm r d hne hnm hd p)
  have : (rules .r_identifier).ty = .atomic := rfl
  simp only [this] at hr
  exact hr

theorem path_id_ok (nm r : Str) (d : Char) (hne : nm ≠ []) (hnm : ∀ c ∈ nm, symChar c = true) (hd : symChar d = false) (p : Nat) :
    E (nm.length + 15) .compound (.rule .r_path_id) ⟨p, nm ++ d :: r⟩
      (.ok ⟨p + nm.length, d :: r⟩ [⟨some .r_path_id, p, p + nm.length⟩]) := by
  have hr := Ev.rule_ok (G := rules) (ws := ws) (atom := .compound) (r := Rule.r_path_id) (F := nm.length + 14)
    (st := ⟨p, nm ++ d :: r⟩) (st' := ⟨p + nm.length, d :: r⟩) (toks := [])
    (by simpa [path_id_def, innerAtom] using symRepOnce nm r d hne hnm hd p)
  have : (rules .r_path_id).ty = .atomic := rfl
  simp only [this] at hr
  exact hr

/-- a literal whose first character differs from the next input character fails -/
theorem matchStr_head_ne (d : Char) (s : Str) (p : Nat) (c : Char) (r : Str) (h : c ≠ d) : matchStr (d :: s) ⟨p, c :: r⟩ = none := by
  have : (d == c) = false := beq_eq_false_iff_ne.mpr (fun e => h e.symm)
  simp [matchStr, this]

/-- a literal without `}` against  name ++ `}` … : it matches iff it is a prefix of the name -/
theorem matchStr_name (s nm r : Str) (p : Nat) (hs : ∀ c ∈ s, c ≠ '}') :
    matchStr s ⟨p, nm ++ '}' :: r⟩ = if s.isPrefixOf nm then some ⟨p + s.length, nm.drop s.length ++ '}' :: r⟩ else none := by
  induction s generalizing nm p with
  | nil => simp [matchStr]
  | cons a s ih =>
    cases nm with
    | nil =>
      have : (a == '}') = false := beq_eq_false_iff_ne.mpr (hs a (by simp))
      simp [matchStr, this]
    | cons b nm =>
      by_cases hab : a = b
      · subst hab
        have := ih nm (p + 1) (fun c hc => hs c (by simp [hc]))
        simp only [List.cons_append, matchStr, beq_self_eq_true, ↓reduceIte, this, List.isPrefixOf, Bool.true_and, List.length_cons, List.drop_succ_cons]
        split <;> simp <;> omega
      · have : (a == b) = false := beq_eq_false_iff_ne.mpr hab
        simp [matchStr, this, List.isPrefixOf]

/-! ### the fixed parts around the name -/

theorem symChar_not_ws {c : Char} (hc : symChar c = true) : isPestWs c = false := by
  cases h : isPestWs c with
  | false => rfl
  | true =>
    simp only [isPestWs, Bool.or_eq_true, beq_iff_eq] at h
    rcases h with ((rfl | rfl) | rfl) | rfl <;> exact absurd hc (by decide)

theorem skip_at (c : Char) (r : Str) (hc : isPestWs c = false) (q : Nat) :
    E 6 .nonAtomic .skip ⟨q, c :: r⟩ (.ok ⟨q, c :: r⟩ []) := by
  simpa using skip_run [] (c :: r) (by simp) (Or.inr ⟨c, r, rfl, hc⟩) q

theorem sep_fail_char (atom : Atom) (c : Char) (r : Str) (q : Nat) (h1 : c ≠ '/') (h2 : c ≠ '.') :
    E 3 atom (.rule .r_path_sep) ⟨q, c :: r⟩ .fail := by
  apply Ev.rule_fail
  show E 2 _ (.choice (.str [Char.ofNat 47]) (.str [Char.ofNat 46])) _ _
  exact Ev.choice_right (Ev.str_fail (matchStr_head_ne _ _ _ _ _ h1)) (Ev.str_fail (matchStr_head_ne _ _ _ _ _ h2))

theorem sep_fail_after (atom : Atom) (x r : Str) (q : Nat) (hx : ∀ c ∈ x, symChar c = true) :
    E 3 atom (.rule .r_path_sep) ⟨q, x ++ '}' :: r⟩ .fail := by
  cases x with
  | nil => exact sep_fail_char atom '}' r q (by decide) (by decide)
  | cons c t =>
    exact sep_fail_char atom c _ q (symChar_ne (hx c (by simp)) (by decide)) (symChar_ne (hx c (by simp)) (by decide))

/-- what may stand in `{{ }}` as a plain name: symbol characters, not beginning with `else` -/
structure IdentName (nm : Str) : Prop where
  ne : nm ≠ []
  sym : ∀ c ∈ nm, symChar c = true
  notElse : ['e', 'l', 's', 'e'].isPrefixOf nm = false

theorem path_current_fail (c0 : Char) (t r : Str) (q : Nat) (hs : ∀ c ∈ c0 :: t, symChar c = true) :
    E 10 .compound (.rule .r_path_current) ⟨q, c0 :: t ++ '}' :: r⟩ .fail := by
  apply Ev.rule_fail
  show E 9 .compound (.choice (.seq (.str ['t', 'h', 'i', 's']) (.rule .r_path_sep)) (.str ['.', '/'])) _ _
  have h2 : matchStr ['.', '/'] ⟨q, c0 :: t ++ '}' :: r⟩ = none :=
    matchStr_head_ne _ _ _ _ _ (symChar_ne (hs c0 (by simp)) (by decide))
  have hm := matchStr_name ['t', 'h', 'i', 's'] (c0 :: t) r q (by decide)
  cases hp : ['t', 'h', 'i', 's'].isPrefixOf (c0 :: t) with
  | false =>
    simp only [hp, Bool.false_eq_true, ↓reduceIte] at hm
    exact Ev.choice_right (Ev.seq_fail1 (Ev.str_fail hm)) ((Ev.str_fail (F := 0) h2).weaken (by omega))
  | true =>
    simp only [hp, ↓reduceIte] at hm
    have hsep := sep_fail_after .compound ((c0 :: t).drop 4) r (q + 4) (fun c hc => hs c (List.mem_of_mem_drop hc))
    exact Ev.choice_right (Ev.seq_fail2 (F := 7) (Ev.str_ok hm) (Ev.skip_off (by simp)) (hsep.weaken (by omega)))
      ((Ev.str_fail (F := 0) h2).weaken (by omega))

theorem path_inline_def : rules .r_path_inline = ⟨.compound,
    .seq (.seq (.seq (.seq (.seq (.opt (.rule .r_path_current)) (.opt (.seq (.rule .r_path_root) (.rule .r_path_sep))))
      (.opt (.rule .r_path_local))) (.rep (.seq (.rule .r_path_up) (.rule .r_path_sep)))) (.rule .r_path_item))
      (.rep (.seq (.rule .r_path_sep) (.rule .r_path_item)))⟩ := rfl

theorem reference_def : rules .r_reference = ⟨.compound, .rule .r_path_inline⟩ := rfl

/-- `reference` over a name in front of `}` : the pairs reference, path_inline, path_id -/
theorem reference_ok (nm r : Str) (h : IdentName nm) (q : Nat) :
    E (nm.length + 40) .nonAtomic (.rule .r_reference) ⟨q, nm ++ '}' :: r⟩
      (.ok ⟨q + nm.length, '}' :: r⟩ [⟨some .r_reference, q, q + nm.length⟩, ⟨some .r_path_inline, q, q + nm.length⟩,
        ⟨some .r_path_id, q, q + nm.length⟩]) := by
  obtain ⟨c0, t, rfl⟩ := List.exists_cons_of_ne_nil h.ne
  have hc0 : symChar c0 = true := h.sym c0 (by simp)
  have hn : (c0 :: t).length = t.length + 1 := List.length_cons
  let st : St := ⟨q, c0 :: t ++ '}' :: r⟩
  have hoff : ∀ (F : Nat) (s : St), E (F + 1) .compound .skip s (.ok s []) := fun F s => Ev.skip_off (by simp)
  have e1 : E 12 .compound (.opt (.rule .r_path_current)) st (.ok st []) :=
    Ev.opt_none ((path_current_fail c0 t r q h.sym).weaken (by omega))
  have e2 : E 12 .compound (.opt (.seq (.rule .r_path_root) (.rule .r_path_sep))) st (.ok st []) := by
    refine Ev.opt_none (F := 11) (Ev.seq_fail1 (F := 10) (Ev.rule_fail (F := 9) ?_))
    show E 9 _ (.str ['@', 'r', 'o', 'o', 't']) _ _
    exact Ev.str_fail (matchStr_head_ne _ _ _ _ _ (symChar_ne hc0 (by decide)))
  have e3 : E 12 .compound (.opt (.rule .r_path_local)) st (.ok st []) := by
    refine Ev.opt_none (F := 11) (Ev.rule_fail (F := 10) ?_)
    show E 10 _ (.str ['@']) _ _
    exact Ev.str_fail (matchStr_head_ne _ _ _ _ _ (symChar_ne hc0 (by decide)))
  have e4 : E 12 .compound (.rep (.seq (.rule .r_path_up) (.rule .r_path_sep))) st (.ok st []) := by
    refine Ev.rep_none (F := 11) (Ev.seq_fail1 (F := 10) (Ev.rule_fail (F := 9) ?_))
    show E 9 _ (.str ['.', '.']) _ _
    exact Ev.str_fail (matchStr_head_ne _ _ _ _ _ (symChar_ne hc0 (by decide)))
  have e5 : E ((c0 :: t).length + 18) .compound (.rule .r_path_item) st
      (.ok ⟨q + (c0 :: t).length, '}' :: r⟩ [⟨some .r_path_id, q, q + (c0 :: t).length⟩]) := by
    have hid := path_id_ok (c0 :: t) r '}' (by simp) h.sym (by decide) q
    have hr := Ev.rule_ok (G := rules) (ws := ws) (atom := .compound) (r := Rule.r_path_item) (F := (c0 :: t).length + 16)
      (st := st) (st' := ⟨q + (c0 :: t).length, '}' :: r⟩)
      (by
        show E _ .compound (.choice (.rule .r_path_id) (.rule .r_path_key)) _ _
        exact Ev.choice_left hid)
    have hty : (rules .r_path_item).ty = .silent := rfl
    simp only [hty] at hr
    exact (by simpa using hr : E _ _ _ _ _).weaken (by omega)
  have e6 : E 12 .compound (.rep (.seq (.rule .r_path_sep) (.rule .r_path_item))) ⟨q + (c0 :: t).length, '}' :: r⟩
      (.ok ⟨q + (c0 :: t).length, '}' :: r⟩ []) :=
    Ev.rep_none (F := 11) (Ev.seq_fail1 (F := 10) ((sep_fail_char .compound '}' r _ (by decide) (by decide)).weaken (by omega)))
  have hbody := Ev.seq_ok (F := (c0 :: t).length + 30)
    (Ev.seq_ok (F := (c0 :: t).length + 29)
      (Ev.seq_ok (F := (c0 :: t).length + 28)
        (Ev.seq_ok (F := (c0 :: t).length + 27)
          (Ev.seq_ok (F := (c0 :: t).length + 26) (e1.weaken (by omega)) (hoff _ _) (e2.weaken (by omega)))
          (hoff _ _) (e3.weaken (by omega)))
        (hoff _ _) (e4.weaken (by omega)))
      (hoff _ _) (e5.weaken (by omega)))
    (hoff _ _) (e6.weaken (by omega))
  have hpi := Ev.rule_ok (G := rules) (ws := ws) (atom := .compound) (r := Rule.r_path_inline) (F := (c0 :: t).length + 31)
    (st := st) (st' := ⟨q + (c0 :: t).length, '}' :: r⟩) (by rw [path_inline_def]; exact hbody)
  have hty1 : (rules .r_path_inline).ty = .compound := rfl
  simp only [hty1] at hpi
  have hrf := Ev.rule_ok (G := rules) (ws := ws) (atom := .nonAtomic) (r := Rule.r_reference) (F := (c0 :: t).length + 32)
    (st := st) (st' := ⟨q + (c0 :: t).length, '}' :: r⟩) (by rw [reference_def]; exact hpi)
  have hty2 : (rules .r_reference).ty = .compound := rfl
  simp only [hty2] at hrf
  exact (by simpa [st] using hrf : E _ _ _ _ _).weaken (by omega)


/-! ### the tag -/

def identSrc (nm : Str) : Str := '{' :: '{' :: (nm ++ ['}', '}'])

def identToks (n : Nat) : List (Tok Rule) :=
  [⟨some .r_expression, 0, n + 4⟩, ⟨some .r_reference, 2, n + 2⟩, ⟨some .r_path_inline, 2, n + 2⟩, ⟨some .r_path_id, 2, n + 2⟩]

/-- decided on the regenerated grammar: no parameter or hash begins with `}` – whatever follows -/
theorem params_decided : evalK rules ws false 60 .nonAtomic
    (.repOnce (.choice (.rule .r_hash) (.rule .r_helper_parameter))) 0 ['}'] = some .fail :=
  KRes.isFail_eq (by decide)

theorem params_fail (q : Nat) (r : Str) :
    E 60 .nonAtomic (.repOnce (.choice (.rule .r_hash) (.rule .r_helper_parameter))) ⟨q, '}' :: r⟩ .fail := by
  have := evalK_at rules ws rules_noSoi false r (by simp) 60 .nonAtomic _ rfl ['}'] .fail params_decided q
  exact ⟨by simpa using this, by simp⟩

/-- decided: text does not begin with `{{` -/
theorem raw_text_open_decided : evalK rules ws false 40 .nonAtomic (.rule .r_raw_text) 0 ['{', '{'] = some .fail :=
  KRes.isFail_eq (by decide)

theorem raw_text_open_fail (q : Nat) (r : Str) : E 40 .nonAtomic (.rule .r_raw_text) ⟨q, '{' :: '{' :: r⟩ .fail := by
  have := evalK_at rules ws rules_noSoi false r (by simp) 40 .nonAtomic _ rfl ['{', '{'] .fail raw_text_open_decided q
  exact ⟨by simpa using this, by simp⟩

/-- the common prefix of `invert_tag` and `invert_chain_tag` fails on a name that does not begin with `else` -/
theorem invert_prefix_fail (c0 : Char) (x : Str) (q : Nat) (hc : symChar c0 = true)
    (helse : matchStr ['e', 'l', 's', 'e'] ⟨q + 2, c0 :: x⟩ = none) :
    E 20 .nonAtomic (.seq (.seq (.seq (.negPred (.rule .r_escape)) (.str ['{', '{']))
      (.opt (.rule .r_leading_tilde_to_omit_whitespace))) (.rule .r_invert_tag_item)) ⟨q, '{' :: '{' :: c0 :: x⟩ .fail := by
  have hws := symChar_not_ws hc
  have hA := Ev.seq_ok (F := 10) (Ev.negPred_ok (F := 9) ((escape_fails_not_bs .nonAtomic q '{' ('{' :: c0 :: x) (by decide)).weaken (by omega)))
    ((skip_at '{' ('{' :: c0 :: x) (by decide) q).weaken (by omega))
    (Ev.str_ok (F := 9) (s := ['{', '{']) (st' := ⟨q + 2, c0 :: x⟩) (by simp [matchStr]))
  have hopt : E 10 .nonAtomic (.opt (.rule .r_leading_tilde_to_omit_whitespace)) ⟨q + 2, c0 :: x⟩ (.ok ⟨q + 2, c0 :: x⟩ []) := by
    refine Ev.opt_none (F := 9) (Ev.rule_fail (F := 8) ?_)
    show E 8 _ (.str ['~']) _ _
    exact Ev.str_fail (matchStr_head_ne _ _ _ _ _ (symChar_ne hc (by decide)))
  have hB := Ev.seq_ok (F := 11) (hA.weaken (by omega)) ((skip_at c0 x hws (q + 2)).weaken (by omega)) (hopt.weaken (by omega))
  have hitem : E 10 .nonAtomic (.rule .r_invert_tag_item) ⟨q + 2, c0 :: x⟩ .fail := by
    apply Ev.rule_fail
    show E 9 _ (.choice (.str ['e', 'l', 's', 'e']) (.str ['^'])) _ _
    exact Ev.choice_right (Ev.str_fail helse) (Ev.str_fail (matchStr_head_ne _ _ _ _ _ (symChar_ne hc (by decide))))
  exact (Ev.seq_fail2 (F := 12) hB ((skip_at c0 x hws (q + 2)).weaken (by omega)) (hitem.weaken (by omega))).weaken (by omega)

theorem invert_tag_nf : unfoldS rules keepSilent 8 (rules .r_invert_tag).body =
    .seq (.seq (.seq (.seq (.seq (.negPred (.rule .r_escape)) (.str ['{', '{'])) (.opt (.rule .r_leading_tilde_to_omit_whitespace)))
      (.rule .r_invert_tag_item)) (.opt (.rule .r_trailing_tilde_to_omit_whitespace))) (.str ['}', '}']) := rfl

theorem invert_chain_tag_nf : unfoldS rules keepSilent 8 (rules .r_invert_chain_tag).body =
    .seq (.seq (.seq (.seq (.seq (.seq (.negPred (.rule .r_escape)) (.str ['{', '{'])) (.opt (.rule .r_leading_tilde_to_omit_whitespace)))
      (.rule .r_invert_tag_item)) (.rule .r_exp_line)) (.opt (.rule .r_trailing_tilde_to_omit_whitespace))) (.str ['}', '}']) := rfl

/-- neither `{{else}}` nor `{{else …}}` begins where the common prefix of the two fails -/
theorem invert_tags_fail (c0 : Char) (x : Str) (p : Nat)
    (hpre : E 20 .nonAtomic (.seq (.seq (.seq (.negPred (.rule .r_escape)) (.str ['{', '{']))
      (.opt (.rule .r_leading_tilde_to_omit_whitespace))) (.rule .r_invert_tag_item)) ⟨p, '{' :: '{' :: c0 :: x⟩ .fail) :
    E 34 .nonAtomic (.negPred (.choice (.rule .r_invert_tag) (.rule .r_invert_chain_tag))) ⟨p, '{' :: '{' :: c0 :: x⟩
      (.ok ⟨p, '{' :: '{' :: c0 :: x⟩ []) := by
  have hinv : E 32 .nonAtomic (.rule .r_invert_tag) ⟨p, '{' :: '{' :: c0 :: x⟩ .fail :=
    Ev.rule_fail (E.of_nf (atom := .nonAtomic) .r_invert_tag invert_tag_nf
      (Ev.seq_fail1 (F := 22) (Ev.seq_fail1 (F := 21) (hpre.weaken (by omega)))))
  have hchain : E 32 .nonAtomic (.rule .r_invert_chain_tag) ⟨p, '{' :: '{' :: c0 :: x⟩ .fail :=
    Ev.rule_fail (E.of_nf (atom := .nonAtomic) .r_invert_chain_tag invert_chain_tag_nf
      (Ev.seq_fail1 (F := 22) (Ev.seq_fail1 (F := 21) (Ev.seq_fail1 (F := 20) hpre))))
  exact Ev.negPred_ok (F := 33) (Ev.choice_right (F := 32) hinv hchain)

/-- the body of `expression`, silent helper rules (if any) unfolded -/
theorem expression_nf : unfoldS rules keepSilent 8 (rules .r_expression).body =
    .seq (.seq (.seq (.seq (.seq (.negPred (.choice (.rule .r_invert_tag) (.rule .r_invert_chain_tag))) (.str ['{', '{']))
      (.opt (.rule .r_leading_tilde_to_omit_whitespace)))
      (.choice (.seq (.rule .r_identifier) (.repOnce (.choice (.rule .r_hash) (.rule .r_helper_parameter)))) (.rule .r_name)))
      (.opt (.rule .r_trailing_tilde_to_omit_whitespace))) (.str ['}', '}']) := rfl

theorem name_def : rules .r_name = ⟨.silent, .choice (.rule .r_subexpression) (.rule .r_reference)⟩ := rfl

/-- the rule `expression` over `{{name}}` -/
theorem expression_name_ok (nm tail : Str) (h : IdentName nm) (p : Nat) :
    E (nm.length + 80) .nonAtomic (.rule .r_expression) ⟨p, identSrc nm ++ tail⟩
      (.ok ⟨p + (nm.length + 4), tail⟩ [⟨some .r_expression, p, p + (nm.length + 4)⟩, ⟨some .r_reference, p + 2, p + 2 + nm.length⟩,
        ⟨some .r_path_inline, p + 2, p + 2 + nm.length⟩, ⟨some .r_path_id, p + 2, p + 2 + nm.length⟩]) := by
  obtain ⟨c0, t, hnm⟩ := List.exists_cons_of_ne_nil h.ne
  have hc0 : symChar c0 = true := h.sym c0 (by rw [hnm]; simp)
  have hws := symChar_not_ws hc0
  let x : Str := t ++ '}' :: '}' :: tail
  have hsrc : identSrc nm ++ tail = '{' :: '{' :: c0 :: x := by simp [identSrc, hnm, x]
  have hrest : nm ++ '}' :: '}' :: tail = c0 :: x := by simp [hnm, x]
  have helse : matchStr ['e', 'l', 's', 'e'] ⟨p + 2, c0 :: x⟩ = none := by
    have := matchStr_name ['e', 'l', 's', 'e'] nm ('}' :: tail) (p + 2) (by decide)
    rw [hrest] at this
    rw [this, h.notElse]; rfl
  have hpre := invert_prefix_fail c0 x p hc0 helse
  have hneg := invert_tags_fail c0 x p hpre
  have hA := Ev.seq_ok (F := nm.length + 60) (hneg.weaken (by omega))
    ((skip_at '{' ('{' :: c0 :: x) (by decide) p).weaken (by omega))
    (Ev.str_ok (F := nm.length + 59) (s := ['{', '{']) (st' := ⟨p + 2, c0 :: x⟩) (by simp [matchStr]))
  have hopt : E 10 .nonAtomic (.opt (.rule .r_leading_tilde_to_omit_whitespace)) ⟨p + 2, c0 :: x⟩ (.ok ⟨p + 2, c0 :: x⟩ []) := by
    refine Ev.opt_none (F := 9) (Ev.rule_fail (F := 8) ?_)
    show E 8 _ (.str ['~']) _ _
    exact Ev.str_fail (matchStr_head_ne _ _ _ _ _ (symChar_ne hc0 (by decide)))
  have hB := Ev.seq_ok (F := nm.length + 61) hA ((skip_at c0 x hws (p + 2)).weaken (by omega)) (hopt.weaken (by omega))
  -- the helper-call alternative: the identifier matches, no parameter follows
  have hid := identifier_ok nm ('}' :: tail) '}' h.ne h.sym (by decide) (p + 2)
  have halt1 : E (nm.length + 62) .nonAtomic (.seq (.rule .r_identifier) (.repOnce (.choice (.rule .r_hash) (.rule .r_helper_parameter))))
      ⟨p + 2, nm ++ '}' :: '}' :: tail⟩ .fail :=
    Ev.seq_fail2 (F := nm.length + 61) (hid.weaken (by omega)) ((skip_at '}' ('}' :: tail) (by decide) _).weaken (by omega))
      ((params_fail _ _).weaken (by omega))
  -- the name alternative
  have hsub : E 10 .nonAtomic (.rule .r_subexpression) ⟨p + 2, c0 :: x⟩ .fail := by
    apply Ev.rule_fail
    show E 9 _ (.seq (.seq (.str ['(']) _) (.str [')'])) _ _
    exact Ev.seq_fail1 (Ev.seq_fail1 (Ev.str_fail (matchStr_head_ne _ _ _ _ _ (symChar_ne hc0 (by decide)))))
  have href := reference_ok nm ('}' :: tail) h (p + 2)
  have hname := Ev.rule_ok (G := rules) (ws := ws) (atom := .nonAtomic) (r := Rule.r_name) (F := nm.length + 41)
    (st := ⟨p + 2, nm ++ '}' :: '}' :: tail⟩) (st' := ⟨p + 2 + nm.length, '}' :: '}' :: tail⟩)
    (by rw [name_def]; exact Ev.choice_right (by rw [hrest]; exact hsub.weaken (by omega)) href)
  have hty : (rules .r_name).ty = .silent := rfl
  simp only [hty] at hname
  have hchoice := Ev.choice_right (F := nm.length + 62) halt1 ((by simpa using hname : E _ _ _ _ _).weaken (by omega))
  rw [hrest] at hchoice
  have hC := Ev.seq_ok (F := nm.length + 63) (hB.weaken (by omega)) ((skip_at c0 x hws (p + 2)).weaken (by omega)) hchoice
  have hopt2 : E 10 .nonAtomic (.opt (.rule .r_trailing_tilde_to_omit_whitespace)) ⟨p + 2 + nm.length, '}' :: '}' :: tail⟩
      (.ok ⟨p + 2 + nm.length, '}' :: '}' :: tail⟩ []) := by
    refine Ev.opt_none (F := 9) (Ev.rule_fail (F := 8) ?_)
    show E 8 _ (.str ['~']) _ _
    exact Ev.str_fail (matchStr_head_ne _ _ _ _ _ (by decide))
  have hD := Ev.seq_ok (F := nm.length + 64) (hC.weaken (by omega))
    ((skip_at '}' ('}' :: tail) (by decide) (p + 2 + nm.length)).weaken (by omega)) (hopt2.weaken (by omega))
  have hEnd := Ev.seq_ok (F := nm.length + 65) (hD.weaken (by omega))
    ((skip_at '}' ('}' :: tail) (by decide) (p + 2 + nm.length)).weaken (by omega))
    (Ev.str_ok (F := nm.length + 64) (s := ['}', '}']) (st' := ⟨p + 2 + nm.length + 2, tail⟩) (by simp [matchStr]))
  have hr := Ev.rule_ok (G := rules) (ws := ws) (atom := .nonAtomic) (r := Rule.r_expression) (F := nm.length + 65 + 1 + 8)
    (st := ⟨p, identSrc nm ++ tail⟩) (st' := ⟨p + 2 + nm.length + 2, tail⟩)
    (by rw [hsrc]; exact E.of_nf (atom := .nonAtomic) .r_expression expression_nf hEnd)
  have hty2 : (rules .r_expression).ty = .normal := rfl
  simp only [hty2] at hr
  have e1 : p + 2 + nm.length + 2 = p + (nm.length + 4) := by omega
  rw [e1] at hr
  exact (by simpa using hr : E _ _ _ _ _).weaken (by omega)

/-- **`{{name}}` is one element of `template`** – for every identifier, wherever it stands, whatever follows -/
theorem name_tagAt (nm : Str) (h : IdentName nm) : TagAt (identSrc nm) (nm.length + 100) (identToks nm.length) := by
  intro p tail
  have hexp := expression_name_ok nm tail h p
  have hraw : E 40 .nonAtomic (.rule .r_raw_text) ⟨p, identSrc nm ++ tail⟩ .fail := by
    have := raw_text_open_fail p (nm ++ ['}', '}'] ++ tail)
    simpa [identSrc] using this
  rw [templateAlt_eq, altsBefore_eq]
  have h2 := Ev.choice_right (F := nm.length + 81) (hraw.weaken (by omega)) (hexp.weaken (by omega))
  have h4 := Ev.choice_left (b := .rule .r_helper_block) (Ev.choice_left (b := .rule .r_html_expression) h2)
  unfold alts4
  have := Ev.choice_left (b := .rule .r_partial_block) (Ev.choice_left (b := .rule .r_partial_expression)
    (Ev.choice_left (b := .rule .r_decorator_block) (Ev.choice_left (b := .rule .r_decorator_expression)
      (Ev.choice_left (b := .rule .r_hbs_comment_compact) (Ev.choice_left (b := .rule .r_hbs_comment)
        (Ev.choice_left (b := .rule .r_raw_block) h4))))))
  have hlen : (identSrc nm).length = nm.length + 4 := by simp [identSrc]
  have := this.weaken (F' := nm.length + 100) (by omega)
  simpa [identToks, shiftTok, hlen, Nat.add_comm, Nat.add_left_comm, Nat.add_assoc] using this

end Hbs.PlainText
