import HbsModel.Lemmas.UnlessBodyTag
import HbsModel.Lemmas.IfBodyBlock
/-
  compile2 on  L ++ "{{#unless v}}" ++ X ++ "{{/unless}}" ++ W ++ R'  for EVERY body text X that begins and ends with a non-whitespace
  character: a helper block between texts, its body the one text element X; neither block tag is alone on its line, so nothing is
  trimmed.
-/
namespace Hbs.PlainText
open Hbs Hbs.Pest Hbs.Grammar

theorem unXSrc_length (X : Str) : (unXSrc X).length = X.length + 24 := by simp [unXSrc, unOpenSrc, unCloseSrc] <;> omega

theorem unXToks_shift (n a : Nat) : (unXToks n).map (shiftTok a) =
    [⟨some .r_helper_block_start, a, a + 13⟩, ⟨some .r_identifier, a + 3, a + 9⟩, ⟨some .r_helper_parameter, a + 10, a + 11⟩, ⟨some .r_reference, a + 10, a + 11⟩,
     ⟨some .r_path_inline, a + 10, a + 11⟩, ⟨some .r_path_id, a + 10, a + 11⟩, ⟨some .r_template, a + 13, a + 13 + n⟩, ⟨some .r_raw_text, a + 13, a + 13 + n⟩,
     ⟨some .r_helper_block_end, a + 13 + n, a + 24 + n⟩, ⟨some .r_identifier, a + 16 + n, a + 22 + n⟩] := by
  simp only [unXToks, unOpenToks, List.cons_append, List.nil_append, List.map_cons, List.map_nil, shiftTok]
  repeat (first | rfl | (congr 1; · (congr 1 <;> omega)))

/-- the pair stream of  L ++ {{#unless v}} X {{/unless}} ++ W ++ R' -/
theorem parse_text_unX_text (X L W R' : Str) (hX : BlockBody X) (hL : L = [] ∨ TextBeforeTag L) (hA : TextAfterTag W R') :
    let a := L.length
    let b := a + (X.length + 24)
    let d := b + W.length
    let n := d + R'.length
    Pest.parse rules ws .r_handlebars (L ++ unXSrc X ++ (W ++ R'))
      = .ok ⟨n, []⟩ (⟨some .r_template, 0, if R' = [] then b else n⟩ ::
          (rawTok 0 a ++ (unXToks X.length).map (shiftTok a) ++ rawTok d n ++ [⟨none, n, n⟩])) := by
  intro a b d n
  have hh := handlebars_text_tag_text L (['#', 'u', 'n', 'l', 'e', 's', 's', ' ', 'v', '}', '}'] ++ (X ++ unCloseSrc)) W R' (X.length + 200) _ hL
    (by have := unX_tagAt X hX; simpa [unXSrc, unOpenSrc] using this) hA
  have hlen := unXSrc_length X
  have hn : (L ++ unXSrc X ++ (W ++ R')).length = n := by simp [n, d, b, a, hlen]; omega
  simp only [] at hh
  have e0 : '{' :: '{' :: (['#', 'u', 'n', 'l', 'e', 's', 's', ' ', 'v', '}', '}'] ++ (X ++ unCloseSrc)) = unXSrc X := by simp [unXSrc, unOpenSrc]
  rw [e0] at hh
  have h' := hh.weaken (F' := defaultFuel (L ++ unXSrc X ++ (W ++ R')).length) (by
    unfold defaultFuel
    rw [hn]
    have : X.length + 24 ≤ n := by simp only [n, d, b]; omega
    omega)
  unfold Pest.parse
  refine Eq.trans h'.1 ?_
  simp only [hn, hlen]
  rfl

/-- the opening tag, whatever the extent of the body's `template` pair -/
theorem step_un_startX (src : Str) (opts : TemplateOptions) (f a e : Nat) (T0 : Tmpl) (ep : Option Nat) (rest : List CTok)
    (hep : ep.getD 0 = a) (he : a + 13 ≤ e)
    (hid : tokStr src ⟨some .r_identifier, a + 3, a + 9, []⟩ = ['u', 'n', 'l', 'e', 's', 's'])
    (hv : tokStr src ⟨some .r_reference, a + 10, a + 11, []⟩ = ['v'])
    (hps : processStandalone [T0] src a (a + 13) true opts.isPartial = .ok (false, [T0])) :
    compileStep src opts (f + 6) { tmplStack := [T0], endPos := ep } ⟨some .r_helper_block_start, a, a + 13, []⟩
        (⟨some .r_identifier, a + 3, a + 9, []⟩ :: ⟨some .r_helper_parameter, a + 10, a + 11, []⟩ ::
         ⟨some .r_reference, a + 10, a + 11, []⟩ :: ⟨some .r_path_inline, a + 10, a + 11, []⟩ :: ⟨some .r_path_id, a + 10, a + 11, []⟩ ::
         ⟨some .r_template, a + 13, e, []⟩ :: rest)
      = .ok ({ tmplStack := [T0.pushMapping (lineCol src a).1 (lineCol src a).2], helperStack := [unOpen],
               endPos := some (a + 13) }, ⟨some .r_template, a + 13, e, []⟩ :: rest) := by
  have hv' : tokStr src ⟨some .r_path_id, a + 10, a + 11, []⟩ = ['v'] := hv
  have h1 : ¬ (e < a + 13) := by omega
  have h2 : a + 11 < e := by omega
  simp [compileStep, hep, isBlockStart, isExprLike, parseExpression, parseName, parseParam, parsePathSegs, parseExprLoop, hid, hv, hv',
    frontMut, unOpen, str, hps, HelperG.new, dropInside, h1, h2]

theorem step_un_endX (src : Str) (opts : TemplateOptions) (f a n : Nat) (T0 body : Tmpl) (r0 : CTok) (rest : List CTok)
    (hid : tokStr src ⟨some .r_identifier, a + 16 + n, a + 22 + n, []⟩ = ['u', 'n', 'l', 'e', 's', 's'])
    (hr0 : a + 24 + n ≤ r0.e)
    (hps : processStandalone [body, T0] src (a + 13 + n) (a + 24 + n) true opts.isPartial = .ok (false, [body, T0])) :
    compileStep src opts (f + 4) { tmplStack := [body, T0], helperStack := [unOpen], endPos := some (a + 13 + n) }
        ⟨some .r_helper_block_end, a + 13 + n, a + 24 + n, []⟩ (⟨some .r_identifier, a + 16 + n, a + 22 + n, []⟩ :: r0 :: rest)
      = .ok ({ tmplStack := [T0.pushElemOnly (.block (unHT body))], endPos := some (a + 24 + n) }, r0 :: rest) := by
  have h1 : ¬ (r0.e < a + 24 + n) := by omega
  simp [compileStep, isBlockStart, isExprLike, parseExpression, parseName, parseExprLoop, hid, h1, frontMut, unOpen, unHT, str, hps,
    HelperG.new, revertChainAndSet, Param.asName?]

/-- the body of the block as compile2 stores it: one text element, with the position of the text -/
def unBodyX (X : Str) (lc : Nat × Nat) : Tmpl := Tmpl.empty.pushElement (.raw X) lc.1 lc.2

/-- **compile2 on  L ++ {{#unless v}} X {{/unless}} ++ W ++ R'** : the text in front, ONE block element (helper `unless`, parameter the path `v`,
    body the text `X`, no else branch), the text behind – nothing trimmed, for every `L`, `X`, `W`, `R'` -/
theorem compile_text_unX_text (X L W R' : Str) (opts : TemplateOptions) (hX : BlockText X)
    (hL : L = [] ∨ TextBeforeTag L) (hA : TextAfterTag W R') :
    ∃ m, compile2 (L ++ unXSrc X ++ (W ++ R')) opts = .ok (.mk opts.name
      ((leftT L L).elements ++ [.block (unHT (unBodyX X (lineCol (L ++ unXSrc X ++ (W ++ R')) (L.length + 13))))]
        ++ (if W ++ R' = [] then [] else [.raw (W ++ R')])) m) := by
  have hparse := parse_text_unX_text X L W R' hX.body hL hA
  simp only [] at hparse
  have hlen := unXSrc_length X
  obtain ⟨c0, t0, hX0, hc0⟩ := hX.body.first
  obtain ⟨P, cl, hXl, hclb, hcln⟩ := hX.last
  have hc0b : isBlank c0 = false := by
    cases hb : isBlank c0 with
    | false => rfl
    | true => simp only [isBlank, Bool.or_eq_true, beq_iff_eq] at hb; rcases hb with rfl | rfl <;> simp [isPestWs] at hc0
  have hc0n : isNewline c0 = false := by
    cases hb : isNewline c0 with
    | false => rfl
    | true => simp only [isNewline, Bool.or_eq_true, beq_iff_eq] at hb; rcases hb with rfl | rfl <;> simp [isPestWs] at hc0
  have hn : (L ++ unXSrc X ++ (W ++ R')).length = L.length + (X.length + 24) + W.length + R'.length := by
    simp [hlen]; omega
  have hs0 : slice? (L ++ unXSrc X ++ (W ++ R')) 0 L.length = some L := by
    rw [List.append_assoc]; exact slice_prefix L _
  have hsR : slice? (L ++ unXSrc X ++ (W ++ R')) (L.length + (X.length + 24)) (L ++ unXSrc X ++ (W ++ R')).length = some (W ++ R') :=
    slice_suffix (L ++ unXSrc X) (W ++ R') _ (by simp [hlen])
  have hid1 : tokStr (L ++ unXSrc X ++ (W ++ R')) ⟨some .r_identifier, L.length + 3, L.length + 9, []⟩ = ['u', 'n', 'l', 'e', 's', 's'] := by
    have : L ++ unXSrc X ++ (W ++ R') = (L ++ ['{', '{', '#']) ++ ['u', 'n', 'l', 'e', 's', 's'] ++ ([' ', 'v', '}', '}'] ++ (X ++ unCloseSrc) ++ (W ++ R')) := by
      simp [unXSrc, unOpenSrc]
    rw [this]
    exact tokStr_mid (L ++ ['{', '{', '#']) ['u', 'n', 'l', 'e', 's', 's'] _ ⟨some .r_identifier, L.length + 3, L.length + 9, []⟩ (by simp) (by simp)
  have hv : tokStr (L ++ unXSrc X ++ (W ++ R')) ⟨some .r_reference, L.length + 10, L.length + 11, []⟩ = ['v'] := by
    have : L ++ unXSrc X ++ (W ++ R') = (L ++ ['{', '{', '#', 'u', 'n', 'l', 'e', 's', 's', ' ']) ++ ['v'] ++ (['}', '}'] ++ (X ++ unCloseSrc) ++ (W ++ R')) := by
      simp [unXSrc, unOpenSrc]
    rw [this]
    exact tokStr_mid (L ++ ['{', '{', '#', 'u', 'n', 'l', 'e', 's', 's', ' ']) ['v'] _ ⟨some .r_reference, L.length + 10, L.length + 11, []⟩ (by simp) (by simp)
  have hid2 : tokStr (L ++ unXSrc X ++ (W ++ R')) ⟨some .r_identifier, L.length + 16 + X.length, L.length + 22 + X.length, []⟩ = ['u', 'n', 'l', 'e', 's', 's'] := by
    have : L ++ unXSrc X ++ (W ++ R') = (L ++ unOpenSrc ++ X ++ ['{', '{', '/']) ++ ['u', 'n', 'l', 'e', 's', 's'] ++ (['}', '}'] ++ (W ++ R')) := by
      simp [unXSrc, unCloseSrc]
    rw [this]
    exact tokStr_mid (L ++ unOpenSrc ++ X ++ ['{', '{', '/']) ['u', 'n', 'l', 'e', 's', 's'] _ ⟨some .r_identifier, L.length + 16 + X.length, L.length + 22 + X.length, []⟩
      (by simp [unOpenSrc]; omega) (by simp [unOpenSrc]; omega)
  have hA1 : slice? (L ++ unXSrc X ++ (W ++ R')) (L.length + 13) (L.length + 13 + X.length) = some X := by
    have : L ++ unXSrc X ++ (W ++ R') = (L ++ unOpenSrc) ++ X ++ (unCloseSrc ++ (W ++ R')) := by simp [unXSrc]
    rw [this]
    have := slice_middle (L ++ unOpenSrc) X (unCloseSrc ++ (W ++ R'))
    simpa [unOpenSrc] using this
  have hc1 : slice? (L ++ unXSrc X ++ (W ++ R')) (L.length + 13) (L ++ unXSrc X ++ (W ++ R')).length
      = some (c0 :: (t0 ++ (unCloseSrc ++ (W ++ R')))) := by
    have : L ++ unXSrc X ++ (W ++ R') = (L ++ unOpenSrc) ++ (c0 :: (t0 ++ (unCloseSrc ++ (W ++ R')))) := by simp [unXSrc, hX0]
    rw [this]
    exact slice_suffix _ _ _ (by simp [unOpenSrc])
  have hb2 : slice? (L ++ unXSrc X ++ (W ++ R')) 0 (L.length + 13 + X.length) = some ((L ++ unOpenSrc ++ P) ++ [cl]) := by
    have : L ++ unXSrc X ++ (W ++ R') = ((L ++ unOpenSrc ++ P) ++ [cl]) ++ (unCloseSrc ++ (W ++ R')) := by simp [unXSrc, hXl]
    rw [this]
    have := slice_prefix ((L ++ unOpenSrc ++ P) ++ [cl]) (unCloseSrc ++ (W ++ R'))
    have hl : ((L ++ unOpenSrc ++ P) ++ [cl]).length = L.length + 13 + X.length := by simp [unOpenSrc, hXl]; omega
    rw [hl] at this; exact this
  generalize hsrc : L ++ unXSrc X ++ (W ++ R') = src at *
  have hps1 : processStandalone [leftT L L] src L.length (L.length + 13) true opts.isPartial = .ok (false, [leftT L L]) :=
    processStandalone_text_follows _ src _ _ _ _ c0 _ hc1 hc0b hc0n
  have hps2 : ∀ (body : Tmpl) (T0 : Tmpl), processStandalone [body, T0] src (L.length + 13 + X.length) (L.length + 24 + X.length) true opts.isPartial
      = .ok (false, [body, T0]) := fun body T0 =>
    processStandalone_text_precedes _ src _ _ _ _ (W ++ R') cl hb2 (by omega)
      (by rw [show L.length + 24 + X.length = L.length + (X.length + 24) by omega]; exact hsR) hclb hcln
  obtain ⟨m, htail⟩ := loop_tail src W R' opts (3 * (rawTok 0 L.length).length + 3 * (rawTok (L.length + (X.length + 24) + W.length) src.length).length + 57)
    (L.length + (X.length + 24)) (((leftT L L).pushMapping (lineCol src L.length).1 (lineCol src L.length).2).pushElemOnly
      (.block (unHT (unBodyX X (lineCol src (L.length + 13)))))) false hn hsR
  refine ⟨m, ?_⟩
  unfold compile2 compile2Inner
  rw [hparse, unXToks_shift]
  simp only []
  rw [attachEscapes_noEsc _ (by
    intro t ht
    simp only [List.mem_cons, List.mem_append, List.not_mem_nil, or_false] at ht
    rcases ht with rfl | ((h | rfl | rfl | rfl | rfl | rfl | rfl | rfl | rfl | rfl | rfl) | h) | rfl
    · show ((some Rule.r_template : Option Rule) == some Rule.r_escape) = false; decide
    · exact rawTok_rule _ _ t h
    · show ((some Rule.r_helper_block_start : Option Rule) == some Rule.r_escape) = false; decide
    · show ((some Rule.r_identifier : Option Rule) == some Rule.r_escape) = false; decide
    · show ((some Rule.r_helper_parameter : Option Rule) == some Rule.r_escape) = false; decide
    · show ((some Rule.r_reference : Option Rule) == some Rule.r_escape) = false; decide
    · show ((some Rule.r_path_inline : Option Rule) == some Rule.r_escape) = false; decide
    · show ((some Rule.r_path_id : Option Rule) == some Rule.r_escape) = false; decide
    · show ((some Rule.r_template : Option Rule) == some Rule.r_escape) = false; decide
    · show ((some Rule.r_raw_text : Option Rule) == some Rule.r_escape) = false; decide
    · show ((some Rule.r_helper_block_end : Option Rule) == some Rule.r_escape) = false; decide
    · show ((some Rule.r_identifier : Option Rule) == some Rule.r_escape) = false; decide
    · exact rawTok_rule _ _ t h
    · show ((none : Option Rule) == some Rule.r_escape) = false; decide)]
  rw [← hn]
  simp only [List.map_cons, List.map_append, List.length_cons, List.length_append, List.length_map, List.map_nil, List.length_nil,
    List.append_assoc, List.cons_append, List.nil_append]
  rw [show 4 * ((rawTok 0 L.length).length + ((rawTok (L.length + (X.length + 24) + W.length) src.length).length + (0 + 1) + 1 + 1 + 1 + 1 + 1 + 1 + 1 + 1 + 1 + 1) + 1) + 16
      = ((3 * (rawTok 0 L.length).length + 3 * (rawTok (L.length + (X.length + 24) + W.length) src.length).length + 54
          + ((rawTok (L.length + (X.length + 24) + W.length) src.length).length + 2)) + 6 + 1) + (1 + (rawTok 0 L.length).length) by omega]
  rw [loop_head src L opts _ _ _ hs0]
  obtain ⟨r0, rest, hrest, hr0⟩ := tail_head (L.length + (X.length + 24)) W.length src.length (by omega)
  have hep : (if L = [] then none else some L.length : Option Nat).getD 0 = L.length := by
    by_cases hLe : L = [] <;> simp [hLe]
  rw [hrest] at htail ⊢
  simp only [plainCTok]
  -- {{#unless v}}
  have hstep1 := step_un_startX src opts
    (3 * (rawTok 0 L.length).length + 3 * (rawTok (L.length + (X.length + 24) + W.length) src.length).length + 54
      + ((rawTok (L.length + (X.length + 24) + W.length) src.length).length + 2))
    L.length (L.length + 13 + X.length) (leftT L L) _ (⟨some .r_raw_text, L.length + 13, L.length + 13 + X.length, []⟩ ::
      ⟨some .r_helper_block_end, L.length + 13 + X.length, L.length + 24 + X.length, []⟩ ::
      ⟨some .r_identifier, L.length + 16 + X.length, L.length + 22 + X.length, []⟩ :: r0 :: rest) hep (by omega) hid1 hv hps1
  rw [loop_step src opts _ (st1 L) _ _ _ _ (by unfold st1; exact hstep1)]
  -- the body's template and text
  rw [show 3 * (rawTok 0 L.length).length + 3 * (rawTok (L.length + (X.length + 24) + W.length) src.length).length + 54
        + ((rawTok (L.length + (X.length + 24) + W.length) src.length).length + 2) + 6
      = 3 * (rawTok 0 L.length).length + 3 * (rawTok (L.length + (X.length + 24) + W.length) src.length).length + 54
        + ((rawTok (L.length + (X.length + 24) + W.length) src.length).length + 2) + 4 + 1 + 1 by omega]
  rw [loop_step src opts _ _ _ _ _ _ (step_inner_template src opts _ _ _ _ _ _ _)]
  rw [loop_step src opts _ _ _ _ _ _ (step_inner_raw src X opts _ _ _ _ _ _ _ hA1 (by omega))]
  -- {{/unless}}
  have hstep4 := step_un_endX src opts
    (3 * (rawTok 0 L.length).length + 3 * (rawTok (L.length + (X.length + 24) + W.length) src.length).length + 53
      + ((rawTok (L.length + (X.length + 24) + W.length) src.length).length + 2))
    L.length X.length ((leftT L L).pushMapping (lineCol src L.length).1 (lineCol src L.length).2) (unBodyX X (lineCol src (L.length + 13))) r0 rest hid2
    (by omega) (hps2 _ _)
  rw [show 3 * (rawTok 0 L.length).length + 3 * (rawTok (L.length + (X.length + 24) + W.length) src.length).length + 54
        + ((rawTok (L.length + (X.length + 24) + W.length) src.length).length + 2) + 4
      = 3 * (rawTok 0 L.length).length + 3 * (rawTok (L.length + (X.length + 24) + W.length) src.length).length + 53
        + ((rawTok (L.length + (X.length + 24) + W.length) src.length).length + 2) + 4 + 1 by omega]
  rw [loop_step src opts _ _ _ _ _ _ (by have h4 := hstep4; unfold unBodyX at h4; exact h4)]
  rw [show 3 * (rawTok 0 L.length).length + 3 * (rawTok (L.length + (X.length + 24) + W.length) src.length).length + 53
        + ((rawTok (L.length + (X.length + 24) + W.length) src.length).length + 2) + 4
      = 3 * (rawTok 0 L.length).length + 3 * (rawTok (L.length + (X.length + 24) + W.length) src.length).length + 57
        + ((rawTok (L.length + (X.length + 24) + W.length) src.length).length + 2) by omega]
  unfold unBodyX at htail ⊢
  rw [show L.length + 24 + X.length = L.length + (X.length + 24) by omega]
  rw [htail]
  simp [Tmpl.pushElemOnly, Tmpl.pushMapping, Tmpl.elements]

end Hbs.PlainText
