import HbsModel.Lemmas.TextUntilTag
/-
  The pieces a template is made of, as interpreter facts at an arbitrary offset: a text run up to a tag
  or up to the end, implicit whitespace between elements, a (concrete) tag.
-/
namespace Hbs.PlainText
open Hbs Hbs.Pest Hbs.Grammar

/-- a run of text up to the end of the input, at offset `p` -/
theorem raw_text_to_eoi (s : Str) (hne : s ≠ []) (hs : noOpen s) (p : Nat) :
    E (s.length + 20) .nonAtomic (.rule .r_raw_text) ⟨p, s⟩
      (.ok ⟨p + s.length, []⟩ [⟨some .r_raw_text, p, p + s.length⟩]) := by
  have hloop := rawLoop s hs p
  have hpos : p + s.length ≠ p := by
    have : s.length ≠ 0 := fun h0 => hne (List.eq_nil_of_length_eq_zero h0)
    omega
  have hrep := Ev.repOnce_of_starTail (F := s.length + 16) (atom := .compound) (by simp) hloop (by simpa using hpos)
  have hr := Ev.rule_ok (G := rules) (ws := ws) (atom := .nonAtomic) (r := Rule.r_raw_text) (F := s.length + 17)
    (st := ⟨p, s⟩) (st' := ⟨p + s.length, []⟩) (toks := []) (by simpa [raw_text_def, innerAtom] using hrep)
  have : (rules .r_raw_text).ty = .compound := rfl
  simp only [this] at hr
  exact hr.weaken (by omega)

/-- a run of text in front of a tag, at offset `p` -/
theorem raw_text_before_tag (s r : Str) (hne : s ≠ []) (hs : TextBeforeTag s) (p : Nat) :
    E ((s ++ '{' :: '{' :: r).length + 20) .nonAtomic (.rule .r_raw_text) ⟨p, s ++ '{' :: '{' :: r⟩
      (.ok ⟨p + s.length, '{' :: '{' :: r⟩ [⟨some .r_raw_text, p, p + s.length⟩]) := by
  have hloop := rawLoop_before s r (Or.inr hs) p
  have hpos : p + s.length ≠ p := by
    have : s.length ≠ 0 := fun h0 => hne (List.eq_nil_of_length_eq_zero h0)
    omega
  have hrep := Ev.repOnce_of_starTail (F := (s ++ '{' :: '{' :: r).length + 16) (atom := .compound) (by simp) hloop (by simpa using hpos)
  have hr := Ev.rule_ok (G := rules) (ws := ws) (atom := .nonAtomic) (r := Rule.r_raw_text) (F := (s ++ '{' :: '{' :: r).length + 17)
    (st := ⟨p, s ++ '{' :: '{' :: r⟩) (st' := ⟨p + s.length, '{' :: '{' :: r⟩) (toks := [])
    (by simpa [raw_text_def, innerAtom] using hrep)
  have : (rules .r_raw_text).ty = .compound := rfl
  simp only [this] at hr
  exact hr.weaken (by omega)

/-- WHITESPACE matches one of its four characters -/
theorem ws_char_ok (c : Char) (r : Str) (p : Nat) (hc : isPestWs c = true) :
    E 4 .atomic (rules .r_WHITESPACE).body ⟨p, c :: r⟩ (.ok ⟨p + 1, r⟩ []) := by
  show E 4 .atomic (.choice (.choice (.choice (.str [' ']) (.str ['\t'])) (.str ['\n'])) (.str ['\r'])) _ _
  simp only [isPestWs, Bool.or_eq_true, beq_iff_eq] at hc
  rcases hc with ((rfl | rfl) | rfl) | rfl
  · exact Ev.choice_left (Ev.choice_left (Ev.choice_left (Ev.str_ok (by simp [matchStr]))))
  · exact Ev.choice_left (Ev.choice_left (Ev.choice_right (Ev.str_fail (by simp [matchStr])) (Ev.str_ok (by simp [matchStr]))))
  · exact Ev.choice_left (Ev.choice_right (Ev.choice_right (Ev.str_fail (by simp [matchStr])) (Ev.str_fail (by simp [matchStr])))
      (Ev.str_ok (by simp [matchStr])))
  · exact Ev.choice_right (Ev.choice_right (Ev.choice_right (Ev.str_fail (by simp [matchStr])) (Ev.str_fail (by simp [matchStr])))
      (Ev.str_fail (by simp [matchStr]))) (Ev.str_ok (by simp [matchStr]))

/-- … and nothing else -/
theorem ws_char_fail (c : Char) (r : Str) (p : Nat) (hc : isPestWs c = false) :
    E 4 .atomic (rules .r_WHITESPACE).body ⟨p, c :: r⟩ .fail := by
  show E 4 .atomic (.choice (.choice (.choice (.str [' ']) (.str ['\t'])) (.str ['\n'])) (.str ['\r'])) _ _
  simp only [isPestWs, Bool.or_eq_false_iff, beq_eq_false_iff_ne] at hc
  obtain ⟨⟨⟨h1, h2⟩, h3⟩, h4⟩ := hc
  have b1 : (' ' == c) = false := beq_eq_false_iff_ne.mpr (fun e => h1 e.symm)
  have b2 : ('\t' == c) = false := beq_eq_false_iff_ne.mpr (fun e => h2 e.symm)
  have b3 : ('\n' == c) = false := beq_eq_false_iff_ne.mpr (fun e => h3 e.symm)
  have b4 : ('\r' == c) = false := beq_eq_false_iff_ne.mpr (fun e => h4 e.symm)
  exact Ev.choice_right (Ev.choice_right (Ev.choice_right (Ev.str_fail (by simp [matchStr, b1])) (Ev.str_fail (by simp [matchStr, b2])))
    (Ev.str_fail (by simp [matchStr, b3]))) (Ev.str_fail (by simp [matchStr, b4]))

/-- implicit whitespace between the elements of `template`: the whole leading run of pest WHITESPACE -/
theorem skip_run (w rest : Str) (hw : ∀ c ∈ w, isPestWs c = true) (hr : rest = [] ∨ ∃ c r, rest = c :: r ∧ isPestWs c = false) (p : Nat) :
    E (w.length + 6) .nonAtomic .skip ⟨p, w ++ rest⟩ (.ok ⟨p + w.length, rest⟩ []) := by
  induction w generalizing p with
  | nil =>
    rcases hr with rfl | ⟨c, r, rfl, hc⟩
    · exact (skip_eoi .nonAtomic p).weaken (by simp)
    · exact Ev.skip_none (F := 5) ((ws_char_fail c r p hc).weaken (by omega))
  | cons c t ih =>
    have hc : isPestWs c = true := hw c (by simp)
    have ht : ∀ d ∈ t, isPestWs d = true := fun d hd => hw d (by simp [hd])
    have h := Ev.skip_step (F := t.length + 6) (G := rules) (w := Rule.r_WHITESPACE) (st := ⟨p, c :: t ++ rest⟩)
      ((ws_char_ok c (t ++ rest) p hc).weaken (by omega)) (by simp) (ih ht (p + 1))
    have e1 : (c :: t).length + 6 = t.length + 6 + 1 := by rw [List.length_cons]
    have e2 : p + (c :: t).length = p + 1 + t.length := by rw [List.length_cons]; omega
    rw [e1, e2]
    exact h

end Hbs.PlainText
