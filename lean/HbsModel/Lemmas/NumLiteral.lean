import HbsModel.Num
import HbsModel.Json
/-
  Integer literals: the JSON number parser (both builds of serde_json that the model carries) reads a run of decimal
  digits as exactly the integer it spells, over the whole u64 range (and the i64 range behind a '-').
-/
namespace Hbs

/-- the character of a decimal digit -/
def digitChar (d : Nat) : Char := Char.ofNat (48 + d)

/-- the integer a list of decimal digits spells -/
def digitsVal (ds : List Nat) : Nat := ds.foldl (fun a d => a * 10 + d) 0

theorem digitVal_digitChar : ∀ d, d < 10 → digitVal? (digitChar d) = some d := by
  intro d h
  match d, h with
  | 0, _ => rfl | 1, _ => rfl | 2, _ => rfl | 3, _ => rfl | 4, _ => rfl
  | 5, _ => rfl | 6, _ => rfl | 7, _ => rfl | 8, _ => rfl | 9, _ => rfl
  | n + 10, h => omega

theorem digitChar_ne_minus : ∀ d, d < 10 → digitChar d ≠ '-' := by
  intro d h
  match d, h with
  | 0, _ => decide | 1, _ => decide | 2, _ => decide | 3, _ => decide | 4, _ => decide
  | 5, _ => decide | 6, _ => decide | 7, _ => decide | 8, _ => decide | 9, _ => decide
  | n + 10, h => omega

theorem digitChar_eq_zero_iff : ∀ d, d < 10 → (digitChar d = '0' ↔ d = 0) := by
  intro d h
  match d, h with
  | 0, _ => decide | 1, _ => decide | 2, _ => decide | 3, _ => decide | 4, _ => decide
  | 5, _ => decide | 6, _ => decide | 7, _ => decide | 8, _ => decide | 9, _ => decide
  | n + 10, h => omega

theorem takeWhile_digits (ds : List Nat) (hd : ∀ d ∈ ds, d < 10) :
    (ds.map digitChar).takeWhile (fun c => (digitVal? c).isSome) = ds.map digitChar := by
  induction ds with
  | nil => rfl
  | cons d t ih =>
    have h1 := digitVal_digitChar d (hd d (by simp))
    simp only [List.map_cons, List.takeWhile_cons, h1, Option.isSome_some, ↓reduceIte]
    rw [ih (fun x hx => hd x (by simp [hx]))]

theorem dropWhile_digits (ds : List Nat) (hd : ∀ d ∈ ds, d < 10) :
    (ds.map digitChar).dropWhile (fun c => (digitVal? c).isSome) = [] := by
  induction ds with
  | nil => rfl
  | cons d t ih =>
    have h1 := digitVal_digitChar d (hd d (by simp))
    simp only [List.map_cons, List.dropWhile_cons, h1, Option.isSome_some, ↓reduceIte]
    exact ih (fun x hx => hd x (by simp [hx]))

theorem foldl_digits (ds : List Nat) (hd : ∀ d ∈ ds, d < 10) (a : Nat) :
    (ds.map digitChar).foldl (fun a c => a * 10 + (digitVal? c).getD 0) a = ds.foldl (fun a d => a * 10 + d) a := by
  induction ds generalizing a with
  | nil => rfl
  | cons d t ih =>
    have h1 := digitVal_digitChar d (hd d (by simp))
    simp only [List.map_cons, List.foldl_cons, h1, Option.getD_some]
    exact ih (fun x hx => hd x (by simp [hx])) _

theorem digitsToNat_digits (ds : List Nat) (hd : ∀ d ∈ ds, d < 10) :
    digitsToNat (ds.map digitChar) = digitsVal ds := foldl_digits ds hd 0

/-- well-formed spelling of a non-negative integer: at least one digit, every digit below ten, no leading zero unless the
    spelling is the single digit 0 -/
structure IntSpelling (ds : List Nat) : Prop where
  digits : ∀ d ∈ ds, d < 10
  nonempty : ds ≠ []
  noLeadingZero : 1 < ds.length → ds.head? ≠ some 0

/-- **serde_json with `float_roundtrip`** reads an integer spelling below 2^64 as exactly that integer -/
theorem parseExact_integer (ds : List Nat) (h : IntSpelling ds) (hv : digitsVal ds < 2 ^ 64) :
    Num.parsePrefixExact (ds.map digitChar) = some (.pos (digitsVal ds), []) := by
  obtain ⟨hd, hne, hlz⟩ := h
  cases ds with
  | nil => exact absurd rfl hne
  | cons d t =>
    have hd0 := hd d (by simp)
    have hnm := digitChar_ne_minus d hd0
    have htw := takeWhile_digits (d :: t) hd
    have hdw := dropWhile_digits (d :: t) hd
    have hM := digitsToNat_digits (d :: t) hd
    simp only [List.map_cons] at htw hdw hM
    have hstrip : splitSign (digitChar d :: t.map digitChar) = (false, digitChar d :: t.map digitChar) := by
      unfold splitSign
      split
      · next u heq => simp only [List.cons.injEq] at heq; exact absurd heq.1 hnm
      · rfl
    have hlead : ((digitChar d :: t.map digitChar).length > 1 && (digitChar d :: t.map digitChar).head? == some '0') = false := by
      by_cases hl : 1 < (d :: t).length
      · have := hlz hl
        have hne0 : d ≠ 0 := by simpa using this
        have : digitChar d ≠ '0' := fun e => hne0 ((digitChar_eq_zero_iff d hd0).mp e)
        simp [this]
      · have : t = [] := by
          cases t with
          | nil => rfl
          | cons _ _ => simp at hl
        subst this; simp
    unfold Num.parsePrefixExact
    simp only [List.map_cons, hstrip, htw, hdw, List.isEmpty_cons, Bool.false_eq_true, ↓reduceIte, hlead, List.append_nil, hM,
      Bool.not_false, Option.isNone_none, Bool.and_self, Bool.true_and, hv, decide_true]

/-- **serde_json without `float_roundtrip`**: the integer digit loop -/
theorem serdeIntDigits_digits (ds : List Nat) (hd : ∀ d ∈ ds, d < 10) (sig : Nat)
    (hv : ds.foldl (fun a d => a * 10 + d) sig ≤ u64Max) :
    serdeIntDigits sig (ds.map digitChar) = .inl (ds.foldl (fun a d => a * 10 + d) sig, []) := by
  induction ds generalizing sig with
  | nil => rfl
  | cons d t ih =>
    have h1 := digitVal_digitChar d (hd d (by simp))
    have hmono : ∀ (l : List Nat) (a : Nat), a ≤ l.foldl (fun a d => a * 10 + d) a := by
      intro l
      induction l with
      | nil => intro a; exact Nat.le_refl _
      | cons x l ihl => intro a; exact Nat.le_trans (by omega) (ihl (a * 10 + x))
    have hle : sig * 10 + d ≤ u64Max := Nat.le_trans (hmono t _) hv
    simp only [List.map_cons, serdeIntDigits, h1, List.foldl_cons]
    rw [if_neg (by omega)]
    exact ih (fun x hx => hd x (by simp [hx])) _ hv

theorem digitsVal_cons (d : Nat) (t : List Nat) : digitsVal (d :: t) = t.foldl (fun a d => a * 10 + d) d := by
  simp [digitsVal]

theorem parseFast_integer (ds : List Nat) (h : IntSpelling ds) (hv : digitsVal ds < 2 ^ 64) :
    Num.parsePrefixFast (ds.map digitChar) = some (.pos (digitsVal ds), []) := by
  obtain ⟨hd, hne, hlz⟩ := h
  cases ds with
  | nil => exact absurd rfl hne
  | cons d t =>
    have hd0 := hd d (by simp)
    have hnm := digitChar_ne_minus d hd0
    have h1 := digitVal_digitChar d hd0
    have hstrip : splitSign (digitChar d :: t.map digitChar) = (false, digitChar d :: t.map digitChar) := by
      unfold splitSign
      split
      · next u heq => simp only [List.cons.injEq] at heq; exact absurd heq.1 hnm
      · rfl
    rw [digitsVal_cons] at hv ⊢
    unfold Num.parsePrefixFast
    simp only [List.map_cons, hstrip, h1]
    cases d with
    | zero =>
      have : t = [] := by
        cases t with
        | nil => rfl
        | cons x l => exact absurd rfl (hlz (by simp))
      subst this
      simp
    | succ k =>
      have hv' : t.foldl (fun a d => a * 10 + d) (k + 1) ≤ u64Max := by unfold u64Max; omega
      simp only [serdeIntDigits_digits t (fun x hx => hd x (by simp [hx])) (k + 1) hv']
      simp

/-- **an integer literal below 2^64 denotes exactly the integer it spells** – under either build of the JSON number parser
    (the one in force is regenerated from Cargo.toml), whatever its size relative to i64: no detour through a float -/
theorem integer_literal_exact (ds : List Nat) (h : IntSpelling ds) (hv : digitsVal ds < 2 ^ 64) :
    Num.ofText (ds.map digitChar) = some (.pos (digitsVal ds)) := by
  have hp : Num.parsePrefix (ds.map digitChar) = some (.pos (digitsVal ds), []) := by
    unfold Num.parsePrefix
    split
    · exact parseExact_integer ds h hv
    · exact parseFast_integer ds h hv
  simp [Num.ofText, hp]

/-- the premises are satisfiable at the top of the range: `18446744073709551615` (u64::MAX) -/
example : IntSpelling [1,8,4,4,6,7,4,4,0,7,3,7,0,9,5,5,1,6,1,5] ∧ digitsVal [1,8,4,4,6,7,4,4,0,7,3,7,0,9,5,5,1,6,1,5] = 2 ^ 64 - 1 :=
  ⟨⟨by decide, by decide, by decide⟩, by decide⟩

/-- the facts about a digit character that the JSON value parser asks for: it is not whitespace and opens no other kind of value -/
theorem digitChar_facts : ∀ d, d < 10 →
    isPestWs (digitChar d) = false ∧ (digitChar d == 'n') = false ∧ (digitChar d == 't') = false ∧ (digitChar d == 'f') = false ∧
    (digitChar d == '"') = false ∧ (digitChar d == '[') = false ∧ (digitChar d == '{') = false := by
  intro d h
  match d, h with
  | 0, _ => decide | 1, _ => decide | 2, _ => decide | 3, _ => decide | 4, _ => decide
  | 5, _ => decide | 6, _ => decide | 7, _ => decide | 8, _ => decide | 9, _ => decide
  | n + 10, h => omega

/-- **`serde_json::from_str` on an integer literal** (what `parse_param` hands the text of a number literal to): the JSON
    number whose value is exactly the integer spelled, for every spelling below 2^64 -/
theorem json_parse_integer_literal (ds : List Nat) (h : IntSpelling ds) (hv : digitsVal ds < 2 ^ 64) :
    Json.parse (ds.map digitChar) = some (.num (.pos (digitsVal ds))) := by
  have hp : Num.parsePrefix (ds.map digitChar) = some (.pos (digitsVal ds), []) := by
    unfold Num.parsePrefix
    split
    · exact parseExact_integer ds h hv
    · exact parseFast_integer ds h hv
  obtain ⟨hd, hne, _⟩ := h
  cases ds with
  | nil => exact absurd rfl hne
  | cons d t =>
    have hd0 := hd d (by simp)
    obtain ⟨hw, hn, ht, hf, hq, hb, hc⟩ := digitChar_facts d hd0
    have h1 := digitVal_digitChar d hd0
    simp only [List.map_cons] at hp
    have hfuel : 2 * (digitChar d :: t.map digitChar).length + 2 = (2 * (t.map digitChar).length + 3) + 1 := by
      simp only [List.length_cons]; omega
    simp only [Json.parse, List.map_cons, hfuel, parseJsonValue, skipJsonWs, List.dropWhile_cons, hw, Bool.false_eq_true, ↓reduceIte,
      hn, ht, hf, hq, hb, hc, h1, Option.isSome_some, Bool.or_true, hp, Option.map_some, List.dropWhile_nil, List.isEmpty_nil]

end Hbs
