import HbsModel.Lemmas.CompileValue
/-
  compile2 on  L ++ "{{#if v}}A{{/if}}" ++ W ++ R' : a helper block between texts.  Neither block tag is alone on its line (the
  body `A` stands directly behind the opening tag and directly in front of the closing tag), so nothing is trimmed.
-/
namespace Hbs.PlainText
open Hbs Hbs.Pest Hbs.Grammar

def ifSrc : Str := "{{#if v}}A{{/if}}".toList
def ifToks : List (Tok Rule) :=
  [⟨some .r_helper_block_start, 0, 9⟩, ⟨some .r_identifier, 3, 5⟩, ⟨some .r_helper_parameter, 6, 7⟩, ⟨some .r_reference, 6, 7⟩,
   ⟨some .r_path_inline, 6, 7⟩, ⟨some .r_path_id, 6, 7⟩, ⟨some .r_template, 9, 10⟩, ⟨some .r_raw_text, 9, 10⟩,
   ⟨some .r_helper_block_end, 10, 17⟩, ⟨some .r_identifier, 13, 15⟩]

theorem ifSrc_eq : ifSrc = ['{', '{', '#', 'i', 'f', ' ', 'v', '}', '}', 'A', '{', '{', '/', 'i', 'f', '}', '}'] := by decide

/-- decided on the regenerated grammar: the whole block – whatever follows – is ONE element of `template`, with these pairs -/
theorem if_decided : evalK rules ws false 400 .nonAtomic templateAlt 0 ifSrc = some (.ok 17 [] ifToks) :=
  KRes.isOkWith_eq (by decide)

theorem if_tagAt : TagAt ifSrc 400 ifToks := by
  intro p tail
  have := evalK_at rules ws rules_noSoi false tail (by simp) 400 .nonAtomic templateAlt rfl ifSrc _ if_decided p
  refine ⟨?_, by simp [shiftRes, embedK]⟩
  rw [this]
  simp [shiftRes, embedK, ifSrc_eq, Nat.add_comm]

/-- the pair stream of  L ++ {{#if v}}A{{/if}} ++ W ++ R' -/
theorem parse_text_if_text (L W R' : Str) (hL : L = [] ∨ TextBeforeTag L) (hA : TextAfterTag W R') :
    let a := L.length
    let b := a + 17
    let d := b + W.length
    let n := d + R'.length
    Pest.parse rules ws .r_handlebars (L ++ ifSrc ++ (W ++ R'))
      = .ok ⟨n, []⟩ (⟨some .r_template, 0, if R' = [] then b else n⟩ ::
          (rawTok 0 a ++ [⟨some .r_helper_block_start, a, a + 9⟩, ⟨some .r_identifier, a + 3, a + 5⟩,
              ⟨some .r_helper_parameter, a + 6, a + 7⟩, ⟨some .r_reference, a + 6, a + 7⟩, ⟨some .r_path_inline, a + 6, a + 7⟩,
              ⟨some .r_path_id, a + 6, a + 7⟩, ⟨some .r_template, a + 9, a + 10⟩, ⟨some .r_raw_text, a + 9, a + 10⟩,
              ⟨some .r_helper_block_end, a + 10, a + 17⟩, ⟨some .r_identifier, a + 13, a + 15⟩]
            ++ rawTok d n ++ [⟨none, n, n⟩])) := by
  intro a b d n
  have h := handlebars_text_tag_text L ['#', 'i', 'f', ' ', 'v', '}', '}', 'A', '{', '{', '/', 'i', 'f', '}', '}'] W R' 400 _ hL
    (by rw [← ifSrc_eq]; exact if_tagAt) hA
  have hn : (L ++ ifSrc ++ (W ++ R')).length = n := by simp [n, d, b, a, ifSrc_eq]; omega
  simp only [] at h
  rw [ifSrc_eq]
  rw [ifSrc_eq] at hn
  have h' := h.weaken (F' := defaultFuel (L ++ ['{', '{', '#', 'i', 'f', ' ', 'v', '}', '}', 'A', '{', '{', '/', 'i', 'f', '}', '}'] ++ (W ++ R')).length) (by
    unfold defaultFuel
    rw [hn]
    have : 17 ≤ n := by simp only [n, d, b]; omega
    omega)
  unfold Pest.parse
  refine Eq.trans h'.1 ?_
  have e1 : (L ++ '{' :: '{' :: ['#', 'i', 'f', ' ', 'v', '}', '}', 'A', '{', '{', '/', 'i', 'f', '}', '}'] ++ (W ++ R')).length = n := hn
  simp only [e1, ifToks, List.map, shiftTok, Nat.zero_add, List.length_cons, List.length_nil]
  simp only [Nat.add_comm _ L.length]
  rfl

/-- the helper block under construction after `{{#if v}}` -/
def ifOpen : HelperT :=
  HelperG.new { name := .name ['i', 'f'], params := [.path (Path.new ['v'] [.named ['v']])], hash := [], blockParam := none,
                omitPreWs := false, omitProWs := false } true false false

theorem step_if_start (src : Str) (opts : TemplateOptions) (f a : Nat) (T0 : Tmpl) (ep : Option Nat) (rest : List CTok)
    (hep : ep.getD 0 = a)
    (hid : tokStr src ⟨some .r_identifier, a + 3, a + 5, []⟩ = ['i', 'f'])
    (hv : tokStr src ⟨some .r_reference, a + 6, a + 7, []⟩ = ['v'])
    (hps : processStandalone [T0] src a (a + 9) true opts.isPartial = .ok (false, [T0])) :
    compileStep src opts (f + 6) { tmplStack := [T0], endPos := ep } ⟨some .r_helper_block_start, a, a + 9, []⟩
        (⟨some .r_identifier, a + 3, a + 5, []⟩ :: ⟨some .r_helper_parameter, a + 6, a + 7, []⟩ ::
         ⟨some .r_reference, a + 6, a + 7, []⟩ :: ⟨some .r_path_inline, a + 6, a + 7, []⟩ :: ⟨some .r_path_id, a + 6, a + 7, []⟩ ::
         ⟨some .r_template, a + 9, a + 10, []⟩ :: rest)
      = .ok ({ tmplStack := [T0.pushMapping (lineCol src a).1 (lineCol src a).2], helperStack := [ifOpen],
               endPos := some (a + 9) }, ⟨some .r_template, a + 9, a + 10, []⟩ :: rest) := by
  have hv' : tokStr src ⟨some .r_path_id, a + 6, a + 7, []⟩ = ['v'] := hv
  simp [compileStep, hep, isBlockStart, isExprLike, parseExpression, parseName, parseParam, parsePathSegs, parseExprLoop, hid, hv, hv',
    frontMut, ifOpen, str, hps, HelperG.new, dropInside]

theorem step_inner_template (src : Str) (opts : TemplateOptions) (fuel : Nat) (stk : List Tmpl) (hs : List HelperT) (p s e : Nat)
    (rest : List CTok) :
    compileStep src opts fuel { tmplStack := stk, helperStack := hs, endPos := some p } ⟨some .r_template, s, e, []⟩ rest
      = .ok ({ tmplStack := Tmpl.empty :: stk, helperStack := hs, endPos := some p }, rest) := by
  simp [compileStep, isBlockStart, isExprLike]

theorem step_inner_raw (src X : Str) (opts : TemplateOptions) (fuel : Nat) (T : Tmpl) (stk : List Tmpl) (hs : List HelperT) (s e : Nat)
    (rest : List CTok) (hsl : slice? src s e = some X) (hlen : e - s ≤ X.length) :
    compileStep src opts fuel { tmplStack := T :: stk, helperStack := hs, endPos := some s } ⟨some .r_raw_text, s, e, []⟩ rest
      = .ok ({ tmplStack := T.pushElement (.raw X) (lineCol src s).1 (lineCol src s).2 :: stk, helperStack := hs,
               endPos := some e }, rest) := by
  have hl : ¬ X.length < e - s := by omega
  simp [compileStep, hsl, rawString, removeEscapes, frontMut, hl]

/-- the finished block -/
def ifHT (body : Tmpl) : HelperT := { ifOpen with template := some body }

theorem step_if_end (src : Str) (opts : TemplateOptions) (f a : Nat) (T0 body : Tmpl) (r0 : CTok) (rest : List CTok)
    (hid : tokStr src ⟨some .r_identifier, a + 13, a + 15, []⟩ = ['i', 'f'])
    (hr0 : a + 17 ≤ r0.e)
    (hps : processStandalone [body, T0] src (a + 10) (a + 17) true opts.isPartial = .ok (false, [body, T0])) :
    compileStep src opts (f + 4) { tmplStack := [body, T0], helperStack := [ifOpen], endPos := some (a + 10) }
        ⟨some .r_helper_block_end, a + 10, a + 17, []⟩ (⟨some .r_identifier, a + 13, a + 15, []⟩ :: r0 :: rest)
      = .ok ({ tmplStack := [T0.pushElemOnly (.block (ifHT body))], endPos := some (a + 17) }, r0 :: rest) := by
  have h1 : ¬ (r0.e < a + 17) := by omega
  simp [compileStep, isBlockStart, isExprLike, parseExpression, parseName, parseExprLoop, hid, h1, frontMut, ifOpen, ifHT, str, hps,
    HelperG.new, revertChainAndSet, Param.asName?]

/-! ### the standalone-line rule next to text -/

theorem endsWithEmptyLine_text (X : Str) (c : Char) (hnb : isBlank c = false) (hnn : isNewline c = false) :
    endsWithEmptyLine (X ++ [c]) = false := by
  have ht : trimEndBlank (X ++ [c]) = X ++ [c] := by
    simp [trimEndBlank, dropWhileEnd, List.reverse_append, List.dropWhile_cons, hnb]
  simp [endsWithEmptyLine, ht, endsWithNewline, hnn]

/-- a tag directly followed by text on its line is not a standalone tag: nothing is trimmed -/
theorem processStandalone_text_follows (stk : List Tmpl) (src : Str) (s e : Nat) (pi isP : Bool) (c : Char) (t : Str)
    (hc : slice? src e src.length = some (c :: t)) (hnb : isBlank c = false) (hnn : isNewline c = false) :
    processStandalone stk src s e pi isP = .ok (false, stk) := by
  simp [processStandalone, hc, startsWithEmptyLine, trimStartBlank, List.dropWhile_cons, hnb, startsWithNewline, hnn]

/-- a tag directly preceded by text on its line is not a standalone tag either -/
theorem processStandalone_text_precedes (stk : List Tmpl) (src : Str) (s e : Nat) (isP : Bool) (X cont : Str) (c : Char)
    (hb : slice? src 0 s = some (X ++ [c])) (hs : s ≠ 0) (hcont : slice? src e src.length = some cont)
    (hnb : isBlank c = false) (hnn : isNewline c = false) :
    processStandalone stk src s e true isP = .ok (false, stk) := by
  have hs' : (s == 0) = false := by simpa using hs
  simp only [processStandalone, hcont, hb, endsWithEmptyLine_text X c hnb hnn]
  split <;> simp [hs']

theorem slice_middle (P X S : Str) : slice? (P ++ X ++ S) P.length (P.length + X.length) = some X := by
  simp [slice?, List.append_assoc]

/-- the body of the block as compile2 stores it: one text element, with the position of the text -/
def ifBody (lc : Nat × Nat) : Tmpl := Tmpl.empty.pushElement (.raw ['A']) lc.1 lc.2

/-- **compile2 on  L ++ {{#if v}}A{{/if}} ++ W ++ R'** : the text in front, ONE block element (helper `if`, parameter the path `v`,
    body the text `A`, no else branch), the text behind – nothing trimmed, for every `L`, `W`, `R'` -/
theorem compile_text_if_text (L W R' : Str) (opts : TemplateOptions)
    (hL : L = [] ∨ TextBeforeTag L) (hA : TextAfterTag W R') :
    ∃ m, compile2 (L ++ ifSrc ++ (W ++ R')) opts = .ok (.mk opts.name
      ((leftT L L).elements ++ [.block (ifHT (ifBody (lineCol (L ++ ifSrc ++ (W ++ R')) (L.length + 9))))]
        ++ (if W ++ R' = [] then [] else [.raw (W ++ R')])) m) := by
  have hparse := parse_text_if_text L W R' hL hA
  simp only [] at hparse
  have hn : (L ++ ifSrc ++ (W ++ R')).length = L.length + 17 + W.length + R'.length := by
    simp [ifSrc_eq]; omega
  have hs0 : slice? (L ++ ifSrc ++ (W ++ R')) 0 L.length = some L := by
    rw [List.append_assoc]; exact slice_prefix L _
  have hsR : slice? (L ++ ifSrc ++ (W ++ R')) (L.length + 17) (L ++ ifSrc ++ (W ++ R')).length = some (W ++ R') :=
    slice_suffix (L ++ ifSrc) (W ++ R') _ (by simp [ifSrc_eq])
  have hid1 : tokStr (L ++ ifSrc ++ (W ++ R')) ⟨some .r_identifier, L.length + 3, L.length + 5, []⟩ = ['i', 'f'] := by
    have : L ++ ifSrc ++ (W ++ R') = (L ++ ['{', '{', '#']) ++ ['i', 'f'] ++ ([' ', 'v', '}', '}', 'A', '{', '{', '/', 'i', 'f', '}', '}'] ++ (W ++ R')) := by
      simp [ifSrc_eq]
    rw [this]
    exact tokStr_mid (L ++ ['{', '{', '#']) ['i', 'f'] _ _ (by simp) (by simp)
  have hv : tokStr (L ++ ifSrc ++ (W ++ R')) ⟨some .r_reference, L.length + 6, L.length + 7, []⟩ = ['v'] := by
    have : L ++ ifSrc ++ (W ++ R') = (L ++ ['{', '{', '#', 'i', 'f', ' ']) ++ ['v'] ++ (['}', '}', 'A', '{', '{', '/', 'i', 'f', '}', '}'] ++ (W ++ R')) := by
      simp [ifSrc_eq]
    rw [this]
    exact tokStr_mid (L ++ ['{', '{', '#', 'i', 'f', ' ']) ['v'] _ _ (by simp) (by simp)
  have hid2 : tokStr (L ++ ifSrc ++ (W ++ R')) ⟨some .r_identifier, L.length + 13, L.length + 15, []⟩ = ['i', 'f'] := by
    have : L ++ ifSrc ++ (W ++ R') = (L ++ ['{', '{', '#', 'i', 'f', ' ', 'v', '}', '}', 'A', '{', '{', '/']) ++ ['i', 'f'] ++ (['}', '}'] ++ (W ++ R')) := by
      simp [ifSrc_eq]
    rw [this]
    exact tokStr_mid (L ++ ['{', '{', '#', 'i', 'f', ' ', 'v', '}', '}', 'A', '{', '{', '/']) ['i', 'f'] _ _ (by simp) (by simp)
  have hA1 : slice? (L ++ ifSrc ++ (W ++ R')) (L.length + 9) (L.length + 10) = some ['A'] := by
    have : L ++ ifSrc ++ (W ++ R') = (L ++ ['{', '{', '#', 'i', 'f', ' ', 'v', '}', '}']) ++ ['A'] ++ (['{', '{', '/', 'i', 'f', '}', '}'] ++ (W ++ R')) := by
      simp [ifSrc_eq]
    rw [this]
    have := slice_middle (L ++ ['{', '{', '#', 'i', 'f', ' ', 'v', '}', '}']) ['A'] (['{', '{', '/', 'i', 'f', '}', '}'] ++ (W ++ R'))
    simpa using this
  have hc1 : slice? (L ++ ifSrc ++ (W ++ R')) (L.length + 9) (L ++ ifSrc ++ (W ++ R')).length
      = some ('A' :: (['{', '{', '/', 'i', 'f', '}', '}'] ++ (W ++ R'))) := by
    have : L ++ ifSrc ++ (W ++ R') = (L ++ ['{', '{', '#', 'i', 'f', ' ', 'v', '}', '}']) ++ ('A' :: (['{', '{', '/', 'i', 'f', '}', '}'] ++ (W ++ R'))) := by
      simp [ifSrc_eq]
    rw [this]
    exact slice_suffix _ _ _ (by simp)
  have hb2 : slice? (L ++ ifSrc ++ (W ++ R')) 0 (L.length + 10) = some ((L ++ ['{', '{', '#', 'i', 'f', ' ', 'v', '}', '}']) ++ ['A']) := by
    have : L ++ ifSrc ++ (W ++ R') = ((L ++ ['{', '{', '#', 'i', 'f', ' ', 'v', '}', '}']) ++ ['A']) ++ (['{', '{', '/', 'i', 'f', '}', '}'] ++ (W ++ R')) := by
      simp [ifSrc_eq]
    rw [this]
    have := slice_prefix ((L ++ ['{', '{', '#', 'i', 'f', ' ', 'v', '}', '}']) ++ ['A']) (['{', '{', '/', 'i', 'f', '}', '}'] ++ (W ++ R'))
    simpa using this
  generalize hsrc : L ++ ifSrc ++ (W ++ R') = src at *
  have hps1 : processStandalone [leftT L L] src L.length (L.length + 9) true opts.isPartial = .ok (false, [leftT L L]) :=
    processStandalone_text_follows _ src _ _ _ _ 'A' _ hc1 (by decide) (by decide)
  have hps2 : ∀ (body : Tmpl) (T0 : Tmpl), processStandalone [body, T0] src (L.length + 10) (L.length + 17) true opts.isPartial
      = .ok (false, [body, T0]) := fun body T0 =>
    processStandalone_text_precedes _ src _ _ _ _ (W ++ R') 'A' hb2 (by omega) hsR (by decide) (by decide)
  obtain ⟨m, htail⟩ := loop_tail src W R' opts (3 * (rawTok 0 L.length).length + 3 * (rawTok (L.length + 17 + W.length) src.length).length + 57)
    (L.length + 17) (((leftT L L).pushMapping (lineCol src L.length).1 (lineCol src L.length).2).pushElemOnly
      (.block (ifHT (ifBody (lineCol src (L.length + 9)))))) false hn hsR
  refine ⟨m, ?_⟩
  unfold compile2 compile2Inner
  rw [hparse]
  simp only []
  rw [attachEscapes_noEsc _ (by
    intro t ht
    simp only [List.mem_cons, List.mem_append, List.not_mem_nil, or_false] at ht
    rcases ht with rfl | ((h | rfl | rfl | rfl | rfl | rfl | rfl | rfl | rfl | rfl | rfl) | h) | rfl
    · show ((some Rule.r_template : Option Rule) == some Rule.r_escape) = false; decide
    · exact rawTok_rule _ _ t h
    · show ((some Rule.r_helper_block_start : Option Rule) == some Rule.r_escape) = false; decide
    · show ((some Rule.r_identifier : Option Rule) == some Rule.r_escape) = false; decide
    · show ((some Rule.r_helper_parameter : Option Rule) == some Rule.r_escape) = false; decide
    · show ((some Rule.r_reference : Option Rule) == some Rule.r_escape) = false; decide
    · show ((some Rule.r_path_inline : Option Rule) == some Rule.r_escape) = false; decide
    · show ((some Rule.r_path_id : Option Rule) == some Rule.r_escape) = false; decide
    · show ((some Rule.r_template : Option Rule) == some Rule.r_escape) = false; decide
    · show ((some Rule.r_raw_text : Option Rule) == some Rule.r_escape) = false; decide
    · show ((some Rule.r_helper_block_end : Option Rule) == some Rule.r_escape) = false; decide
    · show ((some Rule.r_identifier : Option Rule) == some Rule.r_escape) = false; decide
    · exact rawTok_rule _ _ t h
    · show ((none : Option Rule) == some Rule.r_escape) = false; decide)]
  rw [← hn]
  simp only [List.map_cons, List.map_append, List.length_cons, List.length_append, List.length_map, List.map_nil, List.length_nil,
    List.append_assoc, List.cons_append, List.nil_append]
  rw [show 4 * ((rawTok 0 L.length).length + ((rawTok (L.length + 17 + W.length) src.length).length + (0 + 1) + 1 + 1 + 1 + 1 + 1 + 1 + 1 + 1 + 1 + 1) + 1) + 16
      = ((3 * (rawTok 0 L.length).length + 3 * (rawTok (L.length + 17 + W.length) src.length).length + 54
          + ((rawTok (L.length + 17 + W.length) src.length).length + 2)) + 6 + 1) + (1 + (rawTok 0 L.length).length) by omega]
  rw [loop_head src L opts _ _ _ hs0]
  obtain ⟨r0, rest, hrest, hr0⟩ := tail_head (L.length + 17) W.length src.length (by omega)
  have hep : (if L = [] then none else some L.length : Option Nat).getD 0 = L.length := by
    by_cases hLe : L = [] <;> simp [hLe]
  rw [hrest] at htail ⊢
  simp only [plainCTok]
  -- {{#if v}}
  have hstep1 := step_if_start src opts
    (3 * (rawTok 0 L.length).length + 3 * (rawTok (L.length + 17 + W.length) src.length).length + 54
      + ((rawTok (L.length + 17 + W.length) src.length).length + 2))
    L.length (leftT L L) _ (⟨some .r_raw_text, L.length + 9, L.length + 10, []⟩ :: ⟨some .r_helper_block_end, L.length + 10, L.length + 17, []⟩ ::
      ⟨some .r_identifier, L.length + 13, L.length + 15, []⟩ :: r0 :: rest) hep hid1 hv hps1
  rw [loop_step src opts _ (st1 L) _ _ _ _ (by unfold st1; exact hstep1)]
  -- the body's template and text
  rw [show 3 * (rawTok 0 L.length).length + 3 * (rawTok (L.length + 17 + W.length) src.length).length + 54
        + ((rawTok (L.length + 17 + W.length) src.length).length + 2) + 6
      = 3 * (rawTok 0 L.length).length + 3 * (rawTok (L.length + 17 + W.length) src.length).length + 54
        + ((rawTok (L.length + 17 + W.length) src.length).length + 2) + 4 + 1 + 1 by omega]
  rw [loop_step src opts _ _ _ _ _ _ (step_inner_template src opts _ _ _ _ _ _ _)]
  rw [loop_step src opts _ _ _ _ _ _ (step_inner_raw src ['A'] opts _ _ _ _ _ _ _ hA1 (by simp))]
  -- {{/if}}
  have hstep4 := step_if_end src opts
    (3 * (rawTok 0 L.length).length + 3 * (rawTok (L.length + 17 + W.length) src.length).length + 53
      + ((rawTok (L.length + 17 + W.length) src.length).length + 2))
    L.length ((leftT L L).pushMapping (lineCol src L.length).1 (lineCol src L.length).2) (ifBody (lineCol src (L.length + 9))) r0 rest hid2 hr0
    (hps2 _ _)
  rw [show 3 * (rawTok 0 L.length).length + 3 * (rawTok (L.length + 17 + W.length) src.length).length + 54
        + ((rawTok (L.length + 17 + W.length) src.length).length + 2) + 4
      = 3 * (rawTok 0 L.length).length + 3 * (rawTok (L.length + 17 + W.length) src.length).length + 53
        + ((rawTok (L.length + 17 + W.length) src.length).length + 2) + 4 + 1 by omega]
  rw [loop_step src opts _ _ _ _ _ _ (by have h4 := hstep4; unfold ifBody at h4; exact h4)]
  rw [show 3 * (rawTok 0 L.length).length + 3 * (rawTok (L.length + 17 + W.length) src.length).length + 53
        + ((rawTok (L.length + 17 + W.length) src.length).length + 2) + 4
      = 3 * (rawTok 0 L.length).length + 3 * (rawTok (L.length + 17 + W.length) src.length).length + 57
        + ((rawTok (L.length + 17 + W.length) src.length).length + 2) by omega]
  unfold ifBody at htail ⊢
  rw [htail]
  simp [Tmpl.pushElemOnly, Tmpl.pushMapping, Tmpl.elements]

end Hbs.PlainText
