import HbsModel.Lemmas.CompileValue
import HbsModel.Lemmas.TagsInText
/-
  compile2 on  S0 T1 S1 T2 … Tk Sk  for tags that push one element and touch no flag (value expressions of every
  bracket form): the texts and the elements, in order, nothing trimmed.
-/
namespace Hbs.PlainText
open Hbs Hbs.Pest Hbs.Grammar

/-- the tag's text stands at offset `a` of the source -/
def TagInSrc (src : Str) (a : Nat) (t : PTag) : Prop := slice? src a (a + t.len) = some t.src

/-- a tag with what compile2 makes of it: one iteration of the loop consumes its pairs and pushes `el`, directly
    (`step`) or after putting back skipped whitespace `W` in front of it (`stepGap`) -/
structure CTag where
  tag : PTag
  el : Elem
  noEsc : ∀ x ∈ tag.toks, (x.rule == some Rule.r_escape) = false
  nonempty : tag.toks ≠ []
  step : ∀ (src : Str) (opts : TemplateOptions) (f a : Nat) (T0 : Tmpl) (ep : Option Nat) (r0 : CTok) (rest : List CTok),
    TagInSrc src a tag → ep.getD 0 = a → a + tag.len ≤ r0.e →
    compileLoop src opts (f + 3 + 1) { tmplStack := [T0], endPos := ep } (tag.toks.map (fun x => plainCTok (shiftTok a x)) ++ r0 :: rest)
      = compileLoop src opts (f + 3) { tmplStack := [T0.pushElement el (lineCol src a).1 (lineCol src a).2], endPos := some (a + tag.len) } (r0 :: rest)
  stepGap : ∀ (src : Str) (opts : TemplateOptions) (f g a : Nat) (W : Str) (T0 : Tmpl) (r0 : CTok) (rest : List CTok),
    TagInSrc src a tag → a ≠ g → slice? src g a = some W → a + tag.len ≤ r0.e →
    compileLoop src opts (f + 3 + 1) { tmplStack := [T0], endPos := some g } (tag.toks.map (fun x => plainCTok (shiftTok a x)) ++ r0 :: rest)
      = compileLoop src opts (f + 3)
          { tmplStack := [(T0.pushElement (.raw W) (lineCol src a).1 (lineCol src a).2).pushElement el (lineCol src a).1 (lineCol src a).2],
            endPos := some (a + tag.len) } (r0 :: rest)

/-- the parse-level view of a list of compiled tags -/
def ptags (more : List (CTag × Str)) : List (PTag × Str) := more.map (fun q => (q.1.tag, q.2))

@[simp] theorem ptags_nil : ptags [] = [] := rfl
@[simp] theorem ptags_cons (t : CTag) (s : Str) (more : List (CTag × Str)) : ptags ((t, s) :: more) = (t.tag, s) :: ptags more := rfl

/-- the elements after a tag -/
def tailElems : Str → List (CTag × Str) → List Elem
  | s, [] => if s = [] then [] else [.raw s]
  | s, (t, s') :: more => (if s = [] then [] else [.raw s]) ++ [t.el] ++ tailElems s' more

theorem tailToks_e_ge : ∀ (more : List (PTag × Str)) (s : Str) (p : Nat), ∀ t ∈ tailToks p s more, p ≤ t.e := by
  intro more
  induction more with
  | nil =>
    intro s p t ht
    simp only [tailToks, rawTok] at ht
    split at ht
    · simp at ht
    · simp at ht; subst ht; simp
  | cons q more ih =>
    intro s p t ht
    obtain ⟨tg, s'⟩ := q
    simp only [tailToks, List.mem_append, List.mem_map] at ht
    rcases ht with (ht | ⟨u, _, rfl⟩) | ht
    · simp only [rawTok] at ht
      split at ht
      · simp at ht
      · simp at ht; subst ht; simp
    · simp [shiftTok]; omega
    · have := ih s' _ t ht; omega

theorem slice_mid (pre s post : Str) : slice? (pre ++ (s ++ post)) pre.length (pre.length + s.length) = some s := by
  simp [slice?]

theorem head_ge (l : List (Tok Rule)) (n p : Nat) (hl : ∀ t ∈ l, p ≤ t.e) (hn : p ≤ n) :
    ∃ r0 rest, l.map plainCTok ++ [plainCTok ⟨none, n, n⟩] = r0 :: rest ∧ p ≤ r0.e := by
  cases l with
  | nil => exact ⟨_, [], rfl, by simpa [plainCTok] using hn⟩
  | cons t l => exact ⟨plainCTok t, l.map plainCTok ++ [plainCTok ⟨none, n, n⟩], rfl, by simpa [plainCTok] using hl t (by simp)⟩

theorem tailSrc_cons (s : Str) (t : PTag) (s' : Str) (more : List (PTag × Str)) :
    tailSrc s ((t, s') :: more) = s ++ t.src ++ tailSrc s' more := rfl

/-- the loop of compile2 from just behind a tag to the end of the source, for any number of further tags -/
theorem loop_after_tag (opts : TemplateOptions) :
    ∀ (more : List (CTag × Str)) (s pre : Str) (T1 : Tmpl) (f : Nat), TextsOk s (ptags more) → 2 * more.length + 8 ≤ f →
      ∃ m, compileLoop (pre ++ tailSrc s (ptags more)) opts f { tmplStack := [T1], endPos := some pre.length }
          ((tailToks pre.length s (ptags more)).map plainCTok
            ++ [plainCTok ⟨none, (pre ++ tailSrc s (ptags more)).length, (pre ++ tailSrc s (ptags more)).length⟩])
        = .ok (.mk opts.name (T1.elements ++ tailElems s more) m) := by
  intro more
  induction more with
  | nil =>
    intro s pre T1 f hok hf
    obtain ⟨W, R', hsplit, hW, hR', hwl, hdw⟩ := ws_split_exists s
    simp only [ptags_nil, tailSrc, tailToks, tailElems, hwl]
    have hn : (pre ++ s).length = pre.length + W.length + R'.length := by rw [hsplit]; simp; omega
    have hR : slice? (pre ++ s) pre.length (pre ++ s).length = some (W ++ R') := by
      rw [← hsplit]; exact slice_suffix pre s _ rfl
    obtain ⟨f', rfl⟩ : ∃ f', f = f' + ((rawTok (pre.length + W.length) (pre ++ s).length).length + 2) := by
      have : (rawTok (pre.length + W.length) (pre ++ s).length).length ≤ 1 := by unfold rawTok; split <;> simp
      exact ⟨f - ((rawTok (pre.length + W.length) (pre ++ s).length).length + 2), by omega⟩
    obtain ⟨m, hm⟩ := loop_tail (pre ++ s) W R' opts f' pre.length T1 false hn hR
    refine ⟨m, ?_⟩
    have e : pre.length + s.length = (pre ++ s).length := by simp
    rw [e, hm, ← hsplit]
    simp
  | cons q more ih =>
    intro s pre T1 f hok hf
    obtain ⟨t, s'⟩ := q
    obtain ⟨hs, hrest⟩ := hok
    obtain ⟨W, R', hsplit, hW, hR', hwl, hdw⟩ := ws_split_exists s
    have hlen : s.length = W.length + R'.length := by rw [hsplit]; simp
    have hsrc : pre ++ tailSrc s (ptags ((t, s') :: more)) = (pre ++ s ++ t.tag.src) ++ tailSrc s' (ptags more) := by
      simp [tailSrc_cons, List.append_assoc]
    have hpre2 : (pre ++ s ++ t.tag.src).length = pre.length + s.length + t.tag.len := by simp [PTag.src_length]; omega
    generalize hsrcdef : pre ++ tailSrc s (ptags ((t, s') :: more)) = src at *
    have hnlen : src.length = pre.length + s.length + t.tag.len + (tailSrc s' (ptags more)).length := by
      rw [hsrc]; simp [PTag.src_length]; omega
    have hin : TagInSrc src (pre.length + s.length) t.tag := by
      have : src = (pre ++ s) ++ (t.tag.src ++ tailSrc s' (ptags more)) := by rw [hsrc]; simp [List.append_assoc]
      unfold TagInSrc
      rw [this, ← PTag.src_length]
      have := slice_mid (pre ++ s) t.tag.src (tailSrc s' (ptags more))
      simpa using this
    obtain ⟨r0, rest, hrestToks, hr0⟩ := head_ge (tailToks (pre.length + s.length + t.tag.len) s' (ptags more)) src.length
      (pre.length + s.length + t.tag.len) (tailToks_e_ge (ptags more) s' _) (by omega)
    obtain ⟨f2, rfl⟩ : ∃ f2, f = f2 + 2 := ⟨f - 2, by omega⟩
    have hIH := ih s' (pre ++ s ++ t.tag.src)
    rw [← hsrc, hpre2] at hIH
    simp only [ptags_cons, tailToks, tailElems, hwl, List.map_append, List.map_map, List.append_assoc]
    rw [hrestToks]
    rw [hrestToks] at hIH
    have hcomp : (plainCTok ∘ shiftTok (pre.length + s.length)) = (fun x => plainCTok (shiftTok (pre.length + s.length) x)) := rfl
    rw [hcomp]
    by_cases hse : s = []
    · subst hse
      have hW0 : W = [] := by
        have := congrArg List.length hsplit; simp at this; exact List.eq_nil_of_length_eq_zero (by omega)
      subst hW0
      simp only [List.length_nil, Nat.add_zero] at *
      have e1 : rawTok pre.length pre.length = [] := by simp [rawTok]
      obtain ⟨m, hm⟩ := hIH (T1.pushElement t.el (lineCol src pre.length).1 (lineCol src pre.length).2) (f2 + 1) hrest (by simp at hf; omega)
      refine ⟨m, ?_⟩
      have hstep := t.step src opts (f2 - 2) pre.length T1 (some pre.length) r0 rest hin rfl hr0
      simp only [e1, List.map_nil, List.nil_append, ↓reduceIte]
      rw [show f2 + 2 = f2 - 2 + 3 + 1 by simp at hf; omega, hstep, show f2 - 2 + 3 = f2 + 1 by simp at hf; omega, hm]
      simp [Tmpl.pushElement, Tmpl.elements]
    · have hslice : slice? src pre.length (pre.length + s.length) = some s := by
        have : src = pre ++ (s ++ (t.tag.src ++ tailSrc s' (ptags more))) := by rw [hsrc]; simp [List.append_assoc]
        rw [this]; exact slice_mid pre s _
      have hslen : s.length ≠ 0 := fun h => hse (List.eq_nil_of_length_eq_zero h)
      simp only [hse, ↓reduceIte]
      by_cases hR : R' = []
      · have hsW : s.length = W.length := by rw [hlen, hR]; simp
        have e1 : rawTok (pre.length + W.length) (pre.length + s.length) = [] := by simp [rawTok]; omega
        have hstep := t.stepGap src opts (f2 - 2) pre.length (pre.length + s.length) s T1 r0 rest hin (by omega) hslice hr0
        obtain ⟨m, hm⟩ := hIH ((T1.pushElement (.raw s) (lineCol src (pre.length + s.length)).1 (lineCol src (pre.length + s.length)).2).pushElement
          t.el (lineCol src (pre.length + s.length)).1 (lineCol src (pre.length + s.length)).2) (f2 + 1) hrest (by simp at hf; omega)
        refine ⟨m, ?_⟩
        simp only [e1, List.map_nil, List.nil_append]
        rw [show f2 + 2 = f2 - 2 + 3 + 1 by simp at hf; omega, hstep, show f2 - 2 + 3 = f2 + 1 by simp at hf; omega, hm]
        simp [Tmpl.pushElement, Tmpl.elements]
      · have hRlen : R'.length ≠ 0 := fun h => hR (List.eq_nil_of_length_eq_zero h)
        have e1 : rawTok (pre.length + W.length) (pre.length + s.length)
            = [⟨some .r_raw_text, pre.length + W.length, pre.length + s.length⟩] := by simp [rawTok]; omega
        have hstep1 := step_raw_after src s opts (f2 + 1)
          (t.tag.toks.map (fun x => plainCTok (shiftTok (pre.length + s.length) x)) ++ r0 :: rest)
          pre.length (pre.length + W.length) (pre.length + s.length) T1 false hslice (by omega)
        have hloop1 := loop_step src opts (f2 + 1) _ _ ⟨some .r_raw_text, pre.length + W.length, pre.length + s.length, []⟩ _ _ hstep1
        have hstep2 := t.step src opts (f2 - 3) (pre.length + s.length)
          (T1.pushElement (.raw s) (lineCol src (pre.length + W.length)).1 (lineCol src (pre.length + W.length)).2)
          (some (pre.length + s.length)) r0 rest hin rfl hr0
        obtain ⟨m, hm⟩ := hIH ((T1.pushElement (.raw s) (lineCol src (pre.length + W.length)).1 (lineCol src (pre.length + W.length)).2).pushElement
          t.el (lineCol src (pre.length + s.length)).1 (lineCol src (pre.length + s.length)).2) f2 hrest (by simp at hf; omega)
        refine ⟨m, ?_⟩
        simp only [e1, List.map_cons, List.map_nil, List.cons_append, List.nil_append]
        rw [show plainCTok (⟨some Rule.r_raw_text, pre.length + W.length, pre.length + s.length⟩ : Tok Rule)
            = ⟨some .r_raw_text, pre.length + W.length, pre.length + s.length, []⟩ from rfl]
        rw [show f2 + 2 = f2 + 1 + 1 by omega, hloop1]
        simp only [Bool.false_eq_true, ↓reduceIte]
        rw [show f2 + 1 = f2 - 3 + 3 + 1 by simp at hf; omega]
        rw [hstep2, show f2 - 3 + 3 = f2 by simp at hf; omega, hm]
        simp [Tmpl.pushElement, Tmpl.elements]

end Hbs.PlainText

namespace Hbs.PlainText
open Hbs Hbs.Pest Hbs.Grammar

theorem tailToks_len_ge : ∀ (more : List (CTag × Str)) (s : Str) (p : Nat), more.length ≤ (tailToks p s (ptags more)).length := by
  intro more
  induction more with
  | nil => intro s p; simp
  | cons q more ih =>
    intro s p
    obtain ⟨t, s'⟩ := q
    have := ih s' (p + s.length + t.tag.len)
    have hne : 1 ≤ t.tag.toks.length := by
      cases h : t.tag.toks with
      | nil => exact absurd h t.nonempty
      | cons a l => simp
    simp only [ptags_cons, tailToks, List.length_append, List.length_map, List.length_cons] at *
    omega

theorem tailToks_noEsc : ∀ (more : List (CTag × Str)) (s : Str) (p : Nat), ∀ x ∈ tailToks p s (ptags more), (x.rule == some Rule.r_escape) = false := by
  intro more
  induction more with
  | nil => intro s p x hx; exact rawTok_rule _ _ x hx
  | cons q more ih =>
    intro s p x hx
    obtain ⟨t, s'⟩ := q
    simp only [ptags_cons, tailToks, List.mem_append, List.mem_map] at hx
    rcases hx with (hx | ⟨u, hu, rfl⟩) | hx
    · exact rawTok_rule _ _ x hx
    · simpa [shiftTok] using t.noEsc u hu
    · exact ih s' _ x hx

/-- **compile2 on  S0 T1 S1 … Tk Sk** : the texts and the tags' elements in order; every text whole – the whitespace
    pest's implicit skipping dropped behind each tag is put back – and nothing trimmed -/
theorem compile_texts_tags (FT : Nat) (opts : TemplateOptions) (s0 : Str) (more : List (CTag × Str))
    (hFT : FT ≤ 170 ∨ FT ≤ 2 * (tailSrc s0 (ptags more)).length + 150)
    (hTs : ∀ q ∈ ptags more, TagAt q.1.src FT q.1.toks) (hok : TextsOk s0 (ptags more)) :
    ∃ m, compile2 (tailSrc s0 (ptags more)) opts = .ok (.mk opts.name (tailElems s0 more) m) := by
  cases more with
  | nil =>
    simp only [ptags_nil, tailSrc, tailElems]
    by_cases h0 : s0 = []
    · subst h0; exact ⟨[], by simpa using compile_empty opts⟩
    · exact ⟨[(1, 1)], by simpa [h0] using compile_plain s0 opts h0 hok⟩
  | cons q more =>
    obtain ⟨t, s1⟩ := q
    obtain ⟨hs0, hrest⟩ := hok
    have hparse := handlebars_texts_tags FT s0 (ptags ((t, s1) :: more)) hTs ⟨hs0, hrest⟩
    simp only [] at hparse
    have hsrc : tailSrc s0 (ptags ((t, s1) :: more)) = (s0 ++ t.tag.src) ++ tailSrc s1 (ptags more) := by simp [tailSrc_cons]
    generalize hsd : tailSrc s0 (ptags ((t, s1) :: more)) = src at *
    have hpre : (s0 ++ t.tag.src).length = s0.length + t.tag.len := by simp [PTag.src_length]
    have hnlen : src.length = s0.length + t.tag.len + (tailSrc s1 (ptags more)).length := by rw [hsrc]; simp [PTag.src_length]; omega
    have htl2 : 2 ≤ t.tag.len := by simp [PTag.len]
    have hs0s : slice? src 0 s0.length = some s0 := by rw [hsrc, List.append_assoc]; exact slice_prefix s0 _
    have hin : TagInSrc src s0.length t.tag := by
      have : src = s0 ++ (t.tag.src ++ tailSrc s1 (ptags more)) := by rw [hsrc]; simp [List.append_assoc]
      unfold TagInSrc
      rw [this, ← PTag.src_length]
      exact slice_mid s0 t.tag.src _
    have hP := (hparse.weaken (F' := defaultFuel src.length) (by unfold defaultFuel; rcases hFT with h | h <;> omega)).1
    obtain ⟨r0, rest, hrestToks, hr0⟩ := head_ge (tailToks (s0.length + t.tag.len) s1 (ptags more)) src.length (s0.length + t.tag.len)
      (tailToks_e_ge (ptags more) s1 _) (by omega)
    have hlenTail := tailToks_len_ge more s1 (s0.length + t.tag.len)
    have hne : 1 ≤ t.tag.toks.length := by
      cases h : t.tag.toks with
      | nil => exact absurd h t.nonempty
      | cons a l => simp
    have hIH := loop_after_tag opts more s1 (s0 ++ t.tag.src)
      ((leftT s0 s0).pushElement t.el (lineCol src s0.length).1 (lineCol src s0.length).2)
    rw [← hsrc, hpre] at hIH
    unfold compile2 compile2Inner Pest.parse
    rw [hP]
    simp only []
    rw [attachEscapes_noEsc _ (by
      intro x hx
      simp only [ptags_cons, topToks, List.mem_cons, List.mem_append, List.mem_map, List.not_mem_nil, or_false] at hx
      rcases hx with rfl | ((h | ⟨u, hu, rfl⟩) | h) | rfl
      · show ((some Rule.r_template : Option Rule) == some Rule.r_escape) = false; decide
      · exact rawTok_rule _ _ x h
      · simpa [shiftTok] using t.noEsc u hu
      · exact tailToks_noEsc more s1 _ x h
      · show ((none : Option Rule) == some Rule.r_escape) = false; decide)]
    simp only [ptags_cons, topToks, List.map_cons, List.map_append, List.map_map, List.map_nil, List.length_cons, List.length_append, List.length_map,
      List.append_assoc, List.cons_append, List.nil_append]
    have hcomp : (plainCTok ∘ shiftTok s0.length) = (fun x => plainCTok (shiftTok s0.length x)) := rfl
    rw [hcomp]
    obtain ⟨f3, hf3, hf3ge⟩ : ∃ f3, 4 * ((rawTok 0 s0.length).length + (t.tag.toks.length + ((tailToks (s0.length + t.tag.len) s1 (ptags more)).length + 1)) + 1) + 16
        = (f3 + 3 + 1) + (1 + (rawTok 0 s0.length).length) ∧ 2 * more.length + 8 ≤ f3 + 3 := by
      refine ⟨4 * ((rawTok 0 s0.length).length + (t.tag.toks.length + ((tailToks (s0.length + t.tag.len) s1 (ptags more)).length + 1)) + 1) + 16
        - (1 + (rawTok 0 s0.length).length) - 4, ?_, ?_⟩
      · have : (rawTok 0 s0.length).length ≤ 1 := by unfold rawTok; split <;> simp
        omega
      · have : (rawTok 0 s0.length).length ≤ 1 := by unfold rawTok; split <;> simp
        omega
    simp only [List.length_nil, Nat.zero_add] at hf3 ⊢
    rw [hf3]
    have hhead := loop_head src s0 opts (f3 + 3 + 1) (topEnd s0 ((t.tag, s1) :: ptags more))
      (t.tag.toks.map (fun x => plainCTok (shiftTok s0.length x))
        ++ ((tailToks (s0.length + t.tag.len) s1 (ptags more)).map plainCTok ++ [plainCTok ⟨none, src.length, src.length⟩])) hs0s
    rw [hhead]
    have hep : (if s0 = [] then none else some s0.length : Option Nat).getD 0 = s0.length := by
      by_cases h : s0 = [] <;> simp [h]
    have hstep := t.step src opts f3 s0.length (leftT s0 s0) _ r0 rest hin hep hr0
    obtain ⟨m, hm⟩ := hIH (f3 + 3) hrest hf3ge
    refine ⟨m, ?_⟩
    rw [hrestToks] at hm ⊢
    unfold st1
    rw [hstep, hm]
    simp [tailElems, leftT, Tmpl.pushElement, Tmpl.elements, Tmpl.empty]
    by_cases h : s0 = [] <;> simp [h, Tmpl.elements]

end Hbs.PlainText
