import HbsModel.Lemmas.Segments
/-
  A tag between two runs of text: the pair stream of `handlebars` for  L ++ T ++ W ++ R'  where T is any
  tag that `template`'s alternatives accept (hypothesis `TagAt`), W is the whitespace after it and R' the
  rest of the text.
-/
namespace Hbs.PlainText
open Hbs Hbs.Pest Hbs.Grammar

/-- `T` is one element of `template` wherever it stands and whatever follows it -/
def TagAt (T : Str) (F : Nat) (toks : List (Tok Rule)) : Prop :=
  ∀ (p : Nat) (tail : Str), E F .nonAtomic templateAlt ⟨p, T ++ tail⟩ (.ok ⟨p + T.length, tail⟩ (toks.map (shiftTok p)))

theorem TagAt.weaken' {T : Str} {F F' : Nat} {toks : List (Tok Rule)} (h : TagAt T F toks) (hle : F ≤ F') : TagAt T F' toks :=
  fun p tail => (h p tail).weaken hle

/-- the text after the tag: whitespace `W`, then `R'` which is empty or starts with a non-whitespace character -/
structure TextAfterTag (W R' : Str) : Prop where
  ws : ∀ c ∈ W, isPestWs c = true
  rest : R' = [] ∨ ∃ c r, R' = c :: r ∧ isPestWs c = false
  noOpen : noOpen R'

theorem split_ws (c : Str) : c = c.takeWhile isPestWs ++ c.dropWhile isPestWs := (List.takeWhile_append_dropWhile).symm

theorem takeWhile_ws (c : Str) : ∀ ch ∈ c.takeWhile isPestWs, isPestWs ch = true := by
  induction c with
  | nil => intro ch h; simp at h
  | cons a c ih =>
    intro ch h
    by_cases ha : isPestWs a = true
    · simp only [List.takeWhile, ha, List.mem_cons] at h
      rcases h with rfl | h
      · exact ha
      · exact ih ch h
    · simp [List.takeWhile, ha] at h

theorem dropWhile_ws_head (c : Str) : c.dropWhile isPestWs = [] ∨ ∃ x r, c.dropWhile isPestWs = x :: r ∧ isPestWs x = false := by
  cases h : c.dropWhile isPestWs with
  | nil => left; rfl
  | cons x r =>
    right; refine ⟨x, r, rfl, ?_⟩
    have := List.head_dropWhile_not isPestWs (l := c) (by simp [h])
    simpa [h] using this


/-- any text without `{{` splits into the whitespace pest skips and the rest -/
theorem textAfterTag_split (R : Str) (hR : noOpen R) :
    TextAfterTag (R.takeWhile isPestWs) (R.dropWhile isPestWs) :=
  ⟨takeWhile_ws R, dropWhile_ws_head R, noOpen_dropWhile _ R hR⟩


def rawTok (a b : Nat) : List (Tok Rule) := if a = b then [] else [⟨some .r_raw_text, a, b⟩]

/-- the elements after the tag -/
theorem tail_after_tag (W R' : Str) (h : TextAfterTag W R') (p : Nat) :
    ∃ stEnd, E (W.length + R'.length + 100) .nonAtomic (.starTail templateAlt) ⟨p, W ++ R'⟩
        (.ok stEnd (rawTok (p + W.length) (p + W.length + R'.length)))
      ∧ E (W.length + 6) .nonAtomic .skip stEnd (.ok ⟨p + W.length + R'.length, []⟩ [])
      ∧ stEnd.pos = (if R' = [] then p else p + W.length + R'.length) := by
  have hskip := skip_run W R' h.ws h.rest p
  by_cases hR : R' = []
  · subst hR
    refine ⟨⟨p, W ++ []⟩, ?_, ?_, by simp⟩
    · have := Ev.starTail_stop (F := W.length + 60) (hskip.weaken (by omega)) ((alt_fails_eoi .nonAtomic (p + W.length)).weaken (by omega))
      simpa [rawTok] using this.weaken (by omega)
    · simpa using hskip
  · have hraw := raw_text_to_eoi R' hR h.noOpen (p + W.length)
    have halt := alt_of_raw_text _ _ _ _ hraw
    have hstop : E 61 .nonAtomic (.starTail templateAlt) ⟨p + W.length + R'.length, []⟩ (.ok ⟨p + W.length + R'.length, []⟩ []) :=
      Ev.starTail_stop (F := 60) ((skip_eoi .nonAtomic _).weaken (by omega)) (alt_fails_eoi .nonAtomic _)
    have hlen : R'.length ≠ 0 := fun h0 => hR (List.eq_nil_of_length_eq_zero h0)
    have hstep := Ev.starTail_step (F := W.length + R'.length + 80) (hskip.weaken (by omega)) (halt.weaken (by omega))
      (by simp; omega) (hstop.weaken (by omega))
    refine ⟨⟨p + W.length + R'.length, []⟩, ?_, ?_, by simp [hR]⟩
    · have e : rawTok (p + W.length) (p + W.length + R'.length) = [⟨some .r_raw_text, p + W.length, p + W.length + R'.length⟩] := by
        simp [rawTok]; omega
      rw [e]
      simpa using hstep.weaken (by omega)
    · exact (skip_eoi .nonAtomic _).weaken (by omega)

/-- no implicit whitespace in front of `{` -/
theorem skip_at_brace (p : Nat) (r : Str) : E 6 .nonAtomic .skip ⟨p, '{' :: r⟩ (.ok ⟨p, '{' :: r⟩ []) :=
  Ev.skip_none (F := 5) ((ws_char_fail '{' r p (by decide)).weaken (by omega))

/-- **the pair stream of  L ++ T ++ W ++ R'** -/
theorem handlebars_text_tag_text (L T' W R' : Str) (FT : Nat) (toks : List (Tok Rule))
    (hL : L = [] ∨ TextBeforeTag L) (hT : TagAt ('{' :: '{' :: T') FT toks) (hA : TextAfterTag W R') :
    let T := '{' :: '{' :: T'
    let src := L ++ T ++ (W ++ R')
    let n := src.length
    let e := if R' = [] then L.length + T.length else n
    E (n + FT + 200) .nonAtomic (.rule .r_handlebars) ⟨0, src⟩
      (.ok ⟨n, []⟩ (⟨some .r_template, 0, e⟩ ::
        (rawTok 0 L.length ++ toks.map (shiftTok L.length)
          ++ rawTok (L.length + T.length + W.length) (L.length + T.length + W.length + R'.length)
          ++ [⟨none, n, n⟩]))) := by
  intro T src n e
  have hn : n = L.length + T.length + W.length + R'.length := by simp [n, src, T]; omega
  obtain ⟨stEnd, htail, hskipEnd, hpos⟩ := tail_after_tag W R' hA (L.length + T.length)
  have htag := hT L.length (W ++ R')
  -- the repetition of template
  have hrep : E (n + FT + 150) .nonAtomic (.rep templateAlt) ⟨0, src⟩
      (.ok stEnd (rawTok 0 L.length ++ toks.map (shiftTok L.length)
          ++ rawTok (L.length + T.length + W.length) (L.length + T.length + W.length + R'.length))) := by
    by_cases hLe : L = []
    · subst hLe
      have := Ev.rep_some (F := n + FT + 149) (htag.weaken (by omega)) (htail.weaken (by omega))
      simpa [rawTok, src, T] using this
    · have hLt : TextBeforeTag L := hL.resolve_left hLe
      have hraw := raw_text_before_tag L (T' ++ (W ++ R')) hLe hLt 0
      have halt := alt_of_raw_text _ _ _ _ hraw
      have hLlen : L.length ≠ 0 := fun h0 => hLe (List.eq_nil_of_length_eq_zero h0)
      have hstep := Ev.starTail_step (F := n + FT + 140) (st := ⟨0 + L.length, '{' :: '{' :: (T' ++ (W ++ R'))⟩)
        ((skip_at_brace _ _).weaken (by omega)) (by simpa [T] using htag.weaken (F' := n + FT + 140) (by omega))
        (by simp [T]) (htail.weaken (by omega))
      have := Ev.rep_some (F := n + FT + 149) (halt.weaken (by simp [n, src, T] at *; omega)) (hstep.weaken (by omega))
      have e1 : rawTok 0 L.length = [⟨some .r_raw_text, 0, L.length⟩] := by simp [rawTok]; omega
      rw [e1]
      simpa [src, T, List.append_assoc] using this
  have htmpl := Ev.rule_ok (G := rules) (ws := ws) (atom := .nonAtomic) (r := Rule.r_template) (F := n + FT + 150)
    (st := ⟨0, src⟩) (st' := stEnd) (by simpa [template_def, innerAtom] using hrep)
  have hty : (rules .r_template).ty = .normal := rfl
  simp only [hty] at htmpl
  have hse : stEnd.pos = e := by rw [hpos]; simp only [e]; split <;> simp_all
  rw [hse] at htmpl
  have hseq := Ev.seq_ok (F := n + FT + 151) (b := .builtin .eoi) (htmpl.weaken (by omega))
    (by rw [← hn] at hskipEnd; exact hskipEnd.weaken (by omega)) (Ev.eoi_ok (F := n + FT + 150) (p := n))
  have hh := Ev.rule_ok (G := rules) (ws := ws) (atom := .nonAtomic) (r := Rule.r_handlebars) (F := n + FT + 152)
    (st := ⟨0, src⟩) (st' := ⟨n, []⟩) (by simpa [handlebars_def, innerAtom] using hseq)
  have hty2 : (rules .r_handlebars).ty = .silent := rfl
  simp only [hty2] at hh
  simpa [List.append_assoc] using hh.weaken (F' := n + FT + 200) (by omega)

end Hbs.PlainText
