import HbsModel.Lemmas.RM
/-
  The relational companion of Lemmas/Induct: two runs of the renderer with registries that differ in
  the strict flag only.  A relation on render computations that is reflexive, closed under the
  combinators, and accepts "the strict side throws" holds between the strict and the non-strict
  instance of EVERY function of the mutual block.
-/
namespace Hbs
open RM

def Registry.withStrict (r : Registry) (b : Bool) : Registry := { r with strict := b }

@[simp] theorem withStrict_strict (r : Registry) (b : Bool) : (r.withStrict b).strict = b := rfl
@[simp] theorem withStrict_helpers (r : Registry) (b : Bool) : (r.withStrict b).helpers = r.helpers := rfl
@[simp] theorem withStrict_decorators (r : Registry) (b : Bool) : (r.withStrict b).decorators = r.decorators := rfl
@[simp] theorem withStrict_templates (r : Registry) (b : Bool) : (r.withStrict b).templates = r.templates := rfl
@[simp] theorem withStrict_escape (r : Registry) (b : Bool) : (r.withStrict b).escape = r.escape := rfl
@[simp] theorem withStrict_dev (r : Registry) (b : Bool) : (r.withStrict b).dev = r.dev := rfl
@[simp] theorem withStrict_sources (r : Registry) (b : Bool) : (r.withStrict b).sources = r.sources := rfl
@[simp] theorem withStrict_preventIndent (r : Registry) (b : Bool) : (r.withStrict b).preventIndent = r.preventIndent := rfl
@[simp] theorem doEscape_withStrict (r : Registry) (b : Bool) (rc : RC) (s : Str) :
    doEscape (r.withStrict b) rc s = doEscape r rc s := rfl

/-- the reasons strict mode adds: a path that designates nothing, a required helper parameter bound to one -/
def StrictKind (r : RReason) : Prop := (∃ p, r = .missingVariable p) ∨ (∃ n p, r = .paramNotFoundForName n p)

theorem strictKind_strictError (p : Option Str) : StrictKind (strictError p).reason := Or.inl ⟨p, rfl⟩

theorem StrictKind.ne_unimplemented {r : RReason} (h : StrictKind r) : (r == RReason.unimplemented) = false := by
  rcases h with ⟨p, rfl⟩ | ⟨n, p, rfl⟩ <;> exact beq_eq_false_iff_ne.mpr (by intro h; cases h)

structure RMRel where
  R : {α : Type} → RM α → RM α → Prop
  refl : ∀ {α : Type} (x : RM α), R x x
  bnd : ∀ {α β : Type} (x x' : RM α) (f f' : α → RM β), R x x' → (∀ a, R (f a) (f' a)) → R (RM.bnd x f) (RM.bnd x' f')
  mapErr : ∀ {α : Type} (x x' : RM α) (g : RenderError → RenderError), (∀ e, (g e).reason = e.reason) → R x x' → R (RM.mapErr x g) (RM.mapErr x' g)
  captured : ∀ {α : Type} (x x' : RM α), R x x' → R (RM.captured x) (RM.captured x')
  bracket : ∀ {α : Type} (enter : RC → RC) (x x' : RM α) (leave : RC → RC → RC), R x x' →
    R (RM.bracket enter x leave) (RM.bracket enter x' leave)
  /-- the one place the two runs may differ: the strict side throws -/
  throwL : ∀ {α : Type} (e : RenderError) (y : RM α), StrictKind e.reason → R (RM.throw e) y

end Hbs

namespace Hbs
open RM

theorem macroParams_mono (sig : MacroSig) (h : HelperI) (ps : List (Str × TyTok)) (idx : Nat) (acc v : List Json)
    (hs : macroParams true sig h ps idx acc = .ok v) : macroParams false sig h ps idx acc = .ok v := by
  induction ps generalizing idx acc with
  | nil => simpa [macroParams] using hs
  | cons p rest ih =>
    obtain ⟨pname, ty⟩ := p
    simp only [macroParams] at hs ⊢
    cases hx : h.params[idx]? with
    | none => simp [hx] at hs
    | some x =>
      simp only [hx] at hs ⊢
      by_cases hm : x.isMissing = true
      · simp [hm] at hs
      · simp only [Bool.true_and, hm] at hs
        simp only [Bool.false_and]
        cases hv : asJsonValue ty x.json with
        | none => simp [hv] at hs
        | some v' => simp only [hv] at hs ⊢; exact ih _ _ hs

theorem binaryExtra_mono (hname : Str) (h : HelperI) (f : Json → Json → Bool) (v : SJ)
    (hs : binaryExtra true hname h f = .ok v) : binaryExtra false hname h f = .ok v := by
  unfold binaryExtra at hs ⊢
  simp only [] at hs ⊢
  cases hp : macroParams true { name := hname, params := [(str "x", .tJson), (str "y", .tJson)], opts := [], args := false, kwargs := false } h [(str "x", .tJson), (str "y", .tJson)] 0 [] with
  | error e => rw [hp] at hs; simp at hs
  | ok l => rw [macroParams_mono _ _ _ _ _ _ hp]; rw [hp] at hs; exact hs

theorem unaryExtra_mono (hname : Str) (h : HelperI) (f : Json → Json) (v : SJ)
    (hs : unaryExtra true hname h f = .ok v) : unaryExtra false hname h f = .ok v := by
  unfold unaryExtra at hs ⊢
  simp only [] at hs ⊢
  cases hp : macroParams true { name := hname, params := [(str "x", .tJson)], opts := [], args := false, kwargs := false } h [(str "x", .tJson)] 0 [] with
  | error e => rw [hp] at hs; simp at hs
  | ok l => rw [macroParams_mono _ _ _ _ _ _ hp]; rw [hp] at hs; exact hs

theorem macroCallInner_mono (sig : MacroSig) (h : HelperI) (v : Json)
    (hs : macroCallInner true sig h = .ok v) : macroCallInner false sig h = .ok v := by
  unfold macroCallInner at hs ⊢
  cases hp : macroParams true sig h sig.params 0 [] with
  | error e => rw [hp] at hs; simp at hs
  | ok l => rw [macroParams_mono _ _ _ _ _ _ hp]; rw [hp] at hs; exact hs

theorem lookup_aux (w : Option Json) (v : SJ)
    (hs : (if (true && w.isNone) = true then Except.error (RReason.missingVariable none)
           else Except.ok (SJ.derived (w.getD .null))) = Except.ok v) :
    (if (false && w.isNone) = true then Except.error (RReason.missingVariable none)
     else Except.ok (SJ.derived (w.getD .null))) = Except.ok v := by
  cases w <;> simp_all

/-- value helpers: a strict call that succeeds is the non-strict call -/
theorem callInner_mono (reg : Registry) (k : HelperKind) (h : HelperI) (v : SJ)
    (hs : callInner (reg.withStrict true) k h = .ok v) : callInner (reg.withStrict false) k h = .ok v := by
  unfold callInner at hs ⊢
  simp only [withStrict_strict] at hs ⊢
  cases k <;> simp only [] at hs ⊢
  case lookup =>
    split at hs
    · simp at hs
    · simp at hs
    · exact lookup_aux _ _ hs
  case eq => exact binaryExtra_mono _ _ _ _ hs
  case ne => exact binaryExtra_mono _ _ _ _ hs
  case gt => exact binaryExtra_mono _ _ _ _ hs
  case gte => exact binaryExtra_mono _ _ _ _ hs
  case lt => exact binaryExtra_mono _ _ _ _ hs
  case lte => exact binaryExtra_mono _ _ _ _ hs
  case notH => exact unaryExtra_mono _ _ _ _ hs
  case len => exact unaryExtra_mono _ _ _ _ hs
  case macroH sig =>
    cases hm : macroCallInner true sig h with
    | error e => rw [hm] at hs; simp at hs
    | ok j => rw [macroCallInner_mono _ _ _ hm]; rw [hm] at hs; exact hs
  all_goals exact hs

/-- strict differs from non-strict only by failing with "parameter not found" -/
theorem macroParams_cases (sig : MacroSig) (h : HelperI) (ps : List (Str × TyTok)) (idx : Nat) (acc : List Json) :
    macroParams true sig h ps idx acc = macroParams false sig h ps idx acc ∨
    ∃ n p, macroParams true sig h ps idx acc = .error (.paramNotFoundForName n p) := by
  induction ps generalizing idx acc with
  | nil => left; simp [macroParams]
  | cons p rest ih =>
    obtain ⟨pname, ty⟩ := p
    simp only [macroParams]
    cases hx : h.params[idx]? with
    | none => left; rfl
    | some x =>
      simp only []
      by_cases hm : x.isMissing = true
      · right; exact ⟨sig.name, pname, by simp [hm]⟩
      · simp only [Bool.true_and, hm, Bool.false_and]
        cases hv : asJsonValue ty x.json with
        | none => left; rfl
        | some v' => simp only []; exact ih _ _

theorem binaryExtra_cases (hname : Str) (h : HelperI) (f : Json → Json → Bool) :
    binaryExtra true hname h f = binaryExtra false hname h f ∨
    ∃ n p, binaryExtra true hname h f = .error (.paramNotFoundForName n p) := by
  unfold binaryExtra
  simp only []
  rcases macroParams_cases { name := hname, params := [(str "x", .tJson), (str "y", .tJson)], opts := [], args := false, kwargs := false } h [(str "x", .tJson), (str "y", .tJson)] 0 [] with heq | ⟨n, p, he⟩
  · left; rw [heq]
  · right; exact ⟨n, p, by rw [he]⟩

theorem unaryExtra_cases (hname : Str) (h : HelperI) (f : Json → Json) :
    unaryExtra true hname h f = unaryExtra false hname h f ∨
    ∃ n p, unaryExtra true hname h f = .error (.paramNotFoundForName n p) := by
  unfold unaryExtra
  simp only []
  rcases macroParams_cases { name := hname, params := [(str "x", .tJson)], opts := [], args := false, kwargs := false } h [(str "x", .tJson)] 0 [] with heq | ⟨n, p, he⟩
  · left; rw [heq]
  · right; exact ⟨n, p, by rw [he]⟩

theorem macroCallInner_cases (sig : MacroSig) (h : HelperI) :
    macroCallInner true sig h = macroCallInner false sig h ∨
    ∃ n p, macroCallInner true sig h = .error (.paramNotFoundForName n p) := by
  unfold macroCallInner
  rcases macroParams_cases sig h sig.params 0 [] with heq | ⟨n, p, he⟩
  · left; rw [heq]
  · right; exact ⟨n, p, by rw [he]⟩

theorem pnf_ne_unimpl (n p : Str) : (RReason.paramNotFoundForName n p == RReason.unimplemented) = false :=
  beq_eq_false_iff_ne.mpr (by intro h; cases h)

theorem lookup_aux2 (w : Option Json) :
    (if (true && w.isNone) = true then (Except.error (RReason.missingVariable none) : Except RReason SJ)
     else Except.ok (SJ.derived (w.getD .null))) =
    (if (false && w.isNone) = true then Except.error (RReason.missingVariable none)
     else Except.ok (SJ.derived (w.getD .null))) ∨
    ∃ e, (if (true && w.isNone) = true then (Except.error (RReason.missingVariable none) : Except RReason SJ)
     else Except.ok (SJ.derived (w.getD .null))) = .error e ∧ StrictKind e := by
  cases w
  · right; exact ⟨_, rfl, Or.inl ⟨none, rfl⟩⟩
  · left; rfl

/-- value helpers: the strict call agrees with the non-strict one, or fails with a strict-mode error
    (never with the `unimplemented` marker the default `call` swallows) -/
theorem callInner_cases (reg : Registry) (k : HelperKind) (h : HelperI) :
    callInner (reg.withStrict true) k h = callInner (reg.withStrict false) k h ∨
    ∃ e, callInner (reg.withStrict true) k h = .error e ∧ StrictKind e := by
  unfold callInner
  simp only [withStrict_strict]
  cases k <;> simp only []
  case lookup =>
    split
    · left; rfl
    · left; rfl
    · exact lookup_aux2 _
  case eq => rcases binaryExtra_cases (str "eq") h (fun x y => Json.beq x y) with heq | ⟨n, p, he⟩
             · exact Or.inl heq
             · exact Or.inr ⟨_, he, Or.inr ⟨n, p, rfl⟩⟩
  case ne => rcases binaryExtra_cases (str "ne") h (fun x y => !Json.beq x y) with heq | ⟨n, p, he⟩
             · exact Or.inl heq
             · exact Or.inr ⟨_, he, Or.inr ⟨n, p, rfl⟩⟩
  case gt => rcases binaryExtra_cases (str "gt") h (fun x y => compareJson x y == some .gt) with heq | ⟨n, p, he⟩
             · exact Or.inl heq
             · exact Or.inr ⟨_, he, Or.inr ⟨n, p, rfl⟩⟩
  case gte => rcases binaryExtra_cases (str "gte") h (fun x y => match compareJson x y with | some o => o != .lt | none => false) with heq | ⟨n, p, he⟩
              · exact Or.inl heq
              · exact Or.inr ⟨_, he, Or.inr ⟨n, p, rfl⟩⟩
  case lt => rcases binaryExtra_cases (str "lt") h (fun x y => compareJson x y == some .lt) with heq | ⟨n, p, he⟩
             · exact Or.inl heq
             · exact Or.inr ⟨_, he, Or.inr ⟨n, p, rfl⟩⟩
  case lte => rcases binaryExtra_cases (str "lte") h (fun x y => match compareJson x y with | some o => o != .gt | none => false) with heq | ⟨n, p, he⟩
              · exact Or.inl heq
              · exact Or.inr ⟨_, he, Or.inr ⟨n, p, rfl⟩⟩
  case notH => rcases unaryExtra_cases (str "not") h (fun x => .bool (!x.truthy false)) with heq | ⟨n, p, he⟩
               · exact Or.inl heq
               · exact Or.inr ⟨_, he, Or.inr ⟨n, p, rfl⟩⟩
  case len => rcases unaryExtra_cases (str "len") h (fun x => .num (.pos (jsonLen x))) with heq | ⟨n, p, he⟩
              · exact Or.inl heq
              · exact Or.inr ⟨_, he, Or.inr ⟨n, p, rfl⟩⟩
  case macroH sig =>
    rcases macroCallInner_cases sig h with heq | ⟨n, p, he⟩
    · left; rw [heq]
    · right; exact ⟨_, by rw [he], Or.inr ⟨n, p, rfl⟩⟩
  all_goals first | exact Or.inl rfl | exact Or.inl trivial

end Hbs


namespace Hbs
open RM
namespace RMRel
variable (R : RMRel)

theorem throwRL {α : Type} (r : RReason) (y : RM α) (h : StrictKind r) : R.R (RM.throwR r) y := R.throwL _ y h

theorem withBlock {α : Type} (b : Block) (x x' : RM α) (h : R.R x x') : R.R (RM.withBlock b x) (RM.withBlock b x') :=
  R.bracket _ x x' _ h
theorem escOffReset {α : Type} (x x' : RM α) (h : R.R x x') : R.R (RM.escOffReset x) (RM.escOffReset x') :=
  R.bracket _ x x' _ h
theorem escOffSaved {α : Type} (x x' : RM α) (h : R.R x x') : R.R (RM.escOffSaved x) (RM.escOffSaved x') :=
  R.bracket _ x x' _ h
theorem partialScope (isPB : Bool) (merged : Json) (indent : Option Str) (pb : Option Tmpl) (x x' : RM Unit) (h : R.R x x') :
    R.R (RM.partialScope isPB merged indent pb x) (RM.partialScope isPB merged indent pb x') :=
  R.bracket _ x x' _ h

theorem ite {α : Type} {c : Prop} [Decidable c] (a b a' b' : RM α) (h1 : R.R a a') (h2 : R.R b b') :
    R.R (if c then a else b) (if c then a' else b') := by
  by_cases h : c <;> simp only [h, ↓reduceIte] <;> assumption

/-- the relation holds between the strict and the non-strict instance of every function, at a given fuel -/
structure All (reg : Registry) (root : Json) (fuel : Nat) : Prop where
  expandAsName : ∀ p, R.R (Hbs.expandAsName (reg.withStrict true) root fuel p) (Hbs.expandAsName (reg.withStrict false) root fuel p)
  expandParam : ∀ p, R.R (Hbs.expandParam (reg.withStrict true) root fuel p) (Hbs.expandParam (reg.withStrict false) root fuel p)
  expandParams : ∀ ps, R.R (Hbs.expandParams (reg.withStrict true) root fuel ps) (Hbs.expandParams (reg.withStrict false) root fuel ps)
  expandHash : ∀ ps, R.R (Hbs.expandHash (reg.withStrict true) root fuel ps) (Hbs.expandHash (reg.withStrict false) root fuel ps)
  helperFromTemplate : ∀ ht, R.R (Hbs.helperFromTemplate (reg.withStrict true) root fuel ht) (Hbs.helperFromTemplate (reg.withStrict false) root fuel ht)
  decoFromTemplate : ∀ dt, R.R (Hbs.decoFromTemplate (reg.withStrict true) root fuel dt) (Hbs.decoFromTemplate (reg.withStrict false) root fuel dt)
  callHelperForValue : ∀ d h, R.R (Hbs.callHelperForValue (reg.withStrict true) root fuel d h) (Hbs.callHelperForValue (reg.withStrict false) root fuel d h)
  callHelper : ∀ d h, R.R (Hbs.callHelper (reg.withStrict true) root fuel d h) (Hbs.callHelper (reg.withStrict false) root fuel d h)
  eachLoop : ∀ t h p len items, R.R (Hbs.eachLoop (reg.withStrict true) root fuel t h p len items) (Hbs.eachLoop (reg.withStrict false) root fuel t h p len items)
  renderHelper : ∀ ht, R.R (Hbs.renderHelper (reg.withStrict true) root fuel ht) (Hbs.renderHelper (reg.withStrict false) root fuel ht)
  renderElem : ∀ e, R.R (Hbs.renderElem (reg.withStrict true) root fuel e) (Hbs.renderElem (reg.withStrict false) root fuel e)
  renderExpression : ∀ ht, R.R (Hbs.renderExpression (reg.withStrict true) root fuel ht) (Hbs.renderExpression (reg.withStrict false) root fuel ht)
  evalDecorator : ∀ dt, R.R (Hbs.evalDecorator (reg.withStrict true) root fuel dt) (Hbs.evalDecorator (reg.withStrict false) root fuel dt)
  evalElems : ∀ tn es m, R.R (Hbs.evalElems (reg.withStrict true) root fuel tn es m) (Hbs.evalElems (reg.withStrict false) root fuel tn es m)
  renderElems : ∀ tn es m, R.R (Hbs.renderElems (reg.withStrict true) root fuel tn es m) (Hbs.renderElems (reg.withStrict false) root fuel tn es m)
  renderTemplate : ∀ t, R.R (Hbs.renderTemplate (reg.withStrict true) root fuel t) (Hbs.renderTemplate (reg.withStrict false) root fuel t)
  expandPartial : ∀ d, R.R (Hbs.expandPartial (reg.withStrict true) root fuel d) (Hbs.expandPartial (reg.withStrict false) root fuel d)

macro "rel_auto" R:ident ih:ident : tactic => `(tactic|
  repeat' with_reducible first
    | exact ($R).refl _
    | exact ($R).throwL _ _ (strictKind_strictError _)
    | exact ($ih).expandAsName _
    | exact ($ih).expandParam _
    | exact ($ih).expandParams _
    | exact ($ih).expandHash _
    | exact ($ih).helperFromTemplate _
    | exact ($ih).decoFromTemplate _
    | exact ($ih).callHelperForValue _ _
    | exact ($ih).callHelper _ _
    | exact ($ih).eachLoop _ _ _ _ _
    | exact ($ih).renderHelper _
    | exact ($ih).renderElem _
    | exact ($ih).renderExpression _
    | exact ($ih).evalDecorator _
    | exact ($ih).evalElems _ _ _
    | exact ($ih).renderElems _ _ _
    | exact ($ih).renderTemplate _
    | exact ($ih).expandPartial _
    | exact decorateRender_reason _ _
    | exact decorateEval_reason _ _
    | apply ($R).mapErr
    | apply ($R).captured
    | apply ($R).withBlock
    | apply ($R).escOffReset
    | apply ($R).escOffSaved
    | apply ($R).partialScope
    | apply ($R).bnd
    | apply ($R).ite
    | intro _
    | split)

theorem all_zero (reg : Registry) (root : Json) : R.All reg root 0 := by
  constructor
  · intro p; simp only [Hbs.expandAsName]; exact R.refl _
  · intro p; simp only [Hbs.expandParam]; exact R.refl _
  · intro p; simp only [Hbs.expandParams]; exact R.refl _
  · intro p; simp only [Hbs.expandHash]; exact R.refl _
  · intro p; simp only [Hbs.helperFromTemplate]; exact R.refl _
  · intro p; simp only [Hbs.decoFromTemplate]; exact R.refl _
  · intro d h; simp only [Hbs.callHelperForValue]; exact R.refl _
  · intro d h; simp only [Hbs.callHelper]; exact R.refl _
  · intro t h p l i; simp only [Hbs.eachLoop]; exact R.refl _
  · intro p; simp only [Hbs.renderHelper]; exact R.refl _
  · intro p; simp only [Hbs.renderElem]; exact R.refl _
  · intro p; simp only [Hbs.renderExpression]; exact R.refl _
  · intro p; simp only [Hbs.evalDecorator]; exact R.refl _
  · intro a b c; simp only [Hbs.evalElems]; exact R.refl _
  · intro a b c; simp only [Hbs.renderElems]; exact R.refl _
  · intro p; simp only [Hbs.renderTemplate]; exact R.refl _
  · intro p; simp only [Hbs.expandPartial]; exact R.refl _

theorem all_succ (reg : Registry) (root : Json) (fuel : Nat) (ih : R.All reg root fuel) :
    R.All reg root (fuel + 1) := by
  constructor
  · intro p; simp only [Hbs.expandAsName, RM.bind_def, RM.pure_def]; rel_auto R ih
  · intro p; simp only [Hbs.expandParam, RM.bind_def, RM.pure_def, withStrict_helpers]; rel_auto R ih
  · intro ps; cases ps <;> simp only [Hbs.expandParams, RM.bind_def, RM.pure_def] <;> rel_auto R ih
  · intro ps; cases ps <;> simp only [Hbs.expandHash, RM.bind_def, RM.pure_def] <;> rel_auto R ih
  · intro ht; simp only [Hbs.helperFromTemplate, RM.bind_def, RM.pure_def]; rel_auto R ih
  · intro dt; simp only [Hbs.decoFromTemplate, RM.bind_def, RM.pure_def]; rel_auto R ih
  · intro d h
    simp only [Hbs.callHelperForValue, RM.bind_def, RM.pure_def]
    split
    · rcases callInner_cases reg d h with heq | ⟨e, he, hk⟩
      · rw [heq]; exact R.refl _
      · rw [he]; exact R.throwRL _ _ hk
    · rel_auto R ih
  · intro d h
    simp only [Hbs.callHelper, RM.bind_def, RM.pure_def, withStrict_strict, withStrict_templates, doEscape_withStrict, Bool.true_and, Bool.false_and, Bool.false_eq_true, ↓reduceIte]
    split
    · rcases callInner_cases reg d h with heq | ⟨e, he, hne⟩
      · rw [← heq]; rel_auto R ih
      · rw [he]; simp only [hne.ne_unimplemented, Bool.false_eq_true, ↓reduceIte]; exact R.throwRL _ _ hne
    · rel_auto R ih
  · intro t h p len items; cases items <;> simp only [Hbs.eachLoop, RM.bind_def, RM.pure_def] <;> rel_auto R ih
  · intro ht; simp only [Hbs.renderHelper, RM.bind_def, RM.pure_def, withStrict_helpers]; rel_auto R ih
  · intro e; simp only [Hbs.renderElem, RM.bind_def, RM.pure_def]; rel_auto R ih
  · intro ht; simp only [Hbs.renderExpression, RM.bind_def, RM.pure_def, withStrict_helpers, withStrict_strict, doEscape_withStrict, Bool.false_eq_true, ↓reduceIte]; rel_auto R ih
  · intro dt; simp only [Hbs.evalDecorator, RM.bind_def, RM.pure_def, withStrict_decorators]; rel_auto R ih
  · intro tn es m; cases es <;> simp only [Hbs.evalElems, RM.bind_def, RM.pure_def] <;> rel_auto R ih
  · intro tn es m; cases es <;> simp only [Hbs.renderElems, RM.bind_def, RM.pure_def] <;> rel_auto R ih
  · intro t; simp only [Hbs.renderTemplate, RM.bind_def, RM.pure_def]; rel_auto R ih
  · intro d; simp only [Hbs.expandPartial, RM.bind_def, RM.pure_def, withStrict_templates]; rel_auto R ih

/-- THE relational induction principle -/
theorem all (reg : Registry) (root : Json) : ∀ fuel, R.All reg root fuel
  | 0 => R.all_zero reg root
  | fuel + 1 => R.all_succ reg root fuel (all reg root fuel)

end RMRel
end Hbs
