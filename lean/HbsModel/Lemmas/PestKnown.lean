import HbsModel.Lemmas.PestShift
/-
  Evaluation on a KNOWN PREFIX of the input: `evalK … known closed` answers only when the interpreter's
  answer is the same for every continuation of `known` (or, when `closed`, for `known` being the whole
  remaining input).  Sound with respect to `eval` (`evalK_sound`), so interpreter facts about concrete
  tags inside arbitrary surrounding text come from kernel evaluation.
-/
namespace Hbs.Pest
variable {R : Type}

/-- a definite answer on the known prefix -/
inductive KRes (R : Type) where
  | ok (pos : Nat) (rest : Str) (toks : List (Tok R))
  | fail

/-- match `s` against the known prefix: `some (some rest)` matched, `some none` definite mismatch,
    `none` = the known prefix ended before the answer was determined -/
def matchK (closed : Bool) : Str → Str → Option (Option Str)
  | [], k => some (some k)
  | _ :: _, [] => if closed then some none else none
  | c :: cs, d :: ds => if c == d then matchK closed cs ds else some none

def matchInsensK (closed : Bool) : Str → Str → Option (Option Str)
  | [], k => some (some k)
  | _ :: _, [] => if closed then some none else none
  | c :: cs, d :: ds => if lowerAscii c == lowerAscii d then matchInsensK closed cs ds else some none

def evalK (G : R → RuleDef R) (ws : Option R) (closed : Bool) : Nat → Atom → PExpr R → Nat → Str → Option (KRes R)
  | 0, _, _, _, _ => none
  | fuel + 1, atom, e, pos, k =>
    match e with
    | .str s =>
      match matchK closed s k with
      | some (some rest) => some (.ok (pos + s.length) rest [])
      | some none => some .fail
      | none => none
    | .insens s =>
      match matchInsensK closed s k with
      | some (some rest) => some (.ok (pos + s.length) rest [])
      | some none => some .fail
      | none => none
    | .range lo hi =>
      match k with
      | d :: ds => if inRange lo hi d then some (.ok (pos + 1) ds []) else some .fail
      | [] => if closed then some .fail else none
    | .builtin .eoi =>
      match k with
      | _ :: _ => some .fail
      | [] => if closed then some (.ok pos [] (if atom == .atomic then [] else [⟨none, pos, pos⟩])) else none
    | .builtin .soi => none
    | .builtin .newline => none
    | .builtin b =>
      match k with
      | d :: ds => if builtinChar b d then some (.ok (pos + 1) ds []) else some .fail
      | [] => if closed then some .fail else none
    | .rule r =>
      let d := G r
      match evalK G ws closed fuel (innerAtom d.ty atom) d.body pos k with
      | some (.ok pos' k' toks) =>
        if d.ty != .silent && atom != .atomic then some (.ok pos' k' (⟨some r, pos, pos'⟩ :: toks))
        else some (.ok pos' k' toks)
      | some .fail => some .fail
      | none => none
    | .seq a b =>
      match evalK G ws closed fuel atom a pos k with
      | some (.ok p1 k1 t1) =>
        match evalK G ws closed fuel atom .skip p1 k1 with
        | some (.ok p2 k2 t2) =>
          match evalK G ws closed fuel atom b p2 k2 with
          | some (.ok p3 k3 t3) => some (.ok p3 k3 (t1 ++ t2 ++ t3))
          | some .fail => some .fail
          | none => none
        | some .fail => some .fail
        | none => none
      | some .fail => some .fail
      | none => none
    | .choice a b =>
      match evalK G ws closed fuel atom a pos k with
      | some (.ok p1 k1 t1) => some (.ok p1 k1 t1)
      | some .fail => evalK G ws closed fuel atom b pos k
      | none => none
    | .opt a =>
      match evalK G ws closed fuel atom a pos k with
      | some (.ok p1 k1 t1) => some (.ok p1 k1 t1)
      | some .fail => some (.ok pos k [])
      | none => none
    | .rep a =>
      match evalK G ws closed fuel atom a pos k with
      | some (.ok p1 k1 t1) =>
        match evalK G ws closed fuel atom (.starTail a) p1 k1 with
        | some (.ok p2 k2 t2) => some (.ok p2 k2 (t1 ++ t2))
        | some .fail => some .fail
        | none => none
      | some .fail => some (.ok pos k [])
      | none => none
    | .repOnce a =>
      match evalK G ws closed fuel atom a pos k with
      | some (.ok p1 k1 t1) =>
        match evalK G ws closed fuel atom (.starTail a) p1 k1 with
        | some (.ok p2 k2 t2) => some (.ok p2 k2 (t1 ++ t2))
        | some .fail => some .fail
        | none => none
      | some .fail => some .fail
      | none => none
    | .starTail a =>
      match evalK G ws closed fuel atom .skip pos k with
      | some (.ok p1 k1 t1) =>
        match evalK G ws closed fuel atom a p1 k1 with
        | some (.ok p2 k2 t2) =>
          if p2 == pos then some (.ok p2 k2 (t1 ++ t2))
          else
            match evalK G ws closed fuel atom (.starTail a) p2 k2 with
            | some (.ok p3 k3 t3) => some (.ok p3 k3 (t1 ++ t2 ++ t3))
            | some .fail => some .fail
            | none => none
        | some .fail => some (.ok pos k [])
        | none => none
      | some .fail => some (.ok pos k [])
      | none => none
    | .skip =>
      if atom == .nonAtomic then
        match ws with
        | none => some (.ok pos k [])
        | some w =>
          match evalK G ws closed fuel .atomic (G w).body pos k with
          | some (.ok p1 k1 _) =>
            if p1 == pos then some (.ok p1 k1 [])
            else evalK G ws closed fuel atom .skip p1 k1
          | some .fail => some (.ok pos k [])
          | none => none
      else some (.ok pos k [])
    | .posPred a =>
      match evalK G ws closed fuel atom a pos k with
      | some (.ok _ _ _) => some (.ok pos k [])
      | some .fail => some .fail
      | none => none
    | .negPred a =>
      match evalK G ws closed fuel atom a pos k with
      | some (.ok _ _ _) => some .fail
      | some .fail => some (.ok pos k [])
      | none => none

/-- what a definite answer on the known prefix says about the real input `known ++ tail` -/
def embedK (tail : Str) : KRes R → PRes R
  | .ok pos rest toks => .ok ⟨pos, rest ++ tail⟩ toks
  | .fail => .fail

theorem matchK_sound (closed : Bool) (s k : Str) (tail : Str) (htail : closed = true → tail = []) (p : Nat) :
    ∀ r, matchK closed s k = some r →
      matchStr s ⟨p, k ++ tail⟩ = r.map (fun rest => ⟨p + s.length, rest ++ tail⟩) := by
  induction s generalizing k p with
  | nil => intro r h; simp [matchK] at h; subst h; simp [matchStr]
  | cons c cs ih =>
    intro r h
    cases k with
    | nil =>
      simp only [matchK] at h
      cases closed with
      | false => simp at h
      | true =>
        simp at h; subst h
        have := htail rfl; subst this
        simp [matchStr]
    | cons d ds =>
      simp only [matchK] at h
      by_cases hcd : (c == d) = true
      · simp only [hcd, ↓reduceIte] at h
        have := ih ds (p + 1) r h
        simp only [List.cons_append, matchStr, hcd, ↓reduceIte, List.length_cons]
        rw [this]
        cases r <;> simp <;> omega
      · simp only [hcd] at h
        simp at h; subst h
        simp [matchStr, hcd]

theorem matchInsensK_sound (closed : Bool) (s k : Str) (tail : Str) (htail : closed = true → tail = []) (p : Nat) :
    ∀ r, matchInsensK closed s k = some r →
      matchInsens s ⟨p, k ++ tail⟩ = r.map (fun rest => ⟨p + s.length, rest ++ tail⟩) := by
  induction s generalizing k p with
  | nil => intro r h; simp [matchInsensK] at h; subst h; simp [matchInsens]
  | cons c cs ih =>
    intro r h
    cases k with
    | nil =>
      simp only [matchInsensK] at h
      cases closed with
      | false => simp at h
      | true =>
        simp at h; subst h
        have := htail rfl; subst this
        simp [matchInsens]
    | cons d ds =>
      simp only [matchInsensK] at h
      by_cases hcd : (lowerAscii c == lowerAscii d) = true
      · simp only [hcd, ↓reduceIte] at h
        have := ih ds (p + 1) r h
        simp only [List.cons_append, matchInsens, hcd, ↓reduceIte, List.length_cons]
        rw [this]
        cases r <;> simp <;> omega
      · simp only [hcd] at h
        simp at h; subst h
        simp [matchInsens, hcd]

theorem matchK_some (closed : Bool) (s k rest tail : Str) (htail : closed = true → tail = []) (p : Nat)
    (h : matchK closed s k = some (some rest)) : matchStr s ⟨p, k ++ tail⟩ = some ⟨p + s.length, rest ++ tail⟩ := by
  simpa using matchK_sound closed s k tail htail p _ h
theorem matchK_none (closed : Bool) (s k tail : Str) (htail : closed = true → tail = []) (p : Nat)
    (h : matchK closed s k = some none) : matchStr s ⟨p, k ++ tail⟩ = none := by
  simpa using matchK_sound closed s k tail htail p _ h
theorem matchInsensK_some (closed : Bool) (s k rest tail : Str) (htail : closed = true → tail = []) (p : Nat)
    (h : matchInsensK closed s k = some (some rest)) : matchInsens s ⟨p, k ++ tail⟩ = some ⟨p + s.length, rest ++ tail⟩ := by
  simpa using matchInsensK_sound closed s k tail htail p _ h
theorem matchInsensK_none (closed : Bool) (s k tail : Str) (htail : closed = true → tail = []) (p : Nat)
    (h : matchInsensK closed s k = some none) : matchInsens s ⟨p, k ++ tail⟩ = none := by
  simpa using matchInsensK_sound closed s k tail htail p _ h

@[simp] theorem embedK_ok (tail : Str) (pos : Nat) (rest : Str) (toks : List (Tok R)) :
    embedK tail (.ok pos rest toks) = .ok ⟨pos, rest ++ tail⟩ toks := rfl
@[simp] theorem embedK_fail (tail : Str) : embedK tail (.fail : KRes R) = .fail := rfl

/-- **soundness**: a definite answer on the known prefix is the interpreter's answer on every input that
    continues it -/
theorem evalK_sound (G : R → RuleDef R) (ws : Option R) (closed : Bool) (tail : Str) (htail : closed = true → tail = [])
    (F : Nat) (atom : Atom) (e : PExpr R) (pos : Nat) (k : Str) (r : KRes R)
    (h : evalK G ws closed F atom e pos k = some r) :
    eval G ws F atom e ⟨pos, k ++ tail⟩ = embedK tail r := by
  fun_induction evalK G ws closed F atom e pos k generalizing r <;>
    try (first
      | (simp_all [eval]; done)
      | (simp_all [eval]; grind [eval, embedK])
      | grind [eval, embedK])
  case case2 fuel atom pos k s rest hm =>
    simp only [Option.some.injEq] at h; subst h
    simp [eval, matchK_some closed s k rest tail htail pos hm]
  case case3 fuel atom pos k s hm =>
    simp only [Option.some.injEq] at h; subst h
    simp [eval, matchK_none closed s k tail htail pos hm]
  case case5 fuel atom pos k s rest hm =>
    simp only [Option.some.injEq] at h; subst h
    simp [eval, matchInsensK_some closed s k rest tail htail pos hm]
  case case6 fuel atom pos k s hm =>
    simp only [Option.some.injEq] at h; subst h
    simp [eval, matchInsensK_none closed s k tail htail pos hm]
  case case8 fuel atom pos lo hi d ds hr =>
    simp only [Option.some.injEq] at h; subst h
    simp [eval, matchChar, hr]
  case case9 fuel atom pos lo hi d ds hr =>
    simp only [Option.some.injEq] at h; subst h
    simp [eval, matchChar, hr]
  case case10 fuel atom pos lo hi hc =>
    simp only [Option.some.injEq] at h; subst h
    have := htail hc; subst this
    simp [eval, matchChar]
  case case17 fuel atom pos b h1 h2 h3 d ds hr =>
    simp only [Option.some.injEq] at h; subst h
    cases b <;> simp_all [eval, matchChar]
  case case18 fuel atom pos b h1 h2 h3 d ds hr =>
    simp only [Option.some.injEq] at h; subst h
    cases b <;> simp_all [eval, matchChar]
  case case19 fuel atom pos b h1 h2 h3 hc =>
    simp only [Option.some.injEq] at h; subst h
    have := htail hc; subst this
    cases b <;> simp_all [eval, matchChar]

/-- the same at ANY offset `p` of the real input (grammars without SOI): evaluate once at offset 0 on the
    known prefix, shift the answer -/
theorem evalK_at (G : R → RuleDef R) (ws : Option R) (hG : ∀ r, noSoi (G r).body = true)
    (closed : Bool) (tail : Str) (htail : closed = true → tail = [])
    (F : Nat) (atom : Atom) (e : PExpr R) (he : noSoi e = true) (k : Str) (r : KRes R)
    (h : evalK G ws closed F atom e 0 k = some r) (p : Nat) :
    eval G ws F atom e ⟨p, k ++ tail⟩ = shiftRes p (embedK tail r) := by
  have h0 := evalK_sound G ws closed tail htail F atom e 0 k r h
  have hs := eval_shift G ws hG p F atom e ⟨0, k ++ tail⟩ he
  simp only [Nat.zero_add] at hs
  rw [hs, h0]

end Hbs.Pest
