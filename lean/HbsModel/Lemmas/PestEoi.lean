import HbsModel.Lemmas.PestMono
/-
  A verified static analysis of PEG expressions at the end of the input: `failsE G Fs d e = some F`
  means "on empty remaining input `e` fails, and fuel `F` is enough to see it" – for every atomicity
  and position.  `succE … = some F`: `e` succeeds there without consuming and without tokens.
  Sound with respect to the interpreter (`failsE_sound`), so a `decide` over the regenerated grammar
  yields interpreter facts.
-/
namespace Hbs.Pest
variable {R : Type}

mutual
  def failsE (G : R → RuleDef R) (Fs : Nat) : Nat → PExpr R → Option Nat
    | 0, _ => none
    | d + 1, e =>
      match e with
      | .str s => if s.isEmpty then none else some 1
      | .insens s => if s.isEmpty then none else some 1
      | .range _ _ => some 1
      | .builtin b =>
        match b with
        | .eoi => none
        | .soi => none
        | _ => some 1
      | .rule r => (failsE G Fs d (G r).body).map (· + 1)
      | .seq a b =>
        match failsE G Fs d a with
        | some F => some (F + 1)
        | none =>
          match succE G Fs d a, failsE G Fs d b with
          | some F1, some F2 => some (max (max F1 Fs) F2 + 1)
          | _, _ => none
      | .choice a b =>
        match failsE G Fs d a, failsE G Fs d b with
        | some F1, some F2 => some (max F1 F2 + 1)
        | _, _ => none
      | .repOnce a => (failsE G Fs d a).map (· + 1)
      | .posPred a => (failsE G Fs d a).map (· + 1)
      | _ => none
  def succE (G : R → RuleDef R) (Fs : Nat) : Nat → PExpr R → Option Nat
    | 0, _ => none
    | d + 1, e =>
      match e with
      | .negPred a => (failsE G Fs d a).map (· + 1)
      | .opt a => (failsE G Fs d a).map (· + 1)
      | .rep a => (failsE G Fs d a).map (· + 1)
      | _ => none
end

theorem matchStr_nil_fail (s : Str) (p : Nat) (h : s.isEmpty = false) : matchStr s ⟨p, []⟩ = none := by
  cases s with
  | nil => simp at h
  | cons c cs => simp [matchStr]

theorem matchInsens_nil_fail (s : Str) (p : Nat) (h : s.isEmpty = false) : matchInsens s ⟨p, []⟩ = none := by
  cases s with
  | nil => simp at h
  | cons c cs => simp [matchInsens]

/-- soundness, given that implicit whitespace skipping is a no-op at the end of the input -/
theorem analysis_sound (G : R → RuleDef R) (ws : Option R) (Fs : Nat)
    (hskip : ∀ atom p, Ev G ws Fs atom .skip ⟨p, []⟩ (.ok ⟨p, []⟩ [])) :
    ∀ d, (∀ e F, failsE G Fs d e = some F → ∀ atom p, Ev G ws F atom e ⟨p, []⟩ .fail) ∧
         (∀ e F, succE G Fs d e = some F → ∀ atom p, Ev G ws F atom e ⟨p, []⟩ (.ok ⟨p, []⟩ [])) := by
  intro d
  induction d with
  | zero => exact ⟨fun e F h => by simp [failsE] at h, fun e F h => by simp [succE] at h⟩
  | succ d ih =>
    obtain ⟨ihf, ihs⟩ := ih
    refine ⟨?_, ?_⟩
    · intro e F h atom p
      cases e with
      | str s =>
        simp only [failsE] at h
        split at h
        · cases h
        · rename_i hne
          cases h
          exact Ev.str_fail (matchStr_nil_fail s p (by simpa using hne))
      | insens s =>
        simp only [failsE] at h
        split at h
        · cases h
        · rename_i hne
          cases h
          refine ⟨?_, by simp⟩
          simp [eval, matchInsens_nil_fail s p (by simpa using hne)]
      | range lo hi =>
        simp only [failsE] at h; cases h
        refine ⟨?_, by simp⟩; simp [eval, matchChar]
      | builtin b =>
        simp only [failsE] at h
        cases b <;> simp at h <;> subst h <;> (refine ⟨?_, by simp⟩) <;> simp [eval, matchChar]
      | rule r =>
        simp only [failsE, Option.map_eq_some_iff] at h
        obtain ⟨F0, h0, rfl⟩ := h
        exact Ev.rule_fail (ihf _ _ h0 _ p)
      | seq a b =>
        simp only [failsE] at h
        cases ha : failsE G Fs d a with
        | some Fa =>
          rw [ha] at h; simp only [Option.some.injEq] at h; subst h
          exact Ev.seq_fail1 (ihf _ _ ha atom p)
        | none =>
          rw [ha] at h
          simp only [] at h
          cases hs : succE G Fs d a with
          | none => rw [hs] at h; simp at h
          | some F1 =>
            cases hb : failsE G Fs d b with
            | none => rw [hs, hb] at h; simp at h
            | some F2 =>
              rw [hs, hb] at h; simp only [Option.some.injEq] at h; subst h
              exact Ev.seq_fail2 ((ihs _ _ hs atom p).weaken (by omega)) ((hskip atom p).weaken (by omega))
                ((ihf _ _ hb atom p).weaken (by omega))
      | choice a b =>
        simp only [failsE] at h
        cases ha : failsE G Fs d a with
        | none => rw [ha] at h; simp at h
        | some F1 =>
          cases hb : failsE G Fs d b with
          | none => rw [ha, hb] at h; simp at h
          | some F2 =>
            rw [ha, hb] at h; simp only [Option.some.injEq] at h; subst h
            exact Ev.choice_right ((ihf _ _ ha atom p).weaken (by omega)) ((ihf _ _ hb atom p).weaken (by omega))
      | repOnce a =>
        simp only [failsE, Option.map_eq_some_iff] at h
        obtain ⟨F0, h0, rfl⟩ := h
        exact Ev.repOnce_fail (ihf _ _ h0 atom p)
      | posPred a =>
        simp only [failsE, Option.map_eq_some_iff] at h
        obtain ⟨F0, h0, rfl⟩ := h
        exact Ev.posPred_fail (ihf _ _ h0 atom p)
      | opt a => simp [failsE] at h
      | rep a => simp [failsE] at h
      | negPred a => simp [failsE] at h
      | skip => simp [failsE] at h
      | starTail a => simp [failsE] at h
    · intro e F h atom p
      cases e with
      | negPred a =>
        simp only [succE, Option.map_eq_some_iff] at h
        obtain ⟨F0, h0, rfl⟩ := h
        exact Ev.negPred_ok (ihf _ _ h0 atom p)
      | opt a =>
        simp only [succE, Option.map_eq_some_iff] at h
        obtain ⟨F0, h0, rfl⟩ := h
        exact Ev.opt_none (ihf _ _ h0 atom p)
      | rep a =>
        simp only [succE, Option.map_eq_some_iff] at h
        obtain ⟨F0, h0, rfl⟩ := h
        exact Ev.rep_none (ihf _ _ h0 atom p)
      | str s => simp [succE] at h
      | insens s => simp [succE] at h
      | range lo hi => simp [succE] at h
      | builtin b => simp [succE] at h
      | rule r => simp [succE] at h
      | seq a b => simp [succE] at h
      | choice a b => simp [succE] at h
      | repOnce a => simp [succE] at h
      | posPred a => simp [succE] at h
      | skip => simp [succE] at h
      | starTail a => simp [succE] at h

theorem failsE_sound (G : R → RuleDef R) (ws : Option R) (Fs : Nat)
    (hskip : ∀ atom p, Ev G ws Fs atom .skip ⟨p, []⟩ (.ok ⟨p, []⟩ []))
    (d : Nat) (e : PExpr R) (F : Nat) (h : failsE G Fs d e = some F) (atom : Atom) (p : Nat) :
    Ev G ws F atom e ⟨p, []⟩ .fail := (analysis_sound G ws Fs hskip d).1 e F h atom p

end Hbs.Pest
