import HbsModel.Lemmas.CompileTags
/-
  The three spellings of a value tag as compiled tags:  {{v}}  {{{v}}}  {{&v}}.
-/
namespace Hbs.PlainText
open Hbs Hbs.Pest Hbs.Grammar

/-- a slice of a slice -/
theorem tokStr_of_slice (src X : Str) (a n i j : Nat) (r : Option Rule) (h : slice? src a (a + n) = some X) (hij : i ≤ j) (hj : j ≤ n) :
    tokStr src ⟨r, i + a, j + a, []⟩ = (X.drop i).take (j - i) := by
  simp only [slice?] at h
  split at h
  · rename_i hc
    simp only [Option.some.injEq] at h
    subst h
    simp only [tokStr, Nat.add_sub_cancel_left]
    rw [show j + a - (i + a) = j - i by omega, List.drop_take, List.drop_drop, List.take_take]
    congr 1
    · omega
    · rw [Nat.add_comm]
  · cases h

/-- the pairs of a name-only value tag whose name `v` stands at offset `o` -/
def nameToks (rule : Rule) (o len : Nat) : List (Tok Rule) :=
  [⟨some rule, 0, len⟩, ⟨some .r_reference, o, o + 1⟩, ⟨some .r_path_inline, o, o + 1⟩, ⟨some .r_path_id, o, o + 1⟩]

/-- one loop iteration of compile2 over such a tag -/
theorem step_name_tag (html : Bool) (o len : Nat) (ho : o + 1 < len) (src : Str) (opts : TemplateOptions) (f a : Nat) (T0 : Tmpl)
    (ep : Option Nat) (r0 : CTok) (rest : List CTok)
    (hv : tokStr src ⟨some .r_path_id, o + a, o + 1 + a, []⟩ = ['v']) (hep : ep.getD 0 = a) (hr0 : a + len ≤ r0.e) :
    compileLoop src opts (f + 3 + 1) { tmplStack := [T0], endPos := ep }
        ((nameToks (if html then .r_html_expression else .r_expression) o len).map (fun x => plainCTok (shiftTok a x)) ++ r0 :: rest)
      = compileLoop src opts (f + 3)
          { tmplStack := [T0.pushElement (if html then .html valHT else .expr valHT) (lineCol src a).1 (lineCol src a).2], endPos := some (a + len) }
          (r0 :: rest) := by
  have hv' : tokStr src ⟨some .r_reference, o + a, o + 1 + a, []⟩ = ['v'] := hv
  have h1 : ¬ (r0.e < a + len) := by omega
  have h2 : o + 1 + a < r0.e := by omega
  have h3 : len + a = a + len := by omega
  cases html <;>
    simp [nameToks, compileLoop, plainCTok, shiftTok, compileStep, hep, isBlockStart, isExprLike, parseExpression, parseName, parsePathSegs,
      parseExprLoop, hv, hv', h1, h2, h3, frontMut, valHT, str]

theorem step_name_tag_gap (html : Bool) (o len : Nat) (ho : o + 1 < len) (src : Str) (opts : TemplateOptions) (f g a : Nat) (W : Str) (T0 : Tmpl)
    (r0 : CTok) (rest : List CTok)
    (hv : tokStr src ⟨some .r_path_id, o + a, o + 1 + a, []⟩ = ['v']) (hga : a ≠ g) (hgap : slice? src g a = some W) (hr0 : a + len ≤ r0.e) :
    compileLoop src opts (f + 3 + 1) { tmplStack := [T0], endPos := some g }
        ((nameToks (if html then .r_html_expression else .r_expression) o len).map (fun x => plainCTok (shiftTok a x)) ++ r0 :: rest)
      = compileLoop src opts (f + 3)
          { tmplStack := [(T0.pushElement (.raw W) (lineCol src a).1 (lineCol src a).2).pushElement (if html then .html valHT else .expr valHT)
              (lineCol src a).1 (lineCol src a).2], endPos := some (a + len) }
          (r0 :: rest) := by
  have hv' : tokStr src ⟨some .r_reference, o + a, o + 1 + a, []⟩ = ['v'] := hv
  have h1 : ¬ (r0.e < a + len) := by omega
  have h2 : o + 1 + a < r0.e := by omega
  have h3 : len + a = a + len := by omega
  cases html <;>
    simp [nameToks, compileLoop, plainCTok, shiftTok, compileStep, hga, hgap, rawString, isBlockStart, isExprLike, parseExpression, parseName,
      parsePathSegs, parseExprLoop, hv, hv', h1, h2, h3, frontMut, valHT, str]

end Hbs.PlainText

namespace Hbs.PlainText
open Hbs Hbs.Pest Hbs.Grammar

/-- build the compiled tag from its text (after `{{`), bracket form and the offset of `v` -/
def nameTag (T' : Str) (html : Bool) (o : Nat) (ho : o + 1 < T'.length + 2) (hv : (('{' :: '{' :: T').drop o).take 1 = ['v']) : CTag where
  tag := ⟨T', nameToks (if html then .r_html_expression else .r_expression) o (T'.length + 2)⟩
  el := if html then .html valHT else .expr valHT
  noEsc := by
    intro x hx
    simp only [nameToks, List.mem_cons, List.not_mem_nil, or_false] at hx
    rcases hx with rfl | rfl | rfl | rfl
    · cases html <;> rfl
    · rfl
    · rfl
    · rfl
  nonempty := by simp [nameToks]
  step := by
    intro src opts f a T0 ep r0 rest hin hep hr0
    have hvv : tokStr src ⟨some .r_path_id, o + a, o + 1 + a, []⟩ = ['v'] := by
      have := tokStr_of_slice src _ a (T'.length + 2) o (o + 1) (some .r_path_id) hin (by omega) (by omega)
      rw [this, show o + 1 - o = 1 by omega]; exact hv
    exact step_name_tag html o (T'.length + 2) ho src opts f a T0 ep r0 rest hvv hep hr0
  stepGap := by
    intro src opts f g a W T0 r0 rest hin hga hgap hr0
    have hvv : tokStr src ⟨some .r_path_id, o + a, o + 1 + a, []⟩ = ['v'] := by
      have := tokStr_of_slice src _ a (T'.length + 2) o (o + 1) (some .r_path_id) hin (by omega) (by omega)
      rw [this, show o + 1 - o = 1 by omega]; exact hv
    exact step_name_tag_gap html o (T'.length + 2) ho src opts f g a W T0 r0 rest hvv hga hgap hr0

/-- `{{v}}` -/
def tagValue : CTag := nameTag ['v', '}', '}'] false 2 (by decide) (by decide)
/-- `{{{v}}}` -/
def tagTriple : CTag := nameTag ['{', 'v', '}', '}', '}'] true 3 (by decide) (by decide)
/-- `{{&v}}` -/
def tagAmp : CTag := nameTag ['&', 'v', '}', '}'] true 3 (by decide) (by decide)

theorem tagAt_of_decided (t : PTag) (F : Nat)
    (h : KRes.isOkWith t.len (t.toks.map (fun x => (x.rule, x.s, x.e))) (evalK rules ws false F .nonAtomic templateAlt 0 t.src) = true) :
    TagAt t.src F t.toks := by
  have hd := KRes.isOkWith_eq h
  intro p tail
  have := evalK_at rules ws rules_noSoi false tail (by simp) F .nonAtomic templateAlt rfl t.src _ hd p
  refine ⟨?_, by simp [shiftRes, embedK]⟩
  rw [this]
  simp [shiftRes, embedK, PTag.src_length, Nat.add_comm]

/-- decided by the kernel on the regenerated grammar: each of the three spellings – whatever follows it – is one element
    of `template` with these pairs -/
theorem tagValue_at : TagAt tagValue.tag.src 100 tagValue.tag.toks := tagAt_of_decided _ _ (by decide)
theorem tagTriple_at : TagAt tagTriple.tag.src 100 tagTriple.tag.toks := tagAt_of_decided _ _ (by decide)
theorem tagAmp_at : TagAt tagAmp.tag.src 100 tagAmp.tag.toks := tagAt_of_decided _ _ (by decide)

end Hbs.PlainText

namespace Hbs.PlainText
open Hbs Hbs.Pest Hbs.Grammar

/-! ### other spellings of the same path: `{{this.v}}`, `{{./v}}`, `{{this/v}}`, `{{ v }}` -/

/-- the value expression of the one-segment path `v` written as `raw` -/
def valHTr (raw : Str) : HelperT :=
  HelperG.new { name := .path (Path.new raw [.named ['v']]), params := [], hash := [], blockParam := none, omitPreWs := false, omitProWs := false }
    false false false

theorem valHTr_v : valHTr ['v'] = valHT := rfl

/-- the pairs of a value tag whose path text is `rs..re` and whose only named segment `v` stands at `io` -/
def pathToks (rs re io len : Nat) : List (Tok Rule) :=
  [⟨some .r_expression, 0, len⟩, ⟨some .r_reference, rs, re⟩, ⟨some .r_path_inline, rs, re⟩, ⟨some .r_path_id, io, io + 1⟩]

theorem step_path_tag (raw : Str) (rs re io len : Nat) (h1' : io + 1 ≤ re) (h2' : re < len) (src : Str) (opts : TemplateOptions) (f a : Nat) (T0 : Tmpl)
    (ep : Option Nat) (r0 : CTok) (rest : List CTok)
    (hraw : tokStr src ⟨some .r_reference, rs + a, re + a, []⟩ = raw)
    (hv : tokStr src ⟨some .r_path_id, io + a, io + 1 + a, []⟩ = ['v']) (hep : ep.getD 0 = a) (hr0 : a + len ≤ r0.e) :
    compileLoop src opts (f + 3 + 1) { tmplStack := [T0], endPos := ep }
        ((pathToks rs re io len).map (fun x => plainCTok (shiftTok a x)) ++ r0 :: rest)
      = compileLoop src opts (f + 3)
          { tmplStack := [T0.pushElement (.expr (valHTr raw)) (lineCol src a).1 (lineCol src a).2], endPos := some (a + len) }
          (r0 :: rest) := by
  have h1 : ¬ (r0.e < a + len) := by omega
  have h2 : re + a < r0.e := by omega
  have h3 : len + a = a + len := by omega
  have h4 : ¬ (re + a < io + 1 + a) := by omega
  simp [pathToks, compileLoop, plainCTok, shiftTok, compileStep, hep, isBlockStart, isExprLike, parseExpression, parseName, parsePathSegs,
    parseExprLoop, hv, hraw, h1, h2, h3, h4, frontMut, valHTr, str]

theorem step_path_tag_gap (raw : Str) (rs re io len : Nat) (h1' : io + 1 ≤ re) (h2' : re < len) (src : Str) (opts : TemplateOptions) (f g a : Nat)
    (W : Str) (T0 : Tmpl) (r0 : CTok) (rest : List CTok)
    (hraw : tokStr src ⟨some .r_reference, rs + a, re + a, []⟩ = raw)
    (hv : tokStr src ⟨some .r_path_id, io + a, io + 1 + a, []⟩ = ['v']) (hga : a ≠ g) (hgap : slice? src g a = some W) (hr0 : a + len ≤ r0.e) :
    compileLoop src opts (f + 3 + 1) { tmplStack := [T0], endPos := some g }
        ((pathToks rs re io len).map (fun x => plainCTok (shiftTok a x)) ++ r0 :: rest)
      = compileLoop src opts (f + 3)
          { tmplStack := [(T0.pushElement (.raw W) (lineCol src a).1 (lineCol src a).2).pushElement (.expr (valHTr raw))
              (lineCol src a).1 (lineCol src a).2], endPos := some (a + len) }
          (r0 :: rest) := by
  have h1 : ¬ (r0.e < a + len) := by omega
  have h2 : re + a < r0.e := by omega
  have h3 : len + a = a + len := by omega
  have h4 : ¬ (re + a < io + 1 + a) := by omega
  simp [pathToks, compileLoop, plainCTok, shiftTok, compileStep, hga, hgap, rawString, isBlockStart, isExprLike, parseExpression, parseName,
    parsePathSegs, parseExprLoop, hv, hraw, h1, h2, h3, h4, frontMut, valHTr, str]

/-- the compiled tag of a spelling: its text after `{{`, the span of the path text and the offset of `v` -/
def pathTag (T' : Str) (rs re io : Nat) (h1 : rs ≤ re) (h2 : io + 1 ≤ re) (h3 : re < T'.length + 2)
    (hv : (('{' :: '{' :: T').drop io).take 1 = ['v']) : CTag where
  tag := ⟨T', pathToks rs re io (T'.length + 2)⟩
  el := .expr (valHTr ((('{' :: '{' :: T').drop rs).take (re - rs)))
  noEsc := by
    intro x hx
    simp only [pathToks, List.mem_cons, List.not_mem_nil, or_false] at hx
    rcases hx with rfl | rfl | rfl | rfl <;> rfl
  nonempty := by simp [pathToks]
  step := by
    intro src opts f a T0 ep r0 rest hin hep hr0
    have hvv : tokStr src ⟨some .r_path_id, io + a, io + 1 + a, []⟩ = ['v'] := by
      have := tokStr_of_slice src _ a (T'.length + 2) io (io + 1) (some .r_path_id) hin (by omega) (by omega)
      rw [this, show io + 1 - io = 1 by omega]; exact hv
    have hrr := tokStr_of_slice src _ a (T'.length + 2) rs re (some .r_reference) hin h1 (by omega)
    exact step_path_tag _ rs re io (T'.length + 2) h2 h3 src opts f a T0 ep r0 rest hrr hvv hep hr0
  stepGap := by
    intro src opts f g a W T0 r0 rest hin hga hgap hr0
    have hvv : tokStr src ⟨some .r_path_id, io + a, io + 1 + a, []⟩ = ['v'] := by
      have := tokStr_of_slice src _ a (T'.length + 2) io (io + 1) (some .r_path_id) hin (by omega) (by omega)
      rw [this, show io + 1 - io = 1 by omega]; exact hv
    have hrr := tokStr_of_slice src _ a (T'.length + 2) rs re (some .r_reference) hin h1 (by omega)
    exact step_path_tag_gap _ rs re io (T'.length + 2) h2 h3 src opts f g a W T0 r0 rest hrr hvv hga hgap hr0

/-- `{{this.v}}` -/
def tagThisDot : CTag := pathTag ['t', 'h', 'i', 's', '.', 'v', '}', '}'] 2 8 7 (by decide) (by decide) (by decide) (by decide)
/-- `{{this/v}}` -/
def tagThisSlash : CTag := pathTag ['t', 'h', 'i', 's', '/', 'v', '}', '}'] 2 8 7 (by decide) (by decide) (by decide) (by decide)
/-- `{{./v}}` -/
def tagDotSlash : CTag := pathTag ['.', '/', 'v', '}', '}'] 2 5 4 (by decide) (by decide) (by decide) (by decide)
/-- `{{ v }}` -/
def tagSpaced : CTag := pathTag [' ', 'v', ' ', '}', '}'] 3 4 3 (by decide) (by decide) (by decide) (by decide)

theorem tagThisDot_at : TagAt tagThisDot.tag.src 150 tagThisDot.tag.toks := tagAt_of_decided _ _ (by decide)
theorem tagThisSlash_at : TagAt tagThisSlash.tag.src 150 tagThisSlash.tag.toks := tagAt_of_decided _ _ (by decide)
theorem tagDotSlash_at : TagAt tagDotSlash.tag.src 150 tagDotSlash.tag.toks := tagAt_of_decided _ _ (by decide)
theorem tagSpaced_at : TagAt tagSpaced.tag.src 150 tagSpaced.tag.toks := tagAt_of_decided _ _ (by decide)

theorem tagThisDot_el : tagThisDot.el = .expr (valHTr ['t', 'h', 'i', 's', '.', 'v']) := rfl
theorem tagThisSlash_el : tagThisSlash.el = .expr (valHTr ['t', 'h', 'i', 's', '/', 'v']) := rfl
theorem tagDotSlash_el : tagDotSlash.el = .expr (valHTr ['.', '/', 'v']) := rfl
theorem tagSpaced_el : tagSpaced.el = .expr (valHTr ['v']) := rfl

end Hbs.PlainText
