import HbsModel.Render
namespace Hbs

@[simp] theorem setBlockParam_locals (b : Block) (h : HelperI) (p : Option (List Str)) (k v : Json) :
    (setBlockParam b h p k v).locals = b.locals := by
  unfold setBlockParam; split <;> (try split) <;> rfl
@[simp] theorem setBlockParam_basePath (b : Block) (h : HelperI) (p : Option (List Str)) (k v : Json) :
    (setBlockParam b h p k v).basePath = b.basePath := by
  unfold setBlockParam; split <;> (try split) <;> rfl
@[simp] theorem setBlockParam_baseValue (b : Block) (h : HelperI) (p : Option (List Str)) (k v : Json) :
    (setBlockParam b h p k v).baseValue = b.baseValue := by
  unfold setBlockParam; split <;> (try split) <;> rfl
@[simp] theorem updateBlockContext_locals (b : Block) (p : Option (List Str)) (rel : Str) (f : Bool) (v : Json) :
    (updateBlockContext b p rel f v).locals = b.locals := by
  unfold updateBlockContext; split <;> (try split) <;> rfl
@[simp] theorem updateBlockContext_blockParams (b : Block) (p : Option (List Str)) (rel : Str) (f : Bool) (v : Json) :
    (updateBlockContext b p rel f v).blockParams = b.blockParams := by
  unfold updateBlockContext; split <;> (try split) <;> rfl

end Hbs
