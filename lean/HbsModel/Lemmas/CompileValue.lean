import HbsModel.Lemmas.CompileComment
/-
  compile2 on  L ++ "{{v}}" ++ R : text, the value expression of the path `v`, text.
-/
namespace Hbs.PlainText
open Hbs Hbs.Pest Hbs.Grammar

def valSrc : Str := ['{', '{', 'v', '}', '}']
def valToks : List (Tok Rule) :=
  [⟨some .r_expression, 0, 5⟩, ⟨some .r_reference, 2, 3⟩, ⟨some .r_path_inline, 2, 3⟩, ⟨some .r_path_id, 2, 3⟩]

def KRes.isOkWith (pos : Nat) (toks : List (Option Rule × Nat × Nat)) : Option (KRes Rule) → Bool
  | some (.ok p r t) => p == pos && r.isEmpty && t.map (fun x => (x.rule, x.s, x.e)) == toks
  | _ => false

theorem KRes.isOkWith_eq {pos : Nat} {toks : List (Tok Rule)} {r : Option (KRes Rule)}
    (h : KRes.isOkWith pos (toks.map (fun x => (x.rule, x.s, x.e))) r = true) : r = some (.ok pos [] toks) := by
  match r, h with
  | some (.ok p rest t), h =>
    simp only [KRes.isOkWith, Bool.and_eq_true, beq_iff_eq, List.isEmpty_iff] at h
    obtain ⟨⟨rfl, rfl⟩, ht⟩ := h
    have : t = toks := by
      have hinj : ∀ (a b : List (Tok Rule)), a.map (fun x => (x.rule, x.s, x.e)) = b.map (fun x => (x.rule, x.s, x.e)) → a = b := by
        intro a
        induction a with
        | nil => intro b hb; cases b <;> simp_all
        | cons x a ih =>
          intro b hb
          cases b with
          | nil => simp at hb
          | cons y b =>
            simp only [List.map_cons, List.cons.injEq, Prod.mk.injEq] at hb
            obtain ⟨⟨h1, h2, h3⟩, hb'⟩ := hb
            have : x = y := by cases x; cases y; simp_all
            rw [this, ih b hb']
      exact hinj _ _ ht
    rw [this]

/-- decided on the regenerated grammar: `{{v}}` – whatever follows – is the element `expression` with the
    pairs reference, path_inline, path_id -/
theorem value_decided : evalK rules ws false 200 .nonAtomic templateAlt 0 valSrc = some (.ok 5 [] valToks) :=
  KRes.isOkWith_eq (by decide)

theorem value_tagAt : TagAt valSrc 200 valToks := by
  intro p tail
  have := evalK_at rules ws rules_noSoi false tail (by simp) 200 .nonAtomic templateAlt rfl valSrc _ value_decided p
  refine ⟨?_, by simp [shiftRes, embedK]⟩
  rw [this]
  simp [shiftRes, embedK, valSrc, Nat.add_comm]

end Hbs.PlainText

namespace Hbs.PlainText
open Hbs Hbs.Pest Hbs.Grammar

/-- the pair stream of  L ++ {{v}} ++ W ++ R' -/
theorem parse_text_value_text (L W R' : Str) (hL : L = [] ∨ TextBeforeTag L) (hA : TextAfterTag W R') :
    let a := L.length
    let b := a + 5
    let d := b + W.length
    let n := d + R'.length
    Pest.parse rules ws .r_handlebars (L ++ valSrc ++ (W ++ R'))
      = .ok ⟨n, []⟩ (⟨some .r_template, 0, if R' = [] then b else n⟩ ::
          (rawTok 0 a ++ [⟨some .r_expression, a, b⟩, ⟨some .r_reference, a + 2, a + 3⟩, ⟨some .r_path_inline, a + 2, a + 3⟩,
              ⟨some .r_path_id, a + 2, a + 3⟩] ++ rawTok d n ++ [⟨none, n, n⟩])) := by
  intro a b d n
  have h := handlebars_text_tag_text L ['v', '}', '}'] W R' 200 _ hL value_tagAt hA
  have hn : (L ++ valSrc ++ (W ++ R')).length = n := by simp [n, d, b, a, valSrc]; omega
  simp only [] at h
  have h' := h.weaken (F' := defaultFuel (L ++ valSrc ++ (W ++ R')).length) (by
    unfold defaultFuel
    have : (L ++ '{' :: '{' :: ['v', '}', '}'] ++ (W ++ R')).length = n := hn
    rw [this, hn]; omega)
  unfold Pest.parse
  refine Eq.trans h'.1 ?_
  have e1 : (L ++ '{' :: '{' :: ['v', '}', '}'] ++ (W ++ R')).length = n := hn
  simp only [e1, valToks, List.map, shiftTok, Nat.zero_add, List.length_cons, List.length_nil]
  rw [show 5 + L.length = L.length + 5 by omega, show 2 + L.length = L.length + 2 by omega, show 3 + L.length = L.length + 3 by omega]

/-- the value expression `{{v}}` as compiled -/
def valHT : HelperT :=
  HelperG.new { name := .path (Path.new ['v'] [.named ['v']]), params := [], hash := [], blockParam := none, omitPreWs := false, omitProWs := false }
    false false false

theorem step_value (src : Str) (opts : TemplateOptions) (f a : Nat) (T0 : Tmpl) (ep : Option Nat) (r0 : CTok) (rest : List CTok)
    (hep : ep.getD 0 = a) (hv : tokStr src ⟨some .r_path_id, a + 2, a + 3, []⟩ = ['v']) (hr0 : a + 5 ≤ r0.e) :
    compileStep src opts (f + 3) { tmplStack := [T0], endPos := ep } ⟨some .r_expression, a, a + 5, []⟩
        (⟨some .r_reference, a + 2, a + 3, []⟩ :: ⟨some .r_path_inline, a + 2, a + 3, []⟩ :: ⟨some .r_path_id, a + 2, a + 3, []⟩ :: r0 :: rest)
      = .ok ({ tmplStack := [T0.pushElement (.expr valHT) (lineCol src a).1 (lineCol src a).2], endPos := some (a + 5) }, r0 :: rest) := by
  have hv' : tokStr src ⟨some .r_reference, a + 2, a + 3, []⟩ = ['v'] := hv
  have h1 : ¬ (r0.e < a + 5) := by omega
  have h2 : a + 3 < r0.e := by omega
  simp [compileStep, hep, isBlockStart, isExprLike, parseExpression, parseName, parsePathSegs, parseExprLoop, hv, hv', h1, h2,
    frontMut, valHT, str]

end Hbs.PlainText

namespace Hbs.PlainText
open Hbs Hbs.Pest Hbs.Grammar

theorem tail_head (b Wl n : Nat) (hn : b + Wl ≤ n) :
    ∃ r0 rest, (rawTok (b + Wl) n).map plainCTok ++ [plainCTok ⟨none, n, n⟩] = r0 :: rest ∧ b ≤ r0.e := by
  unfold rawTok
  split
  · exact ⟨plainCTok ⟨none, n, n⟩, [], rfl, by simp [plainCTok]; omega⟩
  · exact ⟨plainCTok ⟨some .r_raw_text, b + Wl, n⟩, [plainCTok ⟨none, n, n⟩], rfl, by simp [plainCTok]; omega⟩

theorem tokStr_mid (L X R : Str) (t : CTok) (hs : t.s = L.length) (he : t.e = L.length + X.length) :
    tokStr (L ++ X ++ R) t = X := by
  simp [tokStr, hs, he, List.append_assoc]

/-- **compile2 on  L ++ {{v}} ++ W ++ R'** : the text in front, the expression, the text behind – nothing trimmed -/
theorem compile_text_value_text (L W R' : Str) (opts : TemplateOptions)
    (hL : L = [] ∨ TextBeforeTag L) (hA : TextAfterTag W R') :
    ∃ m, compile2 (L ++ valSrc ++ (W ++ R')) opts = .ok (.mk opts.name
      ((leftT L L).elements ++ [.expr valHT] ++ (if W ++ R' = [] then [] else [.raw (W ++ R')])) m) := by
  have hparse := parse_text_value_text L W R' hL hA
  simp only [] at hparse
  have hn : (L ++ valSrc ++ (W ++ R')).length = L.length + 5 + W.length + R'.length := by
    simp [valSrc]; omega
  have hs0 : slice? (L ++ valSrc ++ (W ++ R')) 0 L.length = some L := by
    rw [List.append_assoc]; exact slice_prefix L _
  have hsR : slice? (L ++ valSrc ++ (W ++ R')) (L.length + 5) (L ++ valSrc ++ (W ++ R')).length = some (W ++ R') :=
    slice_suffix (L ++ valSrc) (W ++ R') _ (by simp [valSrc])
  have hv : tokStr (L ++ valSrc ++ (W ++ R')) ⟨some .r_path_id, L.length + 2, L.length + 3, []⟩ = ['v'] := by
    have : L ++ valSrc ++ (W ++ R') = (L ++ ['{', '{']) ++ ['v'] ++ (['}', '}'] ++ (W ++ R')) := by simp [valSrc]
    rw [this]
    exact tokStr_mid (L ++ ['{', '{']) ['v'] _ _ (by simp) (by simp)
  generalize hsrc : L ++ valSrc ++ (W ++ R') = src at *
  obtain ⟨m, htail⟩ := loop_tail src W R' opts (3 * (rawTok 0 L.length).length + 3 * (rawTok (L.length + 5 + W.length) src.length).length + 36)
    (L.length + 5) ((leftT L L).pushElement (.expr valHT) (lineCol src L.length).1 (lineCol src L.length).2) false hn hsR
  refine ⟨m, ?_⟩
  unfold compile2 compile2Inner
  rw [hparse]
  simp only []
  rw [attachEscapes_noEsc _ (by
    intro t ht
    simp only [List.mem_cons, List.mem_append, List.not_mem_nil, or_false] at ht
    rcases ht with rfl | ((h | rfl | rfl | rfl | rfl) | h) | rfl
    · show ((some Rule.r_template : Option Rule) == some Rule.r_escape) = false; decide
    · exact rawTok_rule _ _ t h
    · show ((some Rule.r_expression : Option Rule) == some Rule.r_escape) = false; decide
    · show ((some Rule.r_reference : Option Rule) == some Rule.r_escape) = false; decide
    · show ((some Rule.r_path_inline : Option Rule) == some Rule.r_escape) = false; decide
    · show ((some Rule.r_path_id : Option Rule) == some Rule.r_escape) = false; decide
    · exact rawTok_rule _ _ t h
    · show ((none : Option Rule) == some Rule.r_escape) = false; decide)]
  rw [← hn]
  simp only [List.map_cons, List.map_append, List.length_cons, List.length_append, List.length_map, List.map_nil, List.length_nil,
    List.append_assoc, List.cons_append, List.nil_append]
  rw [show 4 * ((rawTok 0 L.length).length + ((rawTok (L.length + 5 + W.length) src.length).length + (0 + 1) + 1 + 1 + 1 + 1) + 1) + 16
      = ((3 * (rawTok 0 L.length).length + 3 * (rawTok (L.length + 5 + W.length) src.length).length + 36)
          + ((rawTok (L.length + 5 + W.length) src.length).length + 2) + 1) + (1 + (rawTok 0 L.length).length) by omega]
  rw [loop_head src L opts _ _ _ hs0]
  obtain ⟨r0, rest, hrest, hr0⟩ := tail_head (L.length + 5) W.length src.length (by omega)
  have hep : (if L = [] then none else some L.length : Option Nat).getD 0 = L.length := by
    by_cases hLe : L = [] <;> simp [hLe]
  have hstep := step_value src opts
    (3 * (rawTok 0 L.length).length + 3 * (rawTok (L.length + 5 + W.length) src.length).length + 33
      + ((rawTok (L.length + 5 + W.length) src.length).length + 2))
    L.length (leftT L L) _ r0 rest hep hv hr0
  have hloop := loop_step src opts
    (3 * (rawTok 0 L.length).length + 3 * (rawTok (L.length + 5 + W.length) src.length).length + 33
      + ((rawTok (L.length + 5 + W.length) src.length).length + 2) + 3) (st1 L) _
    ⟨some .r_expression, L.length, L.length + 5, []⟩ _ _ (by unfold st1; exact hstep)
  rw [hrest] at htail ⊢
  simp only [plainCTok]
  rw [show 3 * (rawTok 0 L.length).length + 3 * (rawTok (L.length + 5 + W.length) src.length).length + 36
        + ((rawTok (L.length + 5 + W.length) src.length).length + 2) + 1
      = 3 * (rawTok 0 L.length).length + 3 * (rawTok (L.length + 5 + W.length) src.length).length + 33
        + ((rawTok (L.length + 5 + W.length) src.length).length + 2) + 3 + 1 by omega]
  rw [hloop]
  rw [show 3 * (rawTok 0 L.length).length + 3 * (rawTok (L.length + 5 + W.length) src.length).length + 33
        + ((rawTok (L.length + 5 + W.length) src.length).length + 2) + 3
      = 3 * (rawTok 0 L.length).length + 3 * (rawTok (L.length + 5 + W.length) src.length).length + 36
        + ((rawTok (L.length + 5 + W.length) src.length).length + 2) by omega]
  rw [htail]
  simp [Tmpl.pushElement, Tmpl.elements]

/-- the same with the position table: the tag's entry is the line and column of its `{{` -/
theorem compile_text_value_text_pos (L W R' : Str) (opts : TemplateOptions)
    (hL : L = [] ∨ TextBeforeTag L) (hA : TextAfterTag W R') :
    ∃ extra, compile2 (L ++ valSrc ++ (W ++ R')) opts = .ok (.mk opts.name
      ((leftT L L).elements ++ [.expr valHT] ++ (if W ++ R' = [] then [] else [.raw (W ++ R')]))
      ((leftT L L).mapping ++ [lineCol (L ++ valSrc ++ (W ++ R')) L.length] ++ extra)) := by
  have hparse := parse_text_value_text L W R' hL hA
  simp only [] at hparse
  have hn : (L ++ valSrc ++ (W ++ R')).length = L.length + 5 + W.length + R'.length := by
    simp [valSrc]; omega
  have hs0 : slice? (L ++ valSrc ++ (W ++ R')) 0 L.length = some L := by
    rw [List.append_assoc]; exact slice_prefix L _
  have hsR : slice? (L ++ valSrc ++ (W ++ R')) (L.length + 5) (L ++ valSrc ++ (W ++ R')).length = some (W ++ R') :=
    slice_suffix (L ++ valSrc) (W ++ R') _ (by simp [valSrc])
  have hv : tokStr (L ++ valSrc ++ (W ++ R')) ⟨some .r_path_id, L.length + 2, L.length + 3, []⟩ = ['v'] := by
    have : L ++ valSrc ++ (W ++ R') = (L ++ ['{', '{']) ++ ['v'] ++ (['}', '}'] ++ (W ++ R')) := by simp [valSrc]
    rw [this]
    exact tokStr_mid (L ++ ['{', '{']) ['v'] _ _ (by simp) (by simp)
  generalize hsrc : L ++ valSrc ++ (W ++ R') = src at *
  obtain ⟨m, htail⟩ := loop_tail_pos src W R' opts (3 * (rawTok 0 L.length).length + 3 * (rawTok (L.length + 5 + W.length) src.length).length + 36)
    (L.length + 5) ((leftT L L).pushElement (.expr valHT) (lineCol src L.length).1 (lineCol src L.length).2) false hn hsR
  refine ⟨m, ?_⟩
  unfold compile2 compile2Inner
  rw [hparse]
  simp only []
  rw [attachEscapes_noEsc _ (by
    intro t ht
    simp only [List.mem_cons, List.mem_append, List.not_mem_nil, or_false] at ht
    rcases ht with rfl | ((h | rfl | rfl | rfl | rfl) | h) | rfl
    · show ((some Rule.r_template : Option Rule) == some Rule.r_escape) = false; decide
    · exact rawTok_rule _ _ t h
    · show ((some Rule.r_expression : Option Rule) == some Rule.r_escape) = false; decide
    · show ((some Rule.r_reference : Option Rule) == some Rule.r_escape) = false; decide
    · show ((some Rule.r_path_inline : Option Rule) == some Rule.r_escape) = false; decide
    · show ((some Rule.r_path_id : Option Rule) == some Rule.r_escape) = false; decide
    · exact rawTok_rule _ _ t h
    · show ((none : Option Rule) == some Rule.r_escape) = false; decide)]
  rw [← hn]
  simp only [List.map_cons, List.map_append, List.length_cons, List.length_append, List.length_map, List.map_nil, List.length_nil,
    List.append_assoc, List.cons_append, List.nil_append]
  rw [show 4 * ((rawTok 0 L.length).length + ((rawTok (L.length + 5 + W.length) src.length).length + (0 + 1) + 1 + 1 + 1 + 1) + 1) + 16
      = ((3 * (rawTok 0 L.length).length + 3 * (rawTok (L.length + 5 + W.length) src.length).length + 36)
          + ((rawTok (L.length + 5 + W.length) src.length).length + 2) + 1) + (1 + (rawTok 0 L.length).length) by omega]
  rw [loop_head src L opts _ _ _ hs0]
  obtain ⟨r0, rest, hrest, hr0⟩ := tail_head (L.length + 5) W.length src.length (by omega)
  have hep : (if L = [] then none else some L.length : Option Nat).getD 0 = L.length := by
    by_cases hLe : L = [] <;> simp [hLe]
  have hstep := step_value src opts
    (3 * (rawTok 0 L.length).length + 3 * (rawTok (L.length + 5 + W.length) src.length).length + 33
      + ((rawTok (L.length + 5 + W.length) src.length).length + 2))
    L.length (leftT L L) _ r0 rest hep hv hr0
  have hloop := loop_step src opts
    (3 * (rawTok 0 L.length).length + 3 * (rawTok (L.length + 5 + W.length) src.length).length + 33
      + ((rawTok (L.length + 5 + W.length) src.length).length + 2) + 3) (st1 L) _
    ⟨some .r_expression, L.length, L.length + 5, []⟩ _ _ (by unfold st1; exact hstep)
  rw [hrest] at htail ⊢
  simp only [plainCTok]
  rw [show 3 * (rawTok 0 L.length).length + 3 * (rawTok (L.length + 5 + W.length) src.length).length + 36
        + ((rawTok (L.length + 5 + W.length) src.length).length + 2) + 1
      = 3 * (rawTok 0 L.length).length + 3 * (rawTok (L.length + 5 + W.length) src.length).length + 33
        + ((rawTok (L.length + 5 + W.length) src.length).length + 2) + 3 + 1 by omega]
  rw [hloop]
  rw [show 3 * (rawTok 0 L.length).length + 3 * (rawTok (L.length + 5 + W.length) src.length).length + 33
        + ((rawTok (L.length + 5 + W.length) src.length).length + 2) + 3
      = 3 * (rawTok 0 L.length).length + 3 * (rawTok (L.length + 5 + W.length) src.length).length + 36
        + ((rawTok (L.length + 5 + W.length) src.length).length + 2) by omega]
  rw [htail]
  simp [Tmpl.pushElement, Tmpl.elements, Tmpl.mapping]


end Hbs.PlainText
