import HbsModel.Lemmas.CompileHtmlName
import HbsModel.Lemmas.PlainTags
/-
  `{{name}}`, `{{{name}}}`, `{{&name}}` for every identifier as compiled tags (`CTag`), so that any number of them –
  with different names – can stand between texts (Lemmas/CompileTags).
-/
namespace Hbs.PlainText
open Hbs Hbs.Pest Hbs.Grammar

/-- one loop iteration of compile2 over a name-only tag of any identifier -/
theorem step_ident_tag (html : Bool) (nm : Str) (hthis : (nm == str "this") = false) (o len : Nat) (ho : o + nm.length < len)
    (src : Str) (opts : TemplateOptions) (f a : Nat) (T0 : Tmpl) (ep : Option Nat) (r0 : CTok) (rest : List CTok)
    (hv : tokStr src ⟨some .r_path_id, o + a, o + nm.length + a, []⟩ = nm) (hep : ep.getD 0 = a) (hr0 : a + len ≤ r0.e) :
    compileLoop src opts (f + 3 + 1) { tmplStack := [T0], endPos := ep }
        ((identToksG (if html then .r_html_expression else .r_expression) o nm.length len).map (fun x => plainCTok (shiftTok a x)) ++ r0 :: rest)
      = compileLoop src opts (f + 3)
          { tmplStack := [T0.pushElement (if html then .html (nameHT nm) else .expr (nameHT nm)) (lineCol src a).1 (lineCol src a).2],
            endPos := some (a + len) }
          (r0 :: rest) := by
  have hv' : tokStr src ⟨some .r_reference, o + a, o + nm.length + a, []⟩ = nm := hv
  have h1 : ¬ (r0.e < a + len) := by omega
  have h2 : o + nm.length + a < r0.e := by omega
  have h3 : len + a = a + len := by omega
  cases html <;>
    simp [identToksG, compileLoop, plainCTok, shiftTok, compileStep, hep, isBlockStart, isExprLike, parseExpression, parseName, parsePathSegs,
      parseExprLoop, hv, hv', h1, h2, h3, frontMut, nameHT, hthis]

theorem step_ident_tag_gap (html : Bool) (nm : Str) (hthis : (nm == str "this") = false) (o len : Nat) (ho : o + nm.length < len)
    (src : Str) (opts : TemplateOptions) (f g a : Nat) (W : Str) (T0 : Tmpl) (r0 : CTok) (rest : List CTok)
    (hv : tokStr src ⟨some .r_path_id, o + a, o + nm.length + a, []⟩ = nm) (hga : a ≠ g) (hgap : slice? src g a = some W) (hr0 : a + len ≤ r0.e) :
    compileLoop src opts (f + 3 + 1) { tmplStack := [T0], endPos := some g }
        ((identToksG (if html then .r_html_expression else .r_expression) o nm.length len).map (fun x => plainCTok (shiftTok a x)) ++ r0 :: rest)
      = compileLoop src opts (f + 3)
          { tmplStack := [(T0.pushElement (.raw W) (lineCol src a).1 (lineCol src a).2).pushElement
              (if html then .html (nameHT nm) else .expr (nameHT nm)) (lineCol src a).1 (lineCol src a).2], endPos := some (a + len) }
          (r0 :: rest) := by
  have hv' : tokStr src ⟨some .r_reference, o + a, o + nm.length + a, []⟩ = nm := hv
  have h1 : ¬ (r0.e < a + len) := by omega
  have h2 : o + nm.length + a < r0.e := by omega
  have h3 : len + a = a + len := by omega
  cases html <;>
    simp [identToksG, compileLoop, plainCTok, shiftTok, compileStep, hga, hgap, rawString, isBlockStart, isExprLike, parseExpression, parseName,
      parsePathSegs, parseExprLoop, hv, hv', h1, h2, h3, frontMut, nameHT, hthis]

/-- the compiled tag  `{{` pre name cl  (pre = nothing, `{` or `&`) -/
def identCTag (pre cl nm : Str) (html : Bool) (hcl : 0 < cl.length) (hthis : (nm == str "this") = false) : CTag where
  tag := ⟨pre ++ nm ++ cl, identToksG (if html then .r_html_expression else .r_expression) (pre.length + 2) nm.length ((pre ++ nm ++ cl).length + 2)⟩
  el := if html then .html (nameHT nm) else .expr (nameHT nm)
  noEsc := by
    intro x hx
    simp only [identToksG, List.mem_cons, List.not_mem_nil, or_false] at hx
    rcases hx with rfl | rfl | rfl | rfl
    · cases html <;> rfl
    · rfl
    · rfl
    · rfl
  nonempty := by simp [identToksG]
  step := by
    intro src opts f a T0 ep r0 rest hin hep hr0
    have hvv : tokStr src ⟨some .r_path_id, pre.length + 2 + a, pre.length + 2 + nm.length + a, []⟩ = nm := by
      have := tokStr_of_slice src _ a ((pre ++ nm ++ cl).length + 2) (pre.length + 2) (pre.length + 2 + nm.length) (some .r_path_id) hin
        (by omega) (by simp; omega)
      rw [this, show pre.length + 2 + nm.length - (pre.length + 2) = nm.length by omega]
      show (('{' :: '{' :: (pre ++ nm ++ cl)).drop (pre.length + 2)).take nm.length = nm
      have : '{' :: '{' :: (pre ++ nm ++ cl) = ('{' :: '{' :: pre) ++ (nm ++ cl) := by simp
      rw [this, List.drop_left' (by simp)]
      simp
    exact step_ident_tag html nm hthis (pre.length + 2) ((pre ++ nm ++ cl).length + 2) (by simp; omega) src opts f a T0 ep r0 rest hvv hep hr0
  stepGap := by
    intro src opts f g a W T0 r0 rest hin hga hgap hr0
    have hvv : tokStr src ⟨some .r_path_id, pre.length + 2 + a, pre.length + 2 + nm.length + a, []⟩ = nm := by
      have := tokStr_of_slice src _ a ((pre ++ nm ++ cl).length + 2) (pre.length + 2) (pre.length + 2 + nm.length) (some .r_path_id) hin
        (by omega) (by simp; omega)
      rw [this, show pre.length + 2 + nm.length - (pre.length + 2) = nm.length by omega]
      show (('{' :: '{' :: (pre ++ nm ++ cl)).drop (pre.length + 2)).take nm.length = nm
      have : '{' :: '{' :: (pre ++ nm ++ cl) = ('{' :: '{' :: pre) ++ (nm ++ cl) := by simp
      rw [this, List.drop_left' (by simp)]
      simp
    exact step_ident_tag_gap html nm hthis (pre.length + 2) ((pre ++ nm ++ cl).length + 2) (by simp; omega) src opts f g a W T0 r0 rest hvv hga hgap hr0

end Hbs.PlainText
