import HbsModel.Lemmas.IfBlock
/-
  compile2 on  L ++ "{{#if v}}⏎A⏎{{/if}}" ++ R  where both block tags stand ALONE ON THEIR LINES: the standalone-line rule removes
  the indentation in front of each tag and the line break behind it – and nothing else.
-/
namespace Hbs.PlainText
open Hbs Hbs.Pest Hbs.Grammar

def ilSrc : Str := "{{#if v}}\nA\n{{/if}}".toList
def ilToks : List (Tok Rule) :=
  [⟨some .r_helper_block_start, 0, 9⟩, ⟨some .r_identifier, 3, 5⟩, ⟨some .r_helper_parameter, 6, 7⟩, ⟨some .r_reference, 6, 7⟩,
   ⟨some .r_path_inline, 6, 7⟩, ⟨some .r_path_id, 6, 7⟩, ⟨some .r_template, 10, 12⟩, ⟨some .r_raw_text, 10, 12⟩,
   ⟨some .r_helper_block_end, 12, 19⟩, ⟨some .r_identifier, 15, 17⟩]

theorem ilSrc_eq : ilSrc = ['{', '{', '#', 'i', 'f', ' ', 'v', '}', '}', '\n', 'A', '\n', '{', '{', '/', 'i', 'f', '}', '}'] := by decide

/-- decided on the regenerated grammar: the block is one element of `template`; the line break behind the opening tag is
    skipped by pest (the pair of the body text begins behind it) -/
theorem il_decided : evalK rules ws false 400 .nonAtomic templateAlt 0 ilSrc = some (.ok 19 [] ilToks) :=
  KRes.isOkWith_eq (by decide)

theorem il_tagAt : TagAt ilSrc 400 ilToks := by
  intro p tail
  have := evalK_at rules ws rules_noSoi false tail (by simp) 400 .nonAtomic templateAlt rfl ilSrc _ il_decided p
  refine ⟨?_, by simp [shiftRes, embedK]⟩
  rw [this]
  simp [shiftRes, embedK, ilSrc_eq, Nat.add_comm]

/-- the pair stream of  L ++ {{#if v}}⏎A⏎{{/if}} ++ W ++ R' -/
theorem parse_text_il_text (L W R' : Str) (hL : L = [] ∨ TextBeforeTag L) (hA : TextAfterTag W R') :
    let a := L.length
    let b := a + 19
    let d := b + W.length
    let n := d + R'.length
    Pest.parse rules ws .r_handlebars (L ++ ilSrc ++ (W ++ R'))
      = .ok ⟨n, []⟩ (⟨some .r_template, 0, if R' = [] then b else n⟩ ::
          (rawTok 0 a ++ [⟨some .r_helper_block_start, a, a + 9⟩, ⟨some .r_identifier, a + 3, a + 5⟩,
              ⟨some .r_helper_parameter, a + 6, a + 7⟩, ⟨some .r_reference, a + 6, a + 7⟩, ⟨some .r_path_inline, a + 6, a + 7⟩,
              ⟨some .r_path_id, a + 6, a + 7⟩, ⟨some .r_template, a + 10, a + 12⟩, ⟨some .r_raw_text, a + 10, a + 12⟩,
              ⟨some .r_helper_block_end, a + 12, a + 19⟩, ⟨some .r_identifier, a + 15, a + 17⟩]
            ++ rawTok d n ++ [⟨none, n, n⟩])) := by
  intro a b d n
  have h := handlebars_text_tag_text L ['#', 'i', 'f', ' ', 'v', '}', '}', '\n', 'A', '\n', '{', '{', '/', 'i', 'f', '}', '}'] W R' 400 _ hL
    (by rw [← ilSrc_eq]; exact il_tagAt) hA
  have hn : (L ++ ilSrc ++ (W ++ R')).length = n := by simp [n, d, b, a, ilSrc_eq]; omega
  simp only [] at h
  rw [ilSrc_eq]
  rw [ilSrc_eq] at hn
  have h' := h.weaken (F' := defaultFuel (L ++ ['{', '{', '#', 'i', 'f', ' ', 'v', '}', '}', '\n', 'A', '\n', '{', '{', '/', 'i', 'f', '}', '}'] ++ (W ++ R')).length) (by
    unfold defaultFuel
    rw [hn]
    have : 19 ≤ n := by simp only [n, d, b]; omega
    omega)
  unfold Pest.parse
  refine Eq.trans h'.1 ?_
  have e1 : (L ++ '{' :: '{' :: ['#', 'i', 'f', ' ', 'v', '}', '}', '\n', 'A', '\n', '{', '{', '/', 'i', 'f', '}', '}'] ++ (W ++ R')).length = n := hn
  simp only [e1, ilToks, List.map, shiftTok, Nat.zero_add, List.length_cons, List.length_nil]
  simp only [Nat.add_comm _ L.length]
  rfl

/-- the helper block opened by a tag that stands alone on its line: it asks for the indentation of what it writes first -/
def ifOpenSA : HelperT :=
  HelperG.new { name := .name ['i', 'f'], params := [.path (Path.new ['v'] [.named ['v']])], hash := [], blockParam := none,
                omitPreWs := false, omitProWs := false } true false true

theorem step_if_start_sa (src : Str) (opts : TemplateOptions) (f a : Nat) (T0 T0' : Tmpl) (ep : Option Nat) (s e : Nat) (rest : List CTok)
    (hep : ep.getD 0 = a)
    (hid : tokStr src ⟨some .r_identifier, a + 3, a + 5, []⟩ = ['i', 'f'])
    (hv : tokStr src ⟨some .r_reference, a + 6, a + 7, []⟩ = ['v'])
    (he : a + 9 ≤ e)
    (hps : processStandalone [T0] src a (a + 9) true opts.isPartial = .ok (true, [T0'])) :
    compileStep src opts (f + 6) { tmplStack := [T0], endPos := ep } ⟨some .r_helper_block_start, a, a + 9, []⟩
        (⟨some .r_identifier, a + 3, a + 5, []⟩ :: ⟨some .r_helper_parameter, a + 6, a + 7, []⟩ ::
         ⟨some .r_reference, a + 6, a + 7, []⟩ :: ⟨some .r_path_inline, a + 6, a + 7, []⟩ :: ⟨some .r_path_id, a + 6, a + 7, []⟩ ::
         ⟨some .r_template, s, e, []⟩ :: rest)
      = .ok ({ tmplStack := [T0'.pushMapping (lineCol src a).1 (lineCol src a).2], helperStack := [ifOpenSA], trimLine := true,
               endPos := some (a + 9) }, ⟨some .r_template, s, e, []⟩ :: rest) := by
  have hv' : tokStr src ⟨some .r_path_id, a + 6, a + 7, []⟩ = ['v'] := hv
  have h1 : ¬ (e < a + 9) := by omega
  have h2 : a + 7 < e := by omega
  simp [compileStep, hep, isBlockStart, isExprLike, parseExpression, parseName, parseParam, parsePathSegs, parseExprLoop, hid, hv, hv',
    frontMut, ifOpenSA, str, hps, HelperG.new, dropInside, h1, h2]

theorem step_inner_template_tl (src : Str) (opts : TemplateOptions) (fuel : Nat) (stk : List Tmpl) (hs : List HelperT) (tl : Bool) (p s e : Nat)
    (rest : List CTok) :
    compileStep src opts fuel { tmplStack := stk, helperStack := hs, trimLine := tl, endPos := some p } ⟨some .r_template, s, e, []⟩ rest
      = .ok ({ tmplStack := Tmpl.empty :: stk, helperStack := hs, trimLine := tl, endPos := some p }, rest) := by
  simp [compileStep, isBlockStart, isExprLike]

/-- the first text of the body behind a standalone opening tag: cut from the END OF THE TAG (the whitespace pest skipped comes
    back), then the rest of the tag's line – blanks and one line break – is dropped -/
theorem step_inner_raw_tl (src X : Str) (opts : TemplateOptions) (fuel : Nat) (T : Tmpl) (stk : List Tmpl) (hs : List HelperT) (p s e : Nat)
    (rest : List CTok) (hsl : slice? src p e = some X) (hlen : e - s ≤ X.length) (hps : p ≤ s) :
    compileStep src opts fuel { tmplStack := T :: stk, helperStack := hs, trimLine := true, endPos := some p } ⟨some .r_raw_text, s, e, []⟩ rest
      = .ok ({ tmplStack := T.pushElement (.raw (stripFirstNewline (trimStartBlank X))) (lineCol src s).1 (lineCol src s).2 :: stk,
               helperStack := hs, endPos := some e }, rest) := by
  have hst : (if s = p then s else p) = p := by
    by_cases h : s = p <;> simp [h]
  have hl : ¬ X.length < e - s := by omega
  simp [compileStep, hst, hsl, rawString, removeEscapes, frontMut, hl]

theorem step_if_end_sa (src : Str) (opts : TemplateOptions) (f a : Nat) (T0 body body' : Tmpl) (r0 : CTok) (rest : List CTok)
    (hid : tokStr src ⟨some .r_identifier, a + 3, a + 5, []⟩ = ['i', 'f'])
    (hr0 : a + 7 ≤ r0.e)
    (hps : processStandalone [body, T0] src a (a + 7) true opts.isPartial = .ok (true, [body', T0])) :
    compileStep src opts (f + 4) { tmplStack := [body, T0], helperStack := [ifOpenSA], endPos := some a }
        ⟨some .r_helper_block_end, a, a + 7, []⟩ (⟨some .r_identifier, a + 3, a + 5, []⟩ :: r0 :: rest)
      = .ok ({ tmplStack := [T0.pushElemOnly (.block { ifOpenSA with template := some body' })], trimLine := true,
               endPos := some (a + 7) }, r0 :: rest) := by
  have h1 : ¬ (r0.e < a + 7) := by omega
  simp [compileStep, isBlockStart, isExprLike, parseExpression, parseName, parseExprLoop, hid, h1, frontMut, ifOpenSA, str, hps,
    HelperG.new, revertChainAndSet, Param.asName?]

/-! ### the standalone-line rule at the two tags -/

theorem standalone_before_newline (L t : Str) (isP : Bool) : standalone L ('\n' :: t) isP = endsWithEmptyLine L := by
  simp [standalone, startsWithEmptyLine, trimStartBlank, List.dropWhile_cons, isBlank, startsWithNewline, isNewline]

theorem endsWithEmptyLine_nl (X : Str) : endsWithEmptyLine (X ++ ['\n']) = true := by
  have ht : trimEndBlank (X ++ ['\n']) = X ++ ['\n'] := by
    simp [trimEndBlank, dropWhileEnd, List.reverse_append, List.dropWhile_cons, isBlank]
  simp [endsWithEmptyLine, ht, endsWithNewline, isNewline]

/-- a tag behind a complete line and in front of the rest of an empty line is a standalone tag: the last text in front of
    it loses its trailing blanks -/
theorem processStandalone_own_line (body T0 : Tmpl) (src : Str) (s e : Nat) (isP : Bool) (X R : Str)
    (hb : slice? src 0 s = some (X ++ ['\n'])) (hcont : slice? src e src.length = some R)
    (hR : (startsWithEmptyLine R || (!isP && (trimStartBlank R).isEmpty)) = true) :
    processStandalone [body, T0] src s e true isP = .ok (true, [mapLastRaw trimEndBlank body, T0]) := by
  simp [processStandalone, hcont, hb, hR, endsWithEmptyLine_nl, frontMut]

/-- the body of the block as compile2 stores it: the line `A` with its line break -/
def ilBody (lc : Nat × Nat) : Tmpl := Tmpl.empty.pushElement (.raw ['A', '\n']) lc.1 lc.2

theorem ilBody_trim (lc : Nat × Nat) : mapLastRaw trimEndBlank (ilBody lc) = ilBody lc := by
  simp [ilBody, mapLastRaw, Tmpl.empty, Tmpl.pushElement, Tmpl.elements, Tmpl.setElements, Tmpl.name, Tmpl.mapping, trimEndBlank,
    dropWhileEnd, isBlank]

/-- **compile2 on  L ++ {{#if v}}⏎A⏎{{/if}} ++ R  with both tags alone on their lines** (`L` is empty or ends an empty line; `R`
    begins with the rest of an empty line): the text in front without the indentation of the opening tag, ONE block element whose
    body is the line `A⏎` (the line break behind the opening tag is gone), and the text behind without the rest of the closing
    tag's line -/
theorem compile_text_il_text (L W R' : Str) (opts : TemplateOptions)
    (hL : L = [] ∨ TextBeforeTag L) (hA : TextAfterTag W R')
    (hLsa : endsWithEmptyLine L = true)
    (hRsa : (startsWithEmptyLine (W ++ R') || (!opts.isPartial && (trimStartBlank (W ++ R')).isEmpty)) = true) :
    ∃ m, compile2 (L ++ ilSrc ++ (W ++ R')) opts = .ok (.mk opts.name
      ((leftT L (trimEndBlank L)).elements ++ [.block { ifOpenSA with template := some (ilBody (lineCol (L ++ ilSrc ++ (W ++ R')) (L.length + 10))) }]
        ++ (if W ++ R' = [] then [] else [.raw (stripFirstNewline (trimStartBlank (W ++ R')))])) m) := by
  have hparse := parse_text_il_text L W R' hL hA
  simp only [] at hparse
  have hn : (L ++ ilSrc ++ (W ++ R')).length = L.length + 19 + W.length + R'.length := by
    simp [ilSrc_eq]; omega
  have hs0 : slice? (L ++ ilSrc ++ (W ++ R')) 0 L.length = some L := by
    rw [List.append_assoc]; exact slice_prefix L _
  have hsR : slice? (L ++ ilSrc ++ (W ++ R')) (L.length + 19) (L ++ ilSrc ++ (W ++ R')).length = some (W ++ R') :=
    slice_suffix (L ++ ilSrc) (W ++ R') _ (by simp [ilSrc_eq])
  have hid1 : tokStr (L ++ ilSrc ++ (W ++ R')) ⟨some .r_identifier, L.length + 3, L.length + 5, []⟩ = ['i', 'f'] := by
    have : L ++ ilSrc ++ (W ++ R') = (L ++ ['{', '{', '#']) ++ ['i', 'f'] ++ ([' ', 'v', '}', '}', '\n', 'A', '\n', '{', '{', '/', 'i', 'f', '}', '}'] ++ (W ++ R')) := by
      simp [ilSrc_eq]
    rw [this]
    exact tokStr_mid (L ++ ['{', '{', '#']) ['i', 'f'] _ _ (by simp) (by simp)
  have hv : tokStr (L ++ ilSrc ++ (W ++ R')) ⟨some .r_reference, L.length + 6, L.length + 7, []⟩ = ['v'] := by
    have : L ++ ilSrc ++ (W ++ R') = (L ++ ['{', '{', '#', 'i', 'f', ' ']) ++ ['v'] ++ (['}', '}', '\n', 'A', '\n', '{', '{', '/', 'i', 'f', '}', '}'] ++ (W ++ R')) := by
      simp [ilSrc_eq]
    rw [this]
    exact tokStr_mid (L ++ ['{', '{', '#', 'i', 'f', ' ']) ['v'] _ _ (by simp) (by simp)
  have hid2 : tokStr (L ++ ilSrc ++ (W ++ R')) ⟨some .r_identifier, L.length + 15, L.length + 17, []⟩ = ['i', 'f'] := by
    have : L ++ ilSrc ++ (W ++ R') = (L ++ ['{', '{', '#', 'i', 'f', ' ', 'v', '}', '}', '\n', 'A', '\n', '{', '{', '/']) ++ ['i', 'f'] ++ (['}', '}'] ++ (W ++ R')) := by
      simp [ilSrc_eq]
    rw [this]
    exact tokStr_mid (L ++ ['{', '{', '#', 'i', 'f', ' ', 'v', '}', '}', '\n', 'A', '\n', '{', '{', '/']) ['i', 'f'] _ _ (by simp) (by simp)
  have hA1 : slice? (L ++ ilSrc ++ (W ++ R')) (L.length + 9) (L.length + 12) = some ['\n', 'A', '\n'] := by
    have : L ++ ilSrc ++ (W ++ R') = (L ++ ['{', '{', '#', 'i', 'f', ' ', 'v', '}', '}']) ++ ['\n', 'A', '\n'] ++ (['{', '{', '/', 'i', 'f', '}', '}'] ++ (W ++ R')) := by
      simp [ilSrc_eq]
    rw [this]
    have := slice_middle (L ++ ['{', '{', '#', 'i', 'f', ' ', 'v', '}', '}']) ['\n', 'A', '\n'] (['{', '{', '/', 'i', 'f', '}', '}'] ++ (W ++ R'))
    simpa using this
  have hc1 : slice? (L ++ ilSrc ++ (W ++ R')) (L.length + 9) (L ++ ilSrc ++ (W ++ R')).length
      = some ('\n' :: (['A', '\n', '{', '{', '/', 'i', 'f', '}', '}'] ++ (W ++ R'))) := by
    have : L ++ ilSrc ++ (W ++ R') = (L ++ ['{', '{', '#', 'i', 'f', ' ', 'v', '}', '}']) ++ ('\n' :: (['A', '\n', '{', '{', '/', 'i', 'f', '}', '}'] ++ (W ++ R'))) := by
      simp [ilSrc_eq]
    rw [this]
    exact slice_suffix _ _ _ (by simp)
  have hb2 : slice? (L ++ ilSrc ++ (W ++ R')) 0 (L.length + 12) = some ((L ++ ['{', '{', '#', 'i', 'f', ' ', 'v', '}', '}', '\n', 'A']) ++ ['\n']) := by
    have : L ++ ilSrc ++ (W ++ R') = ((L ++ ['{', '{', '#', 'i', 'f', ' ', 'v', '}', '}', '\n', 'A']) ++ ['\n']) ++ (['{', '{', '/', 'i', 'f', '}', '}'] ++ (W ++ R')) := by
      simp [ilSrc_eq]
    rw [this]
    have := slice_prefix ((L ++ ['{', '{', '#', 'i', 'f', ' ', 'v', '}', '}', '\n', 'A']) ++ ['\n']) (['{', '{', '/', 'i', 'f', '}', '}'] ++ (W ++ R'))
    simpa using this
  generalize hsrc : L ++ ilSrc ++ (W ++ R') = src at *
  have hps1 : processStandalone [leftT L L] src L.length (L.length + 9) true opts.isPartial = .ok (true, [leftT L (trimEndBlank L)]) := by
    have := processStandalone_spec src L _ (L.length + 9) opts.isPartial hs0 hc1
    rw [standalone_before_newline, hLsa] at this
    simpa using this
  have hps2 : ∀ (T0 : Tmpl), processStandalone [ilBody (lineCol src (L.length + 10)), T0] src (L.length + 12) (L.length + 12 + 7) true opts.isPartial
      = .ok (true, [ilBody (lineCol src (L.length + 10)), T0]) := fun T0 => by
    have := processStandalone_own_line (ilBody (lineCol src (L.length + 10))) T0 src (L.length + 12) (L.length + 12 + 7) opts.isPartial _ (W ++ R') hb2
      (by rw [show L.length + 12 + 7 = L.length + 19 by omega]; exact hsR) hRsa
    rw [ilBody_trim] at this
    exact this
  obtain ⟨m, htail⟩ := loop_tail src W R' opts (3 * (rawTok 0 L.length).length + 3 * (rawTok (L.length + 19 + W.length) src.length).length + 57)
    (L.length + 19) (((leftT L (trimEndBlank L)).pushMapping (lineCol src L.length).1 (lineCol src L.length).2).pushElemOnly
      (.block { ifOpenSA with template := some (ilBody (lineCol src (L.length + 10))) })) true hn hsR
  refine ⟨m, ?_⟩
  unfold compile2 compile2Inner
  rw [hparse]
  simp only []
  rw [attachEscapes_noEsc _ (by
    intro t ht
    simp only [List.mem_cons, List.mem_append, List.not_mem_nil, or_false] at ht
    rcases ht with rfl | ((h | rfl | rfl | rfl | rfl | rfl | rfl | rfl | rfl | rfl | rfl) | h) | rfl
    · show ((some Rule.r_template : Option Rule) == some Rule.r_escape) = false; decide
    · exact rawTok_rule _ _ t h
    · show ((some Rule.r_helper_block_start : Option Rule) == some Rule.r_escape) = false; decide
    · show ((some Rule.r_identifier : Option Rule) == some Rule.r_escape) = false; decide
    · show ((some Rule.r_helper_parameter : Option Rule) == some Rule.r_escape) = false; decide
    · show ((some Rule.r_reference : Option Rule) == some Rule.r_escape) = false; decide
    · show ((some Rule.r_path_inline : Option Rule) == some Rule.r_escape) = false; decide
    · show ((some Rule.r_path_id : Option Rule) == some Rule.r_escape) = false; decide
    · show ((some Rule.r_template : Option Rule) == some Rule.r_escape) = false; decide
    · show ((some Rule.r_raw_text : Option Rule) == some Rule.r_escape) = false; decide
    · show ((some Rule.r_helper_block_end : Option Rule) == some Rule.r_escape) = false; decide
    · show ((some Rule.r_identifier : Option Rule) == some Rule.r_escape) = false; decide
    · exact rawTok_rule _ _ t h
    · show ((none : Option Rule) == some Rule.r_escape) = false; decide)]
  rw [← hn]
  simp only [List.map_cons, List.map_append, List.length_cons, List.length_append, List.length_map, List.map_nil, List.length_nil,
    List.append_assoc, List.cons_append, List.nil_append]
  rw [show 4 * ((rawTok 0 L.length).length + ((rawTok (L.length + 19 + W.length) src.length).length + (0 + 1) + 1 + 1 + 1 + 1 + 1 + 1 + 1 + 1 + 1 + 1) + 1) + 16
      = ((3 * (rawTok 0 L.length).length + 3 * (rawTok (L.length + 19 + W.length) src.length).length + 54 + ((rawTok (L.length + 19 + W.length) src.length).length + 2)) + 6 + 1) + (1 + (rawTok 0 L.length).length) by omega]
  rw [loop_head src L opts _ _ _ hs0]
  obtain ⟨r0, rest, hrest, hr0⟩ := tail_head (L.length + 19) W.length src.length (by omega)
  have hep : (if L = [] then none else some L.length : Option Nat).getD 0 = L.length := by
    by_cases hLe : L = [] <;> simp [hLe]
  rw [hrest] at htail ⊢
  simp only [plainCTok]
  -- {{#if v}} alone on its line
  have hstep1 := step_if_start_sa src opts (3 * (rawTok 0 L.length).length + 3 * (rawTok (L.length + 19 + W.length) src.length).length + 54 + ((rawTok (L.length + 19 + W.length) src.length).length + 2)) L.length (leftT L L) (leftT L (trimEndBlank L)) _ (L.length + 10) (L.length + 12)
    (⟨some .r_raw_text, L.length + 10, L.length + 12, []⟩ :: ⟨some .r_helper_block_end, L.length + 12, L.length + 19, []⟩ ::
      ⟨some .r_identifier, L.length + 15, L.length + 17, []⟩ :: r0 :: rest) hep hid1 hv (by omega) hps1
  rw [loop_step src opts _ (st1 L) _ _ _ _ (by unfold st1; exact hstep1)]
  -- the body: its first line break belongs to the opening tag's line
  rw [show 3 * (rawTok 0 L.length).length + 3 * (rawTok (L.length + 19 + W.length) src.length).length + 54 + ((rawTok (L.length + 19 + W.length) src.length).length + 2) + 6 = 3 * (rawTok 0 L.length).length + 3 * (rawTok (L.length + 19 + W.length) src.length).length + 54 + ((rawTok (L.length + 19 + W.length) src.length).length + 2) + 4 + 1 + 1 by omega]
  rw [loop_step src opts _ _ _ _ _ _ (step_inner_template_tl src opts _ _ _ _ _ _ _ _)]
  have hraw := step_inner_raw_tl src ['\n', 'A', '\n'] opts (3 * (rawTok 0 L.length).length + 3 * (rawTok (L.length + 19 + W.length) src.length).length + 54 + ((rawTok (L.length + 19 + W.length) src.length).length + 2) + 4) Tmpl.empty
    [(leftT L (trimEndBlank L)).pushMapping (lineCol src L.length).1 (lineCol src L.length).2] [ifOpenSA] (L.length + 9) (L.length + 10) (L.length + 12)
    (⟨some .r_helper_block_end, L.length + 12, L.length + 19, []⟩ :: ⟨some .r_identifier, L.length + 15, L.length + 17, []⟩ :: r0 :: rest)
    hA1 (by simp) (by omega)
  have hstrip : stripFirstNewline (trimStartBlank ['\n', 'A', '\n']) = ['A', '\n'] := by decide
  rw [hstrip] at hraw
  rw [loop_step src opts _ _ _ _ _ _ hraw]
  -- {{/if}} alone on its line
  have hstep4 := step_if_end_sa src opts (3 * (rawTok 0 L.length).length + 3 * (rawTok (L.length + 19 + W.length) src.length).length + 53 + ((rawTok (L.length + 19 + W.length) src.length).length + 2)) (L.length + 12)
    ((leftT L (trimEndBlank L)).pushMapping (lineCol src L.length).1 (lineCol src L.length).2) (ilBody (lineCol src (L.length + 10)))
    (ilBody (lineCol src (L.length + 10))) r0 rest (by rw [show L.length + 12 + 3 = L.length + 15 by omega, show L.length + 12 + 5 = L.length + 17 by omega]; exact hid2)
    (by omega) (hps2 _)
  rw [show 3 * (rawTok 0 L.length).length + 3 * (rawTok (L.length + 19 + W.length) src.length).length + 54 + ((rawTok (L.length + 19 + W.length) src.length).length + 2) + 4 = 3 * (rawTok 0 L.length).length + 3 * (rawTok (L.length + 19 + W.length) src.length).length + 53 + ((rawTok (L.length + 19 + W.length) src.length).length + 2) + 4 + 1 by omega]
  rw [show L.length + 15 = L.length + 12 + 3 by omega, show L.length + 17 = L.length + 12 + 5 by omega, show L.length + 19 = L.length + 12 + 7 by omega]
  rw [loop_step src opts _ _ _ _ _ _ (by have h4 := hstep4; unfold ilBody at h4; exact h4)]
  rw [show 3 * (rawTok 0 L.length).length + 3 * (rawTok (L.length + 19 + W.length) src.length).length + 53 + ((rawTok (L.length + 19 + W.length) src.length).length + 2) + 4 = 3 * (rawTok 0 L.length).length + 3 * (rawTok (L.length + 19 + W.length) src.length).length + 57 + ((rawTok (L.length + 19 + W.length) src.length).length + 2) by omega, show L.length + 12 + 7 = L.length + 19 by omega]
  unfold ilBody at htail ⊢
  rw [htail]
  simp [Tmpl.pushElemOnly, Tmpl.pushMapping, Tmpl.elements]

end Hbs.PlainText
