import HbsModel.Registry
/-
  Association lists (`hashInsert`, `assocGet`, `assocRemove`): the map laws.
-/
namespace Hbs

theorem assocGet_insert_same {α : Type} (l : List (Str × α)) (k : Str) (v : α) :
    assocGet (hashInsert l k v) k = some v := by
  induction l with
  | nil => simp [hashInsert, assocGet]
  | cons p t ih =>
    obtain ⟨k', v'⟩ := p
    simp only [hashInsert]
    by_cases h1 : (k == k') = true
    · have e : k = k' := by simpa using h1
      subst e; simp [assocGet]
    · simp only [h1, Bool.false_eq_true, ↓reduceIte]
      by_cases h2 : strLt k k' = true
      · simp [h2, assocGet]
      · have : (k' == k) = false := by
          apply beq_eq_false_iff_ne.mpr; intro e; apply h1; simp [e]
        simp [h2, assocGet, this, ih]

theorem assocGet_insert_other {α : Type} (l : List (Str × α)) (k q : Str) (v : α) (hne : q ≠ k) :
    assocGet (hashInsert l k v) q = assocGet l q := by
  have hkq : (k == q) = false := beq_eq_false_iff_ne.mpr (fun e => hne e.symm)
  induction l with
  | nil => simp [hashInsert, assocGet, hkq]
  | cons p t ih =>
    obtain ⟨k', v'⟩ := p
    simp only [hashInsert]
    by_cases h1 : (k == k') = true
    · have e : k = k' := by simpa using h1
      subst e; simp [assocGet, hkq]
    · simp only [h1, Bool.false_eq_true, ↓reduceIte]
      by_cases h2 : strLt k k' = true
      · simp [h2, assocGet, hkq]
      · simp only [h2, Bool.false_eq_true, ↓reduceIte, assocGet]
        split
        · rfl
        · exact ih

theorem assocGet_remove_same {α : Type} (l : List (Str × α)) (k : Str) :
    assocGet (assocRemove l k) k = none := by
  induction l with
  | nil => simp [assocRemove, assocGet]
  | cons p t ih =>
    obtain ⟨k', v'⟩ := p
    simp only [assocRemove, List.filter] at ih ⊢
    by_cases h : (k' != k) = true
    · have h' : (k' == k) = false := by simpa using h
      simp [h, assocGet, h', ih]
    · simp [h, ih]

theorem assocGet_remove_other {α : Type} (l : List (Str × α)) (k q : Str) (hne : q ≠ k) :
    assocGet (assocRemove l k) q = assocGet l q := by
  induction l with
  | nil => simp [assocRemove, assocGet]
  | cons p t ih =>
    obtain ⟨k', v'⟩ := p
    simp only [assocRemove, List.filter] at ih ⊢
    by_cases h : (k' != k) = true
    · simp only [h, assocGet]
      split
      · rfl
      · exact ih
    · have e : k' = k := by simpa using h
      subst e
      have : (k' == q) = false := beq_eq_false_iff_ne.mpr (fun e => hne e.symm)
      simp [assocGet, this, ih]

end Hbs
