import HbsModel.Lemmas.CompileValue
import HbsModel.Lemmas.IfBlock
/-
  `{{{{raw}}}}` b `{{{{/raw}}}}` for EVERY body b without a backslash, without `{{{{` inside and not ending in `{`:
  one element of `template` – the pairs raw_block_start, identifier, raw_block_text, raw_block_end, identifier – wherever it
  stands and whatever follows.  Leading whitespace of the body is skipped by pest between raw_block_start and raw_block_text
  (the implicit WHITESPACE of a normal sequence): the pair of the text begins behind it.
-/
namespace Hbs.PlainText
open Hbs Hbs.Pest Hbs.Grammar

def noOpen4 : Str → Prop
  | '{' :: '{' :: '{' :: '{' :: _ => False
  | _ :: t => noOpen4 t
  | [] => True

theorem noOpen4_tail (c : Char) (t : Str) (h : noOpen4 (c :: t)) : noOpen4 t := by
  unfold noOpen4 at h
  split at h
  · exact h.elim
  · rename_i heq; cases heq; exact h
  · cases ‹_ :: _ = []›

/-- what the body of a raw block may be -/
structure RawBody (b : Str) : Prop where
  noOpen4 : noOpen4 b
  noBrace : b.getLast? ≠ some '{'
  noBs : ∀ c ∈ b, c ≠ '\\'

theorem RawBody.nil : RawBody [] := ⟨trivial, by simp, by simp⟩

theorem RawBody.tail {c : Char} {t : Str} (h : RawBody (c :: t)) : RawBody t := by
  cases t with
  | nil => exact RawBody.nil
  | cons d t' =>
    refine ⟨noOpen4_tail c _ h.noOpen4, ?_, fun x hx => h.noBs x (by simp [hx])⟩
    have := h.noBrace; rwa [List.getLast?_cons_of_ne_nil (by simp)] at this

theorem RawBody.suffix (a b : Str) (h : RawBody (a ++ b)) : RawBody b := by
  induction a with
  | nil => exact h
  | cons c a ih => exact ih (RawBody.tail (by simpa using h))

/-- a non-empty body followed by anything does not begin with `{{{{` -/
theorem matchOpen4_append_none (x cont : Str) (p : Nat) (hx : RawBody x) (hne : x ≠ []) :
    matchStr ['{', '{', '{', '{'] ⟨p, x ++ cont⟩ = none := by
  have ne : ∀ c : Char, c ≠ '{' → ('{' == c) = false := fun c h => beq_eq_false_iff_ne.mpr (fun e => h e.symm)
  match x, hx, hne with
  | [c1], hx, _ =>
    have h1 : c1 ≠ '{' := fun e => hx.noBrace (by simp [e])
    simp [matchStr, ne c1 h1]
  | [c1, c2], hx, _ =>
    by_cases h1 : c1 = '{'
    · have h2 : c2 ≠ '{' := fun e => hx.noBrace (by simp [e])
      simp [matchStr, h1, ne c2 h2]
    · simp [matchStr, ne c1 h1]
  | [c1, c2, c3], hx, _ =>
    by_cases h1 : c1 = '{'
    · by_cases h2 : c2 = '{'
      · have h3 : c3 ≠ '{' := fun e => hx.noBrace (by simp [e])
        simp [matchStr, h1, h2, ne c3 h3]
      · simp [matchStr, h1, ne c2 h2]
    · simp [matchStr, ne c1 h1]
  | c1 :: c2 :: c3 :: c4 :: t, hx, _ =>
    by_cases h1 : c1 = '{'
    · by_cases h2 : c2 = '{'
      · by_cases h3 : c3 = '{'
        · have h4 : c4 ≠ '{' := by
            intro e; subst h1 h2 h3 e; exact hx.noOpen4
          simp [matchStr, h1, h2, h3, ne c4 h4]
        · simp [matchStr, h1, h2, ne c3 h3]
      · simp [matchStr, h1, ne c2 h2]
    · simp [matchStr, ne c1 h1]

/-- one element of the body of a raw block -/
def rbElem : PExpr Rule := .choice (.rule .r_escape) (.seq (.negPred (.str ['{', '{', '{', '{'])) (.builtin .any))

theorem raw_block_text_def : rules .r_raw_block_text = ⟨.compound, .rep rbElem⟩ := rfl

/-- `escape` begins with a backslash -/
theorem escape_fails_not_bs (atom : Atom) (p : Nat) (c : Char) (r : Str) (hc : c ≠ '\\') :
    E 5 atom (.rule .r_escape) ⟨p, c :: r⟩ .fail := by
  have hb : matchStr ['\\'] ⟨p, c :: r⟩ = none := by
    have : ('\\' == c) = false := beq_eq_false_iff_ne.mpr (fun e => hc e.symm)
    simp [matchStr, this]
  apply Ev.rule_fail
  show E 4 _ (.choice (.seq (.seq (.str ['\\']) (.str ['{', '{'])) _)
    (.seq (.seq (.str ['\\']) (.repOnce (.str ['\\']))) (.posPred (.str ['{', '{'])))) _ .fail
  exact Ev.choice_right (Ev.seq_fail1 (Ev.seq_fail1 (Ev.str_fail hb))) (Ev.seq_fail1 (Ev.seq_fail1 (Ev.str_fail hb)))

theorem rbElem_step (p : Nat) (c : Char) (rest : Str) (hc : c ≠ '\\')
    (hm : matchStr ['{', '{', '{', '{'] ⟨p, c :: rest⟩ = none) :
    E 10 .compound rbElem ⟨p, c :: rest⟩ (.ok ⟨p + 1, rest⟩ []) := by
  have := Ev.choice_right (b := .seq (.negPred (.str ['{', '{', '{', '{'])) (.builtin .any))
    ((escape_fails_not_bs .compound p c rest hc).weaken (F' := 9) (by omega))
    (Ev.seq_ok (F := 8) (Ev.negPred_ok (Ev.str_fail (F := 6) hm)) (Ev.skip_off (by simp)) Ev.any_ok)
  simpa [rbElem] using this

theorem rbElem_stop (p : Nat) (r : Str) : E 10 .compound rbElem ⟨p, '{' :: '{' :: '{' :: '{' :: r⟩ .fail := by
  exact Ev.choice_right ((escape_fails_not_bs .compound p '{' _ (by decide)).weaken (F' := 9) (by omega))
    (Ev.seq_fail1 (F := 8) (Ev.negPred_fail (F := 7) (Ev.str_ok (F := 6) (st' := ⟨p + 4, r⟩) (by simp [matchStr]))))

/-- the loop of `raw_block_text` over a body in front of `{{{{` consumes exactly the body -/
theorem rbLoop (b r : Str) (hb : RawBody b) (p : Nat) :
    E (b.length + 12) .compound (.starTail rbElem) ⟨p, b ++ '{' :: '{' :: '{' :: '{' :: r⟩
      (.ok ⟨p + b.length, '{' :: '{' :: '{' :: '{' :: r⟩ []) := by
  induction b generalizing p with
  | nil =>
    exact Ev.starTail_stop (F := 11) (Ev.skip_off (by simp)) ((rbElem_stop p r).weaken (by omega))
  | cons c t ih =>
    have hm := matchOpen4_append_none (c :: t) ('{' :: '{' :: '{' :: '{' :: r) p hb (by simp)
    have h := Ev.starTail_step (F := t.length + 12) (st := ⟨p, c :: t ++ '{' :: '{' :: '{' :: '{' :: r⟩) (Ev.skip_off (by simp))
      ((rbElem_step p c _ (hb.noBs c (by simp)) (by simpa using hm)).weaken (by omega)) (by simp) (ih hb.tail (p + 1))
    have e2 : p + (c :: t).length = p + 1 + t.length := by rw [List.length_cons]; omega
    rw [List.cons_append, e2, show (c :: t).length + 12 = t.length + 12 + 1 by simp]
    simpa using h

/-- the rule `raw_block_text`: one pair over the body (possibly empty) -/
theorem raw_block_text_ok (b r : Str) (hb : RawBody b) (p : Nat) :
    E (b.length + 20) .nonAtomic (.rule .r_raw_block_text) ⟨p, b ++ '{' :: '{' :: '{' :: '{' :: r⟩
      (.ok ⟨p + b.length, '{' :: '{' :: '{' :: '{' :: r⟩ [⟨some .r_raw_block_text, p, p + b.length⟩]) := by
  have hrep : E (b.length + 14) .compound (.rep rbElem) ⟨p, b ++ '{' :: '{' :: '{' :: '{' :: r⟩
      (.ok ⟨p + b.length, '{' :: '{' :: '{' :: '{' :: r⟩ []) := by
    cases b with
    | nil => exact (Ev.rep_none (F := 10) (rbElem_stop p r)).weaken (by simp)
    | cons c t =>
      have hm := matchOpen4_append_none (c :: t) ('{' :: '{' :: '{' :: '{' :: r) p hb (by simp)
      have hl := rbLoop t r hb.tail (p + 1)
      have := Ev.rep_some (F := t.length + 12) ((rbElem_step p c _ (hb.noBs c (by simp)) (by simpa using hm)).weaken (by omega)) hl
      have e2 : p + (c :: t).length = p + 1 + t.length := by rw [List.length_cons]; omega
      rw [e2]
      exact (by simpa using this : E _ _ _ _ _).weaken (by simp <;> omega)
  have hr := Ev.rule_ok (G := rules) (ws := ws) (atom := .nonAtomic) (r := Rule.r_raw_block_text) (F := b.length + 14)
    (st := ⟨p, b ++ '{' :: '{' :: '{' :: '{' :: r⟩) (st' := ⟨p + b.length, '{' :: '{' :: '{' :: '{' :: r⟩) (toks := [])
    (by simpa [raw_block_text_def, innerAtom] using hrep)
  have : (rules .r_raw_block_text).ty = .compound := rfl
  simp only [this] at hr
  exact hr.weaken (by omega)

/-! ### the whole block as one element of `template` -/

def rbOpen : Str := ['{', '{', '{', '{', 'r', 'a', 'w', '}', '}', '}', '}']
def rbClose : Str := ['{', '{', '{', '{', '/', 'r', 'a', 'w', '}', '}', '}', '}']
def rawSrc (b : Str) : Str := rbOpen ++ (b ++ rbClose)

/-- the alternatives of `template` in front of raw_block -/
def alts4 : PExpr Rule :=
  .choice (.choice (.choice (.rule .r_raw_text) (.rule .r_expression)) (.rule .r_html_expression)) (.rule .r_helper_block)

theorem altsBefore_eq : altsBefore = .choice alts4 (.rule .r_raw_block) := rfl

theorem raw_block_def : rules .r_raw_block
    = ⟨.silent, .seq (.seq (.rule .r_raw_block_start) (.rule .r_raw_block_text)) (.rule .r_raw_block_end)⟩ := rfl

/-- decided on the regenerated grammar: on `{{{{` – whatever follows – text, expression, html expression and helper block fail -/
theorem alts4_decided : evalK rules ws false 80 .nonAtomic alts4 0 ['{', '{', '{', '{'] = some .fail :=
  KRes.isFail_eq (by decide)

theorem alts4_fail (p : Nat) (tail : Str) : E 80 .nonAtomic alts4 ⟨p, '{' :: '{' :: '{' :: '{' :: tail⟩ .fail := by
  have := evalK_at rules ws rules_noSoi false tail (by simp) 80 .nonAtomic alts4 rfl ['{', '{', '{', '{'] .fail alts4_decided p
  exact ⟨by simpa using this, by simp⟩

/-- decided: `{{{{raw}}}}` – whatever follows – is raw_block_start with the identifier `raw` -/
theorem rb_start_decided : evalK rules ws false 80 .nonAtomic (.rule .r_raw_block_start) 0 rbOpen
    = some (.ok 11 [] [⟨some .r_raw_block_start, 0, 11⟩, ⟨some .r_identifier, 4, 7⟩]) :=
  KRes.isOkWith_eq (by decide)

theorem rb_start_ok (p : Nat) (tail : Str) :
    E 80 .nonAtomic (.rule .r_raw_block_start) ⟨p, rbOpen ++ tail⟩
      (.ok ⟨p + 11, tail⟩ [⟨some .r_raw_block_start, p, p + 11⟩, ⟨some .r_identifier, p + 4, p + 7⟩]) := by
  have := evalK_at rules ws rules_noSoi false tail (by simp) 80 .nonAtomic (.rule .r_raw_block_start) rfl rbOpen _ rb_start_decided p
  refine ⟨?_, by simp⟩
  rw [this]
  simp [shiftRes, embedK, shiftTok, Nat.add_comm]

/-- decided: `{{{{/raw}}}}` – whatever follows – is raw_block_end with the identifier `raw` -/
theorem rb_end_decided : evalK rules ws false 80 .nonAtomic (.rule .r_raw_block_end) 0 rbClose
    = some (.ok 12 [] [⟨some .r_raw_block_end, 0, 12⟩, ⟨some .r_identifier, 5, 8⟩]) :=
  KRes.isOkWith_eq (by decide)

theorem rb_end_ok (p : Nat) (tail : Str) :
    E 80 .nonAtomic (.rule .r_raw_block_end) ⟨p, rbClose ++ tail⟩
      (.ok ⟨p + 12, tail⟩ [⟨some .r_raw_block_end, p, p + 12⟩, ⟨some .r_identifier, p + 5, p + 8⟩]) := by
  have := evalK_at rules ws rules_noSoi false tail (by simp) 80 .nonAtomic (.rule .r_raw_block_end) rfl rbClose _ rb_end_decided p
  refine ⟨?_, by simp⟩
  rw [this]
  simp [shiftRes, embedK, shiftTok, Nat.add_comm]

/-- the pairs of the block; `k` = the number of leading whitespace characters of the body -/
def rawToks (k n : Nat) : List (Tok Rule) :=
  [⟨some .r_raw_block_start, 0, 11⟩, ⟨some .r_identifier, 4, 7⟩, ⟨some .r_raw_block_text, 11 + k, 11 + n⟩,
   ⟨some .r_raw_block_end, 11 + n, 11 + n + 12⟩, ⟨some .r_identifier, 11 + n + 5, 11 + n + 8⟩]

/-- **`{{{{raw}}}}b{{{{/raw}}}}` is one element of `template`**, for every body `b` -/
theorem rawBlock_tagAt (b : Str) (hb : RawBody b) :
    TagAt (rawSrc b) (b.length + 140) (rawToks (b.takeWhile isPestWs).length b.length) := by
  intro p tail
  let w := b.takeWhile isPestWs
  let b1 := b.dropWhile isPestWs
  have hbw : b = w ++ b1 := split_ws b
  have hblen : b.length = w.length + b1.length := by simpa using congrArg List.length hbw
  have hb1 : RawBody b1 := RawBody.suffix w b1 (by rw [← hbw]; exact hb)
  have hsrc : rawSrc b ++ tail = rbOpen ++ (w ++ (b1 ++ '{' :: '{' :: '{' :: '{' :: ('/' :: 'r' :: 'a' :: 'w' :: '}' :: '}' :: '}' :: '}' :: tail))) := by
    show rbOpen ++ (b ++ rbClose) ++ tail = _
    rw [hbw]; simp [rbClose]
  have hstart := rb_start_ok p (w ++ (b1 ++ '{' :: '{' :: '{' :: '{' :: ('/' :: 'r' :: 'a' :: 'w' :: '}' :: '}' :: '}' :: '}' :: tail)))
  have hskip1 := skip_run w (b1 ++ '{' :: '{' :: '{' :: '{' :: ('/' :: 'r' :: 'a' :: 'w' :: '}' :: '}' :: '}' :: '}' :: tail)) (takeWhile_ws b)
    (by
      rcases dropWhile_ws_head b with h0 | ⟨x, r, hx, hxw⟩
      · right; exact ⟨'{', _, by show b1 ++ _ = _; rw [show b1 = [] from h0]; rfl, by decide⟩
      · right; exact ⟨x, r ++ '{' :: '{' :: '{' :: '{' :: ('/' :: 'r' :: 'a' :: 'w' :: '}' :: '}' :: '}' :: '}' :: tail),
          by show b1 ++ _ = _; rw [show b1 = x :: r from hx]; rfl, hxw⟩) (p + 11)
  have htext := raw_block_text_ok b1 ('/' :: 'r' :: 'a' :: 'w' :: '}' :: '}' :: '}' :: '}' :: tail) hb1 (p + 11 + w.length)
  have hskip2 := skip_run [] ('{' :: '{' :: '{' :: '{' :: ('/' :: 'r' :: 'a' :: 'w' :: '}' :: '}' :: '}' :: '}' :: tail)) (by simp)
    (Or.inr ⟨'{', _, rfl, by decide⟩) (p + 11 + w.length + b1.length)
  have hend := rb_end_ok (p + 11 + w.length + b1.length) tail
  have hblock : E (b.length + 100) .nonAtomic (.rule .r_raw_block) ⟨p, rawSrc b ++ tail⟩
      (.ok ⟨p + 11 + w.length + b1.length + 12, tail⟩
        ([⟨some .r_raw_block_start, p, p + 11⟩, ⟨some .r_identifier, p + 4, p + 7⟩] ++
         [⟨some .r_raw_block_text, p + 11 + w.length, p + 11 + w.length + b1.length⟩] ++
         [⟨some .r_raw_block_end, p + 11 + w.length + b1.length, p + 11 + w.length + b1.length + 12⟩,
          ⟨some .r_identifier, p + 11 + w.length + b1.length + 5, p + 11 + w.length + b1.length + 8⟩])) := by
    have hbody := Ev.seq_ok (F := b.length + 90)
      (Ev.seq_ok (F := b.length + 89) (hstart.weaken (by omega)) (hskip1.weaken (by omega)) (htext.weaken (by omega)))
      ((by simpa using hskip2 : E _ _ _ _ _).weaken (by omega)) ((by simpa [rbClose] using hend : E _ _ _ _ _).weaken (by omega))
    have hr := Ev.rule_ok (G := rules) (ws := ws) (atom := .nonAtomic) (r := Rule.r_raw_block) (F := b.length + 91)
      (st := ⟨p, rawSrc b ++ tail⟩) (st' := ⟨p + 11 + w.length + b1.length + 12, tail⟩)
      (by rw [raw_block_def, hsrc]; simpa [innerAtom] using hbody)
    have hty : (rules .r_raw_block).ty = .silent := rfl
    simp only [hty] at hr
    exact (by simpa using hr : E _ _ _ _ _).weaken (by omega)
  have h4 : E 80 .nonAtomic alts4 ⟨p, rawSrc b ++ tail⟩ .fail := by
    have := alts4_fail p (('r' :: 'a' :: 'w' :: '}' :: '}' :: '}' :: '}' :: (b ++ rbClose)) ++ tail)
    simpa [rawSrc, rbOpen] using this
  rw [templateAlt_eq, altsBefore_eq]
  have h5 := Ev.choice_right (F := b.length + 110) (h4.weaken (by omega)) (hblock.weaken (by omega))
  have := Ev.choice_left (b := .rule .r_partial_block) (Ev.choice_left (b := .rule .r_partial_expression)
    (Ev.choice_left (b := .rule .r_decorator_block) (Ev.choice_left (b := .rule .r_decorator_expression)
      (Ev.choice_left (b := .rule .r_hbs_comment_compact) (Ev.choice_left (b := .rule .r_hbs_comment) h5)))))
  have hlenT : (rawSrc b).length = b.length + 23 := by simp [rawSrc, rbOpen, rbClose] <;> omega
  have := this.weaken (F' := b.length + 140) (by omega)
  simpa [rawToks, shiftTok, hlenT, hblen, Nat.add_comm, Nat.add_left_comm, Nat.add_assoc] using this

/-! ### compile2 over the block -/

theorem rawSrc_cons (b : Str) : rawSrc b = '{' :: '{' :: ('{' :: '{' :: 'r' :: 'a' :: 'w' :: '}' :: '}' :: '}' :: '}' :: (b ++ rbClose)) := rfl

theorem rawSrc_length (b : Str) : (rawSrc b).length = b.length + 23 := by
  simp [rawSrc, rbOpen, rbClose] <;> omega

/-- the pair stream of  L ++ {{{{raw}}}}b{{{{/raw}}}} ++ R  (R not beginning with whitespace) -/
theorem parse_text_raw_text (L b R : Str) (hL : L = [] ∨ TextBeforeTag L) (hb : RawBody b) (hA : TextAfterTag [] R) :
    let a := L.length
    let k := (b.takeWhile isPestWs).length
    let m := b.length
    let e := a + m + 23
    let n := e + R.length
    Pest.parse rules ws .r_handlebars (L ++ rawSrc b ++ R)
      = .ok ⟨n, []⟩ (⟨some .r_template, 0, if R = [] then e else n⟩ ::
          (rawTok 0 a ++ [⟨some .r_raw_block_start, a, a + 11⟩, ⟨some .r_identifier, a + 4, a + 7⟩,
              ⟨some .r_raw_block_text, a + 11 + k, a + 11 + m⟩, ⟨some .r_raw_block_end, a + 11 + m, a + 11 + m + 12⟩,
              ⟨some .r_identifier, a + 11 + m + 5, a + 11 + m + 8⟩]
            ++ rawTok e n ++ [⟨none, n, n⟩])) := by
  intro a k m e n
  have h := handlebars_text_tag_text L _ [] R (b.length + 140) _ hL (by rw [← rawSrc_cons]; exact rawBlock_tagAt b hb) hA
  rw [← rawSrc_cons] at h
  have hn : (L ++ rawSrc b ++ ([] ++ R)).length = n := by simp [n, e, m, a, rawSrc_length]; omega
  simp only [] at h
  have h' := h.weaken (F' := defaultFuel (L ++ rawSrc b ++ ([] ++ R)).length) (by
    unfold defaultFuel
    rw [hn]
    have : b.length + 23 ≤ n := by simp only [n, e, m]; omega
    omega)
  unfold Pest.parse
  have e0 : L ++ rawSrc b ++ R = L ++ rawSrc b ++ ([] ++ R) := by simp
  rw [e0]
  refine Eq.trans h'.1 ?_
  simp only [hn, rawToks, List.map, shiftTok, rawSrc_length, List.length_nil, Nat.add_zero]
  have e1 : L.length + (b.length + 23) = e := by simp only [e, m, a]; omega
  have e2 : L.length + (b.length + 23) + R.length = n := by simp only [n, e, m, a]; omega
  simp only [e1, e2]
  simp only [a, k, m, Nat.add_comm _ L.length, Nat.add_assoc, Nat.add_left_comm]
  rfl

/-- the helper block under construction after `{{{{raw}}}}` -/
def rawOpen : HelperT :=
  HelperG.new { name := .name ['r', 'a', 'w'], params := [], hash := [], blockParam := none, omitPreWs := false, omitProWs := false }
    true false false

/-- the finished block -/
def rawHT (body : Tmpl) : HelperT := { rawOpen with template := some body }

theorem step_raw_start (src : Str) (opts : TemplateOptions) (f a : Nat) (T0 : Tmpl) (ep : Option Nat) (t2 : CTok) (rest : List CTok)
    (hep : ep.getD 0 = a)
    (hid : tokStr src ⟨some .r_identifier, a + 4, a + 7, []⟩ = ['r', 'a', 'w'])
    (ht2 : a + 11 ≤ t2.e)
    (hps : processStandalone [T0] src a (a + 11) true opts.isPartial = .ok (false, [T0])) :
    compileStep src opts (f + 4) { tmplStack := [T0], endPos := ep } ⟨some .r_raw_block_start, a, a + 11, []⟩
        (⟨some .r_identifier, a + 4, a + 7, []⟩ :: t2 :: rest)
      = .ok ({ tmplStack := [T0.pushMapping (lineCol src a).1 (lineCol src a).2], helperStack := [rawOpen],
               endPos := some (a + 11) }, t2 :: rest) := by
  have h1 : ¬ (t2.e < a + 11) := by omega
  simp [compileStep, hep, isBlockStart, isExprLike, parseExpression, parseName, parseExprLoop, hid, h1, frontMut, rawOpen, str, hps,
    HelperG.new]

theorem step_raw_body (src b : Str) (opts : TemplateOptions) (fuel : Nat) (stk : List Tmpl) (hs : List HelperT) (p s e : Nat)
    (rest : List CTok) (hsl : slice? src p e = some b) (hlen : e - s ≤ b.length) :
    compileStep src opts fuel { tmplStack := stk, helperStack := hs, endPos := some p } ⟨some .r_raw_block_text, s, e, []⟩ rest
      = .ok ({ tmplStack := Tmpl.empty.pushElement (.raw b) (lineCol src s).1 (lineCol src s).2 :: stk, helperStack := hs,
               endPos := some e }, rest) := by
  have hst : (if s = p then s else p) = p := by
    by_cases h : s = p <;> simp [h]
  have hl : ¬ b.length < e - s := by omega
  simp [compileStep, hst, hsl, rawString, removeEscapes, hl, isBlockStart, isExprLike]

theorem step_raw_end (src : Str) (opts : TemplateOptions) (f s : Nat) (T0 body : Tmpl) (r0 : CTok) (rest : List CTok)
    (hid : tokStr src ⟨some .r_identifier, s + 5, s + 8, []⟩ = ['r', 'a', 'w'])
    (hr0 : s + 12 ≤ r0.e)
    (hps : processStandalone [body, T0] src s (s + 12) true opts.isPartial = .ok (false, [body, T0])) :
    compileStep src opts (f + 4) { tmplStack := [body, T0], helperStack := [rawOpen], endPos := some s }
        ⟨some .r_raw_block_end, s, s + 12, []⟩ (⟨some .r_identifier, s + 5, s + 8, []⟩ :: r0 :: rest)
      = .ok ({ tmplStack := [T0.pushElemOnly (.block (rawHT body))], endPos := some (s + 12) }, r0 :: rest) := by
  have h1 : ¬ (r0.e < s + 12) := by omega
  simp [compileStep, isBlockStart, isExprLike, parseExpression, parseName, parseExprLoop, hid, h1, frontMut, rawOpen, rawHT, str, hps,
    HelperG.new, revertChainAndSet, Param.asName?]

theorem pestWs_false_blank (c : Char) (h : isPestWs c = false) : isBlank c = false ∧ isNewline c = false := by
  simp only [isPestWs, Bool.or_eq_false_iff, beq_eq_false_iff_ne] at h
  obtain ⟨⟨⟨h1, h2⟩, h3⟩, h4⟩ := h
  constructor
  · simp [isBlank, h1, h2]
  · simp [isNewline, h3, h4]

/-- **compile2 on  L ++ {{{{raw}}}}b{{{{/raw}}}} ++ R** where `L` ends in, and `R` begins with, a character that is neither a blank
    nor a line break (so neither tag of the block is alone on its line): the text in front, ONE block element – helper `raw`,
    body the single text element `b`, the WHOLE body, leading whitespace included although pest skipped it – and the text
    behind; for EVERY body `b` (tags, braces, whitespace and line breaks inside) -/
theorem compile_text_raw_text (X b R2 : Str) (c c' : Char) (opts : TemplateOptions)
    (hL : TextBeforeTag (X ++ [c])) (hcb : isBlank c = false) (hcn : isNewline c = false)
    (hb : RawBody b) (hc' : isPestWs c' = false) (hR : noOpen (c' :: R2)) :
    ∃ (m : List (Nat × Nat)) (lc : Nat × Nat), compile2 ((X ++ [c]) ++ rawSrc b ++ (c' :: R2)) opts = .ok (.mk opts.name
      ([.raw (X ++ [c])] ++ [.block (rawHT (Tmpl.empty.pushElement (.raw b) lc.1 lc.2))] ++ [.raw (c' :: R2)]) m) := by
  generalize hLdef : X ++ [c] = L at *
  generalize hRdef : c' :: R2 = R at *
  have hLne : L ≠ [] := by rw [← hLdef]; simp
  have hRne : R ≠ [] := by rw [← hRdef]; simp
  have hA : TextAfterTag [] R := ⟨by simp, Or.inr ⟨c', R2, hRdef.symm, hc'⟩, hR⟩
  have hparse := parse_text_raw_text L b R (Or.inr hL) hb hA
  simp only [] at hparse
  have hn : (L ++ rawSrc b ++ R).length = L.length + b.length + 23 + R.length := by
    simp [rawSrc_length]; omega
  have hs0 : slice? (L ++ rawSrc b ++ R) 0 L.length = some L := by
    rw [List.append_assoc]; exact slice_prefix L _
  have hsR : slice? (L ++ rawSrc b ++ R) (L.length + b.length + 23) (L ++ rawSrc b ++ R).length = some R :=
    slice_suffix (L ++ rawSrc b) R _ (by simp [rawSrc_length]; omega)
  have hid1 : tokStr (L ++ rawSrc b ++ R) ⟨some .r_identifier, L.length + 4, L.length + 7, []⟩ = ['r', 'a', 'w'] := by
    have : L ++ rawSrc b ++ R = (L ++ ['{', '{', '{', '{']) ++ ['r', 'a', 'w'] ++ (['}', '}', '}', '}'] ++ (b ++ rbClose) ++ R) := by
      simp [rawSrc, rbOpen]
    rw [this]
    exact tokStr_mid (L ++ ['{', '{', '{', '{']) ['r', 'a', 'w'] _ _ (by simp) (by simp)
  have hid2 : tokStr (L ++ rawSrc b ++ R) ⟨some .r_identifier, L.length + 11 + b.length + 5, L.length + 11 + b.length + 8, []⟩ = ['r', 'a', 'w'] := by
    have : L ++ rawSrc b ++ R = (L ++ rbOpen ++ b ++ ['{', '{', '{', '{', '/']) ++ ['r', 'a', 'w'] ++ (['}', '}', '}', '}'] ++ R) := by
      simp [rawSrc, rbClose]
    rw [this]
    exact tokStr_mid (L ++ rbOpen ++ b ++ ['{', '{', '{', '{', '/']) ['r', 'a', 'w'] _ _ (by simp [rbOpen]; omega) (by simp [rbOpen]; omega)
  have hbody : slice? (L ++ rawSrc b ++ R) (L.length + 11) (L.length + 11 + b.length) = some b := by
    have : L ++ rawSrc b ++ R = (L ++ rbOpen) ++ b ++ (rbClose ++ R) := by simp [rawSrc]
    rw [this]
    have := slice_middle (L ++ rbOpen) b (rbClose ++ R)
    simpa [rbOpen] using this
  have hcont1 : slice? (L ++ rawSrc b ++ R) (L.length + 11) (L ++ rawSrc b ++ R).length = some (b ++ rbClose ++ R) := by
    have : L ++ rawSrc b ++ R = (L ++ rbOpen) ++ (b ++ rbClose ++ R) := by simp [rawSrc]
    rw [this]
    exact slice_suffix _ _ _ (by simp [rbOpen])
  generalize hsrc : L ++ rawSrc b ++ R = src at *
  obtain ⟨hcb', hcn'⟩ := pestWs_false_blank c' hc'
  have hps1 : processStandalone [leftT L L] src L.length (L.length + 11) true opts.isPartial = .ok (false, [leftT L L]) :=
    processStandalone_text_precedes _ src _ _ _ X _ c (by rw [hLdef]; exact hs0) (by
      have : L.length ≠ 0 := fun h0 => hLne (List.eq_nil_of_length_eq_zero h0)
      exact this) hcont1 hcb hcn
  have hps2 : ∀ (body T0 : Tmpl), processStandalone [body, T0] src (L.length + 11 + b.length) (L.length + 11 + b.length + 12) true opts.isPartial
      = .ok (false, [body, T0]) := fun body T0 =>
    processStandalone_text_follows _ src _ _ _ _ c' R2 (by
      rw [hRdef, show L.length + 11 + b.length + 12 = L.length + b.length + 23 by omega]; exact hsR) hcb' hcn'
  obtain ⟨m, htail⟩ := loop_tail src [] R opts (3 * (rawTok 0 L.length).length + 3 * (rawTok (L.length + b.length + 23) src.length).length + 38)
    (L.length + b.length + 23) (((leftT L L).pushMapping (lineCol src L.length).1 (lineCol src L.length).2).pushElemOnly
      (.block (rawHT (Tmpl.empty.pushElement (.raw b) (lineCol src (L.length + 11 + (b.takeWhile isPestWs).length)).1
        (lineCol src (L.length + 11 + (b.takeWhile isPestWs).length)).2)))) false (by simp; omega) (by simpa using hsR)
  refine ⟨m, lineCol src (L.length + 11 + (b.takeWhile isPestWs).length), ?_⟩
  unfold compile2 compile2Inner
  rw [hparse]
  simp only []
  rw [attachEscapes_noEsc _ (by
    intro t ht
    simp only [List.mem_cons, List.mem_append, List.not_mem_nil, or_false] at ht
    rcases ht with rfl | ((h | rfl | rfl | rfl | rfl | rfl) | h) | rfl
    · show ((some Rule.r_template : Option Rule) == some Rule.r_escape) = false; decide
    · exact rawTok_rule _ _ t h
    · show ((some Rule.r_raw_block_start : Option Rule) == some Rule.r_escape) = false; decide
    · show ((some Rule.r_identifier : Option Rule) == some Rule.r_escape) = false; decide
    · show ((some Rule.r_raw_block_text : Option Rule) == some Rule.r_escape) = false; decide
    · show ((some Rule.r_raw_block_end : Option Rule) == some Rule.r_escape) = false; decide
    · show ((some Rule.r_identifier : Option Rule) == some Rule.r_escape) = false; decide
    · exact rawTok_rule _ _ t h
    · show ((none : Option Rule) == some Rule.r_escape) = false; decide)]
  rw [← hn]
  simp only [List.map_cons, List.map_append, List.length_cons, List.length_append, List.length_map, List.map_nil, List.length_nil,
    List.append_assoc, List.cons_append, List.nil_append]
  rw [show 4 * ((rawTok 0 L.length).length + ((rawTok (L.length + b.length + 23) src.length).length + (0 + 1) + 1 + 1 + 1 + 1 + 1) + 1) + 16
      = ((3 * (rawTok 0 L.length).length + 3 * (rawTok (L.length + b.length + 23) src.length).length + 34 + ((rawTok (L.length + b.length + 23) src.length).length + 2) + 2) + 4 + 1) + (1 + (rawTok 0 L.length).length) by omega]
  rw [loop_head src L opts _ _ _ hs0]
  obtain ⟨r0, rest, hrest, hr0⟩ := tail_head (L.length + b.length + 23) 0 src.length (by omega)
  simp only [Nat.add_zero] at hrest
  have hep : (if L = [] then none else some L.length : Option Nat).getD 0 = L.length := by
    by_cases hLe : L = [] <;> simp [hLe]
  simp only [List.length_nil, Nat.add_zero] at htail
  rw [hrest] at htail ⊢
  simp only [plainCTok]
  -- {{{{raw}}}}
  have hstep1 := step_raw_start src opts (3 * (rawTok 0 L.length).length + 3 * (rawTok (L.length + b.length + 23) src.length).length + 34 + ((rawTok (L.length + b.length + 23) src.length).length + 2) + 2) L.length (leftT L L) _
    ⟨some .r_raw_block_text, L.length + 11 + (b.takeWhile isPestWs).length, L.length + 11 + b.length, []⟩
    (⟨some .r_raw_block_end, L.length + 11 + b.length, L.length + 11 + b.length + 12, []⟩ ::
      ⟨some .r_identifier, L.length + 11 + b.length + 5, L.length + 11 + b.length + 8, []⟩ :: r0 :: rest) hep hid1 (by simp) hps1
  rw [loop_step src opts _ (st1 L) _ _ _ _ (by unfold st1; exact hstep1)]
  -- the body: one text element holding all of `b`
  rw [show 3 * (rawTok 0 L.length).length + 3 * (rawTok (L.length + b.length + 23) src.length).length + 34 + ((rawTok (L.length + b.length + 23) src.length).length + 2) + 2 + 4 = 3 * (rawTok 0 L.length).length + 3 * (rawTok (L.length + b.length + 23) src.length).length + 34 + ((rawTok (L.length + b.length + 23) src.length).length + 2) + 5 + 1 by omega]
  rw [loop_step src opts _ _ _ _ _ _ (step_raw_body src b opts _ _ _ _ _ _ _ hbody (by omega))]
  -- {{{{/raw}}}}
  have hstep3 := step_raw_end src opts (3 * (rawTok 0 L.length).length + 3 * (rawTok (L.length + b.length + 23) src.length).length + 34 + ((rawTok (L.length + b.length + 23) src.length).length + 2)) (L.length + 11 + b.length)
    ((leftT L L).pushMapping (lineCol src L.length).1 (lineCol src L.length).2)
    (Tmpl.empty.pushElement (.raw b) (lineCol src (L.length + 11 + (b.takeWhile isPestWs).length)).1
      (lineCol src (L.length + 11 + (b.takeWhile isPestWs).length)).2) r0 rest hid2 (by omega) (hps2 _ _)
  rw [show 3 * (rawTok 0 L.length).length + 3 * (rawTok (L.length + b.length + 23) src.length).length + 34 + ((rawTok (L.length + b.length + 23) src.length).length + 2) + 5 = 3 * (rawTok 0 L.length).length + 3 * (rawTok (L.length + b.length + 23) src.length).length + 34 + ((rawTok (L.length + b.length + 23) src.length).length + 2) + 4 + 1 by omega]
  rw [loop_step src opts _ _ _ _ _ _ hstep3]
  rw [show 3 * (rawTok 0 L.length).length + 3 * (rawTok (L.length + b.length + 23) src.length).length + 34 + ((rawTok (L.length + b.length + 23) src.length).length + 2) + 4 = 3 * (rawTok 0 L.length).length + 3 * (rawTok (L.length + b.length + 23) src.length).length + 38 + ((rawTok (L.length + b.length + 23) src.length).length + 2) by omega,
    show L.length + 11 + b.length + 12 = L.length + b.length + 23 by omega]
  rw [htail]
  simp [Tmpl.pushElemOnly, Tmpl.pushMapping, Tmpl.elements, leftT, hLne, hRne]

end Hbs.PlainText
