import HbsModel.Lemmas.WithBlock
/-
  compile2 on  L ++ "{{#with v}}{{this}}{{/with}}" ++ W ++ R' : a helper block whose body is the tag `{{this}}`.
-/
namespace Hbs.PlainText
open Hbs Hbs.Pest Hbs.Grammar

def wtSrc : Str := "{{#with v}}{{this}}{{/with}}".toList
def wtToks : List (Tok Rule) :=
  [⟨some .r_helper_block_start, 0, 11⟩, ⟨some .r_identifier, 3, 7⟩, ⟨some .r_helper_parameter, 8, 9⟩, ⟨some .r_reference, 8, 9⟩,
   ⟨some .r_path_inline, 8, 9⟩, ⟨some .r_path_id, 8, 9⟩, ⟨some .r_template, 11, 19⟩, ⟨some .r_expression, 11, 19⟩,
   ⟨some .r_reference, 13, 17⟩, ⟨some .r_path_inline, 13, 17⟩, ⟨some .r_path_id, 13, 17⟩,
   ⟨some .r_helper_block_end, 19, 28⟩, ⟨some .r_identifier, 22, 26⟩]

theorem wtSrc_eq : wtSrc = ['{', '{', '#', 'w', 'i', 't', 'h', ' ', 'v', '}', '}', '{', '{', 't', 'h', 'i', 's', '}', '}', '{', '{', '/', 'w', 'i', 't', 'h', '}', '}'] := by decide

theorem wt_decided : evalK rules ws false 400 .nonAtomic templateAlt 0 wtSrc = some (.ok 28 [] wtToks) :=
  KRes.isOkWith_eq (by decide)

theorem wt_tagAt : TagAt wtSrc 400 wtToks := by
  intro p tail
  have := evalK_at rules ws rules_noSoi false tail (by simp) 400 .nonAtomic templateAlt rfl wtSrc _ wt_decided p
  refine ⟨?_, by simp [shiftRes, embedK]⟩
  rw [this]
  simp [shiftRes, embedK, wtSrc_eq, Nat.add_comm]

/-- the pair stream of  L ++ {{#with v}}{{this}}{{/with}} ++ W ++ R' -/
theorem parse_text_wt_text (L W R' : Str) (hL : L = [] ∨ TextBeforeTag L) (hA : TextAfterTag W R') :
    let a := L.length
    let b := a + 28
    let d := b + W.length
    let n := d + R'.length
    Pest.parse rules ws .r_handlebars (L ++ wtSrc ++ (W ++ R'))
      = .ok ⟨n, []⟩ (⟨some .r_template, 0, if R' = [] then b else n⟩ ::
          (rawTok 0 a ++ [⟨some .r_helper_block_start, a, a + 11⟩, ⟨some .r_identifier, a + 3, a + 7⟩,
              ⟨some .r_helper_parameter, a + 8, a + 9⟩, ⟨some .r_reference, a + 8, a + 9⟩, ⟨some .r_path_inline, a + 8, a + 9⟩,
              ⟨some .r_path_id, a + 8, a + 9⟩, ⟨some .r_template, a + 11, a + 19⟩, ⟨some .r_expression, a + 11, a + 19⟩,
              ⟨some .r_reference, a + 13, a + 17⟩, ⟨some .r_path_inline, a + 13, a + 17⟩, 
              ⟨some .r_path_id, a + 13, a + 17⟩,
              ⟨some .r_helper_block_end, a + 19, a + 28⟩, ⟨some .r_identifier, a + 22, a + 26⟩]
            ++ rawTok d n ++ [⟨none, n, n⟩])) := by
  intro a b d n
  have h := handlebars_text_tag_text L ['#', 'w', 'i', 't', 'h', ' ', 'v', '}', '}', '{', '{', 't', 'h', 'i', 's', '}', '}', '{', '{', '/', 'w', 'i', 't', 'h', '}', '}'] W R' 400 _ hL
    (by rw [← wtSrc_eq]; exact wt_tagAt) hA
  have hn : (L ++ wtSrc ++ (W ++ R')).length = n := by simp [n, d, b, a, wtSrc_eq]; omega
  simp only [] at h
  rw [wtSrc_eq]
  rw [wtSrc_eq] at hn
  have h' := h.weaken (F' := defaultFuel (L ++ ['{', '{', '#', 'w', 'i', 't', 'h', ' ', 'v', '}', '}', '{', '{', 't', 'h', 'i', 's', '}', '}', '{', '{', '/', 'w', 'i', 't', 'h', '}', '}'] ++ (W ++ R')).length) (by
    unfold defaultFuel
    rw [hn]
    have : 28 ≤ n := by simp only [n, d, b]; omega
    omega)
  unfold Pest.parse
  refine Eq.trans h'.1 ?_
  have e1 : (L ++ '{' :: '{' :: ['#', 'w', 'i', 't', 'h', ' ', 'v', '}', '}', '{', '{', 't', 'h', 'i', 's', '}', '}', '{', '{', '/', 'w', 'i', 't', 'h', '}', '}'] ++ (W ++ R')).length = n := hn
  simp only [e1, wtToks, List.map, shiftTok, Nat.zero_add, List.length_cons, List.length_nil]
  simp only [Nat.add_comm _ L.length]
  rfl

theorem step_wt_start (src : Str) (opts : TemplateOptions) (f a : Nat) (T0 : Tmpl) (ep : Option Nat) (rest : List CTok)
    (hep : ep.getD 0 = a)
    (hid : tokStr src ⟨some .r_identifier, a + 3, a + 7, []⟩ = ['w', 'i', 't', 'h'])
    (hv : tokStr src ⟨some .r_reference, a + 8, a + 9, []⟩ = ['v'])
    (hps : processStandalone [T0] src a (a + 11) true opts.isPartial = .ok (false, [T0])) :
    compileStep src opts (f + 6) { tmplStack := [T0], endPos := ep } ⟨some .r_helper_block_start, a, a + 11, []⟩
        (⟨some .r_identifier, a + 3, a + 7, []⟩ :: ⟨some .r_helper_parameter, a + 8, a + 9, []⟩ ::
         ⟨some .r_reference, a + 8, a + 9, []⟩ :: ⟨some .r_path_inline, a + 8, a + 9, []⟩ :: ⟨some .r_path_id, a + 8, a + 9, []⟩ ::
         ⟨some .r_template, a + 11, a + 19, []⟩ :: rest)
      = .ok ({ tmplStack := [T0.pushMapping (lineCol src a).1 (lineCol src a).2], helperStack := [wiOpen],
               endPos := some (a + 11) }, ⟨some .r_template, a + 11, a + 19, []⟩ :: rest) := by
  have hv' : tokStr src ⟨some .r_path_id, a + 8, a + 9, []⟩ = ['v'] := hv
  simp [compileStep, hep, isBlockStart, isExprLike, parseExpression, parseName, parseParam, parsePathSegs, parseExprLoop, hid, hv, hv',
    frontMut, wiOpen, str, hps, HelperG.new, dropInside]

/-- `{{this}}` as compiled -/
def thisHT : HelperT :=
  HelperG.new { name := .path (.relative [] ['t', 'h', 'i', 's']), params := [], hash := [], blockParam := none,
                omitPreWs := false, omitProWs := false } false false false

theorem step_inner_this (src : Str) (opts : TemplateOptions) (f a : Nat) (T : Tmpl) (stk : List Tmpl) (hs : List HelperT) (nx : CTok) (rest : List CTok)
    (href : tokStr src ⟨some .r_reference, a + 13, a + 17, []⟩ = ['t', 'h', 'i', 's'])
    (hxid : tokStr src ⟨some .r_path_id, a + 13, a + 17, []⟩ = ['t', 'h', 'i', 's'])
    (hnx : a + 19 ≤ nx.e) :
    compileStep src opts (f + 3) { tmplStack := T :: stk, helperStack := hs, endPos := some (a + 11) } ⟨some .r_expression, a + 11, a + 19, []⟩
        (⟨some .r_reference, a + 13, a + 17, []⟩ :: ⟨some .r_path_inline, a + 13, a + 17, []⟩ 
          :: ⟨some .r_path_id, a + 13, a + 17, []⟩ :: nx :: rest)
      = .ok ({ tmplStack := T.pushElement (.expr thisHT) (lineCol src (a + 11)).1 (lineCol src (a + 11)).2 :: stk, helperStack := hs,
               endPos := some (a + 19) }, nx :: rest) := by
  have h1 : ¬ (nx.e < a + 19) := by omega
  have h2 : a + 17 < nx.e := by omega
  have hne : ((['t', 'h', 'i', 's'] : Str) = str "this") = True := by simp [str]
  simp [compileStep, isBlockStart, isExprLike, parseExpression, parseName, parsePathSegs, parseExprLoop, href, hxid, h1, h2,
    frontMut, thisHT, Path.new, getLocalPathAndLevel, HelperG.new, hne]

/-- the finished block -/
def wtHT (body : Tmpl) : HelperT := { wiOpen with template := some body }

theorem step_wt_end (src : Str) (opts : TemplateOptions) (f a : Nat) (T0 body : Tmpl) (r0 : CTok) (rest : List CTok)
    (hid : tokStr src ⟨some .r_identifier, a + 22, a + 26, []⟩ = ['w', 'i', 't', 'h'])
    (hr0 : a + 28 ≤ r0.e)
    (hps : processStandalone [body, T0] src (a + 19) (a + 28) true opts.isPartial = .ok (false, [body, T0])) :
    compileStep src opts (f + 4) { tmplStack := [body, T0], helperStack := [wiOpen], endPos := some (a + 19) }
        ⟨some .r_helper_block_end, a + 19, a + 28, []⟩ (⟨some .r_identifier, a + 22, a + 26, []⟩ :: r0 :: rest)
      = .ok ({ tmplStack := [T0.pushElemOnly (.block (wtHT body))], endPos := some (a + 28) }, r0 :: rest) := by
  have h1 : ¬ (r0.e < a + 28) := by omega
  simp [compileStep, isBlockStart, isExprLike, parseExpression, parseName, parseExprLoop, hid, h1, frontMut, wiOpen, wtHT, str, hps,
    HelperG.new, revertChainAndSet, Param.asName?]

/-- the body of the block as compile2 stores it: one expression element, with the position of the tag -/
def wtBody (lc : Nat × Nat) : Tmpl := Tmpl.empty.pushElement (.expr thisHT) lc.1 lc.2

/-- **compile2 on  L ++ {{#with v}}{{this}}{{/with}} ++ W ++ R'** : the text in front, ONE block element (helper `each`, parameter the
    path `v`, body the one expression `../x`, no else branch), the text behind – nothing trimmed, for every `L`, `W`, `R'` -/
theorem compile_text_wt_text (L W R' : Str) (opts : TemplateOptions)
    (hL : L = [] ∨ TextBeforeTag L) (hA : TextAfterTag W R') :
    ∃ m, compile2 (L ++ wtSrc ++ (W ++ R')) opts = .ok (.mk opts.name
      ((leftT L L).elements ++ [.block (wtHT (wtBody (lineCol (L ++ wtSrc ++ (W ++ R')) (L.length + 11))))]
        ++ (if W ++ R' = [] then [] else [.raw (W ++ R')])) m) := by
  have hparse := parse_text_wt_text L W R' hL hA
  simp only [] at hparse
  have hn : (L ++ wtSrc ++ (W ++ R')).length = L.length + 28 + W.length + R'.length := by
    simp [wtSrc_eq]; omega
  have hs0 : slice? (L ++ wtSrc ++ (W ++ R')) 0 L.length = some L := by
    rw [List.append_assoc]; exact slice_prefix L _
  have hsR : slice? (L ++ wtSrc ++ (W ++ R')) (L.length + 28) (L ++ wtSrc ++ (W ++ R')).length = some (W ++ R') :=
    slice_suffix (L ++ wtSrc) (W ++ R') _ (by simp [wtSrc_eq])
  have hid1 : tokStr (L ++ wtSrc ++ (W ++ R')) ⟨some .r_identifier, L.length + 3, L.length + 7, []⟩ = ['w', 'i', 't', 'h'] := by
    have : L ++ wtSrc ++ (W ++ R') = (L ++ ['{', '{', '#']) ++ ['w', 'i', 't', 'h'] ++ ([' ', 'v', '}', '}', '{', '{', 't', 'h', 'i', 's', '}', '}', '{', '{', '/', 'w', 'i', 't', 'h', '}', '}'] ++ (W ++ R')) := by
      simp [wtSrc_eq]
    rw [this]
    exact tokStr_mid (L ++ ['{', '{', '#']) ['w', 'i', 't', 'h'] _ _ (by simp) (by simp)
  have hv : tokStr (L ++ wtSrc ++ (W ++ R')) ⟨some .r_reference, L.length + 8, L.length + 9, []⟩ = ['v'] := by
    have : L ++ wtSrc ++ (W ++ R') = (L ++ ['{', '{', '#', 'w', 'i', 't', 'h', ' ']) ++ ['v'] ++ (['}', '}', '{', '{', 't', 'h', 'i', 's', '}', '}', '{', '{', '/', 'w', 'i', 't', 'h', '}', '}'] ++ (W ++ R')) := by
      simp [wtSrc_eq]
    rw [this]
    exact tokStr_mid (L ++ ['{', '{', '#', 'w', 'i', 't', 'h', ' ']) ['v'] _ _ (by simp) (by simp)
  have href : tokStr (L ++ wtSrc ++ (W ++ R')) ⟨some .r_reference, L.length + 13, L.length + 17, []⟩ = ['t', 'h', 'i', 's'] := by
    have : L ++ wtSrc ++ (W ++ R') = (L ++ ['{', '{', '#', 'w', 'i', 't', 'h', ' ', 'v', '}', '}', '{', '{']) ++ ['t', 'h', 'i', 's'] ++ (['}', '}', '{', '{', '/', 'w', 'i', 't', 'h', '}', '}'] ++ (W ++ R')) := by
      simp [wtSrc_eq]
    rw [this]
    exact tokStr_mid (L ++ ['{', '{', '#', 'w', 'i', 't', 'h', ' ', 'v', '}', '}', '{', '{']) ['t', 'h', 'i', 's'] _ _ (by simp) (by simp)
  have hxid : tokStr (L ++ wtSrc ++ (W ++ R')) ⟨some .r_path_id, L.length + 13, L.length + 17, []⟩ = ['t', 'h', 'i', 's'] := by
    have : L ++ wtSrc ++ (W ++ R') = (L ++ ['{', '{', '#', 'w', 'i', 't', 'h', ' ', 'v', '}', '}', '{', '{']) ++ ['t', 'h', 'i', 's'] ++ (['}', '}', '{', '{', '/', 'w', 'i', 't', 'h', '}', '}'] ++ (W ++ R')) := by
      simp [wtSrc_eq]
    rw [this]
    exact tokStr_mid (L ++ ['{', '{', '#', 'w', 'i', 't', 'h', ' ', 'v', '}', '}', '{', '{']) ['t', 'h', 'i', 's'] _ _ (by simp) (by simp)
  have hid2 : tokStr (L ++ wtSrc ++ (W ++ R')) ⟨some .r_identifier, L.length + 22, L.length + 26, []⟩ = ['w', 'i', 't', 'h'] := by
    have : L ++ wtSrc ++ (W ++ R') = (L ++ ['{', '{', '#', 'w', 'i', 't', 'h', ' ', 'v', '}', '}', '{', '{', 't', 'h', 'i', 's', '}', '}', '{', '{', '/']) ++ ['w', 'i', 't', 'h'] ++ (['}', '}'] ++ (W ++ R')) := by
      simp [wtSrc_eq]
    rw [this]
    exact tokStr_mid (L ++ ['{', '{', '#', 'w', 'i', 't', 'h', ' ', 'v', '}', '}', '{', '{', 't', 'h', 'i', 's', '}', '}', '{', '{', '/']) ['w', 'i', 't', 'h'] _ _ (by simp) (by simp)

  have hc1 : slice? (L ++ wtSrc ++ (W ++ R')) (L.length + 11) (L ++ wtSrc ++ (W ++ R')).length
      = some ('{' :: (['{', 't', 'h', 'i', 's', '}', '}', '{', '{', '/', 'w', 'i', 't', 'h', '}', '}'] ++ (W ++ R'))) := by
    have : L ++ wtSrc ++ (W ++ R') = (L ++ ['{', '{', '#', 'w', 'i', 't', 'h', ' ', 'v', '}', '}']) ++ ('{' :: (['{', 't', 'h', 'i', 's', '}', '}', '{', '{', '/', 'w', 'i', 't', 'h', '}', '}'] ++ (W ++ R'))) := by
      simp [wtSrc_eq]
    rw [this]
    exact slice_suffix _ _ _ (by simp)
  have hb2 : slice? (L ++ wtSrc ++ (W ++ R')) 0 (L.length + 19) = some ((L ++ ['{', '{', '#', 'w', 'i', 't', 'h', ' ', 'v', '}', '}', '{', '{', 't', 'h', 'i', 's', '}']) ++ ['}']) := by
    have : L ++ wtSrc ++ (W ++ R') = ((L ++ ['{', '{', '#', 'w', 'i', 't', 'h', ' ', 'v', '}', '}', '{', '{', 't', 'h', 'i', 's', '}']) ++ ['}']) ++ (['{', '{', '/', 'w', 'i', 't', 'h', '}', '}'] ++ (W ++ R')) := by
      simp [wtSrc_eq]
    rw [this]
    have := slice_prefix ((L ++ ['{', '{', '#', 'w', 'i', 't', 'h', ' ', 'v', '}', '}', '{', '{', 't', 'h', 'i', 's', '}']) ++ ['}']) (['{', '{', '/', 'w', 'i', 't', 'h', '}', '}'] ++ (W ++ R'))
    simpa using this
  generalize hsrc : L ++ wtSrc ++ (W ++ R') = src at *
  have hps1 : processStandalone [leftT L L] src L.length (L.length + 11) true opts.isPartial = .ok (false, [leftT L L]) :=
    processStandalone_text_follows _ src _ _ _ _ '{' _ hc1 (by decide) (by decide)
  have hps2 : ∀ (body : Tmpl) (T0 : Tmpl), processStandalone [body, T0] src (L.length + 19) (L.length + 28) true opts.isPartial
      = .ok (false, [body, T0]) := fun body T0 =>
    processStandalone_text_precedes _ src _ _ _ _ (W ++ R') '}' hb2 (by omega) hsR (by decide) (by decide)
  obtain ⟨m, htail⟩ := loop_tail src W R' opts (3 * (rawTok 0 L.length).length + 3 * (rawTok (L.length + 28 + W.length) src.length).length + 69)
    (L.length + 28) (((leftT L L).pushMapping (lineCol src L.length).1 (lineCol src L.length).2).pushElemOnly
      (.block (wtHT (wtBody (lineCol src (L.length + 11)))))) false hn hsR
  refine ⟨m, ?_⟩
  unfold compile2 compile2Inner
  rw [hparse]
  simp only []
  rw [attachEscapes_noEsc _ (by
    intro t ht
    simp only [List.mem_cons, List.mem_append, List.not_mem_nil, or_false] at ht
    rcases ht with rfl | ((h | rfl | rfl | rfl | rfl | rfl | rfl | rfl | rfl | rfl | rfl | rfl | rfl | rfl | rfl) | h) | rfl
    · show ((some Rule.r_template : Option Rule) == some Rule.r_escape) = false; decide
    · exact rawTok_rule _ _ t h
    · show ((some Rule.r_helper_block_start : Option Rule) == some Rule.r_escape) = false; decide
    · show ((some Rule.r_identifier : Option Rule) == some Rule.r_escape) = false; decide
    · show ((some Rule.r_helper_parameter : Option Rule) == some Rule.r_escape) = false; decide
    · show ((some Rule.r_reference : Option Rule) == some Rule.r_escape) = false; decide
    · show ((some Rule.r_path_inline : Option Rule) == some Rule.r_escape) = false; decide
    · show ((some Rule.r_path_id : Option Rule) == some Rule.r_escape) = false; decide
    · show ((some Rule.r_template : Option Rule) == some Rule.r_escape) = false; decide
    · show ((some Rule.r_expression : Option Rule) == some Rule.r_escape) = false; decide
    · show ((some Rule.r_reference : Option Rule) == some Rule.r_escape) = false; decide
    · show ((some Rule.r_path_inline : Option Rule) == some Rule.r_escape) = false; decide
    · show ((some Rule.r_path_id : Option Rule) == some Rule.r_escape) = false; decide
    · show ((some Rule.r_helper_block_end : Option Rule) == some Rule.r_escape) = false; decide
    · show ((some Rule.r_identifier : Option Rule) == some Rule.r_escape) = false; decide
    · exact rawTok_rule _ _ t h
    · show ((none : Option Rule) == some Rule.r_escape) = false; decide)]
  rw [← hn]
  simp only [List.map_cons, List.map_append, List.length_cons, List.length_append, List.length_map, List.map_nil, List.length_nil,
    List.append_assoc, List.cons_append, List.nil_append]
  rw [show 4 * ((rawTok 0 L.length).length + ((rawTok (L.length + 28 + W.length) src.length).length + (0 + 1) + 1 + 1 + 1 + 1 + 1 + 1 + 1 + 1 + 1 + 1 + 1 + 1 + 1) + 1) + 16
      = ((3 * (rawTok 0 L.length).length + 3 * (rawTok (L.length + 28 + W.length) src.length).length + 66
          + ((rawTok (L.length + 28 + W.length) src.length).length + 2)) + 6 + 1) + (1 + (rawTok 0 L.length).length) by omega]
  rw [loop_head src L opts _ _ _ hs0]
  obtain ⟨r0, rest, hrest, hr0⟩ := tail_head (L.length + 28) W.length src.length (by omega)
  have hep : (if L = [] then none else some L.length : Option Nat).getD 0 = L.length := by
    by_cases hLe : L = [] <;> simp [hLe]
  rw [hrest] at htail ⊢
  simp only [plainCTok]
  -- {{#with v}}
  have hstep1 := step_wt_start src opts
    (3 * (rawTok 0 L.length).length + 3 * (rawTok (L.length + 28 + W.length) src.length).length + 66
      + ((rawTok (L.length + 28 + W.length) src.length).length + 2))
    L.length (leftT L L) _ (⟨some .r_expression, L.length + 11, L.length + 19, []⟩ :: ⟨some .r_reference, L.length + 13, L.length + 17, []⟩ ::
      ⟨some .r_path_inline, L.length + 13, L.length + 17, []⟩ :: 
      ⟨some .r_path_id, L.length + 13, L.length + 17, []⟩ :: ⟨some .r_helper_block_end, L.length + 19, L.length + 28, []⟩ ::
      ⟨some .r_identifier, L.length + 22, L.length + 26, []⟩ :: r0 :: rest) hep hid1 hv hps1
  rw [loop_step src opts _ (st1 L) _ _ _ _ (by unfold st1; exact hstep1)]
  -- the body's template and tag
  rw [show 3 * (rawTok 0 L.length).length + 3 * (rawTok (L.length + 28 + W.length) src.length).length + 66
        + ((rawTok (L.length + 28 + W.length) src.length).length + 2) + 6
      = 3 * (rawTok 0 L.length).length + 3 * (rawTok (L.length + 28 + W.length) src.length).length + 66
        + ((rawTok (L.length + 28 + W.length) src.length).length + 2) + 4 + 1 + 1 by omega]
  rw [loop_step src opts _ _ _ _ _ _ (step_inner_template src opts _ _ _ _ _ _ _)]
  have hstepI := step_inner_this src opts
    (3 * (rawTok 0 L.length).length + 3 * (rawTok (L.length + 28 + W.length) src.length).length + 66 + ((rawTok (L.length + 28 + W.length) src.length).length + 2) + 1)
    L.length Tmpl.empty [(leftT L L).pushMapping (lineCol src L.length).1 (lineCol src L.length).2] [wiOpen]
    ⟨some .r_helper_block_end, L.length + 19, L.length + 28, []⟩ (⟨some .r_identifier, L.length + 22, L.length + 26, []⟩ :: r0 :: rest)
    href hxid (by simp)
  rw [show 3 * (rawTok 0 L.length).length + 3 * (rawTok (L.length + 28 + W.length) src.length).length + 66
        + ((rawTok (L.length + 28 + W.length) src.length).length + 2) + 4 + 1
      = 3 * (rawTok 0 L.length).length + 3 * (rawTok (L.length + 28 + W.length) src.length).length + 66 + ((rawTok (L.length + 28 + W.length) src.length).length + 2) + 1 + 3 + 1 by omega]
  rw [loop_step src opts _ _ _ _ _ _ hstepI]
  -- {{/with}}
  have hstep4 := step_wt_end src opts
    (3 * (rawTok 0 L.length).length + 3 * (rawTok (L.length + 28 + W.length) src.length).length + 65
      + ((rawTok (L.length + 28 + W.length) src.length).length + 2))
    L.length ((leftT L L).pushMapping (lineCol src L.length).1 (lineCol src L.length).2) (wtBody (lineCol src (L.length + 11))) r0 rest hid2 hr0
    (hps2 _ _)
  rw [show 3 * (rawTok 0 L.length).length + 3 * (rawTok (L.length + 28 + W.length) src.length).length + 66 + ((rawTok (L.length + 28 + W.length) src.length).length + 2) + 1 + 3
      = 3 * (rawTok 0 L.length).length + 3 * (rawTok (L.length + 28 + W.length) src.length).length + 65
        + ((rawTok (L.length + 28 + W.length) src.length).length + 2) + 4 + 1 by omega]
  rw [loop_step src opts _ _ _ _ _ _ (by have h4 := hstep4; unfold wtBody at h4; exact h4)]
  rw [show 3 * (rawTok 0 L.length).length + 3 * (rawTok (L.length + 28 + W.length) src.length).length + 65
        + ((rawTok (L.length + 28 + W.length) src.length).length + 2) + 4
      = 3 * (rawTok 0 L.length).length + 3 * (rawTok (L.length + 28 + W.length) src.length).length + 69
        + ((rawTok (L.length + 28 + W.length) src.length).length + 2) by omega]
  unfold wtBody at htail ⊢
  rw [htail]
  simp [Tmpl.pushElemOnly, Tmpl.pushMapping, Tmpl.elements]

end Hbs.PlainText
