import HbsModel.Basic
/-
  Lemmas about the text helpers (trimming only removes whitespace at the stated end).
-/
namespace Hbs

theorem dropWhile_suffix (p : Char → Bool) (s : Str) :
    ∃ pre, s = pre ++ s.dropWhile p ∧ pre.all p = true := by
  induction s with
  | nil => exact ⟨[], by simp⟩
  | cons c cs ih =>
    simp only [List.dropWhile]
    by_cases h : p c = true
    · obtain ⟨pre, h1, h2⟩ := ih
      refine ⟨c :: pre, ?_, ?_⟩
      · simp only [h, List.cons_append]; rw [← h1]
      · simp [h, h2]
    · simp only [h]
      exact ⟨[], by simp⟩

theorem dropWhileEnd_prefix (p : Char → Bool) (s : Str) :
    ∃ suf, s = dropWhileEnd p s ++ suf ∧ suf.all p = true := by
  obtain ⟨pre, h1, h2⟩ := dropWhile_suffix p s.reverse
  refine ⟨pre.reverse, ?_, ?_⟩
  · unfold dropWhileEnd
    have := congrArg List.reverse h1
    simp only [List.reverse_reverse, List.reverse_append] at this
    exact this
  · simpa using h2

/-- `trim_start` deletes only (Unicode) whitespace, at the start -/
theorem trimStart_spec (s : Str) : ∃ pre, s = pre ++ trimStart s ∧ pre.all isUniWs = true :=
  dropWhile_suffix _ s
/-- `trim_end` deletes only whitespace, at the end -/
theorem trimEnd_spec (s : Str) : ∃ suf, s = trimEnd s ++ suf ∧ suf.all isUniWs = true :=
  dropWhileEnd_prefix _ s
theorem trimStartBlank_spec (s : Str) : ∃ pre, s = pre ++ trimStartBlank s ∧ pre.all isBlank = true :=
  dropWhile_suffix _ s
theorem trimEndBlank_spec (s : Str) : ∃ suf, s = trimEndBlank s ++ suf ∧ suf.all isBlank = true :=
  dropWhileEnd_prefix _ s

/-- `strip_first_newline` removes at most ONE line break (LF or CRLF), at the start -/
theorem stripFirstNewline_spec (s : Str) :
    s = stripFirstNewline s ∨ s = '\n' :: stripFirstNewline s ∨ s = '\r' :: '\n' :: stripFirstNewline s := by
  unfold stripFirstNewline
  split
  · right; right; rfl
  · right; left; rfl
  · left; rfl

end Hbs
