import HbsModel.Lemmas.PlainText
/-
  Text with escapes: `quote s` replaces every `{{` of `s` by `\{{`.  For every `s` without a backslash
  immediately before a `{{`, `quote s` parses to ONE raw_text pair whose inner `escape` pairs are
  exactly the inserted backslashes.
-/
namespace Hbs.PlainText
open Hbs Hbs.Pest Hbs.Grammar

/-- `{{` ↦ `\{{`, left to right -/
def quote : Str → Str
  | '{' :: '{' :: t => '\\' :: '{' :: '{' :: quote t
  | c :: t => c :: quote t
  | [] => []

/-- no backslash immediately before a `{{` (the property's quantifier) -/
def noEscBrace : Str → Prop
  | '\\' :: '{' :: '{' :: _ => False
  | _ :: t => noEscBrace t
  | [] => True

/-- the `escape` pairs inside the raw_text pair of `quote s`, for `quote s` starting at offset `p` -/
def escToks : Str → Nat → List (Tok Rule)
  | '{' :: '{' :: t, p => ⟨some .r_escape, p, p + 3⟩ :: escToks t (p + 3)
  | _ :: t, p => escToks t (p + 1)
  | [], _ => []

theorem quote_cons_ne (c : Char) (t : Str) (h : ∀ t', c :: t ≠ '{' :: '{' :: t') : quote (c :: t) = c :: quote t := by
  rw [quote]
  intro t1 hc ht
  exact h t1 (by rw [hc, ht])

theorem escToks_cons_ne (c : Char) (t : Str) (p : Nat) (h : ∀ t', c :: t ≠ '{' :: '{' :: t') :
    escToks (c :: t) p = escToks t (p + 1) := by
  rw [escToks]
  intro t1 hc ht
  exact h t1 (by rw [hc, ht])

/-- a quoted text never BEGINS with `{{` -/
theorem quote_head (t : Str) (p : Nat) : matchStr ['{', '{'] ⟨p, quote t⟩ = none := by
  cases t with
  | nil => rfl
  | cons c t =>
    by_cases h : ∃ t', c :: t = '{' :: '{' :: t'
    · obtain ⟨t', ht⟩ := h
      rw [ht]; simp [quote, matchStr]
    · have hne : ∀ t', c :: t ≠ '{' :: '{' :: t' := fun t' e => h ⟨t', e⟩
      rw [quote_cons_ne c t hne]
      by_cases hc : c = '{'
      · subst hc
        -- then `t` does not begin with `{`
        cases t with
        | nil => simp [quote, matchStr]
        | cons d t' =>
          have hd : d ≠ '{' := fun e => hne t' (by rw [e])
          have hdb : ('{' == d) = false := beq_eq_false_iff_ne.mpr (fun e => hd e.symm)
          have : quote (d :: t') = d :: quote t' := quote_cons_ne d t' (fun t'' e => by cases e; exact hd rfl)
          rw [this]; simp [matchStr, hdb]
      · have hcb : ('{' == c) = false := beq_eq_false_iff_ne.mpr (fun e => hc e.symm)
        simp [matchStr, hcb]

theorem noEscBrace_tail (c : Char) (t : Str) (h : noEscBrace (c :: t)) : noEscBrace t := by
  unfold noEscBrace at h
  split at h
  · exact h.elim
  · rename_i c' t' _ heq; cases heq; exact h
  · rename_i heq; cases heq

/-- after a backslash of the original text, what follows its run of backslashes in the quoted text does
    not begin with `{{` – that would be a backslash before `{{` in the original -/
theorem quote_after_bs (t : Str) (p : Nat) (h : noEscBrace ('\\' :: t)) :
    matchStr ['{', '{'] ⟨p, (quote t).dropWhile isBs⟩ = none := by
  induction t generalizing p with
  | nil => rfl
  | cons c t ih =>
    by_cases hc : c = '\\'
    · subst hc
      have hq : quote ('\\' :: t) = '\\' :: quote t := quote_cons_ne _ _ (fun t' e => by cases e)
      rw [hq]
      have : ('\\' :: quote t).dropWhile isBs = (quote t).dropWhile isBs := by simp [List.dropWhile, isBs]
      rw [this]
      exact ih p (noEscBrace_tail _ _ h)
    · by_cases hb : ∃ t', c :: t = '{' :: '{' :: t'
      · obtain ⟨t', ht⟩ := hb
        rw [ht] at h
        simp [noEscBrace] at h
      · have hne : ∀ t', c :: t ≠ '{' :: '{' :: t' := fun t' e => hb ⟨t', e⟩
        have hq := quote_cons_ne c t hne
        have hbs : isBs c = false := by simp [isBs, hc]
        have hdw : (quote (c :: t)).dropWhile isBs = quote (c :: t) := by rw [hq]; simp [List.dropWhile, hbs]
        rw [hdw]
        exact quote_head (c :: t) p

/-- `escape` matches the inserted `\{{` (and nothing more: the quoted rest never begins with `{{`) -/
theorem escape_ok (p : Nat) (r : Str) (hr : ∀ p', matchStr ['{', '{'] ⟨p', r⟩ = none) :
    E 6 .compound (.rule .r_escape) ⟨p, '\\' :: '{' :: '{' :: r⟩ (.ok ⟨p + 3, r⟩ [⟨some .r_escape, p, p + 3⟩]) := by
  have hbody : E 5 (innerAtom (rules .r_escape).ty .compound) (rules .r_escape).body
      ⟨p, '\\' :: '{' :: '{' :: r⟩ (.ok ⟨p + 3, r⟩ []) := by
    show E 5 .atomic (.choice (.seq (.seq (.str ['\\']) (.str ['{', '{'])) (.opt (.str ['{', '{'])))
      (.seq (.seq (.str ['\\']) (.repOnce (.str ['\\']))) (.posPred (.str ['{', '{'])))) _ _
    have := Ev.choice_left (G := rules) (ws := ws) (atom := .atomic)
      (b := .seq (.seq (.str ['\\']) (.repOnce (.str ['\\']))) (.posPred (.str ['{', '{'])))
      (Ev.seq_ok (F := 3)
        (Ev.seq_ok (F := 2) (Ev.str_ok (F := 1) (s := ['\\']) (st := ⟨p, '\\' :: '{' :: '{' :: r⟩) (st' := ⟨p + 1, '{' :: '{' :: r⟩) (by simp [matchStr]))
          (Ev.skip_off (by simp)) (Ev.str_ok (F := 1) (s := ['{', '{']) (st' := ⟨p + 3, r⟩) (by simp [matchStr])))
        (Ev.skip_off (by simp)) (Ev.opt_none (F := 2) (a := .str ['{', '{']) (Ev.str_fail (hr (p + 3)))))
    simpa using this
  have := Ev.rule_ok (G := rules) (ws := ws) (atom := .compound) (r := Rule.r_escape) (F := 5)
    (st := ⟨p, '\\' :: '{' :: '{' :: r⟩) (st' := ⟨p + 3, r⟩) (toks := []) hbody
  have hty : (rules .r_escape).ty = .atomic := rfl
  simpa [hty] using this

/-- the loop of `raw_text` over a quoted text: everything is consumed, the pairs are the escapes -/
theorem quotedLoop (s : Str) (hs : noEscBrace s) (p : Nat) :
    E ((quote s).length + 17) .compound (.starTail rawElem) ⟨p, quote s⟩
      (.ok ⟨p + (quote s).length, []⟩ (escToks s p)) := by
  fun_induction quote s generalizing p with
  | case1 t ih =>
    -- `{{` in the original: `\{{` in the quoted text, one escape pair
    have hst : noEscBrace t := noEscBrace_tail _ _ (noEscBrace_tail _ _ hs)
    have hesc := escape_ok p (quote t) (fun p' => quote_head t p')
    have helem : E ((quote t).length + 19) .compound rawElem ⟨p, '\\' :: '{' :: '{' :: quote t⟩
        (.ok ⟨p + 3, quote t⟩ [⟨some .r_escape, p, p + 3⟩]) := by
      have := Ev.choice_left (b := .seq (.negPred (.str ['{', '{'])) (.builtin .any)) (hesc.weaken (F' := (quote t).length + 18) (by omega))
      simpa [rawElem] using this
    have h := Ev.starTail_step (F := (quote t).length + 19) (st := ⟨p, '\\' :: '{' :: '{' :: quote t⟩) (Ev.skip_off (by simp))
      helem (by simp) ((ih hst (p + 3)).weaken (by omega))
    have e1 : ('\\' :: '{' :: '{' :: quote t).length + 17 = (quote t).length + 19 + 1 := by simp [List.length_cons]
    have e2 : p + ('\\' :: '{' :: '{' :: quote t).length = p + 3 + (quote t).length := by simp [List.length_cons]; omega
    rw [e1, e2]
    simpa [escToks] using h
  | case2 c t hne ih =>
    -- an ordinary character (a lone brace and a backslash included)
    have hst : noEscBrace t := noEscBrace_tail _ _ hs
    have hne' : ∀ t', c :: t ≠ '{' :: '{' :: t' := fun t' e => by cases e; exact hne t' rfl rfl
    -- `escape` fails here
    have h1 : (c :: quote t).head? = some '\\' → ∀ p', matchStr ['{', '{'] ⟨p', (c :: quote t).tail⟩ = none := fun _ p' => quote_head t p'
    have h2 : (c :: quote t).head? = some '\\' → ∀ p', matchStr ['{', '{'] ⟨p', (c :: quote t).dropWhile isBs⟩ = none := by
      intro _ p'
      by_cases hc : c = '\\'
      · subst hc
        have : ('\\' :: quote t).dropWhile isBs = (quote t).dropWhile isBs := by simp [List.dropWhile, isBs]
        rw [this]; exact quote_after_bs t p' hs
      · have hbs : isBs c = false := by simp [isBs, hc]
        have : (c :: quote t).dropWhile isBs = c :: quote t := by simp [List.dropWhile, hbs]
        rw [this, ← quote_cons_ne c t hne']
        exact quote_head (c :: t) p'
    have hesc := escape_fails_local .compound p (c :: quote t) h1 h2
    have hopen : matchStr ['{', '{'] ⟨p, c :: quote t⟩ = none := by
      rw [← quote_cons_ne c t hne']; exact quote_head (c :: t) p
    have helem : E ((c :: quote t).length + 15) .compound rawElem ⟨p, c :: quote t⟩ (.ok ⟨p + 1, quote t⟩ []) := by
      have := Ev.choice_right (b := .seq (.negPred (.str ['{', '{'])) (.builtin .any))
        (hesc.weaken (F' := (c :: quote t).length + 14) (by omega))
        (Ev.seq_ok (F := (c :: quote t).length + 13) (Ev.negPred_ok (Ev.str_fail hopen)) (Ev.skip_off (by simp)) Ev.any_ok)
      simpa [rawElem] using this
    have h := Ev.starTail_step (F := (quote t).length + 17) (st := ⟨p, c :: quote t⟩) (Ev.skip_off (by simp))
      (helem.weaken (by rw [List.length_cons]; omega)) (by simp) (ih hst (p + 1))
    have e1 : (c :: quote t).length + 17 = (quote t).length + 17 + 1 := by rw [List.length_cons]
    have e2 : p + (c :: quote t).length = p + 1 + (quote t).length := by rw [List.length_cons]; omega
    rw [e1, e2, escToks_cons_ne c t p hne']
    simpa using h
  | case3 =>
    exact Ev.starTail_stop (F := 16) (Ev.skip_off (by simp)) ((rawElem_eoi p).weaken (by omega))

theorem quote_ne_nil (s : Str) (h : s ≠ []) : quote s ≠ [] := by
  cases s with
  | nil => exact absurd rfl h
  | cons c t =>
    by_cases hb : ∃ t', c :: t = '{' :: '{' :: t'
    · obtain ⟨t', ht⟩ := hb; rw [ht]; simp [quote]
    · rw [quote_cons_ne c t (fun t' e => hb ⟨t', e⟩)]; simp

/-- `raw_text` on a quoted text: one pair spanning all of it, with the escapes inside -/
theorem raw_text_quoted (s : Str) (hne : s ≠ []) (hs : noEscBrace s) :
    E ((quote s).length + 20) .nonAtomic (.rule .r_raw_text) ⟨0, quote s⟩
      (.ok ⟨(quote s).length, []⟩ (⟨some .r_raw_text, 0, (quote s).length⟩ :: escToks s 0)) := by
  have hloop := quotedLoop s hs 0
  have hpos : (quote s).length ≠ 0 := by
    intro h0; exact quote_ne_nil s hne (List.eq_nil_of_length_eq_zero h0)
  have hrep := Ev.repOnce_of_starTail (F := (quote s).length + 16) (atom := .compound) (by simp) hloop (by simpa using hpos)
  have hr := Ev.rule_ok (G := rules) (ws := ws) (atom := .nonAtomic) (r := Rule.r_raw_text) (F := (quote s).length + 17)
    (st := ⟨0, quote s⟩) (st' := ⟨0 + (quote s).length, []⟩) (toks := escToks s 0)
    (by simpa [raw_text_def, innerAtom] using hrep)
  have : (rules .r_raw_text).ty = .compound := rfl
  simp only [this] at hr
  have hz : 0 + (quote s).length = (quote s).length := by omega
  rw [hz] at hr
  exact hr.weaken (by omega)

/-- **the parse of a quoted text**: template( raw_text( escape… ) ) EOI -/
theorem parse_quoted (s : Str) (hne : s ≠ []) (hs : noEscBrace s) :
    Pest.parse rules ws .r_handlebars (quote s) = .ok ⟨(quote s).length, []⟩
      (⟨some .r_template, 0, (quote s).length⟩ :: ⟨some .r_raw_text, 0, (quote s).length⟩ ::
        (escToks s 0 ++ [⟨none, (quote s).length, (quote s).length⟩])) := by
  have h := handlebars_of_raw_text (quote s) (escToks s 0) _ (raw_text_quoted s hne hs)
  exact (h.weaken (F' := defaultFuel (quote s).length) (by unfold defaultFuel; omega)).1

end Hbs.PlainText
