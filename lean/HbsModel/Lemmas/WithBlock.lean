import HbsModel.Lemmas.IfBlock
/-
  compile2 on  L ++ "{{#with v}}A{{/with}}" ++ W ++ R' : a helper block between texts.  Neither block tag is alone on its line (the
  body `A` stands directly behind the opening tag and directly in front of the closing tag), so nothing is trimmed.
-/
namespace Hbs.PlainText
open Hbs Hbs.Pest Hbs.Grammar

def wiSrc : Str := "{{#with v}}A{{/with}}".toList
def wiToks : List (Tok Rule) :=
  [⟨some .r_helper_block_start, 0, 11⟩, ⟨some .r_identifier, 3, 7⟩, ⟨some .r_helper_parameter, 8, 9⟩, ⟨some .r_reference, 8, 9⟩,
   ⟨some .r_path_inline, 8, 9⟩, ⟨some .r_path_id, 8, 9⟩, ⟨some .r_template, 11, 12⟩, ⟨some .r_raw_text, 11, 12⟩,
   ⟨some .r_helper_block_end, 12, 21⟩, ⟨some .r_identifier, 15, 19⟩]

theorem wiSrc_eq : wiSrc = ['{', '{', '#', 'w', 'i', 't', 'h', ' ', 'v', '}', '}', 'A', '{', '{', '/', 'w', 'i', 't', 'h', '}', '}'] := by decide

/-- decided on the regenerated grammar: the whole block – whatever follows – is ONE element of `template`, with these pairs -/
theorem wi_decided : evalK rules ws false 400 .nonAtomic templateAlt 0 wiSrc = some (.ok 21 [] wiToks) :=
  KRes.isOkWith_eq (by decide)

theorem wi_tagAt : TagAt wiSrc 400 wiToks := by
  intro p tail
  have := evalK_at rules ws rules_noSoi false tail (by simp) 400 .nonAtomic templateAlt rfl wiSrc _ wi_decided p
  refine ⟨?_, by simp [shiftRes, embedK]⟩
  rw [this]
  simp [shiftRes, embedK, wiSrc_eq, Nat.add_comm]

/-- the pair stream of  L ++ {{#with v}}A{{/with}} ++ W ++ R' -/
theorem parse_text_wi_text (L W R' : Str) (hL : L = [] ∨ TextBeforeTag L) (hA : TextAfterTag W R') :
    let a := L.length
    let b := a + 21
    let d := b + W.length
    let n := d + R'.length
    Pest.parse rules ws .r_handlebars (L ++ wiSrc ++ (W ++ R'))
      = .ok ⟨n, []⟩ (⟨some .r_template, 0, if R' = [] then b else n⟩ ::
          (rawTok 0 a ++ [⟨some .r_helper_block_start, a, a + 11⟩, ⟨some .r_identifier, a + 3, a + 7⟩,
              ⟨some .r_helper_parameter, a + 8, a + 9⟩, ⟨some .r_reference, a + 8, a + 9⟩, ⟨some .r_path_inline, a + 8, a + 9⟩,
              ⟨some .r_path_id, a + 8, a + 9⟩, ⟨some .r_template, a + 11, a + 12⟩, ⟨some .r_raw_text, a + 11, a + 12⟩,
              ⟨some .r_helper_block_end, a + 12, a + 21⟩, ⟨some .r_identifier, a + 15, a + 19⟩]
            ++ rawTok d n ++ [⟨none, n, n⟩])) := by
  intro a b d n
  have h := handlebars_text_tag_text L ['#', 'w', 'i', 't', 'h', ' ', 'v', '}', '}', 'A', '{', '{', '/', 'w', 'i', 't', 'h', '}', '}'] W R' 400 _ hL
    (by rw [← wiSrc_eq]; exact wi_tagAt) hA
  have hn : (L ++ wiSrc ++ (W ++ R')).length = n := by simp [n, d, b, a, wiSrc_eq]; omega
  simp only [] at h
  rw [wiSrc_eq]
  rw [wiSrc_eq] at hn
  have h' := h.weaken (F' := defaultFuel (L ++ ['{', '{', '#', 'w', 'i', 't', 'h', ' ', 'v', '}', '}', 'A', '{', '{', '/', 'w', 'i', 't', 'h', '}', '}'] ++ (W ++ R')).length) (by
    unfold defaultFuel
    rw [hn]
    have : 21 ≤ n := by simp only [n, d, b]; omega
    omega)
  unfold Pest.parse
  refine Eq.trans h'.1 ?_
  have e1 : (L ++ '{' :: '{' :: ['#', 'w', 'i', 't', 'h', ' ', 'v', '}', '}', 'A', '{', '{', '/', 'w', 'i', 't', 'h', '}', '}'] ++ (W ++ R')).length = n := hn
  simp only [e1, wiToks, List.map, shiftTok, Nat.zero_add, List.length_cons, List.length_nil]
  simp only [Nat.add_comm _ L.length]
  rfl

/-- the helper block under construction after `{{#if v}}` -/
def wiOpen : HelperT :=
  HelperG.new { name := .name ['w', 'i', 't', 'h'], params := [.path (Path.new ['v'] [.named ['v']])], hash := [], blockParam := none,
                omitPreWs := false, omitProWs := false } true false false

theorem step_wi_start (src : Str) (opts : TemplateOptions) (f a : Nat) (T0 : Tmpl) (ep : Option Nat) (rest : List CTok)
    (hep : ep.getD 0 = a)
    (hid : tokStr src ⟨some .r_identifier, a + 3, a + 7, []⟩ = ['w', 'i', 't', 'h'])
    (hv : tokStr src ⟨some .r_reference, a + 8, a + 9, []⟩ = ['v'])
    (hps : processStandalone [T0] src a (a + 11) true opts.isPartial = .ok (false, [T0])) :
    compileStep src opts (f + 6) { tmplStack := [T0], endPos := ep } ⟨some .r_helper_block_start, a, a + 11, []⟩
        (⟨some .r_identifier, a + 3, a + 7, []⟩ :: ⟨some .r_helper_parameter, a + 8, a + 9, []⟩ ::
         ⟨some .r_reference, a + 8, a + 9, []⟩ :: ⟨some .r_path_inline, a + 8, a + 9, []⟩ :: ⟨some .r_path_id, a + 8, a + 9, []⟩ ::
         ⟨some .r_template, a + 11, a + 12, []⟩ :: rest)
      = .ok ({ tmplStack := [T0.pushMapping (lineCol src a).1 (lineCol src a).2], helperStack := [wiOpen],
               endPos := some (a + 11) }, ⟨some .r_template, a + 11, a + 12, []⟩ :: rest) := by
  have hv' : tokStr src ⟨some .r_path_id, a + 8, a + 9, []⟩ = ['v'] := hv
  simp [compileStep, hep, isBlockStart, isExprLike, parseExpression, parseName, parseParam, parsePathSegs, parseExprLoop, hid, hv, hv',
    frontMut, wiOpen, str, hps, HelperG.new, dropInside]

/-- the finished block -/
def wiHT (body : Tmpl) : HelperT := { wiOpen with template := some body }

theorem step_wi_end (src : Str) (opts : TemplateOptions) (f a : Nat) (T0 body : Tmpl) (r0 : CTok) (rest : List CTok)
    (hid : tokStr src ⟨some .r_identifier, a + 15, a + 19, []⟩ = ['w', 'i', 't', 'h'])
    (hr0 : a + 21 ≤ r0.e)
    (hps : processStandalone [body, T0] src (a + 12) (a + 21) true opts.isPartial = .ok (false, [body, T0])) :
    compileStep src opts (f + 4) { tmplStack := [body, T0], helperStack := [wiOpen], endPos := some (a + 12) }
        ⟨some .r_helper_block_end, a + 12, a + 21, []⟩ (⟨some .r_identifier, a + 15, a + 19, []⟩ :: r0 :: rest)
      = .ok ({ tmplStack := [T0.pushElemOnly (.block (wiHT body))], endPos := some (a + 21) }, r0 :: rest) := by
  have h1 : ¬ (r0.e < a + 21) := by omega
  simp [compileStep, isBlockStart, isExprLike, parseExpression, parseName, parseExprLoop, hid, h1, frontMut, wiOpen, wiHT, str, hps,
    HelperG.new, revertChainAndSet, Param.asName?]

/-- the body of the block as compile2 stores it: one text element, with the position of the text -/
def wiBody (lc : Nat × Nat) : Tmpl := Tmpl.empty.pushElement (.raw ['A']) lc.1 lc.2

/-- **compile2 on  L ++ {{#with v}}A{{/with}} ++ W ++ R'** : the text in front, ONE block element (helper `with`, parameter the path `v`,
    body the text `A`, no else branch), the text behind – nothing trimmed, for every `L`, `W`, `R'` -/
theorem compile_text_wi_text (L W R' : Str) (opts : TemplateOptions)
    (hL : L = [] ∨ TextBeforeTag L) (hA : TextAfterTag W R') :
    ∃ m, compile2 (L ++ wiSrc ++ (W ++ R')) opts = .ok (.mk opts.name
      ((leftT L L).elements ++ [.block (wiHT (wiBody (lineCol (L ++ wiSrc ++ (W ++ R')) (L.length + 11))))]
        ++ (if W ++ R' = [] then [] else [.raw (W ++ R')])) m) := by
  have hparse := parse_text_wi_text L W R' hL hA
  simp only [] at hparse
  have hn : (L ++ wiSrc ++ (W ++ R')).length = L.length + 21 + W.length + R'.length := by
    simp [wiSrc_eq]; omega
  have hs0 : slice? (L ++ wiSrc ++ (W ++ R')) 0 L.length = some L := by
    rw [List.append_assoc]; exact slice_prefix L _
  have hsR : slice? (L ++ wiSrc ++ (W ++ R')) (L.length + 21) (L ++ wiSrc ++ (W ++ R')).length = some (W ++ R') :=
    slice_suffix (L ++ wiSrc) (W ++ R') _ (by simp [wiSrc_eq])
  have hid1 : tokStr (L ++ wiSrc ++ (W ++ R')) ⟨some .r_identifier, L.length + 3, L.length + 7, []⟩ = ['w', 'i', 't', 'h'] := by
    have : L ++ wiSrc ++ (W ++ R') = (L ++ ['{', '{', '#']) ++ ['w', 'i', 't', 'h'] ++ ([' ', 'v', '}', '}', 'A', '{', '{', '/', 'w', 'i', 't', 'h', '}', '}'] ++ (W ++ R')) := by
      simp [wiSrc_eq]
    rw [this]
    exact tokStr_mid (L ++ ['{', '{', '#']) ['w', 'i', 't', 'h'] _ _ (by simp) (by simp)
  have hv : tokStr (L ++ wiSrc ++ (W ++ R')) ⟨some .r_reference, L.length + 8, L.length + 9, []⟩ = ['v'] := by
    have : L ++ wiSrc ++ (W ++ R') = (L ++ ['{', '{', '#', 'w', 'i', 't', 'h', ' ']) ++ ['v'] ++ (['}', '}', 'A', '{', '{', '/', 'w', 'i', 't', 'h', '}', '}'] ++ (W ++ R')) := by
      simp [wiSrc_eq]
    rw [this]
    exact tokStr_mid (L ++ ['{', '{', '#', 'w', 'i', 't', 'h', ' ']) ['v'] _ _ (by simp) (by simp)
  have hid2 : tokStr (L ++ wiSrc ++ (W ++ R')) ⟨some .r_identifier, L.length + 15, L.length + 19, []⟩ = ['w', 'i', 't', 'h'] := by
    have : L ++ wiSrc ++ (W ++ R') = (L ++ ['{', '{', '#', 'w', 'i', 't', 'h', ' ', 'v', '}', '}', 'A', '{', '{', '/']) ++ ['w', 'i', 't', 'h'] ++ (['}', '}'] ++ (W ++ R')) := by
      simp [wiSrc_eq]
    rw [this]
    exact tokStr_mid (L ++ ['{', '{', '#', 'w', 'i', 't', 'h', ' ', 'v', '}', '}', 'A', '{', '{', '/']) ['w', 'i', 't', 'h'] _ _ (by simp) (by simp)
  have hA1 : slice? (L ++ wiSrc ++ (W ++ R')) (L.length + 11) (L.length + 12) = some ['A'] := by
    have : L ++ wiSrc ++ (W ++ R') = (L ++ ['{', '{', '#', 'w', 'i', 't', 'h', ' ', 'v', '}', '}']) ++ ['A'] ++ (['{', '{', '/', 'w', 'i', 't', 'h', '}', '}'] ++ (W ++ R')) := by
      simp [wiSrc_eq]
    rw [this]
    have := slice_middle (L ++ ['{', '{', '#', 'w', 'i', 't', 'h', ' ', 'v', '}', '}']) ['A'] (['{', '{', '/', 'w', 'i', 't', 'h', '}', '}'] ++ (W ++ R'))
    simpa using this
  have hc1 : slice? (L ++ wiSrc ++ (W ++ R')) (L.length + 11) (L ++ wiSrc ++ (W ++ R')).length
      = some ('A' :: (['{', '{', '/', 'w', 'i', 't', 'h', '}', '}'] ++ (W ++ R'))) := by
    have : L ++ wiSrc ++ (W ++ R') = (L ++ ['{', '{', '#', 'w', 'i', 't', 'h', ' ', 'v', '}', '}']) ++ ('A' :: (['{', '{', '/', 'w', 'i', 't', 'h', '}', '}'] ++ (W ++ R'))) := by
      simp [wiSrc_eq]
    rw [this]
    exact slice_suffix _ _ _ (by simp)
  have hb2 : slice? (L ++ wiSrc ++ (W ++ R')) 0 (L.length + 12) = some ((L ++ ['{', '{', '#', 'w', 'i', 't', 'h', ' ', 'v', '}', '}']) ++ ['A']) := by
    have : L ++ wiSrc ++ (W ++ R') = ((L ++ ['{', '{', '#', 'w', 'i', 't', 'h', ' ', 'v', '}', '}']) ++ ['A']) ++ (['{', '{', '/', 'w', 'i', 't', 'h', '}', '}'] ++ (W ++ R')) := by
      simp [wiSrc_eq]
    rw [this]
    have := slice_prefix ((L ++ ['{', '{', '#', 'w', 'i', 't', 'h', ' ', 'v', '}', '}']) ++ ['A']) (['{', '{', '/', 'w', 'i', 't', 'h', '}', '}'] ++ (W ++ R'))
    simpa using this
  generalize hsrc : L ++ wiSrc ++ (W ++ R') = src at *
  have hps1 : processStandalone [leftT L L] src L.length (L.length + 11) true opts.isPartial = .ok (false, [leftT L L]) :=
    processStandalone_text_follows _ src _ _ _ _ 'A' _ hc1 (by decide) (by decide)
  have hps2 : ∀ (body : Tmpl) (T0 : Tmpl), processStandalone [body, T0] src (L.length + 12) (L.length + 21) true opts.isPartial
      = .ok (false, [body, T0]) := fun body T0 =>
    processStandalone_text_precedes _ src _ _ _ _ (W ++ R') 'A' hb2 (by omega) hsR (by decide) (by decide)
  obtain ⟨m, htail⟩ := loop_tail src W R' opts (3 * (rawTok 0 L.length).length + 3 * (rawTok (L.length + 21 + W.length) src.length).length + 57)
    (L.length + 21) (((leftT L L).pushMapping (lineCol src L.length).1 (lineCol src L.length).2).pushElemOnly
      (.block (wiHT (wiBody (lineCol src (L.length + 11)))))) false hn hsR
  refine ⟨m, ?_⟩
  unfold compile2 compile2Inner
  rw [hparse]
  simp only []
  rw [attachEscapes_noEsc _ (by
    intro t ht
    simp only [List.mem_cons, List.mem_append, List.not_mem_nil, or_false] at ht
    rcases ht with rfl | ((h | rfl | rfl | rfl | rfl | rfl | rfl | rfl | rfl | rfl | rfl) | h) | rfl
    · show ((some Rule.r_template : Option Rule) == some Rule.r_escape) = false; decide
    · exact rawTok_rule _ _ t h
    · show ((some Rule.r_helper_block_start : Option Rule) == some Rule.r_escape) = false; decide
    · show ((some Rule.r_identifier : Option Rule) == some Rule.r_escape) = false; decide
    · show ((some Rule.r_helper_parameter : Option Rule) == some Rule.r_escape) = false; decide
    · show ((some Rule.r_reference : Option Rule) == some Rule.r_escape) = false; decide
    · show ((some Rule.r_path_inline : Option Rule) == some Rule.r_escape) = false; decide
    · show ((some Rule.r_path_id : Option Rule) == some Rule.r_escape) = false; decide
    · show ((some Rule.r_template : Option Rule) == some Rule.r_escape) = false; decide
    · show ((some Rule.r_raw_text : Option Rule) == some Rule.r_escape) = false; decide
    · show ((some Rule.r_helper_block_end : Option Rule) == some Rule.r_escape) = false; decide
    · show ((some Rule.r_identifier : Option Rule) == some Rule.r_escape) = false; decide
    · exact rawTok_rule _ _ t h
    · show ((none : Option Rule) == some Rule.r_escape) = false; decide)]
  rw [← hn]
  simp only [List.map_cons, List.map_append, List.length_cons, List.length_append, List.length_map, List.map_nil, List.length_nil,
    List.append_assoc, List.cons_append, List.nil_append]
  rw [show 4 * ((rawTok 0 L.length).length + ((rawTok (L.length + 21 + W.length) src.length).length + (0 + 1) + 1 + 1 + 1 + 1 + 1 + 1 + 1 + 1 + 1 + 1) + 1) + 16
      = ((3 * (rawTok 0 L.length).length + 3 * (rawTok (L.length + 21 + W.length) src.length).length + 54
          + ((rawTok (L.length + 21 + W.length) src.length).length + 2)) + 6 + 1) + (1 + (rawTok 0 L.length).length) by omega]
  rw [loop_head src L opts _ _ _ hs0]
  obtain ⟨r0, rest, hrest, hr0⟩ := tail_head (L.length + 21) W.length src.length (by omega)
  have hep : (if L = [] then none else some L.length : Option Nat).getD 0 = L.length := by
    by_cases hLe : L = [] <;> simp [hLe]
  rw [hrest] at htail ⊢
  simp only [plainCTok]
  -- {{#if v}}
  have hstep1 := step_wi_start src opts
    (3 * (rawTok 0 L.length).length + 3 * (rawTok (L.length + 21 + W.length) src.length).length + 54
      + ((rawTok (L.length + 21 + W.length) src.length).length + 2))
    L.length (leftT L L) _ (⟨some .r_raw_text, L.length + 11, L.length + 12, []⟩ :: ⟨some .r_helper_block_end, L.length + 12, L.length + 21, []⟩ ::
      ⟨some .r_identifier, L.length + 15, L.length + 19, []⟩ :: r0 :: rest) hep hid1 hv hps1
  rw [loop_step src opts _ (st1 L) _ _ _ _ (by unfold st1; exact hstep1)]
  -- the body's template and text
  rw [show 3 * (rawTok 0 L.length).length + 3 * (rawTok (L.length + 21 + W.length) src.length).length + 54
        + ((rawTok (L.length + 21 + W.length) src.length).length + 2) + 6
      = 3 * (rawTok 0 L.length).length + 3 * (rawTok (L.length + 21 + W.length) src.length).length + 54
        + ((rawTok (L.length + 21 + W.length) src.length).length + 2) + 4 + 1 + 1 by omega]
  rw [loop_step src opts _ _ _ _ _ _ (step_inner_template src opts _ _ _ _ _ _ _)]
  rw [loop_step src opts _ _ _ _ _ _ (step_inner_raw src ['A'] opts _ _ _ _ _ _ _ hA1 (by simp))]
  -- {{/if}}
  have hstep4 := step_wi_end src opts
    (3 * (rawTok 0 L.length).length + 3 * (rawTok (L.length + 21 + W.length) src.length).length + 53
      + ((rawTok (L.length + 21 + W.length) src.length).length + 2))
    L.length ((leftT L L).pushMapping (lineCol src L.length).1 (lineCol src L.length).2) (wiBody (lineCol src (L.length + 11))) r0 rest hid2 hr0
    (hps2 _ _)
  rw [show 3 * (rawTok 0 L.length).length + 3 * (rawTok (L.length + 21 + W.length) src.length).length + 54
        + ((rawTok (L.length + 21 + W.length) src.length).length + 2) + 4
      = 3 * (rawTok 0 L.length).length + 3 * (rawTok (L.length + 21 + W.length) src.length).length + 53
        + ((rawTok (L.length + 21 + W.length) src.length).length + 2) + 4 + 1 by omega]
  rw [loop_step src opts _ _ _ _ _ _ (by have h4 := hstep4; unfold wiBody at h4; exact h4)]
  rw [show 3 * (rawTok 0 L.length).length + 3 * (rawTok (L.length + 21 + W.length) src.length).length + 53
        + ((rawTok (L.length + 21 + W.length) src.length).length + 2) + 4
      = 3 * (rawTok 0 L.length).length + 3 * (rawTok (L.length + 21 + W.length) src.length).length + 57
        + ((rawTok (L.length + 21 + W.length) src.length).length + 2) by omega]
  unfold wiBody at htail ⊢
  rw [htail]
  simp [Tmpl.pushElemOnly, Tmpl.pushMapping, Tmpl.elements]

end Hbs.PlainText
