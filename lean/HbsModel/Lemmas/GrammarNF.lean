import HbsModel.Lemmas.PlainText
import HbsModel.Lemmas.PestUnfold
/-
  Normal forms of rule bodies: references to silent rules that are NOT among the silent rules of the grammar as it stands today
  are replaced by their bodies before a structural fact is stated.  A refactoring of src/grammar.pest that factors a
  sub-expression out into a new silent rule leaves these normal forms – and the derivations built on them – unchanged.
-/
namespace Hbs.PlainText
open Hbs Hbs.Pest Hbs.Grammar

/-- the silent rules the derivations treat as rules of their own -/
def keepSilent : Rule → Bool
  | .r_WHITESPACE | .r_symbol_char | .r_partial_symbol_char | .r_path_char | .r_name | .r_exp_line | .r_partial_exp_line
  | .r_html_expression_triple_bracket_legacy | .r_html_expression_triple_bracket | .r_amp_expression | .r_helper_block
  | .r_decorator_block | .r_partial_block | .r_raw_block | .r_parameter | .r_handlebars | .r_path_sep | .r_path_key
  | .r_path_current | .r_path_item | .r_path => true
  | _ => false

/-- a derivation for the normal form of a rule's body is a derivation for the body -/
theorem E.of_nf (r : Rule) {body : PExpr Rule} (hnf : unfoldS rules keepSilent 8 (rules r).body = body)
    {F : Nat} {atom : Atom} {st : St} {res : PRes Rule} (h : E F atom body st res) : E (F + 8) atom (rules r).body st res :=
  Ev.of_unfoldS keepSilent 8 (by rw [hnf]; exact h)

end Hbs.PlainText
