import HbsModel.Lemmas.CommentTag
import HbsModel.Lemmas.CompilePlain
/-
  compile2 on  L ++ "{{!" ++ c ++ "}}" ++ R : text, comment, text – with the standalone-line rule.
-/
namespace Hbs.PlainText
open Hbs Hbs.Pest Hbs.Grammar

/-- the pair stream of  L ++ {{!c}} ++ W ++ R' -/
theorem parse_text_comment_text (L c W R' : Str) (hL : L = [] ∨ TextBeforeTag L) (hc : CommentText c) (hd : noDash c)
    (hA : TextAfterTag W R') :
    let a := L.length
    let b := a + (c.length + 5)
    let d := b + W.length
    let n := d + R'.length
    Pest.parse rules ws .r_handlebars (L ++ cmtSrc c ++ (W ++ R'))
      = .ok ⟨n, []⟩ (⟨some .r_template, 0, if R' = [] then b else n⟩ ::
          (rawTok 0 a ++ [⟨some .r_hbs_comment_compact, a, b⟩] ++ rawTok d n ++ [⟨none, n, n⟩])) := by
  intro a b d n
  have h := handlebars_text_tag_text L ('!' :: (c ++ ['}', '}'])) W R' (c.length + 120) _ hL (comment_tagAt c hc hd) hA
  have hlen : (cmtSrc c).length = c.length + 5 := by simp [cmtSrc]
  have hn : (L ++ cmtSrc c ++ (W ++ R')).length = n := by simp [n, d, b, a, hlen]; omega
  simp only [] at h
  have h' := h.weaken (F' := defaultFuel (L ++ cmtSrc c ++ (W ++ R')).length) (by
    unfold defaultFuel
    have : (L ++ '{' :: '{' :: '!' :: (c ++ ['}', '}']) ++ (W ++ R')).length = n := hn
    rw [this, hn]; simp only [n, d, b]; omega)
  unfold Pest.parse
  refine Eq.trans h'.1 ?_
  have e1 : (L ++ '{' :: '{' :: '!' :: (c ++ ['}', '}']) ++ (W ++ R')).length = n := hn
  have e2 : ('{' :: '{' :: '!' :: (c ++ ['}', '}'])).length = c.length + 5 := hlen
  simp only [e1, e2, List.map, shiftTok, Nat.zero_add]
  rw [show c.length + 5 + L.length = L.length + (c.length + 5) by omega]

end Hbs.PlainText

namespace Hbs.PlainText
open Hbs Hbs.Pest Hbs.Grammar

/-- the text `compile2` stores for a compact comment pair -/
def cmtText (src : Str) (a b : Nat) : Str :=
  trimEndMatches (str "}}") (trimStartMatches (str "{{!") (tokStr src ⟨some .r_hbs_comment_compact, a, b, []⟩))

theorem step_raw_first (src L : Str) (opts : TemplateOptions) (fuel : Nat) (it : List CTok)
    (hs : slice? src 0 L.length = some L) :
    compileStep src opts fuel { tmplStack := [Tmpl.empty] } ⟨some .r_raw_text, 0, L.length, []⟩ it
      = .ok ({ tmplStack := [.mk none [.raw L] [(1, 1)]], endPos := some L.length }, it) := by
  simp [compileStep, lineCol, lineColAux, hs, rawString, removeEscapes, frontMut, Tmpl.pushElement,
    Tmpl.empty, Tmpl.name, Tmpl.elements, Tmpl.mapping]

theorem step_comment (src : Str) (opts : TemplateOptions) (fuel : Nat) (it : List CTok) (a b : Nat) (T0 T0' : Tmpl)
    (trim : Bool) (ep : Option Nat) (hep : ep.getD 0 = a)
    (hps : processStandalone [T0] src a b true opts.isPartial = .ok (trim, [T0'])) :
    compileStep src opts fuel { tmplStack := [T0], endPos := ep } ⟨some .r_hbs_comment_compact, a, b, []⟩ it
      = .ok ({ tmplStack := [T0'.pushElement (.comment (cmtText src a b)) (lineCol src a).1 (lineCol src a).2],
               trimLine := trim, omitProWs := false, endPos := some b }, it) := by
  simp [compileStep, hep, hps, frontMut, isBlockStart, isExprLike, cmtText]

theorem step_raw_after (src R : Str) (opts : TemplateOptions) (fuel : Nat) (it : List CTok) (b d n : Nat) (T1 : Tmpl)
    (trim : Bool) (hs : slice? src b n = some R) (hlen : n - d ≤ R.length) :
    compileStep src opts fuel { tmplStack := [T1], trimLine := trim, endPos := some b } ⟨some .r_raw_text, d, n, []⟩ it
      = .ok ({ tmplStack := [T1.pushElement (.raw (if trim then stripFirstNewline (trimStartBlank R) else R))
                 (lineCol src d).1 (lineCol src d).2], trimLine := false, endPos := some n }, it) := by
  have hst : (if d = b then d else b) = b := by
    by_cases h : d = b <;> simp [h]
  have hl : ¬ R.length < n - d := by omega
  cases trim <;> simp [compileStep, hst, hs, rawString, removeEscapes, frontMut, hl]

theorem step_eoi_trailing (src W : Str) (opts : TemplateOptions) (fuel : Nat) (b n : Nat) (T1 : Tmpl)
    (trim : Bool) (hne : n ≠ b) (hs : slice? src b n = some W) :
    compileStep src opts fuel { tmplStack := [T1], trimLine := trim, endPos := some b } ⟨none, n, n, []⟩ []
      = .ok ({ tmplStack := [T1.pushElement (.raw (if trim then stripFirstNewline (trimStartBlank W) else W))
                 (lineCol src n).1 (lineCol src n).2], trimLine := false, endPos := some n }, []) := by
  cases trim <;> simp [compileStep, hne, hs, rawString, frontMut, isBlockStart, isExprLike]

theorem step_eoi_at_end (src : Str) (opts : TemplateOptions) (fuel : Nat) (n : Nat) (stk : List Tmpl) (trim : Bool) :
    compileStep src opts fuel { tmplStack := stk, trimLine := trim, endPos := some n } ⟨none, n, n, []⟩ []
      = .ok ({ tmplStack := stk, trimLine := trim, endPos := some n }, []) := by
  simp [compileStep, isBlockStart, isExprLike]

theorem finish_at_end (src : Str) (opts : TemplateOptions) (t : Tmpl) (trim : Bool) :
    compileFinish src opts { tmplStack := [t], trimLine := trim, endPos := some src.length } = .ok (t.setName opts.name) := by
  simp [compileFinish]

end Hbs.PlainText

namespace Hbs.PlainText
open Hbs Hbs.Pest Hbs.Grammar

/-- the standalone-line rule for a tag between the text `L` and the text `R` -/
def standalone (L R : Str) (isPartial : Bool) : Bool :=
  (startsWithEmptyLine R || (!isPartial && (trimStartBlank R).isEmpty)) && endsWithEmptyLine L

/-- the template after the text in front of the tag was pushed (nothing when there is none) -/
def leftT (L x : Str) : Tmpl := if L = [] then Tmpl.empty else .mk none [.raw x] [(1, 1)]

theorem processStandalone_spec (src L R : Str) (b : Nat) (isP : Bool)
    (h0 : slice? src 0 L.length = some L) (hR : slice? src b src.length = some R) :
    processStandalone [leftT L L] src L.length b true isP
      = .ok (standalone L R isP, [leftT L (if standalone L R isP then trimEndBlank L else L)]) := by
  unfold processStandalone standalone
  simp only [hR, h0]
  by_cases hL : L = []
  · subst hL
    have : endsWithEmptyLine [] = true := by decide
    by_cases ht : (startsWithEmptyLine R || (!isP && (trimStartBlank R).isEmpty)) = true
    · simp [ht, this, leftT, frontMut, mapLastRaw, Tmpl.empty, Tmpl.elements]
    · simp [ht, leftT]
  · by_cases ht : (startsWithEmptyLine R || (!isP && (trimStartBlank R).isEmpty)) = true
    · by_cases hl : endsWithEmptyLine L = true
      · have hne : (L.length == 0) = false := by
          simp; exact hL
        simp [ht, hl, leftT, hL, frontMut, mapLastRaw, Tmpl.elements, Tmpl.setElements, Tmpl.mapping, Tmpl.name, hne]
      · have hne : (L.length == 0) = false := by
          simp; exact hL
        simp [ht, hl, leftT, hL, hne]
    · simp [ht, leftT, hL]

end Hbs.PlainText

namespace Hbs.PlainText
open Hbs Hbs.Pest Hbs.Grammar

theorem slice_prefix (L X : Str) : slice? (L ++ X) 0 L.length = some L := by
  simp [slice?]

theorem slice_suffix (A R : Str) (b : Nat) (hb : b = A.length) : slice? (A ++ R) b (A ++ R).length = some R := by
  subst hb
  simp [slice?]

def plainCTok (t : Tok Rule) : CTok := ⟨t.rule, t.s, t.e, []⟩

/-- a pair stream without `escape` pairs goes into the loop of compile2 as it is -/
theorem attachEscapes_noEsc (l : List (Tok Rule)) (h : ∀ t ∈ l, (t.rule == some Rule.r_escape) = false) :
    attachEscapes l = l.map plainCTok := by
  induction l with
  | nil => rfl
  | cons t rest ih =>
    have ht := h t (by simp)
    have hrest : ∀ u ∈ rest, (u.rule == some Rule.r_escape) = false := fun u hu => h u (by simp [hu])
    have hfil : ∀ (p : Tok Rule → Bool), ((rest.takeWhile p).filter (fun u => u.rule == some .r_escape)) = [] := by
      intro p
      rw [List.filter_eq_nil_iff]
      intro u hu
      have := hrest u (List.takeWhile_subset p hu)
      simp [this]
    simp only [attachEscapes, ht, Bool.false_eq_true, ↓reduceIte, hfil, List.map_nil, ite_self, List.map_cons, ih hrest]
    rfl

theorem loop_step (src : Str) (opts : TemplateOptions) (f : Nat) (st st' : CState) (t : CTok) (rest it' : List CTok)
    (h : compileStep src opts f st t rest = .ok (st', it')) :
    compileLoop src opts (f + 1) st (t :: rest) = compileLoop src opts f st' it' := by
  simp [compileLoop, h]


/-- the state after the text in front of the tag -/
def st1 (L : Str) : CState := { tmplStack := [leftT L L], endPos := if L = [] then none else some L.length }

theorem loop_head (src L : Str) (opts : TemplateOptions) (f e : Nat) (rest : List CTok)
    (hs0 : slice? src 0 L.length = some L) :
    compileLoop src opts (f + (1 + (rawTok 0 L.length).length)) {}
        (plainCTok ⟨some .r_template, 0, e⟩ :: ((rawTok 0 L.length).map plainCTok ++ rest))
      = compileLoop src opts f (st1 L) rest := by
  by_cases hL : L = []
  · subst hL
    have := loop_step src opts f {} _ ⟨some .r_template, 0, e, []⟩ rest rest (step_template src opts f rest e)
    simpa [rawTok, plainCTok, st1, leftT] using this
  · have hlen : L.length ≠ 0 := fun h0 => hL (List.eq_nil_of_length_eq_zero h0)
    have hrt : rawTok 0 L.length = [⟨some .r_raw_text, 0, L.length⟩] := by simp [rawTok]; omega
    have h1 := loop_step src opts (f + 1) {} _ ⟨some .r_template, 0, e, []⟩ (⟨some .r_raw_text, 0, L.length, []⟩ :: rest) _
      (step_template src opts (f + 1) _ e)
    have h2 := loop_step src opts f _ _ ⟨some .r_raw_text, 0, L.length, []⟩ rest rest (step_raw_first src L opts f rest hs0)
    rw [hrt]
    simp only [List.length_singleton, List.map, List.cons_append, List.nil_append, plainCTok]
    rw [show f + (1 + 1) = f + 1 + 1 by omega, h1, h2]
    simp [st1, leftT, hL]

theorem loop_comment (src L R : Str) (opts : TemplateOptions) (f b : Nat) (rest : List CTok)
    (hs0 : slice? src 0 L.length = some L) (hR : slice? src b src.length = some R) :
    let sa := standalone L R opts.isPartial
    compileLoop src opts (f + 1) (st1 L) (plainCTok ⟨some .r_hbs_comment_compact, L.length, b⟩ :: rest)
      = compileLoop src opts f
          { tmplStack := [(leftT L (if sa then trimEndBlank L else L)).pushElement (.comment (cmtText src L.length b))
              (lineCol src L.length).1 (lineCol src L.length).2],
            trimLine := sa, omitProWs := false, endPos := some b } rest := by
  intro sa
  have hps := processStandalone_spec src L R b opts.isPartial hs0 hR
  have hep : (if L = [] then none else some L.length : Option Nat).getD 0 = L.length := by
    by_cases hL : L = [] <;> simp [hL]
  exact loop_step src opts f _ _ _ rest rest (step_comment src opts f rest L.length b _ _ _ _ hep hps)

theorem loop_tail (src W R' : Str) (opts : TemplateOptions) (f b : Nat) (T1 : Tmpl) (trim : Bool)
    (hn : src.length = b + W.length + R'.length)
    (hR : slice? src b src.length = some (W ++ R')) :
    ∃ m, compileLoop src opts (f + ((rawTok (b + W.length) src.length).length + 2))
        { tmplStack := [T1], trimLine := trim, endPos := some b }
        ((rawTok (b + W.length) src.length).map plainCTok ++ [plainCTok ⟨none, src.length, src.length⟩])
      = .ok (.mk opts.name (T1.elements ++ (if W ++ R' = [] then [] else
          [.raw (if trim then stripFirstNewline (trimStartBlank (W ++ R')) else W ++ R')])) m) := by
  by_cases hR' : R' = []
  · subst hR'
    have hdn : b + W.length = src.length := by simp [hn]
    have hrt : rawTok (b + W.length) src.length = [] := by simp [rawTok, hdn]
    rw [hrt]
    simp only [List.length_nil, List.map_nil, List.nil_append, Nat.zero_add, List.append_nil] at *
    by_cases hW : W = []
    · subst hW
      have hbn : src.length = b := by simp [hn]
      have h1 := loop_step src opts (f + 1) { tmplStack := [T1], trimLine := trim, endPos := some src.length } _
        ⟨none, src.length, src.length, []⟩ [] [] (step_eoi_at_end src opts (f + 1) src.length [T1] trim)
      refine ⟨T1.mapping, ?_⟩
      rw [show (some b : Option Nat) = some src.length by rw [hbn], show f + 2 = f + 1 + 1 by omega]
      simp only [plainCTok]
      rw [h1]
      simp [compileLoop, finish_at_end src opts T1 trim, Tmpl.setName]
    · have hne : src.length ≠ b := by
        have : W.length ≠ 0 := fun h0 => hW (List.eq_nil_of_length_eq_zero h0)
        omega
      have h1 := loop_step src opts (f + 1) _ _ ⟨none, src.length, src.length, []⟩ [] []
        (step_eoi_trailing src W opts (f + 1) b src.length T1 trim hne hR)
      refine ⟨T1.mapping ++ [lineCol src src.length], ?_⟩
      rw [show f + 2 = f + 1 + 1 by omega]
      simp only [plainCTok]
      rw [h1]
      simp [compileLoop, finish_at_end src opts _ false, Tmpl.setName, Tmpl.pushElement, Tmpl.elements, Tmpl.mapping, hW]
  · have hlenR : R'.length ≠ 0 := fun h0 => hR' (List.eq_nil_of_length_eq_zero h0)
    have hrt : rawTok (b + W.length) src.length = [⟨some .r_raw_text, b + W.length, src.length⟩] := by simp [rawTok]; omega
    rw [hrt]
    have hne : W ++ R' ≠ [] := by simp [hR']
    have h1 := loop_step src opts (f + 2) _ _ ⟨some .r_raw_text, b + W.length, src.length, []⟩ [⟨none, src.length, src.length, []⟩] _
      (step_raw_after src (W ++ R') opts (f + 2) _ b (b + W.length) src.length T1 trim hR (by simp; omega))
    have h2 := fun stk => loop_step src opts (f + 1) { tmplStack := stk, trimLine := false, endPos := some src.length } _
      ⟨none, src.length, src.length, []⟩ [] [] (step_eoi_at_end src opts (f + 1) src.length stk false)
    refine ⟨T1.mapping ++ [lineCol src (b + W.length)], ?_⟩
    simp only [List.length_singleton, List.map, List.cons_append, List.nil_append, plainCTok]
    rw [show f + (1 + 2) = f + 2 + 1 by omega, h1, show f + 2 = f + 1 + 1 by omega, h2]
    simp [compileLoop, finish_at_end src opts _ false, Tmpl.setName, Tmpl.pushElement, Tmpl.elements, Tmpl.mapping, hne]


/-- the same with the position table: what is appended to it -/
theorem loop_tail_pos (src W R' : Str) (opts : TemplateOptions) (f b : Nat) (T1 : Tmpl) (trim : Bool)
    (hn : src.length = b + W.length + R'.length)
    (hR : slice? src b src.length = some (W ++ R')) :
    ∃ extra, compileLoop src opts (f + ((rawTok (b + W.length) src.length).length + 2))
        { tmplStack := [T1], trimLine := trim, endPos := some b }
        ((rawTok (b + W.length) src.length).map plainCTok ++ [plainCTok ⟨none, src.length, src.length⟩])
      = .ok (.mk opts.name (T1.elements ++ (if W ++ R' = [] then [] else
          [.raw (if trim then stripFirstNewline (trimStartBlank (W ++ R')) else W ++ R')])) (T1.mapping ++ extra)) := by
  by_cases hR' : R' = []
  · subst hR'
    have hdn : b + W.length = src.length := by simp [hn]
    have hrt : rawTok (b + W.length) src.length = [] := by simp [rawTok, hdn]
    rw [hrt]
    simp only [List.length_nil, List.map_nil, List.nil_append, Nat.zero_add, List.append_nil] at *
    by_cases hW : W = []
    · subst hW
      have hbn : src.length = b := by simp [hn]
      have h1 := loop_step src opts (f + 1) { tmplStack := [T1], trimLine := trim, endPos := some src.length } _
        ⟨none, src.length, src.length, []⟩ [] [] (step_eoi_at_end src opts (f + 1) src.length [T1] trim)
      refine ⟨[], ?_⟩
      rw [show (some b : Option Nat) = some src.length by rw [hbn], show f + 2 = f + 1 + 1 by omega]
      simp only [plainCTok]
      rw [h1]
      simp [compileLoop, finish_at_end src opts T1 trim, Tmpl.setName]
    · have hne : src.length ≠ b := by
        have : W.length ≠ 0 := fun h0 => hW (List.eq_nil_of_length_eq_zero h0)
        omega
      have h1 := loop_step src opts (f + 1) _ _ ⟨none, src.length, src.length, []⟩ [] []
        (step_eoi_trailing src W opts (f + 1) b src.length T1 trim hne hR)
      refine ⟨[lineCol src src.length], ?_⟩
      rw [show f + 2 = f + 1 + 1 by omega]
      simp only [plainCTok]
      rw [h1]
      simp [compileLoop, finish_at_end src opts _ false, Tmpl.setName, Tmpl.pushElement, Tmpl.elements, Tmpl.mapping, hW]
  · have hlenR : R'.length ≠ 0 := fun h0 => hR' (List.eq_nil_of_length_eq_zero h0)
    have hrt : rawTok (b + W.length) src.length = [⟨some .r_raw_text, b + W.length, src.length⟩] := by simp [rawTok]; omega
    rw [hrt]
    have hne : W ++ R' ≠ [] := by simp [hR']
    have h1 := loop_step src opts (f + 2) _ _ ⟨some .r_raw_text, b + W.length, src.length, []⟩ [⟨none, src.length, src.length, []⟩] _
      (step_raw_after src (W ++ R') opts (f + 2) _ b (b + W.length) src.length T1 trim hR (by simp; omega))
    have h2 := fun stk => loop_step src opts (f + 1) { tmplStack := stk, trimLine := false, endPos := some src.length } _
      ⟨none, src.length, src.length, []⟩ [] [] (step_eoi_at_end src opts (f + 1) src.length stk false)
    refine ⟨[lineCol src (b + W.length)], ?_⟩
    simp only [List.length_singleton, List.map, List.cons_append, List.nil_append, plainCTok]
    rw [show f + (1 + 2) = f + 2 + 1 by omega, h1, show f + 2 = f + 1 + 1 by omega, h2]
    simp [compileLoop, finish_at_end src opts _ false, Tmpl.setName, Tmpl.pushElement, Tmpl.elements, Tmpl.mapping, hne]


theorem rawTok_rule (a b : Nat) : ∀ t ∈ rawTok a b, (t.rule == some Rule.r_escape) = false := by
  intro t ht
  unfold rawTok at ht
  split at ht
  · simp at ht
  · simp at ht; subst ht
    show ((some Rule.r_raw_text : Option Rule) == some Rule.r_escape) = false
    decide

/-- **compile2 on  L ++ {{!c}} ++ W ++ R'** : the text in front (trimmed at its end when the comment
    stands alone on its line), the comment, the text behind (its first line break dropped when the
    comment stands alone on its line) -/
theorem compile_text_comment_text (L c W R' : Str) (opts : TemplateOptions)
    (hL : L = [] ∨ TextBeforeTag L) (hc : CommentText c) (hd : noDash c) (hA : TextAfterTag W R') :
    ∃ txt m, compile2 (L ++ cmtSrc c ++ (W ++ R')) opts = .ok (.mk opts.name
      ((leftT L (if standalone L (W ++ R') opts.isPartial then trimEndBlank L else L)).elements ++ [.comment txt]
        ++ (if W ++ R' = [] then [] else
          [.raw (if standalone L (W ++ R') opts.isPartial then stripFirstNewline (trimStartBlank (W ++ R')) else W ++ R')])) m) := by
  have hparse := parse_text_comment_text L c W R' hL hc hd hA
  simp only [] at hparse
  have hlenT : (cmtSrc c).length = c.length + 5 := by simp [cmtSrc]
  have hn : (L ++ cmtSrc c ++ (W ++ R')).length = L.length + (c.length + 5) + W.length + R'.length := by
    simp [hlenT]; omega
  have hs0 : slice? (L ++ cmtSrc c ++ (W ++ R')) 0 L.length = some L := by
    rw [List.append_assoc]; exact slice_prefix L _
  have hsR : slice? (L ++ cmtSrc c ++ (W ++ R')) (L.length + (c.length + 5)) (L ++ cmtSrc c ++ (W ++ R')).length = some (W ++ R') :=
    slice_suffix (L ++ cmtSrc c) (W ++ R') _ (by simp [hlenT])
  generalize hsrc : L ++ cmtSrc c ++ (W ++ R') = src at *
  obtain ⟨m, htail⟩ := loop_tail src W R' opts (3 * (rawTok 0 L.length).length + 3 * (rawTok (L.length + (c.length + 5) + W.length) src.length).length + 24)
    (L.length + (c.length + 5))
    ((leftT L (if standalone L (W ++ R') opts.isPartial then trimEndBlank L else L)).pushElement
      (.comment (cmtText src L.length (L.length + (c.length + 5)))) (lineCol src L.length).1 (lineCol src L.length).2)
    (standalone L (W ++ R') opts.isPartial) hn hsR
  refine ⟨cmtText src L.length (L.length + (c.length + 5)), m, ?_⟩
  unfold compile2 compile2Inner
  rw [hparse]
  simp only []
  rw [attachEscapes_noEsc _ (by
    intro t ht
    simp only [List.mem_cons, List.mem_append, List.not_mem_nil, or_false] at ht
    rcases ht with rfl | ((h | rfl) | h) | rfl
    · show ((some Rule.r_template : Option Rule) == some Rule.r_escape) = false; decide
    · exact rawTok_rule _ _ t h
    · show ((some Rule.r_hbs_comment_compact : Option Rule) == some Rule.r_escape) = false; decide
    · exact rawTok_rule _ _ t h
    · show ((none : Option Rule) == some Rule.r_escape) = false; decide)]
  rw [← hn]
  simp only [List.map_cons, List.map_append, List.length_cons, List.length_append, List.length_map, List.map_nil, List.length_nil,
    List.append_assoc, List.cons_append, List.nil_append]
  rw [show 4 * ((rawTok 0 L.length).length + ((rawTok (L.length + (c.length + 5) + W.length) src.length).length + (0 + 1) + 1) + 1) + 16
      = ((3 * (rawTok 0 L.length).length + 3 * (rawTok (L.length + (c.length + 5) + W.length) src.length).length + 24)
          + ((rawTok (L.length + (c.length + 5) + W.length) src.length).length + 2) + 1) + (1 + (rawTok 0 L.length).length) by omega]
  rw [loop_head src L opts _ _ _ hs0]
  have hcm := loop_comment src L (W ++ R') opts
    ((3 * (rawTok 0 L.length).length + 3 * (rawTok (L.length + (c.length + 5) + W.length) src.length).length + 24)
          + ((rawTok (L.length + (c.length + 5) + W.length) src.length).length + 2)) (L.length + (c.length + 5))
    ((rawTok (L.length + (c.length + 5) + W.length) src.length).map plainCTok ++ [plainCTok ⟨none, src.length, src.length⟩]) hs0 hsR
  simp only [] at hcm
  rw [hcm, htail]
  simp [Tmpl.pushElement, Tmpl.elements]

end Hbs.PlainText

namespace Hbs.PlainText
open Hbs Hbs.Pest Hbs.Grammar

/-- **compile2 on  L ++ {{!c}} ++ R**  for every text `R` without `{{` -/
theorem compile_text_comment (L c R : Str) (opts : TemplateOptions)
    (hL : L = [] ∨ TextBeforeTag L) (hc : CommentText c) (hd : noDash c) (hR : noOpen R) :
    ∃ txt m, compile2 (L ++ cmtSrc c ++ R) opts = .ok (.mk opts.name
      ((leftT L (if standalone L R opts.isPartial then trimEndBlank L else L)).elements ++ [.comment txt]
        ++ (if R = [] then [] else
          [.raw (if standalone L R opts.isPartial then stripFirstNewline (trimStartBlank R) else R)])) m) := by
  have h := compile_text_comment_text L c _ _ opts hL hc hd (textAfterTag_split R hR)
  rw [← split_ws R] at h
  exact h

end Hbs.PlainText

namespace Hbs.PlainText

theorem noOpen_cons (c : Char) (t : Str) (hc : c ≠ '{') (h : noOpen t) : noOpen (c :: t) := by
  cases t with
  | nil => trivial
  | cons d t => exact ⟨fun e => hc e.1, h⟩

theorem noOpen_blank_append (ind rest : Str) (hind : ∀ ch ∈ ind, isBlank ch = true) (h : noOpen rest) : noOpen (ind ++ rest) := by
  induction ind with
  | nil => exact h
  | cons a ind ih =>
    have ha := hind a (by simp)
    have hne : a ≠ '{' := by intro e; subst e; simp [isBlank] at ha
    exact noOpen_cons a _ hne (ih (fun ch hc => hind ch (by simp [hc])))

theorem noOpen_append_blank (L0 ind : Str) (h : noOpen L0) (hind : ∀ ch ∈ ind, isBlank ch = true) : noOpen (L0 ++ ind) := by
  induction L0 with
  | nil => simpa using noOpen_blank_append ind [] hind trivial
  | cons c t ih =>
    have ht := ih (noOpen_tail c t h)
    cases t with
    | nil =>
      cases ind with
      | nil => trivial
      | cons a ind' =>
        have ha := hind a (by simp)
        have hne : a ≠ '{' := by intro e; subst e; simp [isBlank] at ha
        exact ⟨fun e => hne e.2, by simpa using ht⟩
    | cons d t' => exact ⟨h.1, by simpa using ht⟩

end Hbs.PlainText
