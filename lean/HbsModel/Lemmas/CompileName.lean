import HbsModel.Lemmas.NameTag
/-
  compile2 on  L ++ "{{name}}" ++ R  for every identifier `name` (not `this`): text, the value expression of the
  one-segment path `name`, text.
-/
namespace Hbs.PlainText
open Hbs Hbs.Pest Hbs.Grammar

theorem identSrc_length (nm : Str) : (identSrc nm).length = nm.length + 4 := by simp [identSrc]

/-- the pair stream of  L ++ {{name}} ++ W ++ R' -/
theorem parse_text_name_text (nm L W R' : Str) (hnm : IdentName nm) (hL : L = [] ∨ TextBeforeTag L) (hA : TextAfterTag W R') :
    let a := L.length
    let b := a + (nm.length + 4)
    let d := b + W.length
    let n := d + R'.length
    Pest.parse rules ws .r_handlebars (L ++ identSrc nm ++ (W ++ R'))
      = .ok ⟨n, []⟩ (⟨some .r_template, 0, if R' = [] then b else n⟩ ::
          (rawTok 0 a ++ [⟨some .r_expression, a, b⟩, ⟨some .r_reference, a + 2, a + 2 + nm.length⟩,
              ⟨some .r_path_inline, a + 2, a + 2 + nm.length⟩, ⟨some .r_path_id, a + 2, a + 2 + nm.length⟩]
            ++ rawTok d n ++ [⟨none, n, n⟩])) := by
  intro a b d n
  have h := handlebars_text_tag_text L (nm ++ ['}', '}']) W R' (nm.length + 100) _ hL (name_tagAt nm hnm) hA
  have hn : (L ++ identSrc nm ++ (W ++ R')).length = n := by simp [n, d, b, a, identSrc_length]; omega
  simp only [] at h
  have h' := h.weaken (F' := defaultFuel (L ++ identSrc nm ++ (W ++ R')).length) (by
    unfold defaultFuel
    have : (L ++ '{' :: '{' :: (nm ++ ['}', '}']) ++ (W ++ R')).length = n := hn
    rw [this, hn]
    have : nm.length + 4 ≤ n := by simp only [n, d, b]; omega
    omega)
  unfold Pest.parse
  refine Eq.trans h'.1 ?_
  have e1 : (L ++ '{' :: '{' :: (nm ++ ['}', '}']) ++ (W ++ R')).length = n := hn
  have e2 : ('{' :: '{' :: (nm ++ ['}', '}'])).length = nm.length + 4 := identSrc_length nm
  simp only [e1, e2, identToks, List.map, shiftTok, Nat.zero_add]
  rw [show nm.length + 4 + L.length = b by omega, show 2 + L.length = a + 2 by omega,
    show nm.length + 2 + L.length = a + 2 + nm.length by omega, show L.length + (nm.length + 4) = b by omega,
    show b + W.length + R'.length = n by omega, show b + W.length = d by omega]

/-- the value expression `{{name}}` as compiled -/
def nameHT (nm : Str) : HelperT :=
  HelperG.new { name := .path (Path.new nm [.named nm]), params := [], hash := [], blockParam := none, omitPreWs := false, omitProWs := false }
    false false false

theorem step_name (nm : Str) (hthis : (nm == str "this") = false) (src : Str) (opts : TemplateOptions) (f a : Nat) (T0 : Tmpl)
    (ep : Option Nat) (r0 : CTok) (rest : List CTok)
    (hep : ep.getD 0 = a) (hv : tokStr src ⟨some .r_path_id, a + 2, a + 2 + nm.length, []⟩ = nm) (hr0 : a + (nm.length + 4) ≤ r0.e) :
    compileStep src opts (f + 3) { tmplStack := [T0], endPos := ep } ⟨some .r_expression, a, a + (nm.length + 4), []⟩
        (⟨some .r_reference, a + 2, a + 2 + nm.length, []⟩ :: ⟨some .r_path_inline, a + 2, a + 2 + nm.length, []⟩
          :: ⟨some .r_path_id, a + 2, a + 2 + nm.length, []⟩ :: r0 :: rest)
      = .ok ({ tmplStack := [T0.pushElement (.expr (nameHT nm)) (lineCol src a).1 (lineCol src a).2], endPos := some (a + (nm.length + 4)) },
          r0 :: rest) := by
  have hv' : tokStr src ⟨some .r_reference, a + 2, a + 2 + nm.length, []⟩ = nm := hv
  have h1 : ¬ (r0.e < a + (nm.length + 4)) := by omega
  have h2 : a + 2 + nm.length < r0.e := by omega
  simp [compileStep, hep, isBlockStart, isExprLike, parseExpression, parseName, parsePathSegs, parseExprLoop, hv, hv', h1, h2,
    frontMut, nameHT, hthis]

/-- **compile2 on  L ++ {{name}} ++ W ++ R'** : the text in front, the expression, the text behind – nothing trimmed;
    the tag's entry in the position table is the line and column of its `{{` -/
theorem compile_text_name_text_pos (nm L W R' : Str) (opts : TemplateOptions) (hnm : IdentName nm) (hthis : (nm == str "this") = false)
    (hL : L = [] ∨ TextBeforeTag L) (hA : TextAfterTag W R') :
    ∃ extra, compile2 (L ++ identSrc nm ++ (W ++ R')) opts = .ok (.mk opts.name
      ((leftT L L).elements ++ [.expr (nameHT nm)] ++ (if W ++ R' = [] then [] else [.raw (W ++ R')]))
      ((leftT L L).mapping ++ [lineCol (L ++ identSrc nm ++ (W ++ R')) L.length] ++ extra)) := by
  have hparse := parse_text_name_text nm L W R' hnm hL hA
  simp only [] at hparse
  have hn : (L ++ identSrc nm ++ (W ++ R')).length = L.length + (nm.length + 4) + W.length + R'.length := by
    simp [identSrc_length]; omega
  have hs0 : slice? (L ++ identSrc nm ++ (W ++ R')) 0 L.length = some L := by
    rw [List.append_assoc]; exact slice_prefix L _
  have hsR : slice? (L ++ identSrc nm ++ (W ++ R')) (L.length + (nm.length + 4)) (L ++ identSrc nm ++ (W ++ R')).length = some (W ++ R') :=
    slice_suffix (L ++ identSrc nm) (W ++ R') _ (by simp [identSrc_length])
  have hv : tokStr (L ++ identSrc nm ++ (W ++ R')) ⟨some .r_path_id, L.length + 2, L.length + 2 + nm.length, []⟩ = nm := by
    have : L ++ identSrc nm ++ (W ++ R') = (L ++ ['{', '{']) ++ nm ++ (['}', '}'] ++ (W ++ R')) := by simp [identSrc]
    rw [this]
    exact tokStr_mid (L ++ ['{', '{']) nm _ _ (by simp) (by simp)
  generalize hsrc : L ++ identSrc nm ++ (W ++ R') = src at *
  obtain ⟨m, htail⟩ := loop_tail_pos src W R' opts
    (3 * (rawTok 0 L.length).length + 3 * (rawTok (L.length + (nm.length + 4) + W.length) src.length).length + 36)
    (L.length + (nm.length + 4)) ((leftT L L).pushElement (.expr (nameHT nm)) (lineCol src L.length).1 (lineCol src L.length).2) false hn hsR
  refine ⟨m, ?_⟩
  unfold compile2 compile2Inner
  rw [hparse]
  simp only []
  rw [attachEscapes_noEsc _ (by
    intro t ht
    simp only [List.mem_cons, List.mem_append, List.not_mem_nil, or_false] at ht
    rcases ht with rfl | ((h | rfl | rfl | rfl | rfl) | h) | rfl
    · show ((some Rule.r_template : Option Rule) == some Rule.r_escape) = false; decide
    · exact rawTok_rule _ _ t h
    · show ((some Rule.r_expression : Option Rule) == some Rule.r_escape) = false; decide
    · show ((some Rule.r_reference : Option Rule) == some Rule.r_escape) = false; decide
    · show ((some Rule.r_path_inline : Option Rule) == some Rule.r_escape) = false; decide
    · show ((some Rule.r_path_id : Option Rule) == some Rule.r_escape) = false; decide
    · exact rawTok_rule _ _ t h
    · show ((none : Option Rule) == some Rule.r_escape) = false; decide)]
  rw [← hn]
  simp only [List.map_cons, List.map_append, List.length_cons, List.length_append, List.length_map, List.map_nil, List.length_nil,
    List.append_assoc, List.cons_append, List.nil_append]
  rw [show 4 * ((rawTok 0 L.length).length + ((rawTok (L.length + (nm.length + 4) + W.length) src.length).length + (0 + 1) + 1 + 1 + 1 + 1) + 1) + 16
      = ((3 * (rawTok 0 L.length).length + 3 * (rawTok (L.length + (nm.length + 4) + W.length) src.length).length + 36)
          + ((rawTok (L.length + (nm.length + 4) + W.length) src.length).length + 2) + 1) + (1 + (rawTok 0 L.length).length) by omega]
  rw [loop_head src L opts _ _ _ hs0]
  obtain ⟨r0, rest, hrest, hr0⟩ := tail_head (L.length + (nm.length + 4)) W.length src.length (by omega)
  have hep : (if L = [] then none else some L.length : Option Nat).getD 0 = L.length := by
    by_cases hLe : L = [] <;> simp [hLe]
  have hstep := step_name nm hthis src opts
    (3 * (rawTok 0 L.length).length + 3 * (rawTok (L.length + (nm.length + 4) + W.length) src.length).length + 33
      + ((rawTok (L.length + (nm.length + 4) + W.length) src.length).length + 2))
    L.length (leftT L L) _ r0 rest hep hv hr0
  have hloop := loop_step src opts
    (3 * (rawTok 0 L.length).length + 3 * (rawTok (L.length + (nm.length + 4) + W.length) src.length).length + 33
      + ((rawTok (L.length + (nm.length + 4) + W.length) src.length).length + 2) + 3) (st1 L) _
    ⟨some .r_expression, L.length, L.length + (nm.length + 4), []⟩ _ _ (by unfold st1; exact hstep)
  rw [hrest] at htail ⊢
  simp only [plainCTok]
  rw [show 3 * (rawTok 0 L.length).length + 3 * (rawTok (L.length + (nm.length + 4) + W.length) src.length).length + 36
        + ((rawTok (L.length + (nm.length + 4) + W.length) src.length).length + 2) + 1
      = 3 * (rawTok 0 L.length).length + 3 * (rawTok (L.length + (nm.length + 4) + W.length) src.length).length + 33
        + ((rawTok (L.length + (nm.length + 4) + W.length) src.length).length + 2) + 3 + 1 by omega]
  rw [hloop]
  rw [show 3 * (rawTok 0 L.length).length + 3 * (rawTok (L.length + (nm.length + 4) + W.length) src.length).length + 33
        + ((rawTok (L.length + (nm.length + 4) + W.length) src.length).length + 2) + 3
      = 3 * (rawTok 0 L.length).length + 3 * (rawTok (L.length + (nm.length + 4) + W.length) src.length).length + 36
        + ((rawTok (L.length + (nm.length + 4) + W.length) src.length).length + 2) by omega]
  rw [htail]
  simp [Tmpl.pushElement, Tmpl.elements, Tmpl.mapping]


end Hbs.PlainText
