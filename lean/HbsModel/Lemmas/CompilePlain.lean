import HbsModel.Lemmas.PlainText
import HbsModel.Compile
/-
  compile2 on a source without tags: one RawString holding the source.
-/
namespace Hbs.PlainText
open Hbs Hbs.Pest Hbs.Grammar

@[simp] theorem cres_bind_ok {α β : Type} (a : α) (f : α → CRes β) : (CRes.ok a >>= f) = f a := rfl
@[simp] theorem cres_pure {α : Type} (a : α) : (pure a : CRes α) = CRes.ok a := rfl

theorem slice_all (s : Str) : slice? s 0 s.length = some s := by
  simp [slice?]

theorem step_template (src : Str) (opts : TemplateOptions) (fuel : Nat) (it : List CTok) (n : Nat) :
    compileStep src opts fuel {} ⟨some .r_template, 0, n, []⟩ it
      = .ok ({ tmplStack := [Tmpl.empty] }, it) := by
  simp [compileStep, lineCol, lineColAux]

theorem step_raw_text (src : Str) (opts : TemplateOptions) (fuel : Nat) (it : List CTok) :
    compileStep src opts fuel { tmplStack := [Tmpl.empty] } ⟨some .r_raw_text, 0, src.length, []⟩ it
      = .ok ({ tmplStack := [.mk none [.raw src] [(1, 1)]], endPos := some src.length }, it) := by
  simp [compileStep, lineCol, lineColAux, slice_all, rawString, removeEscapes, frontMut, Tmpl.pushElement,
    Tmpl.empty, Tmpl.name, Tmpl.elements, Tmpl.mapping]

theorem step_eoi (src : Str) (opts : TemplateOptions) (fuel : Nat) (stk : List Tmpl) :
    compileStep src opts fuel { tmplStack := stk, endPos := some src.length } ⟨none, src.length, src.length, []⟩ []
      = .ok ({ tmplStack := stk, endPos := some src.length }, []) := by
  simp [compileStep, isBlockStart, isExprLike]

theorem finish_plain (src : Str) (opts : TemplateOptions) (t : Tmpl) :
    compileFinish src opts { tmplStack := [t], endPos := some src.length } = .ok (t.setName opts.name) := by
  simp [compileFinish]

/-- **compile_plain**: for EVERY non-empty string `s` without `{` and `\` – of any length –
    `Template::compile2(s)` is the template with the single element `RawString(s)` (mapped to line 1,
    column 1), whatever the options: from the source text, through the pest grammar REGENERATED from
    src/grammar.pest, through the loop of compile2. -/
theorem compile_plain (s : Str) (opts : TemplateOptions) (hne : s ≠ []) (hs : noOpen s) :
    compile2 s opts = .ok (.mk opts.name [.raw s] [(1, 1)]) := by
  unfold compile2 compile2Inner
  rw [parse_plain s hne hs]
  simp only [plainToks, attachEscapes]
  simp only [show ((some Rule.r_template : Option Rule) == some .r_escape) = false from by decide,
    show ((some Rule.r_raw_text : Option Rule) == some .r_escape) = false from by decide,
    show ((none : Option Rule) == some .r_escape) = false from by decide,
    show ((some Rule.r_template : Option Rule) == some .r_raw_text) = false from by decide,
    show ((some Rule.r_template : Option Rule) == some .r_raw_block_text) = false from by decide,
    show ((some Rule.r_raw_text : Option Rule) == some .r_raw_text) = true from by decide,
    show ((none : Option Rule) == some .r_raw_text) = false from by decide,
    show ((none : Option Rule) == some .r_raw_block_text) = false from by decide]
  simp [compileLoop, step_template, step_raw_text, step_eoi, finish_plain, Tmpl.setName, Tmpl.elements, Tmpl.mapping]

theorem step_eoi0 (src : Str) (opts : TemplateOptions) (fuel : Nat) (stk : List Tmpl) :
    compileStep src opts fuel { tmplStack := stk } ⟨none, 0, 0, []⟩ []
      = .ok ({ tmplStack := stk, endPos := some 0 }, []) := by
  simp [compileStep, isBlockStart, isExprLike]

/-- the empty source compiles to the empty template -/
theorem compile_empty (opts : TemplateOptions) : compile2 [] opts = .ok (.mk opts.name [] []) := by
  unfold compile2 compile2Inner
  rw [parse_empty]
  simp only [attachEscapes]
  simp only [show ((some Rule.r_template : Option Rule) == some .r_escape) = false from by decide,
    show ((none : Option Rule) == some .r_escape) = false from by decide,
    show ((some Rule.r_template : Option Rule) == some .r_raw_text) = false from by decide,
    show ((some Rule.r_template : Option Rule) == some .r_raw_block_text) = false from by decide,
    show ((none : Option Rule) == some .r_raw_text) = false from by decide,
    show ((none : Option Rule) == some .r_raw_block_text) = false from by decide]
  have hf : compileFinish [] opts { tmplStack := [Tmpl.mk none [] []], endPos := some 0 } = .ok (.mk opts.name [] []) := by
    simp [compileFinish, Tmpl.setName, Tmpl.elements, Tmpl.mapping]
  simp [compileLoop, step_template, step_eoi0, Tmpl.empty, hf]

end Hbs.PlainText
