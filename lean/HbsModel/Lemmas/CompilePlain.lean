import HbsModel.Lemmas.QuotedText
import HbsModel.Compile
/-
  compile2 on a source without tags: one RawString holding the source.
-/
namespace Hbs.PlainText
open Hbs Hbs.Pest Hbs.Grammar

@[simp] theorem cres_bind_ok {α β : Type} (a : α) (f : α → CRes β) : (CRes.ok a >>= f) = f a := rfl
@[simp] theorem cres_pure {α : Type} (a : α) : (pure a : CRes α) = CRes.ok a := rfl

theorem slice_all (s : Str) : slice? s 0 s.length = some s := by
  simp [slice?]

theorem step_template (src : Str) (opts : TemplateOptions) (fuel : Nat) (it : List CTok) (n : Nat) :
    compileStep src opts fuel {} ⟨some .r_template, 0, n, []⟩ it
      = .ok ({ tmplStack := [Tmpl.empty] }, it) := by
  simp [compileStep, lineCol, lineColAux]

theorem step_raw_text (src : Str) (opts : TemplateOptions) (fuel : Nat) (it : List CTok) :
    compileStep src opts fuel { tmplStack := [Tmpl.empty] } ⟨some .r_raw_text, 0, src.length, []⟩ it
      = .ok ({ tmplStack := [.mk none [.raw src] [(1, 1)]], endPos := some src.length }, it) := by
  simp [compileStep, lineCol, lineColAux, slice_all, rawString, removeEscapes, frontMut, Tmpl.pushElement,
    Tmpl.empty, Tmpl.name, Tmpl.elements, Tmpl.mapping]

theorem step_eoi (src : Str) (opts : TemplateOptions) (fuel : Nat) (stk : List Tmpl) :
    compileStep src opts fuel { tmplStack := stk, endPos := some src.length } ⟨none, src.length, src.length, []⟩ []
      = .ok ({ tmplStack := stk, endPos := some src.length }, []) := by
  simp [compileStep, isBlockStart, isExprLike]

theorem finish_plain (src : Str) (opts : TemplateOptions) (t : Tmpl) :
    compileFinish src opts { tmplStack := [t], endPos := some src.length } = .ok (t.setName opts.name) := by
  simp [compileFinish]

/-- **compile_plain**: for EVERY non-empty string `s` without `{` and `\` – of any length –
    `Template::compile2(s)` is the template with the single element `RawString(s)` (mapped to line 1,
    column 1), whatever the options: from the source text, through the pest grammar REGENERATED from
    src/grammar.pest, through the loop of compile2. -/
theorem compile_plain (s : Str) (opts : TemplateOptions) (hne : s ≠ []) (hs : noOpen s) :
    compile2 s opts = .ok (.mk opts.name [.raw s] [(1, 1)]) := by
  unfold compile2 compile2Inner
  rw [parse_plain s hne hs]
  simp only [plainToks, attachEscapes]
  simp only [show ((some Rule.r_template : Option Rule) == some .r_escape) = false from by decide,
    show ((some Rule.r_raw_text : Option Rule) == some .r_escape) = false from by decide,
    show ((none : Option Rule) == some .r_escape) = false from by decide,
    show ((some Rule.r_template : Option Rule) == some .r_raw_text) = false from by decide,
    show ((some Rule.r_template : Option Rule) == some .r_raw_block_text) = false from by decide,
    show ((some Rule.r_raw_text : Option Rule) == some .r_raw_text) = true from by decide,
    show ((none : Option Rule) == some .r_raw_text) = false from by decide,
    show ((none : Option Rule) == some .r_raw_block_text) = false from by decide]
  simp [compileLoop, step_template, step_raw_text, step_eoi, finish_plain, Tmpl.setName, Tmpl.elements, Tmpl.mapping]

theorem step_eoi0 (src : Str) (opts : TemplateOptions) (fuel : Nat) (stk : List Tmpl) :
    compileStep src opts fuel { tmplStack := stk } ⟨none, 0, 0, []⟩ []
      = .ok ({ tmplStack := stk, endPos := some 0 }, []) := by
  simp [compileStep, isBlockStart, isExprLike]

/-- the empty source compiles to the empty template -/
theorem compile_empty (opts : TemplateOptions) : compile2 [] opts = .ok (.mk opts.name [] []) := by
  unfold compile2 compile2Inner
  rw [parse_empty]
  simp only [attachEscapes]
  simp only [show ((some Rule.r_template : Option Rule) == some .r_escape) = false from by decide,
    show ((none : Option Rule) == some .r_escape) = false from by decide,
    show ((some Rule.r_template : Option Rule) == some .r_raw_text) = false from by decide,
    show ((some Rule.r_template : Option Rule) == some .r_raw_block_text) = false from by decide,
    show ((none : Option Rule) == some .r_raw_text) = false from by decide,
    show ((none : Option Rule) == some .r_raw_block_text) = false from by decide]
  have hf : compileFinish [] opts { tmplStack := [Tmpl.mk none [] []], endPos := some 0 } = .ok (.mk opts.name [] []) := by
    simp [compileFinish, Tmpl.setName, Tmpl.elements, Tmpl.mapping]
  simp [compileLoop, step_template, step_eoi0, Tmpl.empty, hf]

/-! ### quoted text: the escapes are removed again by `raw_string` -/

theorem removeAt_prefix (pre : Str) (c : Char) (rest : Str) : removeAt (pre ++ c :: rest) pre.length = some (pre ++ rest) := by
  induction pre with
  | nil => rfl
  | cons d pre ih => simp [removeAt, ih]

/-- start offsets of the escape pairs -/
def escPos (s : Str) (p : Nat) : List Nat := (escToks s p).map (·.s)

theorem escPos_open (t : Str) (p : Nat) : escPos ('{' :: '{' :: t) p = p :: escPos t (p + 3) := by
  simp [escPos, escToks]

theorem escPos_cons_ne (c : Char) (t : Str) (p : Nat) (h : ∀ t', c :: t ≠ '{' :: '{' :: t') :
    escPos (c :: t) p = escPos t (p + 1) := by
  simp [escPos, escToks_cons_ne c t p h]

/-- `raw_string`'s removal loop, run over the whole quoted text with the escape offsets, gives the
    original text back -/
theorem removeEscapes_quote (site : String) (s : Str) (pre : Str) :
    removeEscapes site (pre ++ quote s) 0 0 (escPos s pre.length) = .ok (pre ++ s) := by
  fun_induction quote s generalizing pre with
  | case1 t ih =>
    rw [escPos_open]
    simp only [removeEscapes]
    have h := ih (pre ++ ['\\', '{', '{'])
    simp only [List.append_assoc, List.cons_append, List.nil_append, List.length_append, List.length_cons, List.length_nil] at h
    have e : pre.length + (0 + 1 + 1 + 1) = pre.length + 3 := by omega
    rw [e] at h
    rw [h]
    simp only [Nat.zero_add, Nat.not_lt_zero, ↓reduceIte, Nat.sub_zero]
    have := removeAt_prefix pre '\\' ('{' :: '{' :: t)
    rw [this]
  | case2 c t hne ih =>
    have hne' : ∀ t', c :: t ≠ '{' :: '{' :: t' := fun t' e => by cases e; exact hne t' rfl rfl
    rw [escPos_cons_ne c t _ hne']
    have h := ih (pre ++ [c])
    simp only [List.append_assoc, List.cons_append, List.nil_append, List.length_append, List.length_cons, List.length_nil] at h
    exact h
  | case3 => simp [escPos, escToks, removeEscapes]

theorem escToks_spec (s : Str) (p : Nat) :
    ∀ tok ∈ escToks s p, tok.rule = some .r_escape ∧ tok.e ≤ p + (quote s).length := by
  fun_induction quote s generalizing p with
  | case1 t ih =>
    intro tok htok
    simp only [escToks, List.mem_cons] at htok
    rcases htok with rfl | h
    · exact ⟨rfl, by simp [List.length_cons]⟩
    · have := ih (p + 3) tok h
      exact ⟨this.1, by simp only [List.length_cons]; omega⟩
  | case2 c t hne ih =>
    have hne' : ∀ t', c :: t ≠ '{' :: '{' :: t' := fun t' e => by cases e; exact hne t' rfl rfl
    intro tok htok
    rw [escToks_cons_ne c t p hne'] at htok
    have := ih (p + 1) tok htok
    exact ⟨this.1, by simp only [List.length_cons]; omega⟩
  | case3 => intro tok htok; simp [escToks] at htok

/-- escape pairs are folded into their raw_text pair: they produce no entry of their own -/
theorem attachEscapes_escs (l rest : List (Tok Rule)) (h : ∀ tok ∈ l, tok.rule = some Rule.r_escape) :
    attachEscapes (l ++ rest) = attachEscapes rest := by
  induction l with
  | nil => rfl
  | cons tok l ih =>
    have ht : tok.rule = some Rule.r_escape := h tok (by simp)
    simp only [List.cons_append, attachEscapes, ht]
    simp only [show ((some Rule.r_escape : Option Rule) == some Rule.r_escape) = true from by decide, ↓reduceIte]
    exact ih (fun tok' h' => h tok' (by simp [h']))

theorem takeWhile_all {α : Type} (l : List α) (p : α → Bool) (h : ∀ a ∈ l, p a = true) : l.takeWhile p = l := by
  induction l with
  | nil => rfl
  | cons a l ih => simp [List.takeWhile, h a (by simp), ih (fun b hb => h b (by simp [hb]))]

theorem step_raw_text_esc (src : Str) (opts : TemplateOptions) (fuel : Nat) (it : List CTok) (L : List Nat) (s : Str)
    (h : removeEscapes "tpl.raw_string.remove" src 0 0 L = .ok s) :
    compileStep src opts fuel { tmplStack := [Tmpl.empty] } ⟨some .r_raw_text, 0, src.length, L⟩ it
      = .ok ({ tmplStack := [.mk none [.raw s] [(1, 1)]], endPos := some src.length }, it) := by
  simp [compileStep, lineCol, lineColAux, slice_all, rawString, h, frontMut, Tmpl.pushElement,
    Tmpl.empty, Tmpl.name, Tmpl.elements, Tmpl.mapping]

/-- **compile_quoted**: for EVERY non-empty text `s` without a backslash immediately before a `{{`,
    the source `quote s` – every `{{` written as `\{{` – compiles to the single element RawString(s):
    the escape writes a literal `{{` and what follows it stays text. -/
theorem compile_quoted (s : Str) (opts : TemplateOptions) (hne : s ≠ []) (hs : noEscBrace s) :
    compile2 (quote s) opts = .ok (.mk opts.name [.raw s] [(1, 1)]) := by
  unfold compile2 compile2Inner
  rw [parse_quoted s hne hs]
  have hspec := escToks_spec s 0
  simp only [Nat.zero_add] at hspec
  -- the pair stream after folding the escapes into their raw_text pair
  have hattach : attachEscapes (⟨some .r_template, 0, (quote s).length⟩ :: ⟨some .r_raw_text, 0, (quote s).length⟩ ::
        (escToks s 0 ++ [⟨none, (quote s).length, (quote s).length⟩]))
      = [⟨some .r_template, 0, (quote s).length, []⟩, ⟨some .r_raw_text, 0, (quote s).length, escPos s 0⟩,
         ⟨none, (quote s).length, (quote s).length, []⟩] := by
    have htw : (escToks s 0 ++ [(⟨none, (quote s).length, (quote s).length⟩ : Tok Rule)]).takeWhile
        (fun u => decide (u.e ≤ (quote s).length)) = escToks s 0 ++ [⟨none, (quote s).length, (quote s).length⟩] := by
      apply takeWhile_all
      intro a ha
      simp only [List.mem_append, List.mem_singleton] at ha
      rcases ha with ha | rfl
      · simpa using (hspec a ha).2
      · simp
    have hfil : (escToks s 0 ++ [(⟨none, (quote s).length, (quote s).length⟩ : Tok Rule)]).filter
        (fun u => u.rule == some Rule.r_escape) = escToks s 0 := by
      rw [List.filter_append]
      have h1 : (escToks s 0).filter (fun u => u.rule == some Rule.r_escape) = escToks s 0 := by
        rw [List.filter_eq_self]
        intro a ha
        rw [(hspec a ha).1]; decide
      rw [h1]
      simp only [List.filter, List.append_nil]
      have : ((none : Option Rule) == some Rule.r_escape) = false := by decide
      simp [this]
    simp only [attachEscapes]
    simp only [show ((some Rule.r_template : Option Rule) == some .r_escape) = false from by decide,
      show ((some Rule.r_raw_text : Option Rule) == some .r_escape) = false from by decide,
      show ((some Rule.r_template : Option Rule) == some .r_raw_text) = false from by decide,
      show ((some Rule.r_template : Option Rule) == some .r_raw_block_text) = false from by decide,
      show ((some Rule.r_raw_text : Option Rule) == some .r_raw_text) = true from by decide,
      Bool.false_eq_true, ↓reduceIte, Bool.or_self, Bool.true_or]
    rw [htw, hfil, attachEscapes_escs _ _ (fun tok h => (hspec tok h).1)]
    simp only [attachEscapes]
    simp only [show ((none : Option Rule) == some .r_escape) = false from by decide,
      show ((none : Option Rule) == some .r_raw_text) = false from by decide,
      show ((none : Option Rule) == some .r_raw_block_text) = false from by decide,
      Bool.false_eq_true, ↓reduceIte, Bool.or_self]
    rfl
  simp only []
  rw [hattach]
  have hrem := removeEscapes_quote "tpl.raw_string.remove" s []
  simp only [List.nil_append, List.length_nil] at hrem
  simp [compileLoop, step_template, step_raw_text_esc _ _ _ _ _ _ hrem, step_eoi, finish_plain, Tmpl.setName,
    Tmpl.elements, Tmpl.mapping]

end Hbs.PlainText
