import HbsModel.Lemmas.IfBlock
/-
  compile2 on  L ++ "{{#if v}}{{x}}{{/if}}" ++ W ++ R' : a helper block whose body is the tag `{{x}}`.
-/
namespace Hbs.PlainText
open Hbs Hbs.Pest Hbs.Grammar

def ifvSrc : Str := "{{#if v}}{{x}}{{/if}}".toList
def ifvToks : List (Tok Rule) :=
  [⟨some .r_helper_block_start, 0, 9⟩, ⟨some .r_identifier, 3, 5⟩, ⟨some .r_helper_parameter, 6, 7⟩, ⟨some .r_reference, 6, 7⟩,
   ⟨some .r_path_inline, 6, 7⟩, ⟨some .r_path_id, 6, 7⟩, ⟨some .r_template, 9, 14⟩, ⟨some .r_expression, 9, 14⟩,
   ⟨some .r_reference, 11, 12⟩, ⟨some .r_path_inline, 11, 12⟩, ⟨some .r_path_id, 11, 12⟩,
   ⟨some .r_helper_block_end, 14, 21⟩, ⟨some .r_identifier, 17, 19⟩]

theorem ifvSrc_eq : ifvSrc = ['{', '{', '#', 'i', 'f', ' ', 'v', '}', '}', '{', '{', 'x', '}', '}', '{', '{', '/', 'i', 'f', '}', '}'] := by decide

theorem ifv_decided : evalK rules ws false 400 .nonAtomic templateAlt 0 ifvSrc = some (.ok 21 [] ifvToks) :=
  KRes.isOkWith_eq (by decide)

theorem ifv_tagAt : TagAt ifvSrc 400 ifvToks := by
  intro p tail
  have := evalK_at rules ws rules_noSoi false tail (by simp) 400 .nonAtomic templateAlt rfl ifvSrc _ ifv_decided p
  refine ⟨?_, by simp [shiftRes, embedK]⟩
  rw [this]
  simp [shiftRes, embedK, ifvSrc_eq, Nat.add_comm]

/-- the pair stream of  L ++ {{#if v}}{{x}}{{/if}} ++ W ++ R' -/
theorem parse_text_ifv_text (L W R' : Str) (hL : L = [] ∨ TextBeforeTag L) (hA : TextAfterTag W R') :
    let a := L.length
    let b := a + 21
    let d := b + W.length
    let n := d + R'.length
    Pest.parse rules ws .r_handlebars (L ++ ifvSrc ++ (W ++ R'))
      = .ok ⟨n, []⟩ (⟨some .r_template, 0, if R' = [] then b else n⟩ ::
          (rawTok 0 a ++ [⟨some .r_helper_block_start, a, a + 9⟩, ⟨some .r_identifier, a + 3, a + 5⟩,
              ⟨some .r_helper_parameter, a + 6, a + 7⟩, ⟨some .r_reference, a + 6, a + 7⟩, ⟨some .r_path_inline, a + 6, a + 7⟩,
              ⟨some .r_path_id, a + 6, a + 7⟩, ⟨some .r_template, a + 9, a + 14⟩, ⟨some .r_expression, a + 9, a + 14⟩,
              ⟨some .r_reference, a + 11, a + 12⟩, ⟨some .r_path_inline, a + 11, a + 12⟩, 
              ⟨some .r_path_id, a + 11, a + 12⟩,
              ⟨some .r_helper_block_end, a + 14, a + 21⟩, ⟨some .r_identifier, a + 17, a + 19⟩]
            ++ rawTok d n ++ [⟨none, n, n⟩])) := by
  intro a b d n
  have h := handlebars_text_tag_text L ['#', 'i', 'f', ' ', 'v', '}', '}', '{', '{', 'x', '}', '}', '{', '{', '/', 'i', 'f', '}', '}'] W R' 400 _ hL
    (by rw [← ifvSrc_eq]; exact ifv_tagAt) hA
  have hn : (L ++ ifvSrc ++ (W ++ R')).length = n := by simp [n, d, b, a, ifvSrc_eq]; omega
  simp only [] at h
  rw [ifvSrc_eq]
  rw [ifvSrc_eq] at hn
  have h' := h.weaken (F' := defaultFuel (L ++ ['{', '{', '#', 'i', 'f', ' ', 'v', '}', '}', '{', '{', 'x', '}', '}', '{', '{', '/', 'i', 'f', '}', '}'] ++ (W ++ R')).length) (by
    unfold defaultFuel
    rw [hn]
    have : 21 ≤ n := by simp only [n, d, b]; omega
    omega)
  unfold Pest.parse
  refine Eq.trans h'.1 ?_
  have e1 : (L ++ '{' :: '{' :: ['#', 'i', 'f', ' ', 'v', '}', '}', '{', '{', 'x', '}', '}', '{', '{', '/', 'i', 'f', '}', '}'] ++ (W ++ R')).length = n := hn
  simp only [e1, ifvToks, List.map, shiftTok, Nat.zero_add, List.length_cons, List.length_nil]
  simp only [Nat.add_comm _ L.length]
  rfl

theorem step_ifv_start (src : Str) (opts : TemplateOptions) (f a : Nat) (T0 : Tmpl) (ep : Option Nat) (rest : List CTok)
    (hep : ep.getD 0 = a)
    (hid : tokStr src ⟨some .r_identifier, a + 3, a + 5, []⟩ = ['i', 'f'])
    (hv : tokStr src ⟨some .r_reference, a + 6, a + 7, []⟩ = ['v'])
    (hps : processStandalone [T0] src a (a + 9) true opts.isPartial = .ok (false, [T0])) :
    compileStep src opts (f + 6) { tmplStack := [T0], endPos := ep } ⟨some .r_helper_block_start, a, a + 9, []⟩
        (⟨some .r_identifier, a + 3, a + 5, []⟩ :: ⟨some .r_helper_parameter, a + 6, a + 7, []⟩ ::
         ⟨some .r_reference, a + 6, a + 7, []⟩ :: ⟨some .r_path_inline, a + 6, a + 7, []⟩ :: ⟨some .r_path_id, a + 6, a + 7, []⟩ ::
         ⟨some .r_template, a + 9, a + 14, []⟩ :: rest)
      = .ok ({ tmplStack := [T0.pushMapping (lineCol src a).1 (lineCol src a).2], helperStack := [ifOpen],
               endPos := some (a + 9) }, ⟨some .r_template, a + 9, a + 14, []⟩ :: rest) := by
  have hv' : tokStr src ⟨some .r_path_id, a + 6, a + 7, []⟩ = ['v'] := hv
  simp [compileStep, hep, isBlockStart, isExprLike, parseExpression, parseName, parseParam, parsePathSegs, parseExprLoop, hid, hv, hv',
    frontMut, ifOpen, str, hps, HelperG.new, dropInside]

/-- `{{x}}` as compiled -/
def xHT : HelperT :=
  HelperG.new { name := .path (.relative [.named ['x']] ['x']), params := [], hash := [], blockParam := none,
                omitPreWs := false, omitProWs := false } false false false

theorem step_inner_x (src : Str) (opts : TemplateOptions) (f a : Nat) (T : Tmpl) (stk : List Tmpl) (hs : List HelperT) (nx : CTok) (rest : List CTok)
    (href : tokStr src ⟨some .r_reference, a + 11, a + 12, []⟩ = ['x'])
    (hxid : tokStr src ⟨some .r_path_id, a + 11, a + 12, []⟩ = ['x'])
    (hnx : a + 14 ≤ nx.e) :
    compileStep src opts (f + 3) { tmplStack := T :: stk, helperStack := hs, endPos := some (a + 9) } ⟨some .r_expression, a + 9, a + 14, []⟩
        (⟨some .r_reference, a + 11, a + 12, []⟩ :: ⟨some .r_path_inline, a + 11, a + 12, []⟩ 
          :: ⟨some .r_path_id, a + 11, a + 12, []⟩ :: nx :: rest)
      = .ok ({ tmplStack := T.pushElement (.expr xHT) (lineCol src (a + 9)).1 (lineCol src (a + 9)).2 :: stk, helperStack := hs,
               endPos := some (a + 14) }, nx :: rest) := by
  have h1 : ¬ (nx.e < a + 14) := by omega
  have h2 : a + 12 < nx.e := by omega
  have hne : ((['x'] : Str) = str "this") = False := by simp [str]
  simp [compileStep, isBlockStart, isExprLike, parseExpression, parseName, parsePathSegs, parseExprLoop, href, hxid, h1, h2,
    frontMut, xHT, Path.new, getLocalPathAndLevel, HelperG.new, hne]

/-- the finished block -/
def ifvHT (body : Tmpl) : HelperT := { ifOpen with template := some body }

theorem step_ifv_end (src : Str) (opts : TemplateOptions) (f a : Nat) (T0 body : Tmpl) (r0 : CTok) (rest : List CTok)
    (hid : tokStr src ⟨some .r_identifier, a + 17, a + 19, []⟩ = ['i', 'f'])
    (hr0 : a + 21 ≤ r0.e)
    (hps : processStandalone [body, T0] src (a + 14) (a + 21) true opts.isPartial = .ok (false, [body, T0])) :
    compileStep src opts (f + 4) { tmplStack := [body, T0], helperStack := [ifOpen], endPos := some (a + 14) }
        ⟨some .r_helper_block_end, a + 14, a + 21, []⟩ (⟨some .r_identifier, a + 17, a + 19, []⟩ :: r0 :: rest)
      = .ok ({ tmplStack := [T0.pushElemOnly (.block (ifvHT body))], endPos := some (a + 21) }, r0 :: rest) := by
  have h1 : ¬ (r0.e < a + 21) := by omega
  simp [compileStep, isBlockStart, isExprLike, parseExpression, parseName, parseExprLoop, hid, h1, frontMut, ifOpen, ifvHT, str, hps,
    HelperG.new, revertChainAndSet, Param.asName?]

/-- the body of the block as compile2 stores it: one expression element, with the position of the tag -/
def ifvBody (lc : Nat × Nat) : Tmpl := Tmpl.empty.pushElement (.expr xHT) lc.1 lc.2

/-- **compile2 on  L ++ {{#if v}}{{x}}{{/if}} ++ W ++ R'** : the text in front, ONE block element (helper `if`, parameter the
    path `v`, body the one expression `x`, no else branch), the text behind – nothing trimmed, for every `L`, `W`, `R'` -/
theorem compile_text_ifv_text (L W R' : Str) (opts : TemplateOptions)
    (hL : L = [] ∨ TextBeforeTag L) (hA : TextAfterTag W R') :
    ∃ m, compile2 (L ++ ifvSrc ++ (W ++ R')) opts = .ok (.mk opts.name
      ((leftT L L).elements ++ [.block (ifvHT (ifvBody (lineCol (L ++ ifvSrc ++ (W ++ R')) (L.length + 9))))]
        ++ (if W ++ R' = [] then [] else [.raw (W ++ R')])) m) := by
  have hparse := parse_text_ifv_text L W R' hL hA
  simp only [] at hparse
  have hn : (L ++ ifvSrc ++ (W ++ R')).length = L.length + 21 + W.length + R'.length := by
    simp [ifvSrc_eq]; omega
  have hs0 : slice? (L ++ ifvSrc ++ (W ++ R')) 0 L.length = some L := by
    rw [List.append_assoc]; exact slice_prefix L _
  have hsR : slice? (L ++ ifvSrc ++ (W ++ R')) (L.length + 21) (L ++ ifvSrc ++ (W ++ R')).length = some (W ++ R') :=
    slice_suffix (L ++ ifvSrc) (W ++ R') _ (by simp [ifvSrc_eq])
  have hid1 : tokStr (L ++ ifvSrc ++ (W ++ R')) ⟨some .r_identifier, L.length + 3, L.length + 5, []⟩ = ['i', 'f'] := by
    have : L ++ ifvSrc ++ (W ++ R') = (L ++ ['{', '{', '#']) ++ ['i', 'f'] ++ ([' ', 'v', '}', '}', '{', '{', 'x', '}', '}', '{', '{', '/', 'i', 'f', '}', '}'] ++ (W ++ R')) := by
      simp [ifvSrc_eq]
    rw [this]
    exact tokStr_mid (L ++ ['{', '{', '#']) ['i', 'f'] _ _ (by simp) (by simp)
  have hv : tokStr (L ++ ifvSrc ++ (W ++ R')) ⟨some .r_reference, L.length + 6, L.length + 7, []⟩ = ['v'] := by
    have : L ++ ifvSrc ++ (W ++ R') = (L ++ ['{', '{', '#', 'i', 'f', ' ']) ++ ['v'] ++ (['}', '}', '{', '{', 'x', '}', '}', '{', '{', '/', 'i', 'f', '}', '}'] ++ (W ++ R')) := by
      simp [ifvSrc_eq]
    rw [this]
    exact tokStr_mid (L ++ ['{', '{', '#', 'i', 'f', ' ']) ['v'] _ _ (by simp) (by simp)
  have href : tokStr (L ++ ifvSrc ++ (W ++ R')) ⟨some .r_reference, L.length + 11, L.length + 12, []⟩ = ['x'] := by
    have : L ++ ifvSrc ++ (W ++ R') = (L ++ ['{', '{', '#', 'i', 'f', ' ', 'v', '}', '}', '{', '{']) ++ ['x'] ++ (['}', '}', '{', '{', '/', 'i', 'f', '}', '}'] ++ (W ++ R')) := by
      simp [ifvSrc_eq]
    rw [this]
    exact tokStr_mid (L ++ ['{', '{', '#', 'i', 'f', ' ', 'v', '}', '}', '{', '{']) ['x'] _ _ (by simp) (by simp)
  have hxid : tokStr (L ++ ifvSrc ++ (W ++ R')) ⟨some .r_path_id, L.length + 11, L.length + 12, []⟩ = ['x'] := by
    have : L ++ ifvSrc ++ (W ++ R') = (L ++ ['{', '{', '#', 'i', 'f', ' ', 'v', '}', '}', '{', '{']) ++ ['x'] ++ (['}', '}', '{', '{', '/', 'i', 'f', '}', '}'] ++ (W ++ R')) := by
      simp [ifvSrc_eq]
    rw [this]
    exact tokStr_mid (L ++ ['{', '{', '#', 'i', 'f', ' ', 'v', '}', '}', '{', '{']) ['x'] _ _ (by simp) (by simp)
  have hid2 : tokStr (L ++ ifvSrc ++ (W ++ R')) ⟨some .r_identifier, L.length + 17, L.length + 19, []⟩ = ['i', 'f'] := by
    have : L ++ ifvSrc ++ (W ++ R') = (L ++ ['{', '{', '#', 'i', 'f', ' ', 'v', '}', '}', '{', '{', 'x', '}', '}', '{', '{', '/']) ++ ['i', 'f'] ++ (['}', '}'] ++ (W ++ R')) := by
      simp [ifvSrc_eq]
    rw [this]
    exact tokStr_mid (L ++ ['{', '{', '#', 'i', 'f', ' ', 'v', '}', '}', '{', '{', 'x', '}', '}', '{', '{', '/']) ['i', 'f'] _ _ (by simp) (by simp)

  have hc1 : slice? (L ++ ifvSrc ++ (W ++ R')) (L.length + 9) (L ++ ifvSrc ++ (W ++ R')).length
      = some ('{' :: (['{', 'x', '}', '}', '{', '{', '/', 'i', 'f', '}', '}'] ++ (W ++ R'))) := by
    have : L ++ ifvSrc ++ (W ++ R') = (L ++ ['{', '{', '#', 'i', 'f', ' ', 'v', '}', '}']) ++ ('{' :: (['{', 'x', '}', '}', '{', '{', '/', 'i', 'f', '}', '}'] ++ (W ++ R'))) := by
      simp [ifvSrc_eq]
    rw [this]
    exact slice_suffix _ _ _ (by simp)
  have hb2 : slice? (L ++ ifvSrc ++ (W ++ R')) 0 (L.length + 14) = some ((L ++ ['{', '{', '#', 'i', 'f', ' ', 'v', '}', '}', '{', '{', 'x', '}']) ++ ['}']) := by
    have : L ++ ifvSrc ++ (W ++ R') = ((L ++ ['{', '{', '#', 'i', 'f', ' ', 'v', '}', '}', '{', '{', 'x', '}']) ++ ['}']) ++ (['{', '{', '/', 'i', 'f', '}', '}'] ++ (W ++ R')) := by
      simp [ifvSrc_eq]
    rw [this]
    have := slice_prefix ((L ++ ['{', '{', '#', 'i', 'f', ' ', 'v', '}', '}', '{', '{', 'x', '}']) ++ ['}']) (['{', '{', '/', 'i', 'f', '}', '}'] ++ (W ++ R'))
    simpa using this
  generalize hsrc : L ++ ifvSrc ++ (W ++ R') = src at *
  have hps1 : processStandalone [leftT L L] src L.length (L.length + 9) true opts.isPartial = .ok (false, [leftT L L]) :=
    processStandalone_text_follows _ src _ _ _ _ '{' _ hc1 (by decide) (by decide)
  have hps2 : ∀ (body : Tmpl) (T0 : Tmpl), processStandalone [body, T0] src (L.length + 14) (L.length + 21) true opts.isPartial
      = .ok (false, [body, T0]) := fun body T0 =>
    processStandalone_text_precedes _ src _ _ _ _ (W ++ R') '}' hb2 (by omega) hsR (by decide) (by decide)
  obtain ⟨m, htail⟩ := loop_tail src W R' opts (3 * (rawTok 0 L.length).length + 3 * (rawTok (L.length + 21 + W.length) src.length).length + 69)
    (L.length + 21) (((leftT L L).pushMapping (lineCol src L.length).1 (lineCol src L.length).2).pushElemOnly
      (.block (ifvHT (ifvBody (lineCol src (L.length + 9)))))) false hn hsR
  refine ⟨m, ?_⟩
  unfold compile2 compile2Inner
  rw [hparse]
  simp only []
  rw [attachEscapes_noEsc _ (by
    intro t ht
    simp only [List.mem_cons, List.mem_append, List.not_mem_nil, or_false] at ht
    rcases ht with rfl | ((h | rfl | rfl | rfl | rfl | rfl | rfl | rfl | rfl | rfl | rfl | rfl | rfl | rfl | rfl) | h) | rfl
    · show ((some Rule.r_template : Option Rule) == some Rule.r_escape) = false; decide
    · exact rawTok_rule _ _ t h
    · show ((some Rule.r_helper_block_start : Option Rule) == some Rule.r_escape) = false; decide
    · show ((some Rule.r_identifier : Option Rule) == some Rule.r_escape) = false; decide
    · show ((some Rule.r_helper_parameter : Option Rule) == some Rule.r_escape) = false; decide
    · show ((some Rule.r_reference : Option Rule) == some Rule.r_escape) = false; decide
    · show ((some Rule.r_path_inline : Option Rule) == some Rule.r_escape) = false; decide
    · show ((some Rule.r_path_id : Option Rule) == some Rule.r_escape) = false; decide
    · show ((some Rule.r_template : Option Rule) == some Rule.r_escape) = false; decide
    · show ((some Rule.r_expression : Option Rule) == some Rule.r_escape) = false; decide
    · show ((some Rule.r_reference : Option Rule) == some Rule.r_escape) = false; decide
    · show ((some Rule.r_path_inline : Option Rule) == some Rule.r_escape) = false; decide
    · show ((some Rule.r_path_id : Option Rule) == some Rule.r_escape) = false; decide
    · show ((some Rule.r_helper_block_end : Option Rule) == some Rule.r_escape) = false; decide
    · show ((some Rule.r_identifier : Option Rule) == some Rule.r_escape) = false; decide
    · exact rawTok_rule _ _ t h
    · show ((none : Option Rule) == some Rule.r_escape) = false; decide)]
  rw [← hn]
  simp only [List.map_cons, List.map_append, List.length_cons, List.length_append, List.length_map, List.map_nil, List.length_nil,
    List.append_assoc, List.cons_append, List.nil_append]
  rw [show 4 * ((rawTok 0 L.length).length + ((rawTok (L.length + 21 + W.length) src.length).length + (0 + 1) + 1 + 1 + 1 + 1 + 1 + 1 + 1 + 1 + 1 + 1 + 1 + 1 + 1) + 1) + 16
      = ((3 * (rawTok 0 L.length).length + 3 * (rawTok (L.length + 21 + W.length) src.length).length + 66
          + ((rawTok (L.length + 21 + W.length) src.length).length + 2)) + 6 + 1) + (1 + (rawTok 0 L.length).length) by omega]
  rw [loop_head src L opts _ _ _ hs0]
  obtain ⟨r0, rest, hrest, hr0⟩ := tail_head (L.length + 21) W.length src.length (by omega)
  have hep : (if L = [] then none else some L.length : Option Nat).getD 0 = L.length := by
    by_cases hLe : L = [] <;> simp [hLe]
  rw [hrest] at htail ⊢
  simp only [plainCTok]
  -- {{#if v}}
  have hstep1 := step_ifv_start src opts
    (3 * (rawTok 0 L.length).length + 3 * (rawTok (L.length + 21 + W.length) src.length).length + 66
      + ((rawTok (L.length + 21 + W.length) src.length).length + 2))
    L.length (leftT L L) _ (⟨some .r_expression, L.length + 9, L.length + 14, []⟩ :: ⟨some .r_reference, L.length + 11, L.length + 12, []⟩ ::
      ⟨some .r_path_inline, L.length + 11, L.length + 12, []⟩ :: 
      ⟨some .r_path_id, L.length + 11, L.length + 12, []⟩ :: ⟨some .r_helper_block_end, L.length + 14, L.length + 21, []⟩ ::
      ⟨some .r_identifier, L.length + 17, L.length + 19, []⟩ :: r0 :: rest) hep hid1 hv hps1
  rw [loop_step src opts _ (st1 L) _ _ _ _ (by unfold st1; exact hstep1)]
  -- the body's template and tag
  rw [show 3 * (rawTok 0 L.length).length + 3 * (rawTok (L.length + 21 + W.length) src.length).length + 66
        + ((rawTok (L.length + 21 + W.length) src.length).length + 2) + 6
      = 3 * (rawTok 0 L.length).length + 3 * (rawTok (L.length + 21 + W.length) src.length).length + 66
        + ((rawTok (L.length + 21 + W.length) src.length).length + 2) + 4 + 1 + 1 by omega]
  rw [loop_step src opts _ _ _ _ _ _ (step_inner_template src opts _ _ _ _ _ _ _)]
  have hstepI := step_inner_x src opts
    (3 * (rawTok 0 L.length).length + 3 * (rawTok (L.length + 21 + W.length) src.length).length + 66 + ((rawTok (L.length + 21 + W.length) src.length).length + 2) + 1)
    L.length Tmpl.empty [(leftT L L).pushMapping (lineCol src L.length).1 (lineCol src L.length).2] [ifOpen]
    ⟨some .r_helper_block_end, L.length + 14, L.length + 21, []⟩ (⟨some .r_identifier, L.length + 17, L.length + 19, []⟩ :: r0 :: rest)
    href hxid (by simp)
  rw [show 3 * (rawTok 0 L.length).length + 3 * (rawTok (L.length + 21 + W.length) src.length).length + 66
        + ((rawTok (L.length + 21 + W.length) src.length).length + 2) + 4 + 1
      = 3 * (rawTok 0 L.length).length + 3 * (rawTok (L.length + 21 + W.length) src.length).length + 66 + ((rawTok (L.length + 21 + W.length) src.length).length + 2) + 1 + 3 + 1 by omega]
  rw [loop_step src opts _ _ _ _ _ _ hstepI]
  -- {{/if}}
  have hstep4 := step_ifv_end src opts
    (3 * (rawTok 0 L.length).length + 3 * (rawTok (L.length + 21 + W.length) src.length).length + 65
      + ((rawTok (L.length + 21 + W.length) src.length).length + 2))
    L.length ((leftT L L).pushMapping (lineCol src L.length).1 (lineCol src L.length).2) (ifvBody (lineCol src (L.length + 9))) r0 rest hid2 hr0
    (hps2 _ _)
  rw [show 3 * (rawTok 0 L.length).length + 3 * (rawTok (L.length + 21 + W.length) src.length).length + 66 + ((rawTok (L.length + 21 + W.length) src.length).length + 2) + 1 + 3
      = 3 * (rawTok 0 L.length).length + 3 * (rawTok (L.length + 21 + W.length) src.length).length + 65
        + ((rawTok (L.length + 21 + W.length) src.length).length + 2) + 4 + 1 by omega]
  rw [loop_step src opts _ _ _ _ _ _ (by have h4 := hstep4; unfold ifvBody at h4; exact h4)]
  rw [show 3 * (rawTok 0 L.length).length + 3 * (rawTok (L.length + 21 + W.length) src.length).length + 65
        + ((rawTok (L.length + 21 + W.length) src.length).length + 2) + 4
      = 3 * (rawTok 0 L.length).length + 3 * (rawTok (L.length + 21 + W.length) src.length).length + 69
        + ((rawTok (L.length + 21 + W.length) src.length).length + 2) by omega]
  unfold ifvBody at htail ⊢
  rw [htail]
  simp [Tmpl.pushElemOnly, Tmpl.pushMapping, Tmpl.elements]

end Hbs.PlainText
