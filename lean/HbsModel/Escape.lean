import HbsModel.Generated.EscapeTable
/-
  `support::str::escape_html`, table-driven over the regenerated arms of its `match`.
-/
namespace Hbs

def escLookup (tbl : List (Char × Str)) (c : Char) : Str :=
  match tbl with
  | [] => [c]
  | (k, v) :: t => if k == c then v else escLookup t c

/-- `escape_html` for an arbitrary table of arms -/
def escapeWith (tbl : List (Char × Str)) (s : Str) : Str := s.flatMap (escLookup tbl)

/-- `html_escape` of the current source -/
def escapeHtml (s : Str) : Str := escapeWith Generated.escTable s

end Hbs
