import HbsModel.Pest
import HbsModel.Generated.Grammar
import HbsModel.Ast
/-
  Model of template.rs: `compile2` as the loop over the flattened pair stream that it is, with
  its stacks and flags, and with every `unwrap()` / `unreachable!()` / slice as a named panic site.
-/
namespace Hbs
open Hbs.Pest Hbs.Grammar

inductive TErrReason where
  | mismatchingClosedHelper (opened closing : Str)
  | mismatchingClosedDecorator (opened closing : Str)
  | invalidSyntax
  | invalidParam (s : Str)
  | ioError (name : Str)
deriving DecidableEq, Repr

structure TemplateError where
  reason : TErrReason
  name : Option Str := none
  line : Option Nat := none
  col : Option Nat := none
deriving DecidableEq, Repr

inductive CRes (α : Type) where
  | ok (a : α)
  | err (e : TemplateError)
  | panic (site : String)
  | fuel

namespace CRes
def bind {α β : Type} (x : CRes α) (f : α → CRes β) : CRes β :=
  match x with
  | ok a => f a
  | err e => err e
  | panic s => panic s
  | fuel => fuel
instance : Monad CRes where
  pure := ok
  bind := bind
end CRes

structure TemplateOptions where
  preventIndent : Bool := false
  isPartial : Bool := false
  name : Option Str := none

def TemplateOptions.nameOrDefault (o : TemplateOptions) : Str := o.name.getD (str "Unnamed")

/-- a pair of the stream after `escape` pairs were filtered out; a raw_text / raw_block_text pair
    remembers the start offsets of its inner `escape` pairs (what `pair.into_inner()` yields). -/
structure CTok where
  rule : Option Rule
  s : Nat
  e : Nat
  escapes : List Nat := []
deriving Repr

def attachEscapes : List (Tok Rule) → List CTok
  | [] => []
  | t :: rest =>
    if t.rule == some .r_escape then attachEscapes rest
    else
      let esc :=
        if t.rule == some .r_raw_text || t.rule == some .r_raw_block_text then
          ((rest.takeWhile (fun u => u.e ≤ t.e)).filter (fun u => u.rule == some .r_escape)).map (·.s)
        else []
      ⟨t.rule, t.s, t.e, esc⟩ :: attachEscapes rest

def tokStr (src : Str) (t : CTok) : Str := (src.drop t.s).take (t.e - t.s)

/-- `get_local_path_and_level` -/
def getLocalPathAndLevel (segs : List PathSeg) : Option (Nat × Str) :=
  match segs with
  | .loc :: rest =>
    let ups := rest.takeWhile (· == .up)
    match rest.drop ups.length with
    | .named n :: _ => some (ups.length, n)
    | _ => none
  | _ => none

/-- `Path::new` -/
def Path.new (raw : Str) (segs : List PathSeg) : Path :=
  match getLocalPathAndLevel segs with
  | some (level, name) => .localVar level name raw
  | none => .relative segs raw

/-- `parse_json_path_from_iter` -/
def parsePathSegs (src : Str) (limit : Nat) : List CTok → List PathSeg → List PathSeg × List CTok
  | [], acc => (acc.reverse, [])
  | t :: rest, acc =>
    if t.e > limit then (acc.reverse, t :: rest)
    else
      let acc' :=
        if t.rule == some .r_path_root then .root :: acc
        else if t.rule == some .r_path_local then .loc :: acc
        else if t.rule == some .r_path_up then .up :: acc
        else if t.rule == some .r_path_id || t.rule == some .r_path_raw_id then
          let name := tokStr src t
          if name == str "this" then acc else .named name :: acc
        else acc
      parsePathSegs src limit rest acc'

structure ExprSpec where
  name : Param
  params : List Param
  hash : List (Str × Param)
  blockParam : Option BlockParam
  omitPreWs : Bool
  omitProWs : Bool

/-- `Subexpression::new` -/
def mkSubexpr (e : ExprSpec) : Param :=
  .sub { name := e.name, params := e.params, hash := e.hash, blockParam := none, template := none,
         inverse := none, block := false, chain := false, indentBeforeWrite := false }

def dropInside (limitEnd : Nat) : List CTok → List CTok
  | [] => []
  | t :: rest => if t.e > limitEnd then t :: rest else dropInside limitEnd rest

/-- `parse_block_param` -/
def parseBlockParam (src : Str) (limit : Nat) (it : List CTok) : CRes (BlockParam × List CTok) :=
  match it with
  | [] => .panic "tpl.parse_block_param.next"
  | p1 :: rest =>
    match rest with
    | p2 :: rest2 =>
      if p2.e ≤ limit then .ok (.pair (tokStr src p1) (tokStr src p2), rest2)
      else .ok (.single (tokStr src p1), rest)
    | [] => .ok (.single (tokStr src p1), rest)

mutual
  /-- `parse_name` -/
  def parseName (src : Str) : Nat → List CTok → CRes (Param × List CTok)
    | 0, _ => .fuel
    | fuel + 1, it =>
      match it with
      | [] => .panic "tpl.parse_name.next"
      | t :: rest =>
        if t.rule == some .r_identifier || t.rule == some .r_partial_identifier
            || t.rule == some .r_invert_tag_item then
          .ok (.name (tokStr src t), rest)
        else if t.rule == some .r_reference then
          let (segs, rest') := parsePathSegs src t.e rest []
          .ok (.path (Path.new (tokStr src t) segs), rest')
        else if t.rule == some .r_subexpression then
          match parseExpression src fuel t.e rest with
          | .ok (es, rest') => .ok (mkSubexpr es, rest')
          | .err e => .err e
          | .panic s => .panic s
          | .fuel => .fuel
        else .panic "tpl.parse_name.unreachable"
  /-- `parse_param` -/
  def parseParam (src : Str) : Nat → List CTok → CRes (Param × List CTok)
    | 0, _ => .fuel
    | fuel + 1, it =>
      match it with
      | [] => .panic "tpl.parse_param.next"
      | p0 :: rest0 =>
        let step : CRes (CTok × List CTok) :=
          if p0.rule == some .r_helper_parameter then
            match rest0 with
            | [] => .panic "tpl.parse_param.next2"
            | p :: r => .ok (p, r)
          else .ok (p0, rest0)
        match step with
        | .err e => .err e
        | .panic s => .panic s
        | .fuel => .fuel
        | .ok (param, rest) =>
          let result : CRes (Param × List CTok) :=
            if param.rule == some .r_reference then
              let (segs, rest') := parsePathSegs src param.e rest []
              .ok (.path (Path.new (tokStr src param) segs), rest')
            else if param.rule == some .r_literal then
              match rest with
              | [] => .panic "tpl.parse_param.literal.next"
              | lit :: rest1 =>
                let single : CRes Bool :=
                  if lit.rule == some .r_string_literal then
                    match rest1 with
                    | [] => .panic "tpl.parse_param.peek"
                    | q :: _ => .ok (q.rule == some .r_string_inner_single_quote)
                  else .ok false
                match single with
                | .err e => .err e
                | .panic s => .panic s
                | .fuel => .fuel
                | .ok isSingle =>
                  let (jsonRes, rest2) : Option Json × List CTok :=
                    if isSingle then
                      match rest1 with
                      | inner :: rest2 =>
                        let s1 := replaceAll (str "\\'") (str "'") (tokStr src inner)
                        let s2 := replaceAll (str "\"") (str "\\\"") s1
                        (Json.parse ('"' :: (s2 ++ ['"'])), rest2)
                      | [] => (none, rest1)
                    else (Json.parse (tokStr src param), rest1)
                  match jsonRes with
                  | some j => .ok (.lit j, rest2)
                  | none =>
                    let (l, c) := lineCol src param.s
                    .err { reason := .invalidParam (tokStr src param), line := some l, col := some c }
            else if param.rule == some .r_subexpression then
              match parseExpression src fuel param.e rest with
              | .ok (es, rest') => .ok (mkSubexpr es, rest')
              | .err e => .err e
              | .panic s => .panic s
              | .fuel => .fuel
            else .panic "tpl.parse_param.unreachable"
          match result with
          | .ok (p, rest') => .ok (p, dropInside param.e rest')
          | r => r
  /-- the `loop` of `parse_expression` -/
  def parseExprLoop (src : Str) : Nat → Nat → List CTok → ExprSpec → CRes (ExprSpec × List CTok)
    | 0, _, _, _ => .fuel
    | fuel + 1, limit, it, acc =>
      match it with
      | [] => .ok (acc, [])
      | t :: rest =>
        if t.e < limit then
          if t.rule == some .r_helper_parameter then
            match parseParam src fuel rest with
            | .ok (p, rest') => parseExprLoop src fuel limit rest' { acc with params := acc.params ++ [p] }
            | .err e => .err e
            | .panic s => .panic s
            | .fuel => .fuel
          else if t.rule == some .r_hash then
            match rest with
            | [] => .panic "tpl.parse_hash.next"
            | k :: rest1 =>
              match parseParam src fuel rest1 with
              | .ok (p, rest') =>
                parseExprLoop src fuel limit rest' { acc with hash := hashInsert acc.hash (tokStr src k) p }
              | .err e => .err e
              | .panic s => .panic s
              | .fuel => .fuel
          else if t.rule == some .r_block_param then
            match parseBlockParam src t.e rest with
            | .ok (bp, rest') => parseExprLoop src fuel limit rest' { acc with blockParam := some bp }
            | .err e => .err e
            | .panic s => .panic s
            | .fuel => .fuel
          else if t.rule == some .r_trailing_tilde_to_omit_whitespace then
            parseExprLoop src fuel limit rest { acc with omitProWs := true }
          else parseExprLoop src fuel limit rest acc
        else .ok (acc, t :: rest)
  /-- `parse_expression` -/
  def parseExpression (src : Str) : Nat → Nat → List CTok → CRes (ExprSpec × List CTok)
    | 0, _, _ => .fuel
    | fuel + 1, limit, it =>
      match it with
      | [] => .panic "tpl.parse_expression.peek"
      | t :: rest =>
        let (omitPre, it1) :=
          if t.rule == some .r_leading_tilde_to_omit_whitespace then (true, rest) else (false, t :: rest)
        match parseName src fuel it1 with
        | .ok (name, it2) =>
          parseExprLoop src fuel limit it2
            { name := name, params := [], hash := [], blockParam := none, omitPreWs := omitPre, omitProWs := false }
        | .err e => .err e
        | .panic s => .panic s
        | .fuel => .fuel
end

/-! ### helpers of the main loop -/

def frontMut (site : String) (stk : List Tmpl) (f : Tmpl → Tmpl) : CRes (List Tmpl) :=
  match stk with
  | [] => .panic site
  | t :: r => .ok (f t :: r)

def mapLastRaw (f : Str → Str) (t : Tmpl) : Tmpl :=
  match t.elements.reverse with
  | .raw s :: revInit => t.setElements ((.raw (f s) :: revInit).reverse)
  | _ => t

/-- `remove_previous_whitespace` -/
def removePreviousWhitespace (stk : List Tmpl) : CRes (List Tmpl) :=
  frontMut "tpl.remove_previous_whitespace.front" stk (mapLastRaw trimEnd)

/-- `process_standalone_statement` -/
def processStandalone (stk : List Tmpl) (src : Str) (s e : Nat) (preventIndent isPartial : Bool) :
    CRes (Bool × List Tmpl) :=
  match slice? src e src.length with
  | none => .panic "tpl.standalone.slice_cont"
  | some cont =>
    let withTrailing := startsWithEmptyLine cont || (!isPartial && (trimStartBlank cont).isEmpty)
    if withTrailing then
      match slice? src 0 s with
      | none => .panic "tpl.standalone.slice_before"
      | some before =>
        let withLeading := endsWithEmptyLine before
        let stk' : CRes (List Tmpl) :=
          if preventIndent && withLeading then
            frontMut "tpl.standalone.front" stk (mapLastRaw trimEndBlank)
          else .ok stk
        match stk' with
        | .ok stk' => .ok (s == 0 || withLeading, stk')
        | .err er => .err er
        | .panic p => .panic p
        | .fuel => .fuel
    else .ok (false, stk)

def removeAt : Str → Nat → Option Str
  | [], _ => none
  | _ :: t, 0 => some t
  | c :: t, n + 1 => (removeAt t n).map (c :: ·)

/-- the escape-removal loop of `raw_string` (escapes given in source order; removed last-first) -/
def removeEscapes (site : String) (s : Str) (offset curStart : Nat) : List Nat → CRes Str
  | [] => .ok s
  | esc :: more =>
    -- reversed iteration: handle the later ones first
    match removeEscapes site s offset curStart more with
    | .ok s' =>
      if offset + esc < curStart then .panic site
      else match removeAt s' (offset + esc - curStart) with
        | some r => .ok r
        | none => .panic site
    | r => r

/-- `Template::raw_string` -/
def rawString (slice : Str) (pair : Option CTok) (trimStartFlag trimStartLine : Bool) : CRes Elem :=
  let s1 : CRes Str :=
    match pair with
    | none => .ok slice
    | some p =>
      let spanLen := p.e - p.s
      if slice.length < spanLen then .panic "tpl.raw_string.offset"
      else removeEscapes "tpl.raw_string.remove" slice (slice.length - spanLen) p.s p.escapes
  match s1 with
  | .ok s =>
    if trimStartFlag then .ok (.raw (trimStart s))
    else if trimStartLine then .ok (.raw (stripFirstNewline (trimStartBlank s)))
    else .ok (.raw s)
  | .err e => .err e
  | .panic p => .panic p
  | .fuel => .fuel

def HelperG.new (e : ExprSpec) (block chain ibw : Bool) : HelperT :=
  { name := e.name, params := e.params, hash := e.hash, blockParam := e.blockParam,
    template := none, inverse := none, block := block, chain := chain, indentBeforeWrite := ibw }

def DecoG.new (e : ExprSpec) (ibw : Bool) : DecoT :=
  { name := e.name, params := e.params, hash := e.hash, template := none, indent := none,
    indentBeforeWrite := ibw }

/-- `ref_chain_head_mut` : the head of the else-chain kept (reversed) in `inverse`.
    Returns the head and a function putting a modified head back. -/
def chainHead? (h : HelperT) : CRes (Option HelperT) :=
  if h.chain then
    match h.inverse with
    | some inv =>
      if inv.elements.length != 1 then .panic "tpl.chain.assert"
      else match inv.elements with
        | [.block c] => .ok (some c)
        | _ => .ok none
    | none => .ok none
  else .ok none

def setChainHead (h : HelperT) (c : HelperT) : HelperT :=
  match h.inverse with
  | some inv => { h with inverse := some (inv.setElements [.block c]) }
  | none => h

/-- `insert_inverse_node` -/
def insertInverseNode (h : HelperT) (node : HelperT) : HelperT :=
  let node' := { node with inverse := h.inverse }
  { h with inverse := some (Tmpl.empty.pushElemOnly (.block node')) }

/-- `set_chain_template` -/
def setChainTemplate (h : HelperT) (t : Option Tmpl) : CRes HelperT :=
  match chainHead? h with
  | .ok (some c) => .ok (setChainHead h { c with template := t })
  | .ok none => .ok { h with template := t }
  | .err e => .err e
  | .panic p => .panic p
  | .fuel => .fuel

/-- the `while let` of `revert_chain_and_set`: reverse the else-chain into list order -/
def revertChain : Nat → Option Tmpl → Option Tmpl → CRes (Option Tmpl)
  | 0, _, _ => .fuel
  | fuel + 1, cur, prev =>
    match cur with
    | none => .ok prev
    | some node =>
      if node.elements.length != 1 then .panic "tpl.chain.assert2"
      else match node.elements with
        | [.block c] =>
          let next := c.inverse
          let node' := node.setElements [.block { c with inverse := prev }]
          revertChain fuel next (some node')
        | _ => .ok prev      -- (Rust: the loop continues with inverse = None)

def chainLen : Nat → Option Tmpl → Nat
  | 0, _ => 0
  | f + 1, some t => match t.elements with
    | [.block c] => 1 + chainLen f c.inverse
    | _ => 1
  | _ + 1, none => 0

/-- `revert_chain_and_set` -/
def revertChainAndSet (fuel : Nat) (h : HelperT) (inverse : Option Tmpl) : CRes HelperT :=
  if h.chain then
    match chainHead? h with
    | .ok hd =>
      let (h1, prev) : HelperT × Option Tmpl :=
        match hd with
        | some c =>
          if c.template.isSome then (h, inverse)
          else (setChainHead h { c with template := inverse }, none)
        | none => (h, none)
      match revertChain fuel h1.inverse prev with
      | .ok inv => .ok { h1 with inverse := inv }
      | .err e => .err e
      | .panic p => .panic p
      | .fuel => .fuel
    | .err e => .err e
    | .panic p => .panic p
    | .fuel => .fuel
  else if h.template.isSome then .ok { h with inverse := inverse }
  else .ok { h with template := inverse }

/-- `Parameter::debug_name` (only the `as_name` case is rendered exactly; the Debug form of other
    parameters is not modelled) -/
def Param.debugName (p : Param) : Str := (p.asName?).getD (str "<debug>")

structure CState where
  helperStack : List HelperT := []
  decoStack : List DecoT := []
  tmplStack : List Tmpl := []
  omitProWs : Bool := false
  trimLine : Bool := false
  endPos : Option Nat := none

def isBlockStart (r : Option Rule) : Bool :=
  r == some .r_helper_block_start || r == some .r_raw_block_start ||
  r == some .r_decorator_block_start || r == some .r_partial_block_start

def isExprLike (r : Option Rule) : Bool :=
  r == some .r_expression || r == some .r_html_expression || r == some .r_decorator_expression ||
  r == some .r_partial_expression || r == some .r_helper_block_end || r == some .r_raw_block_end ||
  r == some .r_decorator_block_end || r == some .r_partial_block_end

/-- one iteration of the `loop` of compile2 for the pair `t`; returns the new state and iterator -/
def compileStep (src : Str) (opts : TemplateOptions) (fuel : Nat) (st : CState) (t : CTok)
    (it : List CTok) : CRes (CState × List CTok) := do
  let prevEnd := st.endPos.getD 0
  let rule := t.rule
  let isTrailing := rule != some .r_template && t.s != prevEnd && !st.omitProWs
      && rule != some .r_raw_text && rule != some .r_raw_block_text
  let (line, col) := lineCol src t.s
  let st ← (if isTrailing then do
      let text ← (match slice? src prevEnd t.s with
        | some x => CRes.ok x
        | none => CRes.panic "tpl.trailing.slice")
      let el ← rawString text none false st.trimLine
      if rule == some .r_raw_block_end then
        pure { st with tmplStack := (Tmpl.empty.pushElement el line col) :: st.tmplStack, trimLine := false }
      else do
        let stk ← frontMut "tpl.trailing.front" st.tmplStack (·.pushElement el line col)
        pure { st with tmplStack := stk, trimLine := false }
    else if st.omitProWs && t.s != prevEnd && rule != some .r_template && rule != some .r_raw_text
        && rule != some .r_raw_block_text then
      -- the whitespace after a `~}}` tag is dropped as a whole, and with it the line a standalone tag ends
      pure { st with trimLine := false }
    else pure st)
  let (st, it) ← (
    if rule == some .r_template then
      pure ({ st with tmplStack := Tmpl.empty :: st.tmplStack }, it)
    else if rule == some .r_raw_text then do
      let start := if t.s != prevEnd then prevEnd else t.s
      let text ← (match slice? src start t.e with
        | some x => CRes.ok x
        | none => CRes.panic "tpl.raw_text.slice")
      let el ← rawString text (some t) st.omitProWs st.trimLine
      let stk ← frontMut "tpl.raw_text.front" st.tmplStack (·.pushElement el line col)
      pure ({ st with tmplStack := stk, trimLine := false }, it)
    else if isBlockStart rule then do
      let (exp, it) ← parseExpression src fuel t.e it
      let stk ← (if exp.omitPreWs then removePreviousWhitespace st.tmplStack else pure st.tmplStack)
      let (trim, stk) ← processStandalone stk src t.s t.e true opts.isPartial
      let ibw := trim && !exp.omitPreWs
      let st := { st with omitProWs := exp.omitProWs, trimLine := trim }
      let st :=
        if rule == some .r_helper_block_start || rule == some .r_raw_block_start then
          { st with helperStack := HelperG.new exp true false ibw :: st.helperStack }
        else { st with decoStack := DecoG.new exp ibw :: st.decoStack }
      let stk ← frontMut "tpl.block_start.front" stk (·.pushMapping line col)
      pure ({ st with tmplStack := stk }, it)
    else if rule == some .r_invert_tag || rule == some .r_invert_chain_tag then do
      let isChain := rule == some .r_invert_chain_tag
      -- a `~` comes before the `else` keyword
      let (chainOmitPre, it) : Bool × List CTok :=
        if isChain then
          match it with
          | tk :: rest => if tk.rule == some .r_leading_tilde_to_omit_whitespace then (true, rest) else (false, it)
          | [] => (false, it)
        else (false, it)
      let it ← (if isChain then do
          let (_, it') ← parseName src fuel it
          pure it'
        else pure it)
      let (exp0, it) ← parseExpression src fuel t.e it
      let exp := { exp0 with omitPreWs := exp0.omitPreWs || chainOmitPre }
      let stk ← (if exp.omitPreWs then removePreviousWhitespace st.tmplStack else pure st.tmplStack)
      let (trim, stk) ← processStandalone stk src t.s t.e true opts.isPartial
      let ibw := trim && !exp.omitPreWs
      match stk with
      | [] => CRes.panic "tpl.invert.pop"
      | tt :: stk' =>
        match st.helperStack with
        | [] => CRes.panic "tpl.invert.helper_front"
        | h :: hs => do
          let h := if isChain then { h with chain := true } else h
          let h ← setChainTemplate h (some tt)
          let h := if isChain then insertInverseNode h (HelperG.new exp true true ibw) else h
          pure ({ st with omitProWs := exp.omitProWs, trimLine := trim, tmplStack := stk',
                          helperStack := h :: hs }, it)
    else if rule == some .r_raw_block_text then do
      -- leading space fix
      let start := if t.s != prevEnd then prevEnd else t.s
      let text ← (match slice? src start t.e with
        | some x => CRes.ok x
        | none => CRes.panic "tpl.raw_block_text.slice")
      let el ← rawString text (some t) st.omitProWs st.trimLine
      pure ({ st with tmplStack := (Tmpl.empty.pushElement el line col) :: st.tmplStack }, it)
    else if isExprLike rule then do
      let (exp, it) ← parseExpression src fuel t.e it
      let stk ← (if exp.omitPreWs then removePreviousWhitespace st.tmplStack else pure st.tmplStack)
      let st := { st with omitProWs := exp.omitProWs, tmplStack := stk }
      if rule == some .r_expression || rule == some .r_html_expression then do
        let ht := HelperG.new exp false false false
        let el := if rule == some .r_expression then Elem.expr ht else Elem.html ht
        let stk ← frontMut "tpl.expression.front" st.tmplStack (·.pushElement el line col)
        pure ({ st with tmplStack := stk }, it)
      else if rule == some .r_decorator_expression || rule == some .r_partial_expression then do
        let isPartialExpr := rule == some .r_partial_expression
        let preventIndent := !(isPartialExpr && opts.preventIndent)
        let (trim, stk) ← processStandalone st.tmplStack src t.s t.e preventIndent opts.isPartial
        let indent ← (
          if isPartialExpr && !opts.preventIndent && !exp.omitPreWs then
            match slice? src 0 t.s with
            | some before => CRes.ok (findTrailingBlank before)
            | none => CRes.panic "tpl.partial.indent.slice"
          else pure none)
        let d := { DecoG.new exp (trim && !exp.omitPreWs) with indent := indent }
        let el := if isPartialExpr then Elem.partialExpr d else Elem.decoExpr d
        let stk ← frontMut "tpl.decorator.front" stk (·.pushElement el line col)
        pure ({ st with tmplStack := stk, trimLine := trim }, it)
      else if rule == some .r_helper_block_end || rule == some .r_raw_block_end then do
        let (trim, stk) ← processStandalone st.tmplStack src t.s t.e true opts.isPartial
        match st.helperStack with
        | [] => CRes.panic "tpl.helper_end.pop"
        | h :: hs =>
          if h.name.asName? == exp.name.asName? then
            match stk with
            | [] => CRes.panic "tpl.helper_end.tpop"
            | prevT :: stk' => do
              let h ← revertChainAndSet (src.length + 2) h (some prevT)
              let stk'' ← frontMut "tpl.helper_end.front" stk' (·.pushElemOnly (.block h))
              pure ({ st with tmplStack := stk'', helperStack := hs, trimLine := trim }, it)
          else
            CRes.err { reason := .mismatchingClosedHelper h.name.debugName exp.name.debugName,
                       name := some opts.nameOrDefault, line := some line, col := some col }
      else do
        -- decorator_block_end | partial_block_end
        let (trim, stk) ← processStandalone st.tmplStack src t.s t.e true opts.isPartial
        match st.decoStack with
        | [] => CRes.panic "tpl.decorator_end.pop"
        | d :: ds =>
          if d.name.asName? == exp.name.asName? then
            match stk with
            | [] => CRes.panic "tpl.decorator_end.tpop"
            | prevT :: stk' => do
              -- the body is rendered from other templates: it remembers where it was written
              let d := { d with template := some (prevT.setName opts.name) }
              let el := if rule == some .r_decorator_block_end then Elem.decoBlock d else Elem.partialBlock d
              let stk'' ← frontMut "tpl.decorator_end.front" stk' (·.pushElemOnly el)
              pure ({ st with tmplStack := stk'', decoStack := ds, trimLine := trim }, it)
          else
            CRes.err { reason := .mismatchingClosedDecorator d.name.debugName exp.name.debugName,
                       name := some opts.nameOrDefault, line := some line, col := some col }
    else if rule == some .r_hbs_comment_compact then do
      let (trim, stk) ← processStandalone st.tmplStack src t.s t.e true opts.isPartial
      let text := trimEndMatches (str "}}") (trimStartMatches (str "{{!") (tokStr src t))
      let stk ← frontMut "tpl.comment.front" stk (·.pushElement (.comment text) line col)
      -- a comment ends the reach of a preceding `~}}`
      pure ({ st with tmplStack := stk, trimLine := trim, omitProWs := false }, it)
    else if rule == some .r_hbs_comment then do
      let (trim, stk) ← processStandalone st.tmplStack src t.s t.e true opts.isPartial
      let text := trimEndMatches (str "--}}") (trimStartMatches (str "{{!--") (tokStr src t))
      let stk ← frontMut "tpl.comment.front" stk (·.pushElement (.comment text) line col)
      -- a comment ends the reach of a preceding `~}}`
      pure ({ st with tmplStack := stk, trimLine := trim, omitProWs := false }, it)
    else pure (st, it))
  let st := if rule != some .r_template then { st with endPos := some t.e } else st
  pure (st, it)

/-- the end of the pair stream -/
def compileFinish (src : Str) (opts : TemplateOptions) (st : CState) : CRes Tmpl := do
  let prevEnd := st.endPos.getD 0
  let stk ← (
    if prevEnd < src.length then
      match slice? src prevEnd src.length with
      | none => CRes.panic "tpl.finish.slice"
      | some text =>
        match st.endPos with
        | none => CRes.panic "tpl.end_pos.unwrap"
        | some ep =>
          let (line, col) := lineCol src ep
          frontMut "tpl.finish.front" st.tmplStack (·.pushElement (.raw text) line col)
    else pure st.tmplStack)
  match stk with
  | [] => CRes.panic "tpl.finish.pop"
  | root :: _ => pure (root.setName opts.name)

def compileLoop (src : Str) (opts : TemplateOptions) : Nat → CState → List CTok → CRes Tmpl
  | 0, _, _ => .fuel
  | fuel + 1, st, it =>
    match it with
    | [] => compileFinish src opts st
    | t :: rest =>
      match compileStep src opts fuel st t rest with
      | .ok (st', it') => compileLoop src opts fuel st' it'
      | .err e => .err e
      | .panic p => .panic p
      | .fuel => .fuel

/-- `Template::compile2_inner` -/
def compile2Inner (src : Str) (opts : TemplateOptions) : CRes Tmpl :=
  match Pest.parse Grammar.rules Grammar.ws .r_handlebars src with
  | .fuel => .fuel
  | .fail => .err { reason := .invalidSyntax, name := some opts.nameOrDefault }
  | .ok _ toks =>
    let it := attachEscapes toks
    compileLoop src opts (4 * it.length + 16) {} it

/-- `Template::compile2` : every compile error names the template it was found in -/
def compile2 (src : Str) (opts : TemplateOptions) : CRes Tmpl :=
  match compile2Inner src opts with
  | .err e => .err (if e.name.isNone then { e with name := some opts.nameOrDefault } else e)
  | r => r

end Hbs
