import HbsModel.Basic
import HbsModel.Generated.Deps
/-
  `serde_json::Number` (without `arbitrary_precision`): PosInt(u64) | NegInt(i64<0) | Float(finite f64).
  A float is its 64 bits; its exact value is a dyadic rational computed from the bits, so nothing
  here goes through Lean's `Float`.
  `Num.toText` models `Number::to_string` (itoa / zmij), `Num.ofText` models serde_json's number
  parser (correctly rounded – serde_json is exactly rounded for ≤ 15 significant digits and
  |exp10| ≤ 22, the domain the generators use).  Both are models of external crates (trusted base,
  validated by the correspondence runs).
-/
namespace Hbs

inductive Num where
  | pos (n : Nat)        -- value n,  n < 2^64
  | neg (n : Nat)        -- value -n, 1 ≤ n ≤ 2^63
  | flt (bits : Nat)     -- finite binary64, bits < 2^64
deriving DecidableEq, Repr, Inhabited

namespace F64
def sign (b : Nat) : Bool := b / 2 ^ 63 % 2 == 1
def expo (b : Nat) : Nat := b / 2 ^ 52 % 2048
def frac (b : Nat) : Nat := b % 2 ^ 52
def isZero (b : Nat) : Bool := expo b == 0 && frac b == 0
def isFinite (b : Nat) : Bool := expo b != 2047
/-- `f64::is_normal` -/
def isNormal (b : Nat) : Bool := expo b != 0 && expo b != 2047
/-- magnitude = mant * 2^exp2 -/
def mant (b : Nat) : Nat := if expo b == 0 then frac b else frac b + 2 ^ 52
def exp2 (b : Nat) : Int := if expo b == 0 then -1074 else (expo b : Int) - 1075
def negZero : Nat := 2 ^ 63
end F64

/-- exact dyadic value  (-1)^neg * m * 2^e -/
structure Dy where
  neg : Bool
  m : Nat
  e : Int
deriving Repr

def Dy.magCmp (a b : Dy) : Ordering :=
  let k := min a.e b.e
  let x := a.m * 2 ^ (a.e - k).toNat
  let y := b.m * 2 ^ (b.e - k).toNat
  compare x y

/-- order of the exact values -/
def Dy.cmp (a b : Dy) : Ordering :=
  if a.m == 0 && b.m == 0 then .eq
  else if a.m == 0 then (if b.neg then .gt else .lt)
  else if b.m == 0 then (if a.neg then .lt else .gt)
  else match a.neg, b.neg with
    | false, true => .gt
    | true, false => .lt
    | false, false => Dy.magCmp a b
    | true, true => Dy.magCmp b a

namespace Num

def WF : Num → Prop
  | pos n => n < 2 ^ 64
  | neg n => 1 ≤ n ∧ n ≤ 2 ^ 63
  | flt b => b < 2 ^ 64 ∧ F64.isFinite b = true

instance : DecidablePred WF := fun n => by
  cases n <;> simp only [WF] <;> exact inferInstance

def exact : Num → Dy
  | pos n => ⟨false, n, 0⟩
  | neg n => ⟨true, n, 0⟩
  | flt b => ⟨F64.sign b, F64.mant b, F64.exp2 b⟩

def isU64 : Num → Bool | pos _ => true | _ => false
def isI64 : Num → Bool
  | pos n => n < 2 ^ 63
  | neg _ => true
  | flt _ => false
def isF64 : Num → Bool | flt _ => true | _ => false

/-- `as_u64` -/
def asU64? : Num → Option Nat | pos n => some n | _ => none
/-- `as_i64` -/
def asI64? : Num → Option Int
  | pos n => if n < 2 ^ 63 then some (n : Int) else none
  | neg n => some (-(n : Int))
  | flt _ => none

/-- serde_json's `PartialEq` for `Number`: same representation; floats by `==` (so 0.0 == -0.0). -/
def beq : Num → Num → Bool
  | pos a, pos b => a == b
  | neg a, neg b => a == b
  | flt a, flt b => a == b || (F64.isZero a && F64.isZero b)
  | _, _ => false

/-- `n.as_f64().is_some_and(|f| f != 0.0 && !f.is_nan())` : an integer converts to a non-zero float
    iff it is non-zero; a finite float is non-zero iff it is not ±0.0. -/
def asF64NonZero : Num → Bool
  | pos n => n != 0
  | neg _ => true
  | flt b => !F64.isZero b

/-- `n.as_f64().is_some_and(|f| !f.is_nan())` : always true for finite numbers. -/
def asF64NotNan : Num → Bool
  | _ => true

end Num

/-! ### decimal → binary64, correctly rounded -/

def bitLen (n : Nat) : Nat := if n == 0 then 0 else Nat.log2 n + 1

/-- magnitude bits of the double nearest to `M * 10^E` (ties to even); `none` = overflow. -/
def decToF64 (M : Nat) (E : Int) : Option Nat :=
  if M == 0 then some 0 else
  let A := if E ≥ 0 then M * 10 ^ E.toNat else M
  let B := if E ≥ 0 then 1 else 10 ^ (-E).toNat
  let est : Int := (bitLen A : Int) - (bitLen B : Int)
  let pow2Le (k : Int) : Bool :=
    if k ≥ 0 then 2 ^ k.toNat * B ≤ A else B ≤ A * 2 ^ (-k).toNat
  let e2 : Int := if pow2Le est then est else est - 1
  let normal := e2 ≥ -1022
  let s : Int := if normal then e2 - 52 else -1074
  let num := if s ≥ 0 then A else A * 2 ^ (-s).toNat
  let den := if s ≥ 0 then B * 2 ^ s.toNat else B
  let q0 := num / den
  let r := num % den
  let q := if 2 * r > den || (2 * r == den && q0 % 2 == 1) then q0 + 1 else q0
  let bits :=
    if normal then ((e2 + 1023).toNat) * 2 ^ 52 + (q - 2 ^ 52) else q
  if bits / 2 ^ 52 ≥ 2047 then none else some bits

/-- `u64 as f64` / `i64 as f64` magnitude bits -/
def natToF64 (n : Nat) : Nat := (decToF64 n 0).getD 0

/-! ### binary64 → shortest decimal text (zmij / ryu behaviour) -/

private def pow10 (k : Nat) : Nat := 10 ^ k

/-- compare c * 10^k with N / D -/
private def cmpDec (c : Nat) (k : Int) (N D : Nat) : Ordering :=
  if k ≥ 0 then compare (c * pow10 k.toNat * D) N else compare (c * D) (N * pow10 (-k).toNat)

/-- digits (no trailing zeros) and decimal exponent x with value = d.ddd * 10^x -/
def f64ShortestDigits (b : Nat) : Str × Int :=
  let m := F64.mant b
  let e := F64.exp2 b
  let boundary := F64.frac b == 0 && F64.expo b > 1
  let V := 4 * m
  let LO := 4 * m - (if boundary then 1 else 2)
  let HI := 4 * m + 2
  let E := e - 2
  let sc (X : Nat) : Nat × Nat := if E ≥ 0 then (X * 2 ^ E.toNat, 1) else (X, 2 ^ (-E).toNat)
  let (vN, vD) := sc V
  let (loN, _) := sc LO
  let (hiN, _) := sc HI
  let even := m % 2 == 0
  -- p = floor(log10 v)
  let est : Int := (((bitLen m : Int) + e - 1) * 30103) / 100000
  let le10 (p : Int) : Bool := cmpDec 1 p vN vD != .gt      -- 10^p ≤ v
  let p := Id.run do
    let mut p := est
    for _ in [0:4] do
      if le10 (p + 1) then p := p + 1
    for _ in [0:4] do
      if !le10 p then p := p - 1
    return p
  let inIv (c : Nat) (k : Int) : Bool :=
    let a := cmpDec c k loN vD
    let z := cmpDec c k hiN vD
    (a == .gt || (even && a == .eq)) && (z == .lt || (even && z == .eq))
  let res := Id.run do
    let mut out : Option (Nat × Int) := none
    for n in [1:18] do
      if out.isNone then
        let k : Int := p - ((n : Int) - 1)
        let cf := if k ≥ 0 then vN / (vD * pow10 k.toNat) else (vN * pow10 (-k).toNat) / vD
        let okF := cf ≥ pow10 (n - 1) && inIv cf k
        let okC := inIv (cf + 1) k
        if okF && okC then
          -- closer of the two to v:  compare (2cf+1)*10^k with 2v
          let mid := cmpDec (2 * cf + 1) k (2 * vN) vD
          let pick := match mid with
            | .gt => cf          -- midpoint above v : floor is closer
            | .lt => cf + 1
            | .eq => if cf % 2 == 0 then cf else cf + 1
          out := some (pick, k)
        else if okF then out := some (cf, k)
        else if okC then out := some (cf + 1, k)
    return out
  match res with
  | none => (['0'], 0)
  | some (c, k) =>
    let ds := natToStr c
    let x : Int := k + (ds.length : Int) - 1
    let ds' := dropWhileEnd (· == '0') ds
    (if ds'.isEmpty then ['0'] else ds', x)

def f64ToText (b : Nat) : Str :=
  let sgn : Str := if F64.sign b then ['-'] else []
  if F64.isZero b then sgn ++ str "0.0" else
  let (ds, x) := f64ShortestDigits b
  if -5 ≤ x ∧ x ≤ 15 then
    if x ≥ 0 then
      let n := x.toNat + 1
      let ip := ds.take n ++ List.replicate (n - ds.length) '0'
      let fp := ds.drop n
      sgn ++ ip ++ ['.'] ++ (if fp.isEmpty then ['0'] else fp)
    else
      sgn ++ str "0." ++ List.replicate ((-x).toNat - 1) '0' ++ ds
  else
    let head := ds.take 1
    let tail := ds.drop 1
    let mantissa := if tail.isEmpty then head else head ++ ['.'] ++ tail
    let ex : Str := if x ≥ 0 then '+' :: natToStr x.toNat else '-' :: natToStr (-x).toNat
    sgn ++ mantissa ++ ['e'] ++ ex

/-- `Number::to_string` -/
def Num.toText : Num → Str
  | .pos n => natToStr n
  | .neg n => '-' :: natToStr n
  | .flt b => f64ToText b

/-! ### binary64 multiplication and division (round to nearest, ties to even) on magnitudes -/

/-- magnitude bits of the double nearest to `A / B` (`B > 0`); `none` = overflow (infinity) -/
def ratToF64 (A B : Nat) : Option Nat :=
  if A == 0 then some 0 else
  let est : Int := (bitLen A : Int) - (bitLen B : Int)
  let pow2Le (k : Int) : Bool :=
    if k ≥ 0 then 2 ^ k.toNat * B ≤ A else B ≤ A * 2 ^ (-k).toNat
  let e2 : Int := if pow2Le est then est else est - 1
  let normal := e2 ≥ -1022
  let s : Int := if normal then e2 - 52 else -1074
  let num := if s ≥ 0 then A else A * 2 ^ (-s).toNat
  let den := if s ≥ 0 then B * 2 ^ s.toNat else B
  let q0 := num / den
  let r := num % den
  let q := if 2 * r > den || (2 * r == den && q0 % 2 == 1) then q0 + 1 else q0
  let bits :=
    if normal then ((e2 + 1023).toNat) * 2 ^ 52 + (q - 2 ^ 52) else q
  if bits / 2 ^ 52 ≥ 2047 then none else some bits

/-- `a * b` on finite non-negative doubles given by their bits -/
def f64MulMag (a b : Nat) : Option Nat :=
  let m := F64.mant a * F64.mant b
  let e : Int := F64.exp2 a + F64.exp2 b
  if e ≥ 0 then ratToF64 (m * 2 ^ e.toNat) 1 else ratToF64 m (2 ^ (-e).toNat)

/-- `a / b` on finite non-negative doubles, `b ≠ 0` -/
def f64DivMag (a b : Nat) : Option Nat :=
  let e : Int := F64.exp2 a - F64.exp2 b
  if e ≥ 0 then ratToF64 (F64.mant a * 2 ^ e.toNat) (F64.mant b)
  else ratToF64 (F64.mant a) (F64.mant b * 2 ^ (-e).toNat)

/-! ### JSON number text → Num: serde_json's parser WITHOUT the `float_roundtrip` feature (the build
    the crate uses).  It keeps at most a u64 of significant digits, drops the rest, and scales the
    converted significand by a table power of ten with ONE floating-point multiplication or division
    (after repeated division by 1e308 for very small exponents) – the result can be an ulp away from
    the correctly rounded value, and the model follows the code. -/

def u64Max : Nat := 2 ^ 64 - 1
def i32Max : Nat := 2 ^ 31 - 1

/-- `POW10[k]` : the literal `1e<k>` (rustc rounds literals correctly) -/
def pow10F64 (k : Nat) : Nat := (decToF64 1 k).getD 0

/-- the loop of `f64_from_parts` on the magnitude `f`; `none` = NumberOutOfRange -/
def f64Scale (f : Nat) (exponent : Int) : Nat → Option Nat
  | 0 => none
  | fuel + 1 =>
    if exponent.natAbs < 309 then
      if exponent ≥ 0 then f64MulMag f (pow10F64 exponent.natAbs)
      else f64DivMag f (pow10F64 exponent.natAbs)
    else if f == 0 then some 0
    else if exponent ≥ 0 then none
    else match f64DivMag f (pow10F64 308) with
      | some f' => f64Scale f' (exponent + 308) fuel
      | none => none

/-- `f64_from_parts` : `significand as f64`, then the scaling loop (at most ⌈2^31 / 308⌉ rounds, but the
    value is zero long before: 8 rounds reach below the smallest subnormal) -/
def f64FromParts (significand : Nat) (exponent : Int) : Option Nat :=
  f64Scale (natToF64 significand) exponent (exponent.natAbs / 308 + 2)

def isDigit (c : Char) : Bool := (digitVal? c).isSome
def dropDigits (s : Str) : Str := s.dropWhile isDigit

/-- saturating i32 addition / subtraction of `parse_exponent` -/
def satI32 (x : Int) : Int :=
  if x > 2147483647 then 2147483647 else if x < -2147483648 then -2147483648 else x

/-- the digit loop of `parse_exponent` (after the first digit).  `inl` = overflow of the i32 -/
def serdeExpDigits : Nat → Str → Option Nat × Str
  | exp, [] => (some exp, [])
  | exp, c :: t =>
    match digitVal? c with
    | some d => if exp * 10 + d > i32Max then (none, t) else serdeExpDigits (exp * 10 + d) t
    | none => (some exp, c :: t)

/-- `parse_exponent`, `s` starting after the `e`/`E` -/
def serdeExponent (significand : Nat) (startingExp : Int) (s : Str) : Option (Nat × Str) :=
  let (positiveExp, s1) := match s with
    | '+' :: t => (true, t)
    | '-' :: t => (false, t)
    | _ => (true, s)
  match s1 with
  | [] => none
  | c :: t =>
    match digitVal? c with
    | none => none
    | some d0 =>
      match serdeExpDigits d0 t with
      | (none, rest) =>
        -- parse_exponent_overflow
        if significand != 0 && positiveExp then none else some (0, dropDigits rest)
      | (some exp, rest) =>
        let finalExp := if positiveExp then satI32 (startingExp + exp) else satI32 (startingExp - exp)
        (f64FromParts significand finalExp).map (fun b => (b, rest))

/-- the digit loop of `parse_decimal` (after the `.`): (significand, digits consumed, overflowed?, rest) -/
def serdeFracDigits : Nat → Nat → Str → Nat × Nat × Bool × Str
  | sig, n, [] => (sig, n, false, [])
  | sig, n, c :: t =>
    match digitVal? c with
    | some d => if sig * 10 + d > u64Max then (sig, n, true, dropDigits (c :: t)) else serdeFracDigits (sig * 10 + d) (n + 1) t
    | none => (sig, n, false, c :: t)

/-- `parse_decimal`, `s` starting after the `.` -/
def serdeDecimal (significand : Nat) (expBefore : Int) (s : Str) : Option (Nat × Str) :=
  let (sig, n, overflowed, rest) := serdeFracDigits significand 0 s
  if !overflowed && n == 0 then none      -- at least one digit after the decimal point
  else
    let exponent : Int := expBefore - n
    match rest with
    | c :: t => if c == 'e' || c == 'E' then serdeExponent sig exponent t
                else (f64FromParts sig exponent).map (fun b => (b, rest))
    | [] => (f64FromParts sig exponent).map (fun b => (b, rest))

/-- `parse_long_integer` (the u64 overflowed): every further integer digit only bumps the exponent -/
def serdeLongInteger (significand : Nat) : Nat → Str → Option (Nat × Str)
  | exp, [] => (f64FromParts significand exp).map (fun b => (b, []))
  | exp, c :: t =>
    if isDigit c then serdeLongInteger significand (exp + 1) t
    else if c == '.' then serdeDecimal significand exp t
    else if c == 'e' || c == 'E' then serdeExponent significand exp t
    else (f64FromParts significand exp).map (fun b => (b, c :: t))

/-- the integer digit loop of `parse_integer`: `inl` = finished with a u64, `inr` = float magnitude -/
def serdeIntDigits : Nat → Str → (Nat × Str) ⊕ Option (Nat × Str)
  | sig, [] => .inl (sig, [])
  | sig, c :: t =>
    match digitVal? c with
    | some d => if sig * 10 + d > u64Max then .inr (serdeLongInteger sig 0 (c :: t)) else serdeIntDigits (sig * 10 + d) t
    | none => .inl (sig, c :: t)

/-- an optional leading `-` -/
def splitSign (s : Str) : Bool × Str :=
  match s with
  | '-' :: t => (true, t)
  | _ => (false, s)

/-- serde_json WITHOUT `float_roundtrip` (best-effort precision).  `none` = not a JSON number / out of range. -/
def Num.parsePrefixFast (s : Str) : Option (Num × Str) :=
  let (negative, s1) := splitSign s
  let signBit := if negative then 2 ^ 63 else 0
  let flt (r : Option (Nat × Str)) : Option (Num × Str) := r.map (fun (b, rest) => (.flt (b + signBit), rest))
  -- `parse_number`
  let number (sig : Nat) (rest : Str) : Option (Num × Str) :=
    match rest with
    | c :: t =>
      if c == '.' then flt (serdeDecimal sig 0 t)
      else if c == 'e' || c == 'E' then flt (serdeExponent sig 0 t)
      else if !negative then some (.pos sig, rest)
      else if sig ≠ 0 && sig ≤ 2 ^ 63 then some (.neg sig, rest)
      else some (.flt (natToF64 sig + signBit), rest)
    | [] =>
      if !negative then some (.pos sig, rest)
      else if sig ≠ 0 && sig ≤ 2 ^ 63 then some (.neg sig, rest)
      else some (.flt (natToF64 sig + signBit), rest)
  match s1 with
  | [] => none
  | c :: t =>
    match digitVal? c with
    | none => none
    | some 0 =>
      -- there can be only one leading 0
      match t with
      | c2 :: _ => if isDigit c2 then none else number 0 t
      | [] => number 0 t
    | some d =>
      match serdeIntDigits d t with
      | .inl (sig, rest) => number sig rest
      | .inr r => flt r

/-- serde_json WITH `float_roundtrip`: every decimal text is converted with correct rounding (its
    `lexical` algorithm), whatever the number of digits.  `none` = not a JSON number / out of range. -/
def Num.parsePrefixExact (s : Str) : Option (Num × Str) :=
  let (negative, s1) := splitSign s
  let intDigits := s1.takeWhile (fun c => (digitVal? c).isSome)
  let s2 := s1.dropWhile (fun c => (digitVal? c).isSome)
  if intDigits.isEmpty then none
  else if intDigits.length > 1 && intDigits.head? == some '0' then
    -- serde_json: a leading 0 must not be followed by a digit
    none
  else
    let (fracDigits, s3, hasFrac, fracBad) := match s2 with
      | '.' :: t =>
        let fd := t.takeWhile (fun c => (digitVal? c).isSome)
        (fd, t.dropWhile (fun c => (digitVal? c).isSome), true, fd.isEmpty)
      | _ => ([], s2, false, false)
    if fracBad then none else
    let expPart : Option (Option (Bool × Str) × Str) := match s3 with
      | c :: t =>
        if c == 'e' || c == 'E' then
          let (eneg, t1) := match t with
            | '-' :: u => (true, u)
            | '+' :: u => (false, u)
            | _ => (false, t)
          let ed := t1.takeWhile (fun c => (digitVal? c).isSome)
          if ed.isEmpty then none
          else some (some (eneg, ed), t1.dropWhile (fun c => (digitVal? c).isSome))
        else some (none, s3)
      | [] => some (none, s3)
    match expPart with
    | none => none
    | some (ex, rest) =>
      let isInt := !hasFrac && ex.isNone
      let M := digitsToNat (intDigits ++ fracDigits)
      if isInt && !negative && M < 2 ^ 64 then some (.pos M, rest)
      else if isInt && negative && M ≠ 0 && M ≤ 2 ^ 63 then some (.neg M, rest)
      else
        let e10 : Int := match ex with
          | none => 0
          | some (eneg, ed) => if eneg then -(digitsToNat ed : Int) else (digitsToNat ed : Int)
        let E : Int := e10 - (fracDigits.length : Int)
        -- exact shortcuts for exponents far outside the binary64 range (the real parser never forms 10^E)
        let nd : Int := ((intDigits ++ fracDigits).dropWhile (· == '0')).length
        if M == 0 then some (.flt (if negative then 2 ^ 63 else 0), rest)
        else if E + nd > 400 then none
        else if E + nd < -400 then some (.flt (if negative then 2 ^ 63 else 0), rest)
        else
        match decToF64 M E with
        | none => none
        | some bits => some (.flt (bits + (if negative then 2 ^ 63 else 0)), rest)

/-- Parse a JSON number at the head of `s`: the parser of the serde_json build the crate selects
    (`Generated.serdeFloatRoundtrip` is regenerated from Cargo.toml on every run). -/
def Num.parsePrefix (s : Str) : Option (Num × Str) :=
  if Generated.serdeFloatRoundtrip then Num.parsePrefixExact s else Num.parsePrefixFast s

/-- `serde_json::Number::from_str` : the whole string must be a JSON number. -/
def Num.ofText (s : Str) : Option Num :=
  match Num.parsePrefix s with
  | some (n, []) => some n
  | _ => none

/-- `num-order`'s `NumOrd::num_partial_cmp` on the exact values (assumed exact: trusted base). -/
def Num.cmp (a b : Num) : Ordering := Dy.cmp a.exact b.exact

end Hbs
