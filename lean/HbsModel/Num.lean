import HbsModel.Basic
/-
  `serde_json::Number` (without `arbitrary_precision`): PosInt(u64) | NegInt(i64<0) | Float(finite f64).
  A float is its 64 bits; its exact value is a dyadic rational computed from the bits, so nothing
  here goes through Lean's `Float`.
  `Num.toText` models `Number::to_string` (itoa / zmij), `Num.ofText` models serde_json's number
  parser (correctly rounded – serde_json is exactly rounded for ≤ 15 significant digits and
  |exp10| ≤ 22, the domain the generators use).  Both are models of external crates (trusted base,
  validated by the correspondence runs).
-/
namespace Hbs

inductive Num where
  | pos (n : Nat)        -- value n,  n < 2^64
  | neg (n : Nat)        -- value -n, 1 ≤ n ≤ 2^63
  | flt (bits : Nat)     -- finite binary64, bits < 2^64
deriving DecidableEq, Repr, Inhabited

namespace F64
def sign (b : Nat) : Bool := b / 2 ^ 63 % 2 == 1
def expo (b : Nat) : Nat := b / 2 ^ 52 % 2048
def frac (b : Nat) : Nat := b % 2 ^ 52
def isZero (b : Nat) : Bool := expo b == 0 && frac b == 0
def isFinite (b : Nat) : Bool := expo b != 2047
/-- `f64::is_normal` -/
def isNormal (b : Nat) : Bool := expo b != 0 && expo b != 2047
/-- magnitude = mant * 2^exp2 -/
def mant (b : Nat) : Nat := if expo b == 0 then frac b else frac b + 2 ^ 52
def exp2 (b : Nat) : Int := if expo b == 0 then -1074 else (expo b : Int) - 1075
def negZero : Nat := 2 ^ 63
end F64

/-- exact dyadic value  (-1)^neg * m * 2^e -/
structure Dy where
  neg : Bool
  m : Nat
  e : Int
deriving Repr

def Dy.magCmp (a b : Dy) : Ordering :=
  let k := min a.e b.e
  let x := a.m * 2 ^ (a.e - k).toNat
  let y := b.m * 2 ^ (b.e - k).toNat
  compare x y

/-- order of the exact values -/
def Dy.cmp (a b : Dy) : Ordering :=
  if a.m == 0 && b.m == 0 then .eq
  else if a.m == 0 then (if b.neg then .gt else .lt)
  else if b.m == 0 then (if a.neg then .lt else .gt)
  else match a.neg, b.neg with
    | false, true => .gt
    | true, false => .lt
    | false, false => Dy.magCmp a b
    | true, true => Dy.magCmp b a

namespace Num

def WF : Num → Prop
  | pos n => n < 2 ^ 64
  | neg n => 1 ≤ n ∧ n ≤ 2 ^ 63
  | flt b => b < 2 ^ 64 ∧ F64.isFinite b = true

instance : DecidablePred WF := fun n => by
  cases n <;> simp only [WF] <;> exact inferInstance

def exact : Num → Dy
  | pos n => ⟨false, n, 0⟩
  | neg n => ⟨true, n, 0⟩
  | flt b => ⟨F64.sign b, F64.mant b, F64.exp2 b⟩

def isU64 : Num → Bool | pos _ => true | _ => false
def isI64 : Num → Bool
  | pos n => n < 2 ^ 63
  | neg _ => true
  | flt _ => false
def isF64 : Num → Bool | flt _ => true | _ => false

/-- `as_u64` -/
def asU64? : Num → Option Nat | pos n => some n | _ => none
/-- `as_i64` -/
def asI64? : Num → Option Int
  | pos n => if n < 2 ^ 63 then some (n : Int) else none
  | neg n => some (-(n : Int))
  | flt _ => none

/-- serde_json's `PartialEq` for `Number`: same representation; floats by `==` (so 0.0 == -0.0). -/
def beq : Num → Num → Bool
  | pos a, pos b => a == b
  | neg a, neg b => a == b
  | flt a, flt b => a == b || (F64.isZero a && F64.isZero b)
  | _, _ => false

/-- `n.as_f64().is_some_and(|f| f != 0.0 && !f.is_nan())` : an integer converts to a non-zero float
    iff it is non-zero; a finite float is non-zero iff it is not ±0.0. -/
def asF64NonZero : Num → Bool
  | pos n => n != 0
  | neg _ => true
  | flt b => !F64.isZero b

/-- `n.as_f64().is_some_and(|f| !f.is_nan())` : always true for finite numbers. -/
def asF64NotNan : Num → Bool
  | _ => true

end Num

/-! ### decimal → binary64, correctly rounded -/

def bitLen (n : Nat) : Nat := if n == 0 then 0 else Nat.log2 n + 1

/-- magnitude bits of the double nearest to `M * 10^E` (ties to even); `none` = overflow. -/
def decToF64 (M : Nat) (E : Int) : Option Nat :=
  if M == 0 then some 0 else
  let A := if E ≥ 0 then M * 10 ^ E.toNat else M
  let B := if E ≥ 0 then 1 else 10 ^ (-E).toNat
  let est : Int := (bitLen A : Int) - (bitLen B : Int)
  let pow2Le (k : Int) : Bool :=
    if k ≥ 0 then 2 ^ k.toNat * B ≤ A else B ≤ A * 2 ^ (-k).toNat
  let e2 : Int := if pow2Le est then est else est - 1
  let normal := e2 ≥ -1022
  let s : Int := if normal then e2 - 52 else -1074
  let num := if s ≥ 0 then A else A * 2 ^ (-s).toNat
  let den := if s ≥ 0 then B * 2 ^ s.toNat else B
  let q0 := num / den
  let r := num % den
  let q := if 2 * r > den || (2 * r == den && q0 % 2 == 1) then q0 + 1 else q0
  let bits :=
    if normal then ((e2 + 1023).toNat) * 2 ^ 52 + (q - 2 ^ 52) else q
  if bits / 2 ^ 52 ≥ 2047 then none else some bits

/-- `u64 as f64` / `i64 as f64` magnitude bits -/
def natToF64 (n : Nat) : Nat := (decToF64 n 0).getD 0

/-! ### binary64 → shortest decimal text (zmij / ryu behaviour) -/

private def pow10 (k : Nat) : Nat := 10 ^ k

/-- compare c * 10^k with N / D -/
private def cmpDec (c : Nat) (k : Int) (N D : Nat) : Ordering :=
  if k ≥ 0 then compare (c * pow10 k.toNat * D) N else compare (c * D) (N * pow10 (-k).toNat)

/-- digits (no trailing zeros) and decimal exponent x with value = d.ddd * 10^x -/
def f64ShortestDigits (b : Nat) : Str × Int :=
  let m := F64.mant b
  let e := F64.exp2 b
  let boundary := F64.frac b == 0 && F64.expo b > 1
  let V := 4 * m
  let LO := 4 * m - (if boundary then 1 else 2)
  let HI := 4 * m + 2
  let E := e - 2
  let sc (X : Nat) : Nat × Nat := if E ≥ 0 then (X * 2 ^ E.toNat, 1) else (X, 2 ^ (-E).toNat)
  let (vN, vD) := sc V
  let (loN, _) := sc LO
  let (hiN, _) := sc HI
  let even := m % 2 == 0
  -- p = floor(log10 v)
  let est : Int := (((bitLen m : Int) + e - 1) * 30103) / 100000
  let le10 (p : Int) : Bool := cmpDec 1 p vN vD != .gt      -- 10^p ≤ v
  let p := Id.run do
    let mut p := est
    for _ in [0:4] do
      if le10 (p + 1) then p := p + 1
    for _ in [0:4] do
      if !le10 p then p := p - 1
    return p
  let inIv (c : Nat) (k : Int) : Bool :=
    let a := cmpDec c k loN vD
    let z := cmpDec c k hiN vD
    (a == .gt || (even && a == .eq)) && (z == .lt || (even && z == .eq))
  let res := Id.run do
    let mut out : Option (Nat × Int) := none
    for n in [1:18] do
      if out.isNone then
        let k : Int := p - ((n : Int) - 1)
        let cf := if k ≥ 0 then vN / (vD * pow10 k.toNat) else (vN * pow10 (-k).toNat) / vD
        let okF := cf ≥ pow10 (n - 1) && inIv cf k
        let okC := inIv (cf + 1) k
        if okF && okC then
          -- closer of the two to v:  compare (2cf+1)*10^k with 2v
          let mid := cmpDec (2 * cf + 1) k (2 * vN) vD
          let pick := match mid with
            | .gt => cf          -- midpoint above v : floor is closer
            | .lt => cf + 1
            | .eq => if cf % 2 == 0 then cf else cf + 1
          out := some (pick, k)
        else if okF then out := some (cf, k)
        else if okC then out := some (cf + 1, k)
    return out
  match res with
  | none => (['0'], 0)
  | some (c, k) =>
    let ds := natToStr c
    let x : Int := k + (ds.length : Int) - 1
    let ds' := dropWhileEnd (· == '0') ds
    (if ds'.isEmpty then ['0'] else ds', x)

def f64ToText (b : Nat) : Str :=
  let sgn : Str := if F64.sign b then ['-'] else []
  if F64.isZero b then sgn ++ str "0.0" else
  let (ds, x) := f64ShortestDigits b
  if -5 ≤ x ∧ x ≤ 15 then
    if x ≥ 0 then
      let n := x.toNat + 1
      let ip := ds.take n ++ List.replicate (n - ds.length) '0'
      let fp := ds.drop n
      sgn ++ ip ++ ['.'] ++ (if fp.isEmpty then ['0'] else fp)
    else
      sgn ++ str "0." ++ List.replicate ((-x).toNat - 1) '0' ++ ds
  else
    let head := ds.take 1
    let tail := ds.drop 1
    let mantissa := if tail.isEmpty then head else head ++ ['.'] ++ tail
    let ex : Str := if x ≥ 0 then '+' :: natToStr x.toNat else '-' :: natToStr (-x).toNat
    sgn ++ mantissa ++ ['e'] ++ ex

/-- `Number::to_string` -/
def Num.toText : Num → Str
  | .pos n => natToStr n
  | .neg n => '-' :: natToStr n
  | .flt b => f64ToText b

/-! ### JSON number text → Num (serde_json parser) -/

/-- Parse a JSON number at the head of `s`; returns the number and the rest.
    `none` = not a JSON number / out of range. -/
def Num.parsePrefix (s : Str) : Option (Num × Str) :=
  let (negative, s1) := match s with
    | '-' :: t => (true, t)
    | _ => (false, s)
  let intDigits := s1.takeWhile (fun c => (digitVal? c).isSome)
  let s2 := s1.dropWhile (fun c => (digitVal? c).isSome)
  if intDigits.isEmpty then none
  else if intDigits.length > 1 && intDigits.head? == some '0' then
    -- serde_json: a leading 0 must not be followed by a digit
    none
  else
    let (fracDigits, s3, hasFrac, fracBad) := match s2 with
      | '.' :: t =>
        let fd := t.takeWhile (fun c => (digitVal? c).isSome)
        (fd, t.dropWhile (fun c => (digitVal? c).isSome), true, fd.isEmpty)
      | _ => ([], s2, false, false)
    if fracBad then none else
    let expPart : Option (Option (Bool × Str) × Str) := match s3 with
      | c :: t =>
        if c == 'e' || c == 'E' then
          let (eneg, t1) := match t with
            | '-' :: u => (true, u)
            | '+' :: u => (false, u)
            | _ => (false, t)
          let ed := t1.takeWhile (fun c => (digitVal? c).isSome)
          if ed.isEmpty then none
          else some (some (eneg, ed), t1.dropWhile (fun c => (digitVal? c).isSome))
        else some (none, s3)
      | [] => some (none, s3)
    match expPart with
    | none => none
    | some (ex, rest) =>
      let isInt := !hasFrac && ex.isNone
      let M := digitsToNat (intDigits ++ fracDigits)
      if isInt && !negative && M < 2 ^ 64 then some (.pos M, rest)
      else if isInt && negative && M ≠ 0 && M ≤ 2 ^ 63 then some (.neg M, rest)
      else
        let e10 : Int := match ex with
          | none => 0
          | some (eneg, ed) => if eneg then -(digitsToNat ed : Int) else (digitsToNat ed : Int)
        let E : Int := e10 - (fracDigits.length : Int)
        match decToF64 M E with
        | none => none
        | some bits => some (.flt (bits + (if negative then 2 ^ 63 else 0)), rest)

/-- `serde_json::Number::from_str` : the whole string must be a JSON number. -/
def Num.ofText (s : Str) : Option Num :=
  match Num.parsePrefix s with
  | some (n, []) => some n
  | _ => none

/-- `num-order`'s `NumOrd::num_partial_cmp` on the exact values (assumed exact: trusted base). -/
def Num.cmp (a b : Num) : Ordering := Dy.cmp a.exact b.exact

end Hbs
