import HbsModel.Json
/-
  Template AST, mirroring template.rs / json/path.rs field by field.
-/
namespace Hbs

/-- `PathSeg` : Named(String) | Ruled(path_root | path_local | path_up) -/
inductive PathSeg where
  | named (s : Str)
  | root
  | loc
  | up
deriving DecidableEq, Repr

/-- `Path` : Relative((segs, raw)) | Local((level, name, raw)) -/
inductive Path where
  | relative (segs : List PathSeg) (raw : Str)
  | localVar (level : Nat) (name : Str) (raw : Str)
deriving DecidableEq, Repr

def Path.raw : Path → Str
  | .relative _ r => r
  | .localVar _ _ r => r

/-- `BlockParam` : Single(Name) | Pair(Name, Name) -/
inductive BlockParam where
  | single (a : Str)
  | pair (a b : Str)
deriving DecidableEq, Repr

/-- `HelperTemplate`, generic in the parameter and template types (tied below). -/
structure HelperG (P T : Type) where
  name : P
  params : List P
  hash : List (Str × P)          -- HashMap: association list, last insert wins, kept key-sorted
  blockParam : Option BlockParam
  template : Option T
  inverse : Option T
  block : Bool
  chain : Bool
  indentBeforeWrite : Bool

/-- `DecoratorTemplate` -/
structure DecoG (P T : Type) where
  name : P
  params : List P
  hash : List (Str × P)
  template : Option T
  indent : Option Str
  indentBeforeWrite : Bool

mutual
  inductive Param where
    | name (s : Str)
    | path (p : Path)
    | lit (j : Json)
    | sub (h : HelperG Param Tmpl)      -- Subexpression{ element: Expression(ht) }
  inductive Elem where
    | raw (s : Str)
    | html (h : HelperG Param Tmpl)
    | expr (h : HelperG Param Tmpl)
    | block (h : HelperG Param Tmpl)
    | decoExpr (d : DecoG Param Tmpl)
    | decoBlock (d : DecoG Param Tmpl)
    | partialExpr (d : DecoG Param Tmpl)
    | partialBlock (d : DecoG Param Tmpl)
    | comment (s : Str)
  inductive Tmpl where
    | mk (name : Option Str) (elements : List Elem) (mapping : List (Nat × Nat))
end

abbrev HelperT := HelperG Param Tmpl
abbrev DecoT := DecoG Param Tmpl

instance : Inhabited Tmpl := ⟨.mk none [] []⟩
instance : Inhabited Param := ⟨.name []⟩

namespace Tmpl
def name : Tmpl → Option Str | mk n _ _ => n
def elements : Tmpl → List Elem | mk _ e _ => e
def mapping : Tmpl → List (Nat × Nat) | mk _ _ m => m
def empty : Tmpl := .mk none [] []
def setName (t : Tmpl) (n : Option Str) : Tmpl := .mk n t.elements t.mapping
/-- `push_element` -/
def pushElement (t : Tmpl) (e : Elem) (line col : Nat) : Tmpl :=
  .mk t.name (t.elements ++ [e]) (t.mapping ++ [(line, col)])
def pushElemOnly (t : Tmpl) (e : Elem) : Tmpl := .mk t.name (t.elements ++ [e]) t.mapping
def pushMapping (t : Tmpl) (line col : Nat) : Tmpl := .mk t.name t.elements (t.mapping ++ [(line, col)])
def setElements (t : Tmpl) (es : List Elem) : Tmpl := .mk t.name es t.mapping
end Tmpl

/-- `Parameter::as_name` -/
def Param.asName? : Param → Option Str
  | .name s => some s
  | .path p => some p.raw
  | _ => none

/-- association-list insert for `HashMap<String, Parameter>` (kept key-sorted, replace on equal key) -/
def hashInsert {α : Type} : List (Str × α) → Str → α → List (Str × α)
  | [], k, v => [(k, v)]
  | (k', v') :: t, k, v =>
    if k == k' then (k', v) :: t
    else if strLt k k' then (k, v) :: (k', v') :: t
    else (k', v') :: hashInsert t k v

def HelperG.isNameOnly {P T : Type} (h : HelperG P T) : Bool :=
  !h.block && h.params.isEmpty && h.hash.isEmpty

end Hbs
