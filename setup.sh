#!/bin/sh
# builds the framework from files on disk only (offline): harness, generated Lean modules, Lean development
set -e
cd "$(dirname "$0")"
export CARGO_NET_OFFLINE=true
(cd harness && cargo build --release --offline --bins)
python3 - <<'PY'
import sys
sys.path.insert(0, ".")
from vlib import core
p = core.regen()
if p:
    print("regen problems:", p)
PY
(cd lean && lake build hbsmodel HbsModel.Props)
echo setup-ok
