"""Structured generators: JSON data, paths with every spelling, templates built from the AST downward
and printed with randomised but valid spellings, template sets with partials."""
import struct

from .rng import Rng


class F:
    """a float, carried as its bit pattern"""

    def __init__(self, bits):
        self.bits = bits & ((1 << 64) - 1)

    @staticmethod
    def of(x):
        return F(struct.unpack("<Q", struct.pack("<d", x))[0])

    def value(self):
        return struct.unpack("<d", struct.pack("<Q", self.bits))[0]

    def __repr__(self):
        return "F(%r)" % self.value()

    def __eq__(self, o):
        return isinstance(o, F) and o.bits == self.bits

    def __hash__(self):
        return hash(self.bits)


def enc(v):
    """Python value -> protocol JSON (numbers with explicit representation)."""
    if v is None or isinstance(v, bool) or isinstance(v, str):
        return v
    if isinstance(v, int):
        return {"#u": str(v)} if v >= 0 else {"#i": str(v)}
    if isinstance(v, F):
        return {"#f": "%016x" % v.bits}
    if isinstance(v, float):
        return {"#f": "%016x" % F.of(v).bits}
    if isinstance(v, (list, tuple)):
        return [enc(x) for x in v]
    if isinstance(v, dict):
        return {k: enc(x) for k, x in v.items()}
    raise TypeError(v)


IDENTS = ["a", "b", "c", "d", "x", "y", "k", "v", "name", "items", "n", "foo", "bar", "it", "zz", "q1", "user-id", "a_b", "$s", "é"]
ODD_KEYS = ["a b", "0", "1", "with.dot", "sl/ash", "this", "", "@x", "ke]y"]
TEXT_ALPHA = list("abcXYZ019 <>&\"'`=!#.,;:/|-_()[]") + ["\n", "\t", " ", " ", "é", "ß", "→", "😀", "{", "}", "\\"]
SPECIAL_STRS = ["", "<b>", "a&b", "\"q\"", "it's", "`x`", "a=b", "line1\nline2", "x\r\ny", "  pad  ", "é→😀", "{{x}}", "0", "false", "\\"]
INT_BOUNDARY = [0, 1, 2, -1, 7, 10, 42, 255, -128, 2 ** 31, 2 ** 53, 2 ** 53 + 1, 2 ** 63 - 1, 2 ** 63, 2 ** 64 - 1, -(2 ** 63), -(2 ** 53) - 1]
FLOATS = [0.0, -0.0, 1.5, -2.25, 0.1, 1e-7, 1e21, 123456.789, 5e-324, 2.2250738585072014e-308, 1.7976931348623157e308, 3.0, 1e15, 1e16, 0.00001, 0.000001]


def gen_scalar(rng: Rng):
    k = rng.weighted([("str", 5), ("int", 4), ("bool", 2), ("null", 1), ("float", 2), ("special", 3)])
    if k == "str":
        return "".join(rng.pick(TEXT_ALPHA) for _ in range(rng.range(0, 6)))
    if k == "special":
        return rng.pick(SPECIAL_STRS)
    if k == "int":
        return rng.pick(INT_BOUNDARY) if rng.chance(0.3) else rng.range(-20, 200)
    if k == "bool":
        return rng.chance(0.5)
    if k == "null":
        return None
    return F.of(rng.pick(FLOATS)) if rng.chance(0.6) else F.of((rng.range(-10 ** 6, 10 ** 6)) / rng.pick([1, 2, 4, 8, 10, 100, 1000]))


def gen_key(rng: Rng, odd=0.1):
    return rng.pick(ODD_KEYS) if rng.chance(odd) else rng.pick(IDENTS)


def gen_json(rng: Rng, depth=3, odd_keys=0.1, want=None):
    """want in (None, 'obj', 'arr')"""
    if want == "obj" or (want is None and depth > 0 and rng.chance(0.35)):
        n = rng.range(0, 4)
        o = {}
        for _ in range(n):
            o[gen_key(rng, odd_keys)] = gen_json(rng, depth - 1, odd_keys)
        return o
    if want == "arr" or (want is None and depth > 0 and rng.chance(0.3)):
        return [gen_json(rng, depth - 1, odd_keys) for _ in range(rng.range(0, 4))]
    return gen_scalar(rng)


def is_ident(k):
    """can be written as a bare path_id (symbol_char+) and is not a keyword / literal look-alike"""
    if k == "" or k in ("this", "as", "else", "true", "false", "null"):
        return False
    for ch in k:
        o = ord(ch)
        if not (ch.isascii() and (ch.isalnum() or ch in "-_$:") or o >= 0x80):
            return False
    # a leading digit or '-' would lex as a number literal in parameter position
    if k[0].isdigit() or k[0] == "-":
        return False
    return True


def seg_spelling(rng: Rng, k, first):
    """spelling of one path segment for key/index k (str)"""
    if is_ident(k) and not rng.chance(0.15):
        return k
    if "]" in k:
        return None
    return "[" + k + "]"


def spell_path(rng: Rng, segs, ups=0, root=False, local=None, prefix_ok=True):
    """Build a path string.  segs: list of str keys/indices.  Returns None if not spellable."""
    parts = []
    for i, k in enumerate(segs):
        s = seg_spelling(rng, k, i == 0)
        if s is None:
            return None
        if i == 0 and not s.startswith("[") and s[0].isdigit():
            s = "[" + k + "]"
        parts.append(s)
    out = ""
    if local is not None:
        out = "@" + "../" * ups + local
        return out
    if root:
        out += "@root" + rng.pick([".", "/"])
    elif prefix_ok and ups == 0 and parts and rng.chance(0.2):
        out += rng.pick(["this.", "this/", "./"])
    out += "".join(".." + rng.pick(["/", "/"]) for _ in range(ups))
    if not parts:
        if ups > 0:
            return None            # a bare '../' is not a path
        return "this" if not root else None
    seps = [rng.pick([".", "/"]) for _ in parts[1:]]
    out += parts[0]
    for sp, p in zip(seps, parts[1:]):
        out += sp + p
    return out


def walk(v, segs):
    """the value a segment list designates from v; (found, value)"""
    cur = v
    for k in segs:
        if isinstance(cur, dict):
            if k in cur:
                cur = cur[k]
            else:
                return False, None
        elif isinstance(cur, list):
            if k.isdigit() or (k[:1] == "+" and k[1:].isdigit()):
                i = int(k)
                if i < len(cur):
                    cur = cur[i]
                else:
                    return False, None
            else:
                return "badindex", None
        else:
            return False, None
    return True, cur


def quote_template_text(s):
    """text -> template source that renders to it (the C03 quoting): '{{' -> '\\{{'"""
    return s.replace("{{", "\\{{")


def lit(rng: Rng, v, nested=False):
    """a JSON value as a template literal (single-quoted strings only at top level: nested ones are
    accepted by the grammar but rejected by serde_json – finding F15)"""
    if v is None:
        return "null"
    if v is True:
        return "true"
    if v is False:
        return "false"
    if isinstance(v, int):
        return str(v)
    if isinstance(v, F):
        x = v.value()
        s = repr(x)
        if "e" in s or "inf" in s or "nan" in s:
            return None
        return s
    if isinstance(v, str):
        return str_lit(rng, v, allow_single=not nested)
    if isinstance(v, list):
        items = [lit(rng, x, True) for x in v]
        if any(i is None for i in items):
            return None
        return "[" + ", ".join(items) + "]"
    if isinstance(v, dict):
        items = []
        for k, x in v.items():
            l = lit(rng, x, True)
            if l is None:
                return None
            items.append(str_lit(rng, k, allow_single=False) + ": " + l)
        return "{" + ", ".join(items) + "}"
    return None


def str_lit(rng: Rng, s, allow_single=True):
    single = allow_single and rng.chance(0.4)
    q = "'" if single else '"'
    out = []
    for ch in s:
        o = ord(ch)
        if ch == "\\":
            out.append("\\\\")
        elif ch == q:
            out.append("\\" + q)
        elif ch == "\n":
            out.append("\\n")
        elif ch == "\t":
            out.append("\\t")
        elif ch == "\r":
            out.append("\\r")
        elif o < 0x20:
            out.append("\\u%04x" % o)
        elif o > 0xFFFF and rng.chance(0.5):
            o2 = o - 0x10000
            out.append("\\u%04x\\u%04x" % (0xD800 + (o2 >> 10), 0xDC00 + (o2 & 0x3FF)))
        elif o >= 0x80 and o <= 0xFFFF and rng.chance(0.3):
            out.append("\\u%04x" % o)
        elif ch == '"' and single:
            out.append('"')
        elif ch == "'" and not single:
            out.append("'")
        else:
            out.append(ch)
    return q + "".join(out) + q


# ---------------------------------------------------------------------------- template generator

class Scope:
    def __init__(self, ctx, kind="root", params=None, locals_=None):
        self.ctx = ctx            # python value or UNKNOWN
        self.kind = kind          # root | each | with | partial
        self.params = params or {}
        self.locals = locals_ or []


UNKNOWN = object()


class TG:
    """Template generator over known data.  Options in `opt`."""

    def __init__(self, rng: Rng, data, helpers=None, partial_names=None, opt=None):
        self.rng = rng
        self.data = data
        self.helpers = helpers or {}        # name -> kind ('mark','probe','vret','evalp','rcstate')
        self.partials = list(partial_names or [])
        self.opt = dict(text=True, blocks=True, partials=True, raw=True, comments=True, tilde=0.08,
                        decorators=False, missing=0.15, subexpr=True, inline=True, max_items=5,
                        literals=True, partial_block=True, else_chain=True, strict_safe=False,
                        multiline=0.3)
        if opt:
            self.opt.update(opt)
        self.stats = {}

    def count(self, k):
        self.stats[k] = self.stats.get(k, 0) + 1

    # ---- paths
    def path_in(self, scopes, want=None, allow_missing=True):
        """a path string valid in the given scope stack; returns (text, designated (found, value))."""
        rng = self.rng
        for _ in range(8):
            choice = rng.weighted([("field", 10), ("up", 3 if len([s for s in scopes if s.kind in ("each", "with")]) > 0 else 0),
                                   ("root", 2), ("this", 1), ("param", 3 if any(s.params for s in scopes) else 0),
                                   ("local", 3 if any(s.locals for s in scopes) else 0)])
            if choice == "local":
                lv = [(i, s) for i, s in enumerate(scopes) if s.locals]
                i, s = rng.pick(lv)
                # level counts blocks from the innermost; only each/with/partial scopes are blocks
                level = self.block_level(scopes, i)
                if level is None:
                    continue
                name = rng.pick(s.locals)
                return "@" + "../" * level + name, ("local", None)
            if choice == "param":
                ps = [(n, v) for s in scopes for n, v in s.params.items()]
                n, v = rng.pick(ps)
                segs = self.pick_segs(v, want)
                p = spell_path(rng, [n] + segs, prefix_ok=False)
                if p is None or not is_ident(n):
                    continue
                return p, ("param", None)
            if choice == "this":
                return rng.pick(["this", "."]) if False else "this", walk(scopes[0].ctx, []) if scopes[0].ctx is not UNKNOWN else (True, None)
            if choice == "root":
                segs = self.pick_segs(self.data, want)
                if not segs:
                    continue
                p = spell_path(rng, segs, root=True)
                if p is None:
                    continue
                return p, walk(self.data, segs)
            if choice == "up":
                blocks = [s for s in scopes if s.kind in ("each", "with", "partial", "root")]
                k = rng.range(1, max(1, len(blocks) - 1))
                tgt = blocks[min(k, len(blocks) - 1)]
                if any(s.kind == "partial" for s in blocks[:k]):
                    continue
                if tgt.ctx is UNKNOWN:
                    continue
                segs = self.pick_segs(tgt.ctx, want)
                if not segs:
                    continue
                p = spell_path(rng, segs, ups=k)
                if p is None:
                    continue
                return p, walk(tgt.ctx, segs)
            # field of the current context
            cur = scopes[0].ctx
            if cur is UNKNOWN:
                return rng.pick(IDENTS), ("unknown", None)
            missing = allow_missing and rng.chance(self.opt["missing"])
            segs = self.pick_segs(cur, want, missing=missing)
            if not segs:
                continue
            p = spell_path(rng, segs)
            if p is None:
                continue
            # a bare first segment that names a block param or a helper would be resolved differently
            head = segs[0]
            if any(head in s.params for s in scopes):
                continue
            if len(segs) == 1 and p == head and (head in self.helpers or head in BUILTIN_HELPERS):
                continue
            return p, walk(cur, segs)
        return "this", (True, None)

    def block_level(self, scopes, i):
        lvl = 0
        for s in scopes[:i]:
            if s.kind in ("each", "with"):
                lvl += 1
            elif s.kind == "partial":
                return None
        return lvl

    def pick_segs(self, v, want=None, missing=False):
        rng = self.rng
        segs = []
        cur = v
        for _ in range(rng.range(1, 3)):
            if isinstance(cur, dict) and cur:
                k = rng.pick(sorted(cur.keys()))
                segs.append(k)
                cur = cur[k]
            elif isinstance(cur, list) and cur:
                i = rng.below(len(cur))
                segs.append(str(i))
                cur = cur[i]
            else:
                break
        if missing:
            segs = segs[:rng.range(0, len(segs))] + [rng.pick(["nope", "zz9", "99", "missing"])]
        if want == "coll":
            # try to end on a collection
            f, val = walk(v, segs)
            tries = 0
            while tries < 4 and not isinstance(val, (list, dict)) and segs:
                segs = segs[:-1]
                f, val = walk(v, segs)
                tries += 1
        return segs

    # ---- arguments
    def arg(self, scopes, depth=0):
        rng = self.rng
        k = rng.weighted([("path", 6), ("lit", 4 if self.opt["literals"] else 0), ("sub", 2 if self.opt["subexpr"] and depth < 2 else 0)])
        if k == "lit":
            v = gen_json(rng, 1, 0.0) if rng.chance(0.3) else gen_scalar(rng)
            l = lit(rng, v)
            if l is not None:
                self.count("arg.lit")
                return l
        if k == "sub":
            self.count("arg.sub")
            return self.subexpr(scopes, depth + 1)
        self.count("arg.path")
        p, _ = self.path_in(scopes)
        if p[0].isdigit() or p[0] == "-":
            p = "this." + p if not p.startswith("[") else p
        return p

    def subexpr(self, scopes, depth):
        rng = self.rng
        h = rng.pick(["eq", "ne", "gt", "lt", "gte", "lte", "and", "or", "not", "len", "lookup"] + [n for n, k in self.helpers.items() if k in ("vret", "mark", "probe")])
        if h in ("not", "len"):
            args = [self.arg(scopes, depth)]
        elif h == "lookup":
            args = [self.path_in(scopes)[0], rng.pick(["0", "1", "'a'", "\"b\"", "@index", "'name'"])]
        elif h in ("and", "or"):
            args = [self.arg(scopes, depth) for _ in range(rng.range(1, 3))]
        elif h in self.helpers:
            args = [self.arg(scopes, depth) for _ in range(rng.range(1, 2))]
        else:
            args = [self.arg(scopes, depth), self.arg(scopes, depth)]
        return "(" + h + " " + " ".join(args) + ")"

    def tilde(self):
        return "~" if self.rng.chance(self.opt["tilde"]) else ""

    def ws(self):
        return self.rng.pick(["", "", "", " ", "  "])

    # ---- elements
    def text(self):
        rng = self.rng
        n = rng.range(1, 8)
        s = "".join(rng.pick(TEXT_ALPHA) for _ in range(n))
        if rng.chance(self.opt["multiline"]):
            s += rng.pick(["\n", "\r\n", "\n  ", "\n\t"])
        self.count("el.text")
        # no backslash immediately before a tag, no accidental tag opening
        s = s.replace("{{", "{ {")
        while s.endswith("\\") or s.endswith("{"):
            s = s[:-1] + "x"
        return s

    def element(self, scopes, depth):
        rng = self.rng
        o = self.opt
        kinds = [("text", 8 if o["text"] else 0), ("expr", 8), ("html", 2), ("helper", 4),
                 ("if", 4 if o["blocks"] else 0), ("each", 4 if o["blocks"] else 0), ("with", 3 if o["blocks"] else 0),
                 ("partial", 3 if o["partials"] and self.partials else 0),
                 ("partial_block", 2 if o["partials"] and o["partial_block"] else 0),
                 ("inline", 1 if o["inline"] and o["partials"] else 0),
                 ("comment", 1 if o["comments"] else 0), ("raw", 1 if o["raw"] else 0),
                 ("escaped", 1 if o["text"] else 0),
                 ("deco", 1 if o["decorators"] else 0),
                 ("userblock", 2 if any(k == "mark" for k in self.helpers.values()) and o["blocks"] else 0)]
        if depth <= 0:
            kinds = [(k, w) for k, w in kinds if k in ("text", "expr", "html", "helper", "comment", "escaped", "partial")]
        k = rng.weighted(kinds)
        self.count("el." + k)
        t1, t2 = self.tilde(), self.tilde()
        if k == "text":
            return self.text()
        if k == "expr":
            p, _ = self.path_in(scopes)
            return "{{" + t1 + self.ws() + p + self.ws() + t2 + "}}"
        if k == "html":
            p, _ = self.path_in(scopes)
            form = rng.below(3)
            if form == 0:
                return "{{{" + t1 + p + t2 + "}}}"
            if form == 1:
                return "{{" + t1 + "{" + p + "}" + t2 + "}}"
            return "{{" + t1 + "&" + p + t2 + "}}"
        if k == "helper":
            h = rng.pick(["lookup", "eq", "gt", "len", "not", "and", "or", "lt", "ne", "log"] + list(self.helpers.keys()))
            if h == "log":
                # writes nothing; a bad level is an error
                lvl = rng.pick(["", "", " level=\"info\"", " level=\"WARN\"", " level=\"trace\"", " level=\"loud\"", " level=1", " level=\"off\"",
                                " level=\"OFF\"", " level=\"debug\"", " level=\"Error\"", " level=\"\"", " level=null", " level=missing.p"])
                return "{{" + t1 + "log " + " ".join(self.arg(scopes) for _ in range(rng.range(0, 2))) + lvl + t2 + "}}"
            if self.helpers.get(h) == "evalp":
                p, _ = self.path_in(scopes)
                return "{{" + h + " " + str_lit(rng, p) + "}}"
            if self.helpers.get(h) == "rcstate":
                return "{{" + h + "}}"
            if h == "lookup":
                args = [self.path_in(scopes)[0], rng.pick(["0", "1", "'a'", "\"b\"", "'name'", "2"])]
            elif h in ("not", "len"):
                args = [self.arg(scopes)]
            else:
                args = [self.arg(scopes) for _ in range(rng.range(1, 3))]
            hash_ = ""
            if h in self.helpers and rng.chance(0.3):
                hash_ = " " + rng.pick(["k", "z", "opt"]) + "=" + self.arg(scopes)
            return "{{" + t1 + h + " " + " ".join(args) + hash_ + t2 + "}}"
        if k == "comment":
            body = "".join(rng.pick(list("abc }{-!")) for _ in range(rng.range(0, 5)))
            if rng.chance(0.5):
                body = body.replace("--", "-")
                return "{{!--" + body + "--}}"
            body = body.replace("}}", "} ")
            if body.lstrip(" \t\r\n").startswith("--"):
                # `{{! --x}}` : the grammar lets whitespace separate `{{!` from `--`, so this would OPEN a block comment
                # that runs to the next `--}}` (known finding F20; listed witness in C08) – kept out of the random stream
                body = "x" + body
            return "{{!" + body + "}}"
        if k == "raw":
            body = rng.pick(["x", "{{y}}", "a {{b}} c", "<{{{z}}}>", "", "t\n"])
            return "{{{{raw}}}}" + body + "{{{{/raw}}}}"
        if k == "escaped":
            return "\\{{" + rng.pick(["x", "esc", "a b"]) + "}}"
        if k == "if":
            return self.if_block(scopes, depth)
        if k == "each":
            return self.each_block(scopes, depth)
        if k == "with":
            return self.with_block(scopes, depth)
        if k == "userblock":
            h = rng.pick([n for n, kk in self.helpers.items() if kk == "mark"])
            body = self.body(scopes, depth - 1)
            inv = ("{{else}}" + self.body(scopes, depth - 1)) if rng.chance(0.3) else ""
            return "{{#" + t1 + h + " " + self.arg(scopes) + t2 + "}}" + body + inv + "{{/" + h + "}}"
        if k == "partial":
            return self.partial_call(scopes)
        if k == "partial_block":
            name = rng.pick(self.partials + ["nosuch"]) if self.partials else "nosuch"
            body = self.body(scopes, depth - 1)
            return "{{#>" + self.ws() + name + "}}" + body + "{{/" + name + "}}"
        if k == "inline":
            name = rng.pick(["il1", "il2"])
            body = self.body([Scope(UNKNOWN, "partial")] + scopes, depth - 1)
            use = "{{> " + name + "}}" if rng.chance(0.8) else ""
            return "{{#*inline \"" + name + "\"}}" + body + "{{/inline}}" + use
        if k == "deco":
            if rng.chance(0.5):
                p, _ = self.path_in(scopes, want="coll")
                return "{{*setctx " + p + "}}"
            return "{{*sethelper \"" + rng.pick(["lh", "eq", "foo"]) + "\" \"L\"}}"
        return self.text()

    def cond_arg(self, scopes):
        rng = self.rng
        if rng.chance(0.25):
            return self.subexpr(scopes, 1)
        if rng.chance(0.15) and self.opt["literals"]:
            return rng.pick(["true", "false", "0", "1", "\"\"", "\"x\"", "null", "[]", "[1]", "{}"])
        return self.path_in(scopes)[0]

    def else_part(self, scopes, depth, chain_ok=True):
        rng = self.rng
        if not rng.chance(0.5):
            return ""
        if chain_ok and self.opt["else_chain"] and rng.chance(0.35):
            kind = rng.pick(["if", "unless", "with", "each"])
            arg = self.cond_arg(scopes) if kind in ("if", "unless") else self.path_in(scopes, want="coll")[0]
            inner_scopes = scopes
            if kind in ("with", "each"):
                inner_scopes = [Scope(UNKNOWN, kind, locals_=(["index", "first", "last"] if kind == "each" else []))] + scopes
            return "{{else " + kind + " " + arg + "}}" + self.body(inner_scopes, depth - 1) + self.else_part(scopes, depth, True)
        form = rng.pick(["{{else}}", "{{^}}", "{{ else }}"])
        return form + self.body(scopes, depth - 1)

    def if_block(self, scopes, depth):
        rng = self.rng
        h = rng.pick(["if", "if", "unless"])
        t1, t2, t3, t4 = self.tilde(), self.tilde(), self.tilde(), self.tilde()
        inc = " includeZero=true" if rng.chance(0.1) else ""
        return ("{{" + t1 + "#" + h + " " + self.cond_arg(scopes) + inc + t2 + "}}" + self.body(scopes, depth - 1)
                + self.else_part(scopes, depth) + "{{" + t3 + "/" + h + t4 + "}}")

    def each_block(self, scopes, depth):
        rng = self.rng
        p, des = self.path_in(scopes, want="coll")
        found, val = des if isinstance(des, tuple) and len(des) == 2 else (False, None)
        bp = ""
        params = {}
        if rng.chance(0.35):
            names = rng.shuffle(["it", "k", "v", "x"])[:rng.range(1, 2)]
            bp = " as |" + " ".join(names) + "|"
            params = {n: UNKNOWN for n in names}
        if found is True and isinstance(val, list) and val:
            el = val[rng.below(len(val))]
            inner = Scope(el, "each", locals_=["index", "first", "last"])
        elif found is True and isinstance(val, dict) and val:
            el = val[rng.pick(sorted(val.keys()))]
            inner = Scope(el, "each", locals_=["index", "first", "last", "key"])
        else:
            inner = Scope(UNKNOWN, "each", locals_=["index", "first", "last"])
        if params:
            names = list(params.keys())
            inner.params = {names[0]: inner.ctx if inner.ctx is not UNKNOWN else {}}
            if len(names) > 1:
                inner.params[names[1]] = 0
        t1, t2 = self.tilde(), self.tilde()
        return ("{{" + t1 + "#each " + p + bp + t2 + "}}" + self.body([inner] + scopes, depth - 1)
                + self.else_part(scopes, depth, False) + "{{/each}}")

    def with_block(self, scopes, depth):
        rng = self.rng
        p, des = self.path_in(scopes)
        found, val = des if isinstance(des, tuple) and len(des) == 2 else (False, None)
        inner = Scope(val if found is True else UNKNOWN, "with")
        bp = ""
        if rng.chance(0.3):
            n = rng.pick(["w", "it"])
            bp = " as |" + n + "|"
            inner.params = {n: inner.ctx if inner.ctx is not UNKNOWN else {}}
        return ("{{#with " + p + bp + "}}" + self.body([inner] + scopes, depth - 1)
                + self.else_part(scopes, depth, False) + "{{/with}}")

    def partial_call(self, scopes):
        rng = self.rng
        name = rng.pick(self.partials)
        form = rng.weighted([("plain", 5), ("ctx", 3), ("hash", 3), ("dyn", 1), ("lit", 1)])
        t1, t2 = self.tilde(), self.tilde()
        if form == "plain":
            return "{{" + t1 + ">" + self.ws() + name + t2 + "}}"
        if form == "ctx":
            return "{{> " + name + " " + self.path_in(scopes)[0] + "}}"
        if form == "hash":
            kv = " ".join(rng.pick(["x", "y", "k"]) + "=" + self.arg(scopes) for _ in range(rng.range(1, 2)))
            ctx = (" " + self.path_in(scopes)[0]) if rng.chance(0.3) else ""
            return "{{> " + name + ctx + " " + kv + "}}"
        if form == "dyn":
            return "{{> (lookup @root '__pn')}}" if False else "{{> (vretname)}}" if False else "{{> " + name + "}}"
        return "{{> " + name + " " + rng.pick(["\"s\"", "1", "[1,2]", "{\"x\":1}"]) + "}}"

    def body(self, scopes, depth):
        rng = self.rng
        n = rng.range(0, self.opt["max_items"])
        return "".join(self.element(scopes, depth) for _ in range(n))

    def template(self, depth=3):
        return self.body([Scope(self.data, "root")], depth)

    def partial_body(self, depth=2, uses_block=False):
        rng = self.rng
        b = self.body([Scope(UNKNOWN, "partial")], depth)
        if uses_block:
            b += "[{{> @partial-block}}]"
        return b


BUILTIN_HELPERS = {"if", "unless", "each", "with", "lookup", "raw", "log", "eq", "ne", "gt", "gte", "lt", "lte", "and", "or", "not", "len"}


def std_helpers():
    return [{"name": "mk", "kind": "mark", "tag": "M"}, {"name": "pr", "kind": "probe"},
            {"name": "vr", "kind": "vret"}]


def session(regcfg, templates, call, data, fail_at=None, extra_ops=None, api=None):
    """a session case: register `templates` [(name, src)], then render."""
    ops = [{"op": "reg_string", "reg": 0, "name": n, "src": s} for n, s in templates]
    if extra_ops:
        ops += extra_ops
    r = dict(call)
    r.update({"op": "render", "reg": 0, "data": enc(data)})
    if fail_at is not None:
        r["fail_at"] = fail_at
    ops.append(r)
    return {"kind": "session", "regs": [regcfg], "ops": ops}
