"""Common machinery of the checks: regenerate, build, audit, run impl + model, compare, evidence."""
import fcntl
import json
import os
import re
import resource
import subprocess
import sys
import time

VERIF = os.path.dirname(os.path.dirname(os.path.abspath(__file__)))
REPO = "/repo"
LEAN = os.path.join(VERIF, "lean")
HARNESS = os.path.join(VERIF, "harness")
WORK = os.path.join(VERIF, "work")
EVID = os.path.join(VERIF, "evidence")
ALLOWED_AXIOMS = {"propext", "Classical.choice", "Quot.sound"}
FORBIDDEN = re.compile(r"(?<![A-Za-z0-9_.])(?:sorry|admit|native_decide|bv_decide|implemented_by|unsafe\s|maxHeartbeats 0)|^axiom ", re.M)

ENV = dict(os.environ)
ENV["CARGO_NET_OFFLINE"] = "true"


def log(*a):
    print(*a, file=sys.stderr, flush=True)


class Lock:
    def __init__(self, name="build"):
        os.makedirs(WORK, exist_ok=True)
        self.path = os.path.join(WORK, "." + name + ".lock")

    def __enter__(self):
        self.f = open(self.path, "w")
        fcntl.flock(self.f, fcntl.LOCK_EX)
        return self

    def __exit__(self, *a):
        fcntl.flock(self.f, fcntl.LOCK_UN)
        self.f.close()


def write_if_changed(path, content):
    try:
        with open(path) as f:
            if f.read() == content:
                return False
    except FileNotFoundError:
        pass
    os.makedirs(os.path.dirname(path), exist_ok=True)
    with open(path, "w") as f:
        f.write(content)
    return True


def run(cmd, cwd=None, timeout=3600, stdin=None, big_stack=False):
    def pre():
        if big_stack:
            try:
                resource.setrlimit(resource.RLIMIT_STACK, (resource.RLIM_INFINITY, resource.RLIM_INFINITY))
            except Exception:
                try:
                    resource.setrlimit(resource.RLIMIT_STACK, (1 << 30, 1 << 30))
                except Exception:
                    pass
    p = subprocess.run(cmd, cwd=cwd, env=ENV, stdin=stdin, stdout=subprocess.PIPE, stderr=subprocess.PIPE,
                       timeout=timeout, preexec_fn=pre)
    return p.returncode, p.stdout.decode("utf-8", "replace"), p.stderr.decode("utf-8", "replace")


# ------------------------------------------------------------------ build steps

def build_harness():
    """cargo build of the harness crate (path dependency on /repo: rebuilds the crate from the working tree)."""
    t = time.time()
    lockfile = os.path.join(HARNESS, "Cargo.lock")
    rc, out, err = run(["cargo", "build", "--release", "--offline", "--bins"], cwd=HARNESS)
    if rc != 0:
        return False, err[-4000:]
    log("[build] harness %.1fs" % (time.time() - t))
    return True, ""


def regen():
    """Regenerate lean/HbsModel/Generated/*.lean from /repo's working tree.
    Returns a list of tie problems (translator could not recognise the source shape)."""
    from . import extract
    problems = []
    rc, out, err = run([os.path.join(HARNESS, "target/release/regen"), os.path.join(REPO, "src/grammar.pest")])
    if rc != 0:
        problems.append(("Grammar", err.strip()[-800:]))
    else:
        write_if_changed(os.path.join(LEAN, "HbsModel/Generated/Grammar.lean"), out)
    for name, fn in extract.EXTRACTORS:
        try:
            content = fn()
            write_if_changed(os.path.join(LEAN, "HbsModel/Generated/%s.lean" % name), content)
        except extract.ShapeError as e:
            problems.append((name, str(e)))
    return problems


def lake_build(targets):
    t = time.time()
    rc, out, err = run(["lake", "build"] + targets, cwd=LEAN, timeout=7200)
    log("[build] lake %s %.1fs rc=%d" % (" ".join(targets), time.time() - t, rc))
    return rc == 0, out + err


def prop_modules(prop):
    """the property's theorem files: Props/<prop>.lean and, when present, Props/<prop>b.lean, <prop>c.lean, <prop>d.lean (source-level theorems that depend on
    lemmas which themselves import Props/<prop>.lean); both in namespace Hbs.<prop>"""
    return [m for m in (prop, prop + "b", prop + "c", prop + "d") if os.path.exists(os.path.join(LEAN, "HbsModel/Props/%s.lean" % m))]


def theorem_names(prop):
    """Property theorems of Props/<prop>.lean [+ Props/<prop>b.lean] (namespace Hbs.<prop>)."""
    names = []
    for m in prop_modules(prop):
        src_nc = strip_comments(open(os.path.join(LEAN, "HbsModel/Props/%s.lean" % m)).read())
        names += ["Hbs.%s.%s" % (prop, t) for t in re.findall(r"^theorem\s+([A-Za-z0-9_'.]+)", src_nc, re.M)]
    return names


def strip_comments(src):
    out = []
    i = 0
    depth = 0
    n = len(src)
    while i < n:
        if src.startswith("/-", i):
            depth += 1
            i += 2
        elif depth > 0 and src.startswith("-/", i):
            depth -= 1
            i += 2
        elif depth > 0:
            i += 1
        elif src.startswith("--", i):
            j = src.find("\n", i)
            i = n if j < 0 else j
        else:
            out.append(src[i])
            i += 1
    return "".join(out)


def lean_sources():
    res = []
    for root, _, files in os.walk(os.path.join(LEAN, "HbsModel")):
        for f in files:
            if f.endswith(".lean"):
                res.append(os.path.join(root, f))
    res.append(os.path.join(LEAN, "Main.lean"))
    return res


def audit_sources():
    """grep for forbidden constructs outside comments; `partial def` allowed only in Driver/Main."""
    bad = []
    for p in lean_sources():
        src = strip_comments(open(p).read())
        for m in FORBIDDEN.finditer(src):
            bad.append("%s: %s" % (os.path.relpath(p, LEAN), m.group(0).strip()))
        if "partial def" in src and not (p.endswith("Driver.lean") or p.endswith("Main.lean")):
            bad.append("%s: partial def" % os.path.relpath(p, LEAN))
    return bad


def audit_axioms(prop):
    """#print axioms for every property theorem; returns (theorems, {name: axioms}, problems)."""
    names = theorem_names(prop)
    if not names:
        return [], {}, ["no theorems found for %s" % prop]
    os.makedirs(os.path.join(WORK, prop), exist_ok=True)
    tmp = os.path.join(WORK, prop, "Axioms.lean")
    with open(tmp, "w") as f:
        for m in prop_modules(prop):
            f.write("import HbsModel.Props.%s\n" % m)
        for n in names:
            f.write("#print axioms %s\n" % n)
    rc, out, err = run(["lake", "env", "lean", tmp], cwd=LEAN)
    axioms = {}
    problems = []
    text = out + err
    for n in names:
        m = re.search(r"'%s' depends on axioms: \[([^\]]*)\]" % re.escape(n), text, re.S)
        if m:
            ax = [a.strip() for a in m.group(1).replace("\n", " ").split(",") if a.strip()]
            axioms[n] = ax
            extra = [a for a in ax if a not in ALLOWED_AXIOMS]
            if extra:
                problems.append("%s uses axioms %s" % (n, extra))
        elif re.search(r"'%s' does not depend on any axioms" % re.escape(n), text):
            axioms[n] = []
        else:
            problems.append("%s: no #print axioms output (%s)" % (n, text.strip()[-300:]))
    return names, axioms, problems


def parse_lean_errors(text):
    """(file, line, message) of each Lean error in lake output."""
    errs = []
    for m in re.finditer(r"error: ([^\s:]+\.lean):(\d+):(\d+): (.*)", text):
        errs.append((m.group(1), int(m.group(2)), m.group(4)))
    return errs


def enclosing_decl(path, line):
    try:
        lines = open(os.path.join(LEAN, path)).read().split("\n")
    except Exception:
        return None
    for i in range(min(line, len(lines)) - 1, -1, -1):
        m = re.match(r"\s*(?:private\s+|protected\s+)?(theorem|lemma|def|example|instance)\s+([A-Za-z0-9_'.]+)?", lines[i])
        if m:
            return "%s %s" % (m.group(1), m.group(2) or "")
    return None


# ------------------------------------------------------------------ running cases

def write_cases(path, cases):
    os.makedirs(os.path.dirname(path), exist_ok=True)
    with open(path, "w") as f:
        for c in cases:
            f.write(json.dumps(c, ensure_ascii=True, separators=(",", ":")))
            f.write("\n")


def _split_cases(cases_path, n, parts):
    """split a case file into `parts` contiguous chunk files; returns [(path, count)]"""
    if parts <= 1 or n < 200:
        return [(cases_path, n)]
    per = (n + parts - 1) // parts
    chunks = []
    with open(cases_path, "rb") as f:
        k = 0
        out = None
        cnt = 0
        for line in f:
            if out is None:
                path = "%s.part%02d" % (cases_path, k)
                out = open(path, "wb")
            out.write(line)
            cnt += 1
            if cnt == per:
                out.close()
                chunks.append((path, cnt))
                out, cnt, k = None, 0, k + 1
        if out is not None:
            out.close()
            chunks.append((path, cnt))
    return chunks


def _parallel(fn, cases_path, n):
    """run `fn(path, count)` on chunks of the case file concurrently (one OS process each) and concatenate, in order"""
    import concurrent.futures
    jobs = int(os.environ.get("VERIF_JOBS", str(min(16, os.cpu_count() or 1))))
    chunks = _split_cases(cases_path, n, jobs)
    if len(chunks) == 1:
        return fn(cases_path, n)
    try:
        with concurrent.futures.ThreadPoolExecutor(max_workers=len(chunks)) as ex:
            parts = list(ex.map(lambda pc: fn(pc[0], pc[1]), chunks))
    finally:
        for pth, _ in chunks:
            try:
                os.remove(pth)
            except OSError:
                pass
    res = []
    for part in parts:
        res.extend(part)
    return res[:n]


def run_impl(cases_path, n, timeout_per_batch=1800):
    return _parallel(lambda pth, cnt: _run_impl_one(pth, cnt, timeout_per_batch), cases_path, n)


def run_model(cases_path, n, timeout=7200):
    return _parallel(lambda pth, cnt: _run_model_one(pth, cnt, timeout), cases_path, n)


def _run_impl_one(cases_path, n, timeout_per_batch=600):
    """Runs the real crate on every case; a process death (stack overflow, abort) is attributed to the
    first unanswered case and the run resumes after it."""
    results = []
    exe = os.path.join(HARNESS, "target/release/hbs-verif")
    start = 0
    while start < n:
        try:
            rc, out, err = run([exe, "--from", str(start), cases_path], timeout=timeout_per_batch)
        except subprocess.TimeoutExpired as e:
            out = (e.stdout or b"").decode("utf-8", "replace")
            rc, err = -9, "timeout"
        lines = [l for l in out.split("\n") if l.strip()]
        for l in lines:
            try:
                results.append(json.loads(l))
            except Exception:
                results.append({"r": "garbled"})
        got = len(lines)
        if start + got >= n:
            break
        # the process died on case start+got
        kind = "hang" if err == "timeout" else "crash"
        results.append({"r": kind, "rc": rc, "stderr": err.strip()[-300:]})
        start = start + got + 1
    return results[:n]


def _run_model_one(cases_path, n, timeout=3600):
    exe = os.path.join(LEAN, ".lake/build/bin/hbsmodel")
    with open(cases_path, "rb") as f:
        try:
            rc, out, err = run([exe], stdin=f, timeout=timeout, big_stack=True)
        except subprocess.TimeoutExpired as e:
            out = (e.stdout or b"").decode("utf-8", "replace")
            rc, err = -9, "timeout"
    res = []
    for l in out.split("\n"):
        if l.strip():
            try:
                res.append(json.loads(l))
            except Exception:
                res.append({"r": "garbled"})
    while len(res) < n:
        res.append({"r": "model-crash", "rc": rc, "stderr": (err or "")[-300:]})
    return res[:n]


# ------------------------------------------------------------------ comparison

def norm_result(r, ignore_pos_for_syntax=True):
    """Canonical form of one result for impl/model comparison."""
    if not isinstance(r, dict):
        return r
    k = r.get("r")
    if k == "session":
        return {"r": "session", "results": [norm_result(x) for x in r.get("results", [])]}
    if k == "panic":
        return {"r": "panic"}
    if k in ("crash", "fuel"):
        # native stack exhaustion of the real crate ~ fuel exhaustion of the model
        return {"r": "diverge"}
    r = {a: b for a, b in r.items() if a not in ("id", "calls")}
    if k == "terr" and r.get("reason") == "InvalidSyntax" and ignore_pos_for_syntax:
        r["line"] = None
        r["col"] = None
    if k == "rerr" and r.get("reason") == "TemplateError":
        a = r.get("args") or [{}]
        if a and isinstance(a[0], dict) and a[0].get("reason") == "InvalidSyntax":
            a = [dict(a[0], line=None, col=None)]
            r["args"] = a
    if k == "fail":
        return {"r": "fail"}
    return r


def _mask_debug(a, b):
    """an error argument that is Rust `{:?}` output of an AST node (the name of a tag that is a subexpression) is not
    reproduced by the model, which prints `<debug>` in its place: compare the rest"""
    if isinstance(a, dict) and isinstance(b, dict):
        if isinstance(b.get("args"), list) and isinstance(a.get("args"), list) and len(a["args"]) == len(b["args"]):
            a = dict(a, args=[("<debug>" if y == "<debug>" else x) for x, y in zip(a["args"], b["args"])])
        if a.get("r") == "session" and b.get("r") == "session":
            a = dict(a, results=[_mask_debug(x, y) for x, y in zip(a.get("results", []), b.get("results", []))]
                     + a.get("results", [])[len(b.get("results", [])):])
    return a


def diff_results(impl, model):
    a, b = norm_result(impl), norm_result(model)
    a = _mask_debug(a, b)
    if a == b:
        return None
    if a.get("r") == "session" and b.get("r") == "session":
        for i, (x, y) in enumerate(zip(a["results"], b["results"])):
            if x != y:
                return {"op": i, "impl": x, "model": y}
    return {"impl": a, "model": b}


# ------------------------------------------------------------------ evidence

def write_evidence(prop, ev):
    os.makedirs(EVID, exist_ok=True)
    path = os.path.join(EVID, "%s.json" % prop)
    with open(path, "w") as f:
        json.dump(ev, f, indent=1, ensure_ascii=True)
    return path
