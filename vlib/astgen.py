"""AST-directed template generator over known data (for the reference-oracle checks)."""
from .gen import F, IDENTS, gen_json, gen_scalar, is_ident
from .rng import Rng
from . import ref

SAFE_KEYS = ["a", "b", "c", "d", "x", "y", "k", "v", "name", "items", "n", "foo", "bar", "zz", "q1", "user-id", "a_b", "é"]
ODD = ["a b", "0", "1", "with.dot", "sl/ash", "@x", "", "42"]
TEXTS = ["", "x", " ", "<", "&amp;", "a=b", "'q'", "\"", "`", "é→", "t\n", ">\n<", "1", "\\", "{", "}", ",", "|"]


def gen_doc(rng: Rng, depth=3, floats=False):
    """a JSON document (dict) with nesting ≤ depth, identifier and odd keys, all scalar kinds"""
    def val(d):
        k = rng.weighted([("obj", 3 if d > 0 else 0), ("arr", 3 if d > 0 else 0), ("str", 4), ("int", 3), ("bool", 2), ("null", 1),
                          ("float", 1 if floats else 0)])
        if k == "obj":
            return {key(): val(d - 1) for _ in range(rng.range(0, 4))}
        if k == "arr":
            return [val(d - 1) for _ in range(rng.range(0, 4))]
        if k == "str":
            return rng.pick(TEXTS + ["abc", "hello world", "<b>bold</b>", "line1\nline2"])
        if k == "int":
            return rng.pick([0, 1, 2, 7, -1, -5, 42, 100, 2 ** 53 + 1, 2 ** 63, -(2 ** 63)])
        if k == "bool":
            return rng.chance(0.5)
        if k == "float":
            return F.of(rng.pick([1.5, -0.25, 0.0, 1e21, 0.1]))
        return None

    def key():
        return rng.pick(ODD) if rng.chance(0.12) else rng.pick(SAFE_KEYS)
    d = {key(): val(depth - 1) for _ in range(rng.range(2, 6))}
    # names that generated block parameters also use, so that shadowing and @root collisions occur
    for nm in rng.shuffle(["it", "k", "v", "x", "name", "w"])[:rng.range(0, 2)]:
        d[nm] = val(1)
    return d


class AG:
    def __init__(self, rng: Rng, root, partial_names=(), opt=None):
        self.rng = rng
        self.root = root
        self.partials = list(partial_names)
        self.opt = dict(missing=0.12, blocks=True, partials=True, chain=0.25, html=0.2, text=True,
                        bp=0.35, max_items=4, else_=0.5, lit=0.1, pblock=False, comments=0.05)
        if opt:
            self.opt.update(opt)
        self.stats = {}

    def count(self, k):
        self.stats[k] = self.stats.get(k, 0) + 1

    def segs_into(self, v, want=None, missing=False):
        rng = self.rng
        segs = []
        cur = v
        n = rng.range(0 if want else 1, 3)
        for _ in range(n):
            if isinstance(cur, dict) and cur:
                k = rng.pick(sorted(cur.keys()))
                segs.append(k)
                cur = cur[k]
            elif isinstance(cur, list) and cur:
                i = rng.below(len(cur))
                segs.append(str(i))
                cur = cur[i]
            else:
                break
        if want == "coll":
            while segs and not isinstance(ref.descend(v, segs), (list, dict)):
                segs = segs[:-1]
        if missing:
            segs = segs[:rng.range(0, len(segs))] + [rng.pick(["nope", "zz9", "99", "missing"])]
            # never a non-numeric segment on an array (outside the property's three "leaves the data" cases)
            base = ref.descend(v, segs[:-1]) if len(segs) > 1 else v
            if isinstance(base, list):
                segs[-1] = "99"
        return segs

    def arg(self, scopes, want=None):
        """ARG designating something in the scope stack"""
        rng = self.rng
        o = self.opt
        blocks = scopes
        choices = [("cur", 10), ("root", 2),
                   ("up", 4 if len(blocks) > 1 and blocks[0].kind != "partial" else 0),
                   ("param", 4 if any(s.params for s in scopes) else 0),
                   ("local", 3 if (want is None and any(s.locals for s in scopes)) else 0),
                   ("lit", 1 if o["lit"] and want is None else 0),
                   ("sub", 2 if o.get("sub") and want is None and not o.get("_insub", 0) >= 2 else 0)]
        for _ in range(6):
            c = rng.weighted(choices)
            self.count("arg." + c)
            missing = rng.chance(o["missing"]) and want is None
            if c == "cur":
                cur = scopes[0].ctx
                segs = self.segs_into(cur, want, missing)
                if segs and any(segs[0] in s.params for s in scopes):
                    continue
                if not segs and want is None and rng.chance(0.7):
                    continue
                return {"a": "path", "ups": 0, "root": False, "segs": segs, "this": rng.chance(0.15)}
            if c == "root":
                segs = self.segs_into(self.root, want, missing)
                # a root field that has the same name as a block parameter in scope: @root must still mean the data
                pnames = [n_ for s_ in scopes for n_ in s_.params if isinstance(self.root, dict) and n_ in self.root]
                if pnames and want is None and rng.chance(0.5):
                    segs = [rng.pick(pnames)]
                if not segs:
                    continue
                return {"a": "path", "ups": 0, "root": True, "segs": segs}
            if c == "up":
                maxk = 0
                for s in scopes:
                    if s.kind == "partial":
                        break
                    maxk += 1
                # scopes[maxk] is the first scope that cannot be left (partial or root)
                k = rng.range(1, max(1, min(maxk, len(scopes) - 1)))
                if k >= len(scopes) or any(s.kind == "partial" for s in scopes[:k]):
                    continue
                segs = self.segs_into(scopes[k].ctx, want, missing)
                if not segs:
                    continue
                if any(segs[0] in s.params for s in scopes):
                    continue
                return {"a": "path", "ups": k, "root": False, "segs": segs}
            if c == "param":
                cands = []
                seen = set()
                for s in scopes:
                    for n_, v in s.params.items():
                        if n_ not in seen:
                            seen.add(n_)
                            cands.append((n_, v))
                n_, v = rng.pick(cands)
                segs = self.segs_into(v, want, missing) if isinstance(v, (dict, list)) else []
                return {"a": "param", "name": n_, "segs": segs}
            if c == "local":
                lv = [(i, s) for i, s in enumerate(scopes) if s.locals]
                i, s = rng.pick(lv)
                if any(x.kind == "partial" for x in scopes[:i]):
                    continue
                # the level counts block scopes (each/with) from the innermost
                return {"a": "local", "ups": i, "name": rng.pick(sorted(s.locals.keys()))}
            if c == "lit":
                v = rng.pick([0, 1, "", "s", True, False, None, [1, 2], {"k": "v"}, []])
                return {"a": "lit", "v": v}
            if c == "sub":
                o["_insub"] = o.get("_insub", 0) + 1
                try:
                    h = rng.pick(["lookup", "eq", "ne", "not", "and", "or", "len"] + (["wr", "wr"] if o.get("wr") else []))
                    if h == "wr":
                        return {"a": "sub", "h": h, "args": [self.arg(scopes)]}
                    if h == "lookup":
                        base = self.arg(scopes, want="coll")
                        bv = self.value_of(base, scopes)
                        if isinstance(bv, dict) and bv:
                            key = {"a": "lit", "v": rng.pick(sorted(bv.keys()) + ["nope"])}
                        elif isinstance(bv, list):
                            key = {"a": "lit", "v": rng.range(0, len(bv))}
                        else:
                            key = {"a": "lit", "v": "k"}
                        return {"a": "sub", "h": h, "args": [base, key]}
                    if h in ("not", "len"):
                        return {"a": "sub", "h": h, "args": [self.arg(scopes)]}
                    n_ = 2 if h in ("eq", "ne") else rng.range(1, 3)
                    return {"a": "sub", "h": h, "args": [self.arg(scopes) for _ in range(n_)]}
                finally:
                    o["_insub"] -= 1
        return {"a": "path", "ups": 0, "root": False, "segs": [], "this": True}

    def nodes(self, scopes, depth):
        return [self.node(scopes, depth) for _ in range(self.rng.range(0, self.opt["max_items"]))]

    def else_(self, scopes, depth):
        if self.rng.chance(self.opt["else_"]):
            return self.nodes(scopes, depth - 1) + [{"t": "text", "s": "!"}]
        return None

    def node(self, scopes, depth):
        rng = self.rng
        o = self.opt
        kinds = [("text", 5 if o["text"] else 0), ("expr", 8), ("if", 3), ("with", 3), ("each", 4),
                 ("chain", 2 if o["chain"] else 0), ("partial", 3 if o["partials"] and self.partials else 0),
                 ("pblock", 2 if o["pblock"] else 0), ("comment", 1 if o["comments"] else 0)]
        if depth <= 0 or not o["blocks"]:
            kinds = [(k, w) for k, w in kinds if k in ("text", "expr", "comment", "pblock")]
        k = rng.weighted(kinds)
        self.count("node." + k)
        if k == "text":
            pool = ["a", "b", "-", ",", "|", "<", "xy", ";", "é", "&", "=", "'"]
            if o.get("ws"):
                pool += [" ", "\n", "x y", "\t", " \n", "\r\n"]
            return {"t": "text", "s": rng.pick(pool)}
        if k == "comment":
            return {"t": "comment", "s": rng.pick(["", "c", "x"])}
        if k == "expr":
            a = self.arg(scopes)
            while a["a"] == "lit" or (a["a"] == "sub" and a["h"] == "wr"):
                # a writing helper used as an expression writes its text itself (unescaped): only its use as a
                # SUBEXPRESSION is part of the reference's value semantics
                a = self.arg(scopes)
            if a["a"] == "sub":
                return {"t": "hexpr", "h": a["h"], "args": a["args"], "html": rng.chance(o["html"])}
            return {"t": "expr", "arg": a, "html": rng.pick([0, 0, 0, 1, 2, 3]) if rng.chance(o["html"]) else 0}
        if k == "pblock":
            n = {"t": "pblock"}
            if o.get("pblock_args") and rng.chance(0.4):
                # a use of the caller's block with a context argument and / or hash arguments, like any partial call
                a = self.arg(scopes)
                if a["a"] != "local" and rng.chance(0.75):
                    n["ctx"] = a
                if rng.chance(0.4):
                    n["hash"] = [(rng.pick(["x", "k", "a"]), self.arg(scopes))]
            return n
        if k == "if":
            return {"t": "if", "neg": rng.chance(0.35), "arg": self.arg(scopes), "body": self.nodes(scopes, depth - 1) + [{"t": "text", "s": "T"}],
                    "else": self.else_(scopes, depth), "incz": rng.chance(0.1)}
        if k == "with":
            a = self.arg(scopes)
            v = self.value_of(a, scopes)
            bp = rng.pick(["w", "it"]) if rng.chance(o["bp"]) else None
            sc = ref.Scope(v if v is not ref.MISSING else None, "with", params=({bp: v} if bp else {}))
            return {"t": "with", "arg": a, "body": self.nodes([sc] + scopes, depth - 1), "else": self.else_(scopes, depth), "bp": bp}
        if k == "each":
            a = self.arg(scopes, want="coll") if rng.chance(0.85) else self.arg(scopes)
            v = self.value_of(a, scopes)
            bps = []
            if rng.chance(o["bp"]):
                bps = rng.shuffle(["it", "k", "v", "x", "name"])[:rng.range(1, 2)]
            el, key, locs = None, 0, {"index": 0, "first": True, "last": True}
            if isinstance(v, list) and v:
                el = v[0]
            elif isinstance(v, dict) and v:
                kk = sorted(v.keys(), key=lambda s: s.encode("utf-8"))[0]
                el = v[kk]
                key = kk
                locs = dict(locs, key=kk)
            params = {}
            if bps:
                params[bps[0]] = el
                if len(bps) > 1:
                    params[bps[1]] = key
            sc = ref.Scope(el, "each", params, locs)
            return {"t": "each", "arg": a, "body": self.nodes([sc] + scopes, depth - 1) + [{"t": "text", "s": ";"}],
                    "else": self.else_(scopes, depth), "bp": bps}
        if k == "chain":
            links = []
            for i in range(rng.range(2, 4)):
                kind = rng.pick(["if", "if", "unless", "with", "each"])
                if kind in ("if", "unless"):
                    a = self.arg(scopes)
                    body = self.nodes(scopes, depth - 1) + [{"t": "text", "s": "L%d" % i}]
                else:
                    a = self.arg(scopes, want="coll") if kind == "each" else self.arg(scopes)
                    v = self.value_of(a, scopes)
                    el = v
                    locs = {}
                    if kind == "each":
                        el = (v[0] if isinstance(v, list) and v else (v[sorted(v.keys(), key=lambda s: s.encode("utf-8"))[0]] if isinstance(v, dict) and v else None))
                        locs = {"index": 0, "first": True, "last": True}
                        if isinstance(v, dict) and v:
                            locs["key"] = sorted(v.keys(), key=lambda s: s.encode("utf-8"))[0]
                    sc = ref.Scope(el if el is not ref.MISSING else None, kind, {}, locs)
                    body = self.nodes([sc] + scopes, depth - 1) + [{"t": "text", "s": "L%d" % i}]
                links.append((kind, a, body, None))
            return {"t": "chain", "links": links, "else": self.else_(scopes, depth)}
        if k == "partial":
            name = rng.pick(self.partials)
            ctx = self.arg(scopes) if rng.chance(0.4) else None
            if ctx is not None and ctx["a"] == "local":
                ctx = None
            hash_ = []
            if rng.chance(0.4):
                for kk in rng.shuffle(["x", "y", "k", "hv"])[:rng.range(1, 2)]:
                    hash_.append((kk, self.arg(scopes)))
            return {"t": "partial", "name": name, "ctx": ctx, "hash": hash_, "block": None}
        return {"t": "text", "s": "?"}

    def value_of(self, arg, scopes):
        try:
            return ref.eval_arg(arg, scopes, ref.Env(self.root, {}))
        except (ref.Undefined, ref.SpecError):
            return None


def has_float(v):
    if isinstance(v, F):
        return True
    if isinstance(v, list):
        return any(has_float(x) for x in v)
    if isinstance(v, dict):
        return any(has_float(x) for x in v.values())
    return False
