"""Reference semantics (the reading of the properties, executable): templates as ASTs built by the
generator, rendered over a stack of scope VALUES.  Also the printer AST -> template source with
randomised spellings.  Used as the oracle for the real crate's output (C01, C06, C07, C09, C10, ...).

AST nodes (dicts):
  {"t":"text","s":str}
  {"t":"expr","arg":ARG,"html":0|1|2|3}          0 {{x}}  1 {{{x}}}  2 {{ {x} }} -> '{{{x}}}' form 2 '{{{'..  3 {{&x}}
  {"t":"if","neg":bool,"arg":ARG,"body":[..],"else":[..]|None,"incz":bool}
  {"t":"with","arg":ARG,"body":[..],"else":[..]|None,"bp":name|None}
  {"t":"each","arg":ARG,"body":[..],"else":[..]|None,"bp":[names]}
  {"t":"partial","name":str,"ctx":ARG|None,"hash":[(k,ARG)],"block":[..]|None}
  {"t":"pblock"}                                   {{> @partial-block}}
  {"t":"comment","s":str}
  {"t":"chain", "links":[(kind, ARG, body, extra)], "else":[..]|None}   if/unless/with/each else-chains
ARG:
  {"a":"path","ups":k,"root":bool,"segs":[str],"this":bool}
  {"a":"param","name":str,"segs":[str]}
  {"a":"local","ups":k,"name":"index|key|first|last"}
  {"a":"lit","v":value}
"""
from .gen import F, is_ident, lit as lit_text, str_lit
from .rng import Rng

MISSING = object()


class SpecError(Exception):
    """the reference says the render must fail with one of these reasons"""

    def __init__(self, kinds, detail=None):
        self.kinds = kinds
        self.detail = detail


class Undefined(Exception):
    """the property leaves the outcome open here (oracle answers ANY)"""


def render_value(v):
    if v is MISSING or v is None:
        return ""
    if v is True:
        return "true"
    if v is False:
        return "false"
    if isinstance(v, str):
        return v
    if isinstance(v, int):
        return str(v)
    if isinstance(v, F):
        raise Undefined("float text")
    if isinstance(v, list):
        return "[" + ", ".join(render_value(x) for x in v) + "]"
    if isinstance(v, dict):
        return "[object]"
    raise Undefined()


def html_escape(s):
    out = []
    m = {"<": "&lt;", ">": "&gt;", '"': "&quot;", "&": "&amp;", "'": "&#x27;", "`": "&#x60;", "=": "&#x3D;"}
    for ch in s:
        out.append(m.get(ch, ch))
    return "".join(out)


def truthy(v, include_zero=False):
    if v is MISSING or v is None or v is False:
        return False
    if v is True:
        return True
    if isinstance(v, int):
        return True if include_zero else v != 0
    if isinstance(v, F):
        x = v.value()
        if include_zero:
            return True
        return x != 0.0
    if isinstance(v, (str, list, dict)):
        return len(v) > 0
    return True


def step(v, k):
    if isinstance(v, dict):
        return v[k] if k in v else MISSING
    if isinstance(v, list):
        kk = k[1:] if k[:1] == "+" else k
        if kk.isdigit() and kk.isascii():
            i = int(kk)
            return v[i] if i < len(v) else MISSING
        raise Undefined("non-numeric segment on array")
    return MISSING


def descend(v, segs):
    cur = v
    for k in segs:
        if cur is MISSING:
            return MISSING
        cur = step(cur, k)
    return cur


class Scope:
    def __init__(self, ctx, kind, params=None, locals_=None):
        self.ctx = ctx
        self.kind = kind            # root | each | with | partial
        self.params = params or {}
        self.locals = locals_ or {}


class Env:
    def __init__(self, root, partials, escape=html_escape, strict=False, pblock=None):
        self.root = root
        self.partials = partials     # name -> AST list
        self.escape = escape
        self.strict = strict
        self.inlines = {}            # name -> AST list, bound by {{#*inline}} from its definition onward


def json_eq(a, b):
    if isinstance(a, bool) or isinstance(b, bool) or a is None or b is None:
        return a is b
    if type(a) != type(b):
        return False
    if isinstance(a, list):
        return len(a) == len(b) and all(json_eq(x, y) for x, y in zip(a, b))
    if isinstance(a, dict):
        return a.keys() == b.keys() and all(json_eq(a[k], b[k]) for k in a)
    return a == b


def call_value_helper(h, vals, strict=False):
    """value-returning built-ins usable in subexpressions"""
    if strict and h in ("eq", "ne", "not", "len", "gt", "gte", "lt", "lte") and any(v is MISSING for v in vals):
        # helpers defined with handlebars_helper! reject a missing parameter in strict mode
        raise SpecError(["ParamNotFoundForName"])
    vs = [None if v is MISSING else v for v in vals]
    if h == "lookup":
        c, k = vs[0], vs[1]
        r = MISSING
        if isinstance(c, dict) and isinstance(k, str):
            r = c[k] if k in c else MISSING
        elif isinstance(c, list) and isinstance(k, int) and not isinstance(k, bool) and k >= 0:
            r = c[k] if k < len(c) else MISSING
        if r is MISSING:
            if strict:
                raise SpecError(["MissingVariable"])
            return None
        return r
    if h == "wr":
        # harness helper that WRITES the text of its argument: as a subexpression its captured output is the value
        return render_value(vs[0]) if vs else ""
    if h == "eq":
        return json_eq(vs[0], vs[1])
    if h == "ne":
        return not json_eq(vs[0], vs[1])
    if h == "not":
        return not truthy(vs[0])
    if h == "and":
        return all(truthy(v) for v in vs)
    if h == "or":
        return any(truthy(v) for v in vs)
    if h == "len":
        v = vs[0]
        if isinstance(v, (list, dict)):
            return len(v)
        if isinstance(v, str):
            return len(v.encode("utf-8"))
        return 0
    raise Undefined("helper " + h)


def eval_arg(arg, scopes, env):
    a = arg["a"]
    if a == "lit":
        return arg["v"]
    if a == "sub":
        return call_value_helper(arg["h"], [eval_arg(x, scopes, env) for x in arg["args"]], env.strict)
    if a == "local":
        k = arg["ups"]
        if k >= len(scopes):
            return MISSING
        return scopes[k].locals.get(arg["name"], MISSING)
    if a == "param":
        if arg.get("ups"):
            # '../' in front of a block parameter name: whether the prefix or the shadowing wins is not stated
            raise Undefined("../ before a block param")
        for s in scopes:
            if arg["name"] in s.params:
                return descend(s.params[arg["name"]], arg["segs"])
        raise Undefined("unbound block param")
    if arg.get("root"):
        return descend(env.root, arg["segs"])
    k = arg.get("ups", 0)
    if k >= len(scopes):
        raise Undefined("../ beyond the outermost scope")
    # '../' may not cross a partial boundary
    for s in scopes[:k]:
        if s.kind == "partial":
            raise Undefined("../ across a partial")
    # a first segment naming a block parameter is shadowed
    if arg["segs"] and any(arg["segs"][0] in s.params for s in scopes):
        raise Undefined("shadowed by block param")
    return descend(scopes[k].ctx, arg["segs"])


def arg_text(arg):
    """raw spelling is decided by the printer; for MissingVariable payloads we do not compare text"""
    return None


def render(nodes, scopes, env, pbstack=()):
    out = []
    for n in nodes:
        out.append(render_node(n, scopes, env, pbstack))
    return "".join(out)


def designated_context(n, scopes, env):
    """the context a partial call (or a use of @partial-block) designates: the context argument if there is one, else the current
    context; with hash arguments, an object holding its fields / elements / characters plus the hash entries"""
    if n.get("ctx") is not None:
        base = eval_arg(n["ctx"], scopes, env)
    else:
        base = scopes[0].ctx
    if base is MISSING:
        base = None
    hv = [(k, eval_arg(a, scopes, env)) for k, a in n.get("hash", [])]
    if hv:
        if isinstance(base, dict):
            m = dict(base)
        elif isinstance(base, list):
            m = {str(i): x for i, x in enumerate(base)}
        elif isinstance(base, str):
            m = {str(i): ch for i, ch in enumerate(base)}
        else:
            m = {}
        for k, v in hv:
            m[k] = None if v is MISSING else v
        base = m
    return base


def render_node(n, scopes, env, pbstack):
    t = n["t"]
    if t == "text":
        return n["s"]
    if t == "comment":
        return ""
    if t == "expr":
        v = eval_arg(n["arg"], scopes, env)
        if v is MISSING:
            if env.strict:
                raise SpecError(["MissingVariable"])
            return ""
        s = render_value(v)
        return s if n.get("html") else env.escape(s)
    if t == "hexpr":
        v = call_value_helper(n["h"], [eval_arg(x, scopes, env) for x in n["args"]], env.strict)
        s = render_value(v)
        return s if n.get("html") else env.escape(s)
    if t == "if":
        v = eval_arg(n["arg"], scopes, env)
        c = truthy(v, n.get("incz", False))
        if n.get("neg"):
            c = not c
        if c:
            return render(n["body"], scopes, env, pbstack)
        if n.get("else") is not None:
            return render(n["else"], scopes, env, pbstack)
        return ""
    if t == "with":
        v = eval_arg(n["arg"], scopes, env)
        if truthy(v, False):
            sc = Scope(v, "with", params=({n["bp"]: v} if n.get("bp") else {}))
            return render(n["body"], [sc] + scopes, env, pbstack)
        if n.get("else") is not None:
            return render(n["else"], scopes, env, pbstack)
        if env.strict:
            raise SpecError(["MissingVariable"])
        return ""
    if t == "each":
        v = eval_arg(n["arg"], scopes, env)
        items = None
        if isinstance(v, list) and v:
            items = [(i, None, x) for i, x in enumerate(v)]
        elif isinstance(v, dict) and v:
            items = [(i, k, v[k]) for i, k in enumerate(sorted(v.keys(), key=lambda s: s.encode("utf-8")))]
        if items is not None:
            out = []
            bps = n.get("bp") or []
            for i, k, x in items:
                loc = {"index": i, "first": i == 0, "last": i == len(items) - 1}
                if k is not None:
                    loc["key"] = k
                params = {}
                if len(bps) >= 1:
                    params[bps[0]] = x
                if len(bps) >= 2:
                    params[bps[1]] = k if k is not None else i
                out.append(render(n["body"], [Scope(x, "each", params, loc)] + scopes, env, pbstack))
            return "".join(out)
        if n.get("else") is not None:
            return render(n["else"], scopes, env, pbstack)
        if isinstance(v, (list, dict)):
            return ""          # empty collection, no else: nothing in both modes
        if env.strict:
            raise SpecError(["MissingVariable"])
        return ""
    if t == "chain":
        for kind, arg, body, extra in n["links"]:
            v = eval_arg(arg, scopes, env)
            if kind in ("if", "unless"):
                c = truthy(v, False)
                if kind == "unless":
                    c = not c
                if c:
                    return render(body, scopes, env, pbstack)
            elif kind == "with":
                if truthy(v, False):
                    return render(body, [Scope(v, "with", params=({extra: v} if isinstance(extra, str) else {}))] + scopes, env, pbstack)
            elif kind == "each":
                # `extra` carries the block parameters of a link opened with `as |a b|`
                node = {"t": "each", "arg": arg, "body": body, "else": None, "bp": list(extra) if isinstance(extra, (list, tuple)) else []}
                if (isinstance(v, list) or isinstance(v, dict)) and v:
                    return render_node(node, scopes, env, pbstack)
        if n.get("else") is not None:
            return render(n["else"], scopes, env, pbstack)
        # no final else: the LAST link is a helper without an else branch (every earlier link has the next link as its
        # else branch) – `with` on a falsy value and `each` on a value that is not a collection fail in strict mode
        if env.strict and n["links"]:
            kind, arg, body, extra = n["links"][-1]
            v = eval_arg(arg, scopes, env)
            if kind == "with" or (kind == "each" and not isinstance(v, (list, dict))):
                raise SpecError(["MissingVariable"])
        return ""
    if t == "inline":
        # takes effect from its definition onward, for the rest of the render; a later definition of the name replaces it
        env.inlines[n["name"]] = n["body"]
        return ""
    if t == "partial":
        name = n["name"]
        body = env.inlines[name] if name in env.inlines else env.partials.get(name)
        exists = body is not None
        if body is None:
            if n.get("block") is not None:
                body = n["block"]
            else:
                raise SpecError(["PartialNotFound"])
        base = designated_context(n, scopes, env)
        new_pb = pbstack
        if n.get("block") is not None and exists:
            new_pb = ((n["block"], scopes),) + tuple(pbstack)
        elif n.get("block") is not None:
            # the default body of a missing partial: what @partial-block denotes INSIDE it is not stated by the property
            new_pb = (None,) + tuple(pbstack)
        return render(body, [Scope(base, "partial")], env, new_pb)
    if t == "pblock":
        if not pbstack:
            raise SpecError(["PartialNotFound"])
        if pbstack[0] is None:
            raise Undefined("@partial-block inside a fallback body")
        (body, def_scopes) = pbstack[0]
        # the block body is rendered like a partial on the context current where it is used
        # – or on the context / hash arguments written at the use, exactly as for a named partial
        return render(body, [Scope(designated_context(n, scopes, env), "partial")], env, pbstack[1:])
    raise Undefined(t)


# ---------------------------------------------------------------------------- printer

def spell_seg(rng, k):
    if is_ident(k) and not rng.chance(0.12):
        return k
    if "]" in k:
        return None
    return "[" + k + "]"


def print_arg(rng, arg, in_param=False):
    a = arg["a"]
    if a == "lit":
        return lit_text(rng, arg["v"])
    if a == "sub":
        parts = [print_arg(rng, x, True) for x in arg["args"]]
        if any(p is None for p in parts):
            return None
        return "(" + arg["h"] + " " + " ".join(parts) + ")"
    if a == "local":
        return "@" + "../" * arg["ups"] + arg["name"]
    if a == "param":
        parts = [arg["name"]] + [spell_seg(rng, s) for s in arg["segs"]]
        if any(p is None for p in parts):
            return None
        return "../" * arg.get("ups", 0) + parts[0] + "".join(rng.pick([".", "/"]) + p for p in parts[1:])
    parts = [spell_seg(rng, s) for s in arg["segs"]]
    if any(p is None for p in parts):
        return None
    out = ""
    if arg.get("root"):
        out = "@root" + rng.pick([".", "/"])
        if not parts:
            return None
    ups = arg.get("ups", 0)
    out += "../" * ups
    if not parts:
        if ups:
            return out + "this"               # the enclosing context itself: {{../this}}
        return "this"
    if ups and rng.chance(0.25):
        out += rng.pick(["this.", "this/"])   # {{../this.name}}: `this` after '../' is still the (enclosing) context
    if ups == 0 and not arg.get("root"):
        if arg.get("this") or parts[0][0].isdigit() or parts[0][0] == "-" or parts[0] in ("true", "false", "null") \
                or (in_param and parts[0][0] == "["):
            out += rng.pick(["this.", "this/", "./"])
    first = parts[0]
    out += first
    for p in parts[1:]:
        out += rng.pick([".", "/"]) + p
    return out


def print_nodes(rng, nodes):
    parts = []
    for n in nodes:
        p = print_node(rng, n)
        if p is None:
            return None
        parts.append(p)
    return "".join(parts)


def print_else(rng, els):
    if els is None:
        return ""
    b = print_nodes(rng, els)
    if b is None:
        return None
    return rng.pick(["{{else}}", "{{^}}", "{{ else }}"]) + b


def print_node(rng, n):
    t = n["t"]
    sp = lambda: rng.pick(["", "", " "])
    if t == "text":
        return n["s"].replace("{{", "\\{{")
    if t == "comment":
        return "{{!--" + n["s"] + "--}}" if rng.chance(0.5) else "{{!" + n["s"] + "}}"
    if t == "expr":
        a = print_arg(rng, n["arg"])
        if a is None:
            return None
        h = n.get("html", 0)
        if h == 0:
            return "{{" + sp() + a + sp() + "}}"
        if h == 1:
            return "{{{" + a + "}}}"
        if h == 2:
            return "{{ {" + a + "} }}" if False else "{{{" + sp() + a + sp() + "}}}"
        return "{{&" + sp() + a + "}}"
    if t == "hexpr":
        parts = [print_arg(rng, x, True) for x in n["args"]]
        if any(p is None for p in parts):
            return None
        inner = n["h"] + " " + " ".join(parts)
        return ("{{{" + inner + "}}}") if n.get("html") else ("{{" + inner + "}}")
    if t == "if":
        a = print_arg(rng, n["arg"], True)
        b = print_nodes(rng, n["body"])
        e = print_else(rng, n.get("else"))
        if a is None or b is None or e is None:
            return None
        h = "unless" if n.get("neg") else "if"
        incz = " includeZero=true" if n.get("incz") else ""
        return "{{#" + h + " " + a + incz + "}}" + b + e + "{{/" + h + "}}"
    if t == "with":
        a = print_arg(rng, n["arg"], True)
        b = print_nodes(rng, n["body"])
        e = print_else(rng, n.get("else"))
        if a is None or b is None or e is None:
            return None
        bp = (" as |" + n["bp"] + "|") if n.get("bp") else ""
        return "{{#with " + a + bp + "}}" + b + e + "{{/with}}"
    if t == "each":
        a = print_arg(rng, n["arg"], True)
        b = print_nodes(rng, n["body"])
        e = print_else(rng, n.get("else"))
        if a is None or b is None or e is None:
            return None
        bp = (" as |" + " ".join(n["bp"]) + "|") if n.get("bp") else ""
        return "{{#each " + a + bp + "}}" + b + e + "{{/each}}"
    if t == "chain":
        links = n["links"]
        out = ""
        first = links[0][0]
        for i, (kind, arg, body, extra) in enumerate(links):
            a = print_arg(rng, arg, True)
            b = print_nodes(rng, body)
            if a is None or b is None:
                return None
            bp = ""
            if kind == "each" and isinstance(extra, (list, tuple)) and extra:
                bp = " as |" + " ".join(extra) + "|"
            elif kind == "with" and isinstance(extra, str):
                bp = " as |" + extra + "|"
            if i == 0:
                out += "{{#" + kind + " " + a + bp + "}}" + b
            else:
                out += "{{else " + kind + " " + a + bp + "}}" + b
        e = print_else(rng, n.get("else"))
        if e is None:
            return None
        return out + e + "{{/" + first + "}}"
    if t == "partial":
        args = ""
        if n.get("ctx") is not None:
            a = print_arg(rng, n["ctx"], True)
            if a is None:
                return None
            args += " " + a
        for k, harg in n.get("hash", []):
            a = print_arg(rng, harg, True)
            if a is None:
                return None
            args += " " + k + "=" + a
        if n.get("block") is not None:
            b = print_nodes(rng, n["block"])
            if b is None:
                return None
            return "{{#> " + n["name"] + args + "}}" + b + "{{/" + n["name"] + "}}"
        return "{{> " + n["name"] + args + "}}"
    if t == "pblock":
        args = ""
        if n.get("ctx") is not None:
            a = print_arg(rng, n["ctx"], True)
            if a is None:
                return None
            args += " " + a
        for k, harg in n.get("hash", []):
            a = print_arg(rng, harg, True)
            if a is None:
                return None
            args += " " + k + "=" + a
        return "{{> @partial-block" + args + "}}"
    if t == "inline":
        b = print_nodes(rng, n["body"])
        if b is None:
            return None
        return "{{#*inline \"" + n["name"] + "\"}}" + b + "{{/inline}}"
    return None
