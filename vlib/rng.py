"""SplitMix64: every random choice of a run derives from one seed, so a case replays exactly."""
M = (1 << 64) - 1


class Rng:
    def __init__(self, seed):
        self.s = seed & M

    def next(self):
        self.s = (self.s + 0x9E3779B97F4A7C15) & M
        z = self.s
        z = ((z ^ (z >> 30)) * 0xBF58476D1CE4E5B9) & M
        z = ((z ^ (z >> 27)) * 0x94D049BB133111EB) & M
        return z ^ (z >> 31)

    def below(self, n):
        return self.next() % n if n > 0 else 0

    def range(self, a, b):
        """inclusive"""
        return a + self.below(b - a + 1)

    def chance(self, p):
        return (self.next() >> 11) / float(1 << 53) < p

    def pick(self, xs):
        return xs[self.below(len(xs))]

    def weighted(self, pairs):
        tot = sum(w for _, w in pairs)
        r = self.below(tot)
        for x, w in pairs:
            if r < w:
                return x
            r -= w
        return pairs[-1][0]

    def shuffle(self, xs):
        xs = list(xs)
        for i in range(len(xs) - 1, 0, -1):
            j = self.below(i + 1)
            xs[i], xs[j] = xs[j], xs[i]
        return xs

    def fork(self, tag):
        h = 1469598103934665603
        for ch in str(tag).encode():
            h = ((h ^ ch) * 1099511628211) & M
        return Rng(self.next() ^ h)
