"""C20 Macro-defined helpers enforce their declared signature."""
import itertools
import json
from ..gen import enc, session, F
from ..macro_sigs import SIGS, sig_json
from ..rng import Rng
from .common import last

ID = "C20"
BUDGET = {"quick": 300, "thorough": 20000}
EXHAUSTIVE = True
RULE = ("a family of 21 helpers defined IN THE HARNESS with the current handlebars_helper! (so the macro is expanded from "
        "/repo's source): every type token (str, i64, u64, f64, bool, array, object, null, Json, String, Vec<u64>, u32, i32) at arity "
        "0..3 with 0..2 options, *args, **kwargs; EXHAUSTIVE: every helper x every combination of argument kinds from a pool "
        "with each JSON type, a missing path, an omitted argument and results of subexpressions (null, number) (positional and option), x strict / non-strict; used as "
        "subexpression (typed result observed through a probe) and as expression (written, escaped); oracle = the declared "
        "signature evaluated by the generator; non-trivial = every case; distinct by (helper, arguments, mode)")
DEFINITE_FLOOR = 0.95
POOL = [("str", "\"s<\"", "s<"), ("int", "7", 7), ("neg", "-3", -3), ("big", "18446744073709551615", 2 ** 64 - 1), ("float", "1.5", F.of(1.5)),
        ("bool", "true", True), ("null", "null", None), ("arr", "[1, 2]", [1, 2]), ("sarr", "[\"a<\", \"&b\"]", ["a<", "&b"]), ("obj", "{\"k\": \"<v>\"}", {"k": "<v>"}),
        ("path", "dv", "data"), ("missing", "nope", "MISSING"), ("omit", None, "OMIT"),
        # an @-variable that is not set where the tag stands is a MISSING argument like an absent field
        ("atmissing", "@nope", "MISSING"), ("idxmissing", "@index", "MISSING"), ("upmissing", "@../key", "MISSING"),
        # integers at the ends of the 32-bit ranges (for the serde integer types u32 / i32; in range for i64 / u64)
        ("u32max", "4294967295", 2 ** 32 - 1), ("u32over", "4294967376", 2 ** 32 + 80), ("i32max", "2147483647", 2 ** 31 - 1),
        ("i32over", "2147483648", 2 ** 31), ("i32min", "-2147483648", -(2 ** 31)), ("i32under", "-2147483649", -(2 ** 31) - 1),
        # arguments that are RESULTS OF SUBEXPRESSIONS: a helper that returns null / a number hands over a typed value, not an absent one
        ("subnull", "(m_ident null)", None), ("subint", "(m_ident 7)", 7)]
SHORT = [p for p in POOL if p[0] in ("str", "int", "bool", "missing", "omit", "arr", "subnull", "idxmissing")]


def conv(t, v):
    """(ok, converted) for the declared type"""
    if t == "str" or t == "String":
        return (True, v) if isinstance(v, str) else (False, None)
    if t == "i64":
        return (True, v) if isinstance(v, int) and not isinstance(v, bool) and -(2 ** 63) <= v < 2 ** 63 else (False, None)
    if t == "u64":
        return (True, v) if isinstance(v, int) and not isinstance(v, bool) and 0 <= v < 2 ** 64 else (False, None)
    if t == "f64":
        if isinstance(v, F):
            return True, v
        if isinstance(v, int) and not isinstance(v, bool):
            return True, F.of(float(v))
        return False, None
    if t == "bool":
        return (True, v) if isinstance(v, bool) else (False, None)
    if t == "array":
        return (True, v) if isinstance(v, list) else (False, None)
    if t == "object":
        return (True, v) if isinstance(v, dict) else (False, None)
    if t == "null":
        return (True, None) if v is None else (False, None)
    if t == "Json":
        return True, v
    if t == "u32":
        return (True, v) if isinstance(v, int) and not isinstance(v, bool) and 0 <= v < 2 ** 32 else (False, None)
    if t == "i32":
        return (True, v) if isinstance(v, int) and not isinstance(v, bool) and -(2 ** 31) <= v < 2 ** 31 else (False, None)
    if t == "Vec<u64>":
        ok = isinstance(v, list) and all(isinstance(x, int) and not isinstance(x, bool) and 0 <= x < 2 ** 64 for x in v)
        return (True, v) if ok else (False, None)
    raise KeyError(t)


def expected(sig, pos, hashes, strict):
    name, ps, os_, has_args, has_kwargs, rf = sig
    vals = []
    for i, (pn, t) in enumerate(ps):
        if i >= len(pos):
            return ("err", "ParamNotFoundForName", [name, pn])
        v = pos[i]
        if v == "MISSING":
            if strict:
                return ("err", "ParamNotFoundForName", [name, pn])
            v = None
        ok, c = conv(t, v)
        if not ok:
            return ("err", "ParamTypeMismatchForName", [name, pn])
        vals.append(c)
    opts = {}
    for on, t, d in os_:
        if on in hashes:
            v = hashes[on]
            if v == "MISSING":
                v = None
            ok, c = conv(t, v)
            if not ok:
                return ("err", "HashTypeMismatchForName", [name, on])
            opts[on] = c
        else:
            opts[on] = F.of(d) if isinstance(d, float) else d
    if rf:
        return ("ok", vals[0])
    res = {"p": vals, "o": opts}
    if has_args:
        res["a"] = [None if v == "MISSING" else v for v in pos]
    if has_kwargs:
        res["k"] = {k: (None if v == "MISSING" else v) for k, v in hashes.items()}
    return ("ok", res)


def text_of(v):
    """JsonRender::render of a helper result (the pool's only float is 1.5)"""
    if v is None:
        return ""
    if isinstance(v, bool):
        return "true" if v else "false"
    if isinstance(v, str):
        return v
    if isinstance(v, F):
        return repr(v.value())
    if isinstance(v, int):
        return str(v)
    if isinstance(v, list):
        return "[" + ", ".join(text_of(x) for x in v) + "]"
    return "[object]"


def plain(v):
    if isinstance(v, F):
        return v.value()
    if isinstance(v, list):
        return [plain(x) for x in v]
    if isinstance(v, dict):
        return {k: plain(x) for k, x in v.items()}
    return v


def generate(rng, n, tier="quick"):
    out = []
    k = 0
    for sig in SIGS:
        name, ps, os_, has_args, has_kwargs, rf = sig
        npos = len(ps)
        pools = []
        for i in range(max(npos, 1) if (npos or has_args) else 0):
            pools.append(POOL if (npos <= 1 and not os_) else SHORT)
        if has_args and npos == 0:
            pools = [SHORT, SHORT]
        optpools = []
        for on, t, d in os_:
            optpools.append([("omit", None, "OMIT")] + [p for p in (POOL if len(os_) == 1 and npos <= 1 else SHORT) if p[0] != "omit"])
        if has_kwargs and not os_:
            optpools = [[("omit", None, "OMIT"), ("int", "7", 7), ("str", "\"s<\"", "s<")]]
        for combo in itertools.product(*pools) if pools else [()]:
            for ocombo in itertools.product(*optpools) if optpools else [()]:
                for strict in (False, True):
                    # positional: an omitted argument ends the list
                    pos_src, pos_val = [], []
                    for kind, src, val in combo:
                        if kind == "omit":
                            break
                        pos_src.append(src)
                        pos_val.append("data" if kind == "path" else val)
                    hash_src, hash_val = [], {}
                    names = [o[0] for o in os_] if os_ else ["kw"]
                    for on, (kind, src, val) in zip(names, ocombo):
                        if kind == "omit":
                            continue
                        hash_src.append("%s=%s" % (on, src))
                        hash_val[on] = "data" if kind == "path" else val
                    call = " ".join([name] + pos_src + hash_src)
                    exp = expected(sig, pos_val, hash_val, strict)
                    form = "sub" if not rf else "expr"
                    tpl = "{{{pr (%s)}}}" % call if form == "sub" else "{{%s}}" % call
                    if form == "sub" and not pos_src and not hash_src:
                        # a bare `(name)` is a path subexpression: the call form needs an argument
                        tpl = "{{{pr (%s)}}}" % name
                    # (the escape function of the registry is the default one or a user function that changes EVERY text: what an
                    # expression writes is the function's image of the result's text, whatever characters that text is made of)
                    escn = "mark" if k % 3 == 1 else "html"
                    cfg = {"escape": escn, "strict": strict,
                           "helpers": [{"name": "pr", "kind": "probe"}, {"name": name, "kind": "macro", "sig": sig_json(name)}]
                                      + ([{"name": "m_ident", "kind": "macro", "sig": sig_json("m_ident")}] if name != "m_ident" else [])}
                    case = session(cfg, [], {"api": "render_template", "src": tpl}, {"dv": "data"})
                    case["id"] = "%s-%05d" % (ID, k)
                    k += 1
                    out.append((case, {"expect": [exp[0], exp[1] if exp[0] == "err" else enc(exp[1]), exp[2] if exp[0] == "err" else None],
                                       "plain": None if exp[0] == "err" else plain(exp[1]), "text": None if exp[0] == "err" else text_of(exp[1]), "form": form, "tpl": tpl, "strict": strict, "esc": escn}))
    # directed: the result of a macro-defined helper is written like any value – escaped in {{ }}, as it is in {{{ }}} / {{& }} –
    # also when an argument comes from a subexpression calling a WRITING helper (whose output is captured), a value helper
    # or another macro helper
    cfg = {"escape": "html", "helpers": [{"name": "m_ident", "kind": "macro", "sig": sig_json("m_ident")}, {"name": "wr", "kind": "wr"}, {"name": "vr", "kind": "vret"}]}
    for j, (tpl, exp) in enumerate([
            ("{{{m_ident (wr \"<b>\")}}}", "<b>"), ("{{m_ident (wr \"<b>\")}}", "&lt;b&gt;"),
            ("{{{m_ident (wr s)}}}|{{m_ident s}}", "<i>&|&lt;i&gt;&amp;"), ("{{{m_ident (vr s)}}}", "<i>&"), ("{{{m_ident (m_ident s)}}}", "<i>&"),
            ("{{{m_ident (wr (wr s))}}}", "<i>&"), ("{{{m_ident (lookup this \"s\")}}}|{{{s}}}|{{s}}", "<i>&|<i>&|&lt;i&gt;&amp;"),
            ("{{#each xs}}{{{m_ident (wr this)}}}{{m_ident this}}{{/each}}", "<&lt;>&gt;")]):
        case = session(cfg, [], {"api": "render_template", "src": tpl}, {"s": "<i>&", "xs": ["<", ">"]})
        case["id"] = "%s-w%02d" % (ID, j)
        out.append((case, {"expect": ["text", exp, None], "plain": None, "text": exp, "form": "text", "tpl": tpl, "strict": False}))
    # directed: a missing argument is a missing argument also after a decorator replaced the render context (strict mode:
    # ParamNotFoundForName; non-strict: the declared type decides), and a present one is converted as before
    cfgd = lambda strict: {"escape": "html", "strict": strict, "decorators": [{"name": "setctx", "kind": "setctx"}],
                           "helpers": [{"name": "pr", "kind": "probe"}] + [{"name": nm_, "kind": "macro", "sig": sig_json(nm_)} for nm_ in ("m_str", "m_i64", "m_ident")]}
    jd = 0
    for strict in (False, True):
        for pre in ("{{*setctx this}}", "{{*setctx o}}", "{{#with o}}{{*setctx this}}", ""):
            for call, sname in (("m_str nothing", "m_str"), ("m_i64 nothing", "m_i64"), ("m_ident nothing", "m_ident"), ("m_str s", "m_str")):
                post = "{{/with}}" if pre.startswith("{{#with") else ""
                tpl = pre + "[{{" + call + "}}]" + post
                case = session(cfgd(strict), [], {"api": "render_template", "src": tpl}, {"s": "S", "o": {"s": "T"}})
                case["id"] = "%s-setctx%02d" % (ID, jd)
                jd += 1
                if call.endswith(" s"):
                    exp = ["any", "", None]
                elif strict:
                    exp = ["err", "ParamNotFoundForName", [sname, "x"]]
                else:
                    exp = ["any", "", None]
                out.append((case, {"expect": exp, "plain": None, "text": None, "form": "setctx", "tpl": tpl, "strict": strict}))
    # the families of the Lean theorems C20.macro_helper_converts_and_writes / macro_helper_rejects_wrong_type_at_the_tag:
    # L ++ {{name 1}} ++ R with `name` (any identifier) registered for the family's |x: Json| x  →  L ++ escape("1") ++ R (exact);
    # registered for the family's |x: str| …  →  ParamTypeMismatchForName(m_str, x, str) at the tag, after exactly L was written
    from .C03 import thm_left, thm_right
    from .C02 import ident_name
    from .C18 import line_col
    from .common import escape_of
    tr = rng.fork("thm")
    for j in range(60 if tier == "quick" else 1500):
        r = tr.fork(j)
        L, R = thm_left(r), thm_right(r)
        nm = ident_name(r)
        escn = r.pick(["none", "mark", "html"])
        src = L + "{{" + nm + " 1}}" + R
        if j % 2 == 0:
            case = session({"escape": escn, "strict": r.chance(0.5), "helpers": [{"name": nm, "kind": "macro", "sig": sig_json("m_ident")}]},
                           [], {"api": "render_template", "src": src}, {})
            case["id"] = "%s-thm%04d" % (ID, j)
            exp = L + escape_of(escn)("1") + R
            out.append((case, {"expect": ["text", exp, None], "plain": None, "text": exp, "form": "text", "tpl": src, "strict": False}))
        else:
            line, col = line_col(src, len(L))
            case = session({"escape": escn, "strict": r.chance(0.5), "helpers": [{"name": nm, "kind": "macro", "sig": sig_json("m_str")}]},
                           [("main", src)], {"api": "render_to_write", "name": "main"}, {})
            case["id"] = "%s-thm%04d" % (ID, j)
            out.append((case, {"expect": ["errat", "ParamTypeMismatchForName", ["m_str", "x"]], "plain": None, "text": None, "form": "errat", "tpl": src,
                               "strict": False, "line": line, "col": col, "written": L}))
    return out


def oracle(case, meta, impl):
    l = last(impl)
    kind = meta["expect"][0]
    if kind == "text":
        if l.get("r") == "ok" and l.get("out") == meta["text"]:
            return []
        return ["%s: written %r, expected %r" % (meta["tpl"], l.get("out", l.get("reason")), meta["text"])]
    if kind == "any":
        return []
    if kind == "errat":
        reason, args = meta["expect"][1], meta["expect"][2]
        ok = (l.get("r") == "rerr" and l.get("reason") == reason and (l.get("args") or [])[:2] == args and l.get("line") == meta["line"]
              and l.get("col") == meta["col"] and l.get("name") == "main" and l.get("written") == meta["written"])
        return [] if ok else ["%s: expected %s%s at %s:%s after %r, got %s %s %s at %s:%s (%s) after %r" % (
            meta["tpl"], reason, args, meta["line"], meta["col"], meta["written"], l.get("r"), l.get("reason", ""), l.get("args"),
            l.get("line"), l.get("col"), l.get("name"), l.get("written", l.get("out")))]
    if kind == "err":
        reason, args = meta["expect"][1], meta["expect"][2]
        if l.get("r") == "rerr" and l.get("reason") == reason and (l.get("args") or [])[:2] == args:
            return []
        return ["%s: expected %s%s got %s %s %s" % (meta["tpl"], reason, args, l.get("r"), l.get("reason", ""), str(l.get("args", l.get("out")))[:200])]
    if l.get("r") != "ok":
        return ["%s: expected a result, got %s %s %s" % (meta["tpl"], l.get("r"), l.get("reason"), l.get("args"))]
    if meta["form"] == "expr":
        from .common import escape_of
        exp = escape_of(meta.get("esc", "html"))(meta["text"])
        return [] if l["out"] == exp else ["%s: written %r, expected the escaped text %r" % (meta["tpl"], l["out"], exp)]
    try:
        d = json.loads(l["out"])
        got = d["p"][0]["v"]
    except Exception:
        return ["%s: probe output not understood: %r" % (meta["tpl"], l["out"][:200])]
    if json.dumps(got, sort_keys=True) == json.dumps(meta["plain"], sort_keys=True):
        return []
    return ["%s: helper returned %s, the signature says %s" % (meta["tpl"], json.dumps(got)[:300], json.dumps(meta["plain"])[:300])]


def nontrivial_key(case, meta, impl):
    return meta["tpl"] + str(meta["strict"])


def outcome_kind(case, meta, impl):
    l = last(impl)
    return "%s:%s" % (l.get("r"), l.get("reason", ""))


def project(case, meta, res):
    """the property constrains reason, helper name and parameter name – not the spelling of the type
    (stringify! of the tokens, a compiler detail)"""
    import copy
    r = copy.deepcopy(res)
    for x in r.get("results", []):
        if x.get("reason") in ("ParamTypeMismatchForName", "HashTypeMismatchForName"):
            x["args"] = (x.get("args") or [])[:2]
    return r
