"""C11 Whitespace control removes exactly the whitespace the rules name."""
import itertools
from ..gen import enc as _enc
from ..gen import enc, session
from ..rng import Rng
from .common import last

ID = "C11"
BUDGET = {"quick": 800, "thorough": 60000}
EXHAUSTIVE = True
RULE = ("EXHAUSTIVE grid, every run: 20 tag kinds (value, triple, ampersand, comment, long comment, partial, decorator, "
        "block open/close, block open with one / two block parameters, else, else-chain, else-chain with a block parameter, inline open/close, partial-block open/close, raw open/close) x {~ before, "
        "~ after, both, none} x 16 left contexts x 15 right contexts drawn from {start/end of template, LF, CRLF, spaces, "
        "tabs, text, text+LF+indent, blank line, NBSP / U+3000 / U+2003 / VT / FF (removed by '~', never blank)}; the cells at the start / end of the template also through register_partial and register_template_string (rendered by name); a second EXHAUSTIVE grid with ANOTHER TAG as the neighbour (value, triple, comment, "
        "value with '~' towards the tag) x gap {none, space, LF, mixed} x text beyond the neighbour x the other side – a '~' removes the gap and nothing "
        "beyond the neighbouring tag, and a line holding another tag is not standalone; plus random multi-line templates built from such lines; the family of the Lean theorems C11.tilde_value_trims_both_sides / tilde_before_value_trims_left_only / tilde_after_value_trims_right_only (any text, {{~v~}} | {{~v}} | {{v~}}, any text; oracle = the theorems' closed form, exact); the family of C11.if_block_on_its_own_lines (a block whose tags stand alone on their lines, between any admissible texts, every truthiness class; exact); oracle = the "
        "source-level whitespace rules (tilde: the whole whitespace run of the adjacent text; standalone line: "
        "indentation and one line break) evaluated on the source as written; non-trivial = the tag is standalone or has "
        "a tilde next to whitespace; distinct by cell")
DEFINITE_FLOOR = 0.95
# what a '~' removes: every character of the Unicode property White_Space (Rust's char::is_whitespace, as JavaScript's \\s)
WS = " \t\r\n\x0b\x0c\u0085\u00a0\u1680\u2000\u2001\u2002\u2003\u2004\u2005\u2006\u2007\u2008\u2009\u200a\u2028\u2029\u202f\u205f\u3000"
LEFTS = ["", "\n", "\r\n", "  ", "\t", "x", "x ", "x\n", "x\n  ", "x\r\n\t", "\n\n  ",
         # whitespace other than space / tab: removed by a '~', but a line holding it is not blank (never standalone)
         "\n\u3000", "\u00a0", "x\n \u2003", "\n\x0c ", "x\u00a0\n  "]
RIGHTS = ["", "\n", "\r\n", "  ", "\t", "z", " z", "\nz", "  \nz", "\t\r\nz", "\n\nz", "\u00a0\n", "\u3000", " \x0b\nz", "\n\u00a0z"]
# kind -> (scaffold left, tag text with %s%s for tildes, scaffold right, standalone?, render)
KINDS = ["value", "triple", "amp", "comment", "lcomment", "partial", "deco", "open", "close", "else", "chain",
         "iopen", "iclose", "pbopen", "pbclose", "ropen", "rclose", "openbp", "openbp2", "chainbp"]
STANDALONE = {"comment", "lcomment", "partial", "deco", "open", "close", "else", "chain", "iopen", "iclose", "pbopen", "pbclose", "ropen", "rclose",
              "openbp", "openbp2", "chainbp"}


def tag(kind, tb, ta):
    b = "~" if tb else ""
    a = "~" if ta else ""
    return {
        "value": "{{%sv%s}}", "triple": "{{{%sv%s}}}", "amp": "{{%s&v%s}}", "comment": "{{%s!c%s}}" if False else None,
    }.get(kind) % (b, a) if kind in ("value", "triple", "amp") else {
        "comment": "{{!c}}", "lcomment": "{{!-- c --}}",
        "partial": "{{%s> p%s}}" % (b, a), "deco": "{{%s*nop%s}}" % (b, a),
        "open": "{{%s#if t%s}}" % (b, a), "close": "{{%s/if%s}}" % (b, a), "else": "{{%selse%s}}" % (b, a),
        "chain": "{{%selse if t%s}}" % (b, a),
        "iopen": "{{%s#*inline \"i\"%s}}" % (b, a), "iclose": "{{%s/inline%s}}" % (b, a),
        "pbopen": "{{%s#> q%s}}" % (b, a), "pbclose": "{{%s/q%s}}" % (b, a),
        "openbp": "{{%s#each one as |e|%s}}" % (b, a), "openbp2": "{{%s#each one as |e i|%s}}" % (b, a),
        "chainbp": "{{%selse with o as |w|%s}}" % (b, a),
        "ropen": "{{{{%sraw%s}}}}" % (b, a), "rclose": "{{{{%s/raw%s}}}}" % (b, a),
    }[kind]


def scaffold(kind):
    """(text before L, text after R, function assembling the expected output from L', R')"""
    if kind in ("value", "triple", "amp"):
        return "", "", lambda l, r: l + "V" + r
    if kind in ("comment", "lcomment", "deco"):
        return "", "", lambda l, r: l + r
    if kind == "partial":
        return "", "", lambda l, r: l + "P" + r
    if kind == "open":
        return "", "Y{{/if}}", lambda l, r: l + r + "Y"
    if kind in ("openbp", "openbp2"):
        return "", "Y{{/each}}", lambda l, r: l + r + "Y"
    if kind == "chainbp":
        return "{{#if f}}Y", "Z{{/if}}", lambda l, r: r + "Z"
    if kind == "close":
        return "{{#if t}}Y", "", lambda l, r: "Y" + l + r
    if kind == "else":
        return "{{#if f}}Y", "Z{{/if}}", lambda l, r: r + "Z"
    if kind == "chain":
        return "{{#if f}}Y", "Z{{/if}}", lambda l, r: r + "Z"
    if kind == "iopen":
        return "", "Y{{/inline}}[{{> i}}]", lambda l, r: l + "[" + r + "Y]"
    if kind == "iclose":
        return "{{#*inline \"i\"}}Y", "[{{> i}}]", lambda l, r: r + "[Y" + l + "]"
    if kind == "pbopen":
        return "", "Y{{/q}}", lambda l, r: l + "Q(" + r + "Y)"
    if kind == "pbclose":
        return "{{#> q}}Y", "", lambda l, r: "Q(Y" + l + ")" + r
    if kind == "ropen":
        return "", "Y{{{{/raw}}}}", lambda l, r: l + r + "Y"
    if kind == "rclose":
        return "{{{{raw}}}}Y", "", lambda l, r: "Y" + l + r
    raise KeyError(kind)


def blank(s):
    return all(c in " \t" for c in s)


def spec(kind, tb, ta, L, R, xpre="", xpost=""):
    l2, r2, standalone = spec_parts(kind, tb, ta, L, R, xpre, xpost)
    return scaffold(kind)[2](l2, r2), standalone


def spec_parts(kind, tb, ta, L, R, xpre="", xpost=""):
    """xpre / xpost: source text (a neighbouring tag and what lies beyond it) standing between the scaffold and L / R:
    it counts for judging the tag's line on the source as written, and no rule reaches into it"""
    pre, post, asm = scaffold(kind)
    before = pre + xpre + L
    after = R + xpost + post
    # the tag's line, judged on the source as written
    i = max(before.rfind("\n"), -1)
    line_before = before[i + 1:]
    lead_ok = blank(line_before) and (i >= 0 or True) and not (i < 0 and pre + xpre != "")
    if i < 0:
        lead_ok = blank(before)            # the start of the template is a line boundary
    j = after.find("\n")
    if j >= 0:
        seg = after[:j]
        if seg.endswith("\r"):
            seg = seg[:-1]
        trail_ok = blank(seg)
    else:
        trail_ok = blank(after)            # so is the end of the template
    standalone = kind in STANDALONE and lead_ok and trail_ok
    l2, r2 = L, R
    if tb:
        l2 = L.rstrip(WS)
    elif standalone and kind != "partial":
        l2 = L.rstrip(" \t")
    if ta:
        r2 = R.lstrip(WS)
    elif standalone:
        r2 = R.lstrip(" \t")
        if r2.startswith("\r\n"):
            r2 = r2[2:]
        elif r2.startswith("\n"):
            r2 = r2[1:]
    return l2, r2, standalone


def mk(kind, tb, ta, L, R, idn, via="template", pi=False):
    pre, post, _ = scaffold(kind)
    if kind in ("comment", "lcomment") and (tb or ta):
        return None
    src = pre + L + tag(kind, tb, ta) + R + post
    cfg = {"escape": "none", "decorators": [{"name": "nop", "kind": "setctx"}]}
    tag_nop = None
    if pi:
        # prevent_indent concerns the indentation of a standalone PARTIAL's output (C12) and nothing else: every other tag alone on
        # its line loses the line as without it
        cfg["prevent_indent"] = True
    if kind == "deco":
        src = pre + L + ("{{%s*nop this%s}}" % ("~" if tb else "", "~" if ta else "")) + R + post
    case = session(cfg, [("p", "P"), ("q", "Q({{> @partial-block}})")], {"api": "render_template", "src": src},
                   {"v": "V", "t": True, "f": False, "one": [{"v": "V"}], "o": {"v": "V"}})
    if via != "template":
        # the same source registered with register_partial / register_template_string and rendered by name: the end of a
        # registered template is the same line boundary
        ops = case["ops"]
        rnd = ops.pop()
        ops.append({"op": via, "reg": 0, "name": "t", "src": src})
        ops.append({"op": "render", "reg": 0, "api": "render", "name": "t", "data": rnd["data"]})
    case["id"] = "%s-%s" % (ID, idn)
    exp, st = spec(kind, tb, ta, L, R)
    return case, {"cell": [kind, tb, ta, L, R] + ([via] if via != "template" else []), "expect": exp, "standalone": st, "src": src}


# neighbouring tags: (source, rendering, strips the gap after it, strips the gap before it)
NEIGHBOURS = [("{{v}}", "V", False, False), ("{{{v}}}", "V", False, False), ("{{!c}}", "", False, False),
              ("{{v~}}", "V", True, False), ("{{~v}}", "V", False, True)]
GAPS = ["", " ", "\n", " \n\t"]


def mk_neighbour(kind, tb, ta, side, nb, outer, gap, other, idn):
    """the tag directly beside ANOTHER TAG (gap = the whitespace between them), with text beyond the neighbour: a '~'
    removes the gap and nothing beyond the neighbouring tag; a line holding another tag is not a standalone line"""
    nsrc, nout, strips_after, strips_before = nb
    if kind in ("comment", "lcomment") and (tb or ta):
        return None
    if (kind == "ropen" and side == "right") or (kind == "rclose" and side == "left"):
        return None                          # inside a raw block the neighbour is text, not a tag
    pre, post, _ = scaffold(kind)
    t = tag(kind, tb, ta)
    if kind == "deco":
        t = "{{%s*nop this%s}}" % ("~" if tb else "", "~" if ta else "")
    if side == "left":
        if strips_before:
            return None                      # {{~v}} on the left would reach into the outer text: not this grid's subject
        src = pre + outer + nsrc + gap + t + other + post
        pre_, post_, asm = scaffold(kind)
        l_kept = spec_left(kind, tb, ta, gap, other, outer + nsrc)
        if strips_after:
            # the neighbour's '~}}' deletes the gap from the text; a standalone partial still takes its indentation from
            # its line AS WRITTEN (C12), so that indentation comes back as the indentation of the partial's output
            st = spec_parts(kind, tb, ta, gap, other, outer + nsrc)[2]
            l_kept = gap[len(gap.rstrip(" \t")):] if (kind == "partial" and st and not tb) else ""
        r_kept = spec_right(kind, tb, ta, gap, other, outer + nsrc, "")
        exp = asm(outer + nout + l_kept, r_kept)
    else:
        if strips_after:
            return None
        src = pre + other + t + gap + nsrc + outer + post
        pre_, post_, asm = scaffold(kind)
        l_kept = spec_left(kind, tb, ta, other, gap, "", nsrc + outer)
        r_kept = spec_right(kind, tb, ta, other, gap, "", nsrc + outer)
        if strips_before:
            r_kept = ""
        exp = asm(l_kept, r_kept + nout + outer)
    cfg = {"escape": "none", "decorators": [{"name": "nop", "kind": "setctx"}]}
    case = session(cfg, [("p", "P"), ("q", "Q({{> @partial-block}})")], {"api": "render_template", "src": src},
                   {"v": "V", "t": True, "f": False, "one": [{"v": "V"}], "o": {"v": "V"}})
    case["id"] = "%s-%s" % (ID, idn)
    return case, {"cell": ["nb-" + side, kind, tb, ta, nsrc, outer, gap, other], "expect": exp, "standalone": False, "src": src}


def spec_left(kind, tb, ta, L, R, xpre="", xpost=""):
    return spec_parts(kind, tb, ta, L, R, xpre, xpost)[0]


def spec_right(kind, tb, ta, L, R, xpre="", xpost=""):
    return spec_parts(kind, tb, ta, L, R, xpre, xpost)[1]


def generate(rng, n, tier="quick"):
    out = []
    k = 0
    for kind in KINDS:
        for tb, ta in itertools.product((False, True), repeat=2):
            for side in ("left", "right"):
                for nb in NEIGHBOURS:
                    for outer in (["x  ", "x\n  w \t"] if side == "left" else ["  z", " \tz\n"]):
                        for gap in GAPS:
                            for other in (["", " z", "\n"] if side == "left" else ["", "x ", "\n"]):
                                r = mk_neighbour(kind, tb, ta, side, nb, outer, gap, other, "n%05d" % k)
                                k += 1
                                if r is not None:
                                    out.append(r)
    k = 0
    for kind in KINDS:
        for tb, ta in itertools.product((False, True), repeat=2):
            for L in LEFTS:
                for R in RIGHTS:
                    # text that would glue to the tag lexically is not part of the grid
                    if kind in ("value", "triple", "amp") and False:
                        continue
                    r = mk(kind, tb, ta, L, R, "g%05d" % k)
                    k += 1
                    if r is not None:
                        out.append(r)
                        if r[1]["standalone"] and kind != "partial":
                            out.append(mk(kind, tb, ta, L, R, "g%05dpi" % (k - 1), pi=True))
                    if R in ("", "  ", "\t", "\n") or L in ("", "  "):
                        for via in ("reg_partial", "reg_string"):
                            r = mk(kind, tb, ta, L, R, "g%05d%s" % (k - 1, via[4]), via)
                            if r is not None:
                                out.append(r)
    # random multi-line templates built from such lines
    j = 0
    target = len(out) + n
    while len(out) < target:
        r = rng.fork(j)
        j += 1
        pieces = []
        exp = []
        nlines = r.range(1, 4)
        ok = True
        for _ in range(nlines):
            kind = r.pick(["value", "comment", "partial", "open", "close", "pbopen", "ropen", "else"])
            if kind in ("close", "else", "open", "pbopen", "ropen"):
                kind = r.pick(["value", "comment", "partial"])
            tb, ta = r.chance(0.2), r.chance(0.2)
            if kind == "comment":
                tb = ta = False
            L = r.pick(["", "  ", "\t", "x ", "  x"])
            R = r.pick(["\n", "\r\n", "  \n", " z\n", "\n"])
            pieces.append((kind, tb, ta, L, R))
        src = "".join(L + tag(kd, tb, ta) + R for kd, tb, ta, L, R in pieces)
        # expected: evaluate each line with its neighbours as context
        res = ""
        for idx, (kd, tb, ta, L, R) in enumerate(pieces):
            first = idx == 0
            # previous line ended with a line break, so the line context is (L, R) alone
            e, st = spec(kd, tb, ta, L, R)
            res += e
        # '~}}' reaches into the next line's leading text: handled only when R is whitespace-only
        if any(ta and R.strip(WS) == "" for _, _, ta, _, R in pieces[:-1]) or any(tb and L.strip(WS) == "" for _, tb, _, L, _ in pieces[1:]):
            continue
        case = session({"escape": "none"}, [("p", "P")], {"api": "render_template", "src": src}, {"v": "V"})
        case["id"] = "%s-r%05d" % (ID, j)
        out.append((case, {"cell": ["random"], "expect": res, "standalone": True, "src": src}))
    # the rules hold however the template reaches the renderer: rendered directly, registered from a string, from a file, from a
    # file under dev mode (re-read and recompiled at render time) – with prevent_indent on and off.  A standalone partial line
    # whose partial writes TWO lines shows the difference between the two settings: the line's indentation goes in front of
    # every line the partial writes (off), or stays where it is, as text in front of the first (on)
    kv = 0
    for L in ["  ", "\t", "x\n  ", "x\r\n \t", ""]:
        for R in ["\n", "\r\n", "  \n"]:
            for pi in (False, True):
                for via in ("template", "string", "file", "devfile"):
                    for tagk in ("partial", "comment", "value"):
                        src = L + {"partial": "{{> m}}", "comment": "{{! c }}", "value": "{{v}}"}[tagk] + R + "z"
                        blanks = L[len(L.rstrip(" \t")):]
                        head = L[:len(L) - len(blanks)]
                        if tagk == "partial":
                            exp = head + (blanks + "P\nQ\nz" if pi else blanks + "P\n" + blanks + "Q\nz")
                        elif tagk == "comment":
                            exp = head + "z"
                        else:
                            exp = L + "V" + R + "z"
                        cfg = {"escape": "none", "prevent_indent": pi}
                        ops = [{"op": "reg_string", "reg": 0, "name": "m", "src": "P\nQ\n"}]
                        if via == "template":
                            ops.append({"op": "render", "reg": 0, "api": "render_template", "src": src, "data": _enc({"v": "V"})})
                        else:
                            if via == "string":
                                ops.append({"op": "reg_string", "reg": 0, "name": "main", "src": src})
                            else:
                                if via == "devfile":
                                    ops.append({"op": "set_dev", "reg": 0, "v": True})
                                ops += [{"op": "write_file", "file": "f0", "content": src}, {"op": "reg_file", "reg": 0, "name": "main", "file": "f0"}]
                            ops.append({"op": "render", "reg": 0, "api": "render", "name": "main", "data": _enc({"v": "V"})})
                        case = {"kind": "session", "regs": [cfg], "ops": ops}
                        case["id"] = "%s-via%04d" % (ID, kv)
                        kv += 1
                        out.append((case, {"cell": ["via"], "expect": exp, "standalone": tagk != "value", "src": src}))
    # the family of the Lean theorems C11.tilde_value_trims_both_sides (and the one-sided forms): L ++ {{~v~}} ++ R for any text L that may stand before a
    # tag and any text R without '{{' (whitespace of every kind, non-ASCII included, next to the tag); the expectation is the
    # theorem's closed form  trim_end(L) ++ escape(v) ++ trim_start(R)
    from .C03 import thm_left, thm_right
    for k in range(max(40, n // 4)):
        r = rng.fork("thm%d" % k)
        L, R = thm_left(r), thm_right(r)
        if r.chance(0.5):
            L += r.pick([" ", "\n\t", "\u00a0", " \u3000\r\n", "\x0c "])
        if r.chance(0.5):
            R = r.pick([" ", "\n\t", "\u00a0", " \u3000\r\n", "\x0b"]) + R
        form = r.pick(["both", "both", "left", "right"])
        src = L + {"both": "{{~v~}}", "left": "{{~v}}", "right": "{{v~}}"}[form] + R
        esc = r.pick(["none", "html"])
        val = r.pick(["V", "<b>", "a&b", ""])
        shown = val if esc == "none" else val.replace("&", "&amp;").replace("<", "&lt;").replace(">", "&gt;")
        case = session({"escape": esc}, [], {"api": "render_template", "src": src}, {"v": val})
        case["id"] = "%s-thm%04d" % (ID, k)
        out.append((case, {"cell": ["thm"], "expect": (L if form == "right" else L.rstrip(WS)) + shown + (R if form == "left" else R.lstrip(WS)), "standalone": False, "src": src}))
    # the family of the Lean theorem C11.if_block_on_its_own_lines: L ++ {{#if v}}⏎A⏎{{/if}} ++ R with L empty or ending an empty line
    # and R beginning with the rest of an empty line; closed form  trimEndBlank L ++ (A⏎ if v) ++ stripFirstNewline(trimStartBlank R)
    def _sfn(t):
        return t[2:] if t.startswith("\r\n") else (t[1:] if t.startswith("\n") else t)
    for k in range(max(40, n // 4)):
        r = rng.fork("blk%d" % k)
        head = thm_left(r)
        L = r.pick(["", head + "\n", head + "\r\n", head + "\n" + r.pick(["  ", "\t", " \t "]), r.pick(["  ", "\t"]), head + "\r"])
        tailtxt = thm_right(r)
        R = r.pick(["", "  ", "\n", "\r\n", " \t\n", "\n" + tailtxt, "  \r\n" + tailtxt, "\n\n" + tailtxt, "\r" + tailtxt])
        val = r.pick([True, False, 0, 1, "", "x", [], [0], None, {}])
        src = L + "{{#if v}}\nA\n{{/if}}" + R
        exp = L.rstrip(" \t") + ("A\n" if (val not in (False, 0, "", None) and val != [] and val != {}) else "") + _sfn(R.lstrip(" \t"))
        case = session({"escape": "none"}, [], {"api": "render_template", "src": src}, {"v": val})
        case["id"] = "%s-blk%04d" % (ID, k)
        out.append((case, {"cell": ["thm"], "expect": exp, "standalone": True, "src": src}))
    return out


def oracle(case, meta, impl):
    l = last(impl)
    if l.get("r") == "ok" and l.get("out") == meta["expect"]:
        return []
    return ["whitespace: source %r expected %r got %r" % (meta["src"], meta["expect"], l.get("out", l.get("reason")))]


def nontrivial_key(case, meta, impl):
    c = meta["cell"]
    if c[0] == "random" or c[0] == "thm" or c[0] == "via" or c[0].startswith("nb-"):
        return meta["src"]
    if meta["standalone"] or ((c[1] and c[3][-1:] in tuple(WS)) or (c[2] and c[4][:1] in tuple(WS))):
        return str(c)
    return None


def distribution(cases):
    d = {}
    for c, m in cases:
        d["kind." + m["cell"][0]] = d.get("kind." + m["cell"][0], 0) + 1
        if m["standalone"]:
            d["standalone"] = d.get("standalone", 0) + 1
    return d
