"""shared pieces of the property modules"""
from .. import ref
from ..gen import enc, session


def last(res):
    if res.get("r") == "session":
        rs = res.get("results") or [{}]
        return rs[-1]
    return res


def ref_outcome(ast_by_name, main, data, strict=False, escape=ref.html_escape):
    """('must', text) | ('musterr', kinds) | ('any', why)"""
    env = ref.Env(data, {k: v for k, v in ast_by_name.items() if k != main}, escape=escape, strict=strict)
    try:
        out = ref.render(ast_by_name[main], [ref.Scope(data, "root")], env)
        return ("must", out)
    except ref.SpecError as e:
        return ("musterr", e.kinds)
    except ref.Undefined as e:
        return ("any", str(e))
    except RecursionError:
        return ("any", "recursion")


def check_against_ref(outcome, impl_last):
    """violations of the reference by the real crate's result (list of str), or None when the
    reference has no opinion"""
    kind, val = outcome
    if kind == "any":
        return None
    r = impl_last.get("r")
    if kind == "must":
        if r == "ok" and impl_last.get("out") == val:
            return []
        if r == "ok":
            return ["output differs from the reference: expected %r got %r" % (val, impl_last.get("out"))]
        return ["reference renders %r but the crate returned %s %s" % (val, r, impl_last.get("reason", impl_last.get("site", "")))]
    if kind == "musterr":
        if r == "rerr" and impl_last.get("reason") in val:
            return []
        return ["reference demands an error %s but the crate returned %s %s" % (val, r, impl_last.get("reason", impl_last.get("out", "")))]
    return None


def escape_of(name):
    if name == "none":
        return lambda s: s
    if name == "mark":
        return lambda s: "⟦" + s + "⟧"
    return ref.html_escape
