"""C03 Template text outside tags is reproduced verbatim."""
from ..gen import enc, session
from ..rng import Rng
from .common import last

ID = "C03"
BUDGET = {"quick": 3000, "thorough": 200000}
RULE = ("strings over {letters, { } \\ \" ' space tab CR LF non-ASCII incl. NBSP, U+3000, VT, FF} (no backslash immediately before '{{'), quoted by "
        "'{{' -> '\\{{'; used alone (render(quote s) must equal s for any data), between pairs of tags of every kind "
        "(value tags, comments), and as the body of a {{{{raw}}}} block; thorough adds every string of length ≤ 5 over a "
        "9-symbol alphabet; text around comments and block tags (where only the standalone-line rule may remove whitespace next to the tag: every "
        "other character must come out, in order); the family of the Lean theorem C03.text_around_comment_is_kept (any text, any comment body, any text; "
        "oracle = the theorem's closed form, exact); the family of C03.raw_block_body_is_verbatim (any text, a raw block with any body – tags, whitespace at both ends, line breaks –, any text; exact); about one case in eight read from a template FILE (with and without dev mode; a byte order mark / zero-width character in front in most of them); oracle = the string itself; non-trivial = contains a brace, backslash or whitespace; distinct by string")
DEFINITE_FLOOR = 0.9
ASSUMPTIONS = ["whitespace-only text next to a tag that C11's standalone rule names is placed only where that rule cannot fire (value tags)"]
ALPHA = list("abXY{}{}\\\"' \t\r\n") + ["é", "→", "😀", "{{", "}}", "{{{", "\\\\", "\u00a0", "\u3000", "\x0b", "\x0c"]
SMALL = ["a", "{", "}", "\\", " ", "\n", "\"", "{{", "é"]


def rand_text(rng, n):
    s = "".join(rng.pick(ALPHA) for _ in range(n))
    return clean(s)


def clean(s):
    # the property's quantifier excludes a backslash immediately before '{{'
    while "\\{{" in s:
        s = s.replace("\\{{", "\\ {{")
    return s


def quote(s):
    return s.replace("{{", "\\{{")


def all_small(maxlen):
    out = [""]
    cur = [""]
    for _ in range(maxlen):
        cur = [p + a for p in cur for a in SMALL]
        out += cur
    return out


def generate(rng, n, tier="quick"):
    cases = []
    texts = []
    if tier == "thorough":
        texts = [clean(t) for t in all_small(5)]
    i = 0
    while len(cases) < n:
        r = rng.fork(i)
        i += 1
        if texts:
            s = texts.pop()
        else:
            s = rand_text(r, r.range(0, 14))
        mode = r.weighted([("alone", 5), ("between", 4), ("raw", 3), ("comment", 2), ("around", 4), ("thm", 4), ("rawthm", 3), ("inline", 2)])
        data = {"v": "V", "w": ""}
        if mode == "alone":
            if s.endswith("\\"):
                s += "x"
            tpl, exp = quote(s), s
        elif mode == "between":
            # text between two value tags (value expressions never trigger the standalone rule)
            t1 = r.pick(["{{v}}", "{{{v}}}", "{{w}}", "{{&v}}"])
            t2 = r.pick(["{{v}}", "{{{v}}}", "{{w}}"])
            if s.endswith("\\"):
                s += "x"
            if s.endswith("{"):
                s += "x"          # '{' + '{{' would lex as a triple brace: inherent ambiguity, outside the quantifier
            val = {"{{v}}": "V", "{{{v}}}": "V", "{{w}}": "", "{{&v}}": "V"}
            tpl = t1 + quote(s) + t2
            exp = val[t1] + s + val[t2]
            if r.chance(0.3):
                # a '~' tag directly behind the closing tag has nothing to remove: the text before t2 is out of its reach
                extra = r.pick(["{{~v}}", "{{~{v}}}", "{{~#if v}}y{{/if}}", "{{~#unless v}}n{{/unless}}x"])
                tpl += extra
                exp += {"{{~v}}": "V", "{{~{v}}}": "V", "{{~#if v}}y{{/if}}": "y", "{{~#unless v}}n{{/unless}}x": "x"}[extra]
        elif mode == "around":
            # text around tags that the standalone-line rule and nothing else may touch: whatever that rule removes is
            # whitespace next to the tag – every other character must come out, in order (see `fits`)
            def piece(n):
                t = rand_text(r, n)
                while "{{" in t:
                    t = t.replace("{{", "{ {")
                if t.endswith("\\") or t.endswith("{"):
                    t += "x"
                return t
            L, M, R = piece(r.range(0, 8)), piece(r.range(0, 8)), piece(r.range(0, 8))
            # make the standalone-line rule fire often: line ends (LF, CRLF, a lone CR) and indentation next to the tags
            if r.chance(0.6):
                L = r.pick(["", L]) + r.pick(["", "\n", "\r\n", "\n  ", "x\n\t", "\r", "\n\n"])
            if r.chance(0.6):
                M = r.pick(["\r", "\r\n", "\n", " \r", "\t\n", "\r\r\n", "  \n"]) + M + r.pick(["", "\n", "\r\n  ", "\n\t", "\r"])
            if r.chance(0.6):
                R = r.pick(["\r", "\r\n", "\n", " \r", "\t\n", "\r\r\n", "  \n"]) + R
            form = r.pick(["comment", "lcomment", "if", "else", "each"])
            if form == "comment":
                tpl, pieces = L + "{{! c }}" + R, [(L, False, True), (R, True, False)]
            elif form == "lcomment":
                tpl, pieces = L + "{{!-- c --}}" + R, [(L, False, True), (R, True, False)]
            elif form == "if":
                tpl, pieces = L + "{{#if v}}" + M + "{{/if}}" + R, [(L, False, True), (M, True, True), (R, True, False)]
            elif form == "else":
                tpl, pieces = L + "{{#if w}}x{{else}}" + M + "{{/if}}" + R, [(L, False, True), (M, True, True), (R, True, False)]
            else:
                tpl, pieces = L + "{{#each one}}" + M + "{{/each}}" + R, [(L, False, True), (M, True, True), (R, True, False)]
            data = {"v": "V", "w": "", "one": [1]}
            case = session({"escape": "html"}, [], {"api": "render_template", "src": tpl}, data)
            case["id"] = "%s-%06d" % (ID, i)
            cases.append((case, {"mode": mode, "pieces": pieces, "s": L + M + R, "expect": None}))
            continue
        elif mode == "inline":
            # text in front of, inside and behind an INLINE PARTIAL DEFINITION (a decorator block: it writes nothing where it stands; its
            # body comes out where the partial is called).  Exact expectation: each of the two tags removes the blanks in front of it
            # and the rest of its line when – and only when – it stands alone on its line, judged on the source; every other
            # character of the three texts comes out, the body at the call
            import re as _re
            def piece2(n):
                t = rand_text(r, n).replace("\r", "").replace("\\", "/")
                while "{{" in t:
                    t = t.replace("{{", "{ {")
                return t + ("x" if t.endswith("{") else "")
            L = piece2(r.range(0, 5)) + r.pick(["", " ", " \t", "\n", "\n  ", "k: \t", "x ", "\r\n\t", "  "])
            M = r.pick(["", "\n", "\n  ", " ", "\r\n", "  \n", "y"]) + piece2(r.range(0, 5)) + r.pick(["", "\n", "\n  ", " ", "\r\n\t", "y\n  ", "y \t"])
            R = r.pick(["", "\n", " \n", "\r\n", " z", "z", "\t\r\n"]) + piece2(r.range(0, 5))
            def blank_tail(t, at_start):
                last_ = t[t.rfind("\n") + 1:] if "\n" in t else (t if at_start else None)
                return last_ is not None and last_.strip(" \t") == ""
            def blank_head(t):
                return _re.match(r"^[ \t]*\r?\n", t) is not None
            def cut_head(t):
                return _re.sub(r"^[ \t]*\r?\n", "", t, count=1)
            open_sa = blank_tail(L, True) and blank_head(M)
            close_sa = blank_tail(M, False) and blank_head(R)
            L2 = L.rstrip(" \t") if open_sa else L
            M2 = cut_head(M) if open_sa else M
            if close_sa:
                M2 = M2.rstrip(" \t")
            R2 = cut_head(R) if close_sa else R
            tpl = L + "{{#*inline \"q\"}}" + M + "{{/inline}}" + R + "|{{> q}}|"
            exp = L2 + R2 + "|" + M2 + "|"
            s = L + "|" + M + "|" + R
        elif mode == "thm":
            # the family of the Lean theorem C03.text_around_comment_is_kept: L ++ {{!c}} ++ R for any text L that may
            # stand before a tag, any comment body c, any text R without '{{'; the expectation is the theorem's closed form
            L, c, R = thm_left(r), thm_body(r), thm_right(r)
            tpl, exp = L + "{{!" + c + "}}" + R, comment_closed_form(L, R)
            s = L + "|" + c + "|" + R
        elif mode == "rawthm":
            # the family of the Lean theorem C03.raw_block_body_is_verbatim: L ++ {{{{raw}}}} b {{{{/raw}}}} ++ R for any text L ending in,
            # any text R beginning with, a character that is neither blank nor a line break, and ANY body b without a
            # backslash, without '{{{{' and not ending in '{' (tags, braces, whitespace at both ends, line breaks inside);
            # the expectation is the theorem's closed form L ++ b ++ R
            L = thm_left(r) + r.pick(["x", "]", ".", "\u00e9", "}", "\u00a0"])
            R = r.pick(["y", "[", "\u4e2d", ")", "\u3000"]) + thm_right(r)
            body = "".join(r.pick(list("ab{}\"' \t\r\n") + ["{{x}}", "{{#if a}}", "{{!c}}", "{{{y}}}", "\u00e9", "}}}}", "\n  ", "\r\n", " "]) for _ in range(r.range(0, 9)))
            while "{{{{" in body:
                body = body.replace("{{{{", "{{{ {")
            if body.endswith("{"):
                body += r.pick(["x", " ", "\n"])
            tpl, exp = L + "{{{{raw}}}}" + body + "{{{{/raw}}}}" + R, L + body + R
            s = L + "|" + body + "|" + R
        elif mode == "comment":
            # a comment in the middle of a line of text writes nothing (text on both sides, so the line is not standalone)
            if s.endswith("\\"):
                s += "x"
            if s.endswith("{"):
                s += "x"
            body = r.pick(["", " note ", "x}y", "-"])
            if r.chance(0.5):
                # the long form may hold anything but `--}}` – commented-out tags, `}}`, braces
                body = "--" + r.pick([" {{name}} is off ", " a }} b ", "{{#if x}}", " }}}} ", "{{!inner}}", " -- ", "\n {{> p}} \n",
                                      " <!-- {{name}} --> ", " a -- b }} c ", " -- }} x ", " --x}}y ", " --\n}} z ", "-- }}", " {{!-- x -- }} ",
                                      " --var: 1; }} "]) + "--"
            tpl = "a" + quote(s) + "b{{!" + body + "}}c"
            exp = "a" + s + "bc"
            if r.chance(0.35):
                # text ending in whitespace, the comment, and DIRECTLY behind it a tag with a leading `~`: the `~` removes whitespace
                # next to its own tag – there is none, the comment stands there – and the text in front of the comment is untouched
                wsp = r.pick(["  ", " ", "\t", " \n ", "\n", ""])
                nxt = r.pick(["{{~v}}", "{{~#if v}}y{{/if}}", "{{~w}}", "{{~{v}}}", "{{~&v}}"])
                outn = {"{{~v}}": "V", "{{~#if v}}y{{/if}}": "y", "{{~w}}": "", "{{~{v}}}": "V", "{{~&v}}": "V"}[nxt]
                tpl = "a" + quote(s) + "b" + wsp + "{{!" + body + "}}" + nxt + "c"
                exp = "a" + s + "b" + wsp + outn + "c"
            if "\n" in s or "\r" in s:
                # keep the comment's line free of the standalone rule: text 'b' precedes it on its line
                pass
        else:
            body = s
            while "{{{{" in body:
                body = body.replace("{{{{", "{{{ {")
            # an escape in a raw block drops its backslash like anywhere else; keep bodies free of '\{{'
            body = body.replace("\\", "/")
            if body.endswith("{"):
                body += "x"
            tpl = "[{{{{raw}}}}" + body + "{{{{/raw}}}}]"
            exp = "[" + body + "]"
        if mode in ("alone", "between", "thm", "comment") and r.chance(0.12):
            # the same template read from a FILE (with and without dev mode): what is rendered is the file's content, every
            # character of it – a byte order mark or a zero-width space in front included
            if mode != "thm" and r.chance(0.7):
                pre = r.pick(["\ufeff", "\ufeff", "\u200b", "\u2060"])
                tpl, exp, s = pre + tpl, pre + exp, pre + s
            ops = ([{"op": "set_dev", "reg": 0, "v": True}] if r.chance(0.5) else []) + [
                {"op": "write_file", "file": "f0", "content": tpl}, {"op": "reg_file", "reg": 0, "name": "t", "file": "f0"},
                {"op": "render", "reg": 0, "api": "render", "name": "t", "data": enc(data)}]
            case = {"kind": "session", "regs": [{"escape": "html"}], "ops": ops, "id": "%s-%06d" % (ID, i)}
            cases.append((case, {"mode": mode, "expect": exp, "s": s, "via": "file"}))
            continue
        case = session({"escape": "html"}, [], {"api": "render_template", "src": tpl}, data)
        case["id"] = "%s-%06d" % (ID, i)
        cases.append((case, {"mode": mode, "expect": exp, "s": s}))
    # listed witness of F1
    w = session({"escape": "html"}, [], {"api": "render_template", "src": "{{{{raw}}}} x {{y}} {{{{/raw}}}}"}, {})
    w["id"] = "C03-F1"
    cases.append((w, {"mode": "raw", "expect": " x {{y}} ", "s": " x {{y}} "}))
    return cases


def _no_open(t):
    while "{{" in t:
        t = t.replace("{{", "{ {")
    return t


LINE_ENDS = ["", "\n", "\r\n", "\n  ", "x\n\t", "\r", "\n\n", " ", "\t ", "\n \t",
             # whitespace that is NOT a space or a tab: a line holding it is not blank, the standalone rule leaves it alone
             "\n\u3000", "\n\u00a0 ", "\n \x0c", "\u2003", "x\n\x0b\t"]


def thm_left(r):
    t = _no_open(rand_text(r, r.range(0, 8)))
    if r.chance(0.6):
        t = r.pick(["", t]) + r.pick(LINE_ENDS)
    if t.endswith("\\") or t.endswith("{"):
        t += r.pick(["x", " ", "\n"])
    return t


def thm_right(r):
    t = _no_open(rand_text(r, r.range(0, 8)))
    if r.chance(0.6):
        t = r.pick(["", "\r", "\r\n", "\n", " \r", "\t\n", "\r\r\n", "  \n", "  ", "\n\n", " \n x",
                    "\u00a0\n", " \u3000\r\n", "\x0c\n", "\u2003"]) + r.pick(["", t])
    return _no_open(t)


def thm_body(r):
    c = "".join(r.pick(list("ab-{}! \t\n\\\"") + ["{{", "--", "{{!", "é", " -- "]) for _ in range(r.range(0, 6)))
    while "}}" in c:
        c = c.replace("}}", "} }")
    if c.endswith("}"):
        c += r.pick(["x", " "])
    if c.lstrip(" \t\r\n").startswith("--"):
        c = "x" + c
    return c


def comment_closed_form(L, R):
    """the right-hand side of C03.text_around_comment_is_kept"""
    BL = " \t"
    NL = "\n\r"
    tr = R.lstrip(BL)
    tl = L.rstrip(BL)
    standalone = (tr[:1] != "" and tr[0] in NL or tr == "") and (tl == "" or tl[-1] in NL)
    if not standalone:
        return L + R
    if tr.startswith("\r\n"):
        tr = tr[2:]
    elif tr.startswith("\n"):
        tr = tr[1:]
    return tl + tr


def fits(out, pieces):
    """out = the pieces in order, each possibly short of a run of whitespace at the sides named (the side next to a tag)"""
    WS = " \t\r\n"
    def variants(text, tl, tr):
        a = len(text) - len(text.lstrip(WS)) if tl else 0
        res = set()
        for i in range(a + 1):
            rest = text[i:]
            b = len(rest) - len(rest.rstrip(WS)) if tr else 0
            for j in range(b + 1):
                res.add(rest[:len(rest) - j])
        return res
    cur = {""}
    for text, tl, tr in pieces:
        cur = {c + v for c in cur for v in variants(text, tl, tr) if out.startswith(c + v)}
        if not cur:
            return False
    return out in cur


def oracle(case, meta, impl):
    l = last(impl)
    if meta["mode"] == "around":
        if l.get("r") != "ok":
            return ["text around a tag: render failed: %s" % l.get("reason", l.get("r"))]
        return [] if fits(l["out"], meta["pieces"]) else [
            "characters other than whitespace next to a tag were removed or changed: pieces %r rendered %r" % (meta["pieces"], l["out"])]
    if l.get("r") == "ok" and l.get("out") == meta["expect"]:
        return []
    return ["text not reproduced verbatim: expected %r got %r" % (meta["expect"], l.get("out", l.get("reason", l.get("r"))))]


def nontrivial_key(case, meta, impl):
    s = meta["s"]
    if any(ch in s for ch in "{}\\ \t\r\n"):
        return meta["mode"] + ":" + s
    return None


def distribution(cases):
    d = {}
    for c, m in cases:
        d["mode." + m["mode"]] = d.get("mode." + m["mode"], 0) + 1
    return d
