"""C16 All render entry points agree; rendering is deterministic and shareable."""
import itertools
from ..gen import TG, gen_json, session, std_helpers, enc
from ..rng import Rng
from .common import last

ID = "C16"
BUDGET = {"quick": 400, "thorough": 20000}
RULE = ("generated (template set, data, configuration); every entry point (render, render_with_context, render_to_write, "
        "render_with_context_to_write, render_template, render_template_with_context(_to_write), render_template_to_write, "
        "and a Template precompiled with the same name registered via register_template) must give the same bytes or the "
        "same error; the batch is repeated in a permuted order (all orders for batches ≤ 4 in thorough), from a clone of the "
        "registry, from a clone with the other prevent_indent setting (history independence), and from 2..16 threads sharing one registry; the model evaluates every call separately; non-trivial = "
        "the render succeeds with non-empty output or fails with a render error; distinct by case")
DEFINITE_FLOOR = 0.9
ASSUMPTIONS = ["OS thread schedules are outside the Lean model (pure functions cannot race); the thread part rests on the compile-time fact Handlebars: Send + Sync + Clone, on the absence of interior mutability, and on these runs"]
NAMED = ["render", "render_with_context", "render_to_write", "render_with_context_to_write"]
UNNAMED = ["render_template", "render_template_with_context", "render_template_to_write", "render_template_with_context_to_write"]


def gen_case(rng, i, tier):
    data = gen_json(rng, 3, want="obj")
    if not isinstance(data, dict):
        data = {"a": data}
    helpers = {"mk": "mark", "pr": "probe", "vr": "vret"}
    cfg = {"strict": rng.chance(0.3), "prevent_indent": rng.chance(0.3), "escape": rng.pick(["html", "none", "mark"]), "helpers": std_helpers()}
    tg = TG(rng.fork("p"), data, helpers, [], opt={"inline": False, "partial_block": False})
    p0 = tg.partial_body(2)
    main = TG(rng.fork("m"), data, helpers, ["p0"], opt={"missing": 0.2}).template(3)
    if rng.chance(0.3):
        main = "a\n  {{> p0}}\nb\n" + main       # prevent_indent matters
    if cfg["prevent_indent"] or rng.chance(0.2):
        main = "i\n    {{> mlp}}\nj\n" + main     # a multi-line partial behind indentation: every line or only the first
    if rng.chance(0.3):
        # several hash arguments whose evaluation order is observable: more than one failing argument (which error is
        # reported) – every compilation of the source must agree
        keys = rng.shuffle(["k", "x", "aa", "zz", "m", "b", "q1", "é"])[:rng.range(2, 5)]
        bad = ["(lookup nope1 \"x\")", "(eq nope2 1)", "(lookup nope3 0)", "(len nope4)", "(nosuchA 1)", "(nosuchB 1)", "(nosuchC 1)"]
        main += rng.pick(["{{mk ", "{{> p0 ", "{{#mk ", "{{#> p0 "]) + " ".join("%s=%s" % (k, rng.pick(bad)) for k in keys) + "}}"
        if main.count("{{#mk") > main.count("{{/mk"):
            main += "{{/mk}}"
        if main.endswith("}}") and "{{#> p0 " in main[main.rfind("{{#"):]:
            main += "{{/p0}}"
    if rng.chance(0.2):
        # invisible characters at the very start of the text (a byte order mark, a zero-width space) are template text like any
        # other: every route – string, precompiled, file – compiles the same characters
        main = rng.pick(["\ufeff", "\ufeff{{!c}}\n", "\u200b{{!c}}\n", "\ufeff  {{> p0}}\n", "\ufeff{{#if a}}\nx\n{{/if}}\n", "\ufeff\ufeff", "\u2060"]) + main
    if rng.chance(0.3):
        # the text ENDS in a tag alone on its indented line, with no line break behind it: the end of the input counts as the end
        # of the line – for every way the text gets into the registry
        main += rng.pick(["\n  {{! c }}", "\n\t{{#if a}}\n  yes\n  {{/if}}", "\n  {{> p0}}", "\nx\n  {{!-- c --}}  ", "\n {{#each l}}\n e\n {{/each}}\t"])
    pbfail = rng.chance(0.3)
    if pbfail:
        # a failing tag written in main but rendered from inside another partial (a partial-block body, an inline partial):
        # the error names the template the tag is WRITTEN in – for every way of registering that template
        bad = rng.pick(["{{nosuchA 1}}", "{{lookup}}", "{{> nosuchpartial}}", "{{*nosuchdeco}}"])
        main += rng.pick(["\n{{#> pbw}}x\n {{BAD}}{{/pbw}}", "{{#*inline \"il\"}}i {{BAD}}{{/inline}}\n\n  {{> pbi}}",
                          "{{#> nosuchp}}fb{{BAD}}{{/nosuchp}}"]).replace("{{BAD}}", bad)
    devfile = rng.chance(0.3)
    if devfile:
        # dev mode: the partial comes from a file that changes (or disappears) after registration – every entry point
        # must see the file as it is at render time
        p0_old = TG(rng.fork("pold"), data, helpers, [], opt={"inline": False, "partial_block": False}).partial_body(1)
        ops = [{"op": "set_dev", "reg": 0, "v": True},
               {"op": "write_file", "file": "f1", "content": p0_old},
               {"op": "reg_file", "reg": 0, "name": "p0", "file": "f1"},
               {"op": "reg_string", "reg": 0, "name": "pbw", "src": "<\n{{> @partial-block}}>"},
               {"op": "reg_string", "reg": 0, "name": "pbi", "src": "({{> il}})"},
               {"op": "reg_string", "reg": 0, "name": "main", "src": main},
               {"op": "reg_template", "reg": 0, "name": "pre", "src": main, "tname": "main"},
               ({"op": "write_file", "file": "f1", "content": p0} if rng.chance(0.8) else {"op": "delete_file", "file": "f1"})]
        if rng.chance(0.5):
            # the rendered template itself is tracked: render(name) re-reads and recompiles its file, render_template(the same
            # text) compiles the string – same registry settings, same bytes
            k = [o.get("name") == "main" and o["op"] == "reg_string" for o in ops].index(True)
            ops[k:k + 1] = [{"op": "write_file", "file": "f0", "content": main}, {"op": "reg_file", "reg": 0, "name": "main", "file": "f0"}]
    else:
        ops = [{"op": "reg_string", "reg": 0, "name": "p0", "src": p0},
               {"op": "reg_string", "reg": 0, "name": "pbw", "src": "<\n{{> @partial-block}}>"},
               {"op": "reg_string", "reg": 0, "name": "pbi", "src": "({{> il}})"},
               {"op": "reg_string", "reg": 0, "name": "main", "src": main},
               {"op": "reg_template", "reg": 0, "name": "pre", "src": main, "tname": "main"}]
    d = enc(data)
    calls = []
    for api in NAMED:
        calls.append({"op": "render", "reg": 0, "api": api, "name": "main", "data": d})
    if not devfile:
        # the same text registered from a FILE (outside dev mode: read once, at registration)
        ops = ops + [{"op": "write_file", "file": "f9", "content": main}, {"op": "reg_file", "reg": 0, "name": "mainf", "file": "f9"}]
        calls.append({"op": "render", "reg": 0, "api": rng.pick(NAMED), "name": "mainf", "data": d})
        # … and through register_partial ("a registered partial is just identical to a template")
        ops = ops + [{"op": "reg_partial", "reg": 0, "name": "mainp", "src": main}]
        calls.append({"op": "render", "reg": 0, "api": rng.pick(NAMED), "name": "mainp", "data": d})
    for api in UNNAMED:
        calls.append({"op": "render", "reg": 0, "api": api, "src": main, "data": d})
    # the writer entry points on a writer that accepts only a few bytes per call (legal for io::Write): the same bytes arrive
    for api in ("render_to_write", "render_with_context_to_write"):
        calls.append({"op": "render", "reg": 0, "api": api, "name": "main", "data": d, "short": rng.pick([1, 2, 3, 5])})
    calls.append({"op": "render", "reg": 0, "api": rng.pick(["render_template_to_write", "render_template_with_context_to_write"]), "src": main, "data": d, "short": rng.pick([1, 4])})
    if not cfg["prevent_indent"] and not devfile:
        # Template::compile_with_name has no prevent_indent option: "precompiled with the same options" exists only then
        calls.append({"op": "render", "reg": 0, "api": "render", "name": "pre", "data": d})
    batch = list(calls)
    if rng.chance(0.3):
        # "data given as a Rust value renders as its serde_json form": a value serde_json cannot represent (u128::MAX) fails alike
        # at EVERY entry point with the serialization error – also when the template name is unknown or the source does not compile
        for api in NAMED:
            for nm in ("main", "nosuch"):
                batch.append({"op": "render", "reg": 0, "api": api, "name": nm, "data": d, "rust_data": "u128max"})
        for api in UNNAMED:
            for sr in (main, "{{> nosuch}}", "{{#if"):
                batch.append({"op": "render", "reg": 0, "api": api, "src": sr, "data": d, "rust_data": "u128max"})
    # a second pass in another order, interleaved with renders of another template
    other = {"op": "render", "reg": 0, "api": "render", "name": "p0", "data": d}
    perm = rng.shuffle(calls)
    batch += [other] + perm[:4] + [other] + perm[4:]
    # from a clone, and concurrently
    batch.append({"op": "clone", "reg": 0})
    batch.append({"op": "render", "reg": 1, "api": "render", "name": "main", "data": d})
    batch.append({"op": "render_mt", "reg": 0, "api": "render", "name": "main", "data": d, "threads": rng.pick([2, 4, 8, 16])})
    batch.append({"op": "render_mt", "reg": 0, "api": "render_template", "src": main, "data": d, "threads": rng.pick([2, 3, 5])})
    # history independence across registries: the same template string through render_template on a registry with the OTHER
    # prevent_indent setting, directly after this one rendered it, and again after something else was rendered in between
    isrc = "i\n    {{> mlp}}\nj"
    ops = ops + [{"op": "reg_string", "reg": 0, "name": "mlp", "src": "m1\nm2\n"}]
    k0 = len(ops) + len(batch)
    batch += [{"op": "render", "reg": 0, "api": "render_template", "src": isrc, "data": d, "same": "A"},
              {"op": "set_prevent_indent", "reg": 1, "v": not cfg["prevent_indent"]},
              {"op": "render", "reg": 1, "api": "render_template", "src": isrc, "data": d, "same": "B"},
              {"op": "render", "reg": 1, "api": "render_template", "src": "other", "data": d},
              {"op": "render", "reg": 1, "api": "render_template", "src": isrc, "data": d, "same": "B"},
              {"op": "render", "reg": 0, "api": "render_template", "src": isrc, "data": d, "same": "A"}]
    return {"kind": "session", "regs": [cfg], "ops": ops + batch}, {"ncalls": len(batch), "pi": cfg["prevent_indent"]}


def generate(rng, n, tier="quick"):
    out = []
    for i in range(n):
        c, m = gen_case(rng.fork(i), i, tier)
        c["id"] = "%s-%06d" % (ID, i)
        out.append((c, m))
    return out


def canon(r, unnamed_ok=True):
    """what must agree: the bytes, or the error (reason, payload, position); the template NAME in an error is the
    registered name for named entry points and absent for render_template*: compared separately"""
    if r.get("r") == "ok":
        return ("ok", r.get("out"))
    if r.get("r") == "rerr":
        if r.get("reason") == "TemplateNotFound":
            return ("err", "TemplateNotFound")
        return ("err", r.get("reason"), str(r.get("args")), r.get("line"), r.get("col"))
    return (r.get("r"),)


def oracle(case, meta, impl):
    if impl.get("r") != "session":
        return ["no result"]
    rs = impl["results"]
    ops = case["ops"]
    v = []
    ref = None
    named_name = None
    same = {}
    for op, r in zip(ops, rs):
        if op["op"] not in ("render", "render_mt"):
            continue
        if op.get("rust_data"):
            if not (r.get("r") == "rerr" and r.get("reason") == "SerdeError"):
                v.append("entry point %s on data serde_json cannot represent gave %s %s, not the serialization error" % (op.get("api"), r.get("r"), r.get("reason", r.get("out"))))
            continue
        if op.get("same"):
            c = canon(r)
            if op["same"] in same and same[op["same"]] != c:
                v.append("render_template of the same string on the same registry gave %s, earlier %s (the result depends on what was rendered before)" % (str(c)[:120], str(same[op["same"]])[:120]))
            same.setdefault(op["same"], c)
            continue
        if op.get("src") == "other":
            continue
        if r.get("r") == "mt_disagree":
            v.append("concurrent renders disagree with the sequential one")
            continue
        if r.get("r") in ("panic", "crash"):
            v.append("entry point %s did not return" % op.get("api"))
            continue
        if op.get("name") == "p0":
            continue
        c = canon(r)
        if op.get("api") in NAMED and op.get("name") in ("main", "pre") and r.get("r") == "rerr" and r.get("reason") not in ("TemplateNotFound",):
            # the template an error names: the same for the string-registered and the precompiled registration
            nm = r.get("name")
            if named_name is None:
                named_name = (op.get("name"), nm)
            elif nm != named_name[1]:
                v.append("entry %s(%s) names template %r in its error, %s named %r" % (op.get("api"), op.get("name"), nm, named_name[0], named_name[1]))
        if ref is None:
            ref = (op.get("api"), c)
        elif c != ref[1]:
            # a compile error surfaces at registration for named templates and at render for render_template
            if ref[1][0] == "err" and ref[1][1] == "TemplateNotFound" and c[0] == "err" and c[1] in ("TemplateError", "TemplateNotFound"):
                continue
            v.append("entry point %s gives %s but %s gave %s" % (op.get("api"), str(c)[:200], ref[0], str(ref[1])[:200]))
    return v


def first_render(case, impl):
    for op, r in zip(case["ops"], impl["results"]):
        if op["op"] == "render":
            return r
    return {}


def nontrivial_key(case, meta, impl):
    if impl.get("r") != "session":
        return None
    r = first_render(case, impl)
    if (r.get("r") == "ok" and r.get("out")) or (r.get("r") == "rerr" and r.get("reason") != "TemplateNotFound"):
        return case["id"]
    return None


def outcome_kind(case, meta, impl):
    if impl.get("r") != "session":
        return "none"
    r = first_render(case, impl)
    return "%s:%s" % (r.get("r"), r.get("reason", ""))
