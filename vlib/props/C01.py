"""C01 Path expressions resolve to the value the scope rules designate."""
from ..astgen import AG, gen_doc
from ..gen import enc, session, str_lit
from ..rng import Rng
from .. import ref
from .common import last, ref_outcome, check_against_ref

ID = "C01"
BUDGET = {"quick": 1500, "thorough": 60000}
RULE = ("a JSON document (nesting ≤ 4, identifier and non-identifier keys, all scalar kinds) and a template AST built "
        "over it: scope stacks of each-array / each-object / with / if / partial up to depth 5, value- and path-based scopes "
        "(literal and subexpression arguments), paths with every separator/prefix spelling, 0..k '../', @root, block-parameter "
        "heads with shadowed fields, @index/@key/@first/@last/@../x; observed through {{p}}, {{lookup o k}} and a probe helper "
        "calling RenderContext::evaluate; bare segments made of every class of the grammar's symbol characters (ASCII letters, digits, - _ $ :, and the ends of the three non-ASCII ranges U+0080, U+07FF, U+0800, U+FFFF, U+10000, U+10FFFF) in nine spellings each; non-trivial = the reference renderer gives a definite output; distinct by output text")
DEFINITE_FLOOR = 0.5
ASSUMPTIONS = ["block-parameter heads are looked up regardless of ../ ./ this. (reading fixed toward the code)",
               "a non-numeric segment applied to an array is outside the property (oracle: any)",
               "floats in data are excluded from the reference-oracle cases (text form is serde_json/zmij's)"]


def gen_case(rng: Rng, i):
    data = gen_doc(rng, 4)
    mode = rng.weighted([("tmpl", 6), ("lookup", 2), ("evalp", 2)])
    cfg = {"strict": False, "escape": rng.pick(["html", "none", "mark"]),
           "helpers": [{"name": "evalp", "kind": "evalp"}]}
    partials = {}
    pnames = []
    if rng.chance(0.35):
        pnames = ["pa"]
        pg = AG(rng.fork("pa"), data, [], opt={"partials": False})
        partials["pa"] = pg.nodes([ref.Scope(data, "partial")], 2)
        # inside a partial the caller's block parameters, @-variables and outer scopes are out of reach: probe the names
        # the generated block parameters use (they resolve to fields of the partial's own context, or to nothing)
        r2 = rng.fork("probe")
        for nm in r2.shuffle(["it", "k", "v", "x", "name", "w"])[:r2.range(1, 3)]:
            partials["pa"].append({"t": "text", "s": "|"})
            partials["pa"].append({"t": "expr", "arg": {"a": "path", "ups": 0, "root": False, "segs": [nm], "this": False}, "html": 0})
    ag = AG(rng.fork("main"), data, pnames, opt=({"missing": 0.15, "bp": 0.9} if pnames and rng.chance(0.6) else {"missing": 0.15}))
    if mode == "tmpl":
        ast = ag.nodes([ref.Scope(data, "root")], rng.range(2, 5))
        asts = dict(partials, main=ast)
        srcs = {}
        for n, a in asts.items():
            s = ref.print_nodes(rng.fork("print" + n), a)
            if s is None:
                return None
            srcs[n] = s
        case = session(cfg, [(n, s) for n, s in srcs.items() if n != "main"] + [("main", srcs["main"])],
                       {"api": "render", "name": "main"}, data)
        oc = ref_outcome(asts, "main", data, False, escape_fn(cfg["escape"]))
        return case, {"mode": mode, "oracle": list(oc), "stats": ag.stats}
    # lookup / evaluate agree with the same path written inline
    a = ag.arg([ref.Scope(data, "root")])
    if a["a"] != "path" or a.get("root") or a.get("ups") or not a["segs"]:
        return None
    inline = ref.print_arg(rng, a)
    if inline is None:
        return None
    if mode == "lookup":
        base = dict(a, segs=a["segs"][:-1])
        bt = ref.print_arg(rng, base, True)
        k = a["segs"][-1]
        bv = ref.descend(data, a["segs"][:-1])
        if bt is None or not isinstance(bv, (dict, list)):
            return None
        if isinstance(bv, list):
            if not k.isdigit():
                return None
            key = k
        else:
            key = str_lit(rng, k)
        tpl = "[{{{" + inline + "}}}|{{{lookup " + bt + " " + key + "}}}]"
    else:
        tpl = "[{{{" + inline + "}}}|{{evalp " + str_lit(rng, inline) + "}}]"
    case = session(cfg, [("main", tpl)], {"api": "render", "name": "main"}, data)
    return case, {"mode": mode, "oracle": ["pair"], "stats": ag.stats}


def escape_fn(name):
    from .common import escape_of
    return escape_of(name)


def generate(rng, n, tier="quick"):
    out = []
    i = 0
    while len(out) < n:
        r = gen_case(rng.fork(i), i)
        i += 1
        if r is None:
            continue
        c, m = r
        c["id"] = "%s-%06d" % (ID, i)
        out.append((c, m))
    # directed: every kind of character a bare path segment may be made of (the classes of the grammar's symbol_char, at the
    # ends of its code-point ranges), in the spellings {{k}}, {{this.k}}, {{./k}}, {{o/k}}, {{../k}} inside with, {{@root.k}},
    # as a helper argument and as an each collection – the segment designates the field of that name
    chars = ["a", "Z", "0", "-", "_", "$", ":", "\u0080", "\u07ff", "\u0800", "\uffff", "\U00010000", "\U0001F600", "\U0010ffff", "\u00e9", "\u4e2d"]
    d = 0
    for ch in chars:
        for key in (ch if ch not in "0-" else "k" + ch, "k" + ch + "z", ch + ch if ch not in "0-" else "k" + ch + ch):
            data = {key: "V", "o": {key: "W"}, "xs": {key: [1, 2]}}
            src = ("[{{%s}}|{{this.%s}}|{{./%s}}|{{o/%s}}|{{#with o}}{{../%s}}{{/with}}|{{@root.%s}}|{{lookup o \"%s\"}}|"
                   "{{#each xs.%s}}{{this}}{{/each}}|{{#if %s}}T{{/if}}]") % ((key,) * 9)
            case = session({"escape": "none"}, [("main", src)], {"api": "render", "name": "main"}, data)
            case["id"] = "%s-sym%03d" % (ID, d)
            d += 1
            out.append((case, {"mode": "symchar", "oracle": ["must", "[V|V|V|W|V|V|W|12|T]"]}))
    # directed: a [literal] segment designates the key spelled between the brackets, blanks at its ends included – next to a field
    # whose name is the same without them, in every position a path can stand
    for key in [" k", "k ", " k ", "\tk", " ", "  ", " this ", " this", "k\n"]:
        bare = key.strip()
        data = {key: "P", "o": {key: "Q"}, "xs": {key: [1, 2]}}
        if bare and bare != "this":
            data[bare] = "U"
            data["o"][bare] = "U2"
            data["xs"][bare] = [9]
        import json as _json
        src = ("[{{[%s]}}|{{this.[%s]}}|{{./[%s]}}|{{o.[%s]}}|{{#with o}}{{../[%s]}}{{/with}}|{{@root.[%s]}}|{{lookup o %s}}|"
               "{{#each xs.[%s]}}{{this}}{{/each}}|{{#if [%s]}}T{{/if}}|{{#with o as |x|}}{{x.[%s]}}{{/with}}]") % (
                   (key,) * 6 + (_json.dumps(key),) + (key,) * 3)
        if not bare:
            # in parameter position a blank-only [ ] is the empty array LITERAL (the grammar tries literals first)
            src = src.replace("{{#if [%s]}}" % key, "{{#if this.[%s]}}" % key)
        case = session({"escape": "none"}, [("main", src)], {"api": "render", "name": "main"}, data)
        case["id"] = "%s-pad%03d" % (ID, d)
        d += 1
        out.append((case, {"mode": "padkey", "oracle": ["must", "[P|P|P|Q|P|P|Q|12|T|Q]"]}))
    # directed: a block parameter designates the VALUE it was bound to, with its type: the index parameter of an array iteration is a
    # number (usable as a lookup index, equal to a literal number), the key parameter of an object iteration a string
    data = {"xs": ["a", "b"], "ys": ["Y0", "Y1"], "o": {"k": ["p"]}, "m": {"0": "S0", "1": "S1"}}
    src = ("[{{#each xs as |v i|}}{{lookup ../ys i}}{{#if (eq i 0)}}z{{/if}}{{#if (eq i \"0\")}}STR{{/if}}{{/each}}|"
           "{{#each o as |v k|}}{{lookup ../o k}}{{#if (eq k \"k\")}}s{{/if}}{{/each}}|"
           "{{#each xs as |v i|}}{{#with ../ys as |w|}}{{lookup w i}}{{/with}}{{/each}}|{{#each xs as |v i|}}{{lookup ../m i}}{{/each}}]")
    case = session({"escape": "none"}, [("main", src)], {"api": "render", "name": "main"}, data)
    case["id"] = "%s-bptype" % ID
    out.append((case, {"mode": "bptype", "oracle": ["any", "lookup of an object by a number is left to the model"]}))
    src2 = ("[{{#each xs as |v i|}}{{lookup ../ys i}}{{#if (eq i 0)}}z{{/if}}{{#if (eq i \"0\")}}STR{{/if}}{{/each}}|"
            "{{#each o as |v k|}}{{lookup ../o k}}{{#if (eq k \"k\")}}s{{/if}}{{/each}}|"
            "{{#each xs as |v i|}}{{#with ../ys as |w|}}{{lookup w i}}{{/with}}{{/each}}]")
    case = session({"escape": "none"}, [("main", src2)], {"api": "render", "name": "main"}, data)
    case["id"] = "%s-bptype2" % ID
    out.append((case, {"mode": "bptype", "oracle": ["must", "[Y0zY1|[p]s|Y0Y1]"]}))
    # directed: a block parameter that holds a VALUE (the index / key parameter of an each; the element parameter of an each / with over
    # a derived value: a subexpression result, a literal) spelled behind one or more `../`: the head is the block parameter, the rest of
    # the path walks into ITS value – the same as without the `../` (the pinned behaviour; the crate and the model are compared on every
    # row, the rows marked `must` also against the written expectation)
    data = {"list": [{"n": "a", "sub": {"z": 1}, "it": {"n": "WRONG"}}, {"n": "b", "sub": {"z": 2}}], "i": "WRONG", "o": {"p": {"n": "P", "k": "WRONG"}, "q": {"n": "Q"}}}
    rows_bp = [
        ("{{#each list as |it i|}}{{#with sub}}{{../i}}{{../it.n}}{{i}}{{it.n}}{{/with}};{{/each}}", ["must", "0a0a;1b1b;"]),
        ("{{#each (lookup this \"list\") as |it i|}}{{#with sub}}{{../it.n}}{{../i}}{{/with}};{{/each}}", ["must", "a0;b1;"]),
        ("{{#each (lookup this \"list\") as |it|}}{{#with it.sub}}{{../it.n}}{{../it.sub.z}}{{/with}};{{/each}}", ["must", "a1;b2;"]),
        ("{{#each o as |v k|}}{{#with v}}{{../k}}:{{../v.n}}{{/with}};{{/each}}", ["must", "p:P;q:Q;"]),
        ("{{#each [1,2] as |e j|}}{{#if true}}{{../e}}{{../j}}{{e}}{{j}}{{/if}};{{/each}}", ["any", "`../` through an if (no scope pushed)"]),
        ("{{#with (lookup o \"p\") as |w|}}{{#with n}}{{../w.n}}{{w.n}}{{/with}}{{/with}}", ["must", "PP"]),
        ("{{#each list as |it i|}}{{#each sub as |v k|}}{{../k}}{{../../i}}{{../i}}{{../v}}{{/each}};{{/each}}", ["any", "two levels"]),
        ("{{#each list as |it i|}}{{#with sub}}{{#with z}}{{../../i}}{{../../it.n}}{{/with}}{{/with}};{{/each}}", ["any", "two levels"]),
        ("{{#each \"ab\" as |c|}}{{c}}{{/each}}|{{#with \"s\" as |w|}}{{#with @root.o}}{{../w}}{{/with}}{{/with}}", ["any", "literal"]),
    ]
    for k, (src, orc) in enumerate(rows_bp):
        case = session({"escape": "none"}, [("main", src)], {"api": "render", "name": "main"}, data)
        case["id"] = "%s-bpup%02d" % (ID, k)
        out.append((case, {"mode": "bpup", "oracle": orc}))
    # directed: a numeric segment far beyond the end of an array designates nothing – at every magnitude a machine index can have
    # (the ends of 16-, 32- and 64-bit ranges), in every spelling of a path step; `lookup` agrees with the inline path
    data = {"xs": ["a", "b"], "o": {"xs": ["c"]}}
    for n in [2, 255, 256, 65535, 65536, 2**31 - 1, 2**31, 2**32 - 1, 2**32, 2**32 + 1, 2**53, 2**63 - 1, 2**63, 2**64 - 1]:
        src = ("[{{xs.%d}}|{{xs.[%d]}}|{{this.xs.%d}}|{{./xs/%d}}|{{#with o}}{{../xs.%d}}|{{xs.%d}}{{/with}}|{{@root.xs.%d}}|"
               "{{#each xs}}{{../xs.%d}}{{/each}}|{{#with xs as |y|}}{{y.%d}}{{/with}}|{{lookup xs %d}}|{{#if xs.%d}}T{{else}}F{{/if}}]") % ((n,) * 11)
        case = session({"escape": "none"}, [("main", src)], {"api": "render", "name": "main"}, data)
        case["id"] = "%s-bigidx%02d" % (ID, d)
        d += 1
        out.append((case, {"mode": "bigidx", "oracle": ["must", "[||||||||||F]"]}))
    for n in [2**64, 2**64 + 1, 10**30]:
        src = "[{{xs.%d}}]" % n
        case = session({"escape": "none"}, [("main", src)], {"api": "render", "name": "main"}, data)
        case["id"] = "%s-hugeidx%02d" % (ID, d)
        d += 1
        out.append((case, {"mode": "bigidx", "oracle": ["any", "an index no machine word holds: the crate's InvalidJsonIndex is compared with the model"]}))
    # the family of the Lean theorem C01.parent_path_in_with_reads_the_outer_scope: L ++ {{#with v}}{{../x}}{{/with}} ++ R for every truthy
    # data.v (which holds its OWN x) and every data.x: escape(text of data.x) – the field of the scope around the block (exact)
    from .C03 import thm_left, thm_right
    from .common import escape_of
    tr = rng.fork("thmup")
    for k in range(60 if tier == "quick" else 1500):
        r = tr.fork(k)
        L, R = thm_left(r), thm_right(r)
        val, txt = r.pick([("<b>&\"'`=", "<b>&\"'`="), ("outer", "outer"), ("", ""), (7, "7"), (-2, "-2"), (True, "true"), (False, "false"), (None, ""), ("a\nb", "a\nb"),
                           ([1, "a"], "[1, a]"), ({"k": 1}, "[object]")])
        v = r.pick([{"x": "INNER"}, {"x": "INNER", "k": 1}, [0], "str", 5, True, {"y": 1}])
        escn = r.pick(["none", "mark", "html"])
        case = session({"escape": escn}, [("main", L + "{{#with v}}{{../x}}{{/with}}" + R)], {"api": "render", "name": "main"}, {"v": v, "x": val})
        case["id"] = "%s-thmup%04d" % (ID, k)
        out.append((case, {"mode": "thmup", "oracle": ["must", L + escape_of(escn)(txt) + R]}))
    # the family of the Lean theorem C01.path_in_with_reads_the_with_scope (Props/C01d): L ++ {{#with v}}{{x}}{{/with}} ++ R for every truthy
    # data.v holding a field x (the data holds a DIFFERENT x): escape(text of data.v.x) – the field of the scope the helper pushed (exact)
    tr = rng.fork("thmin")
    for k in range(60 if tier == "quick" else 1500):
        r = tr.fork(k)
        L, R = thm_left(r), thm_right(r)
        val, txt = r.pick([("<b>&\"'`=", "<b>&\"'`="), ("inner", "inner"), ("", ""), (7, "7"), (-2, "-2"), (True, "true"), (False, "false"), (None, ""), ("a\nb", "a\nb"),
                           ([1, "a"], "[1, a]"), ({"k": 1}, "[object]")])
        v = r.pick([{"x": val}, {"x": val, "k": 1}, {"a": 0, "x": val, "y": {"x": "DEEPER"}}])
        escn = r.pick(["none", "mark", "html"])
        case = session({"escape": escn}, [("main", L + "{{#with v}}{{x}}{{/with}}" + R)], {"api": "render", "name": "main"}, {"v": v, "x": "OUTER"})
        case["id"] = "%s-thmin%04d" % (ID, k)
        out.append((case, {"mode": "thmin", "oracle": ["must", L + escape_of(escn)(txt) + R]}))
    # the family of the Lean theorem C01.this_in_with_is_the_with_value (Props/C01d): L ++ {{#with v}}{{this}}{{/with}} ++ R for every truthy
    # data.v: escape(text of data.v) – inside the block the current context is the value the helper was given (exact)
    tr = rng.fork("thmthis")
    for k in range(40 if tier == "quick" else 1000):
        r = tr.fork(k)
        L, R = thm_left(r), thm_right(r)
        val, txt = r.pick([("<b>&\"'`=", "<b>&\"'`="), ("inner", "inner"), (7, "7"), (-2, "-2"), (True, "true"), ("a\nb", "a\nb"), ([1, "a"], "[1, a]"), ({"k": 1}, "[object]"),
                           ({"this": "T"}, "[object]"), ([[], {}], "[[], [object]]"), (2.5, "2.5")])
        escn = r.pick(["none", "mark", "html"])
        case = session({"escape": escn}, [("main", L + "{{#with v}}{{this}}{{/with}}" + R)], {"api": "render", "name": "main"}, {"v": val, "this": "FIELD"})
        case["id"] = "%s-thmthis%04d" % (ID, k)
        out.append((case, {"mode": "thmthis", "oracle": ["must", L + escape_of(escn)(txt) + R]}))
    return out


def oracle(case, meta, impl):
    l = last(impl)
    oc = meta["oracle"]
    if oc[0] == "pair":
        # the two spellings must print the same value (lookup: null prints as nothing; evalp wraps in <>)
        if l.get("r") != "ok":
            return None
        out = l["out"]
        if not (out.startswith("[") and out.endswith("]") and "|" in out):
            return None
        if meta["mode"] == "lookup":
            a, b = out[1:-1].split("|", 1) if out.count("|") == 1 else (None, None)
            if a is None:
                return None
            return [] if a == b else ["lookup disagrees with the inline path: %r vs %r" % (a, b)]
        a, b = out[1:-1].split("|", 1) if out.count("|") == 1 else (None, None)
        if a is None:
            return None
        ok = (b == "<" + a + ">") or (b == "<missing>" and a == "")
        return [] if ok else ["evaluate() disagrees with the inline path: %r vs %r" % (a, b)]
    return check_against_ref(tuple(oc), l)


def nontrivial_key(case, meta, impl):
    l = last(impl)
    if l.get("r") == "ok" and l.get("out"):
        return l["out"]
    return None


def distribution(cases):
    d = {}
    for c, m in cases:
        d["mode." + m["mode"]] = d.get("mode." + m["mode"], 0) + 1
        d["oracle." + m["oracle"][0]] = d.get("oracle." + m["oracle"][0], 0) + 1
        for k, v in m.get("stats", {}).items():
            d[k] = d.get(k, 0) + v
    return d
