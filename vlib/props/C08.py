"""C08 Rendering is compositional: a finished construct leaves no trace on its siblings."""
from ..gen import TG, gen_json, session, std_helpers, enc
from ..rng import Rng
from .common import last

ID = "C08"
BUDGET = {"quick": 700, "thorough": 30000}
RULE = ("pairs of generated templates A, B (all construct kinds incl. blocks, partials, partial blocks with @partial-block, "
        "triple-brace, '~' tags, block helpers spelled without a body; nesting ≤ 5; no decorators / inline definitions in A): render(A+'|'+B) must equal "
        "render(A+'|') followed by render('|'+B) without its first '|', and fail iff one of them fails; single constructs "
        "repeated 2..4 times must yield that many copies; a probe helper reading the public RenderContext getters before and "
        "after a construct must print the same state; 169 ordered pairs of one-line operands (incl. blocks whose last child is a partial that writes nothing) composed INSIDE THE BODY OF AN INDENTED PARTIAL, where the write flags steer the indentation; 4 renders per case on the real crate, each mirrored by the model; "
        "non-trivial = A renders non-empty output; distinct by (A, B, data)")
DEFINITE_FLOOR = 0.5
ASSUMPTIONS = ["a compact comment whose text begins with '--' after optional whitespace ({{! --x}}) is excluded from the random stream (known finding F20) and runs as a listed witness",
               "indentation: constructs are compared on the same line position (the separator '|' keeps both sides' line context equal)"]


def gen_case(rng: Rng, i):
    data = gen_json(rng, 3, want="obj")
    if not isinstance(data, dict):
        data = {"a": data}
    helpers = {"mk": "mark", "pr": "probe", "vr": "vret"}
    pnames = ["p0", "p1"]
    cfg = {"strict": False, "escape": rng.pick(["html", "none", "mark"]),
           "helpers": std_helpers() + [{"name": "rcs", "kind": "rcstate"}]}
    templates = []
    for k, pn in enumerate(pnames):
        tg = TG(rng.fork("p%d" % k), data, helpers, pnames[k + 1:], opt={"inline": False, "partial_block": False, "raw": False})
        templates.append((pn, tg.partial_body(2, uses_block=(k == 0))))
    opt = {"inline": False, "decorators": False, "missing": 0.2}
    A = TG(rng.fork("A"), data, helpers, pnames, opt=opt).template(rng.range(1, 4))
    if rng.chance(0.4):
        # block helpers spelled WITHOUT a body ({{with x}}, {{each x}}, {{if x}} as plain expressions): they enter their
        # scope with nothing to render in it, and must leave it again
        keys = [k for k, v in data.items() if k.isidentifier() and v not in (None, False, 0, "", [], {})] or ["this"]
        nb = "{{%s %s%s}}" % (rng.pick(["with", "each", "if", "unless", "with", "each"]), rng.pick(keys + keys + ["nosuch", "this", "@root"]),
                              rng.pick(["", "", " as |bp|", " as |bp ix|"]))
        A = rng.pick([nb + A, A + nb, nb])
    mode = rng.pick(["pair", "pair", "repeat", "probe"])
    ops = [{"op": "reg_string", "reg": 0, "name": n, "src": s} for n, s in templates]
    def rend(src):
        return {"op": "render", "reg": 0, "api": "render_template", "src": src, "data": enc(data)}
    if mode == "pair":
        B = TG(rng.fork("B"), data, helpers, pnames, opt=dict(opt, inline=True)).template(rng.range(1, 3))
        ops += [rend(A + "|" + B), rend(A + "|"), rend("|" + B)]
    elif mode == "repeat":
        k = rng.range(2, 4)
        # every copy has the same neighbours ('|' on both sides): the standalone-line rule looks at the text around a tag,
        # so a copy at the very start / end of the source is a different program from one in the middle
        ops += [rend("|" + "|".join([A] * k) + "|"), rend("|" + A + "|")]
        mode = "repeat%d" % k
    else:
        ops += [rend("{{rcs}}|" + A + "|{{rcs}}")]
    return {"kind": "session", "regs": [cfg], "ops": ops}, {"mode": mode, "A": A}


def generate(rng: Rng, n, tier="quick"):
    out = []
    for i in range(n):
        c, m = gen_case(rng.fork(i), i)
        c["id"] = "%s-%06d" % (ID, i)
        out.append((c, m))
    # directed: partial blocks inside a partial that was itself called with a block (what `@partial-block` denotes after a
    # finished nested block call), and body-less block helpers – every operand in pair and repeat mode
    regs = [("lay", "{{#> inner}}x{{/inner}}|{{> @partial-block}}"), ("inner", "[{{> @partial-block}}]"),
            ("lay2", "{{> @partial-block}}{{#> inner}}y{{/inner}}{{> @partial-block}}"), ("slot", "<{{> @partial-block}}>")]
    operands = ["{{#> lay}}B{{/lay}}", "{{#> lay2}}C{{v}}{{/lay2}}", "{{#> lay}}{{#> lay2}}D{{/lay2}}{{/lay}}", "{{#> slot}}{{#> lay}}E{{/lay}}{{/slot}}",
                "{{with o}}", "{{each o}}", "{{#> inner}}{{with o}}{{v}}{{/inner}}",
                # a block call whose partial does not exist renders its own block (failover content)
                "{{#> nosuch}}dflt{{v}}{{/nosuch}}", "{{#> lay}}{{#> nosuch}}F{{/nosuch}}{{/lay}}", "{{#> nosuch}}{{#> lay}}G{{/lay}}{{/nosuch}}"]
    dd = {"v": "V", "o": {"v": "inner"}}
    k = 0
    for A in operands:
        for B in operands + ["{{v}}{{this.v}}{{#with o}}{{v}}{{../v}}{{/with}}"]:
            ops = [{"op": "reg_string", "reg": 0, "name": nm, "src": sr} for nm, sr in regs]
            rend = lambda src: {"op": "render", "reg": 0, "api": "render_template", "src": src, "data": enc(dd)}
            c = {"kind": "session", "regs": [{"escape": "none"}], "ops": ops + [rend(A + "|" + B), rend(A + "|"), rend("|" + B)], "id": "C08-d%03d" % k}
            out.append((c, {"mode": "pair", "A": A}))
            k += 1
        c = {"kind": "session", "regs": [{"escape": "none"}], "ops": [{"op": "reg_string", "reg": 0, "name": nm, "src": sr} for nm, sr in regs]
             + [{"op": "render", "reg": 0, "api": "render_template", "src": "|" + "|".join([A] * 3) + "|", "data": enc(dd)},
                {"op": "render", "reg": 0, "api": "render_template", "src": "|" + A + "|", "data": enc(dd)}], "id": "C08-d%03d" % k}
        out.append((c, {"mode": "repeat3", "A": A}))
        k += 1
    # … pairs under the HTML escape function whose right operand writes characters the function changes: an unescaped tag of every
    # kind on the left (a value, a helper call with an argument / with a hash, a block inside it) leaves escaping as it found it
    lefts = ["{{{h}}}", "{{&h}}", "{{{lookup o \"v\"}}}", "{{&lookup o \"v\"}}", "{{{mk 1}}}", "{{{mk k=1}}}", "{{{vr h}}}", "{{{nosuch}}}", "{{{lookup o \"nope\"}}}",
             "{{#if h}}{{{lookup o \"v\"}}}{{/if}}", "{{{len h}}}"]
    rights = ["{{h}}", "{{lookup o \"v\"}}", "{{#each hs}}{{this}}{{/each}}", "{{mk h}}"]
    dh = {"h": "<b>&", "o": {"v": "<i>"}, "hs": ["<", ">"]}
    for A in lefts:
        for B in rights:
            rend = lambda src: {"op": "render", "reg": 0, "api": "render_template", "src": src, "data": enc(dh)}
            c = {"kind": "session", "regs": [{"escape": "html", "helpers": [{"name": "mk", "kind": "mark", "tag": "M"}, {"name": "vr", "kind": "vret"}]}],
                 "ops": [rend(A + "|" + B), rend(A + "|"), rend("|" + B)], "id": "C08-d%03d" % k}
            out.append((c, {"mode": "pair", "A": A}))
            k += 1
    # … and the same pairs INSIDE the body of a partial called with a block (siblings there share what `@partial-block` denotes)
    inner_ops = ["{{#> inner}}x{{/inner}}", "{{> @partial-block}}", "{{#> inner}}{{> @partial-block}}{{/inner}}", "{{#> slot}}s{{/slot}}", "{{v}}",
                 "{{#> nosuch}}dflt{{/nosuch}}", "{{#> nosuch}}{{#> inner}}n{{/inner}}{{/nosuch}}", "{{#> inner}}{{#> nosuch}}m{{/nosuch}}{{/inner}}",
                 # a block call whose block is EMPTY (no element at all)
                 "{{#> inner}}{{/inner}}", "{{#> slot}}{{/slot}}"]
    for A in inner_ops:
        for B in inner_ops:
            # … the enclosing partial called with a block that writes something, and with an EMPTY block
            for blk in ("Z{{v}}", ""):
                ops = [{"op": "reg_string", "reg": 0, "name": nm, "src": sr} for nm, sr in regs]
                ops += [{"op": "reg_string", "reg": 0, "name": "layAB", "src": A + "|" + B}, {"op": "reg_string", "reg": 0, "name": "layA", "src": A + "|"},
                        {"op": "reg_string", "reg": 0, "name": "layB", "src": "|" + B}]
                rend = lambda nm: {"op": "render", "reg": 0, "api": "render_template", "src": "{{#> %s}}%s{{/%s}}" % (nm, blk, nm), "data": enc(dd)}
                c = {"kind": "session", "regs": [{"escape": "none"}], "ops": ops + [rend("layAB"), rend("layA"), rend("layB")], "id": "C08-d%03d" % k}
                out.append((c, {"mode": "pair", "A": A}))
                k += 1
    # … and pairs composed INSIDE THE BODY OF AN INDENTED PARTIAL (an indentation string is active: the write flags that decide
    # where it is put are part of the state a finished construct must leave alone); operands write no line break
    regs2 = [("nothing", ""), ("emptyif", "{{#if f}}x{{/if}}"), ("slot", "<{{> @partial-block}}>"), ("one", "1")]
    ind_ops = ["x", "{{v}}", "{{#if t}}x{{> nothing}}{{/if}}", "{{#if t}}x{{#> nothing}}{{/nothing}}{{/if}}", "{{#> slot}}s{{> nothing}}{{/slot}}",
               "{{#each ys}}y{{> emptyif}}{{/each}}", "{{> nothing}}", "{{#if t}}{{> nothing}}z{{/if}}", "{{#with o}}w{{> nothing}}{{/with}}",
               "{{#if t}}x{{> one}}{{> nothing}}{{/if}}", "{{#unless f}}u{{#if f}}n{{/if}}{{/unless}}", "{{> one}}", "{{#if t}}{{/if}}"]
    dd2 = {"v": "V", "t": True, "f": False, "ys": [1, 2], "o": {"v": "inner"}}
    for A in ind_ops:
        for B in ind_ops:
            ops = [{"op": "reg_string", "reg": 0, "name": nm, "src": sr} for nm, sr in regs2]
            ops += [{"op": "reg_string", "reg": 0, "name": "ab", "src": A + "|" + B}, {"op": "reg_string", "reg": 0, "name": "a_", "src": A + "|"},
                    {"op": "reg_string", "reg": 0, "name": "_b", "src": "|" + B}]
            rend = lambda nm: {"op": "render", "reg": 0, "api": "render_template", "src": "  {{> %s}}\nE" % nm, "data": enc(dd2)}
            top = {"op": "render", "reg": 0, "api": "render", "name": "ab", "data": enc(dd2)}
            c = {"kind": "session", "regs": [{"escape": "none"}], "ops": ops + [top, rend("ab"), rend("a_"), rend("_b")], "id": "C08-i%03d" % k}
            out.append((c, {"mode": "pairind", "A": A}))
            k += 1
    # a STANDALONE partial line whose partial writes nothing contributes nothing: the same partial body with and without that line
    # renders alike, wherever the body is included (mid-line, on an indented line of its own, in a loop) and whatever follows the line
    el = 0
    for main in ("- {{> item}}", "<ul>\n    {{> item}}\n</ul>", "{{#each l}}\n  {{> item}}\n{{/each}}|", "{{#with o}}\n\t{{> item}}\n{{/with}}", "a\n {{#> item}}{{/item}}\nb"):
        for pre in ("", "abc{{y~}}\n", "abc\n", "{{y}}\n", "abc{{y~}}\n\n"):
            for line in ("  {{> empty}}\n", "\t{{> e2}}\n", "{{> empty}}\n", "  {{> empty}}\n  {{> e2}}\n"):
                for post in ("foo\n", "{{y}}\n", "  foo\n", "foo", "{{#if y}}foo{{/if}}\n"):
                    if "~}}" in pre and post[0] in " \t":
                        continue         # the `~` reaches to the next TAG: with the line it stops there, without it it takes the next line's indentation
                    dd = {"y": "Y", "l": [1, 2], "o": {"y": "Z"}, "f": False}
                    regs = [{"op": "reg_string", "reg": 0, "name": "empty", "src": ""}, {"op": "reg_string", "reg": 0, "name": "e2", "src": "{{#if f}}x{{/if}}"}]
                    rnd = lambda body: [{"op": "reg_string", "reg": 0, "name": "item", "src": body},
                                        {"op": "render", "reg": 0, "api": "render_template", "src": main, "data": enc(dd)}]
                    c = {"kind": "session", "regs": [{"escape": "none"}], "ops": regs + rnd(pre + line + post) + rnd(pre + post), "id": "C08-el%04d" % el}
                    el += 1
                    out.append((c, {"mode": "emptyline", "A": pre + line + post}))
    # listed witness of F20: a compact comment whose text begins with `--` opens a block comment when a later `--}}` exists
    A = "x{{! ---}}y"
    c = {"kind": "session", "regs": [{"escape": "none"}], "ops": [
        {"op": "render", "reg": 0, "api": "render_template", "src": "|" + A + "|" + A + "|", "data": enc({})},
        {"op": "render", "reg": 0, "api": "render_template", "src": "|" + A + "|", "data": enc({})}], "id": "C08-F20"}
    out.append((c, {"mode": "repeat2", "A": A}))
    return out


def oracle(case, meta, impl):
    if impl.get("r") != "session":
        return ["no result: %s" % impl.get("r")]
    rs = impl["results"]
    mode = meta["mode"]
    if mode == "pair":
        ab, a, b = rs[-3], rs[-2], rs[-1]
        if a.get("r") == "rerr" and a.get("reason") == "TemplateError":
            return None        # A does not compile alone: not a well-formed operand
        if b.get("r") == "rerr" and b.get("reason") == "TemplateError":
            return None
        if ab.get("r") == "rerr" and ab.get("reason") == "TemplateError":
            return None
        if a.get("r") == "ok" and b.get("r") == "ok":
            exp = a["out"] + b["out"][1:]
            if ab.get("r") != "ok":
                return ["A and B render alone but A|B fails: %s" % ab.get("reason")]
            return [] if ab["out"] == exp else ["render(A|B) = %r but render(A|) ++ render(|B) = %r" % (ab["out"], exp)]
        if ab.get("r") == "ok":
            return ["one operand fails alone but the combination renders"]
        return []
    if mode == "emptyline":
        w, wo = rs[-3], rs[-1]
        if w.get("r") != "ok" or wo.get("r") != "ok":
            return None
        return [] if w["out"] == wo["out"] else ["with the empty standalone partial line the body renders %r, without it %r" % (w["out"], wo["out"])]
    if mode == "pairind":
        ab, a, b = rs[-3], rs[-2], rs[-1]
        if a.get("r") != "ok" or b.get("r") != "ok":
            return None
        if not (a["out"].endswith("|E") and b["out"].startswith("  |")):
            return None
        exp = a["out"][:-1] + b["out"][3:]
        if ab.get("r") != "ok":
            return ["A and B render alone (inside an indented partial) but A|B fails: %s" % ab.get("reason")]
        v = [] if ab["out"] == exp else ["inside an indented partial render(A|B) = %r but render(A|) ++ render(|B) = %r" % (ab["out"], exp)]
        # the separator is itself a sibling of A: also compare with the same line rendered where no indentation is active –
        # one line of output is that line behind the indentation, once
        top = rs[-4]
        if top.get("r") == "ok" and "\n" not in top["out"]:
            exp2 = ("  " + top["out"] if top["out"] else "  ") + "E"
            if ab["out"] != exp2 and top["out"]:
                v.append("inside an indented partial the line A|B renders %r, at top level %r" % (ab["out"], top["out"]))
        return v
    if mode.startswith("repeat"):
        k = int(mode[6:])
        many, one = rs[-2], rs[-1]
        if one.get("reason") == "TemplateError" or many.get("reason") == "TemplateError":
            return None
        if one.get("r") == "ok":
            exp = "|" + "|".join([one["out"][1:-1]] * k) + "|"
            if many.get("r") != "ok":
                return ["a construct renders once but not %d times: %s" % (k, many.get("reason"))]
            return [] if many["out"] == exp else ["%d copies render %r, expected %r" % (k, many["out"], exp)]
        return [] if many.get("r") != "ok" else ["fails once but renders when repeated"]
    r = rs[-1]
    if r.get("r") != "ok":
        return None
    out = r["out"]
    first = out[:out.find("}") + 1]
    lastp = out[out.rfind("{"):]
    if not (first.startswith("{de=") and lastp.startswith("{de=")):
        return None
    return [] if first == lastp else ["render state before %s and after %s a finished construct differ" % (first, lastp)]


def nontrivial_key(case, meta, impl):
    if impl.get("r") != "session":
        return None
    l = impl["results"][-1]
    if l.get("r") == "ok" and len(l.get("out") or "") > 1:
        return case["id"]
    return None


def distribution(cases):
    d = {}
    for c, m in cases:
        d["mode." + m["mode"]] = d.get("mode." + m["mode"], 0) + 1
    return d
