"""C02 Data is escaped exactly once in {{ }} and never in {{{ }}} / {{& }}."""
from ..astgen import AG, gen_doc
from ..gen import enc, session
from ..rng import Rng
from .. import ref
from .common import last, ref_outcome, check_against_ref, escape_of

ID = "C02"
BUDGET = {"quick": 1500, "thorough": 50000}
EXHAUSTIVE = True
RULE = ("(a) html_escape on EVERY Unicode scalar value (1 112 064 chars, in 272 chunks, every run) checked against the seven-entity "
        "reference, the forbidden-character set and an explicit inverse; (b) generated templates whose data strings are drawn from "
        "an alphabet with all special characters, with expression kinds {{x}} {{{x}}} {{&x}} {{lookup ..}} {{eq ..}} and "
        "subexpressions, at top level and inside each/with/if/partials, under html_escape, no_escape and a MARKING escape fn "
        "(wraps its argument in sentinels, so 'exactly once' is visible in the output); oracle = reference renderer; the family of the Lean "
        "theorem texts_and_tags_render (texts and 1..4 value tags in any mix of {{v}} {{{v}}} {{&v}} {{this.v}} {{this/v}} {{./v}} {{ v }}, any value; oracle = the theorem's closed form, exact); "
        "non-trivial = output contains an escaped or marked value; distinct by output")
DEFINITE_FLOOR = 0.5
GENERATED_OBLIGATIONS = ["EscapeTable"]
SPECIALS = "<>\"'`=&"
NAME_CHARS = "abcxyzABZ019-_$:elsthi" + "\u0080\u00e9\u07ff\u0800\u4e2d\uffff\U00010000\U0001f600\U0010ffff"
BUILTIN_HELPERS = {"if", "unless", "each", "with", "lookup", "raw", "log", "eq", "ne", "gt", "gte", "lt", "lte", "and", "or", "not", "len"}


def ident_name(r):
    """a name the grammar reads as one identifier: symbol_char+, not beginning with `else`, not `this`, no built-in helper"""
    while True:
        nm = "".join(r.pick(list(NAME_CHARS)) for _ in range(r.pick([1, 1, 2, 3, 4, 6, 9])))
        if r.chance(0.15):
            nm = r.pick(["true", "false", "null", "123", "-1", "as", "els", "el-se", "thisx", "this-", "e", "t", "$", ":", "-", "_",
                         "1e5", "Else", "ELSE", "if-", "eachx", "\u0080", "\u07ff", "\u0800", "\uffff",
                         "\U00010000", "\U0010ffff"])
        if not nm.startswith("else") and nm != "this" and nm not in BUILTIN_HELPERS:
            return nm


def chunks():
    cps = [c for c in range(0x110000) if not (0xD800 <= c <= 0xDFFF)]
    out = []
    size = 4096
    for i in range(0, len(cps), size):
        out.append("".join(chr(c) for c in cps[i:i + size]))
    return out


def special_doc(rng):
    def s():
        return "".join(rng.pick(list(SPECIALS) + list("ab é&;#x")) for _ in range(rng.range(0, 6)))
    d = {"a": s(), "b": s(), "c": [s(), s()], "d": {"x": s(), "y": [s()]}, "n": rng.pick([0, 5, -3]), "t": True,
         "e": "", "ampv": "&amp;", "ltv": "&lt;"}
    return d


def generate(rng, n, tier="quick"):
    out = []
    for i, ch in enumerate(chunks()):
        out.append(({"kind": "escape", "s": ch, "id": "%s-esc-%03d" % (ID, i)}, {"mode": "escape", "s": ch}))
    # directed: a tag whose NAME is a subexpression, {{(lookup o "k")}}: its value is written like any other value – escaped once in
    # {{ }}, as it is in {{{ }}} – also between texts and inside a block
    dk = 0
    for esc in ("html", "mark", "none"):
        for val in ["<b>&\"'`=</b>", "a&b", 5, True, ["<", ">"], {"k": "&"}, ""]:
            txt = ref.render_value(val)
            e = escape_of(esc)(txt)
            src = "x{{(lookup o \"k\")}}|{{{(lookup o \"k\")}}}|{{#if t}}{{(lookup o \"k\")}}{{/if}}|{{(lookup (lookup p \"q\") \"k\")}}y"
            exp = "x" + e + "|" + txt + "|" + e + "|" + e + "y"
            case = session({"escape": esc}, [], {"api": "render_template", "src": src}, {"o": {"k": val}, "p": {"q": {"k": val}}, "t": True})
            case["id"] = "%s-subname%03d" % (ID, dk)
            dk += 1
            out.append((case, {"mode": "thm", "expect": exp, "esc": esc, "fam": "subname"}))
    # directed: a user helper that renders a registered template through the same render context, called from {{{ }}} and from {{ }}:
    # what the toggle is inside the nested template is not stated (model and crate are compared); what follows the call at the
    # caller's level is escaped again (checked)
    for esc in ("html", "mark"):
        for k, row in enumerate(["{{{a}}}|{{b}}", "{{b}}|{{{a}}}|{{b}}", "{{&a}}{{b}}{{#if t}}{{{a}}}{{b}}{{/if}}", "{{b}}"]):
            src = "{{{inc \"row\"}}}#{{b}}#{{inc \"row\"}}#{{b}}#{{#if t}}{{{inc \"row\"}}}{{/if}}{{b}}"
            case = session({"escape": esc, "helpers": [{"name": "inc", "kind": "incl"}]}, [("row", row)], {"api": "render_template", "src": src},
                           {"a": "<i>", "b": "<b>&", "t": True})
            case["id"] = "%s-incl%03d" % (ID, dk)
            dk += 1
            out.append((case, {"mode": "incl", "tail": escape_of(esc)("<b>&"), "esc": esc}))
    i = 0
    while len(out) < n + 272 + dk:
        r = rng.fork(i)
        i += 1
        if r.chance(0.15):
            # the family of the Lean theorem C02.texts_and_tags_render: S0 T1 S1 … Tk Sk with every Ti one of {{v}} {{{v}}} {{&v}},
            # any admissible texts (whitespace-only ones between two tags included), any value; the expectation is the theorem's
            # closed form  S0 ++ out(T1) ++ S1 ++ …  with out({{v}}) = escape(text v), out({{{v}}}) = out({{&v}}) = text v  (exact)
            from .C03 import thm_left, thm_right
            k = r.pick([1, 1, 2, 3, 4])
            val = r.pick(["".join(r.pick(list(SPECIALS) + list("ab é&;#x \n")) for _ in range(r.range(0, 8))), 5, -3, True, False, None,
                          ["<a>", "b&"], {"k": "<"}, "", "&amp;", 2 ** 64 - 1])
            esc = r.pick(["html", "mark", "none"])
            txt = ref.render_value(val)
            src = thm_left(r) if k else thm_right(r)
            exp = src
            if r.chance(0.35):
                # the family of C02.texts_and_named_tags_render (and its one-tag instances name_between_texts_escaped_once,
                # triple_name_… / amp_name_between_texts_never_escaped): S0 T1 S1 … Tk Sk where every Ti is {{name}}, {{{name}}} or
                # {{&name}} of ANY identifier – any run of the grammar's symbol_char class (the edges of its three Unicode ranges
                # included) that does not begin with `else`, is not `this` and names no registered helper – each name with its own value
                pick_name = lambda: ident_name(r)
                def pick_val():
                    return r.pick(["".join(r.pick(list(SPECIALS) + list("ab é&;#x \n")) for _ in range(r.range(0, 8))), 5, -3, True, False, None,
                                   ["<a>", "b&"], {"k": "<"}, "", "&amp;", 2 ** 64 - 1])
                data = {"w": "unused<"}
                for t in range(k):
                    nm = pick_name()
                    if nm not in data or nm == "w":
                        data[nm] = val if t == 0 else pick_val()
                    tx = ref.render_value(data[nm])
                    nxt = thm_right(r) if t == k - 1 else r.pick([thm_left(r), "", " ", "\n", "  \t"])
                    form = r.pick(["dbl", "dbl", "triple", "amp"])
                    src += {"dbl": "{{" + nm + "}}", "triple": "{{{" + nm + "}}}", "amp": "{{&" + nm + "}}"}[form] + nxt
                    exp += (escape_of(esc)(tx) if form == "dbl" else tx) + nxt
                case = session({"escape": esc}, [], {"api": "render_template", "src": src}, data)
                case["id"] = "%s-%06d" % (ID, i)
                out.append((case, {"mode": "thm", "expect": exp, "esc": esc, "fam": "name"}))
                continue
            for t in range(k):
                sp = r.pick(["{{v}}", "{{{v}}}", "{{&v}}", "{{this.v}}", "{{this/v}}", "{{./v}}", "{{ v }}"])
                nxt = thm_right(r) if t == k - 1 else r.pick([thm_left(r), "", " ", "\n", "  \t"])
                src += sp + nxt
                exp += (txt if sp in ("{{{v}}}", "{{&v}}") else escape_of(esc)(txt)) + nxt
            case = session({"escape": esc}, [], {"api": "render_template", "src": src}, {"v": val, "w": "unused<"})
            case["id"] = "%s-%06d" % (ID, i)
            out.append((case, {"mode": "thm", "expect": exp, "esc": esc}))
            continue
        data = special_doc(r)
        esc = r.pick(["html", "mark", "mark", "none"])
        cfg = {"escape": esc, "helpers": [{"name": "wr", "kind": "wr"}]}
        partials = {}
        pnames = []
        if r.chance(0.4):
            pnames = ["pa"]
            pg = AG(r.fork("pa"), data, [], opt={"partials": False, "sub": True, "wr": True, "html": 0.4, "missing": 0.05})
            partials["pa"] = pg.nodes([ref.Scope(data, "partial")], 2)
        ag = AG(r.fork("m"), data, pnames, opt={"sub": True, "wr": True, "html": 0.4, "missing": 0.05, "text": True})
        ast = ag.nodes([ref.Scope(data, "root")], r.range(1, 4))
        asts = dict(partials, main=ast)
        srcs = {}
        ok = True
        for nm, a in asts.items():
            s = ref.print_nodes(r.fork("p" + nm), a)
            if s is None:
                ok = False
                break
            srcs[nm] = s
        if not ok:
            continue
        case = session(cfg, [(nm, s) for nm, s in srcs.items() if nm != "main"] + [("main", srcs["main"])],
                       {"api": "render", "name": "main"}, data)
        case["id"] = "%s-%06d" % (ID, i)
        oc = ref_outcome(asts, "main", data, False, escape_of(esc))
        out.append((case, {"mode": "tmpl", "oracle": list(oc), "esc": esc}))
    return out


ENT = {"<": "&lt;", ">": "&gt;", '"': "&quot;", "&": "&amp;", "'": "&#x27;", "`": "&#x60;", "=": "&#x3D;"}


def unescape(t):
    inv = {v: k for k, v in ENT.items()}
    out = []
    i = 0
    while i < len(t):
        hit = None
        if t[i] == "&":
            for e, c in inv.items():
                if t.startswith(e, i):
                    hit = (e, c)
                    break
        if hit:
            out.append(hit[1])
            i += len(hit[0])
        else:
            out.append(t[i])
            i += 1
    return "".join(out)


def oracle(case, meta, impl):
    if meta["mode"] == "escape":
        s = meta["s"]
        if impl.get("r") != "esc":
            return ["html_escape did not return: %s" % impl.get("r")]
        t = impl["out"]
        v = []
        if any(ch in t for ch in "<>\"'`="):
            v.append("escaped text contains one of < > \" ' ` =")
        # '&' only as the first character of one of the seven entities
        j = 0
        while True:
            j = t.find("&", j)
            if j < 0:
                break
            if not any(t.startswith(e, j) for e in ENT.values()):
                v.append("a '&' that does not start an entity at offset %d" % j)
                break
            j += 1
        if unescape(t) != s:
            v.append("the mapping is not invertible on this chunk")
        if t != "".join(ENT.get(ch, ch) for ch in s):
            v.append("differs from the seven-entity reference mapping")
        return v
    if meta["mode"] == "incl":
        l = last(impl)
        if l.get("r") != "ok":
            return ["render failed: %s" % l.get("reason", l.get("r"))]
        parts = l["out"].split("#")
        v = []
        if len(parts) != 5 or parts[1] != meta["tail"] or parts[3] != meta["tail"] or not parts[4].endswith(meta["tail"]):
            v.append("a {{b}} after the helper call is not escaped once: %r" % l["out"])
        return v
    if meta["mode"] == "thm":
        l = last(impl)
        if l.get("r") == "ok" and l.get("out") == meta["expect"]:
            return []
        return ["text ++ {{v}} ++ text: expected %r got %r" % (meta["expect"], l.get("out", l.get("reason", l.get("r"))))]
    return check_against_ref(tuple(meta["oracle"]), last(impl))


def nontrivial_key(case, meta, impl):
    if meta["mode"] == "escape":
        return "esc:" + case["id"]
    l = last(impl)
    o = l.get("out") or ""
    if "⟦" in o or "&" in o:
        return o
    return None


def distribution(cases):
    d = {}
    for c, m in cases:
        k = "mode." + m["mode"] + ("." + m.get("esc", "") if m["mode"] == "tmpl" else "")
        d[k] = d.get(k, 0) + 1
    return d
