"""C18 A render error points at the tag that failed."""
from ..gen import enc, session
from ..rng import Rng
from .common import last

ID = "C18"
BUDGET = {"quick": 2000, "thorough": 100000}
RULE = ("multi-line template sets (multi-byte characters, CRLF, tabs) with EXACTLY ONE failing tag planted at a random "
        "nesting position (inside if / each / with bodies, else branches, else-chain links, blocks of user helpers, inline partial bodies, "
        "partial-block and fallback bodies, registered partials called from elsewhere) in a random template of the set; failure kinds: missing variable (strict), unknown "
        "helper, unknown partial, unknown decorator, helper argument error (lookup without arguments, each without argument, "
        "invalid logging level), and tags of the block kinds failing themselves – with plain bodies and with other blocks inside their bodies and branches – (unknown block decorator, inline without a name, a failing subexpression "
        "in the arguments of a partial / partial block / block helper / decorator); the generator records the template name and the 1-based line/column of the tag's '{{' "
        "(for a failing else-chain link: the chain's opening tag) – that record is the oracle; the families of the Lean theorems C18.missing_variable_points_at_the_tag and C18.unknown_helper_points_at_the_tag (any text, the failing tag, any text; name, line, column and the bytes written before the failure compared exactly); plus compile errors (name and "
        "position inside the source); the template holding the failing tag registered from a string, from a file, and from a file under dev mode "
        "(recompiled at render time), and tracked files edited into something that does not compile (the reload error carries the registered name); non-trivial = every case; distinct by (kind, position)")
DEFINITE_FLOOR = 0.95
ASSUMPTIONS = []
FAILS = [("{{nope}}", "MissingVariable", True), ("{{nohelper 1}}", "HelperNotFound", False), ("{{> nopartial}}", "PartialNotFound", False),
         ("{{*nodeco}}", "DecoratorNotFound", False), ("{{lookup}}", "ParamNotFoundForIndex", False), ("{{#each}}x{{/each}}", "ParamNotFoundForIndex", False),
         ("{{log 1 level=\"loud\"}}", "InvalidLoggingLevel", False), ("{{#nohelper 1}}x{{/nohelper}}", "HelperNotFound", False),
         ("{{@root.o.s.x}}", "MissingVariable", True), ("{{@root.arr.foo}}", "InvalidJsonIndex", False), ("{{#with nope}}x{{/with}}", "MissingVariable", True),
         ("{{eq 1}}", "ParamNotFoundForName", False), ("{{len nope}}", "ParamNotFoundForName", True),
         # tags of the block kinds that fail THEMSELVES (not something in their body): the position is the opening tag
         ("{{#*nodeco}}x\n{{/nodeco}}", "DecoratorNotFound", False), ("{{#*inline}}x\n{{/inline}}", "ParamNotFoundForIndex", False),
         ("{{#> okp (nohelper 1)}}b\n{{/okp}}", "HelperNotFound", False), ("{{> okp (nohelper 1)}}", "HelperNotFound", False),
         ("{{> (nohelper 1)}}", "HelperNotFound", False), ("{{#if (nohelper 1)}}x\n{{else}}y{{/if}}", "HelperNotFound", False),
         ("{{#each (nohelper 1)}}x\n{{/each}}", "HelperNotFound", False), ("{{*sethelper (nohelper 1)}}", "HelperNotFound", False),
         ("{{#> nosuch x=(nohelper 1)}}fb\n{{/nosuch}}", "HelperNotFound", False), ("{{#*inline (nohelper 1)}}x\n{{/inline}}", "HelperNotFound", False),
         # … the same with OTHER BLOCKS inside the failing block's body / branches (one, several, nested): the position is still
         # the failing tag's own opening tag, not that of a block opened inside it
         ("{{#nohelper 1}}a\n {{#if @root.t}}b{{/if}}c{{/nohelper}}", "HelperNotFound", False),
         ("{{#each}}\n  {{#if @root.t}}y{{/if}}\n{{/each}}", "ParamNotFoundForIndex", False),
         ("{{#each (nohelper 1)}}x\n{{#with @root.o}}\n{{#if @root.t}}z{{/if}}{{/with}}{{/each}}", "HelperNotFound", False),
         ("{{#with nope}}\n{{#each @root.one}}x{{/each}}\n {{#if @root.t}}y{{/if}}{{/with}}", "MissingVariable", True),
         ("{{#if (nohelper 1)}}x\n{{else}}\n  {{#unless @root.f}}y{{/unless}}{{/if}}", "HelperNotFound", False),
         ("{{#> okp (nohelper 1)}}b\n {{#if @root.t}}c{{/if}}{{/okp}}", "HelperNotFound", False),
         ("{{#*nodeco}}x\n{{#if @root.t}}y{{/if}}\n{{/nodeco}}", "DecoratorNotFound", False),
         ("{{#> nosuch x=(nohelper 1)}}fb\n{{#> okp}}in{{/okp}}{{/nosuch}}", "HelperNotFound", False),
         ("{{#*inline (nohelper 1)}}x\n{{#each @root.one}}i{{/each}}{{/inline}}", "HelperNotFound", False)]
FILL = ["text ", "é→ ", "{{@root.s}}", "\n", "\r\n", "\t", "  ", "{{! c }}", "x", "{{{@root.s}}} ", "{{@root.o.s}}", "😀",
        " {{~@root.s}}", "{{@root.s~}} ", "  {{~@root.o.s~}}  ", "\n  {{~#if @root.t}}y{{/if}}", "{{#if @root.t~}} y {{~/if}}", " {{~> okp}}",
        "{{{{raw}}}} r {{{{/raw}}}}", "{{#*inline \"il\"}}i{{/inline}}", "{{*sethelper \"lh\" \"L\"}}", "\\{{esc}}", "{{#> okp}}b{{/okp}}"]
DATA = {"s": "S", "t": True, "f": False, "arr": [1, 2], "o": {"s": "v"}, "one": [7]}


def filler(rng, n):
    return "".join(rng.pick(FILL) for _ in range(n))


def line_col(src, pos):
    """pest's line_col of char offset pos"""
    line, col = 1, 1
    i = 0
    pre = src[:pos]
    while i < len(pre):
        ch = pre[i]
        if ch == "\r" and i + 1 < len(pre) and pre[i + 1] == "\n":
            line += 1
            col = 1
            i += 2
            continue
        if ch == "\n":
            line += 1
            col = 1
        else:
            col += 1
        i += 1
    return line, col


MARK = "\u0000"


def wrap(rng, inner, depth):
    """nest `inner` (containing MARK at the failing tag) inside blocks; returns text with MARK placed where the
    REPORTED position must be (the tag itself, or the chain's opening tag for a failing chain link)"""
    for _ in range(depth):
        k = rng.pick(["if", "ifelse", "each", "with", "chain", "user", "unless", "inline", "pblock", "fallback"])
        a, b = filler(rng, rng.range(0, 3)), filler(rng, rng.range(0, 3))
        if k == "if":
            inner = "{{#if @root.t}}" + a + inner + b + "{{/if}}"
        elif k == "unless":
            inner = "{{#unless @root.f}}" + a + inner + b + "{{/unless}}"
        elif k == "ifelse":
            inner = "{{#if @root.f}}no{{else}}" + a + inner + b + "{{/if}}"
        elif k == "each":
            inner = "{{#each @root.one}}" + a + inner + b + "{{/each}}"
        elif k == "with":
            inner = "{{#with @root.o}}" + a + inner.replace("{{nope}}", "{{nope}}") + b + "{{/with}}"
        elif k == "user":
            inner = "{{#blk 1}}" + a + inner + b + "{{/blk}}"
        elif k == "inline":
            # the failing tag sits in an inline partial's body: it runs when the partial is called, and is reported where
            # it is WRITTEN (this template, the tag's own position)
            nm = "ix%d" % rng.range(0, 999)
            inner = "{{#*inline \"" + nm + "\"}}" + a + inner + b + "{{/inline}}" + filler(rng, rng.range(0, 2)) + "{{> " + nm + "}}"
        elif k == "pblock":
            # … in a partial-block body rendered from inside another registered partial
            inner = "{{#> wrapp}}" + a + inner + b + "{{/wrapp}}"
        elif k == "fallback":
            # … in the fallback body of a block call of a partial that does not exist
            inner = "{{#> nosuchpartial}}" + a + inner + b + "{{/nosuchpartial}}"
        else:
            # the body of a chain link: errors raised inside it already carry their own position
            inner = "{{#if @root.f}}no{{else if @root.t}}" + a + inner + b + "{{/if}}"
    return inner


def gen_case(rng, i):
    tag, reason, needs_strict = rng.pick(FAILS)
    strict = needs_strict or rng.chance(0.3)
    names = rng.shuffle(["main", "part/one", "p2"])
    where = rng.pick(["main", "main", "partial", "partial2"])
    # the failing tag, possibly as the condition of an else-chain link (position = chain's opening tag)
    chain_link = rng.chance(0.12) and tag in ("{{nohelper 1}}",)
    if chain_link:
        planted = MARK + rng.pick(["{{#if @root.f}}no{{else nohelper 1}}x{{/if}}",
                                   "{{#if @root.f}}n\n {{#with @root.o}}w{{/with}}{{else nohelper 1}}\n{{#if @root.t}}x{{/if}}{{/if}}",
                                   "{{#if @root.f}}no{{else if @root.f}}\n{{#each @root.one}}e{{/each}}{{else nohelper 1}}x{{/if}}"])
    else:
        planted = MARK + tag
    body = filler(rng, rng.range(0, 4)) + wrap(rng, planted, rng.range(0, 3)) + filler(rng, rng.range(0, 3))
    pos = body.index(MARK)
    body = body.replace(MARK, "")
    line, col = line_col(body, pos)
    ok_body = lambda: filler(rng, rng.range(1, 4))
    if where == "main":
        tmpls = {"main": body, "p1": ok_body(), "p2": ok_body()}
        tname = "main"
    elif where == "partial":
        tmpls = {"main": ok_body() + "{{> p1}}" + ok_body(), "p1": body, "p2": ok_body()}
        tname = "p1"
    else:
        tmpls = {"main": ok_body() + "{{#each @root.one}}{{> p1}}{{/each}}", "p1": ok_body() + "\n  {{> p2}}\n", "p2": body}
        tname = "p2"
    cfg = {"strict": strict, "escape": "none", "helpers": [{"name": "blk", "kind": "mark", "tag": "B"}],
           "decorators": [{"name": "sethelper", "kind": "sethelper"}]}
    case = session(cfg, [("okp", "P"), ("wrapp", "<\n  {{> @partial-block}}>")] + [(n, tmpls[n]) for n in ("p2", "p1", "main")], {"api": "render", "name": "main"}, DATA)
    # how the template holding the failing tag was registered: from a string, from a file, or from a file under dev mode
    # (re-read and recompiled at render time) – the error names the registered name and the tag's position in each of them
    via = rng.weighted([("string", 4), ("file", 1), ("devfile", 3)])
    if via != "string":
        ops = []
        for o in case["ops"]:
            if o["op"] == "reg_string" and o["name"] == tname:
                ops += [{"op": "write_file", "file": "f0", "content": o["src"]}, {"op": "reg_file", "reg": 0, "name": tname, "file": "f0"}]
            else:
                ops.append(o)
        case["ops"] = ([{"op": "set_dev", "reg": 0, "v": True}] if via == "devfile" else []) + ops
    return case, {"name": tname, "line": line, "col": col, "reason": reason, "tag": tag, "where": where, "chain": chain_link, "via": via}


def generate(rng, n, tier="quick"):
    out = []
    for i in range(n):
        c, m = gen_case(rng.fork(i), i)
        c["id"] = "%s-%06d" % (ID, i)
        out.append((c, m))
    # the family of the Lean theorem C18.missing_variable_points_at_the_tag: L ++ {{v}} ++ R registered under a name, strict mode,
    # no field v: MissingVariable at the line/column of the tag, the template named, exactly L written
    from .C03 import thm_left, thm_right
    for k in range(max(20, n // 10)):
        r = rng.fork("thm%d" % k)
        L, R = thm_left(r), thm_right(r)
        # … and of C18.missing_name_points_at_the_tag: the same for EVERY identifier in place of v
        from .C02 import ident_name
        var = "v" if k % 2 == 0 else ident_name(r)
        if var == "w":
            var = "v"
        # … and of C18.missing_html_name_points_at_the_tag: the unescaped spellings {{{name}}} and {{&name}}
        tagsrc = "{{" + var + "}}" if k % 4 < 2 else r.pick(["{{{" + var + "}}}", "{{&" + var + "}}"])
        src = L + tagsrc + R
        line, col = line_col(src, len(L))
        nm = r.pick(["main", "dir/t.hbs", "é"])
        c = session({"strict": True, "escape": r.pick(["none", "html"])}, [(nm, src)], {"api": "render_to_write", "name": nm}, {"w": 1})
        c["id"] = "C18-thm%04d" % k
        out.append((c, {"name": nm, "line": line, "col": col, "reason": "MissingVariable", "tag": tagsrc, "where": "thm", "chain": False, "written": L,
                        "payload": var}))
    # … on very long lines too: the column is a count of characters, whatever its size (a minified one-line template)
    for k, (L, tagsrc) in enumerate([("a\n" + "x" * 65534, "{{v}}"), ("a\n" + "x" * 65535, "{{v}}"), ("x" * 70000, "{{{v}}}"), ("\u00e9" * 66000 + "\n  ", "{{v}}"),
                                     ("x" * 65535, "{{#with v}}y{{/with}}")]):
        src = L + tagsrc + "R"
        line, col = line_col(src, len(L))
        c = session({"strict": True, "escape": "none"}, [("page", src)], {"api": "render_to_write", "name": "page"}, {"w": 1})
        c["id"] = "C18-long%02d" % k
        out.append((c, {"name": "page", "line": line, "col": col, "reason": "MissingVariable", "tag": tagsrc, "where": "thm", "chain": False, "written": L}))
    # the family of the Lean theorem C18.unknown_helper_points_at_the_tag: L ++ {{h 1}} ++ R, no helper h, either mode
    for k in range(max(20, n // 10)):
        r = rng.fork("thmh%d" % k)
        L, R = thm_left(r), thm_right(r)
        # … and of C18.unknown_named_helper_points_at_the_tag: the same for EVERY identifier as the helper's name
        from .C02 import ident_name
        hname = "h" if k % 2 == 0 else ident_name(r)
        src = L + "{{" + hname + " 1}}" + R
        line, col = line_col(src, len(L))
        nm = r.pick(["main", "dir/t.hbs", "\u00e9"])
        c = session({"strict": r.chance(0.5), "escape": "none"}, [(nm, src)], {"api": "render_to_write", "name": nm}, {"w": 1})
        c["id"] = "C18-thmh%04d" % k
        out.append((c, {"name": nm, "line": line, "col": col, "reason": "HelperNotFound", "tag": "{{" + hname + " 1}}", "where": "thm", "chain": False, "written": L,
                        "payload": hname}))
    # the family of the Lean theorem C18.error_in_partial_names_the_partial: the failing tag {{x}} is the whole text of a PARTIAL (any
    # partial name, any identifier x), called from L ++ {{> name}} ++ R in mid-line: the error names the partial, points at 1:1 of
    # the partial's source, and exactly L was written
    from .C03 import _no_open, rand_text
    for k in range(max(20, n // 10)):
        r = rng.fork("thmp%d" % k)
        L = _no_open(rand_text(r, r.range(0, 8)))
        while L and (L[-1] in " \t" or L.endswith("\\") or L.endswith("{")):
            L = L[:-1]
        R = _no_open(rand_text(r, r.range(0, 8)))
        lt = L.rstrip(" \t")
        rt = R.lstrip(" \t")
        if not ((lt != "" and lt[-1] not in "\n\r") or (rt != "" and rt[0] not in "\n\r")):
            L = L + "x"
        from .C02 import ident_name
        x = ident_name(r)
        if x == "w":
            x = "k"
        pname = r.pick(["p", "dir/name.hbs", "\u00e9-1", "a.b", "x_y", "0"])
        nm = r.pick(["main", "dir/t.hbs", "\u00e9"])
        c = session({"strict": True, "escape": "none"}, [(pname, "{{%s}}" % x), (nm, L + "{{> %s}}" % pname + R)], {"api": "render_to_write", "name": nm}, {"w": 1})
        c["id"] = "C18-thmp%04d" % k
        out.append((c, {"name": pname, "line": 1, "col": 1, "reason": "MissingVariable", "tag": "{{%s}} in partial %s" % (x, pname), "where": "thm", "chain": False,
                        "written": L, "payload": x}))
    # compile errors: name and a position inside the source
    for k, (src, reason) in enumerate([("a\n{{#if x}}", "InvalidSyntax"), ("{{#if x}}\n{{/each}}", "MismatchingClosedHelper"),
                                       ("é\n {{foo 1.}}", "InvalidParam"), ("{{#*inline \"a\"}}{{/x}}", "MismatchingClosedDecorator")]):
        c = {"kind": "session", "regs": [{}], "ops": [{"op": "reg_string", "reg": 0, "name": "dir/t.hbs", "src": src}], "id": "C18-c%d" % k}
        out.append((c, {"compile": True, "reason": reason, "name": "dir/t.hbs", "src": src, "where": "compile", "line": None, "col": None, "tag": src, "chain": False}))
    # a tracked file edited into something that does not compile: the dev-mode render reports the error under the registered name
    for k, (src, reason) in enumerate([("a\n{{#if x}}", "InvalidSyntax"), ("{{#if x}}\n{{/each}}", "MismatchingClosedHelper"), ("\u00e9\n {{foo 1.}}", "InvalidParam")]):
        for nm, inc in (("dir/t.hbs", None), ("q", "x{{> q}}")):
            ops = [{"op": "set_dev", "reg": 0, "v": True}, {"op": "write_file", "file": "f0", "content": "ok"}, {"op": "reg_file", "reg": 0, "name": nm, "file": "f0"}]
            if inc:
                ops.append({"op": "reg_string", "reg": 0, "name": "main", "src": inc})
            ops += [{"op": "write_file", "file": "f0", "content": src}, {"op": "render", "reg": 0, "api": "render", "name": ("main" if inc else nm), "data": enc({})}]
            c = {"kind": "session", "regs": [{}], "ops": ops, "id": "C18-rc%d%s" % (k, "i" if inc else "")}
            out.append((c, {"reload": True, "reason": reason, "name": nm, "src": src, "where": "reload", "line": None, "col": None, "tag": src, "chain": False}))
    # listed witnesses of F9
    w = session({"escape": "none"}, [("p", "\n\n  {{> i}}"), ("main", "{{#*inline \"i\"}}x{{bad 1}}{{/inline}}\n{{> p}}")], {"api": "render", "name": "main"}, {})
    w["id"] = "C18-F9"
    out.append((w, {"name": "main", "line": 1, "col": 18, "reason": "HelperNotFound", "tag": "{{bad 1}}", "where": "inline", "chain": False}))
    return out


def oracle(case, meta, impl):
    l = last(impl)
    if meta.get("compile"):
        if l.get("r") != "terr":
            return ["expected a compile error, got %s" % l.get("r")]
        v = []
        if l.get("reason") != meta["reason"]:
            v.append("compile error kind %s, expected %s" % (l.get("reason"), meta["reason"]))
        if l.get("name") != meta["name"]:
            v.append("compile error names template %r, expected %r" % (l.get("name"), meta["name"]))
        src = meta["src"]
        if l.get("line") is None or not (1 <= l["line"] <= src.count("\n") + 1):
            v.append("compile error position %s:%s not inside the source" % (l.get("line"), l.get("col")))
        return v
    if meta.get("reload"):
        if l.get("r") != "rerr" or l.get("reason") != "TemplateError" or not l.get("args"):
            return ["expected the reload's compile error, got %s %s" % (l.get("r"), l.get("reason", l.get("out")))]
        te = l["args"][0]
        v = []
        if te.get("reason") != meta["reason"]:
            v.append("reload compile error kind %s, expected %s" % (te.get("reason"), meta["reason"]))
        if te.get("name") != meta["name"]:
            v.append("reload compile error names template %r, the file is registered as %r" % (te.get("name"), meta["name"]))
        src = meta["src"]
        if te.get("line") is None or not (1 <= te["line"] <= src.count("\n") + 1):
            v.append("reload compile error position %s:%s not inside the source" % (te.get("line"), te.get("col")))
        return v
    if l.get("r") != "rerr":
        return ["the planted %s did not fail the render: %s %r" % (meta["tag"], l.get("r"), l.get("out"))]
    v = []
    if l.get("reason") != meta["reason"]:
        v.append("reason %s, expected %s" % (l.get("reason"), meta["reason"]))
    if l.get("name") != meta["name"]:
        v.append("error names template %r, the failing tag is in %r" % (l.get("name"), meta["name"]))
    if "written" in meta and l.get("written") != meta["written"]:
        v.append("written before the error %r, expected %r" % (l.get("written"), meta["written"]))
    if "payload" in meta and l.get("args") != [meta["payload"]]:
        v.append("the error carries %r, the missing variable is %r" % (l.get("args"), meta["payload"]))
    if (l.get("line"), l.get("col")) != (meta["line"], meta["col"]):
        v.append("error points at %s:%s, the tag %s begins at %s:%s" % (l.get("line"), l.get("col"), meta["tag"], meta["line"], meta["col"]))
    return v


def nontrivial_key(case, meta, impl):
    return "%s|%s|%s|%s|%s" % (meta["reason"], meta["where"], meta["line"], meta["col"], meta["chain"])


def distribution(cases):
    d = {}
    for c, m in cases:
        d["where." + m["where"]] = d.get("where." + m["where"], 0) + 1
        d["reason." + m["reason"]] = d.get("reason." + m["reason"], 0) + 1
    return d
