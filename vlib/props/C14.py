"""C14 Name resolution: helper before field, explicit paths always data, hooks last."""
import itertools
from ..gen import enc, session
from ..rng import Rng
from .common import last

ID = "C14"
BUDGET = {"quick": 6, "thorough": 120}
EXHAUSTIVE = True
RULE = ("EXHAUSTIVE decision table, every run: name class {built-in helper, user helper, data field, helper AND field, "
        "neither} x tag form {bare, with args, block, else-chain link (inline and on its own line), raw block, subexpression, ./name, this.name, [name]} x configuration {hook "
        "helpers registered or not, local helper (registered by a decorator earlier in the template) or not, strict or not}, "
        "each cell placed at several nesting positions (top level, inside each, inside with, inside a partial); marker-writing "
        "helpers/hooks and a context-replacing decorator are defined in the harness and mirrored in the model; oracle = the "
        "table stated by the property; non-trivial = every cell; distinct by cell")
DEFINITE_FLOOR = 0.95
POSITIONS = [("top", "%s"), ("each", "{{#each one}}%s{{/each}}"), ("with", "{{#with w}}%s{{/with}}"), ("partial", "{{> host}}"),
             ("setctx", "{{*setctx nu}}%s")]    # … and after a decorator replaced the render data by an equal document


def cell(nameclass, form, hooks, local, strict):
    """(template fragment, expected ('out', text) | ('err', reason) | None)"""
    # names
    name = {"builtin": "len", "user": "uh", "field": "fld", "both": "both", "neither": "nix", "nullfield": "nul"}[nameclass]
    has_helper = nameclass in ("builtin", "user", "both")
    has_field = nameclass in ("field", "both", "nullfield")
    fieldval = "" if nameclass == "nullfield" else "F"     # a field that is present and null is a value (written as nothing), not a missing one
    pre = "{{*sethelper \"%s\" \"L\"}}" % name if local else ""
    if form == "bare":
        t = "{{%s}}" % name
        if local:
            exp = ("out", "[L:%s:]" % name)
        elif has_helper:
            exp = ("out", "0" if nameclass == "builtin" else "[U:%s:]" % name) if nameclass != "builtin" else ("err", "ParamNotFoundForName")
        elif has_field:
            exp = ("out", fieldval)
        elif strict:
            exp = ("err", "MissingVariable")
        elif hooks:
            exp = ("out", "[HM:%s:]" % name)
        else:
            exp = ("out", "")
    elif form == "args":
        t = "{{%s arr}}" % name
        if local:
            exp = ("out", "[L:%s:[1, 2]]" % name)
        elif nameclass == "builtin":
            exp = ("out", "2")
        elif has_helper:
            exp = ("out", "[U:%s:[1, 2]]" % name)
        elif hooks:
            exp = ("out", "[HM:%s:[1, 2]]" % name)
        else:
            exp = ("err", "HelperNotFound")
    elif form in ("hash", "hashhtml"):
        # a call with NAMED arguments only is a helper call like any other call with arguments: never a field read
        t = ("{{%s k=arr}}" if form == "hash" else "{{{%s k=arr j=1}}}") % name
        hs = "|k=[1, 2]" if form == "hash" else "|j=1,k=[1, 2]"   # the marking helper lists the hash in key order
        if local:
            exp = ("out", "[L:%s:%s]" % (name, hs))
        elif nameclass == "builtin":
            exp = ("err", "ParamNotFoundForName")
        elif has_helper:
            exp = ("out", "[U:%s:%s]" % (name, hs))
        elif hooks:
            exp = ("out", "[HM:%s:%s]" % (name, hs))
        else:
            exp = ("err", "HelperNotFound")
    elif form == "block":
        t = "{{#%s arr}}B{{/%s}}" % (name, name)
        if local:
            exp = ("out", "[L:%s:[1, 2]]B[/L]" % name)
        elif nameclass == "builtin":
            exp = ("out", "2")
        elif has_helper:
            exp = ("out", "[U:%s:[1, 2]]B[/U]" % name)
        elif hooks:
            exp = ("out", "[BHM:%s:[1, 2]]B[/BHM]" % name)
        else:
            exp = ("err", "HelperNotFound")
    elif form in ("chain", "chainnl"):
        # the helper called from an else-chain link (inline, or with the else tag alone on its line): a BLOCK call
        t = ("{{#if fls}}x{{else %s arr}}B{{/if}}" if form == "chain" else "{{#if fls}}x\n{{else %s arr}}\nB{{/if}}") % name
        if local:
            exp = ("out", "[L:%s:[1, 2]]B[/L]" % name)
        elif nameclass == "builtin":
            exp = ("out", "2")
        elif has_helper:
            exp = ("out", "[U:%s:[1, 2]]B[/U]" % name)
        elif hooks:
            exp = ("out", "[BHM:%s:[1, 2]]B[/BHM]" % name)
        else:
            exp = ("err", "HelperNotFound")
    elif form == "rawblk":
        # a raw block is a block call: its name is resolved like any block helper's name, its verbatim text is the body
        t = "{{{{%s arr}}}}B {{x}}{{{{/%s}}}}" % (name, name)
        if local:
            exp = ("out", "[L:%s:[1, 2]]B {{x}}[/L]" % name)
        elif nameclass == "builtin":
            exp = ("out", "2")
        elif has_helper:
            exp = ("out", "[U:%s:[1, 2]]B {{x}}[/U]" % name)
        elif hooks:
            exp = ("out", "[BHM:%s:[1, 2]]B {{x}}[/BHM]" % name)
        else:
            exp = ("err", "HelperNotFound")
    elif form == "sub":
        t = "{{id (%s arr)}}" % name
        if local:
            exp = ("out", "[L:%s:[1, 2]]" % name)
        elif nameclass == "builtin":
            exp = ("out", "2")
        elif has_helper:
            exp = ("out", "[U:%s:[1, 2]]" % name)
        elif hooks:
            exp = ("out", "[HM:%s:[1, 2]]" % name)
        else:
            exp = ("err", "HelperNotFound")
    else:
        # explicit path spellings always read the data
        spell = {"dot": "./%s", "this": "this.%s", "brk": "[%s]"}[form] % name
        t = "{{%s}}" % spell
        if has_field:
            exp = ("out", fieldval)
        elif strict:
            exp = ("err", "MissingVariable")
        elif hooks:
            exp = ("out", "[HM:%s:]" % spell)
        else:
            exp = ("out", "")
    return pre + "<" + t + ">", exp


def generate(rng, n, tier="quick"):
    out = []
    k = 0
    data_base = {"fld": "F", "both": "F", "arr": [1, 2], "one": [0], "w": {}, "fls": False, "nul": None}
    for nameclass, form, hooks, local, strict in itertools.product(
            ["builtin", "user", "field", "both", "neither", "nullfield"], ["bare", "args", "hash", "hashhtml", "block", "chain", "chainnl", "rawblk", "sub", "dot", "this", "brk"],
            [False, True], [False, True], [False, True]):
        if local and form in ("dot", "this", "brk"):
            pass
        frag, exp = cell(nameclass, form, hooks, local, strict)
        for pos, wrap in POSITIONS:
            helpers = [{"name": "uh", "kind": "mark", "tag": "U"}, {"name": "both", "kind": "mark", "tag": "U"}, {"name": "id", "kind": "vret"}]
            if hooks:
                helpers += [{"name": "helperMissing", "kind": "mark", "tag": "HM"}, {"name": "blockHelperMissing", "kind": "mark", "tag": "BHM"}]
            cfg = {"escape": "none", "strict": strict, "helpers": helpers, "decorators": [{"name": "sethelper", "kind": "sethelper"}, {"name": "setctx", "kind": "setctx"}]}
            data = dict(data_base)
            if pos == "setctx":
                data["nu"] = dict(data_base)
            if pos == "each":
                data["one"] = [dict(data_base)]
            if pos == "with":
                data["w"] = dict(data_base)
            templates = []
            if pos == "partial":
                templates.append(("host", frag))
                main = wrap
            else:
                main = wrap % frag
            templates.append(("main", main))
            case = session(cfg, templates, {"api": "render", "name": "main"}, data)
            case["id"] = "%s-%05d" % (ID, k)
            k += 1
            out.append((case, {"cell": [nameclass, form, hooks, local, strict, pos], "expect": list(exp)}))
    # decorators: unknown decorator; effects apply to what follows only
    extra = [
        ("deco-unknown", {"escape": "none"}, [("main", "a{{*nodeco}}b")], {}, ("err", "DecoratorNotFound")),
        ("deco-after-only", {"escape": "none", "decorators": [{"name": "setctx", "kind": "setctx"}]},
         [("main", "{{x}}|{{*setctx other}}{{x}}|{{lookup this \"x\"}}")], {"x": "old", "other": {"x": "new"}}, ("out", "old|new|new")),
        ("local-after-only", {"escape": "none", "helpers": [{"name": "uh", "kind": "mark", "tag": "U"}], "decorators": [{"name": "sethelper", "kind": "sethelper"}]},
         [("main", "{{uh 1}}|{{*sethelper \"uh\" \"L\"}}{{uh 1}}")], {}, ("out", "[U:uh:1]|[L:uh:1]")),
        # a LATER decorator for the same name applies to what is rendered after IT: bare, with arguments, block, subexpression
        ("local-twice", {"escape": "none", "helpers": [{"name": "uh", "kind": "mark", "tag": "U"}], "decorators": [{"name": "sethelper", "kind": "sethelper"}]},
         [("main", "{{uh 1}}|{{*sethelper \"uh\" \"A\"}}{{uh 1}}|{{*sethelper \"uh\" \"B\"}}{{uh 1}}{{#uh 2}}x{{/uh}}|{{*sethelper \"uh\" \"C\"}}{{uh}}{{#if (uh 3)}}y{{/if}}")], {},
         ("out", "[U:uh:1]|[A:uh:1]|[B:uh:1][B:uh:2]x[/B]|[C:uh:]y")),
        ("local-twice-no-registry-helper", {"escape": "none", "decorators": [{"name": "sethelper", "kind": "sethelper"}]},
         [("main", "{{*sethelper \"lh\" \"A\"}}{{lh 1}}|{{*sethelper \"lh\" \"B\"}}{{lh 1}}|{{*sethelper \"lh\" \"A\"}}{{lh 1}}")], {"lh": "field"},
         ("out", "[A:lh:1]|[B:lh:1]|[A:lh:1]")),
        ("local-per-iteration", {"escape": "none", "decorators": [{"name": "sethelper", "kind": "sethelper"}]},
         [("main", "{{#each xs}}{{*sethelper \"lh\" this}}{{lh @index}}{{/each}}|{{lh 9}}")], {"xs": ["A", "B", "C"]},
         ("out", "[A:lh:0][B:lh:1][C:lh:2]|[C:lh:9]")),
        ("ctx-twice", {"escape": "none", "decorators": [{"name": "setctx", "kind": "setctx"}]},
         [("main", "{{x}}|{{*setctx a}}{{x}}|{{*setctx b}}{{x}}")], {"x": 0, "a": {"x": 1, "b": {"x": 2}}}, ("out", "0|1|2")),
        # a subexpression WITHOUT arguments that names neither a helper nor a field is handed to the helperMissing hook like any other
        # unknown name (with the hook registered); with a helper of that name it is a call
        ("sub-bare-hook", {"escape": "none", "helpers": [{"name": "helperMissing", "kind": "mark", "tag": "HM"}, {"name": "id", "kind": "vret"}]},
         [("main", "<{{id (nope)}}|{{#if (nope)}}T{{/if}}|{{id (nope 1)}}>")], {}, ("out", "<[HM:nope:]|T|[HM:nope:1]>")),
        ("sub-bare-helper", {"escape": "none", "helpers": [{"name": "uh", "kind": "mark", "tag": "U"}, {"name": "id", "kind": "vret"}]},
         [("main", "<{{id (uh)}}>")], {"uh": "field"}, ("out", "<[U:uh:]>")),
        ("inline-after-only", {"escape": "none"}, [("p", "REG"), ("main", "{{> p}}|{{#*inline \"p\"}}INL{{/inline}}{{> p}}")], {}, ("out", "REG|INL")),
    ]
    for idn, cfg, templates, data, exp in extra:
        case = session(cfg, templates, {"api": "render", "name": "main"}, data)
        case["id"] = "%s-%s" % (ID, idn)
        out.append((case, {"cell": [idn], "expect": list(exp)}))
    # the family of the Lean theorem C14.helper_wins_over_field_at_source: L ++ {{name}} ++ R for any identifier, a marking helper
    # registered under it and a field of that name in the data: the helper's line, not the field (closed form, exact)
    from .C03 import _no_open, rand_text, thm_left
    from .C02 import ident_name
    tr = rng.fork("thm")
    for j in range(40 if tier == "quick" else 1500):
        r = tr.fork(j)
        L = thm_left(r)
        R = _no_open(rand_text(r, r.range(0, 8)))
        nm = ident_name(r)
        tag = r.pick(["U", "M", "tag-1", "\u00e9"])
        case = session({"escape": r.pick(["none", "html"]), "helpers": [{"name": nm, "kind": "mark", "tag": tag}]},
                       [("main", L + "{{%s}}" % nm + R)], {"api": "render", "name": "main"}, {nm: r.pick(["FIELD", 7, None, {"a": 1}])})
        case["id"] = "%s-thm%04d" % (ID, j)
        out.append((case, {"cell": ["thm-%d" % j], "expect": ["out", L + "[%s:%s:]" % (tag, nm) + R]}))
    return out


def oracle(case, meta, impl):
    l = last(impl)
    kind, val = meta["expect"]
    if kind == "out":
        if l.get("r") == "ok" and l.get("out") == "<" + val + ">" or (len(meta["cell"]) == 1 and l.get("out") == val):
            return []
        return ["cell %s: expected output %r got %s %r" % (meta["cell"], val, l.get("r"), l.get("out", l.get("reason")))]
    if l.get("r") == "rerr" and l.get("reason") == val:
        return []
    return ["cell %s: expected error %s got %s %r" % (meta["cell"], val, l.get("r"), l.get("out", l.get("reason")))]


def nontrivial_key(case, meta, impl):
    return str(meta["cell"])


def distribution(cases):
    d = {}
    for c, m in cases:
        d["form." + str(m["cell"][1] if len(m["cell"]) > 1 else "extra")] = d.get("form." + str(m["cell"][1] if len(m["cell"]) > 1 else "extra"), 0) + 1
    return d
