"""C12 A standalone partial's output is indented line by line."""
from ..gen import enc, session
from ..rng import Rng
from .common import last

ID = "C12"
BUDGET = {"quick": 1500, "thorough": 60000}
RULE = ("indentation strings of 0..8 spaces/tabs; partial bodies built from lines of text, expressions (data with multi-line "
        "and empty strings), inline and multi-line block helpers, raw blocks and nested standalone partials (≤ 3 levels); called at top "
        "level and inside each/if/with; prevent_indent on and off; the calling template rendered directly, registered from a string, from a file, and from a file under dev mode; oracle = indent_lines(render of the partial alone, W) "
        "compared modulo whitespace on blank lines (prevent_indent: only the first line keeps W); the partial alone is "
        "rendered by the real crate in the same session; non-trivial = the partial writes ≥ 2 lines; distinct by "
        "(W, body, data)")
DEFINITE_FLOOR = 0.8
ASSUMPTIONS = [
               "data strings with a lone CR are outside the quantifier (F11: whether a lone CR is a line break is not decided by the property)"]
DATA = {"one": [1], "s": "one", "m": "l1\nl2", "m3": "a\nb\nc\n", "e": "", "t": True, "f": False, "nl": "\n", "crlf": "x\r\ny",
        "ys": ["y1", "y2"], "o": {"k": "v\nw"}, "lead": "\nafter", "sp": "  ",
        # values that are not strings: a number, a boolean, null, an array as the FIRST output of a line
        "num": 5, "neg": -2.5, "nil": None, "nums": [1, True, 2.5, None], "big": 2 ** 63}


def free_pieces(rng, depth):
    """a free-form run of text / expressions / blocks that may start and end anywhere on a line (blocks that open
    mid-line, bodies that end a line, helpers that write nothing as the last element of a body, …)"""
    out = []
    for _ in range(rng.range(1, 4)):
        k = rng.weighted([("t", 4), ("e", 4), ("nl", 3), ("blk", 3 if depth > 0 else 0), ("empty", 2)])
        if k == "t":
            out.append(rng.pick(["a", "b ", " c", "x<y"]))
        elif k == "e":
            out.append("{{{" + rng.pick(["s", "m", "e", "m3", "nl", "lead"]) + "}}}")
        elif k == "nl":
            out.append("\n")
        elif k == "empty":
            out.append(rng.pick(["{{#if f}}x{{/if}}", "{{{e}}}", "{{#each e}}y{{/each}}", "{{#unless t}}z{{/unless}}"]))
        else:
            inner = free_pieces(rng, depth - 1)
            out.append(rng.pick(["{{#if t}}", "{{#unless f}}", "{{#with o}}", "{{#each one}}"]) + inner)
            out[-1] += {"{{#if t}}": "{{/if}}", "{{#unless f}}": "{{/unless}}", "{{#with o}}": "{{/with}}", "{{#each one}}": "{{/each}}"}[out[-1][:out[-1].index("}}") + 2]]
    return "".join(out)


def body_lines(rng, level, names):
    lines = []
    for _ in range(rng.range(1, 5)):
        k = rng.weighted([("text", 4), ("expr", 5), ("hexpr", 3), ("mixed", 3), ("ifinline", 2), ("ifblock", 2), ("each", 2),
                          ("nested", 3 if level > 0 and names else 0), ("blank", 1), ("comment", 1), ("free", 4),
                          ("nestedinline", 2 if level > 0 and names else 0), ("raw", 2), ("userblock", 1)])
        if k == "raw":
            # a raw block: its text – one or several lines – is output of the partial like any other
            lines.append(rng.pick(["{{{{raw}}}}\n{{one}}\ntwo\n{{{{/raw}}}}\n", "{{{{raw}}}}a {{b}} c{{{{/raw}}}}\n", "x{{{{raw}}}}r1\nr2{{{{/raw}}}}y\n",
                                   "{{{{raw}}}}  lead\n\n{{/if}}\n{{{{/raw}}}}\n"]))
            continue
        if k == "userblock":
            lines.append(rng.pick(["{{#with o}}\n{{{k}}}\n{{/with}}\n", "{{#unless f}}u1\nu2{{/unless}}\n", "{{#each o}}{{@key}}:{{{this}}}\n{{/each}}"]))
            continue
        if k == "nestedinline":
            # a nested partial that is NOT alone on its line (no indentation of its own is captured; before the repair
            # F13/F16 its first line lost the caller's indentation)
            lines.append(rng.pick(["{{> %s}}x\n", "x {{> %s}}\n", "{{> %s}}{{{s}}}\n", "  {{> %s}} y\n"]) % rng.pick(names))
            continue
        if k == "free":
            lines.append("q" + free_pieces(rng, 2) + "r\n")
            continue
        if k == "hexpr":
            # a line whose first output comes from a value-returning helper (the default HelperDef::call writes it)
            lines.append(rng.pick(["{{{lookup @root \"s\"}}}", "{{{lookup @root \"m\"}}}", "{{len ys}}", "{{eq 1 1}} z", "{{{lookup @root \"e\"}}}x",
                                   "{{lookup @root \"s\"}}{{{m}}}", "{{not f}}"]) + "\n")
            continue
        if k == "text":
            lines.append(rng.pick(["text", "  indented", "a b c", "\ttab", "x<y"]) + "\n")
        elif k == "expr":
            nm_ = rng.pick(["s", "m", "m3", "e", "nl", "crlf", "o.k", "lead", "sp", "num", "t", "f", "neg", "nil", "nums", "big", "this.num", "this.t"])
            lines.append(rng.pick(["{{{%s}}}", "{{{%s}}}", "{{%s}}", "{{&%s}}", "{{%s}} items", "{{{%s}}}{{num}}"]) % nm_ + "\n")
        elif k == "mixed":
            lines.append("x{{{" + rng.pick(["s", "m", "e", "m3"]) + "}}}y" + rng.pick(["{{{m}}}", ""]) + "\n")
        elif k == "ifinline":
            lines.append("{{#if " + rng.pick(["t", "f"]) + "}}in{{else}}out{{/if}}\n")
        elif k == "ifblock":
            lines.append("{{#if " + rng.pick(["t", "f"]) + "}}\n  inner {{{" + rng.pick(["s", "m"]) + "}}}\n{{else}}\n  other\n{{/if}}\n")
        elif k == "each":
            lines.append(rng.pick(["{{#each ys}}\n- {{{this}}}\n{{/each}}\n", "{{#each nums}}\n{{this}} n\n{{@index}}:{{@first}}\n{{/each}}\n", "{{#each ys}}\n{{@index}}. {{this}}\n{{/each}}\n"]))
        elif k == "nested":
            lines.append(rng.pick(["  ", "\t", "    ", ""]) + "{{> " + rng.pick(names) + "}}\n")
        elif k == "comment":
            lines.append("{{! note }}\n")
        else:
            lines.append("\n")
    body = "".join(lines)
    if rng.chance(0.3) and body.endswith("\n"):
        body = body[:-1]
    return body


def inline_nested(body):
    """a nested partial call that shares its line with other output: where its first line starts is inside a line"""
    import re
    return any("{{> " in ln and not re.fullmatch(r"[ \t]*\{\{> \w+\}\}", ln) for ln in body.split("\n"))


def gen_case(rng, i):
    W = "".join(rng.pick([" ", " ", "\t"]) for _ in range(rng.range(0, 8)))
    templates = []
    r2 = body_lines(rng.fork("r2"), 0, [])
    r1 = body_lines(rng.fork("r1"), 1, ["r2"])
    p = body_lines(rng.fork("p"), 2, ["r1", "r2"])
    where = rng.pick(["top", "top", "if", "each", "with"])
    if where == "each":
        # consecutive calls: every body ends its last line, so one call's output cannot glue to the next call's first line
        r2, r1, p = [b if b.endswith("\n") else b + "\n" for b in (r2, r1, p)]
    templates = [("r2", r2), ("r1", r1), ("p", p)]
    pi = rng.chance(0.25)
    call = W + "{{> p}}\n"
    if where == "top":
        main = "a\n" + call + "b"
        n = 1
    elif where == "if":
        main = "a\n{{#if t}}\n" + call + "{{/if}}\nb"
        n = 1
    elif where == "with":
        main = "a\n{{#with this}}\n" + call + "{{/with}}\nb"
        n = 1
    else:
        main = "a\n{{#each ys}}\n" + call + "{{/each}}\nb"
        n = 2
    cfg = {"escape": "none", "prevent_indent": pi}
    ops = [{"op": "reg_string", "reg": 0, "name": nm, "src": s} for nm, s in templates]
    # how the calling template reaches the renderer: as a string rendered directly, registered from a string, registered from a
    # file, or registered from a file under dev mode (re-read and recompiled at render time) – the registry's prevent_indent
    # setting holds for each of them
    via = rng.weighted([("template", 5), ("string", 2), ("file", 1), ("devfile", 2)])
    if via == "template":
        ops.append({"op": "render", "reg": 0, "api": "render_template", "src": main, "data": enc(DATA)})
    else:
        if via == "string":
            ops.append({"op": "reg_string", "reg": 0, "name": "main", "src": main})
        else:
            if via == "devfile":
                ops.append({"op": "set_dev", "reg": 0, "v": True})
            ops += [{"op": "write_file", "file": "f0", "content": main}, {"op": "reg_file", "reg": 0, "name": "main", "file": "f0"}]
        if via in ("string", "file") and rng.chance(0.4):
            # the setting is read when a template is COMPILED: changing it afterwards (either way) changes nothing for templates
            # that are already registered
            ops.append({"op": "set_prevent_indent", "reg": 0, "v": not pi})
        ops.append({"op": "render", "reg": 0, "api": rng.pick(["render", "render_to_write"]), "name": "main", "data": enc(DATA)})
    # the partial alone, on the context it is called with
    if where == "each":
        for y in DATA["ys"]:
            ops.append({"op": "render", "reg": 0, "api": "render", "name": "p", "data": enc(y)})
    else:
        ops.append({"op": "render", "reg": 0, "api": "render", "name": "p", "data": enc(DATA)})
    uses_root = False
    return {"kind": "session", "regs": [cfg], "ops": ops}, {"W": W, "where": where, "n": n, "pi": pi, "p": p,
                                                             "glue": not (r1.endswith("\n") and r2.endswith("\n")) or inline_nested(r1) or inline_nested(p)}


def with_indent(W, P):
    """Spec.withIndent: W after every line break of P except a final one"""
    out = []
    for i, ch in enumerate(P):
        out.append(ch)
        if ch == "\n" and i + 1 < len(P):
            out.append(W)
    return "".join(out)


def thm_case(rng, i):
    """the family of the Lean theorem C12.standalone_partial_is_indented: L0 ++ W ++ {{> p}} ++ (LF|CRLF) ++ R with p a plain text;
    the expectation is the theorem's closed form  L0 ++ W·P ++ R  (exact)"""
    from .C03 import _no_open, rand_text
    L0 = rng.pick(["", _no_open(rand_text(rng, rng.range(0, 8))) + "\n", "x\n", "a\r\n", "\n\n"])
    W = "".join(rng.pick([" ", " ", "\t"]) for _ in range(rng.range(1, 6)))
    nl = rng.pick(["\n", "\r\n"])
    R = _no_open(rand_text(rng, rng.range(0, 8)))
    P = "".join(rng.pick(list("ab}<& \t") + ["\n", "\n", "\r\n", "é", "{"]) for _ in range(rng.range(1, 12)))
    P = _no_open(P)
    if P.endswith("\\") or P == "":
        P += "x"
    exp = L0 + ("" if P[0] in "\n\r" else W) + with_indent(W, P) + R
    # … for EVERY partial name (the family of C12.standalone_named_partial_is_indented): any run of the grammar's partial_symbol_char
    # class – letters, digits, `-`, `_`, `/`, `.`, everything from U+0080 up
    pname = rng.pick(["p", "p", "dir/name.hbs", "\u00e9-1", "a.b", "x_y", "0", "\U0001F600", "p/q/r", "\u0080", "\uffff.\U0010ffff", "-", "_", "this", "else", "if"])
    tag = "{{> %s}}" % pname
    if pname == "p" and rng.chance(0.3):
        # the same call written {{> p~}}: the `~` removes the whitespace that FOLLOWS the tag (the line break the standalone rule
        # removes anyway, and whatever whitespace the next line begins with) – the indentation of the partial's output is untouched
        tag = "{{> p~}}"
        from .C11 import WS as _WS11
        exp = L0 + ("" if P[0] in "\n\r" else W) + with_indent(W, P) + R.lstrip(_WS11)
    if tag != "{{> p~}}" and rng.chance(0.35):
        # the family of C12.standalone_partial_output_is_indented: the partial's text is the value tag {{x}} and the (multi-line) text
        # comes from the DATA, through any escape function: what the partial WRITES is indented, line by line
        from .C02 import ident_name
        from .common import escape_of
        x = ident_name(rng)
        escn = rng.pick(["none", "mark", "html"])
        V = escape_of(escn)(P)
        exp = L0 + ("" if V[0] in "\n\r" else W) + with_indent(W, V) + R
        ops = [{"op": "reg_string", "reg": 0, "name": pname, "src": "{{%s}}" % x},
               {"op": "render", "reg": 0, "api": "render_template", "src": L0 + W + tag + nl + R, "data": enc({x: P})}]
        return {"kind": "session", "regs": [{"escape": escn}], "ops": ops}, {"thm": True, "expect": exp, "W": W, "where": "thm", "n": 1, "pi": False, "p": "{{%s}}" % x}
    ops = [{"op": "reg_string", "reg": 0, "name": pname, "src": P},
           {"op": "render", "reg": 0, "api": "render_template", "src": L0 + W + tag + nl + R, "data": enc({})}]
    return {"kind": "session", "regs": [{"escape": "none"}], "ops": ops}, {"thm": True, "expect": exp, "W": W, "where": "thm", "n": 1, "pi": False, "p": P}


def generate(rng, n, tier="quick"):
    out = []
    for i in range(n):
        r = rng.fork(i)
        if r.chance(0.15):
            c, m = thm_case(r, i)
        else:
            c, m = gen_case(r, i)
        c["id"] = "%s-%06d" % (ID, i)
        out.append((c, m))
    # listed witness of F13
    ops = [{"op": "reg_string", "reg": 0, "name": "r", "src": "r\n"}, {"op": "reg_string", "reg": 0, "name": "p", "src": "{{> r}}x\ny\n"},
           {"op": "render", "reg": 0, "api": "render_template", "src": "a\n\t{{> p}}\nb", "data": enc({})},
           {"op": "render", "reg": 0, "api": "render", "name": "p", "data": enc({})}]
    c = {"kind": "session", "regs": [{"escape": "none"}], "ops": ops, "id": "C12-F13"}
    out.append((c, {"W": "\t", "where": "top", "n": 1, "pi": False, "p": "{{> r}}x\ny\n"}))
    return out


def indent_lines(text, W, first_only=False):
    if text == "":
        # with prevent_indent W is literal text in front of the tag: it stays when p writes nothing
        return W if first_only else ""
    parts = text.split("\n")
    out = []
    for k, line in enumerate(parts):
        last_piece = k == len(parts) - 1
        if last_piece and line == "":
            break
        pre = W if (k == 0 or not first_only) else ""
        if line.strip(" \t\r") == "" and not (first_only and last_piece):
            pre = ""          # whitespace-only lines may or may not carry W
        out.append(pre + line + ("" if last_piece else "\n"))
    return "".join(out)


def norm(text):
    """whitespace-only lines may or may not carry W"""
    lines = text.split("\n")
    return "\n".join(("" if l.strip(" \t\r") == "" else l) for l in lines)


def medium_eq(got, exp, W, first_only):
    """what the property states and no more: same number of lines; every non-blank line of the partial's output starts
    with W (with prevent_indent: the first one) and has the same non-whitespace content.  Used when a nested partial
    leaves its last line unterminated: the next nested call's own indentation then lands in the middle of a line (or
    after whitespace that is itself the unterminated line), so the amount of whitespace inside that line is left open."""
    g, e = got.split("\n"), exp.split("\n")
    if len(g) != len(e):
        return False
    for i, (a, b) in enumerate(zip(g, e)):
        if a.strip(" \t\r") == "" and b.strip(" \t\r") == "":
            continue
        if "".join(a.split()) != "".join(b.split()):
            return False
        inside = 0 < i < len(g) - 1          # line 0 is the caller's 'a', the last the caller's 'b'
        if inside and (not first_only or i == 1) and not a.startswith(W):
            return False
    return True


def oracle(case, meta, impl):
    if impl.get("r") != "session":
        return ["no result"]
    rs = impl["results"]
    if meta.get("thm"):
        l = rs[-1]
        if l.get("r") == "ok" and l.get("out") == meta["expect"]:
            return []
        return ["standalone partial (theorem family): expected %r got %r" % (meta["expect"], l.get("out", l.get("reason", l.get("r"))))]
    n = meta["n"]
    main = rs[-(n + 1)]
    alone = rs[-n:]
    if main.get("r") != "ok" or any(a.get("r") != "ok" for a in alone):
        return None
    for a in alone:
        tail = a["out"][a["out"].rfind("\n") + 1:]
        if tail != "" and tail.strip(" \t\r") == "":
            return None     # an unterminated whitespace-only last line glues to the caller's text: outcome left open
    W = meta["W"]
    exp = "a\n"
    for a in alone:
        body = indent_lines(a["out"], W, first_only=meta["pi"])
        exp += body
    exp += "b"
    got = main["out"]
    if norm(got) == norm(exp) or (meta.get("glue") and medium_eq(got, exp, W, meta["pi"])):
        # content and line count are unchanged by construction of the comparison
        return []
    return ["indentation: W=%r partial alone %r → expected %r got %r" % (W, [a["out"] for a in alone], exp, got)]


def nontrivial_key(case, meta, impl):
    if impl.get("r") != "session":
        return None
    a = impl["results"][-1]
    if a.get("r") == "ok" and a.get("out", "").count("\n") >= 2 and meta["W"]:
        return case["id"]
    return None


def distribution(cases):
    d = {}
    for c, m in cases:
        d["where." + m["where"]] = d.get("where." + m["where"], 0) + 1
        d["wlen.%d" % len(m["W"])] = d.get("wlen.%d" % len(m["W"]), 0) + 1
        if m["pi"]:
            d["prevent_indent"] = d.get("prevent_indent", 0) + 1
    return d
