"""C10 Strict mode only adds errors: it never changes successful output."""
from ..astgen import AG, gen_doc
from ..gen import enc, session, TG, gen_json, std_helpers
from ..rng import Rng
from .. import ref
from .common import last, ref_outcome, check_against_ref, escape_of

ID = "C10"
BUDGET = {"quick": 1500, "thorough": 60000}
RULE = ("every generated template (AST generator with missing paths planted at every expression position kind: top level, "
        "nested scopes, helper arguments, partial arguments, inside partials; with and without the hooks helperMissing / blockHelperMissing registered; and the string-level generator with helpers, "
        "subexpressions, lookup) rendered under strict=false and strict=true on the same registry; relation checked on the "
        "real crate: a strict success has the non-strict output; oracle for the strict run = reference renderer in strict "
        "mode (MissingVariable exactly where a path designates nothing / each-with without else on a missing value); "
        "non-trivial = the two runs differ (an error was added) or a missing path was rendered; distinct by case")
DEFINITE_FLOOR = 0.9


def generate(rng, n, tier="quick"):
    out = []
    i = 0
    while len(out) < n:
        r = rng.fork(i)
        i += 1
        if r.chance(0.6):
            data = gen_doc(r, 3)
            names = ["pa"] if r.chance(0.4) else []
            asts = {}
            if names:
                pg = AG(r.fork("pa"), data, [], opt={"partials": False, "missing": 0.15})
                asts["pa"] = pg.nodes([ref.Scope(data, "partial")], 2)
            ag = AG(r.fork("m"), data, names, opt={"missing": r.pick([0.0, 0.1, 0.3]), "sub": True})
            asts["main"] = ag.nodes([ref.Scope(data, "root")], 3)
            srcs = {}
            bad = False
            for nm, a in asts.items():
                s = ref.print_nodes(r.fork("p" + nm), a)
                if s is None:
                    bad = True
                    break
                srcs[nm] = s
            if bad:
                continue
            templates = [(nm, srcs[nm]) for nm in names] + [("main", srcs["main"])]
            oc_strict = ref_outcome(asts, "main", data, True)
            oc_loose = ref_outcome(asts, "main", data, False)
            meta = {"mode": "ast", "strict": list(oc_strict), "loose": list(oc_loose)}
            cfg = {"escape": "html"}
            if r.chance(0.3):
                # with the hooks helperMissing / blockHelperMissing registered: they answer for missing values in NON-strict
                # mode only – a strict render fails as it does without them
                cfg = {"escape": "html", "helpers": [{"name": "helperMissing", "kind": "mark", "tag": "HM"}, {"name": "blockHelperMissing", "kind": "mark", "tag": "BM"}]}
                meta["loose"] = ["any", "the hook's output is not the reference's business"]
                meta["hooks"] = True
        else:
            data = gen_json(r, 3, want="obj")
            if not isinstance(data, dict):
                data = {"a": data}
            helpers = {"mk": "mark", "pr": "probe", "vr": "vret"}
            tg = TG(r.fork("p"), data, helpers, [], opt={"inline": False, "partial_block": False})
            templates = [("p0", tg.partial_body(2)), ("main", TG(r.fork("m"), data, helpers, ["p0"], opt={"missing": 0.25}).template(3))]
            meta = {"mode": "tg", "strict": ["any", ""], "loose": ["any", ""]}
            cfg = {"escape": "html", "helpers": std_helpers()}
        ops = [{"op": "reg_string", "reg": 0, "name": nm, "src": s} for nm, s in templates]
        ops.append({"op": "render", "reg": 0, "api": "render", "name": "main", "data": enc(data)})
        ops.append({"op": "set_strict", "reg": 0, "v": True})
        ops.append({"op": "render", "reg": 0, "api": "render", "name": "main", "data": enc(data)})
        case = {"kind": "session", "regs": [cfg], "ops": ops, "id": "%s-%06d" % (ID, i)}
        out.append((case, meta))
    # directed: strictness after a decorator replaced the context (repaired defect F17)
    for k, (tpl, exp) in enumerate([("{{*setctx this}}[{{nope}}]", "MissingVariable"), ("{{*setctx o}}[{{len nope}}]", "ParamNotFoundForName")]):
        ops = [{"op": "reg_string", "reg": 0, "name": "main", "src": tpl},
               {"op": "render", "reg": 0, "api": "render", "name": "main", "data": enc({"o": {"x": 1}})},
               {"op": "set_strict", "reg": 0, "v": True},
               {"op": "render", "reg": 0, "api": "render", "name": "main", "data": enc({"o": {"x": 1}})}]
        case = {"kind": "session", "regs": [{"escape": "html", "decorators": [{"name": "setctx", "kind": "setctx"}]}], "ops": ops, "id": "%s-d%d" % (ID, k)}
        out.append((case, {"mode": "ast", "strict": ["musterr", [exp]], "loose": ["any", ""]}))
    # directed: strict mode asks whether an else branch is THERE, not whether it writes something – `with` / `each` on a missing,
    # falsy or non-iterable value with an else that is empty (plain, `^`, at the end of a chain, after an empty link) render as in
    # non-strict mode; without any else they are the strict error
    rows = [("[{{#with nope}}x{{else}}{{/with}}]", ("must", "[]")), ("[{{#each nope}}x{{else}}{{/each}}]", ("must", "[]")),
            ("[{{#with f}}x{{^}}{{/with}}]", ("must", "[]")), ("[{{#each s}}x{{^}}{{/each}}]", ("must", "[]")),
            ("[{{#if nope}}A{{else with nope}}B{{else}}{{/if}}]", ("must", "[]")), ("[{{#if nope}}A{{else each nope}}{{else}}{{/if}}]", ("must", "[]")),
            ("[{{#with nope}}{{else}}{{/with}}]", ("must", "[]")), ("[{{#with nope}}x{{else}} {{/with}}]", ("must", "[ ]")),
            ("[{{#with nope}}x{{else}}{{!c}}{{/with}}]", ("must", "[]")), ("[{{#with o}}{{#each nope}}x{{else}}{{/each}}{{/with}}]", ("must", "[]")),
            ("[{{#with nope}}x{{/with}}]", ("musterr", ["MissingVariable"])), ("[{{#each nope}}x{{/each}}]", ("musterr", ["MissingVariable"])),
            ("[{{#if nope}}A{{else with nope}}B{{/if}}]", ("musterr", ["MissingVariable"])), ("[{{#each e}}x{{/each}}]", ("must", "[]"))]
    for k, (tpl, exp) in enumerate(rows):
        d = {"o": {"x": 1}, "f": False, "s": "str", "e": []}
        ops = [{"op": "reg_string", "reg": 0, "name": "main", "src": tpl},
               {"op": "render", "reg": 0, "api": "render", "name": "main", "data": enc(d)},
               {"op": "set_strict", "reg": 0, "v": True},
               {"op": "render", "reg": 0, "api": "render", "name": "main", "data": enc(d)}]
        case = {"kind": "session", "regs": [{"escape": "html"}], "ops": ops, "id": "%s-else%02d" % (ID, k)}
        out.append((case, {"mode": "ast", "strict": list(exp), "loose": ["must", "[ ]" if "}} {{" in tpl else "[]"]}))
    # directed: values that are PRESENT but null / false / 0 / empty are values: `lookup` of such a key or index, a path to it, `with` / `if`
    # / `each` with an else on it render in strict mode as they do in non-strict mode
    dn = {"m": {"k": None, "f": False, "z": 0, "e": "", "a": [], "o": {}}, "l": [None, False, 0, ""]}
    kn = 0
    for tpl, exp in [("[{{lookup m \"k\"}}]", "[]"), ("[{{lookup m \"f\"}}|{{lookup m \"z\"}}|{{lookup m \"e\"}}]", "[false|0|]"), ("[{{lookup l 0}}|{{lookup l 1}}|{{lookup l 2}}]", "[|false|0]"),
                     ("[{{m.k}}|{{m.f}}|{{l.0}}|{{l.[3]}}]", "[|false||]"), ("[{{#if (lookup m \"k\")}}T{{else}}F{{/if}}]", "[F]"),
                     ("[{{#with (lookup m \"k\")}}T{{else}}F{{/with}}]", "[F]"), ("[{{#each m}}{{lookup ../m @key}},{{/each}}]", "[[],,false,,[object],0,]"),
                     ("[{{lookup (lookup m \"o\") \"x\"}}]", None), ("[{{len (lookup m \"k\")}}]", "[0]")]:
        ops = [{"op": "reg_string", "reg": 0, "name": "main", "src": tpl},
               {"op": "render", "reg": 0, "api": "render", "name": "main", "data": enc(dn)},
               {"op": "set_strict", "reg": 0, "v": True},
               {"op": "render", "reg": 0, "api": "render", "name": "main", "data": enc(dn)}]
        case = {"kind": "session", "regs": [{"escape": "none"}], "ops": ops, "id": "%s-nullkey%02d" % (ID, kn)}
        kn += 1
        if exp is None:
            out.append((case, {"mode": "ast", "strict": ["musterr", ["MissingVariable"]], "loose": ["must", "[]"]}))
        else:
            out.append((case, {"mode": "ast", "strict": ["must", exp], "loose": ["must", exp]}))
    # directed: more `../` than enclosing scopes (outside the quantifier of C01 – what such a path designates is not stated; the crate
    # and the model are compared, and the strict / non-strict relation is checked): the key present in the innermost scope only,
    # at the root only, in both, in neither; one and two scopes; as a value, a block argument, a helper argument
    kk = 0
    for dname, d in (("inner", {"a": {"x": "in", "b": {"x": "deep"}}}), ("root", {"a": {"b": {}}, "x": "root"}),
                     ("both", {"a": {"x": "in", "b": {"x": "deep"}}, "x": "root"}), ("neither", {"a": {"b": {}}})):
        for tpl in ("{{#with a}}[{{../../x}}]{{/with}}", "{{#with a}}[{{../../../x}}]{{/with}}", "{{#with a}}{{#with b}}[{{../../../x}}|{{../../x}}]{{/with}}{{/with}}",
                    "{{#each a}}[{{../../x}}]{{/each}}", "{{#with a}}[{{#if ../../x}}T{{else}}F{{/if}}]{{/with}}", "{{#with a}}[{{len ../../x}}]{{/with}}",
                    "{{#with a}}[{{#with ../../x}}{{this}}{{else}}E{{/with}}]{{/with}}", "[{{../x}}|{{../../x}}]"):
            ops = [{"op": "reg_string", "reg": 0, "name": "main", "src": tpl},
                   {"op": "render", "reg": 0, "api": "render", "name": "main", "data": enc(d)},
                   {"op": "set_strict", "reg": 0, "v": True},
                   {"op": "render", "reg": 0, "api": "render", "name": "main", "data": enc(d)}]
            case = {"kind": "session", "regs": [{"escape": "html"}], "ops": ops, "id": "%s-deepup%03d" % (ID, kk)}
            kk += 1
            out.append((case, {"mode": "ast", "strict": ["any", "over-deep ../"], "loose": ["any", "over-deep ../"]}))
    # the family of the Lean theorem C10.strict_each_on_missing_fails_at_source: L ++ {{#each v}}A{{/each}} ++ R on data without `v`:
    # non-strict renders L ++ R, strict fails with MissingVariable("v") naming the template after exactly L was written
    from .C03 import thm_left, thm_right
    for k in range(40 if tier == "quick" else 1000):
        r = rng.fork("thm%d" % k)
        L, R = thm_left(r), thm_right(r)
        src = L + "{{#each v}}A{{/each}}" + R
        d = r.pick([{}, {"w": 1}, {"V": [1]}, {"v ": [1]}])
        ops = [{"op": "reg_string", "reg": 0, "name": "main", "src": src},
               {"op": "render", "reg": 0, "api": "render_to_write", "name": "main", "data": enc(d)},
               {"op": "set_strict", "reg": 0, "v": True},
               {"op": "render", "reg": 0, "api": "render_to_write", "name": "main", "data": enc(d)}]
        case = {"kind": "session", "regs": [{"escape": r.pick(["html", "none"])}], "ops": ops, "id": "%s-thm%04d" % (ID, k)}
        out.append((case, {"mode": "thm", "strict": ["any", ""], "loose": ["must", L + R], "L": L}))
    return out


def oracle(case, meta, impl):
    if impl.get("r") != "session":
        return ["no result"]
    rs = impl["results"]
    loose, strict = rs[-3], rs[-1]
    if meta["mode"] == "thm":
        v = []
        if not (loose.get("r") == "ok" and loose.get("out") == meta["loose"][1]):
            v.append("each on a missing value (theorem family): non-strict expected %r got %r" % (meta["loose"][1], loose.get("out", loose.get("reason"))))
        if not (strict.get("r") == "rerr" and strict.get("reason") == "MissingVariable" and (strict.get("args") or [None])[0] == "v"
                and strict.get("name") == "main" and strict.get("written") == meta["L"]):
            v.append("each on a missing value (theorem family): strict expected MissingVariable(v) in main after %r, got %s %s %s name=%s written=%r" % (
                meta["L"], strict.get("r"), strict.get("reason"), strict.get("args"), strict.get("name"), strict.get("written", strict.get("out"))))
        return v
    if loose.get("reason") == "TemplateNotFound":
        return None
    v = []
    # the relation itself, on the real crate
    if strict.get("r") == "ok":
        if loose.get("r") != "ok" or loose.get("out") != strict.get("out"):
            v.append("strict render succeeded with %r but the non-strict render gave %r" % (strict.get("out"), loose.get("out", loose.get("reason"))))
    elif strict.get("r") == "rerr":
        if loose.get("r") == "rerr":
            pass
        elif strict.get("reason") not in ("MissingVariable", "ParamNotFoundForName") and meta["mode"] == "ast":
            v.append("strict mode added an error other than a missing-value error: %s" % strict.get("reason"))
    if meta["mode"] == "ast":
        a = check_against_ref(tuple(meta["strict"]), strict)
        b = check_against_ref(tuple(meta["loose"]), loose)
        for x in (a, b):
            if x:
                v += x
    return v


def nontrivial_key(case, meta, impl):
    if impl.get("r") != "session":
        return None
    rs = impl["results"]
    if rs[-1].get("r") != rs[-3].get("r"):
        return case["id"]
    return None


def outcome_kind(case, meta, impl):
    if impl.get("r") != "session":
        return "none"
    rs = impl["results"]
    return "loose=%s strict=%s:%s" % (rs[-3].get("r"), rs[-1].get("r"), rs[-1].get("reason", ""))


def distribution(cases):
    d = {}
    for c, m in cases:
        d["mode." + m["mode"]] = d.get("mode." + m["mode"], 0) + 1
        d["strict-oracle." + m["strict"][0]] = d.get("strict-oracle." + m["strict"][0], 0) + 1
    return d
