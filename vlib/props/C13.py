"""C13 Helpers receive their arguments exactly as written, once."""
import json
from ..gen import enc, session, gen_json, gen_scalar, lit, str_lit, F
from ..rng import Rng
from .common import last

ID = "C13"
BUDGET = {"quick": 2000, "thorough": 100000}
RULE = ("a recording probe helper (dumps params / hash / block metadata as JSON, one dump per invocation) called as an "
        "expression, a block and a subexpression with arity 0..6 and hash size 0..4; hash keys written twice (the last value counts); arguments: JSON literals of depth ≤ 3 "
        "(strings over an alphabet with quotes, backslashes, braces, unicode and control escapes in both quote styles; "
        "integers across the i64/u64 range; decimals with ≤ 15 significant digits; exponent forms), paths (present and "
        "missing), subexpressions nested ≤ 4 (lookup / eq / probe itself); block parameters 'as |a b|'; the same after a decorator replaced the render context; the tag at the root, in the body of a partial (with / without hash arguments) and inside a `with` over a subexpression result (the same data, held as a value owned by the scope); oracle = the values "
        "denoted, computed by the generator; exactly one dump per tag evaluation; non-trivial = at least one literal or "
        "subexpression argument; distinct by argument list")
DEFINITE_FLOOR = 0.9
ASSUMPTIONS = ["single-quoted strings nested inside array/object literals are excluded from the random stream (known finding F15) and run as a listed witness",
               "a tag whose NAME is a subexpression is excluded from the random stream (known finding F12) and runs as a listed witness"]
DATA = {"a": 1, "s": "str", "o": {"k": "v", "n": [1, 2, 3]}, "arr": ["x", "y"], "t": True, "nul": None, "neg": -7, "big": 2 ** 63,
        # field names that BEGIN like a literal and go on with a character of the grammar's `symbol_char` class that is no ASCII letter,
        # digit or underscore: they are paths (a literal ends where no symbol character follows), one argument each
        "null-safe": "ns", "true-color": "tc", "false$": "f$", "1-2": "12", "nullé": "né", "true:x": "tx", "0$": "z$", "-1-": "m1", "nullable": "nb", "true_": "tu", "12ab": "ab"}
STR_ALPHA = list("ab \"'\\{}/") + ["\n", "\t", "é", "→", "😀", "\u0001", "\r", "{{", "}}"]


def gen_lit(rng, depth=2):
    k = rng.weighted([("str", 5), ("int", 4), ("dec", 3), ("bool", 1), ("null", 1), ("arr", 2 if depth > 0 else 0), ("obj", 2 if depth > 0 else 0)])
    if k == "str":
        return "".join(rng.pick(STR_ALPHA) for _ in range(rng.range(0, 7)))
    if k == "int":
        return rng.pick([0, 1, -1, 42, 2 ** 31, 2 ** 53 + 1, 2 ** 63 - 1, 2 ** 63, 2 ** 64 - 1, -(2 ** 63), rng.range(-10 ** 6, 10 ** 6)])
    if k == "dec":
        # ≤ 15 significant digits, modest exponent: serde_json parses these exactly
        m = rng.range(-10 ** 6, 10 ** 6)
        d = rng.pick([1, 10, 100, 1000, 8, 4])
        return F.of(m / d)
    if k == "bool":
        return rng.chance(0.5)
    if k == "null":
        return None
    if k == "arr":
        return [gen_lit(rng, depth - 1) for _ in range(rng.range(0, 3))]
    return {"".join(rng.pick(list("abk _")) for _ in range(rng.range(0, 3))): gen_lit(rng, depth - 1) for _ in range(rng.range(0, 3))}


def num_text(rng, v):
    if isinstance(v, F):
        x = v.value()
        s = repr(x)
        if "e" in s or "E" in s:
            return None
        if rng.chance(0.15) and x == int(x) and abs(x) < 10 ** 6:
            # exponent form the grammar accepts: capital E, optional '-'
            return "%dE0" % int(x) if rng.chance(0.5) else "%d0E-1" % int(x)
        return s
    return str(v)


def lit_src(rng, v, nested=False):
    if isinstance(v, F):
        return num_text(rng, v)
    if isinstance(v, list):
        items = [lit_src(rng, x, True) for x in v]
        if any(i is None for i in items):
            return None
        sp = rng.pick(["", " "])
        return "[" + sp + ("," + sp).join(items) + sp + "]"
    if isinstance(v, dict):
        items = []
        for k, x in v.items():
            l = lit_src(rng, x, True)
            if l is None:
                return None
            items.append(str_lit(rng, k, allow_single=False) + ":" + rng.pick(["", " "]) + l)
        return "{" + ", ".join(items) + "}"
    if isinstance(v, str):
        return str_lit(rng, v, allow_single=not nested)
    return lit(rng, v)


def to_json(v):
    """expected JSON of a delivered value (floats as their protocol form, compared after parsing)"""
    if isinstance(v, F):
        return {"#f": "%016x" % v.bits}
    if isinstance(v, list):
        return [to_json(x) for x in v]
    if isinstance(v, dict):
        return {k: to_json(x) for k, x in v.items()}
    return v


def gen_numtext(rng):
    """a number literal as the grammar writes it: '-'? digits ('.' digits)? ('E' '-'? digits)?  – with up to 15
    significant digits (the property's domain) or, flagged `open`, up to 40 (serde_json's own precision: compared with
    the model only)"""
    long_ = rng.chance(0.2)
    nd = rng.range(16, 40) if long_ else rng.range(1, 15)
    digs = str(rng.range(1, 9)) + "".join(str(rng.range(0, 9)) for _ in range(nd - 1))
    form = rng.pick(["int", "dec", "exp", "decexp"])
    neg = rng.chance(0.3)
    if form == "int":
        t = digs
    elif form == "dec":
        k = rng.range(0, len(digs) - 1)
        t = (digs[:k] or "0") + "." + digs[k:]
    elif form == "exp":
        t = digs + "E" + rng.pick(["", "-"]) + str(rng.range(0, 250))
    else:
        k = rng.range(0, len(digs) - 1)
        t = (digs[:k] or "0") + "." + digs[k:] + "E" + rng.pick(["", "-"]) + str(rng.range(0, 250))
    if neg:
        t = "-" + t
    if form == "int":
        n = int(t)
        if 0 <= n < 2 ** 64 and not (neg and n == 0):
            v = n
        elif -(2 ** 63) <= n < 0:
            v = n
        else:
            v = F.of(float(n))
    else:
        x = float(t)
        if x in (float("inf"), float("-inf")):
            return gen_numtext(rng)
        v = F.of(x)
    e = {"v": to_json(v), "r": None, "m": False}
    if long_:
        e["open"] = True
    return t, e


def gen_arg(rng, depth):
    k = rng.weighted([("lit", 6), ("path", 4), ("missing", 1), ("sub", 2 if depth > 0 else 0), ("num", 2)])
    if k == "num":
        return gen_numtext(rng)
    if k == "lit":
        v = gen_lit(rng)
        s = lit_src(rng, v)
        if s is None:
            return gen_arg(rng, depth)
        return s, {"v": to_json(v), "r": None, "m": False}
    if k == "path":
        p, v = rng.pick([("a", 1), ("s", "str"), ("o.k", "v"), ("o/n/[1]", 2), ("arr.[0]", "x"), ("t", True), ("nul", None),
                         ("neg", -7), ("big", 2 ** 63), ("this.o.n", [1, 2, 3]), ("@root.s", "str"), ("o", {"k": "v", "n": [1, 2, 3]}),
                         ("null-safe", "ns"), ("true-color", "tc"), ("false$", "f$"), ("1-2", "12"), ("nullé", "né"), ("true:x", "tx"), ("0$", "z$"), ("-1-", "m1"),
                         ("nullable", "nb"), ("true_", "tu"), ("12ab", "ab"), ("this.null-safe", "ns"), ("@root.true-color", "tc")])
        return p, {"v": v, "r": p, "m": False}
    if k == "missing":
        p = rng.pick(["nope", "o.zz", "arr.[9]"])
        return p, {"v": None, "r": p, "m": True}
    # subexpression: typed result of the inner helper
    h = rng.pick(["lookup", "eq", "len", "not", "id"])
    if h == "id":
        # a user-defined helper (HelperDef::call_inner) that hands back its argument, and ScopedJson::Missing when there is none: the
        # outer helper receives exactly that – a missing result stays flagged missing
        s, e, m = rng.pick([("(id nope)", None, True), ("(id o.zz)", None, True), ("(id)", None, True), ("(id a)", 1, False), ("(id nul)", None, False),
                            ("(id (id nope))", None, True), ("(id o)", {"k": "v", "n": [1, 2, 3]}, False)])
        return s, {"v": e, "r": None, "m": m}
    if h == "lookup":
        s, e = rng.pick([("(lookup o \"k\")", "v"), ("(lookup arr 1)", "y"), ("(lookup o.n 2)", 3), ("(lookup o \"zz\")", None)])
        return s, {"v": e, "r": None, "m": False}
    if h == "eq":
        a1, e1 = gen_arg(rng, 0)
        if e1["m"] or a1.startswith("("):
            return gen_arg(rng, depth)
        return "(eq " + a1 + " " + a1 + ")", {"v": True, "r": None, "m": False}
    if h == "len":
        return "(len arr)", {"v": 2, "r": None, "m": False}
    return "(not (not t))", {"v": True, "r": None, "m": False}


def gen_case(rng, i):
    n = rng.range(0, 6)
    hn = rng.range(0, 4)
    args = [gen_arg(rng, 2) for _ in range(n)]
    keys = rng.shuffle(["k1", "k2", "zz", "a", "opt"])[:hn]
    hargs = [(k, gen_arg(rng, 1)) for k in keys]
    if hargs and rng.chance(0.25):
        # a key written more than once: the helper finds the LAST value written under it (one entry per key)
        for _ in range(rng.range(1, 2)):
            hargs.insert(rng.range(1, len(hargs)), (rng.pick(hargs)[0], gen_arg(rng, 1)))
    form = rng.pick(["expr", "expr", "block", "sub", "chain"])
    if form == "expr" and n == 0 and hn == 0:
        form = "block"
    inner = "pr " + " ".join(a for a, _ in args) + "".join(" %s=%s" % (k, a) for k, (a, _) in hargs)
    inner = inner.rstrip()
    bp = []
    # whitespace control on either side of the tag, with or without a space in front of the closing tilde
    pre = rng.pick(["", "", "~"])
    post = rng.pick(["", "", "~", " ~", " "])
    if form == "expr":
        tpl = "{{{" + pre + inner + post + "}}}"
    elif form in ("block", "chain"):
        bpn = rng.pick([0, 1, 2])
        bp = ["x1", "y2"][:bpn]
        els = rng.chance(0.5)
        # bodies may be EMPTY: a block helper still receives its body and – when an else tag is there – its else body
        tag = inner + (" as |" + " ".join(bp) + "|" if bp else "") + post + "}}" + rng.pick(["B", "B", ""]) + (rng.pick(["{{else}}E", "{{else}}", "{{^}}"]) if els else "")
        if form == "block":
            tpl = "{{" + pre + "#" + tag + "{{/pr}}"
        else:
            tpl = "{{#if f}}X{{" + pre + "else " + tag + "{{/if}}"
    else:
        tpl = "{{{id (" + inner + ")}}}" if (n + hn) > 0 else "{{{id (pr 1)}}}"
        if (n + hn) == 0:
            args = [("1", {"v": 1, "r": None, "m": False})]
    exp = {"n": "pr", "p": [e for _, e in args], "h": {k: e for k, (_, e) in hargs}, "b": form in ("block", "chain"),
           "t": form in ("block", "chain"), "i": form in ("block", "chain") and ("{{else}}" in tpl or "{{^}}" in tpl), "bp": bp}
    cfg = {"escape": "none", "helpers": [{"name": "pr", "kind": "probe"}, {"name": "id", "kind": "vret"}],
           "decorators": [{"name": "sc", "kind": "setctx"}]}
    if rng.chance(0.2):
        # after a decorator replaced the render context (by the same data): arguments are resolved against the replacement –
        # present values, explicit nulls included, stay present; paths that designate nothing stay missing
        tpl = "{{*sc this}}" + tpl
    # the scope the tag is evaluated in: the root data, or the SAME data held as a value owned by the scope (the body of a
    # partial, with / without hash arguments; a `with` over a subexpression result) – arguments denote the same values, and a
    # path that designates nothing is flagged missing in each of them
    wrap = rng.weighted([("root", 5), ("partial", 2), ("partial-hash", 1), ("with-sub", 2), ("partial-in-with", 1)])
    templates = []
    src = tpl
    if wrap in ("partial", "partial-hash", "partial-in-with"):
        templates = [("pp", tpl)]
        src = {"partial": "{{> pp}}", "partial-hash": "{{> pp extra=1}}", "partial-in-with": "{{#with (id this)}}{{> pp}}{{/with}}"}[wrap]
    elif wrap == "with-sub":
        src = "{{#with (id this)}}" + tpl + "{{/with}}"
    case = session(cfg, templates, {"api": "render_template", "src": src}, DATA)
    return case, {"expect": exp, "form": form, "tpl": tpl, "wrap": wrap}


def generate(rng, n, tier="quick"):
    out = []
    for i in range(n):
        c, m = gen_case(rng.fork(i), i)
        c["id"] = "%s-%06d" % (ID, i)
        out.append((c, m))
    # the family of the Lean theorem C13.literal_argument_reaches_the_helper: L ++ {{name 1}} ++ R for any helper name (an identifier
    # of the grammar), the helper being the one that writes its first argument as JSON text: the closed form L ++ "1" ++ R (exact)
    from .C03 import _no_open, rand_text, thm_left
    from .C02 import ident_name
    tr = rng.fork("thm")
    for k in range(60 if tier == "quick" else 2000):
        r = tr.fork(k)
        L = thm_left(r)
        R = _no_open(rand_text(r, r.range(0, 8)))
        nm = ident_name(r)
        c = session({"escape": r.pick(["none", "html", "mark"]), "helpers": [{"name": nm, "kind": "wr"}]}, [],
                    {"api": "render_template", "src": L + "{{%s 1}}" % nm + R}, {})
        c["id"] = "C13-thm%05d" % k
        out.append((c, {"expect": L + "1" + R, "form": "thm", "tpl": L + "{{%s 1}}" % nm + R}))
    cfg = {"escape": "none", "helpers": [{"name": "pr", "kind": "probe"}, {"name": "id", "kind": "vret"}, {"name": "mk", "kind": "mark", "tag": "M"}]}
    # listed witnesses
    c = session(cfg, [], {"api": "render_template", "src": "{{pr ['a']}}"}, {})
    c["id"] = "C13-F15"
    out.append((c, {"expect": {"n": "pr", "p": [{"v": ["a"], "r": None, "m": False}], "h": {}, "b": False, "t": False, "i": False, "bp": []}, "form": "witness", "tpl": "{{pr ['a']}}"}))
    cfg2 = dict(cfg, helpers=cfg["helpers"] + [{"name": "cnt", "kind": "counter"}])
    for k, tpl in enumerate(["{{cnt}}", "{{cnt 1}}", "{{#cnt}}{{/cnt}}", "{{id (cnt)}}", "{{id (cnt 1)}}", "{{#if (cnt 1)}}{{/if}}{{cnt}}"]):
        c = session(cfg2, [], {"api": "render_template", "src": tpl}, {})
        c["id"] = "C13-once-%d" % k
        out.append((c, {"expect": "1" if tpl.endswith("{{cnt}}") and k == 5 else "0", "form": "once", "tpl": tpl}))
    c = session(cfg2, [], {"api": "render_template", "src": "{{(cnt)}}"}, {})
    c["id"] = "C13-F12"
    out.append((c, {"expect": "0", "form": "once", "tpl": "{{(cnt)}}"}))
    return out


def same(a, b):
    """compare a dumped value with the expected one (floats by bits)"""
    return json.dumps(a, sort_keys=True) == json.dumps(b, sort_keys=True)


def enc_dump(v):
    """the probe prints serde_json text; numbers there are decimal – convert expected protocol floats to Python floats"""
    if isinstance(v, dict):
        if set(v.keys()) == {"#f"}:
            import struct
            return struct.unpack("<d", struct.pack("<Q", int(v["#f"], 16)))[0]
        return {k: enc_dump(x) for k, x in v.items()}
    if isinstance(v, list):
        return [enc_dump(x) for x in v]
    return v


def num_eq(a, b):
    if isinstance(a, bool) or isinstance(b, bool):
        return a is b
    if isinstance(a, (int, float)) and isinstance(b, (int, float)):
        # integer literals stay integers, decimals floats: the JSON text keeps the distinction
        return a == b and isinstance(a, float) == isinstance(b, float)
    if isinstance(a, list) and isinstance(b, list):
        return len(a) == len(b) and all(num_eq(x, y) for x, y in zip(a, b))
    if isinstance(a, dict) and isinstance(b, dict):
        return a.keys() == b.keys() and all(num_eq(a[k], b[k]) for k in a)
    return type(a) == type(b) and a == b


def oracle(case, meta, impl):
    l = last(impl)
    if meta["form"] == "thm":
        if l.get("r") == "ok" and l.get("out") == meta["expect"]:
            return []
        return ["literal argument (theorem family): expected %r got %r for %r" % (meta["expect"], l.get("out", l.get("reason", l.get("r"))), meta["tpl"])]
    if meta["form"] == "once":
        if l.get("r") != "ok":
            return None
        return [] if l["out"] == meta["expect"] else ["the counting helper printed %r for %s: it was invoked more than once per evaluation of its tag" % (l["out"], meta["tpl"])]
    if l.get("r") != "ok":
        return ["helper call failed: %s %s (%s)" % (l.get("r"), l.get("reason"), meta["tpl"])]
    out = l["out"]
    if meta["form"] == "block":
        pass
    try:
        d = json.loads(out)
    except Exception:
        # a subexpression hands the dump (a string) to `id`, which prints it
        return ["output is not exactly one dump: %r" % out[:200]]
    exp = meta["expect"]
    v = []
    if d.get("n") != exp["n"]:
        v.append("name")
    got_p = [{"v": p["v"], "r": p["r"], "m": p["m"]} for p in d.get("p", [])]
    exp_p = [{"v": enc_dump(p["v"]), "r": p["r"], "m": p["m"]} for p in exp["p"]]
    # literals beyond 15 significant digits: "subject to serde_json's own parsing precision" – the value is left open
    for g, e in zip(got_p, exp["p"]):
        if e.get("open") and isinstance(g["v"], (int, float)) and not isinstance(g["v"], bool):
            g["v"] = enc_dump(e["v"])
    if len(got_p) != len(exp_p) or not all(num_eq(a, b) for a, b in zip(got_p, exp_p)):
        v.append("positional arguments: expected %s got %s" % (json.dumps(exp_p)[:300], json.dumps(got_p)[:300]))
    got_h = {k: {"v": p["v"], "r": p["r"], "m": p["m"]} for k, p in d.get("h", {}).items()}
    for k, e in exp["h"].items():
        if e.get("open") and k in got_h and isinstance(got_h[k]["v"], (int, float)) and not isinstance(got_h[k]["v"], bool):
            got_h[k]["v"] = enc_dump(e["v"])
    exp_h = {k: {"v": enc_dump(p["v"]), "r": p["r"], "m": p["m"]} for k, p in exp["h"].items()}
    if not num_eq(got_h, exp_h):
        v.append("hash arguments: expected %s got %s" % (json.dumps(exp_h)[:300], json.dumps(got_h)[:300]))
    if meta["form"] != "sub":
        for k in ("b", "t", "i", "bp"):
            if d.get(k) != exp[k]:
                v.append("block metadata %s: expected %s got %s" % (k, exp[k], d.get(k)))
    return v


def nontrivial_key(case, meta, impl):
    return meta["tpl"] if ("\"" in meta["tpl"] or "'" in meta["tpl"] or "(" in meta["tpl"] or any(ch.isdigit() for ch in meta["tpl"])) else None


def distribution(cases):
    d = {}
    for c, m in cases:
        d["form." + m["form"]] = d.get("form." + m["form"], 0) + 1
    return d
