"""C09 A partial renders as its template applied to the designated context."""
from ..astgen import AG, gen_doc
from ..gen import enc as _enc0
from ..gen import enc, session
from ..rng import Rng
from .. import ref
from .common import last, ref_outcome, check_against_ref, escape_of

ID = "C09"
BUDGET = {"quick": 1500, "thorough": 60000}
RULE = ("acyclic sets of ≤ 5 registered templates plus inline partials (1..3 definitions of one name, shadowing a registered template or not, each followed by calls: a call renders the latest definition before it); every call form: plain, context path / literal, "
        "hash with path / literal / subexpression values, dynamic name (subexpression), block form with and without the "
        "partial existing, @partial-block used 0..3 times, nested partial blocks ≤ 3 deep; invoked from every scope kind "
        "(top level, each, with, if, inside other partials); oracle = reference renderer (partial = its template on ONE "
        "fresh scope holding merge(designated context, hash); @partial-block bound lexically) and the errors "
        "CannotIncludeSelf / PartialNotFound; non-trivial = at least one partial call rendered; distinct by output")
DEFINITE_FLOOR = 0.5


def gen_case(rng, i):
    data = gen_doc(rng, 3)
    esc = rng.pick(["html", "none", "mark"])
    npart = rng.range(1, 4)
    names = ["p%d" % k for k in range(npart)]
    asts = {}
    for k in range(npart - 1, -1, -1):
        pg = AG(rng.fork("p%d" % k), data, names[k + 1:], opt={"pblock": rng.chance(0.5), "pblock_args": True, "missing": 0.1, "sub": True})
        # a partial body: written against an unknown context; paths are evaluated by the reference at run time
        body = pg.nodes([ref.Scope(data, "partial")], 2)
        if rng.chance(0.35):
            # a fallback block for a partial that does not exist, before / between uses of @partial-block
            fb = {"t": "partial", "name": "nosuch", "ctx": None, "hash": [], "block": [{"t": "text", "s": "d"}] + pg.nodes([ref.Scope(data, "partial")], 1)}
            body.insert(rng.range(0, len(body)), fb)
            if rng.chance(0.7):
                body.append({"t": "pblock"})
        asts[names[k]] = [{"t": "text", "s": "<%d:" % k}] + body + [{"t": "text", "s": ">"}]
    ag = AG(rng.fork("main"), data, names, opt={"missing": 0.1, "sub": True})
    main = ag.nodes([ref.Scope(data, "root")], 3)
    # make sure some call forms are present
    extra = []
    for _ in range(rng.range(1, 3)):
        form = rng.pick(["plain", "ctx", "hash", "block", "block-missing", "nested-block", "missing", "lit"])
        nm = rng.pick(names)
        scopes = [ref.Scope(data, "root")]
        if form == "plain":
            extra.append({"t": "partial", "name": nm, "ctx": None, "hash": [], "block": None})
        elif form == "ctx":
            extra.append({"t": "partial", "name": nm, "ctx": ag.arg(scopes), "hash": [], "block": None})
        elif form == "lit":
            extra.append({"t": "partial", "name": nm, "ctx": {"a": "lit", "v": rng.pick([{"x": 1}, [1, 2], "str", 5, None])}, "hash": [], "block": None})
        elif form == "hash":
            extra.append({"t": "partial", "name": nm, "ctx": (ag.arg(scopes) if rng.chance(0.4) else None),
                          "hash": [(k, ag.arg(scopes)) for k in rng.shuffle(["x", "y", "k", "a"])[:rng.range(1, 3)]], "block": None})
        elif form == "block":
            extra.append({"t": "partial", "name": nm, "ctx": None, "hash": [], "block": ag.nodes(scopes, 1) + [{"t": "text", "s": "B"}]})
        elif form == "block-missing":
            extra.append({"t": "partial", "name": "nosuch", "ctx": None, "hash": [], "block": ag.nodes(scopes, 1) + [{"t": "text", "s": "D"}]})
        elif form == "nested-block":
            inner = {"t": "partial", "name": rng.pick(names), "ctx": None, "hash": [], "block": [{"t": "text", "s": "I"}, {"t": "pblock"}] if rng.chance(0.5) else [{"t": "text", "s": "I"}]}
            extra.append({"t": "partial", "name": nm, "ctx": None, "hash": [], "block": [{"t": "text", "s": "O"}, inner]})
        else:
            extra.append({"t": "partial", "name": "nosuch", "ctx": None, "hash": [], "block": None})
    for ctx_arg in [a.get("ctx") for a in extra]:
        if ctx_arg is not None and ctx_arg["a"] == "local":
            return None
    main = main + extra
    if rng.chance(0.35):
        # inline partials: 1..3 definitions of ONE name (a registered one, which they shadow, or a new one), each followed by
        # a call – every call renders the latest definition before it
        r2 = rng.fork("inl")
        nm = r2.pick(names + ["i0", "i0"])
        ig = AG(r2.fork("body"), data, [], opt={"missing": 0.1, "sub": True})   # no calls inside: a definition may not include itself
        seq = []
        if nm in names and r2.chance(0.5):
            seq.append({"t": "partial", "name": nm, "ctx": None, "hash": [], "block": None})
        for j in range(r2.range(1, 3)):
            ib = [{"t": "text", "s": "<I%d:" % j}] + ig.nodes([ref.Scope(data, "partial")], 1) + [{"t": "text", "s": ">"}]
            seq.append({"t": "inline", "name": nm, "body": ib})
            if r2.chance(0.85):
                seq.append({"t": "partial", "name": nm, "ctx": (ag.arg([ref.Scope(data, "root")]) if r2.chance(0.3) else None), "hash": [], "block": None})
            if r2.chance(0.3):
                seq.append({"t": "text", "s": "|"})
        if any(x.get("ctx") is not None and x["ctx"]["a"] == "local" for x in seq):
            return None
        main = main + seq
    asts["main"] = main
    srcs = {}
    for nm, a in asts.items():
        s = ref.print_nodes(rng.fork("pr" + nm), a)
        if s is None:
            return None
        srcs[nm] = s
    case = session({"escape": esc}, [(nm, srcs[nm]) for nm in names] + [("main", srcs["main"])],
                   {"api": "render", "name": "main"}, data)
    oc = ref_outcome(asts, "main", data, False, escape_of(esc))
    return case, {"oracle": list(oc)}


def generate(rng, n, tier="quick"):
    out = []
    i = 0
    while len(out) < n:
        r = gen_case(rng.fork(i), i)
        i += 1
        if r is None:
            continue
        c, m = r
        c["id"] = "%s-%06d" % (ID, i)
        out.append((c, m))
    # the family of the Lean theorem C09.inline_partial_call_renders_the_partial: L ++ {{> name}} ++ R with the tag NOT alone on its
    # line, L not ending in a blank, `name` any partial name, registered as a plain text P: the closed form L ++ P ++ R (exact)
    from .C03 import _no_open, rand_text
    tr = rng.fork("thm")
    for k in range(60 if tier == "quick" else 2000):
        r = tr.fork(k)
        L = _no_open(rand_text(r, r.range(0, 8)))
        while L and (L[-1] in " \t" or L.endswith("\\") or L.endswith("{")):
            L = L[:-1]
        R = _no_open(rand_text(r, r.range(0, 8)))
        P = _no_open("".join(r.pick(list("ab}<& \t") + ["\n", "\r\n", "\u00e9", "{"]) for _ in range(r.range(1, 10))))
        if P.endswith("\\") or P == "":
            P += "x"
        lt = L.rstrip(" \t")
        rt = R.lstrip(" \t")
        # something other than blanks shares the line with the tag, before it or behind it
        if not ((lt != "" and lt[-1] not in "\n\r") or (rt != "" and rt[0] not in "\n\r")):
            L = L + "x"
        pname = r.pick(["p", "p", "dir/name.hbs", "\u00e9-1", "a.b", "x_y", "0", "\U0001F600", "p/q/r", "\u0080", "-", "_", "this", "else", "if"])
        ops = [{"op": "reg_string", "reg": 0, "name": pname, "src": P},
               {"op": "render", "reg": 0, "api": "render_template", "src": L + "{{> %s}}" % pname + R, "data": _enc0({})}]
        c = {"kind": "session", "regs": [{"escape": "none"}], "ops": ops, "id": "%s-thm%05d" % (ID, k)}
        out.append((c, {"oracle": ["must", L + P + R]}))
    # the family of C09.partial_applies_template_to_current_context: the partial's text is the value tag {{x}} (any identifier): the
    # call renders escape(text of data.x) where the tag stood – what L ++ {{x}} ++ R renders (closed form, exact)
    from .C02 import ident_name
    from .common import escape_of as _esc_of
    for k in range(60 if tier == "quick" else 2000):
        r = tr.fork("v%d" % k)
        L = _no_open(rand_text(r, r.range(0, 8)))
        while L and (L[-1] in " \t" or L.endswith("\\") or L.endswith("{")):
            L = L[:-1]
        R = _no_open(rand_text(r, r.range(0, 8)))
        lt = L.rstrip(" \t")
        rt = R.lstrip(" \t")
        if not ((lt != "" and lt[-1] not in "\n\r") or (rt != "" and rt[0] not in "\n\r")):
            L = L + "x"
        x = ident_name(r)
        if x == "other":
            x = "k"
        val, txt = r.pick([("<b>&\"'`=", "<b>&\"'`="), ("plain", "plain"), ("", ""), (7, "7"), (-3, "-3"), (True, "true"), (False, "false"), (None, ""),
                           ("a\nb", "a\nb"), ("\u00e9\u4e2d", "\u00e9\u4e2d")])
        escn = r.pick(["none", "mark", "html"])
        pname = r.pick(["p", "dir/name.hbs", "\u00e9-1", "a.b", "x_y", "0"])
        ops = [{"op": "reg_string", "reg": 0, "name": pname, "src": "{{%s}}" % x},
               {"op": "render", "reg": 0, "api": "render_template", "src": L + "{{> %s}}" % pname + R, "data": _enc0({x: val, "other": "o"})}]
        c = {"kind": "session", "regs": [{"escape": escn}], "ops": ops, "id": "%s-thmv%05d" % (ID, k)}
        out.append((c, {"oracle": ["must", L + _esc_of(escn)(txt) + R]}))
    # the family of C09.partial_in_with_sees_the_with_context: L ++ {{#with v}}{{> p}}{{/with}} ++ R, p = {{x}}: inside the block the
    # partial is applied to data.v (not to the root, which has its own x): escape(text of data.v.x) (closed form, exact)
    from .C03 import thm_left as _tl, thm_right as _trt
    for k in range(50 if tier == "quick" else 1500):
        r = tr.fork("w%d" % k)
        L, R = _tl(r), _trt(r)
        x = ident_name(r)
        if x in ("v", "zz"):
            x = "k"
        val, txt = r.pick([("<b>&\"'`=", "<b>&\"'`="), ("inner", "inner"), ("", ""), (7, "7"), (True, "true"), (False, "false"), (None, ""), ("a\nb", "a\nb")])
        escn = r.pick(["none", "mark", "html"])
        ops = [{"op": "reg_string", "reg": 0, "name": "p", "src": "{{%s}}" % x},
               {"op": "render", "reg": 0, "api": "render_template", "src": L + "{{#with v}}{{> p}}{{/with}}" + R, "data": _enc0({"v": {x: val, "zz": 1}, x: "ROOT"})}]
        c = {"kind": "session", "regs": [{"escape": escn}], "ops": ops, "id": "%s-thmw%05d" % (ID, k)}
        out.append((c, {"oracle": ["must", L + _esc_of(escn)(txt) + R]}))
    # directed: self inclusion, inline precedence, dynamic name
    def directed(idn, templates, data, expect):
        c = session({"escape": "none"}, templates, {"api": "render", "name": "main"}, data)
        c["id"] = "%s-%s" % (ID, idn)
        out.append((c, {"oracle": list(expect)}))
    # the same precedence when the registered template is tracked by a FILE, in dev mode (where every render reloads it) and out of
    # it, the including template registered from a string or from a file too
    from ..gen import enc as _enc
    for dev in (False, True):
        for main_file in (False, True):
            for k, (psrc, msrc, exp) in enumerate([
                    ("registered:{{n}}", "{{> p}}|{{#*inline \"p\"}}inline:{{n}}{{/inline}}{{> p}}|{{#> p}}dflt{{/p}}|{{#each l}}{{> p}}{{/each}}", "registered:1|inline:1|inline:1|inline:inline:"),
                    ("REG", "{{#*inline \"p\"}}A{{/inline}}{{> p}}{{#*inline \"p\"}}B{{/inline}}{{> p}}{{#with o}}{{> p}}{{/with}}", "ABB"),
                    ("REG{{> @partial-block}}", "{{#> p}}x{{/p}}|{{#*inline \"q\"}}I{{/inline}}{{#> p}}{{> q}}{{/p}}", "REGx|REGI")]):
                ops = ([{"op": "set_dev", "reg": 0, "v": True}] if dev else []) + [
                    {"op": "write_file", "file": "fp", "content": psrc}, {"op": "reg_file", "reg": 0, "name": "p", "file": "fp"}]
                if main_file:
                    ops += [{"op": "write_file", "file": "fm", "content": msrc}, {"op": "reg_file", "reg": 0, "name": "main", "file": "fm"}]
                else:
                    ops += [{"op": "reg_string", "reg": 0, "name": "main", "src": msrc}]
                ops += [{"op": "render", "reg": 0, "api": "render", "name": "main", "data": _enc({"n": 1, "l": [1, 2], "o": {"x": 1}})}]
                c = {"kind": "session", "regs": [{"escape": "none"}], "ops": ops, "id": "%s-filepart-%d%d%d" % (ID, dev, main_file, k)}
                out.append((c, {"oracle": ["must", exp]}))
    # an inline partial defined in the BODY of a block call under the block's own name is defined before the name is looked up
    directed("inline-named-like-block", [("main", "{{#> x}}{{#*inline \"x\"}}I{{/inline}}D{{/x}}")], {}, ("must", "I"))
    directed("inline-named-like-block-registered", [("x", "REG[{{> @partial-block}}]"), ("main", "{{#> x}}{{#*inline \"x\"}}I({{n}}){{/inline}}D{{/x}}|{{> x}}")], {"n": 1},
             ("must", "I(1)|I(1)"))
    directed("inline-in-block-body-visible-inside", [("lay", "<{{> title}}|{{> @partial-block}}>"), ("main", "{{#> lay}}{{#*inline \"title\"}}T{{/inline}}body{{/lay}}")], {},
             ("must", "<T|body>"))
    directed("block-body-decorator-params-in-caller-scope", [("p", "[{{> i}}]"), ("main", "{{#with o}}{{#> p}}{{#*inline \"i\"}}{{v}}{{../w}}{{/inline}}{{/p}}{{/with}}")],
             {"o": {"v": "V"}, "w": "W"}, ("any", "what an inline body sees when used inside the partial is the partial's scope; model and crate are compared"))
    directed("self", [("main", "x{{> main}}")], {}, ("musterr", ["CannotIncludeSelf"]))
    directed("self-after-block", [("main", "{{#if a}}x{{/if}}{{> main}}")], {"a": 1}, ("musterr", ["CannotIncludeSelf"]))
    directed("inline-shadows", [("p", "REG"), ("main", "{{> p}}|{{#*inline \"p\"}}INL{{/inline}}{{> p}}")], {}, ("must", "REG|INL"))
    directed("inline-redefined", [("main", "{{#*inline \"a\"}}1{{/inline}}{{> a}}{{#*inline \"a\"}}2{{/inline}}{{> a}}{{#*inline \"a\"}}3{{/inline}}{{> a}}")], {}, ("must", "123"))
    directed("inline-redefined-over-registered", [("p", "REG"), ("main", "{{> p}}{{#*inline \"p\"}}A{{/inline}}{{> p}}{{#*inline \"p\"}}B{{/inline}}{{> p}}")], {}, ("must", "REGAB"))
    directed("inline-redefined-in-each", [("main", "{{#each xs}}{{#*inline \"a\"}}[{{this}}]{{/inline}}{{> a}}{{/each}}{{#*inline \"a\"}}E{{/inline}}{{> a}}")], {"xs": [1, 2]}, ("must", "[1][2]E"))
    directed("inline-layout-pages", [("layout", "<h1>{{> title}}</h1>{{> @partial-block}};"), ("page1", "{{#> layout}}{{#*inline \"title\"}}One{{/inline}}first{{/layout}}"),
                                     ("page2", "{{#> layout}}{{#*inline \"title\"}}Two{{/inline}}second{{/layout}}"), ("main", "{{> page1}}{{> page2}}")], {},
             ("any", "whether a definition inside the block of a call is in force for the called partial is not stated; model and crate are compared"))
    PE = "{{#each this}}{{@key}}={{this}};{{/each}}"
    directed("string-context-with-hash", [("pe", PE), ("main", "{{> pe \"h\u00e4l\" k=1}}|{{> pe s k=1}}|{{> pe s}}|{{> pe e k=1}}")],
             {"s": "\u00e4b\u2192c", "e": ""}, ("must", "0=h;1=\u00e4;2=l;k=1;|0=\u00e4;1=b;2=\u2192;3=c;k=1;||k=1;"))
    directed("string-context-lookup", [("pl", "[{{lookup this \"1\"}}{{lookup this \"2\"}}{{this.[3]}}]"), ("main", "{{#each names}}{{> pl x=@index}}{{/each}}")],
             {"names": ["h\u00e9llo", "\U0001F600ab", "ab"]}, ("must", "[\u00e9ll][ab][b]"))
    directed("array-context-with-hash", [("pe", PE), ("main", "{{> pe xs k=1}}|{{> pe [7,8] z=0}}")], {"xs": ["a", ["b"], None]},
             ("must", "0=a;1=[b];2=;k=1;|0=7;1=8;z=0;"))
    directed("dynamic", [("p", "P[{{x}}]"), ("main", "{{> (lookup this \"n\") x=1}}")], {"n": "p"}, ("must", "P[1]"))
    # a use of the caller's block designates its context like any partial call: context argument, hash, both, a literal
    directed("pblock-ctx", [("lay", "[{{> @partial-block inner}}]"), ("main", "{{#> lay}}{{name}}{{/lay}}")], {"name": "outer", "inner": {"name": "in"}}, ("must", "[in]"))
    directed("pblock-ctx-hash", [("lay", "[{{> @partial-block inner k=1}}|{{> @partial-block k=2}}|{{> @partial-block this}}]"), ("main", "{{#> lay}}{{name}}{{k}}{{/lay}}")],
             {"name": "outer", "inner": {"name": "in"}}, ("must", "[in1|outer2|outer]"))
    directed("pblock-ctx-literal", [("lay", "{{> @partial-block [7,8]}}|{{> @partial-block \"s\" z=0}}"), ("main", "{{#> lay}}{{this.[0]}};{{/lay}}")], {}, ("must", "7;|s;"))
    directed("pblock-ctx-in-each", [("lay", "{{#each xs}}{{> @partial-block this}}{{/each}}|{{> @partial-block xs.[1]}}"), ("main", "{{#> lay}}<{{n}}>{{/lay}}")],
             {"n": "root", "xs": [{"n": 1}, {"n": 2}]}, ("must", "<1><2>|<2>"))
    directed("twice", [("p", "[{{> @partial-block}}{{> @partial-block}}]"), ("main", "{{#> p}}B{{/p}}")], {}, ("must", "[BB]"))
    directed("thrice-nested", [("p", "<{{> @partial-block}}{{> @partial-block}}{{> @partial-block}}>"), ("main", "{{#> p}}1{{#> p}}2{{/p}}{{/p}}")], {}, ("must", "<1<222>1<222>1<222>>"))
    directed("unbound-in-block", [("p", "P[{{> @partial-block}}]"), ("q", "Q[{{> @partial-block}}]"), ("main", "{{#> p}}B{{> q}}{{/p}}")], {}, ("musterr", ["PartialNotFound"]))
    directed("hash-invisible-after", [("p", "{{k}}"), ("main", "{{#each xs}}{{> p k=this}},{{k}};{{/each}}")], {"xs": [1, 2], "k": "K"}, ("must", "1,;2,;"))
    directed("no-parent-in-partial", [("p", "[{{../a}}|{{@root.a}}|{{@index}}]"), ("main", "{{#each xs}}{{> p}}{{/each}}")], {"xs": [{"a": "in"}], "a": "A"}, ("any", "../ inside a partial falls back (outside the quantifier)"))
    directed("root-visible", [("p", "[{{@root.a}}]"), ("main", "{{#each xs}}{{> p}}{{/each}}")], {"xs": [1], "a": "A"}, ("must", "[A]"))
    directed("block-default", [("main", "{{#> nosuch}}D{{x}}{{/nosuch}}")], {"x": 1}, ("must", "D1"))
    directed("unknown", [("main", "a{{> nosuch}}")], {}, ("musterr", ["PartialNotFound"]))
    directed("fallback-then-block", [("layout", "[{{#> sidebar}}default {{side}}{{/sidebar}}|{{> @partial-block}}]"), ("main", "{{#> layout}}content {{title}}{{/layout}}")],
             {"side": "S", "title": "T"}, ("must", "[default S|content T]"))
    directed("fallback-nested", [("outer", "<{{> @partial-block}}>{{> @partial-block}}"), ("inner", "({{#> nosuch}}dflt {{n}}{{/nosuch}})"), ("main", "{{#> outer}}{{> inner}}{{/outer}}")],
             {"n": 1}, ("must", "<(dflt 1)>(dflt 1)"))
    return out


def oracle(case, meta, impl):
    return check_against_ref(tuple(meta["oracle"]), last(impl))


def nontrivial_key(case, meta, impl):
    l = last(impl)
    if l.get("r") == "ok" and "<" in (l.get("out") or ""):
        return l["out"]
    if l.get("r") == "rerr":
        return "err:" + l.get("reason", "") + case["id"]
    return None


def distribution(cases):
    d = {}
    for c, m in cases:
        d["oracle." + m["oracle"][0]] = d.get("oracle." + m["oracle"][0], 0) + 1
    return d
