"""C15 Comparison and boolean helpers agree with exact arithmetic and order laws."""
import itertools
from fractions import Fraction
from ..gen import enc, session, F
from ..rng import Rng
from .common import last

ID = "C15"
BUDGET = {"quick": 400, "thorough": 30000}
EXHAUSTIVE = True
RULE = ("EXHAUSTIVE, every run: all ordered pairs of a boundary set of 71 JSON values (0, -0.0, ±1, 2^53±1, i64::MIN/MAX, "
        "u64::MAX, 2^63, 2^64 as floats, tiny/huge/subnormal floats, numeric and non-numeric strings, booleans, null, arrays, "
        "objects) x the six operators eq ne gt gte lt lte (one template per pair prints all six); and/or over all truthiness "
        "vectors of length 0..4; not and len on every value; the same in STRICT mode over a reduced set of existing operands (null, false, 0, empty ones included: strict mode changes nothing there); the same six operators with one or both operands WRITTEN AS NUMBER LITERALS in the template (30 spellings incl. i64/u64 limits, 2^64, -0.0, exponent form) against each other and against every number of the boundary set; plus random integer/float pairs biased to near-equal "
        "magnitudes; oracle = exact comparison of the mathematical values (Python int / Fraction), code-point order of "
        "strings, false<true, numeric strings through the number they denote, JSON equality; non-trivial = the pair is "
        "comparable; distinct by pair")
DEFINITE_FLOOR = 0.95
ASSUMPTIONS = ["numeric strings are compared through serde_json's number parser; strings whose parse is inexact in serde_json (> 15 digits with exponent) are not in the set"]

INTS = [0, 1, -1, 2, 2 ** 53 - 1, 2 ** 53, 2 ** 53 + 1, 2 ** 63 - 1, 2 ** 63, 2 ** 63 + 1, 2 ** 64 - 1, -(2 ** 63), -(2 ** 63) + 1, -(2 ** 53) - 1, -(2 ** 53), -(2 ** 63) + 1025, 10, -10]
FLOATS = [0.0, -0.0, 1.0, -1.0, 0.5, 1.5, 2.0 ** 53, 2.0 ** 53 + 2, 2.0 ** 63, 2.0 ** 64, -(2.0 ** 63), 9.223372036854775e18, 1.8446744073709552e19,
          5e-324, 2.2250738585072014e-308, 1.7976931348623157e308, -1.7976931348623157e308, 1e-7, 0.1, 10.0, -10.0, 9007199254740993.0, -9007199254740992.0, -9.223372036854775e18]
STRS = ["", "a", "b", "ab", "B", "é", "10", "9", "-1", "1.5", "1e3", "0", "abc", " 1", "1 ", "0x10", "18446744073709551615", "9007199254740993", "1E400",
        # every part of the JSON number grammar a string may use or miss: an explicit plus in the exponent, a negative one, a bare dot,
        # a leading zero, a leading plus, a sign alone, an exponent without digits
        "1e+3", "2.5E+1", "1E+0", "1e-3", "+1", "1.", ".5", "01", "1e", "-", "-0", "1e+", "1E-0", "10e-1",
        # strings whose order by UTF-8 bytes (= by code point, what the property states) differs from their order by UTF-16 code units
        "\uff5e", "\U0001F600", "\ue000", "\ud7ff", "\U00010000a", "a\uffff", "a\U0001F600"]
OTHERS = [True, False, None, [], [1], [1, 2], {}, {"a": 1}, {"a": 2}]


def values():
    vs = []
    for i in INTS:
        vs.append(i)
    for f in FLOATS:
        vs.append(F.of(f))
    vs += STRS
    vs += OTHERS
    return vs


def exact(v):
    """exact value of a JSON number as a Fraction"""
    if isinstance(v, bool):
        return None
    if isinstance(v, int):
        return Fraction(v)
    if isinstance(v, F):
        return Fraction(v.value())
    return None


def parse_num(s):
    """serde_json::Number::from_str on a string: JSON number grammar, whole string; value exact for ints, else float"""
    import re
    if not re.fullmatch(r"-?(0|[1-9][0-9]*)(\.[0-9]+)?([eE][+-]?[0-9]+)?", s):
        return None
    if re.fullmatch(r"-?(0|[1-9][0-9]*)", s):
        i = int(s)
        if s.startswith("-") and i == 0:
            return Fraction(0)
        if -(2 ** 63) <= i <= 2 ** 64 - 1:
            return Fraction(i)
    try:
        x = float(s)
    except Exception:
        return None
    if x in (float("inf"), float("-inf")):
        return None
    return Fraction(x)


def cmp(a, b):
    return (a > b) - (a < b)


def compare_json(x, y):
    ex, ey = exact(x), exact(y)
    if ex is not None and ey is not None:
        return cmp(ex, ey)
    if isinstance(x, str) and isinstance(y, str):
        return cmp(x.encode("utf-8"), y.encode("utf-8"))
    if isinstance(x, bool) and isinstance(y, bool):
        return cmp(x, y)
    if ex is not None and isinstance(y, str):
        p = parse_num(y)
        return None if p is None else cmp(ex, p)
    if isinstance(x, str) and ey is not None:
        p = parse_num(x)
        return None if p is None else cmp(p, ey)
    return None


def json_eq(a, b):
    if isinstance(a, bool) or isinstance(b, bool) or a is None or b is None:
        return a is b
    if isinstance(a, F) and isinstance(b, F):
        return a.value() == b.value()
    if isinstance(a, F) or isinstance(b, F):
        return False
    if type(a) != type(b):
        return False
    if isinstance(a, list):
        return len(a) == len(b) and all(json_eq(p, q) for p, q in zip(a, b))
    if isinstance(a, dict):
        return a.keys() == b.keys() and all(json_eq(a[k], b[k]) for k in a)
    return a == b


def truthy(v):
    if v is None or v is False:
        return False
    if v is True:
        return True
    if isinstance(v, int):
        return v != 0
    if isinstance(v, F):
        return v.value() != 0.0
    return len(v) > 0


def b(x):
    return "true" if x else "false"


TPL = "{{eq a b}},{{ne a b}},{{gt a b}},{{gte a b}},{{lt a b}},{{lte a b}}"


def expect_pair(x, y):
    c = compare_json(x, y)
    e = json_eq(x, y)
    return ",".join([b(e), b(not e), b(c == 1), b(c is not None and c >= 0), b(c == -1), b(c is not None and c <= 0)])


def generate(rng, n, tier="quick"):
    out = []
    vs = values()
    k = 0
    for x, y in itertools.product(vs, repeat=2):
        case = session({"escape": "none"}, [], {"api": "render_template", "src": TPL}, {"a": x, "b": y})
        case["id"] = "%s-p%05d" % (ID, k)
        k += 1
        out.append((case, {"mode": "pair", "expect": expect_pair(x, y), "cmp": compare_json(x, y) is not None}))
    # numbers WRITTEN IN THE TEMPLATE as literals (the literal's value is the JSON number its spelling denotes): every pair of
    # literals, and every literal against every number of the boundary set passed as data, on either side
    lits = [(str(i), i) for i in INTS] + [("0.5", F.of(0.5)), ("1.5", F.of(1.5)), ("-0.0", F.of(-0.0)), ("2.0", F.of(2.0)), ("1E3", F.of(1000.0)),
            ("-10.0", F.of(-10.0)), ("0.25", F.of(0.25)), ("9007199254740992.0", F.of(2.0 ** 53)), ("18446744073709551616", F.of(2.0 ** 64)),
            ("-9223372036854775809", F.of(-(2.0 ** 63))), ("18446744073709551614", 2 ** 64 - 2), ("9223372036854775806", 2 ** 63 - 2)]
    nums = [v for v in vs if exact(v) is not None]
    def lit_case(tpl, data, x, y):
        nonlocal k
        case = session({"escape": "none"}, [], {"api": "render_template", "src": tpl}, data)
        case["id"] = "%s-l%05d" % (ID, k)
        k += 1
        out.append((case, {"mode": "literal", "expect": expect_pair(x, y), "cmp": True}))
    for (sx, x), (sy, y) in itertools.product(lits, repeat=2):
        lit_case(TPL.replace(" a ", " %s " % sx).replace(" b}}", " %s}}" % sy), {}, x, y)
    for (sx, x) in lits:
        for y in nums:
            lit_case(TPL.replace(" a ", " %s " % sx), {"b": y}, x, y)
            lit_case(TPL.replace(" b}}", " %s}}" % sx), {"a": y}, y, x)
    # and / or over all truthiness vectors of length 0..4, not, len
    tv = [True, False, 0, 1, "", "x", [], [0], None, {}, F.of(0.0), F(1)]
    for L in range(0, 5):
        pool = tv if L <= 2 else tv[:6]
        for vec in itertools.product(pool, repeat=L):
            data = {"v%d" % i: v for i, v in enumerate(vec)}
            args = " ".join("v%d" % i for i in range(L))
            tpl = "{{and %s}},{{or %s}}" % (args, args) if L else "{{and}},{{or}}"
            case = session({"escape": "none"}, [], {"api": "render_template", "src": tpl}, data)
            case["id"] = "%s-b%05d" % (ID, k)
            k += 1
            out.append((case, {"mode": "bool", "expect": b(all(truthy(v) for v in vec)) + "," + b(any(truthy(v) for v in vec)), "cmp": True}))
    for v in vs:
        ln = len(v) if isinstance(v, (list, dict)) else (len(v.encode("utf-8")) if isinstance(v, str) else 0)
        case = session({"escape": "none"}, [], {"api": "render_template", "src": "{{not a}},{{len a}}"}, {"a": v})
        case["id"] = "%s-u%05d" % (ID, k)
        k += 1
        out.append((case, {"mode": "unary", "expect": b(not truthy(v)) + "," + str(ln), "cmp": True}))
    # STRICT MODE changes nothing when every operand exists – a null, false, 0 or empty operand exists: pairs over a reduced
    # set, every unary case, and null written as a literal
    sset = [None, 0, 1, "", "a", "1", True, False, [], [1], {}, {"a": 1}, F.of(0.0), -1, 2 ** 64 - 1]
    for x, y in itertools.product(sset, repeat=2):
        case = session({"escape": "none", "strict": True}, [], {"api": "render_template", "src": TPL}, {"a": x, "b": y})
        case["id"] = "%s-s%05d" % (ID, k)
        k += 1
        out.append((case, {"mode": "strict", "expect": expect_pair(x, y), "cmp": True}))
    for v in vs:
        ln = len(v) if isinstance(v, (list, dict)) else (len(v.encode("utf-8")) if isinstance(v, str) else 0)
        case = session({"escape": "none", "strict": True}, [], {"api": "render_template", "src": "{{not a}},{{len a}},{{and a a}},{{or a a}}"}, {"a": v})
        case["id"] = "%s-s%05d" % (ID, k)
        k += 1
        out.append((case, {"mode": "strict", "expect": b(not truthy(v)) + "," + str(ln) + "," + b(truthy(v)) + "," + b(truthy(v)), "cmp": True}))
    for x in sset:
        case = session({"escape": "none", "strict": True}, [], {"api": "render_template", "src": TPL.replace(" b}}", " null}}")}, {"a": x})
        case["id"] = "%s-s%05d" % (ID, k)
        k += 1
        out.append((case, {"mode": "strict", "expect": expect_pair(x, None), "cmp": True}))
    # the SAME operand twice (one path given twice, or two spellings of one place): the answer is that of the pair (v, v) – for a
    # null, an array or an object all four order helpers say no, although `eq` says yes
    SAME = [("a", "a"), ("a", "@root.a"), ("this.a", "./a"), ("a", "this.[a]")]
    for v in vs:
        for sx, sy in SAME:
            tpl = TPL.replace(" a ", " %s " % sx).replace(" b}}", " %s}}" % sy)
            case = session({"escape": "none"}, [], {"api": "render_template", "src": tpl}, {"a": v})
            case["id"] = "%s-m%05d" % (ID, k)
            k += 1
            out.append((case, {"mode": "same", "expect": expect_pair(v, v), "cmp": compare_json(v, v) is not None}))
        tpl = "{{#with a}}" + TPL.replace(" a ", " this ").replace(" b}}", " this}}") + "{{/with}}"
        if truthy(v):
            case = session({"escape": "none"}, [], {"api": "render_template", "src": tpl}, {"a": v})
            case["id"] = "%s-m%05d" % (ID, k)
            k += 1
            out.append((case, {"mode": "same", "expect": expect_pair(v, v), "cmp": compare_json(v, v) is not None}))
        tpl = "{{#each l}}" + TPL.replace(" a ", " this ").replace(" b}}", " this}}") + "{{/each}}"
        case = session({"escape": "none"}, [], {"api": "render_template", "src": tpl}, {"l": [v]})
        case["id"] = "%s-m%05d" % (ID, k)
        k += 1
        out.append((case, {"mode": "same", "expect": expect_pair(v, v), "cmp": compare_json(v, v) is not None}))
    # random near-equal integer / float pairs
    for j in range(n):
        r = rng.fork(j)
        base = r.pick([2 ** 53, 2 ** 63, 2 ** 64 - 1, 2 ** 62, 10 ** 15, 1, 0, 2 ** 24])
        xi = max(-(2 ** 63), min(2 ** 64 - 1, base + r.range(-3, 3)))
        kind = r.pick(["ii", "if", "fi", "ff"])
        yf = F.of(float(base) + r.pick([0.0, 1.0, -1.0, 2.0, 0.5, 1024.0, -1024.0]))
        yi = max(-(2 ** 63), min(2 ** 64 - 1, base + r.range(-3, 3)))
        if r.chance(0.3):
            xi, yi = -min(xi, 2 ** 63), -min(yi, 2 ** 63)
            yf = F.of(-yf.value())
        x, y = {"ii": (xi, yi), "if": (xi, yf), "fi": (yf, yi), "ff": (yf, F.of(yf.value() + r.pick([0.0, 1.0, 4096.0])))}[kind]
        case = session({"escape": "none"}, [], {"api": "render_template", "src": TPL}, {"a": x, "b": y})
        case["id"] = "%s-r%05d" % (ID, j)
        out.append((case, {"mode": "random", "expect": expect_pair(x, y), "cmp": True}))
    return out


def oracle(case, meta, impl):
    l = last(impl)
    if l.get("r") == "ok" and l.get("out") == meta["expect"]:
        return []
    d = case["ops"][-1]["data"]
    return ["%s on %s: expected %s got %s" % (case["ops"][-1]["src"][:40], d, meta["expect"], l.get("out", l.get("reason")))]


def nontrivial_key(case, meta, impl):
    return case["id"] if meta["cmp"] else None


def distribution(cases):
    d = {}
    for c, m in cases:
        d["mode." + m["mode"]] = d.get("mode." + m["mode"], 0) + 1
        if m["cmp"]:
            d["comparable"] = d.get("comparable", 0) + 1
    return d
