"""C04 Compiling any string terminates with a template or a TemplateError."""
from ..gen import TG, gen_json, session, enc
from ..rng import Rng
from .common import last

ID = "C04"
BUDGET = {"quick": 4000, "thorough": 300000}
RULE = ("token soups over the terminal alphabet of grammar.pest; grammar-directed templates (nesting up to 64) and "
        "single-edit mutations of them (delete / insert / duplicate a token, toggle '~', swap tag kinds); every tag kind x "
        "position of '~' x else / else-chain form; EXHAUSTIVELY every tag opener x body of length ≤ 2 (thorough: 3) over {- ! space é a } ~} x every closer; each compiled by the real crate under catch_unwind in a child process "
        "EXHAUSTIVELY every tag kind x every combination of nothing / '~' / '~~' in each position where a '~' may or may not stand (18 shapes); "
        "EXHAUSTIVELY every path of ≤ 3 pieces over {@ ../ ./ this [this] a . / [0] 0 @root @index} in every position that takes a path; and by the Lean model (AST, error variant, line, column compared); plus registrations of a bad source over a good "
        "one (registry unchanged; also in dev mode over a name that follows a file); non-trivial = not plain text; distinct by source")
DEFINITE_FLOOR = 0.99
TOKENS = ["{{", "}}", "{{{", "}}}", "{{{{", "}}}}", "#", "/", ">", "*", "~", "!", "!--", "--", "&", "^", "else", "if", "each",
          "with", "unless", "inline", "raw", "as", "|", "(", ")", "=", "@", "../", "./", "this", ".", "[", "]", "\"", "'", "\\",
          "a", "b", "x", "foo", "1", "-2", "3.5", "1E5", "true", "null", " ", "\n", "\t", "é", "@root", "@index", "@partial-block",
          "lookup", "eq", "{", "}", ":", ","]
TAGS = ["{{x}}", "{{{x}}}", "{{&x}}", "{{! c }}", "{{!-- c --}}", "{{#if a}}", "{{/if}}", "{{else}}", "{{^}}", "{{else if b}}",
        "{{#each a}}", "{{/each}}", "{{#with a}}", "{{/with}}", "{{> p}}", "{{#> p}}", "{{/p}}", "{{#*inline \"i\"}}", "{{/inline}}",
        "{{*deco}}", "{{{{raw}}}}", "{{{{/raw}}}}", "{{foo a b=1}}", "{{foo (bar 1)}}", "{{#each a as |x i|}}", "{{> (p) x}}",
        "{{~x~}}", "{{~#if a~}}", "{{~/if~}}", "{{~else~}}", "{{~else if b~}}", "{{~> p~}}", "{{~! c ~}}", "\\{{x}}"]


def soup(rng, n):
    return "".join(rng.pick(TOKENS) for _ in range(n))


def nested(rng, depth):
    """grammar-directed nesting"""
    if depth == 0:
        return rng.pick(["x", "{{v}}", "", " "])
    k = rng.pick(["if", "each", "with", "unless", "pb", "mk"])
    inner = nested(rng, depth - 1)
    t1, t2 = ("~" if rng.chance(0.1) else ""), ("~" if rng.chance(0.1) else "")
    if k == "pb":
        return "{{" + t1 + "#> p" + t2 + "}}" + inner + "{{/p}}"
    if k == "mk":
        return "{{#mk a}}" + inner + "{{else}}e{{/mk}}"
    els = rng.pick(["", "{{else}}e", "{{^}}", "{{else if b}}f{{else}}g", "{{~else if b~}}f"])
    return "{{" + t1 + "#" + k + " a" + t2 + "}}" + inner + els + "{{/" + k + "}}"


def mutate(rng, s):
    """one edit at token granularity"""
    import re
    toks = re.findall(r"\{\{\{\{|\}\}\}\}|\{\{\{|\}\}\}|\{\{|\}\}|[A-Za-z0-9_@./-]+|\s+|.", s, re.S)
    if not toks:
        return s
    i = rng.below(len(toks))
    op = rng.pick(["del", "ins", "dup", "tilde", "swap"])
    if op == "del":
        toks.pop(i)
    elif op == "ins":
        toks.insert(i, rng.pick(TOKENS))
    elif op == "dup":
        toks.insert(i, toks[i])
    elif op == "tilde":
        toks[i] = toks[i] + "~" if toks[i] in ("{{", "{{{", "{{{{") else ("~" + toks[i] if toks[i] in ("}}", "}}}", "}}}}") else "~")
    else:
        toks[i] = rng.pick(["#", "/", ">", "*", "^", "else", "&", "!"])
    return "".join(toks)


def cross():
    """every block opener x every else form x (top level | inside a helper block | inside a partial block):
    pair orders the grammar may or may not accept, each of which compile2 has to answer without panicking"""
    blocks = [("{{#if a}}", "{{/if}}"), ("{{#each a as |x|}}", "{{/each}}"), ("{{#> p}}", "{{/p}}"), ("{{#*inline \"i\"}}", "{{/inline}}"),
              ("{{{{raw}}}}", "{{{{/raw}}}}"), ("{{#mk}}", "{{/mk}}"), ("{{#*deco}}", "{{/deco}}")]
    mids = ["{{else}}", "{{^}}", "{{else if b}}", "{{~else~}}", "{{else}}y{{else}}", "{{else if b}}y{{else if c}}", "{{else}}y{{else if b}}"]
    outs = []
    for o, c in blocks:
        for m in mids:
            core_ = o + "x" + m + "z" + c
            outs.append(core_)
            outs.append("{{#if t}}" + core_ + "{{/if}}")
            outs.append("{{#> q}}" + core_ + "{{/q}}")
            outs.append("{{#if t}}u{{else}}" + core_ + "{{/if}}")
    outs += ["{{else}}", "{{^}}", "{{else if b}}", "x{{else}}y", "{{> p}}{{else}}", "{{#if a}}{{> p}}{{else}}{{/if}}"]
    return outs


def tiny(maxlen):
    """EXHAUSTIVE: every tag opener x every body of length ≤ maxlen over {- ! space é a } ~} x every closer – the shortest
    spellings of every tag kind, where fixed-offset slicing, delimiter trimming and char-boundary mistakes live"""
    openers = ["{{!", "{{!--", "{{", "{{{", "{{&", "{{>", "{{#", "{{/", "{{*", "{{~", "{{{{"]
    closers = ["}}", "--}}", "}}}", "~}}", "}}}}"]
    alpha = ["-", "!", " ", "é", "a", "}", "~"]
    bodies = [""]
    cur = [""]
    for _ in range(maxlen):
        cur = [b + a for b in cur for a in alpha]
        bodies += cur
    return [o + b + c for o in openers for b in bodies for c in closers]


def paths(maxlen):
    """EXHAUSTIVE: every path spelled from ≤ maxlen pieces over {@ ../ ./ this [this] a . / [0] 0 @root @index}, in every
    position that takes a path (value tag, helper parameter, hash value, subexpression, partial argument, block head,
    else-chain link) – Path::new and the local-variable / parent-step bookkeeping run for each of them at compile time"""
    alpha = ["@", "../", "./", "this", "[this]", "a", ".", "/", "[0]", "0", "@root", "@index"]
    seqs, cur = [], [""]
    for k in range(maxlen):
        cur = [b + a for b in cur for a in alpha]
        seqs.append(list(cur))
    outs = []
    for k, level in enumerate(seqs):
        for pth in level:
            outs.append("{{" + pth + "}}")
            outs.append("{{foo " + pth + "}}")
            if k < 2:
                outs += ["{{foo h=" + pth + "}}", "{{foo (bar " + pth + ")}}", "{{> p " + pth + "}}", "{{> p a=" + pth + "}}",
                         "{{#each " + pth + "}}x{{/each}}", "{{#if a}}x{{else if (foo " + pth + ")}}y{{/if}}", "{{*d " + pth + "}}"]
    return outs


def tildes():
    """EXHAUSTIVE: every tag kind with each of its positions where a whitespace-control '~' may or may not stand filled with
    nothing, '~' or '~~' – all combinations (legal ones compile, the others are a TemplateError, none may panic)"""
    import itertools
    shapes = ["{{@a@}}", "{{{@a@}}}", "{{@{@a@}@}}", "{{@&@a@}}", "{{@#if a@}}x{{@/if@}}", "{{#if a}}x{{@else@}}y{{/if}}",
              "{{#if a}}x{{@else@ if b@}}y{{/if}}", "{{#if a}}x{{@^@}}y{{/if}}", "{{@>@ p@}}", "{{@#>@ p@}}x{{@/p@}}", "{{@*@d@}}",
              "{{@#*@inline \"i\"@}}x{{@/inline@}}", "{{{{@raw@}}}}x{{{{@/raw@}}}}", "{{@!@c@}}", "{{@!--@c@--@}}", "{{@foo@ (@bar@ 1@)@ k=1@}}",
              "{{@#each a as |x|@}}x{{@/each@}}", "{{#each a as @|x y|@}}x{{/each}}"]
    outs = []
    for sh in shapes:
        parts = sh.split("@")
        k = len(parts) - 1
        fills = ["", "~", "~~"] if k <= 4 else ["", "~"]
        for combo in itertools.product(fills, repeat=k):
            outs.append("".join(p + c for p, c in zip(parts, combo + ("",))))
    return outs


def badlits():
    """EXHAUSTIVE over (kind × length × width × position): literals the grammar accepts and serde_json rejects, with a multi-byte
    character at every byte offset from 20 to 44 of the literal's text, in every position that takes a literal (the InvalidParam
    error carries the literal's text and a position – no slicing of it may land inside a character)"""
    outs = []
    for pad in range(18, 44):
        for mb in ("\u00e9", "\u4e2d", "\U0001F600"):
            body = "a" * pad + mb + mb
            for lit in ('"' + body + '\t b"', '["' + body + '", \'q\']', '[,"' + body + '"]', '{,"' + body + '":1}', '"' + body + '\n"'):
                for shape in ("{{foo %s}}", "{{foo k=%s}}", "{{#if (eq %s 1)}}x{{/if}}", "{{> p %s}}"):
                    if (pad + len(lit) + len(shape)) % 3 == 0 or shape == "{{foo %s}}":
                        outs.append(shape % lit)
    return outs


def mbstandalone():
    """EXHAUSTIVE: a tag alone on its (indented) line, with and without `~` on either side, behind text that ENDS in a multi-byte
    character (with / without the line break between them): trimming the line must cut at character boundaries"""
    outs = []
    tags = ["{{@#if a@}}\nB\n{{@/if@}}", "{{#if a}}\nx\n  {{@else@}}\ny\n{{/if}}", "{{@> p@}}", "{{@#> p@}}\nd\n  {{@/p@}}", "{{@!-- c --@}}", "{{@! c @}}",
            "{{@#*inline \"i\"@}}\nx\n {{@/inline@}}", "{{@*d@}}", "{{{{@raw@}}}}\nx\n{{{{@/raw@}}}}", "{{#if a}}x\n {{@else if b@}}\ny{{/if}}", "{{@#each a as |x|@}}\n{{x}}\n{{@/each@}}"]
    for mb in ("\u00e9", "\u4e2d", "\U0001F600", "a\u00e9", "\u00e9\u00e9"):
        for lead in (mb + "\n  ", mb + "\n", mb + "  ", mb + "\r\n\t", mb):
            for t in tags:
                parts = t.split("@")
                k = len(parts) - 1
                for mask in range(2 ** k if k <= 3 else 4):
                    fills = [("~" if (mask >> j) & 1 else "") for j in range(k)]
                    outs.append(lead + "".join(p_ + c for p_, c in zip(parts, fills + [""])) + "\n" + mb)
    return outs


def tildeesc():
    """EXHAUSTIVE: a tag closing with `~}}` x the text behind it beginning with whitespace of every class (ASCII, vertical tab / form
    feed, the non-ASCII spaces U+00A0 U+2003 U+3000 U+2028) x a filler x an escape `\\{{` behind it (at the very end, before a
    multi-byte character, before more text): the trim and the removal of the escape's backslash work on the same text"""
    outs = []
    tags = [("{{a~}}", ""), ("{{#if a~}}", "{{/if}}"), ("{{{a~}}}", ""), ("{{> p~}}", ""), ("{{#if a}}x{{else~}}", "{{/if}}"), ("{{~! c ~}}", ""),
            ("{{#if a}}x{{/if~}}", ""), ("{{&a~}}", "")]
    wss = [" ", "\n", "\u00a0", "\u3000", "\u2003", "\x0b", "\x0c", "\u2028", "\u00a0\u00a0", " \u3000", "\u3000 ", "\n\u2003\n", "\u0085"]
    for tag, close in tags:
        for ws in wss:
            for mid in ("", "x", "\u65e5"):
                for esc in ("\\{{", "\\{{\u65e5\u672c}}", "\\{{x}} y", "\\\\{{a}}", "\\{{{{x}}"):
                    outs.append(tag + ws + mid + esc + close)
                    outs.append("t " + tag + ws + mid + esc + close + "\n")
    return outs


def generate(rng, n, tier="quick"):
    out = []
    for k, src in enumerate(tildeesc()):
        out.append(({"kind": "compile", "src": src, "name": None, "prevent_indent": False, "id": "%s-tesc-%05d" % (ID, k)},
                    {"mode": "tildeesc", "src": src}))
    for k, src in enumerate(mbstandalone()):
        out.append(({"kind": "compile", "src": src, "name": ("t" if k % 3 == 0 else None), "prevent_indent": (k % 3 == 0), "id": "%s-mbsa-%05d" % (ID, k)},
                    {"mode": "mbsa", "src": src}))
    for k, src in enumerate(badlits()):
        out.append(({"kind": "compile", "src": src, "name": None, "prevent_indent": False, "id": "%s-badlit-%05d" % (ID, k)},
                    {"mode": "badlit", "src": src}))
    for k, src in enumerate(tildes()):
        out.append(({"kind": "compile", "src": src, "name": None, "prevent_indent": False, "id": "%s-tilde-%05d" % (ID, k)},
                    {"mode": "tilde", "src": src}))
    for k, src in enumerate(paths(3)):
        out.append(({"kind": "compile", "src": src, "name": None, "prevent_indent": False, "id": "%s-path-%05d" % (ID, k)},
                    {"mode": "path", "src": src}))
    for k, src in enumerate(cross()):
        out.append(({"kind": "compile", "src": src, "name": None, "prevent_indent": False, "id": "%s-cross-%03d" % (ID, k)},
                    {"mode": "cross", "src": src}))
    for k, src in enumerate(tiny(3 if tier == "thorough" else 2)):
        out.append(({"kind": "compile", "src": src, "name": None, "prevent_indent": False, "id": "%s-tiny-%05d" % (ID, k)},
                    {"mode": "tiny", "src": src}))
    i = 0
    n = n + len(out)
    while len(out) < n:
        r = rng.fork(i)
        i += 1
        mode = r.weighted([("soup", 3), ("tags", 3), ("tg", 3), ("mut", 5), ("nest", 1), ("reg", 1)])
        if mode == "soup":
            src = soup(r, r.range(1, 14))
        elif mode == "tags":
            src = "".join(r.pick(TAGS + ["t", " ", "\n", "  \n"]) for _ in range(r.range(1, 8)))
        elif mode == "tg":
            tg = TG(r, {"a": [1, {"b": 2}], "b": "s", "x": {"y": None}}, {"mk": "mark", "pr": "probe"}, ["p", "q"], opt={"decorators": True, "tilde": 0.2})
            src = tg.template(3)
        elif mode == "mut":
            tg = TG(r, {"a": [1], "b": "s"}, {"mk": "mark"}, ["p"], opt={"decorators": True, "tilde": 0.2})
            src = tg.template(2) if r.chance(0.6) else "".join(r.pick(TAGS) for _ in range(r.range(1, 5)))
            for _ in range(r.range(1, 2)):
                src = mutate(r, src)
        elif mode == "nest":
            src = nested(r, r.pick([1, 2, 5, 17, 40, 64]))
        elif mode == "reg" and r.chance(0.4):
            # the same in dev mode over a name that follows a file: after the rejected registration the name still follows its file
            bad = r.pick(["{{#if a}}", "{{/if}}", "{{#if a}}{{/each}}", "{{foo 1.}}", "{{", "{{> }}"]) if r.chance(0.7) else mutate(r, "{{#if a}}x{{/if}}")
            case = {"kind": "session", "regs": [{}], "ops": [
                {"op": "set_dev", "reg": 0, "v": True},
                {"op": "write_file", "file": "f1", "content": "G{{x}}"},
                {"op": "reg_file", "reg": 0, "name": "t", "file": "f1"},
                {"op": r.pick(["reg_string", "reg_partial"]), "reg": 0, "name": "t", "src": bad},
                {"op": "write_file", "file": "f1", "content": "H{{x}}"},
                {"op": "has", "reg": 0, "name": "t"}, {"op": "keys", "reg": 0},
                {"op": "render", "reg": 0, "api": "render", "name": "t", "data": enc({"x": 1})}]}
            case["id"] = "%s-%06d" % (ID, i)
            out.append((case, {"mode": "regdev", "src": bad}))
            continue
        else:
            # a bad registration over a good one must leave the registry as it was
            good = "G{{x}}"
            bad = r.pick(["{{#if a}}", "{{/if}}", "{{#if a}}{{/each}}", "{{foo 1.}}", "{{", "{{> }}", "{{#*inline}}{{/x}}"]) if r.chance(0.7) else mutate(r, "{{#if a}}x{{/if}}")
            case = {"kind": "session", "regs": [{}], "ops": [
                {"op": "reg_string", "reg": 0, "name": "t", "src": good},
                {"op": "reg_partial", "reg": 0, "name": "t", "src": bad},
                {"op": "has", "reg": 0, "name": "t"}, {"op": "keys", "reg": 0},
                {"op": "render", "reg": 0, "api": "render", "name": "t", "data": enc({"x": 1})}]}
            case["id"] = "%s-%06d" % (ID, i)
            out.append((case, {"mode": mode, "src": bad}))
            continue
        if r.chance(0.25):
            # multi-byte text before whatever follows (byte vs char offsets in error positions and slices)
            src = r.pick(["你好", "ééé", "→ ", "中文你好 ", "é\n😀😀", "ß"]) + src
        name = r.pick([None, "t", "dir/name.hbs"])
        case = {"kind": "compile", "src": src, "name": name, "prevent_indent": (r.chance(0.2) if name else False),
                "id": "%s-%06d" % (ID, i)}
        out.append((case, {"mode": mode, "src": src}))
    return out


def oracle(case, meta, impl):
    v = []
    if meta["mode"] == "regdev":
        rs = impl.get("results", [])
        if len(rs) != 8:
            return ["session did not complete"]
        for r in rs:
            if r.get("r") in ("panic", "crash", "hang"):
                return ["registration %s" % r.get("r")]
        if rs[3].get("r") == "terr":
            if rs[5].get("v") is not True or rs[6].get("v") != ["t"] or rs[7].get("out") != "H1":
                v.append("a rejected registration changed the registry (the name no longer follows its file): %s %s %s" % (rs[5], rs[6], rs[7]))
        return v
    if meta["mode"] == "reg":
        rs = impl.get("results", [])
        if len(rs) != 5:
            return ["session did not complete"]
        for r in rs:
            if r.get("r") in ("panic", "crash", "hang"):
                return ["registration %s" % r.get("r")]
        if rs[1].get("r") == "terr":
            if rs[2].get("v") is not True or rs[3].get("v") != ["t"] or rs[4].get("out") != "G1":
                v.append("a rejected registration changed the registry: %s %s %s" % (rs[2], rs[3], rs[4]))
        return v
    r = impl.get("r")
    if r == "ok":
        return []
    if r in ("panic", "crash", "hang", "garbled"):
        return ["compile did not return: %s %s" % (r, impl.get("site", impl.get("stderr", "")))]
    if r == "terr":
        src = meta["src"]
        lines = src.count("\n") + 1
        reason = impl.get("reason")
        if reason in ("InvalidSyntax", "MismatchingClosedHelper", "MismatchingClosedDecorator"):
            if impl.get("line") is None or impl.get("col") is None:
                v.append("%s without line/column" % reason)
        if impl.get("line") is not None:
            if not (1 <= impl["line"] <= lines):
                v.append("reported line %s outside the source (%d lines)" % (impl["line"], lines))
            else:
                # pest columns are 1-based char offsets within the line (CRLF and lone CR handling as pest's)
                if not (1 <= impl["col"] <= len(src) + 1):
                    v.append("reported column %s outside the source" % impl["col"])
        return v
    return ["unexpected result kind %s" % r]


def nontrivial_key(case, meta, impl):
    return meta["src"] if "{{" in meta["src"] else None


def outcome_kind(case, meta, impl):
    if meta["mode"] in ("reg", "regdev"):
        return "reg"
    return "%s:%s" % (impl.get("r"), impl.get("reason", ""))


def distribution(cases):
    d = {}
    for c, m in cases:
        d["mode." + m["mode"]] = d.get("mode." + m["mode"], 0) + 1
    return d
