"""C06 Conditional blocks render exactly the one branch selected by truthiness."""
import itertools
import zlib
from ..astgen import AG, gen_doc
from ..gen import enc, session, F
from ..rng import Rng
from .. import ref
from .common import last, ref_outcome, check_against_ref

ID = "C06"
BUDGET = {"quick": 1200, "thorough": 30000}
EXHAUSTIVE = True
RULE = ("EXHAUSTIVE: every else-chain of 1..3 links (thorough: ..4) over {if, unless, with, each} x with/without final else x "
        "every assignment of condition values from a set with each truthiness class (false, null, missing, 0, '', [], {}, "
        "true, 1, 'x', [0], {k:0}, -0.0, 5e-324, 1.5); every link kind x truthiness class under condition keys that begin like a literal and "
        "continue with another symbol character (true-color, null:obj, 2-factor, 1a ...), at the block head and in an else link; plus random nested chains (depth ≤ 4) in every scope kind from the "
        "AST generator; each branch writes a distinct marker; the family of the Lean theorems C06.if_block_renders_by_truthiness / if_else_block_renders_one_branch / unless_block_renders_by_falsiness / with_block_renders_by_truthiness (any text, the block, any text; every truthiness class; oracle = the theorems' closed form, exact); oracle = reference renderer (first link whose condition holds, "
        "else the final else, else nothing); includeZero variants (the option written as a literal, read from the data, from @root, computed by a subexpression; true and false); non-trivial = some branch rendered; distinct by "
        "(chain shape, values)")
DEFINITE_FLOOR = 0.8
VALUES = [("false", False), ("null", None), ("missing", ref.MISSING), ("zero", 0), ("empty", ""), ("earr", []), ("eobj", {}),
          ("true", True), ("one", 1), ("str", "x"), ("arr", [0]), ("obj", {"k": 0}), ("negzero", F.of(-0.0)),
          ("subnormal", F(1)), ("float", F.of(1.5))]


def chain_case(kinds, vals, has_else, incz, idx):
    data = {}
    links = []
    for i, (k, (vn, vv)) in enumerate(zip(kinds, vals)):
        key = "c%d" % i
        if vv is not ref.MISSING:
            data[key] = vv
        arg = {"a": "path", "ups": 0, "root": False, "segs": [key]}
        links.append((k, arg, [{"t": "text", "s": "<%d>" % i}], None))
    if len(links) == 1 and kinds[0] in ("if", "unless"):
        node = {"t": "if", "neg": kinds[0] == "unless", "arg": links[0][1], "body": links[0][2],
                "else": ([{"t": "text", "s": "<E>"}] if has_else else None), "incz": incz}
    else:
        node = {"t": "chain", "links": links, "else": ([{"t": "text", "s": "<E>"}] if has_else else None)}
    ast = [{"t": "text", "s": "["}, node, {"t": "text", "s": "]"}]
    return ast, data


def generate(rng, n, tier="quick"):
    out = []
    maxlen = 4 if tier == "thorough" else 3
    i = 0
    # exhaustive part: chains of length 1..2 over all values, length 3(4) over a reduced value set
    reduced = [v for v in VALUES if v[0] in ("false", "missing", "zero", "empty", "true", "arr", "eobj")]
    for L in range(1, maxlen + 1):
        vals_pool = VALUES if L <= 1 else (reduced if L >= 3 else VALUES[:12])
        kinds_pool = ["if", "unless", "with", "each"]
        for kinds in itertools.product(kinds_pool, repeat=L):
            if L >= 3 and len(set(kinds)) == 1 and kinds[0] in ("with", "each"):
                pass
            for vals in itertools.product(vals_pool, repeat=L):
                # thin the big products deterministically
                if L >= 3 and (zlib.crc32(("|".join(kinds) + "#" + "|".join(v[0] for v in vals)).encode()) % (7 if L == 3 else 97)) != 0:
                    continue
                for has_else in (False, True):
                    incz = False
                    ast, data = chain_case(kinds, vals, has_else, incz, i)
                    src = ref.print_nodes(rng.fork(i), ast)
                    i += 1
                    if src is None:
                        continue
                    case = session({}, [("main", src)], {"api": "render", "name": "main"}, data)
                    case["id"] = "%s-x%06d" % (ID, i)
                    oc = ref_outcome({"main": ast}, "main", data)
                    out.append((case, {"mode": "grid", "oracle": list(oc), "shape": [list(kinds), [v[0] for v in vals], has_else]}))
    # EXHAUSTIVE: chains of 2..3 links whose bodies may be EMPTY – every subset of the link bodies and the final else body empty,
    # every kind in every link, every combination of holding / failing conditions: the selected branch is rendered, an empty one
    # as nothing, and a final else stays the final else whatever stands before it
    T = {"if": True, "unless": False, "with": {"a": 1}, "each": [1]}
    F = {"if": False, "unless": True, "with": False, "each": []}
    eb = 0
    for L in (2, 3):
        for kinds in itertools.product(["if", "unless", "with", "each"] if L == 2 else ["if", "with", "each"], repeat=L):
            for holds in itertools.product([True, False], repeat=L):
                for empty in itertools.product([False, True], repeat=L):
                    if L == 3 and not any(empty):
                        continue
                    for els in (None, "<E>", ""):
                        data = {}
                        src = "["
                        for j, k in enumerate(kinds):
                            data["c%d" % j] = (T if holds[j] else F)[k]
                            src += ("{{#%s c%d}}" % (k, j) if j == 0 else "{{else %s c%d}}" % (k, j)) + ("" if empty[j] else "<%d>" % j)
                        if els is not None:
                            src += ("{{else}}" if eb % 2 == 0 else "{{^}}") + els
                        src += "{{/%s}}]" % kinds[0]
                        hit = [j for j in range(L) if holds[j]]
                        exp = "[" + (("" if empty[hit[0]] else "<%d>" % hit[0]) if hit else (els or "")) + "]"
                        case = session({}, [("main", src)], {"api": "render", "name": "main"}, data)
                        case["id"] = "%s-eb%05d" % (ID, eb)
                        eb += 1
                        out.append((case, {"mode": "emptybody", "oracle": ["must", exp], "shape": [list(kinds), list(holds), list(empty), els]}))
                        if "with" in kinds or "each" in kinds:
                            # the same in STRICT mode: a failing `with` is an error only when NO else follows it – an else that is
                            # there and empty is an else
                            oc = ["must", exp]
                            if not hit and els is None and kinds[-1] == "with":
                                oc = ["musterr", ["MissingVariable"]]
                            case = session({"strict": True}, [("main", src)], {"api": "render", "name": "main"}, data)
                            case["id"] = "%s-eb%05ds" % (ID, eb - 1)
                            out.append((case, {"mode": "emptybody", "oracle": oc, "shape": [list(kinds), list(holds), list(empty), els, "strict"]}))
    # includeZero
    for vn, vv in VALUES:
        for neg in (False, True):
            data = {} if vv is ref.MISSING else {"c": vv}
            ast = [{"t": "if", "neg": neg, "arg": {"a": "path", "ups": 0, "root": False, "segs": ["c"]},
                    "body": [{"t": "text", "s": "T"}], "else": [{"t": "text", "s": "F"}], "incz": True}]
            src = ref.print_nodes(rng.fork("z" + vn), ast)
            case = session({}, [("main", src)], {"api": "render", "name": "main"}, data)
            case["id"] = "%s-z-%s-%s" % (ID, vn, neg)
            out.append((case, {"mode": "incz", "oracle": list(ref_outcome({"main": ast}, "main", data)), "shape": [vn, neg]}))
            # the option's VALUE decides, however it is written: from the data, from @root, from a subexpression; and a falsy
            # option value leaves 0 falsy
            for sp, on in (("includeZero=zopt", True), ("includeZero=@root.zopt", True), ("includeZero=(eq 1 1)", True),
                           ("includeZero=(not nope)", True), ("includeZero=off", False), ("includeZero=(eq 1 2)", False), ("includeZero=false", False)):
                src2 = src.replace("includeZero=true", sp)
                if src2 == src:
                    continue
                d2 = dict(data, zopt=True, off=False)
                ast2 = [dict(ast[0], incz=on)]
                case = session({}, [("main", src2)], {"api": "render", "name": "main"}, d2)
                case["id"] = "%s-z-%s-%s-%s" % (ID, vn, neg, sp)
                out.append((case, {"mode": "incz", "oracle": list(ref_outcome({"main": ast2}, "main", d2)), "shape": [vn, neg, sp]}))
    # condition keys that BEGIN like a literal (true / false / null / a number) and go on with another symbol character: the
    # whole word is a path, the condition is the value stored under it
    LOOKALIKE = ["true-color", "false-alarm", "null-count", "null:obj", "2-factor", "true\u00e9", "null$", "false_x", "nullable", "1a", "-1x",
                 "1E5x", "true:", "0-0", "falsey", "null-", "trueish$"]
    vals_l = [v for v in VALUES if v[0] in ("false", "null", "missing", "zero", "empty", "true", "str", "arr", "eobj")]
    for K in LOOKALIKE:
        for vn, vv in vals_l:
            for kind in ("if", "unless", "with", "each"):
                for has_else in (False, True):
                    for pos in (0, 1):
                        data = {"f": False}
                        if vv is not ref.MISSING:
                            data[K] = vv
                        arg = {"a": "path", "ups": 0, "root": False, "segs": [K]}
                        els = [{"t": "text", "s": "<E>"}] if has_else else None
                        etxt = "{{else}}<E>" if has_else else ""
                        if pos == 0:
                            links = [(kind, arg, [{"t": "text", "s": "<0>"}], None)]
                            src = "[{{#%s %s}}<0>%s{{/%s}}]" % (kind, K, etxt, kind)
                        else:
                            links = [("if", {"a": "path", "ups": 0, "root": False, "segs": ["f"]}, [{"t": "text", "s": "<0>"}], None),
                                     (kind, arg, [{"t": "text", "s": "<1>"}], None)]
                            src = "[{{#if f}}<0>{{else %s %s}}<1>%s{{/if}}]" % (kind, K, etxt)
                        ast = [{"t": "text", "s": "["}, {"t": "chain", "links": links, "else": els}, {"t": "text", "s": "]"}]
                        case = session({}, [("main", src)], {"api": "render", "name": "main"}, data)
                        case["id"] = "%s-k%06d" % (ID, i)
                        i += 1
                        out.append((case, {"mode": "lookalike", "oracle": list(ref_outcome({"main": ast}, "main", data)), "shape": [K, vn, kind, has_else, pos]}))
    # the family of the Lean theorems C06.if_block_renders_by_truthiness / if_else_block_renders_one_branch:
    # L ++ {{#if v}}A{{/if}} ++ R  and  L ++ {{#if v}}A{{else}}B{{/if}} ++ R  for any text L that may stand before a tag, any text R
    # without '{{' (line breaks and blanks next to the block tags included: neither tag is alone on its line) and every
    # truthiness class; the expectation is the theorems' closed form  L ++ (A | B | nothing) ++ R
    from .C03 import thm_left, thm_right
    for k in range(200 if tier != "thorough" else 2000):
        r = rng.fork("thm%d" % k)
        L, R = thm_left(r), thm_right(r)
        vn, vv = r.pick([v for v in VALUES if v[0] != "missing"])
        has_else = r.chance(0.4)
        t = ref.truthy(vv, False)
        pick = r.pick(["if", "if", "unless", "with"])
        def any_body():
            from .C03 import _no_open, rand_text
            if r.chance(0.4):
                return "A"
            X_ = _no_open(rand_text(r, r.range(1, 12))).replace("\\", "/")
            return r.pick(["a", "<", "}", "\u00e9", "x"]) + X_ + r.pick(["z", ">", "}", "\u4e2d", "0"])
        if not has_else and pick == "unless":
            # (… unless_block_any_body_renders_by_falsiness / with_block_any_body_renders_by_truthiness: any body text)
            X = any_body()
            src = L + "{{#unless v}}" + X + "{{/unless}}" + R
            exp = L + ("" if t else X) + R
        elif not has_else and pick == "with":
            X = any_body()
            src = L + "{{#with v}}" + X + "{{/with}}" + R
            exp = L + (X if t else "") + R
        else:
            # (the family of C06.if_block_any_body_renders_by_truthiness: ANY body text that begins and ends with a non-whitespace
            # character, has no `{{` and no backslash – multi-line bodies, lone braces, Unicode included)
            X = "A"
            if not has_else and r.chance(0.6):
                from .C03 import _no_open, rand_text
                X = _no_open(rand_text(r, r.range(1, 12))).replace("\\", "/")
                X = r.pick(["a", "<", "}", "\u00e9", "x"]) + X + r.pick(["z", ">", "}", "\u4e2d", "0"])
            src = L + ("{{#if v}}A{{else}}B{{/if}}" if has_else else "{{#if v}}" + X + "{{/if}}") + R
            exp = L + ((X if not has_else else "A") if t else ("B" if has_else else "")) + R
        case = session({}, [], {"api": "render_template", "src": src}, {"v": vv})
        case["id"] = "%s-thm%04d" % (ID, k)
        out.append((case, {"mode": "thm", "oracle": ["must", exp], "shape": [vn, has_else, L, R]}))
    # the family of the Lean theorems C06.if_keeps_the_current_context / unless_keeps_the_current_context:  L ++ {{#if v}}{{x}}{{/if}} ++ R  – the path `x` inside the
    # block is the field `x` of the scope the block stands in, whatever `v` holds (objects with an `x` of their own included);
    # closed form  L ++ (escape(text of data.x) if data.v is truthy) ++ R, for the three escape functions
    from .C03 import thm_left as _tl, thm_right as _tr
    for k in range(60 if tier != "thorough" else 1500):
        r = rng.fork("thmctx%d" % k)
        L, R = _tl(r), _tr(r)
        vv = r.pick([True, False, 0, 1, "", "s", [], [0], None, {}, {"x": "INNER"}, {"x": 7, "y": 1}, [{"x": "E"}], "x", -1, 2.5])
        xv, shown = r.pick([("X", "X"), ("<b>&", "<b>&"), (5, "5"), (True, "true"), ("", ""), (None, ""), ("a\nb", "a\nb"), ("\u00e9\"", "\u00e9\"")])
        esc = r.pick(["none", "html", "mark"])
        from .common import escape_of
        t = ref.truthy(vv, False)
        # (… and C06.unless_keeps_the_current_context: the same with the condition negated)
        neg = r.chance(0.4)
        exp = L + (escape_of(esc)(shown) if (t != neg) else "") + R
        case = session({"escape": esc}, [], {"api": "render_template", "src": L + ("{{#unless v}}{{x}}{{/unless}}" if neg else "{{#if v}}{{x}}{{/if}}") + R}, {"v": vv, "x": xv})
        case["id"] = "%s-thmctx%04d" % (ID, k)
        out.append((case, {"mode": "thm", "oracle": ["must", exp], "shape": ["ctx", str(type(vv)), L, R]}))
    # a conditional in the BODY OF A PARTIAL BLOCK: a decorator (an inline partial definition) in a branch the condition does not select
    # must not take effect – the partial is called with the definitions made outside the conditional; every block kind, plain
    # else and else-chains, the definition in the unselected first / middle / last link
    kk = 0
    for kind, truthy, falsy in (("if", 1, 0), ("unless", 0, 1), ("with", {"a": 1}, None), ("each", [1], [])):
        shapes = [
            # (body of the conditional, data value, expected nav)
            ("{{#%s c}}{{else}}{{#*inline \"nav\"}}guest{{/inline}}{{/%s}}" % (kind, kind), truthy),
            ("{{#%s c}}{{#*inline \"nav\"}}sel{{/inline}}{{/%s}}" % (kind, kind), falsy),
            ("{{#%s c}}x{{else if d}}{{#*inline \"nav\"}}mid{{/inline}}{{else}}y{{/%s}}" % (kind, kind), truthy),
            ("{{#%s c}}x{{else unless c}}y{{else with c}}{{#*inline \"nav\"}}third{{/inline}}{{/%s}}" % (kind, kind), truthy),
            ("{{#%s c}}{{#if d}}{{else}}{{#*inline \"nav\"}}deep{{/inline}}{{/if}}{{/%s}}" % (kind, kind), falsy),
        ]
        for body, val in shapes:
            for layout in ("<{{> nav}}>", "<{{> nav}}|{{> @partial-block}}|{{> nav}}>"):
                src = "{{#> layout}}{{#*inline \"nav\"}}default{{/inline}}" + body + "{{/layout}}"
                case = session({"escape": "none"}, [("layout", layout), ("main", src)], {"api": "render", "name": "main"}, {"c": val, "d": 1})
                case["id"] = "%s-pbdeco%03d" % (ID, kk)
                kk += 1
                simple = layout == "<{{> nav}}>"
                out.append((case, {"mode": "pbdeco", "oracle": (["must", "<default>"] if simple else
                                                             ["any", "what a definition made while the block body is rendered means for later calls is not stated; model and crate are compared"]),
                                   "shape": [kind, body, layout]}))
    # an else-chain link that binds block parameters: the selected link's body is rendered with them bound, as on an opening tag
    kk2 = 0
    d6 = {"a": 0, "b": {"n": "B"}, "c": [{"n": "C0"}, {"n": "C1"}], "m": {"k1": "v1"}, "t": 1}
    for src, exp in [
            ("{{#if a}}A{{else with b as |x|}}[{{x.n}}]{{else}}E{{/if}}", "[B]"),
            ("{{#if a}}A{{else each c as |v i|}}{{i}}={{v.n}};{{else}}E{{/if}}", "0=C0;1=C1;"),
            ("{{#if a}}A{{else each m as |v k|}}{{k}}={{v}};{{/if}}", "k1=v1;"),
            ("{{#unless t}}A{{else if a}}X{{else with b as |x|}}<{{x.n}}|{{n}}>{{/unless}}", "<B|B>"),
            ("{{#with a as |q|}}A{{else with b as |x|}}[{{x.n}}{{q}}]{{/with}}", "[B]"),
            ("{{#each a as |q|}}A{{else each c as |v|}}({{v.n}}){{/each}}", "(C0)(C1)"),
            ("{{#if t}}T{{else with b as |x|}}[{{x.n}}]{{/if}}", "T")]:
        case = session({"escape": "none"}, [("main", src)], {"api": "render", "name": "main"}, d6)
        case["id"] = "%s-chainbp%02d" % (ID, kk2)
        kk2 += 1
        out.append((case, {"mode": "chainbp", "oracle": ["must", exp], "shape": ["chainbp", src]}))
    # random nested part
    j = 0
    target = len(out) + n
    while len(out) < target:
        r = rng.fork("r%d" % j)
        j += 1
        data = gen_doc(r, 3)
        ag = AG(r, data, [], opt={"chain": 1, "partials": False, "missing": 0.2, "lit": 0.2})
        ast = ag.nodes([ref.Scope(data, "root")], 4)
        src = ref.print_nodes(r.fork("p"), ast)
        if src is None or "else" not in src and "{{^}}" not in src:
            continue
        case = session({}, [("main", src)], {"api": "render", "name": "main"}, data)
        case["id"] = "%s-r%06d" % (ID, j)
        out.append((case, {"mode": "random", "oracle": list(ref_outcome({"main": ast}, "main", data)), "shape": None}))
    return out


def oracle(case, meta, impl):
    return check_against_ref(tuple(meta["oracle"]), last(impl))


def nontrivial_key(case, meta, impl):
    l = last(impl)
    if l.get("r") == "ok" and l.get("out") not in ("[]", ""):
        return case["id"] if meta["mode"] == "random" else str(meta["shape"])
    return None


def distribution(cases):
    d = {}
    for c, m in cases:
        d["mode." + m["mode"]] = d.get("mode." + m["mode"], 0) + 1
        d["oracle." + m["oracle"][0]] = d.get("oracle." + m["oracle"][0], 0) + 1
    return d
