"""C19 Output is streamed append-only; writer failures surface as errors."""
from ..gen import TG, gen_json, session, std_helpers, enc
from ..rng import Rng
from .common import last

ID = "C19"
BUDGET = {"quick": 120, "thorough": 5000}
EXHAUSTIVE = True
RULE = ("generated templates (text, expressions, helpers, blocks, indented partials whose indentation issues its own write "
        "calls, subexpressions, chained-else helpers that write themselves) and data; for each case the fault-free run through render_to_write / "
        "render_template_to_write and their _with_context twins counts the writer calls n, then EVERY k in 0..n (capped at 200) is run with a writer "
        "failing at call k: the result must be Err(IOError), nothing is written after the failure, the bytes accepted are "
        "a prefix of the fault-free output and equal to its first k segments; the model computes the same truncation; "
        "plus short-write writers accepting at most 1, 2, 3, 7 bytes per call (same bytes, same result as the fault-free run), with a harness helper that writes through write! with a format argument; "
        "non-trivial = n ≥ 2; distinct by (case, k)")
DEFINITE_FLOOR = 0.9
ASSUMPTIONS = ["std's write_all (short-write loop) is std, not modelled; the failing writer fails a whole call",
               "that the Rust control flow propagates every write error is checked syntactically (regenerated WriteSites) and dynamically, not derived"]


def base_case(rng, i):
    data = gen_json(rng, 3, want="obj")
    if not isinstance(data, dict):
        data = {"a": data}
    data["ml"] = "l1\nl2\nl3"
    helpers = {"mk": "mark", "pr": "probe", "vr": "vret"}
    cfg = {"strict": False, "escape": rng.pick(["html", "none"]), "helpers": std_helpers() + [{"name": "wf", "kind": "wfmt"}]}
    tg = TG(rng.fork("p"), data, helpers, [], opt={"inline": False, "partial_block": False})
    p0 = "line1\n{{{ml}}}\n" + tg.partial_body(1)
    main = TG(rng.fork("m"), data, helpers, ["p0"], opt={"missing": 0.1}).template(2)
    main = main + "\n  {{> p0}}\nend{{#each ml}}{{/each}}"
    # writes issued from unusual positions: a chained-else helper that writes itself (it runs as the single element of a
    # template built by the compiler, which has no position table of its own), a block helper's mark line, a subexpression
    main += rng.pick(["", "{{#if nosuch}}A{{else lookup @root \"ml\"}}{{/if}}", "{{#if nosuch}}A{{else eq 1 1}}{{/if}}|",
                      "{{#if nosuch}}A{{else mk 7}}in{{/if}}", "{{#unless ml}}A{{else vr \"<w>\"}}{{/unless}}",
                      "{{#each nosuch}}A{{else lookup @root \"ml\"}}{{/each}}{{#with nosuch}}B{{else len ml}}{{/with}}"])
    # a helper that writes through the `write!` macro with a format argument (Output::write_fmt)
    main += rng.pick(["", "{{wf ml}}", "<{{wf \"k=v\"}}>{{#if ml}}{{wf 12345}}{{/if}}", "{{#each ml}}{{/each}}{{wf ml}}|{{wf \"\"}}|"])
    if rng.chance(0.4):
        # the hooks for unknown names registered as helpers that WRITE: their write calls are write calls of the render like any other
        cfg["helpers"] = cfg["helpers"] + [{"name": "helperMissing", "kind": "mark", "tag": "HM"}, {"name": "blockHelperMissing", "kind": "mark", "tag": "BHM"}]
        main += rng.pick(["a{{nope}}", "{{nope}}|{{nope2}}z", "{{#nob 1}}body{{/nob}}{{nope}}", "{{#each ml}}{{/each}}{{nohelper 1 2}}|{{nope}}",
                          "\n  {{> p0}}\n{{nope}}{{{nope3}}}"])
    lay = None
    if rng.chance(0.4):
        # a partial called in BLOCK form whose template renders the caller's block ({{> @partial-block}}), also nested and twice: the
        # write calls made while that block is rendered are write calls of the render like any other
        lay = rng.pick(["<h>{{> @partial-block}}</h>", "{{> @partial-block}}|{{> @partial-block}}", "[{{#each ml}}{{/each}}{{> @partial-block}}]\n"])
        main += rng.pick(["a{{#> lay}}body {{ml}}{{/lay}}z", "{{#> lay}}{{#> lay}}in{{/lay}}{{/lay}}", "\n  {{#> lay}}\n  b1\n  {{{ml}}}\n  {{/lay}}\nq"])
    named = rng.chance(0.5)
    return cfg, [("p0", p0)] + ([("lay", lay)] if lay else []) + [("main", main)], data, named


def generate(rng, n, tier="quick"):
    """two-stage: the number of write calls of the fault-free run is needed; it is obtained from the model-free
    upper bound by simply enumerating k up to a cap and letting k past the end behave as fault-free."""
    out = []
    for i in range(n):
        r = rng.fork(i)
        cfg, templates, data, named = base_case(r, i)
        # all four writer entry points
        call = ({"api": r.pick(["render_to_write", "render_with_context_to_write"]), "name": "main"} if named
                else {"api": r.pick(["render_template_to_write", "render_template_with_context_to_write"]), "src": templates[-1][1]})
        ops = [{"op": "reg_string", "reg": 0, "name": nm, "src": s} for nm, s in templates]
        d = enc(data)
        ops.append(dict(call, op="render", reg=0, data=d))             # fault-free
        cap = 60 if tier == "quick" else 200
        for k in range(cap):
            # what the writer's io::Error is made of varies with k: a kind and a message, a bare kind, a raw OS error, an error whose
            # payload is itself an error (a RenderError, an io::Error) – whatever it carries, it is the IO error of the writer
            ops.append(dict(call, op="render", reg=0, data=d, fail_at=k, fault=["msg", "rerr", "kind", "os", "wrapped"][(k + i) % 5]))
        # short-write writers: accept at most m bytes per call and never fail – the render is the fault-free render
        shorts = [1, 2, 3, 7]
        for m in shorts:
            ops.append(dict(call, op="render", reg=0, data=d, short=m))
        case = {"kind": "session", "regs": [cfg], "ops": ops, "id": "%s-%06d" % (ID, i)}
        out.append((case, {"nreg": len(templates), "cap": cap, "shorts": len(shorts)}))
    return out


def oracle(case, meta, impl):
    if impl.get("r") != "session":
        return ["no result"]
    rs = impl["results"][meta["nreg"]:]
    ns = meta.get("shorts", 0)
    short_rs, rs = (rs[len(rs) - ns:], rs[:len(rs) - ns]) if ns else ([], rs)
    free = rs[0]
    if free.get("r") == "rerr" and free.get("reason") in ("TemplateNotFound", "TemplateError"):
        return None
    v = []
    if free.get("r") == "ok":
        full = free["out"]
        ncalls = free.get("calls")
    else:
        full = free.get("written", "")
        ncalls = None
    for j, r in enumerate(short_rs):
        # a writer that accepts fewer bytes than offered loses nothing: same result, same bytes, in order
        if r.get("r") != free.get("r") or r.get("out", r.get("written")) != free.get("out", free.get("written")) or r.get("reason") != free.get("reason"):
            v.append("short-write writer #%d: result %s %r differs from the fault-free %s %r" % (
                j, r.get("r"), r.get("out", r.get("written")), free.get("r"), free.get("out", free.get("written"))))
    prev_len = -1
    for k, r in enumerate(rs[1:]):
        if r.get("r") in ("panic", "crash"):
            v.append("writer failing at call %d: render did not return" % k)
            break
        if ncalls is not None and k >= ncalls:
            # the fault index is past the end: the run is the fault-free run
            if r.get("r") != "ok" or r.get("out") != full:
                v.append("writer failing at call %d (past the end) changed the result" % k)
            continue
        if r.get("r") == "ok":
            if free.get("r") == "ok":
                v.append("writer failed at call %d of %s but render returned Ok" % (k, ncalls))
            continue
        w = r.get("written", "")
        if r.get("reason") != "IOError":
            # the fault-free run itself ends in a render error before reaching call k
            if free.get("r") == "rerr" and r.get("reason") == free.get("reason") and w == full:
                continue
            v.append("writer failed at call %d: reason %s, expected IOError" % (k, r.get("reason")))
        if not full.startswith(w):
            v.append("bytes accepted before the failure at call %d are not a prefix of the fault-free output" % k)
        if len(w) < prev_len:
            v.append("fewer bytes accepted with a later fault (call %d)" % k)
        prev_len = len(w)
        if len(v) > 3:
            break
    return v


def project(case, meta, res):
    """the number of calls a short-write writer sees is std's write_all loop's business, not the crate's or the model's"""
    if res.get("r") != "session":
        return res
    out = dict(res)
    rs = [dict(x) for x in res.get("results", [])]
    ns = meta.get("shorts", 0)
    for x in rs[len(rs) - ns:] if ns else []:
        x.pop("calls", None)
    out["results"] = rs
    return out


def nontrivial_key(case, meta, impl):
    if impl.get("r") != "session":
        return None
    free = impl["results"][meta["nreg"]]
    if free.get("r") == "ok" and (free.get("calls") or 0) >= 2:
        return case["id"]
    return None


def outcome_kind(case, meta, impl):
    if impl.get("r") != "session":
        return "none"
    free = impl["results"][meta["nreg"]]
    c = free.get("calls")
    return "free=%s calls=%s" % (free.get("r"), "none" if c is None else ("<10" if c < 10 else ("<60" if c < 60 else ">=60")))
