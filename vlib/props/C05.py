"""C05 Rendering any compiled template on any data returns Ok or a RenderError."""
from ..gen import TG, gen_json, session, std_helpers, enc
from ..rng import Rng

ID = "C05"


def gen_case(rng: Rng, i):
    data = gen_json(rng, 3, want="obj")
    if not isinstance(data, dict):
        data = {"a": data}
    npart = rng.range(0, 3)
    pnames = ["p%d" % k for k in range(npart)]
    helpers = {"mk": "mark", "pr": "probe", "vr": "vret"}
    cfg = {"strict": rng.chance(0.3), "prevent_indent": rng.chance(0.2), "escape": rng.pick(["html", "html", "none", "mark"]),
           "helpers": std_helpers()}
    templates = []
    for k, pn in enumerate(pnames):
        # acyclic: partial k may include only partials with a larger index
        tg = TG(rng.fork("p%d" % k), data, helpers, pnames[k + 1:], opt={"inline": False, "partial_block": False})
        templates.append((pn, tg.partial_body(2, uses_block=False)))
    tg = TG(rng.fork("main"), data, helpers, pnames)
    main = tg.template(3)
    templates.append(("main", main))
    case = session(cfg, templates, {"api": "render", "name": "main"}, data)
    return case, {"stats": tg.stats}


def generate(rng: Rng, n):
    out = []
    for i in range(n):
        c, m = gen_case(rng.fork(i), i)
        c["id"] = "%s-%06d" % (ID, i)
        out.append((c, m))
    return out
