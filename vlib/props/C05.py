"""C05 Rendering any compiled template on any data returns Ok or a RenderError."""
from ..gen import TG, gen_json, session, std_helpers, enc
from ..rng import Rng
from .common import last

ID = "C05"
BUDGET = {"quick": 2500, "thorough": 150000}
RULE = ("compilable templates from the C04 space (string-level generator with every construct incl. ill-typed uses: each "
        "over scalars, non-numeric segments into arrays, missing params, unknown helpers/partials/decorators, '../' past the "
        "root), acyclic include graphs of 0..3 partials with partial blocks and inline partials, random JSON of depth ≤ 4, "
        "strict on/off, prevent_indent on/off, three escape functions; EXHAUSTIVELY every built-in value helper on every ordered pair of an edge pool of 34 operands (sign-only and number-like strings, range ends, null, booleans, collections, missing); the real crate runs in a child process under "
        "catch_unwind; after every render a second render on the same registry must succeed; non-trivial = main template "
        "compiled; distinct by (templates, data)")
DEFINITE_FLOOR = 0.9


def gen_case(rng: Rng, i):
    data = gen_json(rng, 4, want="obj")
    if not isinstance(data, dict):
        data = {"a": data}
    npart = rng.range(0, 3)
    pnames = ["p%d" % k for k in range(npart)]
    helpers = {"mk": "mark", "pr": "probe", "vr": "vret"}
    cfg = {"strict": rng.chance(0.3), "prevent_indent": rng.chance(0.2), "escape": rng.pick(["html", "html", "none", "mark"]),
           "helpers": std_helpers(), "decorators": [{"name": "setctx", "kind": "setctx"}, {"name": "sethelper", "kind": "sethelper"}]}
    templates = []
    for k, pn in enumerate(pnames):
        tg = TG(rng.fork("p%d" % k), data, helpers, pnames[k + 1:], opt={"inline": False, "partial_block": k + 1 < npart})
        templates.append((pn, tg.partial_body(2, uses_block=rng.chance(0.3))))
    tg = TG(rng.fork("main"), data, helpers, pnames, opt={"decorators": rng.chance(0.3)})
    main = tg.template(3)
    templates.append(("main", main))
    case = session(cfg, templates, {"api": "render", "name": "main"}, data)
    # a later render on the same registry is unaffected
    case["ops"].append({"op": "reg_string", "reg": 0, "name": "after", "src": "ok:{{{n}}}"})
    case["ops"].append({"op": "render", "reg": 0, "api": "render", "name": "after", "data": enc({"n": 7})})
    return case, {"npart": npart}


EDGE = ["", "-", "+", ".", "-.", "e", "1e", "-x", "--", "0x", " ", "\u00e9", "-0", "1.", "NaN", "Infinity", "-1", "1e400", "00",
        "18446744073709551616", "\u00e9\u00e9", "a\u0301", 0, -1, 2 ** 64 - 1, -(2 ** 63), None, True, False, [], [0], {}, {"-": 1}]


def generate(rng: Rng, n, tier="quick"):
    out = []
    # EXHAUSTIVE: every built-in value helper on every ordered pair of an edge pool of operands (one-character and sign-only
    # strings, strings that begin like numbers, numbers at the ends of their ranges, null, booleans, empty / non-empty
    # collections, a missing operand), from the data, in both modes – each must return output or a RenderError
    pool = EDGE + ["<missing>"]
    k = 0
    for a_ in pool:
        for b_ in pool:
            data = {}
            if a_ != "<missing>":
                data["a"] = a_
            if b_ != "<missing>":
                data["b"] = b_
            src = ("{{eq a b}}{{ne a b}}{{gt a b}}{{gte a b}}{{lt a b}}{{lte a b}}{{and a b}}{{or a b}}{{not a}}{{len a}}{{lookup a b}}"
                   "{{#if (gt a b)}}x{{/if}}{{#each a}}{{lookup ../b @key}}{{/each}}{{#with a}}{{lt this ../b}}{{/with}}")
            for strict in ((False, True) if (k % 3 == 0 or tier == "thorough") else (False,)):
                case = session({"strict": strict, "escape": "html", "helpers": std_helpers()}, [("main", src)], {"api": "render", "name": "main"}, data)
                case["ops"].append({"op": "reg_string", "reg": 0, "name": "after", "src": "ok:{{{n}}}"})
                case["ops"].append({"op": "render", "reg": 0, "api": "render", "name": "after", "data": enc({"n": 7})})
                case["id"] = "%s-edge%05d%s" % (ID, k, "s" if strict else "")
                out.append((case, {"npart": 0}))
            k += 1
    # EXHAUSTIVE: the log helper with every spelling of its `level` option – each level name of the `log` crate in three cases, the
    # filter-only name `off`, unknown names, the empty string, non-strings, a missing path – at top level, in a block, in a partial
    lv = 0
    for name in ["error", "warn", "info", "debug", "trace", "off", "max", "none", "loud", "", " info", "0", "5"]:
        for sp in sorted({name, name.upper(), name.capitalize()}):
            for lit in ('"%s"' % sp, "lv"):
                src = "a{{log x y level=%s}}b{{#each l}}{{log this level=%s}}{{/each}}c{{> p}}d" % (lit, lit)
                for strict in (False, True):
                    case = session({"strict": strict, "escape": "html", "helpers": std_helpers()},
                                   [("p", "{{log \"in partial\" level=%s}}" % lit), ("main", src)], {"api": "render", "name": "main"},
                                   {"x": 1, "y": "s", "l": [1], "lv": sp})
                    case["ops"].append({"op": "reg_string", "reg": 0, "name": "after", "src": "ok:{{{n}}}"})
                    case["ops"].append({"op": "render", "reg": 0, "api": "render", "name": "after", "data": enc({"n": 7})})
                    case["id"] = "%s-log%04d" % (ID, lv)
                    lv += 1
                    out.append((case, {"npart": 1}))
    # … and log records of every length around the sizes a bounded buffer might have, made of multi-byte characters (a cut at
    # a byte offset must not land inside a character)
    for nch in (30, 63, 64, 100, 127, 128, 129, 200, 255, 256, 257, 341, 342, 512, 1000, 4096):
        for ch in ("\u00e9", "\u4e2d", "\U0001F600"):
            src = "a{{log s}}b{{log s s level=\"warn\"}}c{{log \"x\" o}}d"
            case = session({"strict": False, "escape": "html", "helpers": std_helpers()}, [("main", src)], {"api": "render", "name": "main"},
                           {"s": ch * nch, "o": {"k": [ch * nch]}})
            case["ops"].append({"op": "reg_string", "reg": 0, "name": "after", "src": "ok:{{{n}}}"})
            case["ops"].append({"op": "render", "reg": 0, "api": "render", "name": "after", "data": enc({"n": 7})})
            case["id"] = "%s-log%04d" % (ID, lv)
            lv += 1
            out.append((case, {"npart": 0}))
    for lit in ("1", "null", "true", "[1]", "nope", "(eq 1 1)"):
        case = session({"strict": False, "escape": "html", "helpers": std_helpers()}, [("main", "a{{log x level=%s}}b" % lit)],
                       {"api": "render", "name": "main"}, {"x": 1})
        case["ops"].append({"op": "reg_string", "reg": 0, "name": "after", "src": "ok:{{{n}}}"})
        case["ops"].append({"op": "render", "reg": 0, "api": "render", "name": "after", "data": enc({"n": 7})})
        case["id"] = "%s-log%04d" % (ID, lv)
        lv += 1
        out.append((case, {"npart": 0}))
    # EXHAUSTIVE: every shape of line end at the END and in the MIDDLE of every chunk an indented standalone partial writes (raw text
    # before a tag, at the end of the partial, a data value, a helper's output): LF, CRLF, a bare CR, CR CR LF, LF CR, none – the
    # streaming indentation writer scans each chunk for line ends
    ends = ["", "\n", "\r\n", "\r", "\r\r\n", "\n\r", "\r\r", "x\r", "\u00e9\r", "\r\u00e9"]
    ib = 0
    for e1 in ends:
        for e2 in ends:
            for psrc in ("row" + e1 + "{{name}}" + e2, "{{name}}" + e1, e1 + "{{#each l}}{{this}}" + e2 + "{{/each}}", "a" + e1 + "{{> q}}" + e2 + "z"):
                for main in ("top\n  {{> p}}\nafter\n", "\t{{> p}}", "x\n {{#> p}}d{{/p}}\n"):
                    case = session({"strict": False, "escape": "html", "helpers": std_helpers()},
                                   [("q", "q1" + e1 + "q2" + e2), ("p", psrc), ("main", main)], {"api": "render", "name": "main"},
                                   {"name": "first" + e2, "l": ["i" + e1, e2]})
                    case["ops"].append({"op": "reg_string", "reg": 0, "name": "after", "src": "ok:{{{n}}}"})
                    case["ops"].append({"op": "render", "reg": 0, "api": "render", "name": "after", "data": enc({"n": 7})})
                    case["id"] = "%s-indend%04d" % (ID, ib)
                    ib += 1
                    out.append((case, {"npart": 2}))
    # EXHAUSTIVE: every @-variable behind 0..5 `../` at scope depth 0..3 (top level, each, each in with, nested each), in a template
    # and in a partial called from there (a partial starts with a scope stack of its own): more `../` than scopes is a missing value
    iv = 0
    for var in ("index", "key", "first", "last", "root", "nosuch"):
        for ups in range(0, 6):
            tag = "{{@" + "../" * ups + var + "}}"
            for wrap in ("[%s]", "{{#each l}}[%s]{{/each}}", "{{#with o}}{{#each l}}[%s]{{/each}}{{/with}}", "{{#each ll}}{{#each this}}[%s]{{/each}}{{/each}}",
                         "{{#each l}}{{> p}}{{/each}}", "{{> p}}"):
                for strict in (False, True):
                    case = session({"strict": strict, "escape": "html", "helpers": std_helpers()},
                                   [("p", "(%s)" % tag), ("main", wrap % tag if "%s" in wrap else wrap)], {"api": "render", "name": "main"},
                                   {"l": [1, 2], "o": {"l": ["a"]}, "ll": [[1], [2, 3]]})
                    case["ops"].append({"op": "reg_string", "reg": 0, "name": "after", "src": "ok:{{{n}}}"})
                    case["ops"].append({"op": "render", "reg": 0, "api": "render", "name": "after", "data": enc({"n": 7})})
                    case["id"] = "%s-atup%04d" % (ID, iv)
                    iv += 1
                    out.append((case, {"npart": 1}))
    for i in range(n):
        c, m = gen_case(rng.fork(i), i)
        c["id"] = "%s-%06d" % (ID, i)
        out.append((c, m))
    return out


def oracle(case, meta, impl):
    if impl.get("r") != "session":
        return ["render did not return: %s %s" % (impl.get("r"), impl.get("stderr", impl.get("site", "")))]
    v = []
    rs = impl["results"]
    for r in rs:
        if r.get("r") in ("panic", "crash", "hang"):
            v.append("an operation did not return Ok/Err: %s %s" % (r.get("r"), r.get("site", "")))
    main = rs[-3]
    if main.get("r") not in ("ok", "rerr"):
        v.append("render returned neither output nor RenderError: %s" % main.get("r"))
    after = rs[-1]
    if not (after.get("r") == "ok" and after.get("out") == "ok:7"):
        v.append("a later render on the same registry was affected: %s" % after)
    return v


def project(case, meta, res):
    return res


def nontrivial_key(case, meta, impl):
    if impl.get("r") != "session":
        return None
    main = impl["results"][-3]
    if main.get("reason") == "TemplateNotFound":
        return None
    return case["id"]


def outcome_kind(case, meta, impl):
    if impl.get("r") != "session":
        return impl.get("r")
    m = impl["results"][-3]
    return "%s:%s" % (m.get("r"), m.get("reason", ""))
