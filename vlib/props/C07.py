"""C07 each visits every element once, in order, with correct iteration variables."""
from ..astgen import AG, gen_doc
from ..gen import enc, session
from ..rng import Rng
from .. import ref
from .common import last, ref_outcome, check_against_ref

ID = "C07"
BUDGET = {"quick": 1500, "thorough": 60000}
RULE = ("arrays and objects of length 0..8 with arbitrary JSON elements, reached by a context path, a '../' path, a block "
        "parameter, a block parameter behind '../' over a same-named field (model and crate compared), @root, a literal or a subexpression (lookup); each nested up to 4 deep and mixed with with/if/partials; "
        "0, 1 or 2 block parameters; the each opened by {{#each}} or by an else-chain tag ({{else each c as |v k|}}); bodies print this/@index/@key/@first/@last/@../index and the parameters with "
        "separators, the family of the Lean theorem C07.each_block_renders_body_per_element (any text, {{#each v}}A{{/each}} over an array of 0..40 arbitrary elements, any text; exact closed form), and the second parameter where its JSON type matters (truthiness, eq with @index/@key, as an array index); oracle = reference renderer (concatenation over the elements in index / key order); non-trivial = "
        "at least one iteration happened; distinct by output")
DEFINITE_FLOOR = 0.6


def coll(rng, depth=2):
    n = rng.range(0, 8)
    def el(d):
        k = rng.weighted([("s", 4), ("i", 3), ("b", 1), ("n", 1), ("a", 2 if d > 0 else 0), ("o", 2 if d > 0 else 0)])
        if k == "s":
            return rng.pick(["a", "b", "", "x<y", "é"])
        if k == "i":
            return rng.range(-3, 40)
        if k == "b":
            return rng.chance(0.5)
        if k == "n":
            return None
        if k == "a":
            return [el(d - 1) for _ in range(rng.range(0, 4))]
        return {rng.pick(["k", "a", "z", "m", "é", "b2"]): el(d - 1) for _ in range(rng.range(0, 4))}
    if rng.chance(0.5):
        return [el(depth) for _ in range(n)]
    keys = rng.shuffle(["k", "a", "z", "m", "é", "b2", "0", "10", "2", "A", "_x"])[:n]
    return {k: el(depth) for k in keys}


def body(rng, bps, depth, inner_coll):
    parts = ["{{@index}}", ":", "{{@key}}", ":", "{{@first}}", "/", "{{@last}}", "=", "{{this}}"]
    nodes = []
    def txt(s):
        nodes.append({"t": "text", "s": s})
    def loc(name, ups=0):
        nodes.append({"t": "expr", "arg": {"a": "local", "ups": ups, "name": name}, "html": 1})
    txt("(")
    for nm in rng.shuffle(["index", "key", "first", "last"])[:rng.range(2, 4)]:
        loc(nm)
        txt(",")
    nodes.append({"t": "expr", "arg": {"a": "path", "ups": 0, "root": False, "segs": []}, "html": 0})
    for b in bps:
        txt("|")
        nodes.append({"t": "expr", "arg": {"a": "param", "name": b, "segs": []}, "html": 0})
    if len(bps) == 2 and rng.chance(0.7):
        # the JSON TYPE of the second parameter (a number for arrays, a string for objects), in positions where it matters:
        # truthiness (index 0 is falsy, key "0" is truthy), equality with @index / @key, use as an array index
        kp = {"a": "param", "name": bps[1], "segs": []}
        txt("?")
        nodes.append({"t": "if", "neg": False, "arg": kp, "body": [{"t": "text", "s": "T"}], "else": [{"t": "text", "s": "F"}], "incz": False})
        nodes.append({"t": "expr", "arg": {"a": "sub", "h": "eq", "args": [kp, {"a": "local", "ups": 0, "name": rng.pick(["index", "key"])}]}, "html": 0})
        nodes.append({"t": "expr", "arg": {"a": "sub", "h": "lookup", "args": [{"a": "path", "ups": 0, "root": True, "segs": ["idx"]}, kp]}, "html": 0})
    if depth > 0 and rng.chance(0.6):
        txt("<")
        nodes.append(each_node(rng, {"a": "path", "ups": 0, "root": False, "segs": []}, depth - 1, nested=True))
        txt(">")
    if rng.chance(0.3):
        loc("index", 1)
    txt(")")
    return nodes


def each_node(rng, arg, depth, nested=False):
    bps = rng.shuffle(["it", "kk", "vv"])[:rng.pick([0, 0, 1, 2])]
    b = body(rng, bps, depth, None)
    els = [{"t": "text", "s": "<none>"}] if rng.chance(0.5) else None
    if els is not None and rng.chance(0.6):
        # the else branch is rendered in the scope AROUND the each (no scope is pushed for it): `this`, a field and the iteration
        # variables of an enclosing each mean there what they mean in front of the block
        els = [{"t": "text", "s": "<none "}, {"t": "expr", "arg": {"a": "local", "ups": 0, "name": rng.pick(["index", "key", "last"])}, "html": 1}, {"t": "text", "s": ","},
               {"t": "expr", "arg": {"a": "path", "ups": 0, "root": False, "segs": []}, "html": 0}, {"t": "text", "s": ","},
               {"t": "expr", "arg": {"a": "path", "ups": 0, "root": False, "segs": [rng.pick(["s", "k", "a", "n"])]}, "html": 0}, {"t": "text", "s": ">"}]
    return {"t": "each", "arg": arg, "body": b, "else": els, "bp": bps}


def generate(rng, n, tier="quick"):
    out = []
    i = 0
    while len(out) < n:
        r = rng.fork(i)
        i += 1
        c = coll(r)
        data = {"c": c, "o": {"c": c, "n": 5}, "w": {"x": 1}, "s": "str", "arr2": [c, c], "idx": ["i0", "i1", "i2", "i3", "i4", "i5", "i6", "i7", "i8"]}
        prov = r.pick(["path", "up", "param", "root", "lit", "sub", "deep", "scalar", "upparam"])
        arg_c = {"a": "path", "ups": 0, "root": False, "segs": ["c"]}
        wrap = lambda n_: [n_]
        if prov == "path":
            node = each_node(r, arg_c, r.range(0, 2))
            ast = [node]
        elif prov == "up":
            node = each_node(r, {"a": "path", "ups": 1, "root": False, "segs": ["c"]}, r.range(0, 2))
            ast = [{"t": "with", "arg": {"a": "path", "ups": 0, "root": False, "segs": ["w"]}, "body": [node], "else": None, "bp": None}]
        elif prov == "param":
            node = each_node(r, {"a": "param", "name": "pp", "segs": ["c"]}, r.range(0, 2))
            ast = [{"t": "with", "arg": {"a": "path", "ups": 0, "root": False, "segs": ["o"]}, "body": [node], "else": None, "bp": "pp"}]
        elif prov == "root":
            node = each_node(r, {"a": "path", "ups": 0, "root": True, "segs": ["c"]}, r.range(0, 2))
            ast = [{"t": "with", "arg": {"a": "path", "ups": 0, "root": False, "segs": ["w"]}, "body": [node], "else": None, "bp": None}]
        elif prov == "lit":
            ast = [each_node(r, {"a": "lit", "v": c}, r.range(0, 1))]
        elif prov == "sub":
            ast = [each_node(r, {"a": "sub", "h": "lookup", "args": [{"a": "path", "ups": 0, "root": False, "segs": ["o"]}, {"a": "lit", "v": "c"}]}, r.range(0, 2))]
        elif prov == "upparam":
            # a block parameter spelled behind '../' while the enclosing context has a field of the same name (what the
            # spelling means is not stated: crate and model are compared, the reference abstains)
            data["pp"] = {"c": coll(r.fork("other"))}
            inner = each_node(r, {"a": "param", "name": "pp", "segs": ["c"], "ups": r.pick([1, 1, 2])}, r.range(0, 1))
            ast = [{"t": "each", "arg": {"a": "path", "ups": 0, "root": False, "segs": ["arr2"]}, "body": [{"t": "with", "arg": {"a": "path", "ups": 1, "root": False, "segs": ["o"]}, "body": [inner], "else": None, "bp": "pp"}, {"t": "text", "s": ";"}], "else": None, "bp": []}]
        elif prov == "deep":
            ast = [each_node(r, {"a": "path", "ups": 0, "root": False, "segs": ["arr2"]}, 2)]
        else:
            ast = [each_node(r, {"a": "path", "ups": 0, "root": False, "segs": [r.pick(["s", "nope", "w"])]}, 0)]
        if prov in ("path", "root", "sub", "lit") and r.chance(0.3) and ast[0]["t"] == "each" and ast[0].get("else") is None:
            # the same each OPENED BY AN ELSE-CHAIN TAG ({{#if f}}..{{else each c as |v k|}}..): iteration variables and block
            # parameters as for {{#each}}
            e0 = ast[0]
            first = r.pick([("if", {"a": "path", "ups": 0, "root": True, "segs": ["nope"]}), ("each", {"a": "path", "ups": 0, "root": True, "segs": ["nope"]}),
                            ("with", {"a": "path", "ups": 0, "root": True, "segs": ["nope"]})])
            ast = [{"t": "chain", "links": [(first[0], first[1], [{"t": "text", "s": "no"}], None), ("each", e0["arg"], e0["body"], list(e0.get("bp") or []))],
                    "else": ([{"t": "text", "s": "<none>"}] if r.chance(0.5) else None)}]
            prov = prov + "+chain"
        ast = [{"t": "text", "s": "["}] + ast + [{"t": "text", "s": "]"}]
        src = ref.print_nodes(r.fork("p"), ast)
        if src is None:
            continue
        case = session({"escape": "none"}, [("main", src)], {"api": "render", "name": "main"}, data)
        case["id"] = "%s-%06d" % (ID, i)
        oc = ref_outcome({"main": ast}, "main", data, False, lambda s: s)
        out.append((case, {"prov": prov, "oracle": list(oc), "len": len(c)}))
    # directed: the else branch of an each over an empty object / empty array / null / scalar / missing field, inside an enclosing each: it is
    # rendered in the enclosing scope (name and @index / @key / @first of the OUTER iteration; `../` steps out of the outer one)
    for k, (cells, shown) in enumerate([({}, None), ([], None), (None, None), (5, None), ("MISSING", None), ({"x": 1, "y": 2}, "1,2,"), ([7], "7,")]):
        for outer_kind in ("arr", "obj"):
            rows_ = [{"name": "a", "cells": {"x": 1}}, {"name": "b", "cells": cells}]
            if cells == "MISSING":
                del rows_[1]["cells"]
            d_ = {"top": "T", "rows": rows_ if outer_kind == "arr" else {"r0": rows_[0], "r1": rows_[1]}}
            tpl_ = "{{#each rows}}{{#each cells}}{{this}},{{else}}[{{name}}:{{@index}}:{{@key}}:{{@first}}:{{../top}}:{{this.name}}]{{/each}};{{/each}}"
            second = shown if shown is not None else ("[b:1::false:T:b]" if outer_kind == "arr" else "[b:1:r1:false:T:b]")
            case = session({"escape": "none"}, [("main", tpl_)], {"api": "render", "name": "main"}, d_)
            case["id"] = "%s-else%02d%s" % (ID, k, outer_kind)
            out.append((case, {"prov": "else-scope", "oracle": ["must", "1,;" + second + ";"], "len": 2}))
    # directed: the collection spelled with a `this` that is not at the start of the path – behind @root, behind a name, behind
    # ../ or this. – designates what the path designates without it (a `this` segment never names a field)
    rows = [({"a": 1, "b": "x"},
             "[{{#each @root.this}}{{@key}}={{this}},{{/each}}|{{#each @root/this as |v k|}}{{k}}={{v}},{{/each}}|"
             "{{#each this}}{{#each @root.this}}{{@key}}{{@../key}};{{/each}}{{/each}}|{{#each @root.this}}{{@index}}{{@first}}{{@last}},{{else}}none{{/each}}]",
             "[a=1,b=x,|a=1,b=x,|aa;ba;ab;bb;|0truefalse,1falsetrue,]"),
            ({"c": [7, 8], "o": {"c": [7, 8]}},
             "[{{#each c.this}}{{@index}}:{{this}},{{/each}}|{{#each @root.this.c}}{{this}},{{/each}}|{{#each this.c.this}}{{this}}{{/each}}|"
             "{{#with o}}{{#each ../this.c}}{{this}}{{/each}}|{{#each this.this.c}}{{this}}{{/each}}{{/with}}|{{#each @root.o.this.c}}{{this}}{{/each}}|"
             "{{#each o/this/c as |v i|}}{{i}}{{v}}{{/each}}]",
             "[0:7,1:8,|7,8,|78|78|78|78|0718]")]
    # … and the types of the iteration variables: over an array there is NO @key (also when the array is iterated inside an object
    # iteration), the second block parameter is the index as a NUMBER (usable as a lookup index, equal to the literal 0)
    rows.append(({"xs": ["a", "b"], "ys": ["Y0", "Y1"], "o": {"k": ["p"]}},
                 "[{{#each xs}}{{@key}}|{{/each}}#{{#each xs}}{{#if @key}}k{{else}}n{{/if}}{{/each}}#"
                 "{{#each xs as |v i|}}{{lookup ../ys i}}{{#if (eq i 0)}}z{{/if}}{{/each}}#{{#each o}}{{#each this}}<{{@key}}>{{/each}}{{/each}}#"
                 "{{#each xs as |v i|}}{{lookup ../ys @index}}{{/each}}#{{#each o as |v k|}}{{lookup ../o k}}{{#if (eq k \"k\")}}s{{/if}}{{/each}}]",
                 "[||#nn#Y0zY1#<>#Y0Y1#[p]s]"))
    # … a collection reached through `@root` whose first key is ALSO the name of a block parameter in scope: `@root.` starts at the
    # root of the data, a block parameter of that name notwithstanding (as collection of an inner each, as a value, behind ../)
    rows.append(({"rows": [1, 2], "cols": ["a", "b", "c"]},
                 "[{{#each rows as |cols|}}{{#each @root.cols as |c i|}}{{i}}{{c}}{{/each}};{{/each}}]", "[0a1b2c;0a1b2c;]"))
    rows.append(({"rows": [{"id": "r0"}, {"id": "r1"}], "cols": ["a"]},
                 "[{{#each cols as |rows|}}{{@root.rows.1.id}}|{{#each @root.rows}}{{id}}{{/each}}{{/each}}]", "[r1|r0r1]"))
    rows.append(({"o": {"k": 1}, "xs": ["p", "q"]},
                 "[{{#with o as |xs|}}{{#each @root.xs}}{{@index}}{{this}}{{/each}}|{{#each @root/xs as |xs j|}}{{j}}{{xs}}{{/each}}{{/with}}]", "[0p1q|0p1q]"))
    rows.append(({"m": {"a": 1}, "k": {"x": "X", "y": "Y"}},
                 "[{{#each m as |v k|}}{{#each @root.k}}{{@key}}={{this}},{{/each}}{{/each}}]", "[x=X,y=Y,]"))
    for k, (data, src, exp) in enumerate(rows):
        case = session({"escape": "none"}, [("main", src)], {"api": "render", "name": "main"}, data)
        case["id"] = "%s-this%02d" % (ID, k)
        out.append((case, {"prov": "thisseg", "oracle": ["must", exp], "len": 2}))
    # the family of the Lean theorem C07.each_block_renders_body_per_element: L ++ {{#each v}}A{{/each}} ++ R for any text L that may
    # stand before a tag, any text R without '{{' and any array under v (length 0..40, arbitrary elements): one A per element
    from .C03 import thm_left, thm_right
    for k in range(150 if tier != "thorough" else 1500):
        r = rng.fork("thm%d" % k)
        L, R = thm_left(r), thm_right(r)
        nel = r.pick([0, 1, 2, 3, 5, 8, 17, 40])
        arr = [r.pick([None, 0, "", "x", [], {"a": 1}, True, [1]]) for _ in range(nel)]
        # (… and of C07.each_block_any_body_per_element: ANY body text that begins and ends with a non-whitespace character, has no
        # `{{` and no backslash)
        X = "A"
        if r.chance(0.6):
            from .C03 import _no_open, rand_text
            X = _no_open(rand_text(r, r.range(1, 12))).replace("\\", "/")
            X = r.pick(["a", "<", "}", "\u00e9", "x"]) + X + r.pick(["z", ">", "}", "\u4e2d", "0"])
        src = L + "{{#each v}}" + X + "{{/each}}" + R
        case = session({"escape": "none"}, [("main", src)], {"api": "render", "name": "main"}, {"v": arr})
        case["id"] = "%s-thm%04d" % (ID, k)
        out.append((case, {"prov": "thm", "oracle": ["must", L + X * nel + R], "len": nel}))
    # the family of C07.each_block_index_counts_in_order: L ++ {{#each v}}{{@index}}{{/each}} ++ R for any array under v and any escape
    # function: esc("0") esc("1") … esc(str(n-1)) in this order (closed form, exact)
    from .common import escape_of
    for k in range(60 if tier != "thorough" else 1000):
        r = rng.fork("thmidx%d" % k)
        L, R = thm_left(r), thm_right(r)
        nel = r.pick([0, 1, 2, 3, 5, 11, 12, 40, 101])
        arr = [r.pick([None, 0, "", "x", [], {"a": 1}, True, [1]]) for _ in range(nel)]
        escn = r.pick(["none", "mark", "html"])
        esc = escape_of(escn)
        case = session({"escape": escn}, [("main", L + "{{#each v}}{{@index}}{{/each}}" + R)], {"api": "render", "name": "main"}, {"v": arr})
        case["id"] = "%s-thmidx%04d" % (ID, k)
        out.append((case, {"prov": "thmidx", "oracle": ["must", L + "".join(esc(str(i)) for i in range(nel)) + R], "len": nel}))
    # the family of C07.each_block_key_names_each_entry: L ++ {{#each v}}{{@key}}{{/each}} ++ R for any OBJECT under v: esc(k) for every
    # entry's key, in the map's order (keys sorted as byte strings), once each (closed form, exact)
    KEYS = ["a", "b", "A", "0", "10", "9", "k k", "<", "&amp;", "\u00e9", "\u4e2d", "\U0001F600", "", " ", "this", "@key", "a.b", "[x]", "z", "aa", "\uffff"]
    for k in range(60 if tier != "thorough" else 1000):
        r = rng.fork("thmkey%d" % k)
        L, R = thm_left(r), thm_right(r)
        ks = r.shuffle(KEYS)[:r.pick([0, 1, 2, 3, 5, 9, 15])]
        obj = {kk: r.pick([None, 0, "", "x", [], {"a": 1}, True]) for kk in ks}
        escn = r.pick(["none", "mark", "html"])
        esc = escape_of(escn)
        case = session({"escape": escn}, [("main", L + "{{#each v}}{{@key}}{{/each}}" + R)], {"api": "render", "name": "main"}, {"v": obj})
        case["id"] = "%s-thmkey%04d" % (ID, k)
        order = sorted(obj.keys(), key=lambda x: x.encode("utf-8"))
        out.append((case, {"prov": "thmkey", "oracle": ["must", L + "".join(esc(kk) for kk in order) + R], "len": len(ks)}))
    # the family of C07.each_block_parent_path_reads_the_outer_scope: L ++ {{#each v}}{{../x}}{{/each}} ++ R: escape(text of data.x) once per
    # element, whatever the elements hold under x (closed form, exact)
    for k in range(50 if tier != "thorough" else 1000):
        r = rng.fork("thmup%d" % k)
        L, R = thm_left(r), thm_right(r)
        nel = r.pick([0, 1, 2, 3, 7, 20])
        arr = [r.pick([None, 0, "", {"x": "INNER"}, [], {"x": 1, "k": 2}, True]) for _ in range(nel)]
        val, txt = r.pick([("<o>&", "<o>&"), ("outer", "outer"), ("", ""), (7, "7"), (True, "true"), (None, ""), ([1, "a"], "[1, a]"), ({"k": 1}, "[object]")])
        escn = r.pick(["none", "mark", "html"])
        esc = escape_of(escn)
        case = session({"escape": escn}, [("main", L + "{{#each v}}{{../x}}{{/each}}" + R)], {"api": "render", "name": "main"}, {"v": arr, "x": val})
        case["id"] = "%s-thmup%04d" % (ID, k)
        out.append((case, {"prov": "thmup", "oracle": ["must", L + esc(txt) * nel + R], "len": nel}))
    return out


def oracle(case, meta, impl):
    return check_against_ref(tuple(meta["oracle"]), last(impl))


def nontrivial_key(case, meta, impl):
    l = last(impl)
    if l.get("r") == "ok" and "(" in (l.get("out") or ""):
        return l["out"]
    return None


def distribution(cases):
    d = {}
    for c, m in cases:
        d["prov." + m["prov"]] = d.get("prov." + m["prov"], 0) + 1
        d["len.%d" % m["len"]] = d.get("len.%d" % m["len"], 0) + 1
        d["oracle." + m["oracle"][0]] = d.get("oracle." + m["oracle"][0], 0) + 1
    return d
