"""C17 The registry behaves as a name->template map; dev mode tracks files."""
import itertools
import zlib
from ..gen import enc
from ..rng import Rng

ID = "C17"
BUDGET = {"quick": 500, "thorough": 20000}
EXHAUSTIVE = True
RULE = ("histories of registry operations over 3 names, 3 files and a pool of valid/invalid template sources: "
        "register_template_string / register_partial / register_template / register_template_file / unregister / clear, file "
        "rewrite / delete, dev-mode and prevent_indent toggles, clone-and-diverge; after EVERY step has_template, the keys of "
        "get_templates, a render of every name and an INCLUSION of every name from a template string (through the four string entry points in turn) are observed; EXHAUSTIVE for all sequences of length ≤ 3 (thorough: ≤ 4) "
        "over a reduced alphabet of 14 operations, random sequences up to length 12 beyond; oracle = a map name -> "
        "registration (compiled text with the prevent_indent in force | tracked file) kept by the generator; real files in a "
        "scratch directory; non-trivial = history with at least one successful registration; distinct by history")
DEFINITE_FLOOR = 0.95
NAMES = ["a", "b", "c"]
FILES = ["f1", "f2", "f3"]
GOOD = ["A{{x}}", "x\n  {{> b}}\ny", "{{#if x}}T{{/if}}", "plain", "{{> b}}!", "L1\nL2{{x}}",
        # sources that END in a tag alone on its indented line (the end of the source is a line end, for every way of registering)
        "{{#if x}}\ny\n  {{/if}}", "a\n  {{!-- c --}}",
        # a template that defines an INLINE partial under the name of a registry entry and calls it: what it renders does not depend
        # on how (or whether) that other name is registered, tracked or reloaded
        "{{#*inline \"b\"}}I{{/inline}}[{{> b}}]"]
BAD = ["{{#if x}}", "{{/each}}", "{{foo 1.}}", "{{"]


class RefReg:
    """the abstract registry: name -> ('text', src, prevent_indent) | ('file', path, src_at_registration, pi)"""

    def __init__(self):
        self.m = {}
        self.dev = False
        self.pi = False

    def clone(self):
        r = RefReg()
        r.m = dict(self.m)
        r.dev = self.dev
        r.pi = self.pi
        return r


def valid(src):
    return src not in BAD and src != "{{#bad"


def apply(op, regs, fs):
    """update the abstract state; returns expected outcome kind for registration ops ('ok' | 'err')"""
    k = op["op"]
    r = regs[op.get("reg", 0)] if k not in ("write_file", "delete_file") else None
    if k in ("reg_string", "reg_partial", "reg_template"):
        if valid(op["src"]):
            pi = r.pi if k != "reg_template" else False
            r.m[op["name"]] = ("text", op["src"], pi)
            return "ok"
        return "err"
    if k == "reg_file":
        src = fs.get(op["file"])
        if src is None or not valid(src):
            return "err"
        if r.dev:
            r.m[op["name"]] = ("file", op["file"], src, r.pi)
        else:
            r.m[op["name"]] = ("text", src, r.pi)
        return "ok"
    if k == "unregister":
        r.m.pop(op["name"], None)
    elif k == "clear":
        r.m.clear()
    elif k == "set_dev":
        r.dev = op["v"]
        if not op["v"]:
            # tracking stops; the copies compiled at registration remain
            for n, e in list(r.m.items()):
                if e[0] == "file":
                    r.m[n] = ("text", e[2], e[3])
    elif k == "set_prevent_indent":
        r.pi = op["v"]
    elif k == "write_file":
        if "bytes_hex" in op:
            # raw bytes that are not UTF-8: the file cannot be read as a template source – as good as absent
            fs.pop(op["file"], None)
        else:
            fs[op["file"]] = op["content"]
    elif k == "delete_file":
        fs.pop(op["file"], None)
    elif k == "clone":
        regs.append(r.clone())
    return "ok"


def reduced_alphabet():
    return [
        {"op": "reg_string", "reg": 0, "name": "a", "src": "A{{x}}"},
        {"op": "reg_string", "reg": 0, "name": "a", "src": "{{#if x}}"},
        {"op": "reg_string", "reg": 0, "name": "b", "src": "x\n  {{> a}}\ny"},
        {"op": "reg_file", "reg": 0, "name": "a", "file": "f1"},
        {"op": "reg_file", "reg": 0, "name": "b", "file": "f2"},
        {"op": "unregister", "reg": 0, "name": "a"},
        {"op": "clear", "reg": 0},
        {"op": "set_dev", "reg": 0, "v": True},
        {"op": "set_dev", "reg": 0, "v": False},
        {"op": "write_file", "file": "f1", "content": "F3"},
        {"op": "write_file", "file": "f1", "bytes_hex": "46ff fe28c3".replace(" ", "")},
        {"op": "delete_file", "file": "f1"},
        {"op": "set_prevent_indent", "reg": 0, "v": True},
        {"op": "reg_string", "reg": 0, "name": "b", "src": "L1\nL2{{x}}"},
        {"op": "reg_file", "reg": 0, "name": "c", "file": "f2"},
    ]


def rand_op(rng, nregs):
    reg = rng.below(nregs)
    k = rng.weighted([("reg_string", 5), ("reg_partial", 1), ("reg_template", 1), ("reg_file", 4), ("unregister", 2), ("clear", 1),
                      ("set_dev", 3), ("set_prevent_indent", 2), ("write_file", 3), ("delete_file", 1), ("clone", 1)])
    if k in ("reg_string", "reg_partial", "reg_template"):
        op = {"op": k, "reg": reg, "name": rng.pick(NAMES), "src": rng.pick(GOOD + GOOD + BAD)}
        if k == "reg_template":
            op["tname"] = op["name"]
        return op
    if k == "reg_file":
        return {"op": k, "reg": reg, "name": rng.pick(NAMES), "file": rng.pick(FILES)}
    if k == "unregister":
        return {"op": k, "reg": reg, "name": rng.pick(NAMES)}
    if k in ("set_dev", "set_prevent_indent"):
        return {"op": k, "reg": reg, "v": rng.chance(0.5)}
    if k == "write_file" and rng.chance(0.12):
        return {"op": k, "file": rng.pick(FILES), "bytes_hex": rng.pick(["fffe", "c328", "41ff42", "e28241", "f0288cbc"])}
    if k == "write_file":
        return {"op": k, "file": rng.pick(FILES), "content": rng.pick(["F1{{x}}", "F2\n  {{> b}}\nz", "F3", "{{#bad", "x\n  {{> b}}\ny"])}
    if k == "delete_file":
        return {"op": k, "file": rng.pick(FILES)}
    return {"op": k, "reg": reg}


UNNAMED_APIS = ["render_template", "render_template_with_context", "render_template_to_write", "render_template_with_context_to_write"]


def build(history, idn):
    """interleave observations after every step and compute the expected observations"""
    regs = [RefReg()]
    fs = {"f1": "F1{{x}}", "f2": "F2\n  {{> b}}\nz"}
    ops = [{"op": "write_file", "file": "f1", "content": fs["f1"]}, {"op": "write_file", "file": "f2", "content": fs["f2"]}]
    expect = [None, None]
    for op in history:
        op = dict(op)
        if op.get("reg", 0) >= len(regs):
            op["reg"] = 0
        res = apply(op, regs, fs)
        ops.append(op)
        expect.append(("reg", res) if op["op"].startswith("reg_") else None)
        for ri in range(len(regs)):
            r = regs[ri]
            ops.append({"op": "keys", "reg": ri})
            expect.append(("keys", sorted(r.m.keys())))
            for n in NAMES:
                ops.append({"op": "has", "reg": ri, "name": n})
                expect.append(("has", n in r.m))
                ops.append({"op": "render", "reg": ri, "api": "render", "name": n, "data": enc({"x": 1})})
                expect.append(("render", ri, n, snapshot(r, fs)))
                # … and the same name INCLUDED as a partial from a template string, through each of the four entry points that
                # take a string (in turn): a tracked name follows its file there as well
                api = UNNAMED_APIS[(len(ops) + NAMES.index(n)) % 4]
                ops.append({"op": "render", "reg": ri, "api": api, "src": "{{> %s}}!" % n, "data": enc({"x": 1})})
                expect.append(("include", ri, n, snapshot(r, fs)))
    case = {"kind": "session", "regs": [{"escape": "none"}], "ops": ops, "id": idn}
    return case, {"expect": expect, "hist": [o["op"] for o in history], "len": len(history)}


def snapshot(r, fs):
    """everything the expected render result depends on"""
    return {"m": {k: list(v) for k, v in r.m.items()}, "dev": r.dev, "fs": dict(fs)}


def ref_render(name, snap, depth=0):
    """reference render of `name` with x=1: ('ok', text) | ('err', reason) | None (not modelled)"""
    m, dev, fs = snap["m"], snap["dev"], snap["fs"]
    if name not in m:
        return ("err", "TemplateNotFound")
    # dev mode: every tracked file is reloaded for a render; any missing / invalid one fails the render
    if dev:
        for n, e in m.items():
            if e[0] == "file":
                src = fs.get(e[1])
                if src is None or not valid(src):
                    return ("err", "TemplateError")
    def src_of(n):
        e = m.get(n)
        if e is None:
            return None
        if e[0] == "file":
            return (fs.get(e[1]) if dev else e[2]), e[3]
        return e[1], e[2]
    def rend(n, stack):
        s = src_of(n)
        if s is None:
            return None
        src, pi = s
        # dev-mode tracked templates are recompiled with the setting in force at render time: not distinguished here
        if n in stack:
            return ("err", "CannotIncludeSelf") if stack[-1] == n else "loop"
        out = ""
        table = {"L1\nL2{{x}}": lambda: "L1\nL21", "A{{x}}": lambda: "A1", "{{#if x}}T{{/if}}": lambda: "T", "plain": lambda: "plain", "F1{{x}}": lambda: "F11", "F3": lambda: "F3",
                 "{{#if x}}\ny\n  {{/if}}": lambda: "y\n", "a\n  {{!-- c --}}": lambda: "a\n",
                 "{{#*inline \"b\"}}I{{/inline}}[{{> b}}]": lambda: "[I]"}
        if src == "{{#*inline \"b\"}}I{{/inline}}[{{> b}}]" and n == "b":
            # registered under the very name it calls: the self-inclusion test goes by the name and comes first
            return ("err", "CannotIncludeSelf")
        if src in table:
            return ("ok", table[src]())
        # templates that include a partial
        inc = {"x\n  {{> b}}\ny": ("x\n", "b", "y", True), "{{> b}}!": ("", "b", "!", False), "x\n  {{> a}}\ny": ("x\n", "a", "y", True),
               "F2\n  {{> b}}\nz": ("F2\n", "b", "z", True)}.get(src)
        if inc is None:
            return None
        pre, pn, post, indented = inc
        if pn == n:
            return ("err", "CannotIncludeSelf")
        if pn not in m:
            return ("err", "PartialNotFound")
        sub = rend(pn, stack + [n])
        if sub is None or sub == "loop":
            return None
        if sub[0] == "err":
            return sub
        if not indented:
            return ("ok", pre + sub[1] + post)
        e = m.get(n)
        if e[0] == "file" and dev:
            return None          # recompiled at render time with the setting then in force: not distinguished here
        if pi:
            # prevent_indent in force when THIS template was registered: the tag's indentation stays text, nothing is added
            return ("ok", pre + "  " + sub[1] + post)
        # otherwise every line of the partial's output is indented by the tag's indentation
        lines = sub[1].split("\n")
        ind = "\n".join(("  " + l) if (l != "" or i < len(lines) - 1) else l for i, l in enumerate(lines))
        return ("ok", pre + ind + post)
    return rend(name, [])


def generate(rng, n, tier="quick"):
    out = []
    alpha = reduced_alphabet()
    maxlen = 4 if tier == "thorough" else 3
    k = 0
    for L in range(1, maxlen + 1):
        for hist in itertools.product(alpha, repeat=L):
            if L == 3 and tier != "thorough" and (zlib.crc32("|".join(o["op"] + o.get("name", "") + str(o.get("v", "")) + o.get("file", "") for o in hist).encode()) % 3) != 0:
                continue
            if L == 4 and (k % 7) != 0:
                k += 1
                continue
            out.append(build(list(hist), "%s-x%06d" % (ID, k)))
            k += 1
    # directed: the prevent_indent in force at registration is part of what a registration stores, for every way of registering
    ML = {"op": "reg_string", "reg": 0, "name": "b", "src": "L1\nL2{{x}}"}
    PI = lambda v: {"op": "set_prevent_indent", "reg": 0, "v": v}
    INC = "x\n  {{> b}}\ny"
    ways = [{"op": "reg_file", "reg": 0, "name": "c", "file": "f2"}, {"op": "reg_string", "reg": 0, "name": "c", "src": INC},
            {"op": "reg_partial", "reg": 0, "name": "c", "src": INC}, {"op": "reg_template", "reg": 0, "name": "c", "src": INC, "tname": "c"}]
    d = 0
    for w in ways:
        for hist in ([ML, PI(True), w], [PI(True), ML, w, PI(False)], [ML, w, PI(True)], [PI(True), w, ML, {"op": "clone", "reg": 0}, PI(False)],
                     [ML, PI(True), {"op": "set_dev", "reg": 0, "v": True}, w, {"op": "set_dev", "reg": 0, "v": False}]):
            out.append(build([dict(o) for o in hist], "%s-d%03d" % (ID, d)))
            d += 1
    # directed: a FAILED registration over a tracked name, by every way of registering, with the file changing before / after
    DEV = {"op": "set_dev", "reg": 0, "v": True}
    TRK = {"op": "reg_file", "reg": 0, "name": "a", "file": "f1"}
    WR = lambda c: {"op": "write_file", "file": "f1", "content": c}
    fails = [{"op": "reg_string", "reg": 0, "name": "a", "src": "{{#if x}}"}, {"op": "reg_partial", "reg": 0, "name": "a", "src": "{{/each}}"},
             {"op": "reg_template", "reg": 0, "name": "a", "src": "{{foo 1.}}", "tname": "a"}, {"op": "reg_file", "reg": 0, "name": "a", "file": "f3"}]
    for fl in fails:
        for hist in ([DEV, TRK, fl, WR("F3")], [DEV, TRK, WR("F3"), fl], [DEV, TRK, WR("{{#bad"), dict(TRK), WR("F3")],
                     [DEV, TRK, fl, WR("F3"), {"op": "set_dev", "reg": 0, "v": False}], [TRK, DEV, fl, WR("F3")],
                     [DEV, TRK, {"op": "clone", "reg": 0}, fl, WR("F3")]):
            out.append(build([dict(o) for o in hist], "%s-d%03d" % (ID, d)))
            d += 1
    # directed: a tracked file INCLUDED as a partial by another template follows its file too
    TRKB = {"op": "reg_file", "reg": 0, "name": "b", "file": "f1"}
    for inc in ("{{> b}}!", "x\n  {{> b}}\ny"):
        INC_A = {"op": "reg_string", "reg": 0, "name": "a", "src": inc}
        for hist in ([DEV, TRKB, INC_A, WR("F3")], [DEV, INC_A, TRKB, WR("F3")], [DEV, TRKB, WR("F3"), INC_A],
                     [DEV, TRKB, INC_A, WR("F3"), {"op": "set_dev", "reg": 0, "v": False}], [TRKB, INC_A, DEV, WR("F3")],
                     [DEV, TRKB, INC_A, {"op": "clone", "reg": 0}, WR("L1\nL2{{x}}")]):
            out.append(build([dict(o) for o in hist], "%s-d%03d" % (ID, d)))
            d += 1
    # directed: an inline partial named like a TRACKED registry entry (dev mode on, off, switched; the includer from a string or a file)
    INL = "{{#*inline \"b\"}}I{{/inline}}[{{> b}}]"
    INL_A = {"op": "reg_string", "reg": 0, "name": "a", "src": INL}
    for hist in ([DEV, TRKB, INL_A, WR("F3")], [TRKB, INL_A, DEV, WR("F3")], [DEV, INL_A, TRKB], [DEV, TRKB, INL_A, {"op": "set_dev", "reg": 0, "v": False}],
                 [DEV, TRKB, {"op": "write_file", "file": "f2", "content": INL}, {"op": "reg_file", "reg": 0, "name": "a", "file": "f2"}, WR("F3")],
                 [DEV, {"op": "reg_string", "reg": 0, "name": "b", "src": "plain"}, INL_A], [DEV, TRKB, INL_A, {"op": "clone", "reg": 0}, WR("F3")],
                 [DEV, TRKB, {"op": "reg_file", "reg": 0, "name": "c", "file": "f1"}, INL_A, WR("A{{x}}")]):
        out.append(build([dict(o) for o in hist], "%s-d%03d" % (ID, d)))
        d += 1
    # directed: turning dev mode off STOPS tracking – a later on-switch does not resume it; registrations made while it is
    # off are not tracked either; only a new registration under dev mode tracks again
    OFF = {"op": "set_dev", "reg": 0, "v": False}
    DEL = {"op": "delete_file", "file": "f1"}
    for hist in ([DEV, TRK, OFF, WR("F3"), DEV], [DEV, TRK, OFF, DEV, WR("F3")], [DEV, TRK, OFF, DEL, DEV], [DEV, TRK, OFF, DEV, DEL],
                 [DEV, TRK, OFF, WR("F3"), DEV, OFF, DEV], [DEV, TRK, OFF, DEV, TRK, WR("F3")], [DEV, OFF, TRK, DEV, WR("F3")],
                 [DEV, TRK, OFF, TRK, DEV, WR("F3")], [DEV, TRK, {"op": "clone", "reg": 0}, OFF, WR("F3"), DEV],
                 [DEV, TRKB, {"op": "reg_string", "reg": 0, "name": "a", "src": "{{> b}}!"}, OFF, WR("F3"), DEV],
                 [DEV, TRKB, {"op": "reg_string", "reg": 0, "name": "a", "src": "{{> b}}!"}, OFF, DEL, DEV]):
        out.append(build([dict(o) for o in hist], "%s-d%03d" % (ID, d)))
        d += 1
    for j in range(n):
        r = rng.fork(j)
        hist = []
        nregs = 1
        for _ in range(r.range(4, 12)):
            op = rand_op(r, nregs)
            if op["op"] == "clone":
                nregs += 1
            hist.append(op)
        out.append(build(hist, "%s-r%06d" % (ID, j)))
    return out


def oracle(case, meta, impl):
    if impl.get("r") != "session":
        return ["no result"]
    v = []
    for op, exp, got in zip(case["ops"], meta["expect"], impl["results"]):
        if got.get("r") in ("panic", "crash"):
            v.append("%s did not return" % op["op"])
            continue
        if exp is None:
            continue
        if exp[0] == "reg":
            ok = got.get("r") == "ok"
            if ok != (exp[1] == "ok"):
                v.append("%s %s: expected %s got %s" % (op["op"], op.get("name"), exp[1], got.get("r")))
        elif exp[0] == "keys":
            if got.get("v") != exp[1]:
                v.append("get_templates keys: expected %s got %s" % (exp[1], got.get("v")))
        elif exp[0] == "has":
            if got.get("v") != exp[1]:
                v.append("has_template(%s): expected %s got %s" % (op["name"], exp[1], got.get("v")))
        elif exp[0] == "render":
            e = ref_render(exp[2], exp[3])
            if e is None:
                continue
            if e[0] == "ok":
                if not (got.get("r") == "ok" and got.get("out") == e[1]):
                    v.append("render(%s): expected %r got %s %r" % (exp[2], e[1], got.get("r"), got.get("out", got.get("reason"))))
            else:
                if not (got.get("r") == "rerr" and got.get("reason") == e[1]):
                    v.append("render(%s): expected error %s got %s %r" % (exp[2], e[1], got.get("r"), got.get("out", got.get("reason"))))
        elif exp[0] == "include":
            e = ref_render(exp[2], exp[3])
            snap = exp[3]
            if snap["dev"] and any(ent[0] == "file" and (snap["fs"].get(ent[1]) is None or not valid(snap["fs"].get(ent[1]))) for ent in snap["m"].values()):
                e = ("err", "TemplateError")      # a dev-mode render loads every tracked file first
            if e is None:
                continue
            if e[0] == "ok":
                if not (got.get("r") == "ok" and got.get("out") == e[1] + "!"):
                    v.append("%s('{{> %s}}!'): expected %r got %s %r" % (op["api"], exp[2], e[1] + "!", got.get("r"), got.get("out", got.get("reason"))))
            else:
                want = "PartialNotFound" if e[1] == "TemplateNotFound" else e[1]
                if want == "CannotIncludeSelf":
                    continue        # the including string is another template: whether the inner inclusion still counts as "self" is not stated
                if not (got.get("r") == "rerr" and got.get("reason") == want):
                    v.append("%s('{{> %s}}!'): expected error %s got %s %r" % (op["api"], exp[2], want, got.get("r"), got.get("out", got.get("reason"))))
        if len(v) > 3:
            break
    return v


def project(case, meta, res):
    """with two or more tracked sources that fail to load, WHICH one a dev-mode render reports depends on the iteration
    order of the registry's HashMap of sources (stable for one registry value, not across registries): the property
    constrains that the render fails with the load error of a tracked source, not which – the name and reason inside a
    TemplateError are compared only up to that"""
    import copy
    r = copy.deepcopy(res)
    for x in r.get("results", []):
        if x.get("r") == "rerr" and x.get("reason") == "TemplateError":
            x["args"] = ["<load error of a tracked source>"]
    return r


def nontrivial_key(case, meta, impl):
    return case["id"] if any(h.startswith("reg_") for h in meta["hist"]) else None


def outcome_kind(case, meta, impl):
    return "len%d" % meta["len"]
