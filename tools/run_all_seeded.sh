#!/bin/sh
# (development) runs every kept seeded change and regression patch against its property's quick check
cd /verif
for d in seeded/*/; do
  id=$(basename $d)
  r=$(python3 tools/run_seeded.py $id 2>&1 | grep -E "quick:|CAUGHT|MISSED|refusing|does not apply" | tr '\n' ' ')
  echo "$id :: $r"
done
