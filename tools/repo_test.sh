#!/bin/sh
# runs the repository's test suite offline and prints pass/fail totals
cd /repo && cargo test --workspace --no-fail-fast --offline 2>&1 | awk '/^test result/ {p+=$4; f+=$6} /FAILED|panicked/ {print} END {print "passed=" p " failed=" f}'
