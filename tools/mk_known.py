#!/usr/bin/env python3
"""(development) rebuilds known_findings.json: signatures of the listed witness cases are taken from the
property modules' own directed cases, so a listed finding is identified by its specific input."""
import importlib, json, os, sys
sys.path.insert(0, os.path.dirname(os.path.dirname(os.path.abspath(__file__))))
from vlib.rng import Rng

def sig(case):
    c = {k: v for k, v in case.items() if k not in ("id",)}
    return json.dumps(c, sort_keys=True, ensure_ascii=True)

def find(prop, cid):
    mod = importlib.import_module("vlib.props." + prop)
    for c, m in mod.generate(Rng(1), 5, "quick"):
        if c.get("id") == cid:
            return sig(c)
    raise KeyError(cid)

known = [
    {"id": "F20", "property": "C08", "status": "known", "case_id": "C08-F20",
     "what": "the grammar lets whitespace separate '{{!' from '--', so a compact comment whose text begins with '--' ({{! ---}}) opens a block comment when a later '--}}' exists: '|x{{! ---}}y|x{{! ---}}y|' renders '|xy|' although 'x{{! ---}}y' alone renders 'xy' (the leniency is pinned by grammar::test_comment, so it is recorded, not repaired)"},
    {"id": "F12", "property": "C13", "status": "known", "case_id": "C13-F12",
     "what": "a tag whose name is a subexpression, {{(h)}}, invokes h twice per evaluation (expand_as_name, then again in Helper::try_from_template); witness {{(cnt)}} prints 1 instead of 0"},
    {"id": "F15", "property": "C13", "status": "known", "case_id": "C13-F15",
     "what": "a single-quoted string nested in an array/object literal, {{pr ['a']}}, is accepted by the grammar but rejected by serde_json (InvalidParam): only top-level single-quoted strings are rewritten"},
]
fixed = [
    "fixed: property=C04 062ed89 '{{~else if x}}' panicked in parse_name (unreachable!) – F14",
    "fixed: property=C03 def3475 raw block body lost its leading whitespace ('{{{{raw}}}} x {{{{/raw}}}}' rendered 'x ') – F1",
    "fixed: property=C06 e011d21 subnormal floats (5e-324) were falsy (f64::is_normal) – F5",
    "fixed: property=C17 9101977 dev mode: register_template_string over a name tracked from a file left the stale source, the file kept winning – F6",
    "fixed: property=C11 4336d3c '{{x~}} {{!c}} z' rendered 'Xz': a comment tag did not end the reach of '~}}' – F7",
    "fixed: property=C11 129949f '  {{!c}}  ' rendered four spaces: a standalone tag followed only by blanks before the end of the template was not standalone – F8",
    "fixed: property=C09 8ca3887 '{{> @partial-block}}' twice in one partial failed with PartialNotFound; nested partial blocks / a partial included from a block body re-entered the body until the stack overflowed (also C05, C08) – F2, F3",
    "fixed: property=C09 f5cd632 't = {{#if a}}x{{/if}}{{> t}}' was not reported as CannotIncludeSelf and overflowed the stack (also C05, C08) – F4",
    "fixed: property=C18 a9dc236 InvalidParam compile errors ({{foo 1.}}) had no template name or position – F10",
    "fixed: property=C12 8faffaa a nested partial that starts a line of an indented partial without being standalone, or is the first thing written, lost the indentation of its first line – F13, F16",
    "fixed: property=C10 29c8d6e after a decorator replaced the context a missing path was delivered as null: strict mode accepted {{nope}} and missing helper arguments – F17",
    "fixed: property=C18 4485eb0 an error inside an inline partial / partial-block body was labelled with the including partial's name – F9",
    "fixed: property=C13 e78d0f2 number literals with an exponent or more than 19 digits ({{h 108E-28}}) reached the helper one ulp away from the value written: serde_json was built without float_roundtrip – F18",
    "fixed: property=C11 84029ad a standalone tag with a trailing '~' followed by whitespace and then directly by a value tag left the 'trim the rest of the line' marker set: '{{> p~}}\\n{{v}}  z' rendered 'PVz' instead of 'PV  z' (whitespace beyond the neighbouring tag removed; found by the neighbour-tag grid of C11 added after seeded change C03-3 was missed) – F21",
    "fixed: property=C16 1035401 hash arguments were evaluated in HashMap order: with two failing arguments ({{> p k=(lookup nope 'x') x=(eq nope 1)}} in strict mode) render and render_template, or two runs of the same program, failed with different errors – F19",
]
for k in known:
    k["signature"] = find(k["property"], k.pop("case_id"))
out = {"_comment": "genuine defects of the pinned tree that are recorded rather than repaired (status=known: identified by the specific input in 'signature'), and the repaired ones ('fixed' lines suppress nothing). Never written at run time.",
       "findings": known, "fixed": fixed}
p = os.path.join(os.path.dirname(os.path.dirname(os.path.abspath(__file__))), "known_findings.json")
json.dump(out, open(p, "w"), indent=1)
print("wrote", p)
