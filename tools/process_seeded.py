#!/usr/bin/env python3
"""(development) tools/process_seeded.py <WT> <PROP>: next free id, adopt (confirm), run against /repo, remove the worktree"""
import glob, os, re, subprocess, sys
wt, prop = sys.argv[1], sys.argv[2]
ids = [int(re.search(r"-(\d+)$", d).group(1)) for d in glob.glob("/verif/seeded/%s-*" % prop)]
sid = "%s-%d" % (prop, max(ids + [0]) + 1)
env = dict(os.environ, WT=wt)
r = subprocess.run([sys.executable, "/verif/tools/adopt_seeded.py", prop, sid], env=env, capture_output=True, text=True)
print(r.stdout[-1500:])
if "KEPT" in r.stdout:
    r2 = subprocess.run([sys.executable, "/verif/tools/run_seeded.py", sid], capture_output=True, text=True)
    print("\n".join(l for l in r2.stdout.split("\n") if not l.startswith("   [")) [-900:])
subprocess.run(["git", "-C", "/repo", "worktree", "remove", "--force", "/tmp/mut/" + wt])
print(subprocess.run(["git", "-C", "/repo", "status", "--short"], capture_output=True, text=True).stdout[:200])
