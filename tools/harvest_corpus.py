#!/usr/bin/env python3
"""(development) tools/harvest_corpus.py [seeded-id ...]: for every kept seeded change (default: all) apply it to /repo, run
the property's quick check with VERIF_HARVEST, and keep up to three of the violating cases (with their oracle data) in
/verif/corpus/<PROP>.jsonl; /repo is always restored.  A corpus case passes on the unchanged tree by construction."""
import glob, json, os, shutil, subprocess, sys
HERE = os.path.dirname(os.path.dirname(os.path.abspath(__file__)))
ids = sys.argv[1:] or sorted(os.path.basename(d) for d in glob.glob(os.path.join(HERE, "seeded", "*")) if os.path.isdir(d))
st = subprocess.run(["git", "-C", "/repo", "status", "--porcelain", "--untracked-files=no"], capture_output=True, text=True).stdout.strip()
if st:
    print("refusing: /repo has uncommitted changes"); sys.exit(2)
os.makedirs(os.path.join(HERE, "corpus"), exist_ok=True)
evd = os.path.join(HERE, "evidence")
for sid in ids:
    d = os.path.join(HERE, "seeded", sid)
    meta = json.load(open(os.path.join(d, "meta.json")))
    prop = meta["property"]
    r = subprocess.run(["git", "-C", "/repo", "apply", os.path.join(d, "patch.diff")], capture_output=True, text=True)
    if r.returncode != 0:
        print(sid, "patch does not apply"); continue
    keep = os.path.join(evd, prop + ".json.keep")
    if os.path.exists(os.path.join(evd, prop + ".json")):
        shutil.copy(os.path.join(evd, prop + ".json"), keep)
    tmp = "/tmp/harvest_%s.jsonl" % sid
    try:
        subprocess.run([os.path.join(HERE, "check"), prop, "quick"], capture_output=True, text=True, cwd=HERE, env=dict(os.environ, VERIF_HARVEST=tmp))
    finally:
        subprocess.run(["git", "-C", "/repo", "checkout", "--", "."], check=True)
        subprocess.run(["git", "-C", "/repo", "clean", "-fdq", "src"], check=True)
        if os.path.exists(keep):
            shutil.move(keep, os.path.join(evd, prop + ".json"))
    got = [json.loads(l) for l in open(tmp)] if os.path.exists(tmp) else []
    if os.path.exists(tmp):
        os.remove(tmp)
    cp = os.path.join(HERE, "corpus", prop + ".jsonl")
    have = set()
    if os.path.exists(cp):
        for l in open(cp):
            if l.strip():
                e = json.loads(l)
                have.add(json.dumps({k: v for k, v in e["case"].items() if k != "id"}, sort_keys=True))
    added = 0
    with open(cp, "a") as f:
        for e in got:
            sig = json.dumps({k: v for k, v in e["case"].items() if k != "id"}, sort_keys=True)
            if sig in have:
                continue
            have.add(sig)
            f.write(json.dumps({"from": sid, "case": e["case"], "meta": e["meta"], "why": e.get("why", "")}, ensure_ascii=True) + "\n")
            added += 1
    print(sid, prop, "harvested", len(got), "added", added)
subprocess.run([sys.executable, "-c", "import sys; sys.path.insert(0, %r); from vlib import core; core.build_harness(); core.regen()" % HERE], cwd=HERE, capture_output=True)
