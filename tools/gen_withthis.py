#!/usr/bin/env python3
"""(development) tools/gen_withthis.py: writes lean/HbsModel/Lemmas/WithThis.lean – compile2 on  L ++ {{#with v}}{{this}}{{/with}} ++ R  – by
substitution in Lemmas/WithUp.lean ({{#with v}}{{../x}}{{/with}}: `this` has the length of `../x`; the pair list loses `path_up`, `path_id`
spans the whole word, and the word compiles to the path without segments).  The output is an ordinary Lean file, checked by the kernel."""
import os
HERE = os.path.dirname(os.path.dirname(os.path.abspath(__file__)))
base = os.path.join(HERE, "lean", "HbsModel", "Lemmas")
s = open(os.path.join(base, "WithUp.lean")).read()
s = s.replace("⟨some .r_path_up, 13, 15⟩, ", "")
s = s.replace("⟨some .r_path_up, a + 13, a + 15⟩,\n", "\n")
s = s.replace(":: ⟨some .r_path_up, a + 13, a + 15, []⟩\n", "\n")
s = s.replace("⟨some .r_path_up, L.length + 13, L.length + 15, []⟩ ::\n", "\n")
s = s.replace("    · show ((some Rule.r_path_up : Option Rule) == some Rule.r_escape) = false; decide\n", "")
s = s.replace("rfl | rfl | rfl | rfl | rfl | rfl | rfl | rfl | rfl | rfl | rfl | rfl | rfl | rfl | rfl)", "rfl | rfl | rfl | rfl | rfl | rfl | rfl | rfl | rfl | rfl | rfl | rfl | rfl | rfl)")
s = s.replace("(0 + 1) + 1 + 1 + 1 + 1 + 1 + 1 + 1 + 1 + 1 + 1 + 1 + 1 + 1 + 1)", "(0 + 1) + 1 + 1 + 1 + 1 + 1 + 1 + 1 + 1 + 1 + 1 + 1 + 1 + 1)")
# hxid: the path_id pair spans the whole `this`
a = s.index("  have hxid : tokStr (L ++ wuSrc"); b = s.index("  have hid2 :")
ha = s.index("  have href : tokStr (L ++ wuSrc")
href = s[ha:a]
s = s[:a] + href.replace("have href", "have hxid").replace("some .r_reference", "some .r_path_id") + s[b:]
s = s.replace("'.', '.', '/', 'x'", "'t', 'h', 'i', 's'")
s = s.replace("{{#with v}}{{../x}}{{/with}}", "{{#with v}}{{this}}{{/with}}").replace("{{../x}}", "{{this}}")
s = s.replace("a + 16", "a + 13").replace("L.length + 16", "L.length + 13").replace(", 16, 17⟩", ", 13, 17⟩")
for a_, b_ in [(" + 70", " + 66"), (" + 69", " + 65"), (" + 73", " + 69")]:
    s = s.replace(a_, b_)
s = s.replace("name := .path (.relative [.up, .named ['x']] ['t', 'h', 'i', 's'])", "name := .path (.relative [] ['t', 'h', 'i', 's'])")
s = s.replace("(hxid : tokStr src ⟨some .r_path_id, a + 13, a + 17, []⟩ = ['x'])", "(hxid : tokStr src ⟨some .r_path_id, a + 13, a + 17, []⟩ = ['t', 'h', 'i', 's'])")
s = s.replace("have hne : ((['x'] : Str) = str \"this\") = False := by simp [str]", "have hne : ((['t', 'h', 'i', 's'] : Str) = str \"this\") = True := by simp [str]")
for x, y in [("wuSrc", "wtSrc"), ("wuToks", "wtToks"), ("wu_decided", "wt_decided"), ("wu_tagAt", "wt_tagAt"), ("parse_text_wu_text", "parse_text_wt_text"),
             ("step_wu_start", "step_wt_start"), ("step_wu_end", "step_wt_end"), ("step_inner_up", "step_inner_this"), ("upHT", "thisHT"), ("wuHT", "wtHT"),
             ("wuBody", "wtBody"), ("compile_text_wu_text", "compile_text_wt_text")]:
    s = s.replace(x, y)
open(os.path.join(base, "WithThis.lean"), "w").write(s)
