#!/bin/sh
# (development) line/region coverage of /repo/src under the case files of the last run of every check
# (work/<ID>/cases.jsonl): builds an instrumented copy of the harness with the nightly toolchain in a scratch
# directory outside /verif and /repo, runs the real crate on all case files, prints llvm-cov's report.
set -e
S=${1:-/tmp/hbs-cov}
T=$(ls -d /root/.rustup/toolchains/nightly-x86_64-unknown-linux-gnu/lib/rustlib/*/bin | head -1)
rm -rf "$S"; mkdir -p "$S/prof"
(cd /verif/harness && tar cf - --exclude=target .) | (cd "$S" && tar xf -)
(cd "$S" && RUSTFLAGS="-C instrument-coverage" CARGO_NET_OFFLINE=true cargo +nightly build --release --offline --bin hbs-verif >/dev/null 2>&1)
for f in /verif/work/C*/cases.jsonl; do
  LLVM_PROFILE_FILE="$S/prof/%p-%m.profraw" "$S/target/release/hbs-verif" "$f" >/dev/null 2>&1 || true
done
"$T/llvm-profdata" merge -sparse "$S"/prof/*.profraw -o "$S/all.profdata"
"$T/llvm-cov" report "$S/target/release/hbs-verif" -instr-profile="$S/all.profdata" --ignore-filename-regex='(\.cargo|rustc|/verif/|cli\.rs|/tmp/)'
echo "details: $T/llvm-cov show $S/target/release/hbs-verif -instr-profile=$S/all.profdata /repo/src/<file>"
