#!/usr/bin/env python3
"""Runs the checks against a kept seeded change:  tools/run_seeded.py <seeded-id> [props...] [--tier quick|thorough]
Applies /verif/seeded/<id>/patch.diff to /repo (git apply), runs ./check for the property the change breaks
(or the listed ones), prints the verdict lines, and ALWAYS restores /repo (git checkout -- .)."""
import json, os, subprocess, sys
HERE = os.path.dirname(os.path.dirname(os.path.abspath(__file__)))
sid = sys.argv[1]
args = [a for a in sys.argv[2:] if not a.startswith("--")]
tier = "quick"
if "--tier" in sys.argv:
    tier = sys.argv[sys.argv.index("--tier") + 1]
    args = [a for a in args if a != tier]
d = os.path.join(HERE, "seeded", sid)
meta = json.load(open(os.path.join(d, "meta.json")))
props = args or [meta["property"]]
st = subprocess.run(["git", "-C", "/repo", "status", "--porcelain", "--untracked-files=no"], capture_output=True, text=True).stdout.strip()
if st:
    print("refusing: /repo has uncommitted changes:\n" + st)
    sys.exit(2)
r = subprocess.run(["git", "-C", "/repo", "apply", os.path.join(d, "patch.diff")], capture_output=True, text=True)
if r.returncode != 0:
    print("patch does not apply:", r.stderr)
    sys.exit(2)
results = {}
# evidence written while a seeded change is applied describes the seeded tree: keep the real one aside
import shutil
saved = {}
for p in props:
    ev = os.path.join(HERE, "evidence", p + ".json")
    if os.path.exists(ev):
        saved[p] = ev + ".keep"
        shutil.copy(ev, saved[p])
try:
    for p in props:
        pr = subprocess.run([os.path.join(HERE, "check"), p, tier], capture_output=True, text=True, cwd=HERE)
        lines = [l for l in pr.stdout.split("\n") if l.strip()]
        results[p] = {"exit": pr.returncode, "lines": lines}
        print("== %s exit=%d" % (p, pr.returncode))
        for l in lines:
            print("   " + l)
finally:
    for p, keep in saved.items():
        shutil.move(keep, os.path.join(HERE, "evidence", p + ".json"))
    subprocess.run(["git", "-C", "/repo", "checkout", "--", "."], check=True)
    subprocess.run(["git", "-C", "/repo", "clean", "-fdq", "src"], check=True)
    # the generated Lean modules follow /repo: put them back too, so that nothing derived from the seeded tree is left
    subprocess.run([sys.executable, "-c", "import sys; sys.path.insert(0, %r); from vlib import core; core.build_harness(); core.regen()" % HERE],
                   cwd=HERE, capture_output=True)
json.dump(results, open(os.path.join(d, "last_run.json"), "w"), indent=1)
caught = any(v["exit"] == 1 and any("VIOLATION" in l for l in v["lines"]) for v in results.values())
print("CAUGHT" if caught else "MISSED")
